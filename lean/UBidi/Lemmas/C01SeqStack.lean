/-
  C01 / StageSeq, part 1: the stack algorithm of `prepare::isolating_run_sequences`
  against BD13 (`Spec.addRun`), in the setting without X9-removed characters, from
  abstract facts about the match table and the level runs (`Hyp`).
-/
import UBidi.Model.Prepare
import UBidi.Spec.UAX9
import UBidi.Lemmas.C13Seqs
namespace UBidi.Lemmas.C01Seq
open UBidi UBidi.BidiClass
open UBidi.Props.C13 (Contig contig_append contig_bounds modFirst continues addRun_eq_modFirst)

abbrev Seq := List (Nat × Nat)

/-- end of the last run of a sequence (0 for the empty sequence) -/
def lastEnd (s : Seq) : Nat := (s.getLast?.map (·.2)).getD 0

theorem lastEnd_snoc (s : Seq) (r : Nat × Nat) : lastEnd (s ++ [r]) = r.2 := by
  simp [lastEnd]

theorem continues_iff (mt : List (Option Nat)) (x : Nat) (s : Seq) :
    continues mt x s = true ↔ s ≠ [] ∧ 0 < lastEnd s ∧ mt.getD (lastEnd s - 1) none = some x := by
  unfold continues lastEnd
  rcases List.eq_nil_or_concat s with rfl | ⟨s', r, rfl⟩
  · simp
  · obtain ⟨a, e⟩ := r
    simp

/-- the stack (without its bottom entry `[]`) and the finished sequences -/
structure KState where
  entries : List Seq
  done : List Seq

/-- `prepStep` without the error field and the bottom entry, with the two tests it makes on
    the classes given as Booleans -/
def gStep (isPDI isIso : Bool) (st : KState) (run : Nat × Nat) : KState :=
  let pop := isPDI && !st.entries.isEmpty
  let seq := (if pop then st.entries.headD [] else []) ++ [run]
  let rest := if pop then st.entries.tail else st.entries
  if isIso then ⟨seq :: rest, st.done⟩ else ⟨rest, st.done ++ [seq]⟩

/-- the step when no character is removed by X9: the first class of the run, the last class of the run -/
def kStep (cs : List BidiClass) (st : KState) (run : Nat × Nat) : KState :=
  gStep (cs.getD run.1 ON == PDI) (cs.getD (run.2 - 1) ON).isIsolateInitiator st run

/-- what the proof needs to know about the match table `mt` and the runs `R` of a text of
    `m` characters with classes `cs` -/
structure Hyp (cs : List BidiClass) (mt : List (Option Nat)) (R : List (Nat × Nat)) (m : Nat) : Prop where
  contig : Contig 0 R m
  /-- BD9: an initiator and a later PDI -/
  h1 : ∀ q p, mt.getD q none = some p →
    (cs.getD q ON).isIsolateInitiator = true ∧ q < p ∧ cs.getD p ON = PDI
  /-- a PDI matches at most one initiator -/
  inj : ∀ q q' p, mt.getD q none = some p → mt.getD q' none = some p → q = q'
  /-- a PDI in the scope of a still open initiator is matched by an initiator in that scope -/
  h3 : ∀ q x, (cs.getD q ON).isIsolateInitiator = true → q < x → cs.getD x ON = PDI →
    (∀ p, mt.getD q none = some p → x < p) → ∃ q', q < q' ∧ q' < x ∧ mt.getD q' none = some x
  /-- X1–X8: an initiator is the last character of its level run iff its matching PDI is the
      first character of its level run -/
  f3 : ∀ q p, mt.getD q none = some p → ((∃ r ∈ R, r.2 = q + 1) ↔ (∃ r ∈ R, r.1 = p))

/-- the simulation invariant after the runs `R1` (which tile `[0, x)`) -/
structure Inv (cs : List BidiClass) (mt : List (Option Nat)) (R1 : List (Nat × Nat)) (x : Nat)
    (st : KState) (Q : List Seq) : Prop where
  perm : Q.Perm (st.done ++ st.entries)
  sorted : st.entries.Pairwise (fun a b => lastEnd b < lastEnd a)
  ent : ∀ s ∈ st.entries, s ≠ [] ∧ (∃ r ∈ R1, r.2 = lastEnd s) ∧ 0 < lastEnd s ∧
    (cs.getD (lastEnd s - 1) ON).isIsolateInitiator = true ∧
    ∀ p, mt.getD (lastEnd s - 1) none = some p → x ≤ p
  complete : ∀ r ∈ R1, 0 < r.2 → (cs.getD (r.2 - 1) ON).isIsolateInitiator = true →
    (∀ p, mt.getD (r.2 - 1) none = some p → x ≤ p) → ∃ s ∈ st.entries, lastEnd s = r.2
  dn : ∀ s ∈ st.done, s ≠ [] ∧ (0 < lastEnd s → (cs.getD (lastEnd s - 1) ON).isIsolateInitiator = false)

theorem modFirst_miss {α} (p : α → Bool) (f : α → α) (d : α) (Q : List α)
    (h : ∀ s ∈ Q, p s = false) : modFirst p f d Q = Q ++ [d] := by
  induction Q with
  | nil => rfl
  | cons a Q ih =>
    simp only [modFirst, h a (by simp), Bool.false_eq_true, if_false, List.cons_append]
    rw [ih (fun s hs => h s (by simp [hs]))]

theorem modFirst_hit {α} [DecidableEq α] (p : α → Bool) (f : α → α) (d : α) (Q : List α) (s : α)
    (T : List α) (hp : Q.Perm (s :: T)) (hs : p s = true) (hT : ∀ t ∈ T, p t = false) :
    (modFirst p f d Q).Perm (f s :: T) := by
  induction Q generalizing T with
  | nil => exact absurd hp.symm (List.cons_ne_nil _ _ ∘ List.Perm.eq_nil)
  | cons a Q ih =>
    simp only [modFirst]
    by_cases ha : p a = true
    · simp only [ha, if_true]
      have hmem : a ∈ s :: T := hp.subset (by simp)
      rcases List.mem_cons.1 hmem with rfl | hm
      · exact List.Perm.cons _ (List.Perm.cons_inv hp)
      · rw [hT a hm] at ha; cases ha
    · simp only [ha]
      have hmem : a ∈ s :: T := hp.subset (by simp)
      have hne : a ≠ s := fun e => ha (e ▸ hs)
      have hm : a ∈ T := by
        rcases List.mem_cons.1 hmem with h | h
        · exact absurd h hne
        · exact h
      have hT' : T.Perm (a :: T.erase a) := List.perm_cons_erase hm
      have h1 : (a :: Q).Perm (a :: s :: T.erase a) :=
        hp.trans ((List.Perm.cons s hT').trans (List.Perm.swap a s _))
      have h2 := ih (T.erase a) (List.Perm.cons_inv h1)
        (fun t ht => hT t (List.mem_of_mem_erase ht))
      exact ((List.Perm.cons a h2).trans (List.Perm.swap (f s) a _)).trans
        (List.Perm.cons (f s) hT'.symm)

section step
variable {cs : List BidiClass} {mt : List (Option Nat)} {R : List (Nat × Nat)} {m : Nat}

theorem contig_split {R1 R2 : List (Nat × Nat)} {r : Nat × Nat} {m : Nat}
    (h : Contig 0 (R1 ++ r :: R2) m) :
    Contig 0 R1 r.1 ∧ r.1 < r.2 ∧ Contig r.2 R2 m ∧
    (∀ r' ∈ R1, r'.1 < r'.2 ∧ r'.2 ≤ r.1) ∧ (∀ r' ∈ R2, r.2 ≤ r'.1 ∧ r'.1 < r'.2) := by
  rw [contig_append] at h
  obtain ⟨mid, h1, h2⟩ := h
  simp only [Contig] at h2
  obtain ⟨rfl, h3, h4⟩ := h2
  refine ⟨h1, h3, h4, ?_, ?_⟩
  · intro r' hr'
    have := (contig_bounds h1).2 r' hr'
    omega
  · intro r' hr'
    have := (contig_bounds h4).2 r' hr'
    omega

theorem inv_step (H : Hyp cs mt R m) {R1 R2 : List (Nat × Nat)} {r : Nat × Nat}
    (hR : R = R1 ++ r :: R2) {st : KState} {Q : List Seq} (I : Inv cs mt R1 r.1 st Q) :
    Inv cs mt (R1 ++ [r]) r.2 (kStep cs st r) (Spec.addRun mt Q r) := by
  have hc := H.contig
  rw [hR] at hc
  obtain ⟨c1, hxy, c2, hR1, hR2⟩ := contig_split hc
  -- no run starts strictly inside `r`
  have nostart : ∀ p, r.1 < p → p < r.2 → ¬ ∃ r' ∈ R, r'.1 = p := by
    rintro p hp1 hp2 ⟨r', hr', rfl⟩
    rw [hR] at hr'
    rcases List.mem_append.1 hr' with h | h
    · have := hR1 r' h; omega
    · rcases List.mem_cons.1 h with rfl | h
      · omega
      · have := hR2 r' h; omega
  have memR1 : ∀ r' ∈ R1, r' ∈ R := fun r' h => by rw [hR]; simp [h]
  have memr : r ∈ R := by rw [hR]; simp
  -- an entry that stays on the stack is still open after the run
  have stays : ∀ s ∈ st.entries, mt.getD (lastEnd s - 1) none ≠ some r.1 →
      ∀ p, mt.getD (lastEnd s - 1) none = some p → r.2 ≤ p := by
    intro s hs hne p hp
    obtain ⟨_, ⟨r', hr', hr'e⟩, hpos, _, hopen⟩ := I.ent s hs
    have h1 := hopen p hp
    by_cases hlt : p < r.2
    · exfalso
      have hpx : r.1 < p := by
        rcases Nat.lt_or_ge r.1 p with h | h
        · exact h
        · have : p = r.1 := by omega
          subst this; exact absurd hp hne
      have : ∃ r'' ∈ R, r''.1 = p :=
        (H.f3 (lastEnd s - 1) p hp).1 ⟨r', memR1 r' hr', by omega⟩
      exact nostart p hpx hlt this
    · omega
  by_cases hpop : (cs.getD r.1 ON == PDI && !st.entries.isEmpty) = true
  · -- the run starts with a PDI and the stack is not empty: pop
    simp only [Bool.and_eq_true, beq_iff_eq, Bool.not_eq_true', List.isEmpty_eq_false_iff] at hpop
    obtain ⟨hPDI, hne⟩ := hpop
    obtain ⟨top, rest, hent⟩ := List.exists_cons_of_ne_nil hne
    have hsorted := I.sorted
    rw [hent] at hsorted
    have hsorted' := List.pairwise_cons.1 hsorted
    obtain ⟨htne, ⟨rt, hrt, hrte⟩, htpos, htiso, htopen⟩ := I.ent top (by rw [hent]; simp)
    -- the top of the stack is matched by this PDI
    have hmatch : mt.getD (lastEnd top - 1) none = some r.1 := by
      apply Classical.byContradiction
      intro hno
      have hlt : lastEnd top - 1 < r.1 := by have := hR1 rt hrt; omega
      obtain ⟨q', hq1, hq2, hq3⟩ := H.h3 (lastEnd top - 1) r.1 htiso hlt hPDI (by
        intro p hp
        have := htopen p hp
        rcases Nat.lt_or_ge r.1 p with h | h
        · exact h
        · have : p = r.1 := by omega
          subst this; exact absurd hp hno)
      obtain ⟨r', hr', hr'e⟩ := (H.f3 q' r.1 hq3).2 ⟨r, memr, rfl⟩
      have hr'1 : r' ∈ R1 := by
        rw [hR] at hr'
        rcases List.mem_append.1 hr' with h | h
        · exact h
        · rcases List.mem_cons.1 h with rfl | h
          · omega
          · have := hR2 r' h; omega
      obtain ⟨s', hs', hs'e⟩ := I.complete r' hr'1 (by omega)
        (by rw [hr'e]; simpa using (H.h1 q' r.1 hq3).1)
        (by intro p hp; rw [hr'e] at hp; simp only [Nat.add_sub_cancel] at hp; rw [hq3] at hp
            cases hp; exact Nat.le_refl _)
      rw [hent] at hs'
      rcases List.mem_cons.1 hs' with rfl | hs'
      · omega
      · have := hsorted'.1 s' hs'; omega
    have hk : kStep cs st r =
        if (cs.getD (r.2 - 1) ON).isIsolateInitiator then ⟨(top ++ [r]) :: rest, st.done⟩
        else ⟨rest, st.done ++ [top ++ [r]]⟩ := by
      simp only [kStep, gStep, hPDI, hent, beq_self_eq_true, List.isEmpty_cons, Bool.not_false,
        Bool.and_self, if_true, List.headD_cons, List.tail_cons]
    -- BD13 continues the same sequence
    have hcont_top : continues mt r.1 top = true :=
      (continues_iff mt r.1 top).2 ⟨htne, htpos, hmatch⟩
    have hcont_other : ∀ t ∈ st.done ++ rest, continues mt r.1 t = false := by
      intro t ht
      cases hct : continues mt r.1 t with
      | false => rfl
      | true =>
        exfalso
        obtain ⟨_, h2, h3⟩ := (continues_iff mt r.1 t).1 hct
        rcases List.mem_append.1 ht with h | h
        · have := (I.dn t h).2 h2
          rw [(H.h1 _ _ h3).1] at this; cases this
        · have hlt := hsorted'.1 t h
          have := H.inj _ _ _ h3 hmatch
          omega
    have hperm : (Spec.addRun mt Q r).Perm ((top ++ [r]) :: (st.done ++ rest)) := by
      rw [addRun_eq_modFirst]
      refine modFirst_hit _ _ _ Q top _ ?_ hcont_top hcont_other
      refine I.perm.trans ?_
      rw [hent]
      exact List.perm_middle
    have hrest_ent : ∀ s ∈ rest, s ≠ [] ∧ (∃ r' ∈ R1 ++ [r], r'.2 = lastEnd s) ∧ 0 < lastEnd s ∧
        (cs.getD (lastEnd s - 1) ON).isIsolateInitiator = true ∧
        ∀ p, mt.getD (lastEnd s - 1) none = some p → r.2 ≤ p := by
      intro s hs
      have hs' : s ∈ st.entries := by rw [hent]; simp [hs]
      obtain ⟨a1, ⟨r', hr', hr'e⟩, a3, a4, _⟩ := I.ent s hs'
      refine ⟨a1, ⟨r', by simp [hr'], hr'e⟩, a3, a4, stays s hs' ?_⟩
      intro he
      have := H.inj _ _ _ he hmatch
      have := hsorted'.1 s hs
      omega
    have hrest_lt : ∀ s ∈ rest, lastEnd s < r.2 := by
      intro s hs
      obtain ⟨_, ⟨r', hr', hr'e⟩, _⟩ := I.ent s (by rw [hent]; simp [hs])
      have := hR1 r' hr'; omega
    have hcomplete : ∀ r' ∈ R1, 0 < r'.2 → (cs.getD (r'.2 - 1) ON).isIsolateInitiator = true →
        (∀ p, mt.getD (r'.2 - 1) none = some p → r.2 ≤ p) → ∃ s ∈ rest, lastEnd s = r'.2 := by
      intro r' hr' h0 hiso hopen
      obtain ⟨s, hs, hse⟩ := I.complete r' hr' h0 hiso (fun p hp => by have := hopen p hp; omega)
      rw [hent] at hs
      rcases List.mem_cons.1 hs with rfl | hs
      · rw [← hse] at hopen
        have := hopen _ hmatch; omega
      · exact ⟨s, hs, hse⟩
    rw [hk]
    by_cases hiso : (cs.getD (r.2 - 1) ON).isIsolateInitiator = true
    · simp only [hiso, if_true]
      refine ⟨?_, ?_, ?_, ?_, I.dn⟩
      · exact hperm.trans List.perm_middle.symm
      · refine List.pairwise_cons.2 ⟨?_, hsorted'.2⟩
        intro s hs; rw [lastEnd_snoc]; exact hrest_lt s hs
      · intro s hs
        rcases List.mem_cons.1 hs with rfl | hs
        · rw [lastEnd_snoc]
          refine ⟨by simp, ⟨r, by simp, rfl⟩, by omega, hiso, ?_⟩
          intro p hp; have := (H.h1 _ _ hp).2.1; omega
        · exact hrest_ent s hs
      · intro r' hr' h0 hiso' hopen
        rcases List.mem_append.1 hr' with h | h
        · obtain ⟨s, hs, hse⟩ := hcomplete r' h h0 hiso' hopen
          exact ⟨s, by simp [hs], hse⟩
        · simp only [List.mem_singleton] at h; subst h
          exact ⟨top ++ [r'], by simp, lastEnd_snoc _ _⟩
    · simp only [hiso]
      refine ⟨?_, hsorted'.2, hrest_ent, ?_, ?_⟩
      · refine hperm.trans ?_
        have : (st.done ++ [top ++ [r]] ++ rest).Perm ((top ++ [r]) :: (st.done ++ rest)) := by
          rw [List.append_assoc]; exact List.perm_middle
        exact this.symm
      · intro r' hr' h0 hiso' hopen
        rcases List.mem_append.1 hr' with h | h
        · exact hcomplete r' h h0 hiso' hopen
        · simp only [List.mem_singleton] at h; subst h
          exact absurd hiso' hiso
      · intro s hs
        rcases List.mem_append.1 hs with h | h
        · exact I.dn s h
        · simp only [List.mem_singleton] at h; subst h
          rw [lastEnd_snoc]
          exact ⟨by simp, fun _ => by simpa using hiso⟩
  · -- a new sequence
    have hk : kStep cs st r =
        if (cs.getD (r.2 - 1) ON).isIsolateInitiator then ⟨[r] :: st.entries, st.done⟩
        else ⟨st.entries, st.done ++ [[r]]⟩ := by
      simp only [kStep, gStep, hpop]; rfl
    have hnomatch : ∀ s ∈ st.entries, mt.getD (lastEnd s - 1) none ≠ some r.1 := by
      intro s hs he
      apply hpop
      simp only [Bool.and_eq_true, beq_iff_eq, Bool.not_eq_true', List.isEmpty_eq_false_iff]
      exact ⟨(H.h1 _ _ he).2.2, List.ne_nil_of_mem hs⟩
    have hcont : ∀ t ∈ Q, continues mt r.1 t = false := by
      intro t ht
      cases hct : continues mt r.1 t with
      | false => rfl
      | true =>
        exfalso
        obtain ⟨_, h2, h3⟩ := (continues_iff mt r.1 t).1 hct
        rcases List.mem_append.1 (I.perm.subset ht) with h | h
        · have := (I.dn t h).2 h2
          rw [(H.h1 _ _ h3).1] at this; cases this
        · exact hnomatch t h h3
    have hperm : (Spec.addRun mt Q r).Perm ([r] :: (st.done ++ st.entries)) := by
      rw [addRun_eq_modFirst, modFirst_miss _ _ _ _ hcont]
      exact (List.perm_append_singleton _ _).trans (List.Perm.cons _ I.perm)
    have hent' : ∀ s ∈ st.entries, s ≠ [] ∧ (∃ r' ∈ R1 ++ [r], r'.2 = lastEnd s) ∧ 0 < lastEnd s ∧
        (cs.getD (lastEnd s - 1) ON).isIsolateInitiator = true ∧
        ∀ p, mt.getD (lastEnd s - 1) none = some p → r.2 ≤ p := by
      intro s hs
      obtain ⟨a1, ⟨r', hr', hr'e⟩, a3, a4, _⟩ := I.ent s hs
      exact ⟨a1, ⟨r', by simp [hr'], hr'e⟩, a3, a4, stays s hs (hnomatch s hs)⟩
    have hlt : ∀ s ∈ st.entries, lastEnd s < r.2 := by
      intro s hs
      obtain ⟨_, ⟨r', hr', hr'e⟩, _⟩ := I.ent s hs
      have := hR1 r' hr'; omega
    have hcomplete : ∀ r' ∈ R1, 0 < r'.2 → (cs.getD (r'.2 - 1) ON).isIsolateInitiator = true →
        (∀ p, mt.getD (r'.2 - 1) none = some p → r.2 ≤ p) → ∃ s ∈ st.entries, lastEnd s = r'.2 :=
      fun r' hr' h0 hiso hopen =>
        I.complete r' hr' h0 hiso (fun p hp => by have := hopen p hp; omega)
    rw [hk]
    by_cases hiso : (cs.getD (r.2 - 1) ON).isIsolateInitiator = true
    · simp only [hiso, if_true]
      refine ⟨?_, ?_, ?_, ?_, I.dn⟩
      · exact hperm.trans List.perm_middle.symm
      · refine List.pairwise_cons.2 ⟨?_, I.sorted⟩
        intro s hs
        have : lastEnd [r] = r.2 := lastEnd_snoc [] r
        rw [this]; exact hlt s hs
      · intro s hs
        rcases List.mem_cons.1 hs with rfl | hs
        · have e : lastEnd [r] = r.2 := lastEnd_snoc [] r
          rw [e]
          refine ⟨by simp, ⟨r, by simp, rfl⟩, by omega, hiso, ?_⟩
          intro p hp; have := (H.h1 _ _ hp).2.1; omega
        · exact hent' s hs
      · intro r' hr' h0 hiso' hopen
        rcases List.mem_append.1 hr' with h | h
        · obtain ⟨s, hs, hse⟩ := hcomplete r' h h0 hiso' hopen
          exact ⟨s, by simp [hs], hse⟩
        · simp only [List.mem_singleton] at h; subst h
          exact ⟨[r'], by simp, lastEnd_snoc [] _⟩
    · simp only [hiso]
      refine ⟨?_, I.sorted, hent', ?_, ?_⟩
      · refine hperm.trans ?_
        have : (st.done ++ [[r]] ++ st.entries).Perm ([r] :: (st.done ++ st.entries)) := by
          rw [List.append_assoc]; exact List.perm_middle
        exact this.symm
      · intro r' hr' h0 hiso' hopen
        rcases List.mem_append.1 hr' with h | h
        · exact hcomplete r' h h0 hiso' hopen
        · simp only [List.mem_singleton] at h; subst h
          exact absurd hiso' hiso
      · intro s hs
        rcases List.mem_append.1 hs with h | h
        · exact I.dn s h
        · simp only [List.mem_singleton] at h; subst h
          have e : lastEnd [r] = r.2 := lastEnd_snoc [] r
          rw [e]
          exact ⟨by simp, fun _ => by simpa using hiso⟩

theorem contig_unique {p x y : Nat} {R : List (Nat × Nat)} (h1 : Contig p R x) (h2 : Contig p R y) :
    x = y := by
  induction R generalizing p with
  | nil => simp only [Contig] at h1 h2; omega
  | cons r R ih => exact ih h1.2.2 h2.2.2

theorem inv_fold (H : Hyp cs mt R m) : ∀ (R2 R1 : List (Nat × Nat)) (x : Nat) (st : KState) (Q : List Seq),
    R = R1 ++ R2 → Contig 0 R1 x → Inv cs mt R1 x st Q →
    Inv cs mt R m (R2.foldl (kStep cs) st) (R2.foldl (Spec.addRun mt) Q)
  | [], R1, x, st, Q, hR, hc, I => by
    have : R = R1 := by simpa using hR
    subst this
    have hm : x = m := contig_unique hc H.contig
    subst hm
    exact I
  | r :: R2, R1, x, st, Q, hR, hc, I => by
    have hc' := H.contig
    rw [hR] at hc'
    obtain ⟨c1, hxy, c2, hR1, hR2⟩ := contig_split hc'
    have hx : x = r.1 := contig_unique hc c1
    subst hx
    have := inv_step H hR I
    simp only [List.foldl_cons]
    refine inv_fold H R2 (R1 ++ [r]) r.2 _ _ (by simp [hR]) ?_ this
    rw [contig_append]
    exact ⟨r.1, hc, by simp [Contig, hxy]⟩

/-- Layer 3: the stack algorithm computes the BD13 sequences, up to order -/
theorem stack_bd13 (H : Hyp cs mt R m) :
    (R.foldl (Spec.addRun mt) []).Perm
      ((R.foldl (kStep cs) ⟨[], []⟩).done ++ (R.foldl (kStep cs) ⟨[], []⟩).entries) := by
  have I0 : Inv cs mt [] 0 ⟨[], []⟩ [] :=
    ⟨List.Perm.refl _, List.Pairwise.nil, by simp, by simp, by simp⟩
  exact (inv_fold H R [] 0 _ _ (by simp) (by simp [Contig]) I0).perm

end step

/-! ### `prepStep` on a state with no error and the bottom entry in place -/

def toPrep (st : KState) : PrepState := { stack := st.entries ++ [[]], done := st.done, err := none }

/-- the class `prepStep` takes for the end of the run -/
def endClassOf (cls : List BidiClass) (r : Nat × Nat) : BidiClass :=
  ((slice cls r.1 r.2).reverse.find? notRemoved).getD (cls.getD r.1 ON)

theorem prepStep_gStep (cls : List BidiClass) (st : KState) (r : Nat × Nat) (h : r.1 < r.2) :
    prepStep cls (toPrep st) r =
      toPrep (gStep (cls.getD r.1 ON == PDI) (endClassOf cls r).isIsolateInitiator st r) := by
  unfold prepStep toPrep gStep endClassOf
  have e1 : (decide (r.1 < r.2) && !(st.entries ++ [[]]).isEmpty) = true := by simp [h]
  simp only [e1, if_true, orErr]
  cases hent : st.entries with
  | nil =>
    simp only [List.nil_append, List.length_singleton, Nat.lt_irrefl, decide_false, Bool.and_false,
      Bool.false_eq_true, if_false, List.isEmpty_nil, Bool.not_true]
    split <;> rfl
  | cons top rest =>
    have e2 : decide ((top :: rest ++ [[]]).length > 1) = true := by simp
    simp only [e2, Bool.and_true, List.isEmpty_cons, Bool.not_false]
    by_cases hp : (cls.getD r.1 ON == PDI) = true
    · simp only [hp, if_true, List.cons_append, List.head!, List.tail_cons, List.headD_cons]
      split <;> rfl
    · simp only [hp, Bool.false_eq_true, if_false]
      split <;> rfl

end UBidi.Lemmas.C01Seq
