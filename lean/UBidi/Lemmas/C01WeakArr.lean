/-
  UBidi.Lemmas.C01WeakArr — model-side helpers for StageW: list forms of the
  array updates of `resolve_weak` on a single level run `[(0, n)]`, and the
  five cases of one loop iteration (`weakStep`) in list form.
-/
import UBidi.Lemmas.C01WeakSpec
import UBidi.Model.Implicit
namespace UBidi.Lemmas.C01Weak
open UBidi UBidi.Spec BidiClass

/-- replace the leading BNs by `v` -/
def bnPre (v : BidiClass) : List BidiClass → List BidiClass
  | [] => []
  | c :: cs => if c == BN then v :: bnPre v cs else c :: cs

/-- replace the trailing BNs by `v` -/
def bnSuf (v : BidiClass) (A : List BidiClass) : List BidiClass := (bnPre v A.reverse).reverse

theorem cget_append_cons (A : List BidiClass) (c : BidiClass) (cs : List BidiClass) :
    cget (A ++ c :: cs) A.length = c := by
  simp [cget]

theorem set_append_cons (A : List BidiClass) (c x : BidiClass) (cs : List BidiClass) :
    (A ++ c :: cs).set A.length x = A ++ x :: cs := by
  simp

theorem setWhileBN_fwd (v : BidiClass) (A cs : List BidiClass) :
    setWhileBN (A ++ cs) (List.range' A.length cs.length) v = A ++ bnPre v cs := by
  induction cs generalizing A with
  | nil => simp [setWhileBN, bnPre]
  | cons c cs ih =>
    simp only [List.length_cons, List.range'_succ, setWhileBN, cget_append_cons, bnPre]
    by_cases h : c = BN
    · subst h
      have := ih (A ++ [v])
      simp only [List.length_append, List.length_cons, List.length_nil, List.append_assoc, List.cons_append, List.nil_append] at this
      simp [this]
    · simp [h]

theorem setWhileBN_bwd_aux (v : BidiClass) (R rest : List BidiClass) :
    setWhileBN (R.reverse ++ rest) (List.range' 0 R.length).reverse v = (bnPre v R).reverse ++ rest := by
  induction R generalizing rest with
  | nil => simp [setWhileBN, bnPre]
  | cons a R ih =>
    have hl : R.length = R.reverse.length := by simp
    simp only [List.length_cons, List.range'_concat, Nat.zero_add,
      List.reverse_append, List.reverse_cons, List.reverse_nil, List.nil_append, List.cons_append, setWhileBN,
      List.append_assoc, bnPre, Nat.one_mul]
    rw [hl, cget_append_cons]
    by_cases h : a = BN
    · subst h
      simp only [bne_self_eq_false, Bool.false_eq_true, ↓reduceIte, set_append_cons, beq_self_eq_true,
        List.reverse_cons, List.append_assoc, List.cons_append, List.nil_append]
      rw [← hl]
      exact ih (v :: rest)
    · simp [h]

theorem setWhileBN_bwd (v : BidiClass) (A rest : List BidiClass) :
    setWhileBN (A ++ rest) (List.range' 0 A.length).reverse v = bnSuf v A ++ rest := by
  have := setWhileBN_bwd_aux v A.reverse rest
  simpa [bnSuf] using this

theorem setAll_range (v : BidiClass) (A B C : List BidiClass) :
    setAll (A ++ B ++ C) (List.range' A.length B.length) v = A ++ List.replicate B.length v ++ C := by
  induction B generalizing A with
  | nil => simp [setAll]
  | cons b B ih =>
    have := ih (A ++ [v])
    simp only [List.length_append, List.length_cons, List.length_nil, List.append_assoc, List.cons_append,
      List.nil_append, setAll] at this
    simp only [setAll, List.length_cons, List.range'_succ, List.foldl_cons, List.append_assoc, List.cons_append,
      set_append_cons, List.replicate_succ]
    exact this


/-- the single-run sequence -/
abbrev seq1 (n : Nat) (sos eos : BidiClass) : IRSeq := { runs := [(0, n)], sos := sos, eos := eos }

theorem indexed_seq1 (n : Nat) (sos eos : BidiClass) :
    (seq1 n sos eos).indexed = (List.range' 0 n).map (fun i => (0, i)) := by
  simp [IRSeq.indexed, runIndices, List.zipIdx]

theorem indices_seq1 (n : Nat) (sos eos : BidiClass) : (seq1 n sos eos).indices = List.range' 0 n := by
  simp [IRSeq.indices, runIndices]

theorem iterFwd_seq1 (n : Nat) (sos eos : BidiClass) (p : Nat) :
    (seq1 n sos eos).iterForwardsFrom p 0 = List.range' p (n - p) := by
  simp [IRSeq.iterForwardsFrom]

theorem iterBwd_seq1 (n : Nat) (sos eos : BidiClass) (p : Nat) :
    (seq1 n sos eos).iterBackwardsFrom p 0 = (List.range' 0 p).reverse := by
  simp [IRSeq.iterBackwardsFrom]

theorem map_cget_range (A cs : List BidiClass) :
    (List.range' A.length cs.length).map (cget (A ++ cs)) = cs := by
  apply List.ext_getElem
  · simp
  · intro i h1 h2
    simp [cget, h2]

/-- the look-ahead of a separator (first type of the rest not removed by X9) -/
def nextR (al' : Bool) (eos : BidiClass) (cs : List BidiClass) : BidiClass :=
  nextCls al' eos (cs.filter notRemoved)


/-- the W4/W5/W6 part of one iteration, given the class after W3 -/
def stepW456 (charLenAt : Nat → Option Nat) (seq : IRSeq) (st : WState) (runIdx i : Nat)
    (c2 : BidiClass) (lastAL : Bool) : Classes × List Nat :=
  let pcs := st.pcs.set i c2
  match c2 with
  | EN => (setAll pcs st.etRun EN, [])
  | ES | CS =>
    (match charLenAt i with
     | some charLen =>
       let nextClass0 :=
         ((seq.iterForwardsFrom (i + charLen) runIdx).map (cget pcs)).find? notRemoved |>.getD seq.eos
       let nextClass := if nextClass0 == EN && lastAL then AN else nextClass0
       let c3 := sC3 st.prevW4 c2 nextClass
       let pcs := pcs.set i c3
       if c3 == ON then
         let pcs := setWhileBN pcs (seq.iterBackwardsFrom i runIdx) ON
         let pcs := setWhileBN pcs (seq.iterForwardsFrom (i + charLen) runIdx) ON
         (pcs, st.etRun)
       else (pcs, st.etRun)
     | none => (pcs.set i (cget pcs (i - 1)), st.etRun))
  | ET =>
    (match st.prevW5 with
     | EN => (pcs.set i EN, st.etRun)
     | _ => (pcs, st.etRun ++ st.bnRun ++ [i]))
  | _ => (pcs, st.etRun)

/-- the common loop-iteration code after W4/W5/W6 -/
def stepFin (i : Nat) (c1 c2 : BidiClass) (lastAL : Bool) (r : Classes × List Nat) : WState :=
  let prevW5 := cget r.1 i
  let r' := if prevW5 != ET then (setAll r.1 r.2 ON, []) else (r.1, r.2)
  { pcs := r'.1, prevW4 := c2, prevW5 := prevW5, prevW1 := c1, lastStrongIsAL := lastAL, etRun := r'.2, bnRun := [] }

theorem weakStep_eq (charLenAt : Nat → Option Nat) (seq : IRSeq) (st : WState) (runIdx i : Nat) :
    weakStep charLenAt seq st (runIdx, i) =
      if cget st.pcs i == BN then { st with bnRun := st.bnRun ++ [i] }
      else
        stepFin i (sC1 st.prevW1 (cget st.pcs i)) (sC2 st.lastStrongIsAL (sC1 st.prevW1 (cget st.pcs i)))
          (sAL st.lastStrongIsAL (sC1 st.prevW1 (cget st.pcs i)))
          (stepW456 charLenAt seq st runIdx i (sC2 st.lastStrongIsAL (sC1 st.prevW1 (cget st.pcs i)))
            (sAL st.lastStrongIsAL (sC1 st.prevW1 (cget st.pcs i)))) := by
  rfl


theorem setAll_length (pcs : Classes) (idxs : List Nat) (v : BidiClass) : (setAll pcs idxs v).length = pcs.length := by
  induction idxs generalizing pcs with
  | nil => rfl
  | cons j js ih => simp [setAll, List.foldl_cons] at ih ⊢; rw [ih]; simp

theorem cget_setAll_same (pcs : Classes) (idxs : List Nat) (v : BidiClass) (i : Nat) (h : cget pcs i = v) :
    cget (setAll pcs idxs v) i = v := by
  induction idxs generalizing pcs with
  | nil => exact h
  | cons j js ih =>
    simp only [setAll, List.foldl_cons] at ih ⊢
    apply ih
    simp only [cget, List.getD_eq_getElem?_getD, List.getElem?_set] at h ⊢
    split
    · split
      · rfl
      · rename_i h1 h2
        subst h1
        simp_all
    · exact h

theorem bnPre_length (v : BidiClass) (cs : List BidiClass) : (bnPre v cs).length = cs.length := by
  induction cs with
  | nil => rfl
  | cons c cs ih => simp only [bnPre]; split <;> simp [ih]

theorem bnSuf_length (v : BidiClass) (A : List BidiClass) : (bnSuf v A).length = A.length := by
  simp [bnSuf, bnPre_length]

section step
variable (n : Nat) (sos eos : BidiClass) (st : WState) (A : List BidiClass) (c : BidiClass) (cs : List BidiClass)

theorem weakStep_nonBN (hp : st.pcs = A ++ c :: cs) (hc : c ≠ BN) :
    weakStep (fun _ => some 1) (seq1 n sos eos) st (0, A.length) =
      stepFin A.length (sC1 st.prevW1 c) (sC2 st.lastStrongIsAL (sC1 st.prevW1 c))
          (sAL st.lastStrongIsAL (sC1 st.prevW1 c))
          (stepW456 (fun _ => some 1) (seq1 n sos eos) st 0 A.length (sC2 st.lastStrongIsAL (sC1 st.prevW1 c))
            (sAL st.lastStrongIsAL (sC1 st.prevW1 c))) := by
  have hcg : cget st.pcs A.length = c := by rw [hp]; exact cget_append_cons ..
  have hbn : (c == BN) = false := by simp [hc]
  rw [weakStep_eq, hcg, hbn]
  rfl

theorem weakStep_BN (hp : st.pcs = A ++ BN :: cs) :
    weakStep (fun _ => some 1) (seq1 n sos eos) st (0, A.length) = { st with bnRun := st.bnRun ++ [A.length] } := by
  have hcg : cget st.pcs A.length = BN := by rw [hp]; exact cget_append_cons ..
  rw [weakStep_eq, hcg]
  rfl

theorem stepW456_EN (hp : st.pcs = A ++ c :: cs) (al' : Bool) :
    stepW456 (fun _ => some 1) (seq1 n sos eos) st 0 A.length EN al' = (setAll (A ++ EN :: cs) st.etRun EN, []) := by
  simp [stepW456, hp]

theorem stepW456_ET_EN (hp : st.pcs = A ++ c :: cs) (al' : Bool) (h5 : st.prevW5 = EN) :
    stepW456 (fun _ => some 1) (seq1 n sos eos) st 0 A.length ET al' = (A ++ EN :: cs, st.etRun) := by
  simp [stepW456, hp, h5]

theorem stepW456_ET_pend (hp : st.pcs = A ++ c :: cs) (al' : Bool) (h5 : st.prevW5 ≠ EN) :
    stepW456 (fun _ => some 1) (seq1 n sos eos) st 0 A.length ET al' =
      (A ++ ET :: cs, st.etRun ++ st.bnRun ++ [A.length]) := by
  simp only [stepW456, hp, set_append_cons]

theorem stepW456_other (hp : st.pcs = A ++ c :: cs) (al' : Bool) (c2 : BidiClass)
    (h : c2 ≠ EN ∧ c2 ≠ ES ∧ c2 ≠ CS ∧ c2 ≠ ET) :
    stepW456 (fun _ => some 1) (seq1 n sos eos) st 0 A.length c2 al' = (A ++ c2 :: cs, st.etRun) := by
  cases c2 <;> simp_all [stepW456]

theorem stepW456_sep (hp : st.pcs = A ++ c :: cs) (hn : n = A.length + 1 + cs.length) (al' : Bool) (c2 : BidiClass)
    (h : c2 = ES ∨ c2 = CS) :
    stepW456 (fun _ => some 1) (seq1 n sos eos) st 0 A.length c2 al' =
      (if sC3 st.prevW4 c2 (nextR al' eos cs) = ON then bnSuf ON A ++ ON :: bnPre ON cs
        else A ++ sC3 st.prevW4 c2 (nextR al' eos cs) :: cs, st.etRun) := by
  have hf : (seq1 n sos eos).iterForwardsFrom (A.length + 1) 0 = List.range' (A ++ [c2]).length cs.length := by
    rw [iterFwd_seq1]; simp; omega
  have hm : List.map (cget (A ++ c2 :: cs)) (List.range' (A ++ [c2]).length cs.length) = cs := by
    have := map_cget_range (A ++ [c2]) cs
    simpa using this
  have hnx : (if ((List.find? notRemoved cs).getD eos == EN && al') = true then AN else (List.find? notRemoved cs).getD eos)
      = nextR al' eos cs := by
    simp [nextR, nextCls, List.head?_filter]
  have key : ∀ c3 : BidiClass, (if (c3 == ON) = true then
      (setWhileBN (setWhileBN (A ++ c3 :: cs) (List.range' 0 A.length).reverse ON)
          (List.range' (A ++ [c2]).length cs.length) ON, st.etRun)
      else (A ++ c3 :: cs, st.etRun)) =
      (if c3 = ON then bnSuf ON A ++ ON :: bnPre ON cs else A ++ c3 :: cs, st.etRun) := by
    intro c3
    by_cases h3 : c3 = ON
    · subst h3
      rw [setWhileBN_bwd]
      have := setWhileBN_fwd ON (bnSuf ON A ++ [ON]) cs
      simp only [List.length_append, bnSuf_length, List.length_cons, List.length_nil, List.append_assoc,
        List.cons_append, List.nil_append] at this
      simp [this]
    · simp [h3]
  rcases h with rfl | rfl
  · simp only [stepW456, hp, set_append_cons, hf, hm, hnx, iterBwd_seq1]
    exact key _
  · simp only [stepW456, hp, set_append_cons, hf, hm, hnx, iterBwd_seq1]
    exact key _

end step


end UBidi.Lemmas.C01Weak
