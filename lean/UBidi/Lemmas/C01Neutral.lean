/-
  C01 stage lemma StageN (neutral types: BD16, N0, N1, N2) — umbrella module.

  Files
  * `C01NeutralN12`  — N1/N2 (Layers 1, 2; any number of runs; multi-unit characters; BN units),
  * `C01NeutralBD16` — BD16 incl. the 63-entry limit (Layer 3; and in general: several runs,
                       multi-unit characters, characters removed by X9 skipped),
  * `C01NeutralN0`   — N0 for one pair and the whole `resolveNeutral`, one run (Layer 4),
  * `C01NeutralSeq`  — N0 and the whole `resolveNeutral` for a sequence of several runs.

  What is proved / what is open
  ------------------------------
  Proved in full (real names): `stageN12_simple`, `stageN12_BN`, `stageN12_BN_filter`,
  `stageN12_seq`, `stageN12_chars`, `stageBD16_simple`, `stageBD16_general`, `stageBD16_seq`,
  `bd16_limit`, `bd16_stack_le`, `stageN0_pair_simple`, `stageN_simple`, `stageN_runs`.

  Open: the full StageN, i.e. `stageN_partial` below without the hypotheses
  "single-unit characters" (`h1`) and "no BN / nothing removed by X9" (`hbn`, `hocs`).
  The conjectured full statement, for a sequence `seq` of a well-formed text `t` whose
  runs are in text order and on character boundaries, with `ocs`/`pcs` constant on the units of
  every character and `cget pcs u = BN ↔ (cget ocs u).removedByX9` on the sequence's units:

      let K   := keptChars t seq ocs                       -- characters X9 keeps, in order
      let ts  := K.map (fun x => cget pcs x.2.start)
      let bs  := K.map (fun x => ds.brk x.2.cp)
      let nsm := K.map (fun x => cget ocs x.2.start == NSM)
      ∃ out, resolveNeutral ds t seq levels ocs pcs = (out, none) ∧ out.length = pcs.length ∧
        (∀ j ∉ seq.indices, cget out j = cget pcs j) ∧
        ∀ k < K.length, ∀ u, K[k].2.start ≤ u → u < K[k].2.start + K[k].2.len →
          cget out u = (Spec.n12 seq.sos seq.eos e
                          ((Spec.bracketPairs ts bs).foldl (Spec.n0One seq.sos e nsm) ts))[k]

  It was TESTED (not proved) exhaustively with `#eval` for single-unit texts of length ≤ 5
  (one run) and length 6 (two runs) over the alphabet
  `( ) L R BN NSM-after-ON ON` with sos, e ∈ {L, R}: no counterexample.
  The pieces that are already general: BD16 (`stageBD16_seq`), N1/N2 (`stageN12_seq`,
  `spec_go_filterBN`, `stageN12_chars`).  Missing HERE is N0 with removed units between the
  characters: `n0Pair` writes the new bracket type also to the BN units in front of the opening
  bracket (`setWhileBN` backwards; the forward sweep `setWhileNsmOrBN` steps over removed units
  without writing them), so after the first pair the removed units no longer all carry BN and the
  induction over the pairs needs an invariant.  That is done in `C01NeutralBN` (`stageN_bn`, invariant
  `InvBN`).  Multi-unit characters in N0 need the same proof with `setRange` over the
  character length and `expand`-style lemmas for the scans (done through `Expand*`).

  Remark for the composition with StageW: after `resolveWeak` a removed unit does not always
  carry BN.  `#eval resolveWeak (fun _ => some 1) ⟨[(0,4)], R, L⟩ [ON, BN, CS, EN]` gives
  `[ON, ON, ON, EN]` (the BN next to a separator that becomes ON is set to ON as well), and a BN
  inside a run of ETs before an EN becomes EN.  Such units are harmless for N0–N2 (they repeat the
  type of a neighbour) but they are outside the hypothesis `pcs = BN ↔ removed` above.
-/
import UBidi.Lemmas.C01NeutralN12
import UBidi.Lemmas.C01NeutralBD16
import UBidi.Lemmas.C01NeutralN0
import UBidi.Lemmas.C01NeutralSeq
namespace UBidi.Lemmas.C01Neutral
open UBidi UBidi.BidiClass

/-- The strongest proved form of StageN (see the header for the full statement and the gap):
    any number of level runs, single-unit characters, nothing removed by X9, no BN. -/
theorem stageN_partial (ds : DataSource) (t : Text) (hwf : t.WF) (h1 : ∀ s ∈ t.segs, s.len = 1)
    (seq : IRSeq) (r0 : Nat × Nat) (rest : List (Nat × Nat)) (hr0 : seq.runs = r0 :: rest)
    (hruns : seq.runs.Pairwise (fun r1 r2 => r1.2 ≤ r2.1)) (hbound : ∀ r ∈ seq.runs, r.2 ≤ t.len)
    (hs : seq.sos = L ∨ seq.sos = R) (levels : List Nat) (ocs pcs : Classes)
    (hpl : pcs.length = t.len) (hbn : ∀ c ∈ pcs, c ≠ BN)
    (hocs : ∀ u ∈ seq.indices, (cget ocs u).removedByX9 = false) :
    ∃ out, resolveNeutral ds t seq levels ocs pcs = (out, none) ∧ out.length = pcs.length ∧
      (∀ c ∈ out, c ≠ BN) ∧ (∀ j, j ∉ seq.indices → cget out j = cget pcs j) ∧
      seq.indices.map (cget out) =
        Spec.n12 seq.sos seq.eos (Level.bidiClass (levels.getD r0.1 0))
          ((Spec.bracketPairs (seq.indices.map (cget pcs)) ((seqChars t seq).map (fun x => ds.brk x.2.cp))).foldl
            (Spec.n0One seq.sos (Level.bidiClass (levels.getD r0.1 0))
              (seq.indices.map (fun u => cget ocs u == NSM)))
            (seq.indices.map (cget pcs))) :=
  stageN_runs ds t hwf h1 seq r0 rest hr0 hruns hbound hs levels ocs pcs hpl hbn hocs

end UBidi.Lemmas.C01Neutral
