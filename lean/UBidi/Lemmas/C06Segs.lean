/-
  C06 helper lemmas, part 2: lists of characters (`Seg`) that tile a range of code units
  (`SegsFrom k S e`): selecting the characters that start in a unit range, looking characters up by
  their first unit, covering, and the levels `expandS` assigns to the units.
-/
import UBidi.Props.C03
namespace UBidi.Lemmas.C06
open UBidi UBidi.Lemmas.C03

/-- the characters that start in `[x, y)` -/
def inRange (x y : Nat) (s : Seg) : Bool := x ≤ s.start && s.start < y

theorem filter_nil_of_ge (S : List Seg) (x y : Nat) (h : ∀ s ∈ S, y ≤ s.start) :
    S.filter (inRange x y) = [] := by
  rw [List.filter_eq_nil_iff]
  intro s hs
  have := h s hs
  simp [inRange]; omega

theorem find_none_of_gt (S : List Seg) (y : Nat) (h : ∀ s ∈ S, y < s.start) :
    S.find? (fun s => s.start == y) = none := by
  rw [List.find?_eq_none]
  intro s hs
  have := h s hs
  simp; omega

/-- extending the unit range by one unit adds the character that starts there, if any -/
theorem filter_succ (S : List Seg) : ∀ (k e x y : Nat), SegsFrom k S e → x ≤ y →
    S.filter (inRange x (y + 1)) = S.filter (inRange x y) ++ (S.find? (fun s => s.start == y)).toList := by
  induction S with
  | nil => intro k e x y _ _; rfl
  | cons c S ih =>
    intro k e x y h hxy
    obtain ⟨hc, hpos, h'⟩ := h
    have hb := (SegsFrom_bounds h').2
    by_cases h1 : c.start < y
    · have hne : (c.start == y) = false := by simp; omega
      have hin : inRange x (y + 1) c = inRange x y c := by
        simp only [inRange, h1, show c.start < y + 1 by omega]
      simp only [List.filter_cons, List.find?_cons, hne, hin, ih _ _ x y h' hxy]
      split <;> simp
    · have hge : ∀ s ∈ S, y < s.start := by intro s hs; have := hb s hs; omega
      have hge' : ∀ s ∈ S, y + 1 ≤ s.start := by intro s hs; have := hge s hs; omega
      have hge'' : ∀ s ∈ S, y ≤ s.start := by intro s hs; have := hge s hs; omega
      have hny : inRange x y c = false := by simp [inRange]; omega
      by_cases h2 : c.start = y
      · subst h2
        have hin : inRange x (c.start + 1) c = true := by simp [inRange]; omega
        simp [hin, hny, filter_nil_of_ge S x (c.start + 1) hge',
          filter_nil_of_ge S x c.start hge'']
      · have hne : (c.start == y) = false := by simp; omega
        have hin : inRange x (y + 1) c = false := by simp [inRange]; omega
        simp [hne, hin, hny, filter_nil_of_ge S x (y + 1) hge',
          filter_nil_of_ge S x y hge'', find_none_of_gt S y hge]

/-- looking up the units of `[x, x+n)` one by one finds exactly the characters that start there -/
theorem filterMap_find (S : List Seg) (k e : Nat) (h : SegsFrom k S e) (x n : Nat) :
    (List.range' x n).filterMap (fun u => S.find? (fun s => s.start == u)) = S.filter (inRange x (x + n)) := by
  induction n with
  | zero =>
    symm
    rw [List.range'_zero, List.filterMap_nil, List.filter_eq_nil_iff]
    intro s _
    simp [inRange] <;> omega
  | succ n ih =>
    rw [List.range'_concat, List.filterMap_append, ih, ← Nat.add_assoc,
      filter_succ S k e x (x + n) h (by omega)]
    congr 1
    simp only [Nat.one_mul, List.filterMap_cons, List.filterMap_nil]
    cases S.find? (fun s => s.start == x + n) <;> rfl

/-- the only character that starts inside a character is that character -/
theorem filter_self (S : List Seg) : ∀ (k e : Nat), SegsFrom k S e → ∀ s ∈ S,
    S.filter (inRange s.start (s.start + s.len)) = [s] := by
  induction S with
  | nil => intro k e _ s hs; simp at hs
  | cons c S ih =>
    intro k e h s hs
    obtain ⟨hc, hpos, h'⟩ := h
    have hb := (SegsFrom_bounds h').2
    rcases List.mem_cons.1 hs with rfl | hs
    · have hin : inRange s.start (s.start + s.len) s = true := by simp [inRange]; omega
      rw [List.filter_cons, if_pos hin,
        filter_nil_of_ge S _ _ (fun s' hs' => by have := hb s' hs'; omega)]
    · have := hb s hs
      have hin : inRange s.start (s.start + s.len) c = false := by simp [inRange]; omega
      rw [List.filter_cons, hin]
      exact ih _ _ h' s hs

/-- every unit of the range lies in one of the characters -/
theorem segs_cover (S : List Seg) : ∀ (k e u : Nat), SegsFrom k S e → k ≤ u → u < e →
    ∃ s ∈ S, s.start ≤ u ∧ u < s.start + s.len := by
  induction S with
  | nil => intro k e u h h1 h2; have : k = e := h; omega
  | cons c S ih =>
    intro k e u h h1 h2
    obtain ⟨hc, hpos, h'⟩ := h
    by_cases hu : u < k + c.len
    · exact ⟨c, by simp, by omega, by omega⟩
    · obtain ⟨s, hs, hs1, hs2⟩ := ih _ _ u h' (by omega) h2
      exact ⟨s, by simp [hs], hs1, hs2⟩

/-- a sorted split: the characters before `x`, those starting in `[x, y)`, those from `y` on -/
theorem filter_split (S : List Seg) : ∀ (k e x y : Nat), SegsFrom k S e → x ≤ y →
    S = S.filter (fun s => s.start < x) ++ S.filter (inRange x y) ++ S.filter (fun s => y ≤ s.start) := by
  induction S with
  | nil => intro k e x y _ _; rfl
  | cons c S ih =>
    intro k e x y h hxy
    obtain ⟨hc, hpos, h'⟩ := h
    have hb := (SegsFrom_bounds h').2
    have ih' := ih _ _ x y h' hxy
    by_cases h1 : c.start < x
    · have e2 : inRange x y c = false := by simp [inRange]; omega
      have e3 : decide (y ≤ c.start) = false := by simp; omega
      simp only [List.filter_cons, h1, decide_true, if_true, e2, e3, List.cons_append]
      simp only [Bool.false_eq_true, if_false]
      exact congrArg _ ih'
    · have hnil : S.filter (fun s => s.start < x) = [] := by
        rw [List.filter_eq_nil_iff]
        intro s hs
        have := hb s hs
        simp; omega
      rw [hnil, List.nil_append] at ih'
      have e1 : decide (c.start < x) = false := by simp; omega
      by_cases h2 : c.start < y
      · have e2 : inRange x y c = true := by simp [inRange]; omega
        have e3 : decide (y ≤ c.start) = false := by simp; omega
        simp only [List.filter_cons, e1, e2, e3, hnil, if_true]
        simp only [Bool.false_eq_true, if_false]
        exact congrArg _ ih'
      · have e2 : inRange x y c = false := by simp [inRange]; omega
        have e3 : decide (y ≤ c.start) = true := by simp; omega
        have hnil2 : S.filter (inRange x y) = [] :=
          filter_nil_of_ge S x y (fun s hs => by have := hb s hs; omega)
        rw [hnil2, List.nil_append] at ih'
        simp only [List.filter_cons, e1, e2, e3, hnil, hnil2, if_true]
        simp only [Bool.false_eq_true, if_false, List.nil_append]
        exact congrArg _ ih'

/-- the characters that start in `[x, y)` are consecutive characters of the list -/
theorem filter_infix (S : List Seg) (k e x y : Nat) (h : SegsFrom k S e) (hxy : x ≤ y) :
    S.filter (inRange x y) <:+: S :=
  ⟨_, _, (filter_split S k e x y h hxy).symm⟩

/-! ### shifting back a sub-range -/

theorem segsFrom_unshift (a : Nat) (S : List Seg) : ∀ (k e : Nat), a ≤ k → a ≤ e →
    (∀ s ∈ S, a ≤ s.start) →
    SegsFrom (k - a) (S.map (fun s => { s with start := s.start - a })) (e - a) → SegsFrom k S e := by
  induction S with
  | nil =>
    intro k e hk he _ h
    have : k - a = e - a := h
    show k = e
    omega
  | cons c S ih =>
    intro k e hk he hS h
    obtain ⟨hc, hpos, h'⟩ := h
    have hca := hS c (by simp)
    dsimp only at hc hpos h'
    refine ⟨by omega, hpos, ?_⟩
    apply ih (k + c.len) e (by omega) he (fun s hs => hS s (by simp [hs]))
    rwa [show k + c.len - a = k - a + c.len by omega]

/-- the characters of a line on character boundaries tile the line -/
theorem lineSegs_tiles (t : Text) (hwf : t.WF) (a b : Nat) (hab : a ≤ b)
    (ha : t.isBoundary a = true) (hb : t.isBoundary b = true) :
    SegsFrom a (t.segs.filter (inRange a b)) b := by
  have h := subSegs_tiles (a := a) (b := b) t.segs 0 t.len hwf.tiles (Nat.zero_le _) hab
    ((isBoundary_iff t a).1 ha) ((isBoundary_iff t b).1 hb)
  apply segsFrom_unshift a _ a b (Nat.le_refl _) hab
  · intro s hs
    simp only [List.mem_filter, inRange, Bool.and_eq_true, decide_eq_true_eq] at hs
    exact hs.2.1
  · rw [Nat.sub_self]
    exact h

/-! ### the levels of the code units after expansion -/

/-- unit `j` of character `i` receives the `i`-th value -/
theorem expandS_get (S : List Seg) : ∀ (xs : List Nat) (k e : Nat), SegsFrom k S e → xs.length = S.length →
    ∀ i (hi : i < S.length) j, j < S[i].len → (expandS S xs)[S[i].start - k + j]? = xs[i]? := by
  induction S with
  | nil => intro xs k e _ _ i hi; simp at hi
  | cons c S ih =>
    intro xs k e h hx i hi j hj
    obtain ⟨hc, hpos, h'⟩ := h
    cases xs with
    | nil => simp at hx
    | cons x xs =>
      rw [expandS_cons]
      cases i with
      | zero =>
        simp only [List.getElem_cons_zero] at hj ⊢
        rw [List.getElem?_append_left (by simp; omega)]
        simp [List.getElem?_replicate]; omega
      | succ i =>
        simp only [List.getElem_cons_succ] at hj ⊢
        have hi' : i < S.length := by simpa using hi
        have hb := (SegsFrom_bounds h').2 S[i] (List.getElem_mem hi')
        rw [List.getElem?_append_right (by simp; omega)]
        simp only [List.length_replicate, List.getElem?_cons_succ]
        have := ih xs (k + c.len) e h' (by simpa using hx) i hi' j hj
        rw [← this]
        congr 1
        omega

theorem expandS_length (S : List Seg) : ∀ (xs : List Nat) (k e : Nat), SegsFrom k S e → xs.length = S.length →
    (expandS S xs).length = e - k := by
  induction S with
  | nil =>
    intro xs k e h _
    have : k = e := h
    simp [expandS_nil, this]
  | cons c S ih =>
    intro xs k e h hx
    obtain ⟨hc, hpos, h'⟩ := h
    have hb := (SegsFrom_bounds h').1
    cases xs with
    | nil => simp at hx
    | cons x xs =>
      rw [expandS_cons, List.length_append, List.length_replicate, ih xs _ e h' (by simpa using hx)]
      omega

end UBidi.Lemmas.C06
