/-
  C11 helpers, part 3: the Model's explicit machine `exChar` simulates the UAX #9
  machine `Spec.xStep` (rules X2–X8) under the abstraction `absStatus`.
-/
import UBidi.Lemmas.C11Inv
import UBidi.Spec.UAX9
namespace UBidi.Props.C11
open UBidi UBidi.BidiClass

/-- a Model stack entry as a UAX #9 directional status stack entry -/
def absStatus : Status → Spec.Entry
  | ⟨l, .neutral⟩ => ⟨l, none, false⟩
  | ⟨l, .rtl⟩ => ⟨l, some R, false⟩
  | ⟨l, .ltr⟩ => ⟨l, some L, false⟩
  | ⟨l, .isolate⟩ => ⟨l, none, true⟩

/-- a Model machine state as a UAX #9 machine state -/
def absState (stack : List Status) (oi oe vi : Nat) : Spec.XState :=
  { stack := stack.map absStatus, overflowIsolate := oi, overflowEmbedding := oe, validIsolate := vi }

theorem absStatus_level (s : Status) : (absStatus s).level = s.level := by
  rcases s with ⟨l, st⟩; cases st <;> rfl

theorem absStatus_isolate (s : Status) : (absStatus s).isolate = decide (s.status = .isolate) := by
  rcases s with ⟨l, st⟩; cases st <;> rfl

theorem absStatus_override (s : Status) (c : BidiClass) :
    ((absStatus s).override).getD c = applyOverride s.status c := by
  rcases s with ⟨l, st⟩; cases st <;> rfl

theorem leastOddAbove_eq (l : Nat) : Spec.leastOddAbove l = Level.nextRtlRaw l := by
  unfold Spec.leastOddAbove Level.nextRtlRaw
  rcases Nat.mod_two_eq_zero_or_one l with h | h
  · have : (l + 1) % 2 = 1 := by omega
    simp [h, this]
  · have : (l + 1) % 2 = 0 := by omega
    simp [h, this]

theorem leastEvenAbove_eq (l : Nat) : Spec.leastEvenAbove l = Level.nextLtrRaw l := by
  unfold Spec.leastEvenAbove Level.nextLtrRaw
  rcases Nat.mod_two_eq_zero_or_one l with h | h
  · simp [h]; omega
  · simp [h]; omega

/-- the level X2–X5 ask for -/
def specNext (oc : BidiClass) (l : Nat) : Nat :=
  if oc.isRtlInitiator then Spec.leastOddAbove l else Spec.leastEvenAbove l

theorem nextLevel_eq (oc : BidiClass) (l : Nat) :
    nextLevel oc l = if specNext oc l ≤ 125 then some (specNext oc l) else none := by
  unfold nextLevel specNext
  split
  · rw [C19.newExplicitNextRtl_spec, leastOddAbove_eq]
  · rw [C19.newExplicitNextLtr_spec, leastEvenAbove_eq]

theorem popToIsolate_map : ∀ (st : List Status),
    Spec.popToIsolate (st.map absStatus) = (popThroughIsolate st).map absStatus
  | [] => rfl
  | s :: rest => by
    simp only [List.map_cons, Spec.popToIsolate, popThroughIsolate, absStatus_isolate]
    by_cases h : s.status = .isolate
    · simp [h]
    · simp [h, popToIsolate_map rest]

variable {pl : Nat} {last : Status} {rest : List Status} {oi oe vi : Nat} {oc : BidiClass}

theorem topLevel_abs : Spec.topLevel pl (absState (last :: rest) oi oe vi) = last.level := by
  simp [Spec.topLevel, absState, absStatus_level]

theorem applyOv_abs (c : BidiClass) :
    Spec.applyOv (absState (last :: rest) oi oe vi) c = applyOverride last.status c := by
  simp [Spec.applyOv, Spec.topOverride, absState, absStatus_override]

/-! ### `Spec.xStep` case by case, on abstracted Model states -/

theorem beq_iff (a b : BidiClass) : (a == b) = decide (a = b) := by cases a <;> cases b <;> rfl
theorem bne_iff (a b : BidiClass) : (a != b) = !decide (a = b) := by simp [bne, beq_iff]

theorem absStatus_neutral (l : Nat) : absStatus ⟨l, .neutral⟩ = ⟨l, none, false⟩ := rfl
theorem absStatus_rtl (l : Nat) : absStatus ⟨l, .rtl⟩ = ⟨l, some R, false⟩ := rfl
theorem absStatus_ltr (l : Nat) : absStatus ⟨l, .ltr⟩ = ⟨l, some L, false⟩ := rfl
theorem absStatus_iso (l : Nat) : absStatus ⟨l, .isolate⟩ = ⟨l, none, true⟩ := rfl

theorem nextLevel_some_iff {l nl : Nat} : nextLevel oc l = some nl ↔ specNext oc l ≤ 125 ∧ nl = specNext oc l := by
  rw [nextLevel_eq]; split <;> simp_all <;> omega
theorem nextLevel_none_iff {l : Nat} : nextLevel oc l = none ↔ 125 < specNext oc l := by
  rw [nextLevel_eq]; split <;> simp_all

theorem spec_emb (hc : isEmb oc = true) :
    Spec.xStep pl (absState (last :: rest) oi oe vi) oc =
      (if specNext oc last.level ≤ 125 ∧ oi = 0 ∧ oe = 0 then
         absState (⟨specNext oc last.level, pushStatus oc⟩ :: last :: rest) oi oe vi
       else if oi = 0 then absState (last :: rest) oi (oe + 1) vi
       else absState (last :: rest) oi oe vi, last.level, oc) := by
  by_cases h1 : oi = 0 <;> by_cases h2 : oe = 0 <;> by_cases h3 : specNext oc last.level ≤ 125 <;>
    cases oc <;> simp [isEmb] at hc <;> simp [specNext, isRtlInitiator] at h3 <;>
    simp only [Spec.xStep, topLevel_abs] <;>
    simp [specNext, isRtlInitiator, pushStatus, Spec.maxDepth, absState,
      absStatus_neutral, absStatus_rtl, absStatus_ltr, beq_iff, h1, h2, h3] <;>
    (split <;> first | rfl | omega)

theorem spec_iso (hc : oc.isIsolateInitiator = true) :
    Spec.xStep pl (absState (last :: rest) oi oe vi) oc =
      (if specNext oc last.level ≤ 125 ∧ oi = 0 ∧ oe = 0 then
         absState (⟨specNext oc last.level, .isolate⟩ :: last :: rest) oi oe (vi + 1)
       else absState (last :: rest) (oi + 1) oe vi, last.level, applyOverride last.status oc) := by
  by_cases h1 : oi = 0 <;> by_cases h2 : oe = 0 <;> by_cases h3 : specNext oc last.level ≤ 125 <;>
    cases oc <;> simp [isIsolateInitiator] at hc <;> simp [specNext, isRtlInitiator] at h3 <;>
    simp only [Spec.xStep, topLevel_abs, applyOv_abs] <;>
    simp [specNext, isRtlInitiator, Spec.maxDepth, absState,
      absStatus_iso, beq_iff, h1, h2, h3] <;>
    (split <;> first | rfl | omega)


theorem spec_PDI_overflow (h : 0 < oi) :
    Spec.xStep pl (absState (last :: rest) oi oe vi) PDI =
      (absState (last :: rest) (oi - 1) oe vi, last.level, applyOverride last.status PDI) := by
  have : Spec.xStep pl (absState (last :: rest) oi oe vi) PDI =
      (absState (last :: rest) (oi - 1) oe vi, Spec.topLevel pl (absState (last :: rest) (oi - 1) oe vi),
        Spec.applyOv (absState (last :: rest) (oi - 1) oe vi) PDI) := by
    simp [Spec.xStep, absState, h]
  rw [this, topLevel_abs, applyOv_abs]

theorem spec_PDI_unmatched :
    Spec.xStep pl (absState (last :: rest) 0 oe 0) PDI =
      (absState (last :: rest) 0 oe 0, last.level, applyOverride last.status PDI) := by
  have : Spec.xStep pl (absState (last :: rest) 0 oe 0) PDI =
      (absState (last :: rest) 0 oe 0, Spec.topLevel pl (absState (last :: rest) 0 oe 0),
        Spec.applyOv (absState (last :: rest) 0 oe 0) PDI) := by
    simp [Spec.xStep, absState]
  rw [this, topLevel_abs, applyOv_abs]

theorem spec_PDI_pop {l' : Status} {r' : List Status} (h : 0 < vi)
    (hp : popThroughIsolate (last :: rest) = l' :: r') :
    Spec.xStep pl (absState (last :: rest) 0 oe vi) PDI =
      (absState (l' :: r') 0 0 (vi - 1), l'.level, applyOverride l'.status PDI) := by
  have : Spec.xStep pl (absState (last :: rest) 0 oe vi) PDI =
      (absState (l' :: r') 0 0 (vi - 1), Spec.topLevel pl (absState (l' :: r') 0 0 (vi - 1)),
        Spec.applyOv (absState (l' :: r') 0 0 (vi - 1)) PDI) := by
    have hv : vi ≠ 0 := by omega
    have := popToIsolate_map (last :: rest)
    rw [hp] at this
    simp only [List.map_cons] at this
    simp [Spec.xStep, absState, hv, this]
  rw [this, topLevel_abs, applyOv_abs]

theorem spec_PDF_pop {l' : Status} {r' : List Status} (h : last.status ≠ .isolate) :
    Spec.xStep pl (absState (last :: l' :: r') 0 0 vi) PDF = (absState (l' :: r') 0 0 vi, l'.level, PDF) := by
  have : Spec.xStep pl (absState (last :: l' :: r') 0 0 vi) PDF =
      (absState (l' :: r') 0 0 vi, Spec.topLevel pl (absState (l' :: r') 0 0 vi), PDF) := by
    simp [Spec.xStep, absState, absStatus_isolate, h]
  rw [this, topLevel_abs]

theorem spec_PDF_dec (h : 0 < oe) :
    Spec.xStep pl (absState (last :: rest) 0 oe vi) PDF = (absState (last :: rest) 0 (oe - 1) vi, last.level, PDF) := by
  have : Spec.xStep pl (absState (last :: rest) 0 oe vi) PDF =
      (absState (last :: rest) 0 (oe - 1) vi, Spec.topLevel pl (absState (last :: rest) 0 (oe - 1) vi), PDF) := by
    simp [Spec.xStep, absState, h]
  rw [this, topLevel_abs]

theorem spec_PDF_ignored (h : 0 < oi ∨ (oe = 0 ∧ (last.status = .isolate ∨ rest = []))) :
    Spec.xStep pl (absState (last :: rest) oi oe vi) PDF = (absState (last :: rest) oi oe vi, last.level, PDF) := by
  have : Spec.xStep pl (absState (last :: rest) oi oe vi) PDF =
      (absState (last :: rest) oi oe vi, Spec.topLevel pl (absState (last :: rest) oi oe vi), PDF) := by
    rcases h with h | ⟨h1, h2⟩
    · simp [Spec.xStep, absState, h]
    · subst h1
      rcases h2 with h2 | h2
      · simp [Spec.xStep, absState, absStatus_isolate, h2]
      · subst h2; simp [Spec.xStep, absState]
  rw [this, topLevel_abs]

theorem spec_B : Spec.xStep pl (absState (last :: rest) oi oe vi) B = (absState (last :: rest) oi oe vi, pl, B) := by
  simp [Spec.xStep]

theorem spec_plain (h : isPlain oc = true) :
    Spec.xStep pl (absState (last :: rest) oi oe vi) oc =
      (absState (last :: rest) oi oe vi, last.level, if oc = BN then BN else applyOverride last.status oc) := by
  cases oc <;> simp [isPlain] at h <;> simp only [Spec.xStep, topLevel_abs, applyOv_abs] <;> simp


/-! ### X9 removal -/

theorem isRemoved_emb (h : isEmb oc = true) : Spec.isRemoved oc = true := by
  cases oc <;> simp [isEmb] at h <;> simp [Spec.isRemoved, beq_iff]
theorem isRemoved_iso (h : oc.isIsolateInitiator = true) : Spec.isRemoved oc = false := by
  cases oc <;> simp [isIsolateInitiator] at h <;> simp [Spec.isRemoved, beq_iff]
theorem isRemoved_plain (h : isPlain oc = true) : Spec.isRemoved oc = decide (oc = BN) := by
  cases oc <;> simp [isPlain] at h <;> simp [Spec.isRemoved, beq_iff]

/-! ### the simulation -/

/-- `exChar` and `Spec.xStep` move related states to related states and agree on the level
    and type of every character X9 keeps; for a removed character the Model's class is BN,
    and its level is the Spec's except on a *valid* embedding initiator, where the Model
    stores the level just pushed (the Spec reports the level before the push). -/
theorem sim_cons (h : ExInv pl (last :: rest) oi oe vi) (oc : BidiClass) :
    (Spec.xStep pl (absState (last :: rest) oi oe vi) oc).1 =
        absState (exChar pl (last :: rest) oi oe vi oc).stack (exChar pl (last :: rest) oi oe vi oc).oi
          (exChar pl (last :: rest) oi oe vi oc).oe (exChar pl (last :: rest) oi oe vi oc).vi ∧
    (Spec.isRemoved oc = false →
        (Spec.xStep pl (absState (last :: rest) oi oe vi) oc).2.1 = (exChar pl (last :: rest) oi oe vi oc).level ∧
        (Spec.xStep pl (absState (last :: rest) oi oe vi) oc).2.2 = (exChar pl (last :: rest) oi oe vi oc).pc) ∧
    (Spec.isRemoved oc = true →
        (exChar pl (last :: rest) oi oe vi oc).pc = BN ∧
        ((Spec.xStep pl (absState (last :: rest) oi oe vi) oc).2.1 = (exChar pl (last :: rest) oi oe vi oc).level ∨
         (isEmb oc = true ∧ oi = 0 ∧ oe = 0 ∧
          last.level = (Spec.xStep pl (absState (last :: rest) oi oe vi) oc).2.1 ∧
          (exChar pl (last :: rest) oi oe vi oc).stack =
            ⟨(exChar pl (last :: rest) oi oe vi oc).level, pushStatus oc⟩ :: last :: rest))) := by
  rcases class_cases oc with hc | hc | hc | hc | hc | hc
  · -- embedding initiator
    rw [spec_emb hc, isRemoved_emb hc]
    by_cases h0 : oi = 0 ∧ oe = 0
    · obtain ⟨rfl, rfl⟩ := h0
      cases hnl : nextLevel oc last.level with
      | none =>
        rw [exChar_emb_overflow hc (Or.inl hnl)]
        have := nextLevel_none_iff.1 hnl
        simp [show ¬ specNext oc last.level ≤ 125 by omega]
      | some nl =>
        rw [exChar_emb_push hc hnl]
        obtain ⟨h1, rfl⟩ := nextLevel_some_iff.1 hnl
        simp [h1, hc]
    · rw [exChar_emb_overflow hc (Or.inr (by omega))]
      have : ¬ (specNext oc last.level ≤ 125 ∧ oi = 0 ∧ oe = 0) := fun hh => h0 hh.2
      simp only [this, if_false]
      by_cases hoi : oi = 0 <;> simp [hoi]
  · -- isolate initiator
    rw [spec_iso hc, isRemoved_iso hc]
    by_cases h0 : oi = 0 ∧ oe = 0
    · obtain ⟨rfl, rfl⟩ := h0
      cases hnl : nextLevel oc last.level with
      | none =>
        rw [exChar_iso_overflow hc (Or.inl hnl)]
        have := nextLevel_none_iff.1 hnl
        simp [show ¬ specNext oc last.level ≤ 125 by omega]
      | some nl =>
        rw [exChar_iso_push hc hnl]
        obtain ⟨h1, rfl⟩ := nextLevel_some_iff.1 hnl
        simp [h1]
    · rw [exChar_iso_overflow hc (Or.inr (by omega))]
      have : ¬ (specNext oc last.level ≤ 125 ∧ oi = 0 ∧ oe = 0) := fun hh => h0 hh.2
      simp [this]
  · -- PDI
    subst hc
    have hrem : Spec.isRemoved PDI = false := by decide
    rw [hrem]
    by_cases hoi : 0 < oi
    · rw [exChar_PDI_overflow hoi, spec_PDI_overflow hoi]; simp
    · have hoi0 : oi = 0 := by omega
      subst hoi0
      by_cases hv : 0 < vi
      · have hp := StackOK.pop h.ok (by have := h.vi_eq; omega : 0 < isoCount (last :: rest))
        match hs : popThroughIsolate (last :: rest), hp with
        | [], hp => exact absurd hp.1 (by simp [StackOK])
        | l' :: r', hp => rw [exChar_PDI_pop hv hs, spec_PDI_pop hv hs]; simp
      · have hv0 : vi = 0 := by omega
        subst hv0
        rw [exChar_PDI_unmatched, spec_PDI_unmatched]; simp
  · -- PDF
    subst hc
    have hrem : Spec.isRemoved PDF = true := by decide
    rw [hrem]
    by_cases hoi : 0 < oi
    · rw [exChar_PDF_ignored (Or.inl hoi), spec_PDF_ignored (Or.inl hoi)]; simp
    · have hoi0 : oi = 0 := by omega
      subst hoi0
      by_cases hoe : 0 < oe
      · rw [exChar_PDF_dec hoe, spec_PDF_dec hoe]; simp
      · have hoe0 : oe = 0 := by omega
        subst hoe0
        by_cases hst : last.status = .isolate
        · rw [exChar_PDF_ignored (Or.inr ⟨rfl, Or.inl hst⟩), spec_PDF_ignored (Or.inr ⟨rfl, Or.inl hst⟩)]; simp
        · cases rest with
          | nil => rw [exChar_PDF_ignored (Or.inr ⟨rfl, Or.inr rfl⟩), spec_PDF_ignored (Or.inr ⟨rfl, Or.inr rfl⟩)]; simp
          | cons l' r' => rw [exChar_PDF_pop hst, spec_PDF_pop hst]; simp
  · subst hc
    have hrem : Spec.isRemoved B = false := by decide
    rw [exChar_B, spec_B, hrem]; simp
  · rw [exChar_plain hc, spec_plain hc, isRemoved_plain hc]
    by_cases hbn : oc = BN <;> simp [hbn]

end UBidi.Props.C11
