/-
  UBidi.Lemmas.C01WeakSeq — StageW layer 3: an isolating run sequence of several
  level runs (single-unit characters).  The pass on the whole array is simulated
  by the pass on the view of the sequence (a single run, layer 2); the result is
  the view's result written back (`resolveWeak_scatter`), hence `stageW_runs`.
-/
import UBidi.Lemmas.C01WeakRuns
namespace UBidi.Lemmas.C01Weak
open UBidi UBidi.Spec BidiClass

/-- an array with a list of indices (the pair `stepW456` returns), related to its view -/
structure PSim (idxs : List Nat) (orig : Classes) (r r' : Classes × List Nat) : Prop where
  pcs : r.1 = scatter idxs r'.1 orig
  len : r'.1.length = idxs.length
  et : r.2 = r'.2.map (idx idxs)
  etlt : ∀ k ∈ r'.2, k < idxs.length

/-- a state of the pass on the whole array, related to a state on the view of the sequence -/
structure Sim (idxs : List Nat) (orig : Classes) (st st' : WState) : Prop where
  pcs : st.pcs = scatter idxs st'.pcs orig
  len : st'.pcs.length = idxs.length
  p4 : st.prevW4 = st'.prevW4
  p5 : st.prevW5 = st'.prevW5
  p1 : st.prevW1 = st'.prevW1
  al : st.lastStrongIsAL = st'.lastStrongIsAL
  et : st.etRun = st'.etRun.map (idx idxs)
  etlt : ∀ k ∈ st'.etRun, k < idxs.length
  bn : st.bnRun = st'.bnRun.map (idx idxs)
  bnlt : ∀ k ∈ st'.bnRun, k < idxs.length

theorem setWhileBN_length (pcs : Classes) (it : List Nat) (v : BidiClass) :
    (setWhileBN pcs it v).length = pcs.length := by
  induction it generalizing pcs with
  | nil => rfl
  | cons i it ih =>
    simp only [setWhileBN]
    split
    · rfl
    · rw [ih]; simp

section sim
variable (s : IRSeq) (orig : Classes) (hnd : s.indices.Nodup) (hlt : ∀ i ∈ s.indices, i < orig.length)

include hnd hlt in
theorem stepFin_sim (k : Nat) (hk : k < s.indices.length) (c1 c2 : BidiClass) (al' : Bool)
    (r r' : Classes × List Nat) (h : PSim s.indices orig r r') :
    Sim s.indices orig (stepFin (idx s.indices k) c1 c2 al' r) (stepFin k c1 c2 al' r') := by
  unfold stepFin
  have hcg : cget r.1 (idx s.indices k) = cget r'.1 k := by
    rw [h.pcs]; exact cget_scatter _ _ hnd hlt _ k hk
  simp only [hcg]
  by_cases hET : cget r'.1 k = ET
  · simp only [hET, bne_self_eq_false, Bool.false_eq_true, if_false]
    exact ⟨h.pcs, h.len, rfl, rfl, rfl, rfl, h.et, h.etlt, rfl, by simp⟩
  · have : (cget r'.1 k != ET) = true := by simp [hET]
    simp only [this, if_true]
    refine ⟨?_, by simp [setAll_length, h.len], rfl, rfl, rfl, rfl, rfl, by simp, rfl, by simp⟩
    show setAll r.1 r.2 ON = _
    rw [h.pcs, h.et]
    exact setAll_scatter _ _ hnd hlt _ h.len _ h.etlt _


include hnd hlt in
theorem stepW456_sim (k : Nat) (hk : k < s.indices.length) (st st' : WState) (h : Sim s.indices orig st st')
    (c2 : BidiClass) (al' : Bool) :
    PSim s.indices orig
      (stepW456 (fun _ => some 1) s st (s.indexed.getD k (0, 0)).1 (idx s.indices k) c2 al')
      (stepW456 (fun _ => some 1) (seq1 s.indices.length s.sos s.eos) st' 0 k c2 al') := by
  obtain ⟨hi, hfw, hbw⟩ := indexed_facts s k hk
  rw [hi] at hfw hbw
  have hset : ∀ x, st.pcs.set (idx s.indices k) x = scatter s.indices (st'.pcs.set k x) orig := by
    intro x; rw [h.pcs]; exact set_scatter _ _ hnd hlt _ k hk h.len x
  have hlen : ∀ x, (st'.pcs.set k x).length = s.indices.length := by intro x; simp [h.len]
  by_cases h1 : c2 = EN
  · subst h1
    refine ⟨?_, ?_, rfl, by simp [stepW456]⟩
    · show setAll (st.pcs.set _ EN) st.etRun EN = scatter _ (setAll (st'.pcs.set k EN) st'.etRun EN) _
      rw [hset, h.et]
      exact setAll_scatter _ _ hnd hlt _ (hlen _) _ h.etlt _
    · show (setAll (st'.pcs.set k EN) st'.etRun EN).length = _
      rw [setAll_length, hlen]
  by_cases h3 : c2 = ET
  · subst h3
    by_cases h5 : st'.prevW5 = EN
    · have h5' : st.prevW5 = EN := by rw [h.p5, h5]
      have e1 : stepW456 (fun _ => some 1) s st (s.indexed.getD k (0, 0)).1 (idx s.indices k) ET al'
          = ((st.pcs.set (idx s.indices k) ET).set (idx s.indices k) EN, st.etRun) := by
        simp [stepW456, h5']
      have e2 : stepW456 (fun _ => some 1) (seq1 s.indices.length s.sos s.eos) st' 0 k ET al'
          = ((st'.pcs.set k ET).set k EN, st'.etRun) := by
        simp [stepW456, h5]
      rw [e1, e2]
      refine ⟨?_, by simp [h.len], h.et, h.etlt⟩
      show (st.pcs.set _ ET).set _ EN = _
      rw [hset]
      exact set_scatter _ _ hnd hlt _ k hk (hlen _) _
    · have h5' : st.prevW5 ≠ EN := by rw [h.p5]; exact h5
      have e1 : stepW456 (fun _ => some 1) s st (s.indexed.getD k (0, 0)).1 (idx s.indices k) ET al'
          = (st.pcs.set (idx s.indices k) ET, st.etRun ++ st.bnRun ++ [idx s.indices k]) := by
        simp only [stepW456]
      have e2 : stepW456 (fun _ => some 1) (seq1 s.indices.length s.sos s.eos) st' 0 k ET al'
          = (st'.pcs.set k ET, st'.etRun ++ st'.bnRun ++ [k]) := by
        simp only [stepW456]
      rw [e1, e2]
      refine ⟨hset _, hlen _, ?_, ?_⟩
      · show st.etRun ++ st.bnRun ++ _ = _
        rw [h.et, h.bn]; simp
      · intro k' hk'
        simp only [List.mem_append, List.mem_singleton] at hk'
        rcases hk' with (hk' | hk') | hk'
        · exact h.etlt _ hk'
        · exact h.bnlt _ hk'
        · rw [hk']; exact hk
  by_cases h2 : c2 = ES ∨ c2 = CS
  · -- the look-ahead sees the same types
    have hfw1 : (seq1 s.indices.length s.sos s.eos).iterForwardsFrom (k + 1) 0
        = List.range' (k + 1) (s.indices.length - (k + 1)) := iterFwd_seq1 _ _ _ _
    have hbw1 : (seq1 s.indices.length s.sos s.eos).iterBackwardsFrom k 0 = (List.range' 0 k).reverse :=
      iterBwd_seq1 _ _ _ _
    have hfwlt : ∀ k' ∈ List.range' (k + 1) (s.indices.length - (k + 1)), k' < s.indices.length := by
      intro k' hk'; rw [List.mem_range'_1] at hk'; omega
    have hbwlt : ∀ k' ∈ (List.range' 0 k).reverse, k' < s.indices.length := by
      intro k' hk'; rw [List.mem_reverse, List.mem_range'_1] at hk'; omega
    have hnext : (s.iterForwardsFrom (idx s.indices k + 1) (s.indexed.getD k (0, 0)).1).map
          (cget (st.pcs.set (idx s.indices k) c2))
        = ((seq1 s.indices.length s.sos s.eos).iterForwardsFrom (k + 1) 0).map (cget (st'.pcs.set k c2)) := by
      rw [hfw, hfw1, hset]
      exact map_cget_scatter _ _ hnd hlt _ _ hfwlt
    have key : ∀ c3 : BidiClass,
        PSim s.indices orig
          (if (c3 == ON) = true then
            (setWhileBN (setWhileBN ((st.pcs.set (idx s.indices k) c2).set (idx s.indices k) c3)
              (s.iterBackwardsFrom (idx s.indices k) (s.indexed.getD k (0, 0)).1) ON)
              (s.iterForwardsFrom (idx s.indices k + 1) (s.indexed.getD k (0, 0)).1) ON, st.etRun)
           else ((st.pcs.set (idx s.indices k) c2).set (idx s.indices k) c3, st.etRun))
          (if (c3 == ON) = true then
            (setWhileBN (setWhileBN ((st'.pcs.set k c2).set k c3)
              ((seq1 s.indices.length s.sos s.eos).iterBackwardsFrom k 0) ON)
              ((seq1 s.indices.length s.sos s.eos).iterForwardsFrom (k + 1) 0) ON, st'.etRun)
           else ((st'.pcs.set k c2).set k c3, st'.etRun)) := by
      intro c3
      have hset2 : (st.pcs.set (idx s.indices k) c2).set (idx s.indices k) c3
          = scatter s.indices ((st'.pcs.set k c2).set k c3) orig := by
        rw [hset]; exact set_scatter _ _ hnd hlt _ k hk (hlen _) _
      have hlen2 : ((st'.pcs.set k c2).set k c3).length = s.indices.length := by simp [h.len]
      split
      · refine ⟨?_, ?_, h.et, h.etlt⟩
        · show setWhileBN (setWhileBN _ _ ON) _ ON = scatter _ (setWhileBN (setWhileBN _ _ ON) _ ON) _
          rw [hbw, hfw, hbw1, hfw1, hset2, setWhileBN_scatter _ _ hnd hlt _ hlen2 _ hbwlt,
            setWhileBN_scatter _ _ hnd hlt _ (by rw [setWhileBN_length, hlen2]) _ hfwlt]
        · show (setWhileBN (setWhileBN _ _ ON) _ ON).length = _
          rw [setWhileBN_length, setWhileBN_length, hlen2]
      · exact ⟨hset2, hlen2, h.et, h.etlt⟩
    rcases h2 with rfl | rfl
    · simp only [stepW456, hnext, h.p4]
      exact key _
    · simp only [stepW456, hnext, h.p4]
      exact key _
  · have h4 : c2 ≠ EN ∧ c2 ≠ ES ∧ c2 ≠ CS ∧ c2 ≠ ET := by
      refine ⟨h1, ?_, ?_, h3⟩ <;> intro hh <;> simp [hh] at h2
    have e1 : stepW456 (fun _ => some 1) s st (s.indexed.getD k (0, 0)).1 (idx s.indices k) c2 al'
        = (st.pcs.set (idx s.indices k) c2, st.etRun) := by
      cases c2 <;> simp_all [stepW456]
    have e2 : stepW456 (fun _ => some 1) (seq1 s.indices.length s.sos s.eos) st' 0 k c2 al'
        = (st'.pcs.set k c2, st'.etRun) := by
      cases c2 <;> simp_all [stepW456]
    rw [e1, e2]
    exact ⟨hset _, hlen _, h.et, h.etlt⟩


include hnd hlt in
theorem weakStep_sim (k : Nat) (hk : k < s.indices.length) (st st' : WState) (h : Sim s.indices orig st st') :
    Sim s.indices orig
      (weakStep (fun _ => some 1) s st (s.indexed.getD k (0, 0)))
      (weakStep (fun _ => some 1) (seq1 s.indices.length s.sos s.eos) st' (0, k)) := by
  have hi := (indexed_facts s k hk).1
  have hri : s.indexed.getD k (0, 0) = ((s.indexed.getD k (0, 0)).1, idx s.indices k) := by
    rw [← hi]
  rw [hri, weakStep_eq, weakStep_eq]
  have hcg : cget st.pcs (idx s.indices k) = cget st'.pcs k := by
    rw [h.pcs]; exact cget_scatter _ _ hnd hlt _ k hk
  rw [hcg, h.p1, h.al]
  split
  · refine ⟨h.pcs, h.len, h.p4, h.p5, rfl, rfl, h.et, h.etlt, ?_, ?_⟩
    · show st.bnRun ++ _ = _
      rw [h.bn]; simp
    · intro k' hk'
      simp only [List.mem_append, List.mem_singleton] at hk'
      rcases hk' with hk' | hk'
      · exact h.bnlt _ hk'
      · rw [hk']; exact hk
  · exact stepFin_sim s orig hnd hlt k hk _ _ _ _ _ (stepW456_sim s orig hnd hlt k hk st st' h _ _)

include hnd hlt in
theorem fold_sim (ks : List Nat) (hks : ∀ k ∈ ks, k < s.indices.length) (st st' : WState)
    (h : Sim s.indices orig st st') :
    Sim s.indices orig
      ((ks.map (fun k => s.indexed.getD k (0, 0))).foldl (weakStep (fun _ => some 1) s) st)
      ((ks.map (fun k => (0, k))).foldl (weakStep (fun _ => some 1) (seq1 s.indices.length s.sos s.eos)) st') := by
  induction ks generalizing st st' with
  | nil => exact h
  | cons k ks ih =>
    simp only [List.map_cons, List.foldl_cons]
    exact ih (fun k' hk' => hks k' (by simp [hk'])) _ _
      (weakStep_sim s orig hnd hlt k (hks k (by simp)) st st' h)

include hnd hlt in
theorem w7_sim (ks : List Nat) (hks : ∀ k ∈ ks, k < s.indices.length) (p : Classes) (hp : p.length = s.indices.length)
    (b : Bool) :
    (ks.map (idx s.indices)).foldl w7Step (scatter s.indices p orig, b)
      = (scatter s.indices (ks.foldl w7Step (p, b)).1 orig, (ks.foldl w7Step (p, b)).2) := by
  induction ks generalizing p b with
  | nil => rfl
  | cons k ks ih =>
    have hk := hks k (by simp)
    simp only [List.map_cons, List.foldl_cons]
    have hstep : w7Step (scatter s.indices p orig, b) (idx s.indices k)
        = (scatter s.indices (w7Step (p, b) k).1 orig, (w7Step (p, b) k).2) := by
      unfold w7Step
      simp only [cget_scatter _ _ hnd hlt p k hk]
      split
      · split
        · simp only [set_scatter _ _ hnd hlt p k hk hp]
        · rfl
      · rfl
      · rfl
      · rfl
      · rfl
    rw [hstep]
    have hlen : (w7Step (p, b) k).1.length = s.indices.length := by
      unfold w7Step
      split
      · split <;> simp [hp]
      · exact hp
      · exact hp
      · exact hp
      · exact hp
    exact ih (fun k' hk' => hks k' (by simp [hk'])) _ hlen _

end sim


theorem eq_map_getD {α} (l : List α) (d : α) : l = (List.range' 0 l.length).map (fun k => l.getD k d) := by
  apply List.ext_getElem
  · simp
  · intro k h1 h2
    simp [List.getD_eq_getElem?_getD, h1]

/-- the pass on a sequence of several runs is the pass on the view of the sequence (a single run),
    written back to the positions of the sequence -/
theorem resolveWeak_scatter (s : IRSeq) (orig : Classes) (hnd : s.indices.Nodup)
    (hlt : ∀ i ∈ s.indices, i < orig.length) :
    resolveWeak (fun _ => some 1) s orig =
      scatter s.indices
        (resolveWeak (fun _ => some 1) { runs := [(0, s.indices.length)], sos := s.sos, eos := s.eos }
          (gather s.indices orig)) orig := by
  have hlen : s.indexed.length = s.indices.length := by rw [← indexed_snd, List.length_map]
  have hks : ∀ k ∈ List.range' 0 s.indices.length, k < s.indices.length := by
    intro k hk; rw [List.mem_range'_1] at hk; omega
  have h0 : Sim s.indices orig { pcs := orig, prevW4 := s.sos, prevW5 := s.sos, prevW1 := s.sos }
      { pcs := gather s.indices orig, prevW4 := s.sos, prevW5 := s.sos, prevW1 := s.sos } :=
    ⟨(scatter_gather _ _).symm, by simp [gather], rfl, rfl, rfl, rfl, rfl, by simp, rfl, by simp⟩
  have hf := fold_sim s orig hnd hlt (List.range' 0 s.indices.length) hks _ _ h0
  have e1 : (List.range' 0 s.indices.length).map (fun k => s.indexed.getD k (0, 0)) = s.indexed := by
    rw [← hlen]; exact (eq_map_getD _ _).symm
  have e2 : (List.range' 0 s.indices.length).map (idx s.indices) = s.indices := (eq_map_getD _ _).symm
  rw [e1] at hf
  unfold resolveWeak
  simp only []
  rw [show ({ runs := [(0, s.indices.length)], sos := s.sos, eos := s.eos } : IRSeq)
      = seq1 s.indices.length s.sos s.eos from rfl, indexed_seq1, indices_seq1]
  generalize List.foldl (weakStep (fun _ => some 1) s) _ s.indexed = st at hf
  generalize List.foldl (weakStep (fun _ => some 1) (seq1 s.indices.length s.sos s.eos)) _ _ = st' at hf
  have hfl : setAll st.pcs st.etRun ON = scatter s.indices (setAll st'.pcs st'.etRun ON) orig := by
    rw [hf.pcs, hf.et]
    exact setAll_scatter _ _ hnd hlt _ hf.len _ hf.etlt _
  have h7 := w7_sim s orig hnd hlt (List.range' 0 s.indices.length) hks (setAll st'.pcs st'.etRun ON)
    (by rw [setAll_length, hf.len]) (s.sos == L)
  rw [e2] at h7
  rw [hfl, h7]

/-- runs that are non-empty, increasing, disjoint and inside `[lo, len)` -/
def runsOK : Nat → List (Nat × Nat) → Nat → Bool
  | _, [], _ => true
  | lo, (a, b) :: rs, len => decide (lo ≤ a) && decide (a < b) && decide (b ≤ len) && runsOK b rs len

theorem runsOK_indices (lo : Nat) (runs : List (Nat × Nat)) (len : Nat) (h : runsOK lo runs len = true) :
    (runs.flatMap runIndices).Pairwise (· < ·) ∧ ∀ i ∈ runs.flatMap runIndices, lo ≤ i ∧ i < len := by
  induction runs generalizing lo with
  | nil => simp
  | cons r rs ih =>
    obtain ⟨a, b⟩ := r
    simp only [runsOK, Bool.and_eq_true, decide_eq_true_eq] at h
    obtain ⟨⟨⟨h1, h2⟩, h3⟩, h4⟩ := h
    obtain ⟨ih1, ih2⟩ := ih b h4
    simp only [List.flatMap_cons, runIndices]
    constructor
    · rw [List.pairwise_append]
      refine ⟨List.pairwise_lt_range', ih1, ?_⟩
      intro x hx y hy
      rw [List.mem_range'_1] at hx
      have := (ih2 y hy).1
      omega
    · intro i hi
      rw [List.mem_append] at hi
      rcases hi with hi | hi
      · rw [List.mem_range'_1] at hi; omega
      · have := ih2 i hi; omega

theorem runsOK_nodup (s : IRSeq) (len : Nat) (h : runsOK 0 s.runs len = true) :
    s.indices.Nodup ∧ ∀ i ∈ s.indices, i < len := by
  obtain ⟨h1, h2⟩ := runsOK_indices 0 s.runs len h
  exact ⟨h1.imp (fun h => Nat.ne_of_lt h), fun i hi => (h2 i hi).2⟩


/-- **StageW, layer 3**: a sequence of several level runs, one code unit per character.
    On the view of the sequence (its units in order) the pass computes `Spec.weak` of the view without
    its BNs; BN units end as BN, ON, EN or L; units outside the sequence are untouched. -/
theorem stageW_runs (seq : IRSeq) (hs : seq.sos = .L ∨ seq.sos = .R) (he : seq.eos = .L ∨ seq.eos = .R)
    (pcs : List BidiClass) (hruns : runsOK 0 seq.runs pcs.length = true)
    (hok : ∀ i ∈ seq.indices, cget pcs i = .BN ∨ (cget pcs i).removedByX9 = false) :
    let out := resolveWeak (fun _ => some 1) seq pcs
    let view := seq.indices.map (cget pcs)
    let oview := seq.indices.map (cget out)
    (oview.zip view).filterMap (fun (o, c) => if c = .BN then none else some o)
        = Spec.weak seq.sos (view.filter (· ≠ .BN)) ∧
    (∀ k : Nat, view[k]? = some .BN →
      oview[k]? = some .BN ∨ oview[k]? = some .ON ∨ oview[k]? = some .EN ∨ oview[k]? = some .L) ∧
    out.length = pcs.length ∧
    (∀ j : Nat, j ∉ seq.indices → out[j]? = pcs[j]?) := by
  obtain ⟨hnd, hlt⟩ := runsOK_nodup seq pcs.length hruns
  have hvok : ∀ c ∈ seq.indices.map (cget pcs), c = .BN ∨ c.removedByX9 = false := by
    intro c hc
    rw [List.mem_map] at hc
    obtain ⟨i, hi, rfl⟩ := hc
    exact hok i hi
  have h2 := stageW_bn seq.indices.length seq.sos seq.eos hs he (seq.indices.map (cget pcs)) (by simp) hvok
  simp only [] at h2 ⊢
  rw [resolveWeak_scatter seq pcs hnd hlt]
  obtain ⟨q1, q2, q3⟩ := h2
  have hg := gather_scatter seq.indices pcs hnd hlt _ q3
  simp only [gather] at hg ⊢
  rw [hg]
  exact ⟨q1, q2, scatter_length _ _ _, fun j hj => scatter_outside _ _ _ j hj⟩


/-- non-vacuity: two runs with a gap; the separator at the end of the first run looks ahead into the second
    run (over a BN), units outside the sequence (EN, ET, …) must not be touched -/
example : runsOK 0 [(1, 4), (6, 10)] [EN, EN, BN, ES, ET, EN, BN, EN, ET, CS, EN].length = true := by decide

example : ∀ i ∈ ({ runs := [(1, 4), (6, 10)], sos := L, eos := R } : IRSeq).indices,
    cget [EN, EN, BN, ES, ET, EN, BN, EN, ET, CS, EN] i = .BN ∨
      (cget [EN, EN, BN, ES, ET, EN, BN, EN, ET, CS, EN] i).removedByX9 = false := by decide

/-- (test) the pass on that input: ES between the two ENs of the sequence becomes EN, W7 makes them L -/
example : resolveWeak (fun _ => some 1) { runs := [(1, 4), (6, 10)], sos := L, eos := R }
      [EN, EN, BN, ES, ET, EN, BN, EN, ET, CS, EN]
    = [EN, L, BN, L, ET, EN, BN, L, L, ON, EN] := by decide +kernel

end UBidi.Lemmas.C01Weak
