/-
  C13 — helper lemmas, part 6: resolving the sequences.  `resolveAt_sig`: a sequence only reads its
  own positions and its two neighbours; `tyAt_sim`: the resolved types of the outside positions
  do not depend on the block; `key`: the same for a list of surviving characters
  `A ++ kI :: C ++ kP :: B`.
-/
import UBidi.Lemmas.C13Seqs
namespace UBidi.Props.C13
open UBidi UBidi.Spec BidiClass

/-! ### resolving one sequence -/

/-- W1–W7, N0, N1–N2 on the types of one sequence -/
def resolveCore (sos eos e : BidiClass) (ts0 : List BidiClass) (origNSM : List Bool) (bs : List (Option Bracket)) : List BidiClass :=
  let ts1 := weak sos ts0
  let ts2 := (bracketPairs ts1 bs).foldl (n0One sos e origNSM) ts1
  n12 sos eos e ts2

/-- `resolveSequence` in terms of the positions of the sequence -/
def resolveAt (paraLvl : Nat) (ks : List K) (pos : List Nat) : List (Nat × BidiClass) :=
  match pos.head?, pos.getLast? with
  | some first, some last =>
    let lvl := (ks.getD first default).level
    let before := if first == 0 then paraLvl else (ks.getD (first - 1) default).level
    let lastK := ks.getD last default
    let after :=
      if isIsoInit lastK.cls then paraLvl
      else if last + 1 < ks.length then (ks.getD (last + 1) default).level else paraLvl
    pos.zip (resolveCore (dirOfLevel (max lvl before)) (dirOfLevel (max lastK.level after)) (dirOfLevel lvl)
      (pos.map (fun p => (ks.getD p default).ty)) (pos.map (fun p => (ks.getD p default).cls == NSM))
      (pos.map (fun p => (ks.getD p default).brk)))
  | _, _ => []

theorem resolveSequence_eq (paraLvl : Nat) (ks : List K) (seq : List (Nat × Nat)) :
    resolveSequence paraLvl ks seq = resolveAt paraLvl ks (seqPositions seq) := rfl


/-- a sequence only reads the characters at its positions, the one before its first and the one
    after its last position -/
theorem resolveAt_sig (pl : Nat) (ksA ksS : List K) (a m : Nat) (ha : 0 < a) (hlt : a < ksS.length)
    (hlen : ksA.length = ksS.length + m)
    (hget : ∀ p, ksA.getD (sig a m p) default = ksS.getD p default)
    (hI : isIsoInit (ksS.getD (a - 1) default).cls = true)
    (pos : List Nat) (hfirst : pos.head? ≠ some a) :
    resolveAt pl ksA (pos.map (sig a m)) = (resolveAt pl ksS pos).map (Prod.map (sig a m) id) := by
  unfold resolveAt
  rw [List.head?_map, List.getLast?_map]
  cases hh : pos.head? with
  | none => simp
  | some first =>
    cases hl : pos.getLast? with
    | none => simp
    | some last =>
      have hfa : first ≠ a := by intro e; apply hfirst; rw [hh, e]
      simp only [Option.map_some]
      rw [List.map_map, List.map_map, List.map_map]
      have e1 : ((fun p => (ksA.getD p default).ty) ∘ sig a m) = fun p => (ksS.getD p default).ty := by
        funext p; show (ksA.getD (sig a m p) default).ty = _; rw [hget]
      have e1' : ((fun p => (ksA.getD p default).cls == NSM) ∘ sig a m) = fun p => (ksS.getD p default).cls == NSM := by
        funext p; show ((ksA.getD (sig a m p) default).cls == NSM) = _; rw [hget]
      have e2 : ((fun p => (ksA.getD p default).brk) ∘ sig a m) = fun p => (ksS.getD p default).brk := by
        funext p; show (ksA.getD (sig a m p) default).brk = _; rw [hget]
      rw [e1, e1', e2, hget first, hget last]
      have e3 : (if (sig a m first == 0) = true then pl else (ksA.getD (sig a m first - 1) default).level) =
          (if (first == 0) = true then pl else (ksS.getD (first - 1) default).level) := by
        by_cases h0 : first = 0
        · subst h0; simp [sig, ha]
        · have : sig a m first ≠ 0 := by unfold sig; split <;> omega
          have h2 : sig a m first - 1 = sig a m (first - 1) := by unfold sig; split <;> split <;> omega
          simp only [beq_iff_eq, h0, this, if_false, h2, hget]
      have e4 : (if isIsoInit (ksS.getD last default).cls = true then pl
            else if sig a m last + 1 < ksA.length then (ksA.getD (sig a m last + 1) default).level else pl) =
          (if isIsoInit (ksS.getD last default).cls = true then pl
            else if last + 1 < ksS.length then (ksS.getD (last + 1) default).level else pl) := by
        by_cases hi : isIsoInit (ksS.getD last default).cls = true
        · simp only [hi, if_true]
        · have hla : last ≠ a - 1 := by intro e; rw [e] at hi; exact hi hI
          have h2 : sig a m last + 1 = sig a m (last + 1) := by unfold sig; split <;> split <;> omega
          have h3 : (sig a m (last + 1) < ksA.length) ↔ (last + 1 < ksS.length) := by
            rw [hlen]; unfold sig; split <;> omega
          simp only [hi, Bool.false_eq_true, if_false, h2, hget, h3]
      rw [e3, e4]
      rw [List.zip_map_left]


/-! ### positions -/

theorem map_sig_range_low (a m s n : Nat) (h : s + n ≤ a) :
    (List.range' s n).map (sig a m) = List.range' s n := by
  induction n generalizing s with
  | zero => rfl
  | succ n ih => simp only [List.range'_succ, List.map_cons, ih (s + 1) (by omega)]; rw [sig_lt (by omega)]

theorem map_sig_range_high (a m s n : Nat) (h : a ≤ s) :
    (List.range' s n).map (sig a m) = List.range' (s + m) n := by
  induction n generalizing s with
  | zero => rfl
  | succ n ih =>
    simp only [List.range'_succ, List.map_cons, ih (s + 1) (by omega)]; rw [sig_ge h]
    congr 2; omega

theorem seqPositions_phi (a m : Nat) (s : List (Nat × Nat)) (hs : ∀ r ∈ s, r.1 < r.2) :
    seqPositions (phi a m s) = (seqPositions s).map (sig a m) := by
  induction s with
  | nil => rfl
  | cons r s ih =>
    have hr := hs r (by simp)
    have ih' := ih (fun r' hr' => hs r' (by simp [hr']))
    simp only [phi, seqPositions, List.flatMap_cons, List.flatMap_append, List.map_append] at ih' ⊢
    rw [ih']
    congr 1
    unfold splitRun
    split
    · rename_i h
      simp only [List.flatMap_cons, List.flatMap_nil, List.append_nil]
      rw [map_sig_range_low]; omega
    · split
      · rename_i h1 h2
        simp only [List.flatMap_cons, List.flatMap_nil, List.append_nil]
        rw [map_sig_range_high _ _ _ _ h2]
        congr 1; omega
      · rename_i h1 h2
        simp only [List.flatMap_cons, List.flatMap_nil, List.append_nil]
        have : List.range' r.1 (r.2 - r.1) = List.range' r.1 (a - r.1) ++ List.range' a (r.2 - a) := by
          have e1 : a = r.1 + (a - r.1) := by omega
          have e2 : r.2 - r.1 = (a - r.1) + (r.2 - a) := by omega
          rw [e2, ← List.range'_append_1, ← e1]
        rw [this, List.map_append, map_sig_range_low _ _ _ _ (by omega), map_sig_range_high _ _ _ _ (Nat.le_refl _)]
        congr 2; omega


theorem mem_seqPositions {s : List (Nat × Nat)} {p : Nat} (h : p ∈ seqPositions s) :
    ∃ r ∈ s, r.1 ≤ p ∧ p < r.2 := by
  unfold seqPositions at h
  obtain ⟨r, hr, hp⟩ := List.mem_flatMap.1 h
  rw [List.mem_range'_1] at hp
  exact ⟨r, hr, by omega, by omega⟩

theorem seqPositions_head (s : List (Nat × Nat)) (hs : ∀ r ∈ s, r.1 < r.2) (a : Nat) (ha : ∀ r ∈ s, r.1 ≠ a) :
    (seqPositions s).head? ≠ some a := by
  cases s with
  | nil => simp [seqPositions]
  | cons r s =>
    have h1 := hs r (by simp)
    have h2 := ha r (by simp)
    obtain ⟨n, hn⟩ : ∃ n, r.2 - r.1 = n + 1 := ⟨r.2 - r.1 - 1, by omega⟩
    simp only [seqPositions, List.flatMap_cons, hn, List.range'_succ, List.cons_append, List.head?_cons]
    intro e; simp at e; exact h2 e

theorem mem_resolveAt {pl : Nat} {ks : List K} {pos : List Nat} {x : Nat × BidiClass}
    (h : x ∈ resolveAt pl ks pos) : x.1 ∈ pos := by
  unfold resolveAt at h
  split at h
  · exact (List.of_mem_zip h).1
  · simp at h

/-! ### the resolved type of a position -/

def resolvedOf (pl : Nat) (ks : List K) : List (Nat × BidiClass) :=
  (isolatingRunSequences ks).flatMap (resolveSequence pl ks)

def tyAt (resolved : List (Nat × BidiClass)) (p : Nat) : BidiClass :=
  ((resolved.find? (fun x => x.1 == p)).map (·.2)).getD ON

theorem find_map_sig (a m p : Nat) (l : List (Nat × BidiClass)) :
    (l.map (Prod.map (sig a m) id)).find? (fun x => x.1 == sig a m p) =
      (l.find? (fun x => x.1 == p)).map (Prod.map (sig a m) id) := by
  rw [List.find?_map]
  congr 2
  funext x
  simp only [Function.comp, Prod.map_fst]
  by_cases h : x.1 = p
  · simp [h]
  · have : sig a m x.1 ≠ sig a m p := fun e => h (sig_inj e)
    rw [beq_eq_false_iff_ne.2 h, beq_eq_false_iff_ne.2 this]

theorem tyAt_sim (pl : Nat) (ksA ksS : List K) (a m : Nat) (ha : 0 < a) (hlt : a < ksS.length)
    (hlen : ksA.length = ksS.length + m)
    (hget : ∀ p, ksA.getD (sig a m p) default = ksS.getD p default)
    (hI : isIsoInit (ksS.getD (a - 1) default).cls = true)
    (TA TB SC : List (List (Nat × Nat)))
    (hS : isolatingRunSequences ksS = TA ++ TB)
    (hA : isolatingRunSequences ksA = TA.map (phi a m) ++ SC ++ TB.map (phi a m))
    (hgood : ∀ s ∈ TA ++ TB, ∀ r ∈ s, r.1 < r.2 ∧ r.1 ≠ a)
    (hSC : ∀ sc ∈ SC, ∀ r ∈ sc, a ≤ r.1 ∧ r.1 < r.2 ∧ r.2 ≤ a + m) (p : Nat) :
    tyAt (resolvedOf pl ksA) (sig a m p) = tyAt (resolvedOf pl ksS) p := by
  -- images of the sequences of the shorter text
  have himg : ∀ T : List (List (Nat × Nat)), (∀ s ∈ T, ∀ r ∈ s, r.1 < r.2 ∧ r.1 ≠ a) →
      ((T.map (phi a m)).flatMap (resolveSequence pl ksA)) =
        (T.flatMap (resolveSequence pl ksS)).map (Prod.map (sig a m) id) := by
    intro T hT
    induction T with
    | nil => rfl
    | cons s T ih =>
      have hs := hT s (by simp)
      simp only [List.map_cons, List.flatMap_cons, List.map_append]
      rw [ih (fun s' hs' => hT s' (by simp [hs']))]
      congr 1
      rw [resolveSequence_eq, resolveSequence_eq, seqPositions_phi a m s (fun r hr => (hs r hr).1)]
      exact resolveAt_sig pl ksA ksS a m ha hlt hlen hget hI _
        (seqPositions_head s (fun r hr => (hs r hr).1) a (fun r hr => (hs r hr).2))
  -- the sequences of the block
  have hblock : (SC.flatMap (resolveSequence pl ksA)).find? (fun x => x.1 == sig a m p) = none := by
    rw [List.find?_eq_none]
    intro x hx
    obtain ⟨sc, hsc, hx⟩ := List.mem_flatMap.1 hx
    rw [resolveSequence_eq] at hx
    obtain ⟨r, hr, h1, h2⟩ := mem_seqPositions (mem_resolveAt hx)
    have := hSC sc hsc r hr
    have hn := sig_not_content a m p
    simp only [beq_iff_eq]
    intro e; apply hn; rw [← e]; omega
  unfold tyAt resolvedOf
  rw [hA, hS]
  simp only [List.flatMap_append, List.find?_append, hblock]
  rw [himg TA (fun s hs => hgood s (by simp [hs])), himg TB (fun s hs => hgood s (by simp [hs]))]
  rw [find_map_sig, find_map_sig]
  cases (TA.flatMap (resolveSequence pl ksS)).find? (fun x => x.1 == p) with
  | some x => simp
  | none =>
    cases (TB.flatMap (resolveSequence pl ksS)).find? (fun x => x.1 == p) with
    | some x => simp
    | none => simp


theorem getD_sig (A : List K) (kI kP : K) (C B : List K) (p : Nat) :
    (A ++ kI :: C ++ kP :: B).getD (sig (A.length + 1) C.length p) default =
      (A ++ kI :: kP :: B).getD p default := by
  have e1 : A ++ kI :: C ++ kP :: B = (A ++ [kI]) ++ (C ++ kP :: B) := by simp
  have e2 : A ++ kI :: kP :: B = (A ++ [kI]) ++ kP :: B := by simp
  have l : (A ++ [kI]).length = A.length + 1 := by simp
  rw [e1, e2]
  by_cases h : p < A.length + 1
  · rw [sig_lt h]
    simp only [List.getD_eq_getElem?_getD]
    rw [List.getElem?_append_left (l₁ := A ++ [kI]) (by omega),
      List.getElem?_append_left (l₁ := A ++ [kI]) (by omega)]
  · rw [sig_ge (by omega)]
    simp only [List.getD_eq_getElem?_getD]
    rw [List.getElem?_append_right (l₁ := A ++ [kI]) (by omega),
      List.getElem?_append_right (l₁ := A ++ [kI]) (by omega), l,
      List.getElem?_append_right (by omega)]
    congr 2; omega

/-- the resolved types outside a balanced higher-level block do not depend on the block -/
theorem key (pl : Nat) (A : List K) (kI kP : K) (C B : List K)
    (hI : isIsoInit kI.cls = true) (hP : kP.cls = PDI) (hlev : kP.level = kI.level)
    (hC : IsoBalanced (C.map (·.cls))) (hCl : ∀ k ∈ C, k.level ≠ kI.level) (p : Nat) :
    tyAt (resolvedOf pl (A ++ kI :: C ++ kP :: B)) (sig (A.length + 1) C.length p) =
      tyAt (resolvedOf pl (A ++ kI :: kP :: B)) p := by
  by_cases hne : C = []
  · subst hne
    have : sig (A.length + 1) ([] : List K).length p = p := by simp [sig]
    rw [this]; simp
  -- level runs
  obtain ⟨R0, x, b, RT, hrS, hrA, cR0, hx, hb, cRT⟩ :=
    levelRuns_split (A.map (·.level)) kI.level (C.map (·.level)) (B.map (·.level))
      (by simpa using hne) (by
        intro l hl
        obtain ⟨k, hk, rfl⟩ := List.mem_map.1 hl
        exact hCl k hk)
  simp only [List.length_map] at hrA hx hb cRT
  -- match tables
  have H : SimHyp (A.length + 1) C.length
      (matchTable ((A ++ kI :: C ++ kP :: B).map (·.cls))) (matchTable ((A ++ kI :: kP :: B).map (·.cls))) := by
    have eA : (A ++ kI :: C ++ kP :: B).map (·.cls) =
        A.map (·.cls) ++ kI.cls :: C.map (·.cls) ++ PDI :: B.map (·.cls) := by simp [hP]
    have eS : (A ++ kI :: kP :: B).map (·.cls) = A.map (·.cls) ++ kI.cls :: PDI :: B.map (·.cls) := by
      simp [hP]
    rw [eA, eS]
    have lA : (A.map (·.cls)).length = A.length := by simp
    have lC : (C.map (·.cls)).length = C.length := by simp
    refine ⟨by omega, ?_, ?_, ?_, ?_⟩
    · intro q
      rw [matchTable_getD, matchTable_getD]
      have := mtAt_sig (A.map (·.cls)) kI.cls hI (C.map (·.cls)) hC (B.map (·.cls)) q
      rwa [lA, lC] at this
    · intro q t h1 h2 h3
      rw [matchTable_getD] at h3
      have := mtAt_content (A.map (·.cls)) kI.cls (C.map (·.cls)) hC (B.map (·.cls)) q t
        (by rw [lA]; exact h1) (by rw [lA, lC]; exact h2) h3
      rw [lA, lC] at this
      omega
    · intro q hq
      rw [matchTable_getD]
      have := (mtAt_before (A.map (·.cls)) kI.cls hI [] .nil (B.map (·.cls)) q (by rw [lA]; omega)).2
      rwa [lA] at this
    · rw [matchTable_getD]
      have := mtAt_init (A.map (·.cls)) kI.cls hI [] .nil (B.map (·.cls))
      simp only [List.length_nil, Nat.add_zero, lA, List.append_assoc, List.cons_append, List.nil_append] at this
      simpa using this
  -- the sequences
  have hR0 := (contig_bounds cR0).2
  have hRT := (contig_bounds cRT).2
  have cRC := levelRuns_contig (C.map (·.level)) (A.length + 1)
  have hRC := (contig_bounds cRC).2
  simp only [List.length_map] at hRC
  obtain ⟨TA, TB, SC, hS, hA, hSC⟩ := seqs_sim H R0 RT (levelRuns (C.map (·.level)) (A.length + 1)) x b
    (fun r hr => by have := hR0 r hr; omega) hx hb (fun r hr => by have := hRT r hr; omega)
    (fun r hr => by have := hRC r hr; omega)
  have eLS : (A ++ kI :: kP :: B).map (·.level) =
      A.map (·.level) ++ kI.level :: kI.level :: B.map (·.level) := by simp [hlev]
  have eLA : (A ++ kI :: C ++ kP :: B).map (·.level) =
      A.map (·.level) ++ kI.level :: (C.map (·.level) ++ kI.level :: B.map (·.level)) := by simp [hlev]
  have hS' : isolatingRunSequences (A ++ kI :: kP :: B) = TA ++ TB := by
    unfold isolatingRunSequences
    simp only
    rw [eLS, hrS]; exact hS
  have hA' : isolatingRunSequences (A ++ kI :: C ++ kP :: B) =
      TA.map (phi (A.length + 1) C.length) ++ SC ++ TB.map (phi (A.length + 1) C.length) := by
    unfold isolatingRunSequences
    simp only
    rw [eLA, hrA]; exact hA
  have hgood : ∀ s ∈ TA ++ TB, ∀ r ∈ s, r.1 < r.2 ∧ r.1 ≠ A.length + 1 := by
    rw [← hS]
    apply fold_mem _ _ _ (fun r => r.1 < r.2 ∧ r.1 ≠ A.length + 1) (by simp)
    intro r hr
    rcases List.mem_append.1 hr with h | h
    · have := hR0 r h; omega
    · rcases List.mem_cons.1 h with rfl | h
      · simp; omega
      · have := hRT r h; omega
  exact tyAt_sim pl _ _ (A.length + 1) C.length (by omega) (by simp) (by simp; omega)
    (getD_sig A kI kP C B) (by simp [List.getD_eq_getElem?_getD, hI]) TA TB SC hS' hA' hgood hSC p

end UBidi.Props.C13
