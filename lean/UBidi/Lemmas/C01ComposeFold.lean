/-
  C01 / composition, part 4: the loop over the sequences.  When the sequences have pairwise disjoint
  units, and every iteration writes only units of its sequence and computes, at the kept units of its
  sequence, a value `V s` that depends only on the units of that sequence as the explicit stage left
  them, then after the loop every sequence's kept units carry `V s` (`fold_local`).
-/
import UBidi.Lemmas.C01ComposeStep
namespace UBidi.Lemmas.C01Compose
open UBidi UBidi.BidiClass

theorem fold_local_aux (step : Classes × Option Panic → IRSeq → Classes × Option Panic) (P0 : Classes)
    (keep : Nat → Bool) (V : IRSeq → List BidiClass) :
    ∀ (L : List IRSeq), (L.flatMap (·.indices)).Nodup →
    (∀ s ∈ L, ∀ P : Classes, P.length = P0.length → (∀ i ∈ s.indices, cget P i = cget P0 i) →
      ∃ out, step (P, none) s = (out, none) ∧ out.length = P.length ∧
        (∀ j, j ∉ s.indices → cget out j = cget P j) ∧
        (s.indices.filter keep).map (cget out) = V s) →
    ∀ P : Classes, P.length = P0.length → (∀ s ∈ L, ∀ i ∈ s.indices, cget P i = cget P0 i) →
    ∃ F, L.foldl step (P, none) = (F, none) ∧ F.length = P0.length ∧
      (∀ j, (∀ s ∈ L, j ∉ s.indices) → cget F j = cget P j) ∧
      ∀ s ∈ L, (s.indices.filter keep).map (cget F) = V s
  | [], _, _, P, hP, _ => ⟨P, rfl, hP, fun _ _ => rfl, by simp⟩
  | s :: Bs, hnd, hstep, P, hP, hagree => by
    rw [List.flatMap_cons, List.nodup_append] at hnd
    obtain ⟨_, hndB, hdis⟩ := hnd
    have hdisj : ∀ i ∈ s.indices, ∀ s' ∈ Bs, i ∉ s'.indices := by
      intro i hi s' hs' hi'
      exact hdis i hi i (List.mem_flatMap.2 ⟨s', hs', hi'⟩) rfl
    obtain ⟨out, o1, o2, o3, o4⟩ := hstep s (by simp) P hP (hagree s (by simp))
    obtain ⟨F, f1, f2, f3, f4⟩ := fold_local_aux step P0 keep V Bs hndB
      (fun s' hs' => hstep s' (by simp [hs'])) out (by rw [o2, hP])
      (by
        intro s' hs' i hi
        have : i ∉ s.indices := fun h => hdisj i h s' hs' hi
        rw [o3 i this]
        exact hagree s' (by simp [hs']) i hi)
    refine ⟨F, by rw [List.foldl_cons, o1, f1], f2, ?_, ?_⟩
    · intro j hj
      rw [f3 j (fun s' hs' => hj s' (by simp [hs'])), o3 j (hj s (by simp))]
    · intro s' hs'
      rcases List.mem_cons.1 hs' with rfl | hs'
      · rw [← o4]
        apply List.map_congr_left
        intro i hi
        have hi' := (List.mem_filter.1 hi).1
        exact f3 i (fun s'' hs'' => hdisj i hi' s'' hs'')
      · exact f4 s' hs'

/-- the loop over sequences with pairwise disjoint units -/
theorem fold_local (step : Classes × Option Panic → IRSeq → Classes × Option Panic) (P0 : Classes)
    (keep : Nat → Bool) (V : IRSeq → List BidiClass) (L : List IRSeq)
    (hnd : (L.flatMap (·.indices)).Nodup)
    (hstep : ∀ s ∈ L, ∀ P : Classes, P.length = P0.length → (∀ i ∈ s.indices, cget P i = cget P0 i) →
      ∃ out, step (P, none) s = (out, none) ∧ out.length = P.length ∧
        (∀ j, j ∉ s.indices → cget out j = cget P j) ∧
        (s.indices.filter keep).map (cget out) = V s) :
    ∃ F, L.foldl step (P0, none) = (F, none) ∧ F.length = P0.length ∧
      ∀ s ∈ L, (s.indices.filter keep).map (cget F) = V s := by
  obtain ⟨F, f1, f2, _, f4⟩ := fold_local_aux step P0 keep V L hnd hstep P0 rfl (fun _ _ _ _ => rfl)
  exact ⟨F, f1, f2, f4⟩

end UBidi.Lemmas.C01Compose
