/-
  UBidi.Lemmas.C12UnitsMap — for C12 ("irrespective of how many code units each character occupies"):
  on a text with one code unit per character (encoding `utf32`) the analysis sees the scalar values only through
  the data source, so relabelling the scalar values of the text by `f` is the same as composing the data source
  with `f` (`cii_mapCp`, `paraLevels_mapCp`, `pbi_mapCp`).
-/
import UBidi.Model.Reorder
import UBidi.Lemmas.C02Width
namespace UBidi.Lemmas.C12Units
open UBidi BidiClass

/-- the text with every scalar value `c` replaced by `f c` (positions and lengths kept) -/
def mapCp (f : Nat → Nat) (t : Text) : Text :=
  { t with segs := t.segs.map (fun s => { s with cp := f s.cp }) }

/-- the data source that answers for `c` what `ds` answers for `f c` -/
def comap (ds : DataSource) (f : Nat → Nat) : DataSource :=
  { cls := fun c => ds.cls (f c), brk := fun c => ds.brk (f c) }

theorem charAt_mapCp (f : Nat → Nat) (t : Text) (i : Nat) :
    (mapCp f t).charAt i = (t.charAt i).map (fun s => { s with cp := f s.cp }) := by
  simp only [Text.charAt, mapCp, List.find?_map]
  rfl

/-- relabelling keeps the width of the character at an offset -/
theorem widthAt_mapCp (f : Nat → Nat) (t : Text) : C02.widthAt (mapCp f t) = C02.widthAt t := by
  funext k
  simp only [C02.widthAt, charAt_mapCp]
  cases t.charAt k <;> rfl

/-- `compute_initial_info` -/
theorem cii_mapCp (ds : DataSource) (f : Nat → Nat) (t : Text) (henc : t.enc = .utf32) (d : Option Nat) (split : Bool) :
    computeInitialInfo ds (mapCp f t) d split = computeInitialInfo (comap ds f) t d split := by
  have hstep : ∀ (st : IIState) (s : Seg),
      iiStep ds (mapCp f t) split d st { s with cp := f s.cp } = iiStep (comap ds f) t split d st s := by
    intro st s
    rw [C02.iiStep_eq, C02.iiStep_eq, widthAt_mapCp, show (mapCp f t).enc = t.enc from rfl, henc]
    rfl
  have hfold : ∀ (l : List Seg) (st : IIState),
      (l.map (fun s => { s with cp := f s.cp })).foldl (iiStep ds (mapCp f t) split d) st
        = l.foldl (iiStep (comap ds f) t split d) st := by
    intro l
    induction l with
    | nil => intro st; rfl
    | cons s ss ih => intro st; simp only [List.map_cons, List.foldl_cons, hstep, ih]
  unfold computeInitialInfo
  have hsegs : (mapCp f t).segs = t.segs.map (fun s => { s with cp := f s.cp }) := rfl
  have hlen : (mapCp f t).len = t.len := rfl
  simp only [hsegs, hlen, hfold]

/-- `explicit::compute` does not look at the scalar values -/
theorem explicit_mapCp (f : Nat → Nat) (t : Text) (pl : Nat) (ocs : List BidiClass) :
    explicitCompute (mapCp f t) pl ocs = explicitCompute t pl ocs := by
  have hfold : ∀ (l : List Seg) (st : ExState),
      (l.map (fun s => { s with cp := f s.cp })).foldl (exStep pl ocs) st = l.foldl (exStep pl ocs) st := by
    intro l
    induction l with
    | nil => intro st; rfl
    | cons s ss ih =>
      intro st
      simp only [List.map_cons, List.foldl_cons]
      rw [ih]
      rfl
  unfold explicitCompute
  rw [show (mapCp f t).len = t.len from rfl,
    show (mapCp f t).segs = t.segs.map (fun s => { s with cp := f s.cp }) from rfl]
  simp only [hfold]

theorem charAt_len_mapCp (f : Nat → Nat) (t : Text) :
    (fun i => ((mapCp f t).charAt i).map (·.len)) = (fun i => (t.charAt i).map (·.len)) := by
  funext i
  rw [charAt_mapCp]
  cases t.charAt i <;> rfl

theorem seqChars_mapCp (f : Nat → Nat) (t : Text) (seq : IRSeq) :
    seqChars (mapCp f t) seq = (seqChars t seq).map (fun x => (x.1, { x.2 with cp := f x.2.cp })) := by
  simp only [seqChars, mapCp, List.map_flatMap, List.filter_map, List.map_map]
  rfl

theorem identifyBracketPairs_mapCp (ds : DataSource) (f : Nat → Nat) (t : Text) (seq : IRSeq) (ocs pcs : Classes) :
    identifyBracketPairs ds (mapCp f t) seq ocs pcs = identifyBracketPairs (comap ds f) t seq ocs pcs := by
  have hfold : ∀ (l : List (Nat × Seg)) (st : BPState),
      (l.map (fun x => (x.1, { x.2 with cp := f x.2.cp }))).foldl (bpStep ds ocs pcs) st
        = l.foldl (bpStep (comap ds f) ocs pcs) st := by
    intro l
    induction l with
    | nil => intro st; rfl
    | cons s ss ih =>
      intro st
      simp only [List.map_cons, List.foldl_cons]
      rw [ih]
      rfl
  unfold identifyBracketPairs
  rw [seqChars_mapCp, hfold]

theorem n0Pair_mapCp (f : Nat → Nat) (t : Text) (henc : t.enc = .utf32) (seq : IRSeq) (e : BidiClass) (ocs : Classes)
    (st : Classes × Option Panic) (pair : BracketPair) :
    n0Pair (mapCp f t) seq e ocs st pair = n0Pair t seq e ocs st pair := by
  have hl : ∀ c c', (mapCp f t).enc.charLen c = t.enc.charLen c' := by
    intro c c'
    show t.enc.charLen c = t.enc.charLen c'
    rw [henc]; rfl
  unfold n0Pair
  rw [charAt_mapCp, charAt_mapCp]
  cases h1 : t.charAt pair.start with
  | none => rfl
  | some sseg =>
    simp only [Option.map_some, hl (f sseg.cp) sseg.cp]
    cases h2 : t.charAt pair.stop with
    | none => rfl
    | some eseg => simp only [Option.map_some, hl (f eseg.cp) eseg.cp]

theorem resolveNeutral_mapCp (ds : DataSource) (f : Nat → Nat) (t : Text) (henc : t.enc = .utf32) (seq : IRSeq)
    (levels : List Nat) (ocs pcs : Classes) :
    resolveNeutral ds (mapCp f t) seq levels ocs pcs = resolveNeutral (comap ds f) t seq levels ocs pcs := by
  unfold resolveNeutral
  have hn : ∀ e, n0Pair (mapCp f t) seq e ocs = n0Pair t seq e ocs :=
    fun e => funext (fun st => funext (fun pair => n0Pair_mapCp f t henc seq e ocs st pair))
  simp only [identifyBracketPairs_mapCp, hn]

theorem resolveSequences_mapCp (ds : DataSource) (f : Nat → Nat) (t : Text) (henc : t.enc = .utf32)
    (levels : List Nat) (ocs : Classes) (seqs : List IRSeq) (pcs : Classes) :
    resolveSequences ds (mapCp f t) levels ocs seqs pcs = resolveSequences (comap ds f) t levels ocs seqs pcs := by
  unfold resolveSequences
  simp only [charAt_len_mapCp, resolveNeutral_mapCp ds f t henc]

/-- `compute_bidi_info_for_para` -/
theorem paraLevels_mapCp (ds : DataSource) (f : Nat → Nat) (t : Text) (henc : t.enc = .utf32) (pl : Nat)
    (pure hasIso : Bool) (ocs : Classes) :
    paraLevels ds pl pure hasIso (mapCp f t) ocs = paraLevels (comap ds f) pl pure hasIso t ocs := by
  unfold paraLevels
  simp only [explicit_mapCp, resolveSequences_mapCp ds f t henc]
  rfl

/-- `ParagraphBidiInfo::new_with_data_source` -/
theorem pbi_mapCp (ds : DataSource) (f : Nat → Nat) (t : Text) (henc : t.enc = .utf32) (d : Option Nat) :
    paragraphBidiInfo ds (mapCp f t) d = paragraphBidiInfo (comap ds f) t d := by
  unfold paragraphBidiInfo
  simp only [cii_mapCp ds f t henc, paraLevels_mapCp ds f t henc]

end UBidi.Lemmas.C12Units
