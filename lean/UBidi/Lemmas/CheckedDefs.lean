/-
  UBidi.Lemmas.CheckedDefs — CHECKED COPIES of the stage functions of the per-paragraph resolver.

  The Model (`UBidi/Model/*.lean`) transcribes ordinary Rust indexing `a[i]` by TOTALISED reads and
  writes (`List.getD`, `cget`, `List.set`, `setRange`, `setAll`, `setWhileBN`, `setWhileNsmOrBN`,
  `List.take/drop`, `xs[i]?`): an index that is out of range — a panic in Rust — silently yields a
  default.  This file holds, for every stage of `compute_bidi_info_for_para`, a copy that is the same
  algorithm statement for statement, but performs EVERY array read, array write and slice through
  the checked primitives of the first section and ORs their out-of-bounds flags into the flag of
  the result (`Chk.oob`).  `UBidi/Lemmas/CheckedVal.lean` proves `(fC args).val = f args` (the copy
  computes exactly the Model function), `UBidi/Lemmas/CheckedOob*.lean` prove `(fC args).oob = false`
  under the invariants the pipeline establishes, `UBidi/Props/C07Index.lean` composes them.

  AUDIT.  Below the section marker line that ends the primitives ("## ===… PRIMITIVES (END) ===…",
  the only line of this file matching `^.-! ## =+ PRIMITIVES \(END\)`), this file — comments
  included — must not mention, as whole words,
    getD  cget  set (as `List.set` / `.set `)  setRange  setAll  setWhileBN  setWhileNsmOrBN  get!
    `]!`  `]?`  take / drop (as `List.take`, `.take `, `List.drop`, `.drop `)  slice  head!  getLast
  nor any unchecked stage function
    weakStep w7Step resolveWeak bpStep seqChars identifyBracketPairs scanEnclosed n0Pair n12Step
    n12 resolveNeutral resolveLevels exStep explicitCompute seqBounds seqOfRunFast prepStep
    isolatingRunSequences fillRemovedLoop assignLevelsToRemovedChars resolveSequences paraLevels
    iterForwardsFrom iterBackwardsFrom bidiInfo paragraphBidiInfo
  (the checked copies are named `…C`).  Command:
    awk '/^.-! ## =+ PRIMITIVES \(END\)/{f=1;next} f' UBidi/Lemmas/CheckedDefs.lean | grep -nE \
      '\b(getD|cget|setRange|setAll|setWhileBN|setWhileNsmOrBN|slice|getLast\??|head!|weakStep|w7Step|resolveWeak|bpStep|seqChars|identifyBracketPairs|scanEnclosed|n0Pair|n12Step|n12|resolveNeutral|resolveLevels|exStep|explicitCompute|seqBounds|seqOfRunFast|prepStep|isolatingRunSequences|fillRemovedLoop|assignLevelsToRemovedChars|resolveSequences|paraLevels|iterForwardsFrom|iterBackwardsFrom|bidiInfo|paragraphBidiInfo)\b|List\.set|\.set |get!|\]!|\]\?|List\.take|\.take |List\.drop|\.drop '
  must print nothing.  This file contains definitions only (no `theorem`, no `example`).  Index-free
  Model functions (iterators over a `Vec`/`Range`, `find`, `position`, `zip` of two iterators, pure
  functions of values) are used as they are: `IRSeq.indexed`, `IRSeq.indices`, `runIndices`,
  `List.range'`, `Text.charAt`, `Text.subrange` (its range is checked by `slc`), `findOpening`,
  `insertPair`, `sortPairs`, `n12Class`, `isNIorBN`, `resolveLevel`, `exChar`, `notRemoved`,
  `rposition`, `Level.*`, `orErr`, `computeInitialInfo` (the first pass: not a checked copy).
  `unwrapOr` (a primitive) is `Option::unwrap_or`, i.e. `Option.getD` — not an index.
-/
import UBidi.Model.Pipeline
namespace UBidi.Checked
open UBidi UBidi.BidiClass

/-! ## ======================= PRIMITIVES (BEGIN) ======================= -/

/-- a value together with the flag "some index or slice bound was out of range on the way" -/
structure Chk (α : Type) where
  val : α
  oob : Bool
  deriving Repr

/-- no access -/
@[inline] def Chk.pure {α : Type} (a : α) : Chk α := ⟨a, false⟩

/-- sequencing: the flags are ORed -/
@[inline] def Chk.bind {α β : Type} (x : Chk α) (f : α → Chk β) : Chk β :=
  let r := f x.val
  ⟨r.val, x.oob || r.oob⟩

instance : Monad Chk where
  pure := Chk.pure
  bind := Chk.bind

/-- `xs[i]` (read); out of range: the Model's default `d`, flag raised -/
def rd {α : Type} (xs : List α) (i : Nat) (d : α) : Chk α := ⟨xs.getD i d, decide (xs.length ≤ i)⟩

/-- `xs[i]` on a `Vec` of ranges, result as an `Option` like the Model; out of range: flag raised -/
def rdOpt {α : Type} (xs : List α) (i : Nat) : Chk (Option α) := ⟨xs[i]?, decide (xs.length ≤ i)⟩

/-- `xs[i] = v` (write); out of range: nothing written, flag raised -/
def wr {α : Type} (xs : List α) (i : Nat) (v : α) : Chk (List α) := ⟨xs.set i v, decide (xs.length ≤ i)⟩

/-- the bounds check of a slice `&a[x..y]` of an array (or text) of length `len`: `x ≤ y ≤ len` -/
def slc (len x y : Nat) : Chk Unit := ⟨(), !(decide (x ≤ y) && decide (y ≤ len))⟩

/-- the bounds check of an index `i` into an array of length `len` -/
def idxC (len i : Nat) : Chk Unit := ⟨(), decide (len ≤ i)⟩

/-- `&xs[x..y]` -/
def sliceC {α : Type} (xs : List α) (x y : Nat) : Chk (List α) :=
  ⟨(xs.drop x).take (y - x), !(decide (x ≤ y) && decide (y ≤ xs.length))⟩

/-- `&xs[..k]` -/
def takeC {α : Type} (xs : List α) (k : Nat) : Chk (List α) := ⟨xs.take k, decide (xs.length < k)⟩

/-- `&xs[k..]` -/
def dropC {α : Type} (xs : List α) (k : Nat) : Chk (List α) := ⟨xs.drop k, decide (xs.length < k)⟩

/-- `i - 1` on `usize`, used as an index: `i = 0` underflows (debug: panic; release: wraps to
    `usize::MAX`, and the index is out of range) -/
def dec1 (i : Nat) : Chk Nat := ⟨i - 1, decide (i = 0)⟩

/-- `xs[xs.len() - 1]` -/
def lastC {α : Type} (xs : List α) (d : α) : Chk α := ⟨xs.getLast?.getD d, xs.isEmpty⟩

/-- `Option::unwrap_or` (`Option.getD`; here so that the word `getD` does not occur below) -/
abbrev unwrapOr {α : Type} (o : Option α) (d : α) : α := o.getD d

/-- an index expression that is out of range for certain (`v[0]` on an empty `Vec`) -/
def oobFail {α : Type} (a : α) : Chk α := ⟨a, true⟩

/-! ## ======================= PRIMITIVES (END) ======================= -/

/-- `for x in xs { st = f(st, x) }` with a checked body -/
def foldlC {σ β : Type} (f : σ → β → Chk σ) : σ → List β → Chk σ
  | s, [] => pure s
  | s, x :: xs => do
    let s' ← f s x
    foldlC f s' xs

/-! ### checked versions of the Model's array helpers -/

/-- `for j in idxs { a[j] = v }` (the checked write-all) -/
def wrAll (pcs : Classes) (idxs : List Nat) (v : BidiClass) : Chk Classes :=
  foldlC (fun p j => wr p j v) pcs idxs

/-- `for idx in it { if a[idx] != BN { break }; a[idx] = v }` (the checked write-while-BN) -/
def wrWhileBN (v : BidiClass) : Classes → List Nat → Chk Classes
  | pcs, [] => pure pcs
  | pcs, idx :: rest => do
    let c ← rd pcs idx ON
    if c != BN then pure pcs
    else do
      let pcs ← wr pcs idx v
      wrWhileBN v pcs rest

/-- `for idx in it { if oc[idx] == NSM { a[idx] = v } else if !removed_by_x9(oc[idx]) { break } }`
    (the checked write-while-NSM-or-removed) -/
def wrWhileNsmOrBN (ocs : Classes) (v : BidiClass) : Classes → List Nat → Chk Classes
  | pcs, [] => pure pcs
  | pcs, idx :: rest => do
    let c ← rd ocs idx ON
    if c == NSM then do
      let pcs ← wr pcs idx v
      wrWhileNsmOrBN ocs v pcs rest
    else if c.removedByX9 then wrWhileNsmOrBN ocs v pcs rest
    else pure pcs

/-- `for c in &mut a[i..i+n] { *c = v }` (the checked range fill): the range bounds and every write -/
def wrRangeLoop {α : Type} (i : Nat) (v : α) : List α → Nat → Chk (List α)
  | xs, 0 => pure xs
  | xs, n + 1 => do
    let xs ← wr xs (i + n) v
    wrRangeLoop i v xs n

def wrRange {α : Type} (xs : List α) (i n : Nat) (v : α) : Chk (List α) := do
  slc xs.length i (i + n)
  wrRangeLoop i v xs n

/-- `it.map(|j| a[j]).find(p)` — lazy: reads up to the first hit -/
def findRd (pcs : Classes) (p : BidiClass → Bool) : List Nat → Chk (Option BidiClass)
  | [] => pure none
  | j :: rest => do
    let c ← rd pcs j ON
    if p c then pure (some c) else findRd pcs p rest

/-- `it.find(|i| p(a[*i]))` — lazy -/
def findIdxRd (ocs : Classes) (p : BidiClass → Bool) : List Nat → Chk (Option Nat)
  | [] => pure none
  | j :: rest => do
    let c ← rd ocs j ON
    if p c then pure (some j) else findIdxRd ocs p rest

/-- `IsolatingRunSequence::iter_forwards_from`: `&self.runs[level_run_index..]`, `runs[0]` -/
def iterForwardsFromC (s : IRSeq) (pos runIdx : Nat) : Chk (List Nat) := do
  let runs ← dropC s.runs runIdx
  match runs with
  | [] => oobFail []
  | r :: rest => pure (List.range' pos (r.2 - pos) ++ rest.flatMap runIndices)

/-- `IsolatingRunSequence::iter_backwards_from`: `&self.runs[..level_run_index]`,
    `self.runs[level_run_index]` -/
def iterBackwardsFromC (s : IRSeq) (pos runIdx : Nat) : Chk (List Nat) := do
  let prev ← takeC s.runs runIdx
  let cur? ← rdOpt s.runs runIdx
  match cur? with
  | none => pure []
  | some cur =>
    pure ((List.range' cur.1 (pos - cur.1)).reverse ++ prev.reverse.flatMap (fun r => (runIndices r).reverse))

/-! ### implicit.rs `resolve_weak` -/

/-- the `ES | CS` arm of W4–W6 at a character start (`text.char_at(i) = Some((_, char_len))`) -/
def weakSepC (seq : IRSeq) (prevW4 c2 : BidiClass) (lastAL : Bool) (etRun : List Nat) (pcs : Classes)
    (i charLen runIdx : Nat) : Chk (Classes × List Nat) := do
  let fwd ← iterForwardsFromC seq (i + charLen) runIdx
  let found ← findRd pcs notRemoved fwd
  let nextClass0 := unwrapOr found seq.eos
  let nextClass := if nextClass0 == EN && lastAL then AN else nextClass0
  let c3 := match prevW4, c2, nextClass with
    | EN, ES, EN => EN
    | EN, CS, EN => EN
    | AN, CS, AN => AN
    | _, _, _ => ON
  let pcs ← wr pcs i c3
  if c3 == ON then do
    let bwd ← iterBackwardsFromC seq i runIdx
    let pcs ← wrWhileBN ON pcs bwd
    let fwd2 ← iterForwardsFromC seq (i + charLen) runIdx
    let pcs ← wrWhileBN ON pcs fwd2
    pure (pcs, etRun)
  else pure (pcs, etRun)

/-- W4 / W5 / W6 (separators) for the class `c2` of unit `i` -/
def weakW456C (charLenAt : Nat → Option Nat) (seq : IRSeq) (st : WState) (c2 : BidiClass)
    (lastAL : Bool) (pcs : Classes) (i runIdx : Nat) : Chk (Classes × List Nat) :=
  match c2 with
  | EN => do
    let pcs ← wrAll pcs st.etRun EN
    pure (pcs, [])
  | ES | CS =>
    (match charLenAt i with
     | some charLen => weakSepC seq st.prevW4 c2 lastAL st.etRun pcs i charLen runIdx
     | none => do
       let j ← dec1 i
       let c ← rd pcs j ON
       let pcs ← wr pcs i c
       pure (pcs, st.etRun))
  | ET =>
    (match st.prevW5 with
     | EN => do
       let pcs ← wr pcs i EN
       pure (pcs, st.etRun)
     | _ => pure (pcs, st.etRun ++ st.bnRun ++ [i]))
  | _ => pure (pcs, st.etRun)

/-- the common tail of an iteration: `prev_class_before_w5`, W6 (terminators), the new state -/
def weakTailC (classBeforeW456 prevW1 : BidiClass) (lastAL : Bool) (i : Nat)
    (pe : Classes × List Nat) : Chk WState := do
  let prevW5 ← rd pe.1 i ON
  let pe2 ← (if prevW5 != ET then do
                let p ← wrAll pe.1 pe.2 ON
                pure (p, ([] : List Nat))
              else pure (pe.1, pe.2))
  pure { pcs := pe2.1, prevW4 := classBeforeW456, prevW5 := prevW5, prevW1 := prevW1,
         lastStrongIsAL := lastAL, etRun := pe2.2, bnRun := [] }

/-- an iteration at a unit whose class `c0` is not BN: W1, W2/W3, W4–W6 -/
def weakBodyC (charLenAt : Nat → Option Nat) (seq : IRSeq) (st : WState) (runIdx i : Nat)
    (c0 : BidiClass) : Chk WState := do
  -- W1
  let c1 := if c0 == NSM then
              (match st.prevW1 with
               | RLI | LRI | FSI | PDI => ON
               | p => p)
            else c0
  let w2class := c1
  let prevW1 := c1
  -- W2 / W3
  let c2 := match c1 with
    | EN => if st.lastStrongIsAL then AN else EN
    | AL => R
    | c => c
  let lastAL := match w2class with
    | L | R => false
    | AL => true
    | _ => st.lastStrongIsAL
  let classBeforeW456 := c2
  let pcs ← wr st.pcs i c2
  -- W4 / W5 / W6 (separators)
  let pe ← weakW456C charLenAt seq st c2 lastAL pcs i runIdx
  weakTailC classBeforeW456 prevW1 lastAL i pe

/-- one iteration of the inner loop of `resolve_weak` at unit `i` of run `runIdx` -/
def weakStepC (charLenAt : Nat → Option Nat) (seq : IRSeq) (st : WState) (ri : Nat × Nat) : Chk WState := do
  let runIdx := ri.1
  let i := ri.2
  let b ← rd st.pcs i ON
  if b == BN then pure { st with bnRun := st.bnRun ++ [i] }
  else do
    let c0 ← rd st.pcs i ON
    weakBodyC charLenAt seq st runIdx i c0

/-- the W7 pass -/
def w7StepC (st : Classes × Bool) (i : Nat) : Chk (Classes × Bool) := do
  let c ← rd st.1 i ON
  match c with
  | EN => if st.2 then do
            let p ← wr st.1 i L
            pure (p, st.2)
          else pure st
  | L => pure (st.1, true)
  | R | AL => pure (st.1, false)
  | _ => pure st

/-- `implicit::resolve_weak(text, sequence, processing_classes)` -/
def resolveWeakC (charLenAt : Nat → Option Nat) (seq : IRSeq) (pcs : Classes) : Chk Classes := do
  let st0 : WState := { pcs := pcs, prevW4 := seq.sos, prevW5 := seq.sos, prevW1 := seq.sos }
  let st ← foldlC (weakStepC charLenAt seq) st0 seq.indexed
  let pcs ← wrAll st.pcs st.etRun ON
  let r ← foldlC w7StepC (pcs, seq.sos == L) seq.indices
  pure r.1

/-! ### implicit.rs `identify_bracket_pairs` -/

/-- one character `(run_index, seg)` of `identify_bracket_pairs` -/
def bpStepC (ds : DataSource) (ocs pcs : Classes) (st : BPState) (x : Nat × Seg) : Chk BPState :=
  if st.stopped then pure st
  else do
    let runIdx := x.1
    let actual := x.2.start
    let pc ← rd pcs actual ON
    if pc != ON then pure st
    else do
      let oc ← rd ocs actual ON
      if oc.removedByX9 then pure st
      else match ds.brk x.2.cp with
        | none => pure st
        | some m =>
          if m.isOpen then
            if st.stack.length ≥ Gen.bracketStackLimit then pure { st with stopped := true }
            else pure { st with stack := (m.opening, actual, runIdx) :: st.stack }
          else match findOpening m.opening st.stack with
            | some (e, rest) =>
              pure { st with stack := rest,
                             pairs := st.pairs ++ [{ start := e.2.1, stop := actual, startRun := e.2.2, endRun := runIdx }] }
            | none => pure st

/-- the characters of the sequence with their run index: `text.subrange(level_run)` for every
    run (the range bounds of every run are checked, also of runs after a `break 'outer`) -/
def seqCharsC (t : Text) (seq : IRSeq) : Chk (List (Nat × Seg)) :=
  foldlC (fun (acc : List (Nat × Seg)) (rk : (Nat × Nat) × Nat) => do
      slc t.len rk.1.1 rk.1.2
      pure (acc ++ (t.segs.filter (fun s => rk.1.1 ≤ s.start && s.start < rk.1.2)).map (fun s => (rk.2, s))))
    [] seq.runs.zipIdx

def identifyBracketPairsC (ds : DataSource) (t : Text) (seq : IRSeq) (ocs pcs : Classes) :
    Chk (List BracketPair) := do
  let xs ← seqCharsC t seq
  let st ← foldlC (bpStepC ds ocs pcs) {} xs
  pure (sortPairs st.pairs)

/-! ### implicit.rs `resolve_neutral` -/

/-- the scan of the characters enclosed by a pair: `(found_e, found_not_e)` -/
def scanEnclosedC (pcs : Classes) (e notE : BidiClass) (stop : Nat) : List Nat → Bool → Chk (Bool × Bool)
  | [], fne => pure (false, fne)
  | i :: rest, fne =>
    if i ≥ stop then pure (false, fne)
    else do
      let c ← rd pcs i ON
      if c == e then pure (true, fne)
      else if c == notE then scanEnclosedC pcs e notE stop rest true
      else if c == EN || c == AN then
        (if e == L then scanEnclosedC pcs e notE stop rest true else pure (true, fne))
      else scanEnclosedC pcs e notE stop rest fne

/-- the class N0 gives to the pair, if any -/
def n0ClassC (seq : IRSeq) (e : BidiClass) (pcs : Classes) (pair : BracketPair)
    (foundE foundNotE : Bool) : Chk (Option BidiClass) :=
  if foundE then pure (some e)
  else if foundNotE then do
    let bwd ← iterBackwardsFromC seq pair.start pair.startRun
    let found ← findRd pcs (fun c => c == L || c == R || c == EN || c == AN) bwd
    let prev := unwrapOr found seq.sos
    pure (some (if prev == EN || prev == AN then R else prev))
  else pure none

/-- N0 for one bracket pair; `text.subrange(pair.start..pair.end)`,
    `text.subrange(pair.end..text.len())` are slices of the text -/
def n0PairC (t : Text) (seq : IRSeq) (e : BidiClass) (ocs : Classes)
    (st : Classes × Option Panic) (pair : BracketPair) : Chk (Classes × Option Panic) := do
  let pcs := st.1
  let notE := if e == L then R else L
  slc t.len pair.start pair.stop
  match t.charAt pair.start with
  | none => pure (pcs, orErr st.2 (some .bracketNoChar))
  | some sseg => do
    let startLen := t.enc.charLen sseg.cp
    let fwd ← iterForwardsFromC seq (pair.start + startLen) pair.startRun
    let ff ← scanEnclosedC pcs e notE pair.stop fwd false
    let classToSet ← n0ClassC seq e pcs pair ff.1 ff.2
    match classToSet with
    | none => pure (pcs, st.2)
    | some v => do
      slc t.len pair.stop t.len
      match t.charAt pair.stop with
      | none => pure (pcs, orErr st.2 (some .bracketNoChar))
      | some eseg => do
        let endLen := t.enc.charLen eseg.cp
        let pcs ← wrRange pcs pair.start startLen v
        let pcs ← wrRange pcs pair.stop endLen v
        let bwd ← iterBackwardsFromC seq pair.start pair.startRun
        let pcs ← wrWhileBN v pcs bwd
        let fwd1 ← iterForwardsFromC seq (pair.start + startLen) pair.startRun
        let pcs ← wrWhileNsmOrBN ocs v pcs fwd1
        let fwd2 ← iterForwardsFromC seq (pair.stop + endLen) pair.endRun
        let pcs ← wrWhileNsmOrBN ocs v pcs fwd2
        pure (pcs, st.2)

/-- N1/N2, one unit -/
def n12StepC (e : BidiClass) (st : N12State) (i : Nat) : Chk N12State := do
  let c ← rd st.pcs i ON
  if isNIorBN c then pure { st with pending := st.pending ++ [i] }
  else
    match st.pending with
    | [] => pure { st with prev := c }
    | _ => do
      let pcs ← wrAll st.pcs st.pending (n12Class st.prev c e)
      pure { pcs := pcs, prev := c, pending := [] }

def n12C (seq : IRSeq) (e : BidiClass) (pcs : Classes) : Chk Classes := do
  let st ← foldlC (n12StepC e) { pcs := pcs, prev := seq.sos } seq.indices
  match st.pending with
  | [] => pure st.pcs
  | _ => wrAll st.pcs st.pending (n12Class st.prev seq.eos e)

/-- `implicit::resolve_neutral`: `levels[sequence.runs[0].start]`, N0, N1/N2 -/
def resolveNeutralC (ds : DataSource) (t : Text) (seq : IRSeq) (levels : List Nat)
    (ocs pcs : Classes) : Chk (Classes × Option Panic) :=
  match seq.runs with
  | [] => oobFail (pcs, some .indexOutOfBounds)
  | r0 :: _ => do
    let l ← rd levels r0.1 0
    let e := Level.bidiClass l
    let pairs ← identifyBracketPairsC ds t seq ocs pcs
    let pe ← foldlC (n0PairC t seq e ocs) (pcs, none) pairs
    let pcs ← n12C seq e pe.1
    pure (pcs, pe.2)

/-! ### implicit.rs `resolve_levels` -/

/-- `for i in 0..levels.len() { match (levels[i].is_rtl(), processing_classes[i]) { … levels[i].raise(…) } }`
    as the index loop it is in the crate (the Model zips the two arrays) -/
def resolveLevelsC (pcs : Classes) (levels : List Nat) : Chk (List Nat × Option Panic) :=
  foldlC (fun (acc : List Nat × Option Panic) (i : Nat) => do
      let l ← rd acc.1 i 0
      let c ← rd pcs i ON
      let r := resolveLevel l c
      let lv ← wr acc.1 i r.1
      pure (lv, orErr acc.2 r.2))
    (levels, if pcs.length = levels.length then none else some .lenMismatch)
    (List.range levels.length)

/-! ### explicit.rs `compute` -/

/-- One iteration of `for (i, len) in text.indices_lengths()`.  The Model builds `levels` and
    `processing_classes` by APPENDING the `len` entries of the character; the crate writes them at
    `i, i+1, …, i+len-1` of arrays of length `n` (`levels[i] = …`, `processing_classes[i] = …`,
    `levels[i + j] = levels[i]` for `j in 1..len`, and reads `levels[i]` back).  There is no array
    access of the Model to route through `rd`/`wr` here, so the writes are represented by the bounds
    check of the range `i .. i+len` (`slc`), and of `i` itself (`idxC`, for `len = 0`). -/
def exStepC (paraLevel : Nat) (ocs : List BidiClass) (n : Nat) (st : ExState) (s : Seg) : Chk ExState := do
  let i := s.start
  let oc ← rd ocs i ON
  let r := exChar paraLevel st.stack st.oi st.oe st.vi oc
  let err := orErr st.err (orErr (if i < ocs.length then none else some .indexOutOfBounds) r.err)
  idxC n i
  slc n i (i + s.len)
  let st' : ExState :=
    { st with stack := r.stack, oi := r.oi, oe := r.oe, vi := r.vi,
              levels := st.levels ++ List.replicate s.len r.level,
              pcs := st.pcs ++ List.replicate s.len r.pc, err := err }
  if i == 0 then pure { st' with curLevel := r.level }
  else if !oc.removedByX9 && r.level != st'.curLevel then
    pure { st' with runs := st'.runs ++ [(st'.curStart, i)], curLevel := r.level, curStart := i }
  else pure st'

/-- `explicit::compute`; the arrays `levels`, `processing_classes` have `text.len()` entries -/
def explicitComputeC (t : Text) (paraLevel : Nat) (ocs : List BidiClass) : Chk ExplicitOut := do
  let st0 : ExState := { stack := [{ level := paraLevel, status := .neutral }],
                         err := if t.len = ocs.length then none else some .explicitLenMismatch }
  let st ← foldlC (exStepC paraLevel ocs t.len) st0 t.segs
  let n := st.levels.length
  pure { levels := st.levels, pcs := st.pcs,
         runs := if n > st.curStart then st.runs ++ [(st.curStart, n)] else st.runs,
         err := st.err }

/-! ### prepare.rs `isolating_run_sequences` -/

/-- `xs.iter().map(f)` with a checked `f`, in order -/
def mapC {α β : Type} (f : α → Chk β) : List α → Chk (List β)
  | [] => pure []
  | x :: xs => do
    let y ← f x
    let ys ← mapC f xs
    pure (y :: ys)

/-- the level of the last non-removed character before `a`:
    `match original_classes[..a].iter().rposition(not_removed_by_x9) { Some(idx) => levels[idx], None => para_level }` -/
def levelBeforeC (paraLevel : Nat) (ocs : List BidiClass) (levels : List Nat) (a : Nat) : Chk Nat := do
  let before ← takeC ocs a
  match rposition notRemoved before with
  | some idx => rd levels idx 0
  | none => pure paraLevel

/-- the level of the first non-removed character from `b` on:
    `match original_classes[b..].iter().position(not_removed_by_x9) { Some(idx) => levels[b + idx], None => para_level }` -/
def levelAfterC (paraLevel : Nat) (ocs : List BidiClass) (levels : List Nat) (b : Nat) : Chk Nat := do
  let after ← dropC ocs b
  match after.findIdx? notRemoved with
  | some idx => rd levels (b + idx) 0
  | none => pure paraLevel

/-- sos/eos of one sequence (general path, prepare.rs:162-231) -/
def seqBoundsC (paraLevel : Nat) (ocs : List BidiClass) (levels : List Nat)
    (runs : List (Nat × Nat)) : Chk (IRSeq × Option Panic) :=
  match runs with
  | [] => pure ({ runs := runs, sos := L, eos := L }, some .prepareAssert)
  | r0 :: _ => do
    let startOfSeq := r0.1
    let lastRun ← lastC runs r0
    let endOfSeq := lastRun.2
    let s0 : IRSeq := { runs := runs, sos := L, eos := L }
    let all := s0.indices
    let first ← findIdxRd ocs notRemoved all
    let seqLevel ← rd levels (unwrapOr first startOfSeq) 0
    let endM1 ← dec1 endOfSeq
    let last ← findIdxRd ocs notRemoved all.reverse
    let endLevel ← rd levels (unwrapOr last endM1) 0
    let predLevel ← levelBeforeC paraLevel ocs levels startOfSeq
    let upto ← takeC ocs endOfSeq
    let lastNonRemoved := unwrapOr (upto.reverse.find? notRemoved) BN
    let succLevel ←
      (if lastNonRemoved.isIsolateInitiator then pure paraLevel
       else levelAfterC paraLevel ocs levels endOfSeq)
    pure ({ runs := runs, sos := Level.bidiClass (max seqLevel predLevel),
            eos := Level.bidiClass (max endLevel succLevel) }, none)

/-- fast path, one sequence per level run (prepare.rs:67-110) -/
def seqOfRunFastC (paraLevel : Nat) (ocs : List BidiClass) (levels : List Nat) (run : Nat × Nat) : Chk IRSeq := do
  let runLevels ← sliceC levels run.1 run.2
  let runClasses ← sliceC ocs run.1 run.2
  let seqLevel ← rd runLevels (unwrapOr (runClasses.findIdx? notRemoved) 0) 0
  let lenM1 ← dec1 (run.2 - run.1)
  let endLevel ← rd runLevels (unwrapOr (rposition notRemoved runClasses) lenM1) 0
  let predLevel ← levelBeforeC paraLevel ocs levels run.1
  let succLevel ← levelAfterC paraLevel ocs levels run.2
  pure { runs := [run], sos := Level.bidiClass (max seqLevel predLevel),
         eos := Level.bidiClass (max endLevel succLevel) }

/-- `stack.pop()` together with the rest (on an empty stack — excluded by `stack.len() > 1` — the
    crate's `unwrap()` would panic; not an index) -/
def popTop (stack : List (List (Nat × Nat))) : List (Nat × Nat) × List (List (Nat × Nat)) :=
  match stack with
  | top :: rest => (top, rest)
  | [] => ([], [])

/-- One iteration of `for run in runs` of the general path. -/
def prepStepC (ocs : List BidiClass) (st : PrepState) (run : Nat × Nat) : Chk PrepState := do
  let err := orErr st.err (if run.1 < run.2 && !st.stack.isEmpty then none else some .prepareAssert)
  let startClass ← rd ocs run.1 ON
  let runClasses ← sliceC ocs run.1 run.2
  let endClass := unwrapOr (runClasses.reverse.find? notRemoved) startClass
  let (seq0, stack1) :=
    if startClass == PDI && st.stack.length > 1 then popTop st.stack
    else ([], st.stack)
  let seq := seq0 ++ [run]
  if endClass.isIsolateInitiator then pure { stack := seq :: stack1, done := st.done, err := err }
  else pure { stack := stack1, done := st.done ++ [seq], err := err }

/-- `prepare::isolating_run_sequences` -/
def isolatingRunSequencesC (paraLevel : Nat) (ocs : List BidiClass) (levels : List Nat)
    (runs : List (Nat × Nat)) (hasIso : Bool) : Chk (List IRSeq × Option Panic) :=
  if !hasIso then do
    let seqs ← mapC (seqOfRunFastC paraLevel ocs levels) runs
    pure (seqs, none)
  else do
    let st ← foldlC (prepStepC ocs) { stack := [[]], done := [] } runs
    let seqs := st.done ++ st.stack.filter (fun s => !s.isEmpty)
    let rs ← mapC (seqBoundsC paraLevel ocs levels) seqs
    pure (rs.map (·.1), rs.foldl (fun e r => orErr e r.2) st.err)

/-! ### lib.rs `assign_levels_to_removed_chars`, `compute_bidi_info_for_para` -/

/-- `for i in 0..levels.len() { if removed_by_x9(classes[i]) { levels[i] = if i > 0 { levels[i - 1] } else { para_level } } }`
    as the index loop it is in the crate (the Model recurses over the two lists) -/
def assignLevelsToRemovedCharsC (paraLevel : Nat) (ocs : List BidiClass) (levels : List Nat) : Chk (List Nat) :=
  foldlC (fun (lv : List Nat) (i : Nat) => do
      let c ← rd ocs i ON
      if c.removedByX9 then do
        let v ← (if i > 0 then do
                   let j ← dec1 i
                   rd lv j 0
                 else pure paraLevel)
        wr lv i v
      else pure lv)
    levels (List.range levels.length)

/-- the `for sequence in &sequences` loop -/
def resolveSequencesC (ds : DataSource) (t : Text) (levels : List Nat) (ocs : Classes)
    (seqs : List IRSeq) (pcs : Classes) : Chk (Classes × Option Panic) :=
  foldlC (fun (st : Classes × Option Panic) seq => do
      let pcs1 ← resolveWeakC (fun i => (t.charAt i).map (·.len)) seq st.1
      let r ← resolveNeutralC ds t seq levels ocs pcs1
      pure (r.1, orErr st.2 r.2))
    (pcs, none) seqs

/-- `compute_bidi_info_for_para`: the levels of one paragraph; `t`, `ocs` are the paragraph's text
    and original classes (paragraph-relative) -/
def paraLevelsC (ds : DataSource) (paraLevel : Nat) (pureLtr hasIso : Bool) (t : Text)
    (ocs : Classes) : Chk (List Nat × Option Panic) :=
  if paraLevel == 0 && pureLtr then pure (List.replicate t.len paraLevel, none)
  else do
    let ex ← explicitComputeC t paraLevel ocs
    let se ← isolatingRunSequencesC paraLevel ocs ex.levels ex.runs hasIso
    let pe ← resolveSequencesC ds t ex.levels ocs se.1 ex.pcs
    let le ← resolveLevelsC pe.1 ex.levels
    let lv ← assignLevelsToRemovedCharsC paraLevel ocs le.1
    pure (lv, orErr ex.err (orErr se.2 (orErr pe.2 le.2)))

/-! ### lib.rs `BidiInfo::new_with_data_source`, `ParagraphBidiInfo::new_with_data_source`

  The paragraph loop: `&text[para.range]`, `&original_classes[para.range]` (and the same range of
  `processing_classes`, `levels`, which have the same length), then `compute_bidi_info_for_para`.
  `compute_initial_info` (the first pass, `UBidi/Model/Initial.lean`) is NOT a checked copy here. -/

def bidiInfoC (ds : DataSource) (t : Text) (dflt : Option Nat) : Chk BidiInfo := do
  let ii := computeInitialInfo ds t dflt true
  let r ← foldlC (fun (acc : List Nat × Option Panic) (pf : ParaInfo × Flags) => do
      let p := pf.1
      slc t.len p.start p.stop
      let cls ← sliceC ii.classes p.start p.stop
      let le ← paraLevelsC ds p.level pf.2.pureLtr pf.2.hasIso (t.subrange p.start p.stop) cls
      pure (acc.1 ++ le.1, orErr acc.2 le.2))
    ([], ii.err) (ii.paras.zip ii.flags)
  pure { classes := ii.classes, levels := r.1, paras := ii.paras, err := r.2 }

def paragraphBidiInfoC (ds : DataSource) (t : Text) (dflt : Option Nat) : Chk ParagraphBidiInfo := do
  let ii := computeInitialInfo ds t dflt false
  let le ← paraLevelsC ds ii.lastLevel ii.lastPureLtr ii.lastHasIso t ii.classes
  pure { classes := ii.classes, levels := le.1, paraLevel := ii.lastLevel, pureLtr := ii.lastPureLtr,
         err := orErr ii.err le.2 }

end UBidi.Checked
