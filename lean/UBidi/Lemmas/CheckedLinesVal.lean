/-
  UBidi.Lemmas.CheckedLinesVal — every checked copy of `UBidi/Lemmas/CheckedLinesDefs.lean` computes
  exactly the Model function it copies: `(fC args).val = f args`, for all arguments, no hypothesis.
  Lemmas only.
-/
import UBidi.Lemmas.CheckedLinesDefs
import UBidi.Lemmas.CheckedVal
import UBidi.Lemmas.C05Groups
namespace UBidi.Checked
open UBidi UBidi.BidiClass

/-! ### the new primitives -/

@[simp] theorem iterRange_eq {α : Type} (xs : List α) (x y : Nat) : iterRange xs x y = slice xs x y := rfl
@[simp] theorem getOpt_eq {α : Type} (xs : List α) (i : Nat) : getOpt xs i = xs[i]? := rfl

/-! ### (A) `compute_initial_info` -/

theorem x5cC_val (t : Text) (cls : BidiClass) (st : IIState) (start : Nat) :
    (x5cC t cls st start).val =
      if st.classes.getD start ON == FSI then
        { st with
          classes := setRange st.classes start (match t.charAt start with | some fsi => fsi.len | none => 1)
            (if cls == L then LRI else RLI)
          err := orErr st.err (if start + (match t.charAt start with | some fsi => fsi.len | none => 1)
            ≤ st.classes.length then none else some .indexOutOfBounds) }
      else st := by
  simp only [x5cC, val_bind, rd_val]
  simp only [apply_ite Chk.val, val_bind, val_pure, wrRange_val]
  rfl

/-- the Model's arm `L | R | AL` of `iiStep` (only used to state the lemma) -/
def iiStrongM (t : Text) (cls : BidiClass) (st : IIState) : IIState :=
  match st.stack with
  | start :: _ =>
    if st.classes.getD start ON == FSI then
      let n := match t.charAt start with | some fsi => fsi.len | none => 1
      let v := if cls == L then LRI else RLI
      { st with
        classes := setRange st.classes start n v
        err := orErr st.err (if start + n ≤ st.classes.length then none else some .indexOutOfBounds) }
    else st
  | [] =>
    if st.paraLevel.isNone then
      { st with paraLevel := some (if cls != L then 1 else 0) }
    else st

theorem iiStrongC_val (t : Text) (cls : BidiClass) (st : IIState) :
    (iiStrongC t cls st).val = iiStrongM t cls st := by
  obtain ⟨cl, stk, ps, pl, pu, hi, pa, fl, er⟩ := st
  unfold iiStrongC iiStrongM
  cases stk with
  | nil => simp only [apply_ite Chk.val, val_pure]
  | cons a as => simp only [x5cC_val]

theorem iiStepC_val (ds : DataSource) (t : Text) (split : Bool) (dflt : Option Nat) (st : IIState) (s : Seg) :
    (iiStepC ds t split dflt st s).val = iiStep ds t split dflt st s := by
  unfold iiStepC iiStep
  simp only []
  generalize ds.cls s.cp = c
  cases c <;> simp only [val_pure, apply_ite Chk.val, iiStrongC_val] <;> rfl

@[simp] theorem computeInitialInfoC_val (ds : DataSource) (t : Text) (dflt : Option Nat) (split : Bool) :
    (computeInitialInfoC ds t dflt split).val = computeInitialInfo ds t dflt split := by
  simp only [computeInitialInfoC, computeInitialInfo, val_bind, val_pure,
    foldlC_val _ _ (iiStepC_val ds t split dflt)]

/-! ### (B) `reorder_levels` -/

/-- the Model's first `match` of `l1Step` (only used to state the lemma) -/
def l1ClassM (enc : Enc) (st : L1State) (s : Seg) (c : BidiClass) : L1State :=
  let i := s.start
  match c with
  | B | S =>
    { st with err := orErr st.err (if st.resetTo.isNone then none else some .resetToAssert)
              resetTo := some (i + enc.charLen s.cp)
              resetFrom := if st.resetFrom.isNone then some i else st.resetFrom }
  | WS | FSI | LRI | RLI | PDI =>
    { st with resetFrom := if st.resetFrom.isNone then some i else st.resetFrom }
  | RLE | LRE | RLO | LRO | PDF | BN =>
    { st with resetFrom := if st.resetFrom.isNone then some i else st.resetFrom
              levels := setRange st.levels i (enc.charLen s.cp) st.prev }
  | _ => { st with resetFrom := none }

/-- the Model's second `match` of `l1Step` -/
def l1ResetM (paraLevel : Nat) (st : L1State) : L1State :=
  match st.resetFrom, st.resetTo with
  | some a, some b => { st with levels := setRange st.levels a (b - a) paraLevel, resetFrom := none, resetTo := none }
  | _, _ => st

theorem l1Step_eq (enc : Enc) (cls : Classes) (pl : Nat) (st : L1State) (s : Seg) :
    l1Step enc cls pl st s =
      { l1ResetM pl (l1ClassM enc st s (cls.getD s.start ON)) with
        prev := (l1ResetM pl (l1ClassM enc st s (cls.getD s.start ON))).levels.getD s.start 0 } := rfl

theorem l1ClassC_val (enc : Enc) (st : L1State) (s : Seg) (c : BidiClass) :
    (l1ClassC enc st s c).val = l1ClassM enc st s c := by
  unfold l1ClassC l1ClassM
  cases c <;> simp only [val_pure, val_bind, wrRange_val]

theorem l1ResetC_val (pl : Nat) (st : L1State) : (l1ResetC pl st).val = l1ResetM pl st := by
  obtain ⟨lv, rf, rt, pv, er⟩ := st
  unfold l1ResetC l1ResetM
  cases rf <;> cases rt <;> simp only [val_pure, val_bind, wrRangeLoop_val]

theorem l1StepC_val (enc : Enc) (cls : Classes) (pl : Nat) (st : L1State) (s : Seg) :
    (l1StepC enc cls pl st s).val = l1Step enc cls pl st s := by
  rw [l1Step_eq]
  simp only [l1StepC, val_bind, val_pure, rd_val, l1ClassC_val, l1ResetC_val]

@[simp] theorem reorderLevelsC_val (cls : Classes) (lv : List Nat) (t : Text) (pl : Nat) :
    (reorderLevelsC cls lv t pl).val = reorderLevels cls lv t pl := by
  simp only [reorderLevelsC, reorderLevels, val_bind, foldlC_val _ _ (l1StepC_val t.enc cls pl)]
  generalize List.foldl (l1Step t.enc cls pl) _ t.segs = st
  obtain ⟨lv, rf, rt, pv, er⟩ := st
  cases rf <;> simp only [val_pure, val_bind, wrRangeLoop_val]

@[simp] theorem reorderedLevelsC_val (t : Text) (classes : Classes) (levels : List Nat) (pl a b : Nat) :
    (reorderedLevelsC t classes levels pl a b).val = reorderedLevels t classes levels pl a b := by
  unfold reorderedLevelsC reorderedLevels
  simp only [apply_ite Chk.val, val_pure, val_bind, sliceC_val, takeC_val, dropC_val, reorderLevelsC_val]

@[simp] theorem reorderedLevelsPerCharC_val (t : Text) (classes : Classes) (levels : List Nat) (pl a b : Nat) :
    (reorderedLevelsPerCharC t classes levels pl a b).val = reorderedLevelsPerChar t classes levels pl a b := by
  simp only [reorderedLevelsPerCharC, reorderedLevelsPerChar, val_bind, val_pure, reorderedLevelsC_val]
  rw [mapC_val (fun (s : Seg) => rd (reorderedLevels t classes levels pl a b).1 s.start 0)
    (fun (s : Seg) => (reorderedLevels t classes levels pl a b).1.getD s.start 0) (fun _ => rfl)]

/-! ### `visual_runs_for_line`: the index loop of the crate is the Model's `revGroups` -/

@[simp] theorem revRangeC_val {α : Type} (xs : List α) (x y : Nat) :
    (revRangeC xs x y).val = reverseRange xs x y := by
  simp only [revRangeC, reverseRange, val_bind, val_pure, takeC_val, sliceC_val, dropC_val]

open UBidi.Lemmas.C05 in
/-- `revG` takes the longest prefix satisfying `p` onto the accumulator, flushes, and goes on -/
theorem revG_takeWhile {α : Type} (p : α → Bool) : ∀ (rs acc : List α),
    revG p acc rs = (rs.takeWhile p).reverse ++ acc ++ revG p [] (rs.dropWhile p)
  | [], acc => by simp [revG]
  | r :: rs, acc => by
    by_cases h : p r = true
    · simp only [revG, h, if_true, List.takeWhile_cons_of_pos, List.dropWhile_cons_of_pos,
        revG_takeWhile p rs (r :: acc), List.reverse_cons, List.append_assoc, List.singleton_append]
    · have h' : p r = false := by simpa using h
      simp [revG, h']

theorem length_dropWhile_le' {α : Type} (p : α → Bool) (xs : List α) : (xs.dropWhile p).length ≤ xs.length := by
  have := congrArg List.length (List.takeWhile_append_dropWhile (p := p) (l := xs))
  rw [List.length_append] at this
  omega

theorem getD_append_length {α : Type} (A : List α) (r : α) (rs : List α) (d : α) :
    (A ++ r :: rs).getD A.length d = r := by
  simp [List.getD_eq_getElem?_getD]

/-- the predicate of one L2 pass -/
def geMax (levels : List Nat) (maxL : Nat) (r : Nat × Nat) : Bool := decide (levels.getD r.1 0 ≥ maxL)

theorem seqEndC_val (levels : List Nat) (maxL : Nat) : ∀ (rest A : List (Nat × Nat)) (fuel : Nat),
    rest.length < fuel →
    (seqEndC levels (A ++ rest) maxL fuel A.length).val = A.length + (rest.takeWhile (geMax levels maxL)).length
  | _, _, 0, h => by omega
  | [], A, fuel + 1, _ => by
    simp only [seqEndC, List.append_nil, Nat.lt_irrefl, if_false, val_pure, List.takeWhile_nil,
      List.length_nil, Nat.add_zero]
  | r :: rs, A, fuel + 1, h => by
    have hlt : A.length < (A ++ r :: rs).length := by simp
    simp only [seqEndC, hlt, if_true, val_bind, rd_val, getD_append_length]
    by_cases hl : levels.getD r.1 0 < maxL
    · have hp : geMax levels maxL r = false := by simp only [geMax, decide_eq_false_iff_not]; omega
      simp only [hl, if_true, val_pure, List.takeWhile_cons, hp, Bool.false_eq_true, if_false,
        List.length_nil, Nat.add_zero]
    · have hp : geMax levels maxL r = true := by simp only [geMax, decide_eq_true_eq]; omega
      simp only [hl, if_false, List.takeWhile_cons, hp, if_true, List.length_cons]
      have ih := seqEndC_val levels maxL rs (A ++ [r]) fuel (by simp at h; omega)
      simp only [List.length_append, List.length_singleton, List.append_assoc, List.singleton_append] at ih
      rw [ih]
      omega

theorem reverseRange_mid {α : Type} (pre mid post : List α) :
    reverseRange (pre ++ mid ++ post) pre.length (pre.length + mid.length) = pre ++ mid.reverse ++ post := by
  unfold reverseRange slice
  have h1 : (pre ++ mid ++ post).take pre.length = pre := by
    rw [List.append_assoc, List.take_left']; rfl
  have h2 : (pre ++ mid ++ post).drop pre.length = mid ++ post := by
    rw [List.append_assoc, List.drop_left']; rfl
  have h3 : (pre ++ mid ++ post).drop (pre.length + mid.length) = post := by
    rw [List.drop_left']; simp
  rw [h1, h2, h3, Nat.add_sub_cancel_left, List.take_left']
  rfl

open UBidi.Lemmas.C05 in
theorem l2PassC_val (levels : List Nat) (maxL : Nat) : ∀ (fuel : Nat) (pre rest : List (Nat × Nat)),
    rest.length < fuel →
    (l2PassC levels maxL fuel pre.length (pre ++ rest)).val = pre ++ revG (geMax levels maxL) [] rest
  | 0, _, _, h => by omega
  | fuel + 1, pre, [], _ => by
    simp only [l2PassC, List.append_nil, Nat.lt_irrefl, if_false, val_pure, revG]
  | fuel + 1, pre, r :: rs, h => by
    have hlt : pre.length < (pre ++ r :: rs).length := by simp
    simp only [l2PassC, hlt, if_true, val_bind, rd_val, getD_append_length]
    by_cases hl : levels.getD r.1 0 < maxL
    · have hp : geMax levels maxL r = false := by simp only [geMax, decide_eq_false_iff_not]; omega
      simp only [hl, if_true, revG, hp, Bool.false_eq_true, if_false, List.nil_append]
      have ih := l2PassC_val levels maxL fuel (pre ++ [r]) rs (by simp at h; omega)
      simp only [List.length_append, List.length_singleton, List.append_assoc, List.singleton_append] at ih
      exact ih
    · have hp : geMax levels maxL r = true := by simp only [geMax, decide_eq_true_eq]; omega
      simp only [hl, if_false, val_bind, revRangeC_val]
      have he := seqEndC_val levels maxL rs (pre ++ [r]) (pre ++ r :: rs).length (by simp; omega)
      simp only [List.length_append, List.length_singleton, List.append_assoc, List.singleton_append] at he
      simp only [List.length_append] at he ⊢
      rw [he]
      -- cut `rs` into the prefix that satisfies the predicate and the rest
      have hcut : pre ++ r :: rs =
          pre ++ (r :: rs.takeWhile (geMax levels maxL)) ++ rs.dropWhile (geMax levels maxL) := by
        simp [List.takeWhile_append_dropWhile]
      have hrev := reverseRange_mid pre (r :: rs.takeWhile (geMax levels maxL)) (rs.dropWhile (geMax levels maxL))
      rw [← hcut, List.length_cons] at hrev
      rw [show pre.length + 1 + (rs.takeWhile (geMax levels maxL)).length
            = pre.length + ((rs.takeWhile (geMax levels maxL)).length + 1) by omega, hrev]
      have ih := l2PassC_val levels maxL fuel (pre ++ (r :: rs.takeWhile (geMax levels maxL)).reverse)
        (rs.dropWhile (geMax levels maxL))
        (by have := length_dropWhile_le' (geMax levels maxL) rs; simp at h; omega)
      simp only [List.length_append, List.length_reverse, List.length_cons] at ih
      rw [ih]
      simp only [revG, hp, if_true]
      rw [revG_takeWhile (geMax levels maxL) rs [r]]
      simp

theorem l2PassC_val_all (levels : List Nat) (maxL : Nat) (runs : List (Nat × Nat)) :
    (l2PassC levels maxL (runs.length + 1) 0 runs).val =
      revGroups (fun r => levels.getD r.1 0 ≥ maxL) [] runs := by
  have := l2PassC_val levels maxL (runs.length + 1) [] runs (by omega)
  simp only [List.length_nil, List.nil_append] at this
  rw [this, Lemmas.C05.revGroups_eq]
  rfl

theorem l2RunsLoopC_val (levels : List Nat) (minL : Nat) : ∀ (fuel maxL : Nat) (runs : List (Nat × Nat)),
    (l2RunsLoopC levels minL fuel maxL runs).val = l2RunsLoop levels minL fuel maxL runs
  | 0, _, _ => rfl
  | fuel + 1, maxL, runs => by
    simp only [l2RunsLoopC, l2RunsLoop]
    split
    · simp only [val_bind, l2PassC_val_all]
      cases Level.lower maxL 1 with
      | none => rfl
      | some m => exact l2RunsLoopC_val levels minL fuel m _
    · rfl

@[simp] theorem visualRunsForLineC_val (levels : List Nat) (a b : Nat) :
    (visualRunsForLineC levels a b).val = visualRunsForLine levels a b := by
  simp only [visualRunsForLineC, visualRunsForLine, val_bind, rdOpt_val, iterRange_eq]
  cases levels[a]? with
  | none => rfl
  | some l0 =>
    simp only
    cases Level.newLowestGeRtl (List.foldl min l0 (slice levels a b)) with
    | none => rfl
    | some m => exact l2RunsLoopC_val levels m _ _ _

/-! ### `reorder_visual` -/

theorem skipBelowC_eq (levels : List Nat) (maxL : Nat) : ∀ (fuel i : Nat),
    skipBelowC levels maxL fuel i = skipBelow levels maxL fuel i
  | 0, _ => rfl
  | fuel + 1, i => by
    simp only [skipBelowC, skipBelow, getOpt_eq, skipBelowC_eq levels maxL fuel]
    rfl

theorem skipAtLeastC_eq (levels : List Nat) (maxL : Nat) : ∀ (fuel i : Nat),
    skipAtLeastC levels maxL fuel i = skipAtLeast levels maxL fuel i
  | 0, _ => rfl
  | fuel + 1, i => by
    simp only [skipAtLeastC, skipAtLeast, getOpt_eq, skipAtLeastC_eq levels maxL fuel]
    rfl

@[simp] theorem nextRangeC_eq (levels : List Nat) (startIndex maxL : Nat) :
    nextRangeC levels startIndex maxL = nextRange levels startIndex maxL := by
  simp only [nextRangeC, nextRange, skipBelowC_eq, skipAtLeastC_eq, getOpt_eq]

theorem rvPassC_val (levels : List Nat) (maxL : Nat) : ∀ (fuel pos : Nat) (result : List Nat),
    (rvPassC levels maxL fuel pos result).val = rvPass levels maxL fuel pos result
  | 0, _, _ => rfl
  | fuel + 1, pos, result => by
    simp only [rvPassC, rvPass, val_bind, revRangeC_val, nextRangeC_eq]
    split
    · rfl
    · exact rvPassC_val levels maxL fuel _ _

theorem rvLoopC_val (levels : List Nat) (minL : Nat) : ∀ (fuel maxL : Nat) (result : List Nat),
    (rvLoopC levels minL fuel maxL result).val = rvLoop levels minL fuel maxL result
  | 0, _, _ => rfl
  | fuel + 1, maxL, result => by
    simp only [rvLoopC, rvLoop]
    split
    · simp only [val_bind, rvPassC_val]
      cases Level.lower maxL 1 with
      | none => rfl
      | some m => exact rvLoopC_val levels minL fuel m _
    · rfl

@[simp] theorem reorderVisualC_val (levels : List Nat) : (reorderVisualC levels).val = reorderVisual levels := by
  cases levels with
  | nil => rfl
  | cons l0 ls =>
    simp only [reorderVisualC, reorderVisual, List.isEmpty_cons, Bool.false_eq_true, if_false, val_bind, rd_val,
      List.getD_cons_zero]
    split
    · rfl
    · cases Level.newLowestGeRtl (List.foldl min l0 (l0 :: ls)) with
      | none => rfl
      | some m => exact rvLoopC_val _ m _ _ _

/-! ### `reorder_line` -/

theorem allLtrC_val (levels : List Nat) : ∀ (runs : List (Nat × Nat)),
    (allLtrC levels runs).val = runs.all (fun r => Level.isLtr (levels.getD r.1 0))
  | [] => rfl
  | r :: rs => by
    simp only [allLtrC, val_bind, rd_val, List.all_cons]
    cases h : Level.isLtr (levels.getD r.1 0)
    · simp only [Bool.false_eq_true, if_false, val_pure, Bool.false_and]
    · simp only [if_true, Bool.true_and, allLtrC_val levels rs]

theorem pieceC_val (t : Text) (levels : List Nat) (r : Nat × Nat) :
    (pieceC t levels r).val =
      (if Level.isRtl (levels.getD r.1 0) then
        { verbatim := false, segs := (t.segs.filter (fun s => r.1 ≤ s.start && s.start < r.2)).reverse : Piece }
       else { verbatim := true, segs := t.segs.filter (fun s => r.1 ≤ s.start && s.start < r.2) }) := by
  simp only [pieceC, val_bind, val_pure, rd_val]

@[simp] theorem reorderLinePiecesC_val (t : Text) (a b : Nat) (levels : List Nat) (runs : List (Nat × Nat)) :
    (reorderLinePiecesC t a b levels runs).val = reorderLinePieces t levels runs := by
  simp only [reorderLinePiecesC, reorderLinePieces, val_bind, allLtrC_val]
  split
  · rfl
  · simp only [val_bind, val_pure, mapC_val _ _ (pieceC_val t levels)]

@[simp] theorem reorderLineC_val (t : Text) (classes : Classes) (levels : List Nat) (pl a b : Nat) :
    (reorderLineC t classes levels pl a b).val = reorderLine t classes levels pl a b := by
  unfold reorderLineC reorderLine
  split
  · rfl
  · simp only [val_bind, sliceC_val]
    split
    · rfl
    · simp only [val_bind, reorderedLevelsC_val]
      cases h1 : (reorderedLevels t classes levels pl a b).2 with
      | some e => rfl
      | none =>
        simp only [val_bind, visualRunsForLineC_val]
        cases h2 : (visualRunsForLine (reorderedLevels t classes levels pl a b).1 a b).2 with
        | some e => rfl
        | none => simp only [reorderLinePiecesC_val]

/-! ### the summary queries -/

@[simp] theorem paraDirectionC_val (levels : List Nat) : (paraDirectionC levels).val = paraDirection levels := rfl

@[simp] theorem paragraphDirectionC_val (levels : List Nat) (p : ParaInfo) :
    (paragraphDirectionC levels p).val = paraDirection (slice levels p.start p.stop) := rfl

@[simp] theorem levelAtC_val (levels : List Nat) (p : ParaInfo) (pos : Nat) :
    (levelAtC levels p pos).val = levelAt levels p pos := rfl

/-! ### the two analysis types with the first pass checked as well -/

theorem bidiInfoFullC_val (ds : DataSource) (t : Text) (d : Option Nat) :
    (bidiInfoFullC ds t d).val = (bidiInfoC ds t d).val := by
  simp only [bidiInfoFullC, bidiInfoC, val_bind, val_pure, computeInitialInfoC_val]

theorem bidiInfoFullC_oob_eq (ds : DataSource) (t : Text) (d : Option Nat) :
    (bidiInfoFullC ds t d).oob = ((computeInitialInfoC ds t d true).oob || (bidiInfoC ds t d).oob) := by
  simp only [bidiInfoFullC, bidiInfoC, oob_bind, oob_pure, computeInitialInfoC_val]

theorem paragraphBidiInfoFullC_val (ds : DataSource) (t : Text) (d : Option Nat) :
    (paragraphBidiInfoFullC ds t d).val = (paragraphBidiInfoC ds t d).val := by
  simp only [paragraphBidiInfoFullC, paragraphBidiInfoC, val_bind, val_pure, computeInitialInfoC_val]

theorem paragraphBidiInfoFullC_oob_eq (ds : DataSource) (t : Text) (d : Option Nat) :
    (paragraphBidiInfoFullC ds t d).oob =
      ((computeInitialInfoC ds t d false).oob || (paragraphBidiInfoC ds t d).oob) := by
  simp only [paragraphBidiInfoFullC, paragraphBidiInfoC, oob_bind, oob_pure, computeInitialInfoC_val]

end UBidi.Checked
