/-
  UBidi.Lemmas.C10LinesParas — for C10 (line queries): the paragraphs that `BidiInfo` reports for a well-formed
  text lie inside the text, end on character boundaries, and the stored vectors cover them.
-/
import UBidi.Props.C10
import UBidi.Props.C02
import UBidi.Lemmas.C10LinesBasic
namespace UBidi.Lemmas.C10Lines
open UBidi UBidi.Lemmas.C03

theorem parasFrom_bounds : ∀ {ps : List ParaInfo} {a e : Nat}, Props.C02.ParasFrom a ps e →
    ∀ p ∈ ps, a ≤ p.start ∧ p.start < p.stop ∧ p.stop ≤ e := by
  intro ps
  induction ps with
  | nil => intro a e _ p hp; simp at hp
  | cons q qs ih =>
    intro a e h p hp
    obtain ⟨h1, h2, h3⟩ := h
    have hle : q.stop ≤ e := by
      cases qs with
      | nil => exact Nat.le_of_eq h3
      | cons r rs => have := ih h3 r (by simp); omega
    rcases List.mem_cons.1 hp with rfl | hp
    · exact ⟨by omega, h2, hle⟩
    · have := ih h3 p hp; omega

/-- the end of a character is a character boundary -/
theorem segEnd_isBdy : ∀ (segs : List Seg) (k n : Nat), SegsFrom k segs n → ∀ s ∈ segs,
    IsBdy segs n (s.start + s.len) := by
  intro segs
  induction segs with
  | nil => intro k n _ s hs; simp at hs
  | cons x xs ih =>
    intro k n h s hs
    obtain ⟨h1, _, h3⟩ := h
    rcases List.mem_cons.1 hs with rfl | hs
    · cases xs with
      | nil => left; have : k + s.len = n := h3; omega
      | cons y ys => right; exact ⟨y, by simp, by have := h3.1; omega⟩
    · rcases ih _ n h3 s hs with h | ⟨y, hy, h⟩
      · exact Or.inl h
      · exact Or.inr ⟨y, by simp [hy], h⟩

/-- every paragraph reported for a well-formed text: inside the text, ending on a character boundary, and the
    class and level vectors reach its end -/
theorem para_facts (ds : DataSource) (t : Text) (hwf : t.WF) (d : Option Nat) (p : ParaInfo)
    (hp : p ∈ (bidiInfo ds t d).paras) :
    p.start < p.stop ∧ p.stop ≤ t.len ∧ t.isBoundary p.stop = true ∧
    p.stop ≤ (bidiInfo ds t d).classes.length ∧ p.stop ≤ (bidiInfo ds t d).levels.length := by
  have hp' : p ∈ (computeInitialInfo ds t d true).paras := hp
  obtain ⟨h1, h2, _, _⟩ := Props.C02.C02_partition ds t d hwf
  obtain ⟨_, hlt, hle⟩ := parasFrom_bounds h1 p hp'
  have hb : t.isBoundary p.stop = true := by
    rw [isBoundary_iff]
    rcases h2 p hp' with h | ⟨s, hs, h, _⟩
    · exact Or.inl h
    · rw [← h]; exact segEnd_isBdy t.segs 0 t.len hwf.tiles s hs
  have hcl : (bidiInfo ds t d).classes.length = t.len := Props.C02.C02_classes_length ds t d hwf true
  obtain ⟨_, c2, _, _⟩ := Props.C10.C10_slice ds t hwf d p hp
  obtain ⟨f, _, hg, _⟩ := Lemmas.C10.parasFrom_mem (Lemmas.C10.paras_good ds t hwf d).1 p hp'
  have hlen : (paragraphBidiInfo ds (t.subrange p.start p.stop) d).levels.length = p.stop - p.start :=
    UBidi.Props.C01.Base.paraLevels_length ds _ _ _ _ hg.1 _
  rw [c2, length_slice] at hlen
  exact ⟨hlt, hle, hb, by omega, by omega⟩

end UBidi.Lemmas.C10Lines
