/-
  UBidi.Lemmas.CheckedOobNeutral — no out-of-bounds flag, part 2: `identify_bracket_pairs`, N0,
  N1/N2, `resolve_neutral`, `resolve_levels`.  Lemmas only.
-/
import UBidi.Lemmas.CheckedOob
import UBidi.Lemmas.C01NeutralSeq
import UBidi.Lemmas.C08Base
namespace UBidi.Checked
open UBidi UBidi.BidiClass UBidi.Props.C01.Base UBidi.Expand

/-! ### the text -/

theorem charAt_some (t : Text) (i : Nat) (sg : Seg) (h : t.charAt i = some sg) : sg ∈ t.segs ∧ sg.start = i := by
  unfold Text.charAt at h
  exact ⟨List.mem_of_find?_eq_some h, by simpa using List.find?_some h⟩

/-- a character of a well-formed text ends inside the text, and its width is the encoding's -/
theorem charAt_end (t : Text) (hwf : t.WF) (i : Nat) (sg : Seg) (h : t.charAt i = some sg) :
    i + t.enc.charLen sg.cp ≤ t.len ∧ 0 < t.enc.charLen sg.cp := by
  obtain ⟨hm, hs⟩ := charAt_some t i sg h
  have := Props.C08.Base.segsFrom_bounds t.segs 0 t.len hwf.tiles sg hm
  rw [← hwf.lens sg hm, ← hs]
  omega

/-- in a well-formed non-empty text unit 0 starts a character -/
theorem charAt_zero (t : Text) (hwf : t.WF) (h : 0 < t.len) : ∃ sg, t.charAt 0 = some sg := by
  have ht := hwf.tiles
  cases hs : t.segs with
  | nil => rw [hs] at ht; simp only [SegsFrom] at ht; omega
  | cons s ss =>
    rw [hs] at ht
    refine ⟨s, ?_⟩
    simp [Text.charAt, hs, ht.1]

/-! ### `identify_bracket_pairs` -/

theorem seqCharsC_oob (t : Text) (seq : IRSeq) (h : ∀ r ∈ seq.runs, r.1 ≤ r.2 ∧ r.2 ≤ t.len) :
    (seqCharsC t seq).oob = false := by
  refine (foldlC_oob _ (fun _ => True) seq.runs.zipIdx [] trivial ?_).1
  intro s _ x hx
  have hm : x.1 ∈ seq.runs := by
    have := List.mem_zipIdx hx
    simp only [Nat.zero_le, Nat.zero_add, Nat.sub_zero, true_and] at this
    rw [this.2]; exact List.getElem_mem _
  refine ⟨?_, trivial⟩
  simp only [oob_bind, oob_pure, slc_oob (h _ hm).1 (h _ hm).2, Bool.or_self]

theorem bpStepC_oob (ds : DataSource) (ocs pcs : Classes) (st : BPState) (x : Nat × Seg)
    (h1 : x.2.start < pcs.length) (h2 : x.2.start < ocs.length) :
    (bpStepC ds ocs pcs st x).oob = false := by
  unfold bpStepC
  by_cases hs : st.stopped = true
  · simp only [hs, if_true, oob_pure]
  · simp only [hs, Bool.false_eq_true, if_false, oob_bind, rd_oob ON h1, Bool.false_or, rd_val]
    by_cases c1 : (List.getD pcs x.2.start ON != ON) = true
    · simp only [c1, if_true, oob_pure]
    · simp only [c1, Bool.false_eq_true, if_false, oob_bind, rd_oob ON h2, Bool.false_or, rd_val]
      by_cases c2 : (List.getD ocs x.2.start ON).removedByX9 = true
      · simp only [c2, if_true, oob_pure]
      · simp only [c2, Bool.false_eq_true, if_false]
        cases ds.brk x.2.cp with
        | none => rfl
        | some m =>
          simp only
          by_cases c3 : m.isOpen = true
          · simp only [c3, if_true]
            split <;> rfl
          · simp only [c3, Bool.false_eq_true, if_false]
            cases findOpening m.opening st.stack with
            | none => rfl
            | some r => rfl

theorem seqChars_lt (t : Text) (seq : IRSeq) (n : Nat) (h : SeqOKN n seq) : ∀ x ∈ seqChars t seq, x.2.start < n := by
  intro x hx
  obtain ⟨a, b, hab, _, h2⟩ := Lemmas.C01Neutral.seqChars_run t seq x hx
  have := (h (a, b) (List.mem_of_getElem? hab)).2
  simp only at this
  omega

/-- **`identify_bracket_pairs` raises no index error** -/
theorem identifyBracketPairsC_oob (ds : DataSource) (t : Text) (seq : IRSeq) (ocs pcs : Classes)
    (hs : ∀ r ∈ seq.runs, r.1 ≤ r.2 ∧ r.2 ≤ t.len) (ho : ocs.length = t.len) (hp : pcs.length = t.len) :
    (identifyBracketPairsC ds t seq ocs pcs).oob = false := by
  have hN : SeqOKN t.len seq := fun r hr => ⟨by have := hs r hr; omega, (hs r hr).2⟩
  have h1 := seqCharsC_oob t seq hs
  have h2 := (foldlC_oob (bpStepC ds ocs pcs) (fun _ => True) (seqChars t seq) {} trivial
    (fun s _ x hx => ⟨bpStepC_oob ds ocs pcs s x (by rw [hp]; exact seqChars_lt t seq _ hN x hx)
      (by rw [ho]; exact seqChars_lt t seq _ hN x hx), trivial⟩)).1
  simp only [identifyBracketPairsC, oob_bind, oob_pure, seqCharsC_val, h1, h2, Bool.or_self]

/-- where a bracket pair of the sequence sits: opener before closer, both inside the text, both in
    a run of the sequence -/
structure PairIn (n : Nat) (seq : IRSeq) (p : BracketPair) : Prop where
  lt : p.start < p.stop
  stop : p.stop < n
  sr : p.startRun < seq.runs.length
  er : p.endRun < seq.runs.length

theorem seqChars_sorted (t : Text) (hwf : t.WF) (seq : IRSeq)
    (hruns : seq.runs.Pairwise (fun r1 r2 => r1.2 ≤ r2.1)) :
    ((seqChars t seq).map (fun x => x.2.start)).Pairwise (· < ·) := by
  have hkeepAll : Lemmas.C01Neutral.keptChars t seq [] = seqChars t seq := by
    unfold Lemmas.C01Neutral.keptChars
    rw [List.filter_eq_self]
    intro x _
    simp [Lemmas.C01Neutral.bpKeep, cget, BidiClass.removedByX9]
  have := Lemmas.C01Neutral.keptChars_starts_lt t hwf seq [] hruns
  rw [hkeepAll] at this
  exact this

theorem pairs_in (ds : DataSource) (t : Text) (hwf : t.WF) (seq : IRSeq) (hs : SeqOK t.len seq)
    (ocs pcs : Classes) : ∀ p ∈ identifyBracketPairs ds t seq ocs pcs, PairIn t.len seq p := by
  intro p hp
  unfold identifyBracketPairs at hp
  rw [Lemmas.C01Neutral.mem_sortPairs] at hp
  have := Lemmas.C01Neutral.bd16_pairs_ok ds ocs pcs
    (fun k pos => ∃ a b, seq.runs[k]? = some (a, b) ∧ a ≤ pos ∧ pos < b)
    (seqChars t seq) {} 0 (by simp) (by simp) (Lemmas.C01Neutral.seqChars_run t seq)
    (seqChars_sorted t hwf seq hs.2) (fun _ _ => Nat.zero_le _) p hp
  obtain ⟨h1, ⟨a, b, hab, _, _⟩, ⟨c, d, hcd, _, h5⟩⟩ := this
  have hd := (hs.1 (c, d) (List.mem_of_getElem? hcd)).2
  simp only at hd
  refine ⟨h1, by omega, ?_, ?_⟩
  · exact (List.getElem?_eq_some_iff.1 hab).1
  · exact (List.getElem?_eq_some_iff.1 hcd).1


/-! ### N0 -/

theorem scanEnclosedC_oob (pcs : Classes) (e notE : BidiClass) (stop : Nat) : ∀ (it : List Nat) (fne : Bool),
    (∀ j ∈ it, j < pcs.length) → (scanEnclosedC pcs e notE stop it fne).oob = false
  | [], _, _ => rfl
  | i :: rest, fne, h => by
    have hr : ∀ b, (scanEnclosedC pcs e notE stop rest b).oob = false :=
      fun b => scanEnclosedC_oob pcs e notE stop rest b (fun j hj => h j (by simp [hj]))
    simp only [scanEnclosedC]
    simp only [apply_ite Chk.oob, oob_pure, oob_bind, rd_oob ON (h i (by simp)), hr, Bool.or_self, ite_self]

theorem n0ClassC_oob (seq : IRSeq) (e : BidiClass) (pcs : Classes) (pair : BracketPair) (fe fne : Bool)
    (n : Nat) (hs : SeqOKN n seq) (hl : pcs.length = n) (hp : PairIn n seq pair) :
    (n0ClassC seq e pcs pair fe fne).oob = false := by
  have hB : ∀ j ∈ seq.iterBackwardsFrom pair.start pair.startRun, j < pcs.length := by
    rw [hl]; exact Neutral.iterBackwards_lt hs _ _ (by have := hp.lt; have := hp.stop; omega)
  simp only [n0ClassC]
  simp only [apply_ite Chk.oob, oob_pure, oob_bind, iterBackwardsFromC_oob seq _ _ hp.sr,
    iterBackwardsFromC_val, findRd_oob pcs _ _ hB, Bool.or_self, ite_self]

/-- N0 for one pair of the sequence raises no index or slice error -/
theorem n0PairC_oob (t : Text) (hwf : t.WF) (seq : IRSeq) (e : BidiClass) (ocs : Classes)
    (st : Classes × Option Panic) (pair : BracketPair) (hs : SeqOKN t.len seq) (ho : ocs.length = t.len)
    (hl : st.1.length = t.len) (hp : PairIn t.len seq pair) :
    (n0PairC t seq e ocs st pair).oob = false := by
  have hlt := hp.lt
  have hstop := hp.stop
  have hF : ∀ c k, ∀ j ∈ seq.iterForwardsFrom c k, j < t.len := fun c k => Neutral.iterForwards_lt hs c k
  have hB : ∀ j ∈ seq.iterBackwardsFrom pair.start pair.startRun, j < t.len :=
    Neutral.iterBackwards_lt hs _ _ (by omega)
  unfold n0PairC
  simp only [oob_bind, slc_oob (Nat.le_of_lt hlt) (Nat.le_of_lt hstop), Bool.false_or]
  cases h1 : t.charAt pair.start with
  | none => rfl
  | some sseg =>
    obtain ⟨hs1, _⟩ := charAt_end t hwf _ _ h1
    have e2 : ∀ ne c k b, (scanEnclosedC st.1 e ne pair.stop (seq.iterForwardsFrom c k) b).oob = false :=
      fun ne c k b => scanEnclosedC_oob _ _ _ _ _ _ (by rw [hl]; exact hF c k)
    simp only [oob_bind, iterForwardsFromC_oob seq _ _ hp.sr, iterForwardsFromC_val, Bool.false_or,
      e2, scanEnclosedC_val, n0ClassC_oob seq e st.1 pair _ _ t.len hs hl hp, n0ClassC_val]
    generalize n0ClassM seq e st.1 pair _ _ = cls
    cases cls with
    | none => rfl
    | some v =>
      simp only [oob_bind, slc_oob (Nat.le_of_lt hstop) (Nat.le_refl _), Bool.false_or]
      cases h2 : t.charAt pair.stop with
      | none => rfl
      | some eseg =>
        obtain ⟨hs2, _⟩ := charAt_end t hwf _ _ h2
        simp only [oob_bind, oob_pure, wrRange_val, iterBackwardsFromC_val, wrWhileBN_val,
          iterForwardsFromC_val, wrWhileNsmOrBN_val, iterBackwardsFromC_oob seq _ _ hp.sr,
          iterForwardsFromC_oob seq _ _ hp.sr, iterForwardsFromC_oob seq _ _ hp.er, Bool.false_or, Bool.or_false]
        rw [wrRange_oob _ _ _ _ (by rw [hl]; exact hs1), wrRange_oob _ _ _ _ (by simpa [hl] using hs2),
          wrWhileBN_oob _ _ _ (by simpa [hl] using hB),
          wrWhileNsmOrBN_oob _ _ _ _ (by rw [ho]; exact hF _ _) (by simpa [hl] using hF _ _),
          wrWhileNsmOrBN_oob _ _ _ _ (by rw [ho]; exact hF _ _) (by simpa [hl] using hF _ _)]
        rfl

/-! ### N1 / N2 -/

structure N12Inv (n : Nat) (st : N12State) : Prop where
  len : st.pcs.length = n
  pend : ∀ j ∈ st.pending, j < n

theorem n12Step_inv (e : BidiClass) (st : N12State) (i n : Nat) (h : N12Inv n st) (hi : i < n) :
    N12Inv n (n12Step e st i) := by
  unfold n12Step
  simp only
  split
  · refine ⟨h.len, ?_⟩
    intro j hj
    simp only [List.mem_append, List.mem_singleton] at hj
    rcases hj with hj | hj
    · exact h.pend j hj
    · omega
  · split
    · exact ⟨h.len, by simp_all⟩
    · exact ⟨by simp [h.len], by simp⟩

theorem n12StepC_oob (e : BidiClass) (st : N12State) (i n : Nat) (h : N12Inv n st) (hi : i < n) :
    (n12StepC e st i).oob = false := by
  have hp : ∀ j ∈ st.pending, j < st.pcs.length := by rw [h.len]; exact h.pend
  simp only [n12StepC, oob_bind, rd_oob ON (show i < st.pcs.length by rw [h.len]; exact hi), Bool.false_or]
  simp only [apply_ite Chk.oob, oob_pure]
  split
  · rfl
  · split
    · rfl
    · simp only [oob_bind, oob_pure, wrAll_oob _ _ _ hp, Bool.or_self]

theorem n12C_oob (seq : IRSeq) (e : BidiClass) (pcs : Classes) (n : Nat) (hs : SeqOKN n seq)
    (hl : pcs.length = n) : (n12C seq e pcs).oob = false := by
  have hidx : ∀ i ∈ seq.indices, i < n := Neutral.indices_lt hs
  obtain ⟨h1, h2⟩ := foldlC_oob (n12StepC e) (N12Inv n) seq.indices { pcs := pcs, prev := seq.sos }
    ⟨hl, by simp⟩
    (fun s hs' x hx => ⟨n12StepC_oob e s x n hs' (hidx x hx), by
      rw [n12StepC_val]; exact n12Step_inv e s x n hs' (hidx x hx)⟩)
  simp only [n12C, oob_bind, h1, Bool.false_or]
  split
  · rfl
  · exact wrAll_oob _ _ _ (by rw [h2.len]; exact h2.pend)

/-! ### `resolve_neutral` -/

/-- **`resolve_neutral` raises no index or slice error** on a sequence whose runs are non-empty, in
    text order and inside the text, with arrays of the text's length -/
theorem resolveNeutralC_oob (ds : DataSource) (t : Text) (hwf : t.WF) (seq : IRSeq) (levels : List Nat)
    (ocs pcs : Classes) (hs : SeqOK t.len seq) (hne : seq.runs ≠ []) (hlv : levels.length = t.len)
    (ho : ocs.length = t.len) (hp : pcs.length = t.len) :
    (resolveNeutralC ds t seq levels ocs pcs).oob = false := by
  have hN : SeqOKN t.len seq := SeqOKN.of_lt hs.1
  have hpairs := pairs_in ds t hwf seq hs ocs pcs
  have hbp := identifyBracketPairsC_oob ds t seq ocs pcs
    (fun r hr => ⟨Nat.le_of_lt (hs.1 r hr).1, (hs.1 r hr).2⟩) ho hp
  unfold resolveNeutralC
  cases hr : seq.runs with
  | nil => exact absurd hr hne
  | cons r0 rs =>
    have hr0 := hs.1 r0 (by rw [hr]; simp)
    simp only [oob_bind, oob_pure, rd_oob 0 (show r0.1 < levels.length by omega), rd_val, hbp,
      identifyBracketPairsC_val, Bool.false_or, Bool.or_false]
    obtain ⟨h1, h2⟩ := foldlC_oob (n0PairC t seq (Level.bidiClass (levels.getD r0.1 0)) ocs)
      (fun st => st.1.length = t.len) (identifyBracketPairs ds t seq ocs pcs) (pcs, none) hp
      (fun s hs' x hx => ⟨n0PairC_oob t hwf seq _ ocs s x hN ho hs' (hpairs x hx), by
        rw [n0PairC_val, n0Pair_length]; exact hs'⟩)
    rw [h1, Bool.false_or]
    exact n12C_oob seq _ _ t.len hN h2

/-! ### `resolve_levels` -/

/-- **`resolve_levels` raises no index error** when the two arrays have the same length (the crate
    asserts it) -/
theorem resolveLevelsC_oob (pcs : Classes) (levels : List Nat) (h : pcs.length = levels.length) :
    (resolveLevelsC pcs levels).oob = false := by
  unfold resolveLevelsC
  refine (foldlC_oob _ (fun acc => acc.1.length = levels.length) (List.range levels.length) _ rfl ?_).1
  intro s hs x hx
  have hx' : x < levels.length := List.mem_range.1 hx
  simp only [oob_bind, oob_pure, val_bind, val_pure, wr_val, List.length_set, rd_oob 0 (show x < s.1.length by omega),
    rd_oob ON (show x < pcs.length by omega), wr_oob _ (show x < s.1.length by omega), Bool.or_self, hs,
    and_self]


end UBidi.Checked
