/-
  C01 stage lemma StageN with retained BN units, rules N1/N2.

  `n12_kept_proj`: the Spec's N1/N2 computed over all units of a sequence (a removed unit is read
  as a neutral when it carries BN), projected to the kept units, is the Spec's N1/N2 computed over
  the kept units alone — provided every removed unit carries BN, ON, or the type of the neighbouring
  kept unit (forward / backward witness of `C01NeutralBNDefs`).

  `find_filter_keep` is the generic list fact behind it: `find?` over a list and over its kept
  sublist give the same `f`-value when every removed hit is shadowed by an earlier kept hit, or is
  immediately followed (up to removed elements) by a kept hit with the same `f`-value.
-/
import UBidi.Lemmas.C01NeutralBNDefs
namespace UBidi.Lemmas.C01Neutral
open UBidi UBidi.BidiClass

/-! ### generic list lemmas -/

/-- if `q` is kept and everything in front of `q` is removed, the filtered list starts with `q` -/
theorem filter_eq_cons_of_first {α : Type} (R : α → α → Prop) (keep : α → Bool) (q : α) :
    ∀ (xs : List α), xs.Pairwise R → q ∈ xs → keep q = true →
      (∀ i ∈ xs, R i q → keep i = false) → ∃ rest, xs.filter keep = q :: rest := by
  intro xs
  induction xs with
  | nil => intro _ h; simp at h
  | cons x xs ih =>
    intro hp hq hk hb
    rw [List.pairwise_cons] at hp
    rcases List.mem_cons.1 hq with hqx | hq'
    · subst hqx
      exact ⟨xs.filter keep, by rw [List.filter_cons, hk]; rfl⟩
    · have hx : keep x = false := hb x (by simp) (hp.1 q hq')
      obtain ⟨rest, hr⟩ := ih hp.2 hq' hk (fun i hi => hb i (List.mem_cons_of_mem _ hi))
      exact ⟨rest, by rw [List.filter_cons, hx]; simpa using hr⟩

theorem find_filter_keep {α β : Type} (lt : α → α → Prop) (hasymm : ∀ a b, lt a b → lt b a → False)
    (keep P : α → Bool) (f : α → β) :
    ∀ (xs : List α), xs.Pairwise lt →
      (∀ p ∈ xs, keep p = false → P p = true →
        (∃ q ∈ xs, lt q p ∧ keep q = true ∧ P q = true) ∨
        (∃ q ∈ xs, lt p q ∧ keep q = true ∧ P q = true ∧ f q = f p ∧ ∀ i ∈ xs, lt p i → lt i q → keep i = false)) →
      (xs.find? P).map f = ((xs.filter keep).find? P).map f := by
  intro xs
  induction xs with
  | nil => intro _ _; rfl
  | cons x xs ih =>
    intro hp H
    rw [List.pairwise_cons] at hp
    obtain ⟨hx, hp'⟩ := hp
    by_cases hkP : keep x = true ∧ P x = true
    · simp [hkP.1, hkP.2]
    · have hne : ∀ q, keep q = true → P q = true → q ∈ x :: xs → q ∈ xs := by
        intro q h1 h2 hq
        rcases List.mem_cons.1 hq with hqx | hq
        · subst hqx; exact absurd ⟨h1, h2⟩ hkP
        · exact hq
      have H' : ∀ p ∈ xs, keep p = false → P p = true →
          (∃ q ∈ xs, lt q p ∧ keep q = true ∧ P q = true) ∨
          (∃ q ∈ xs, lt p q ∧ keep q = true ∧ P q = true ∧ f q = f p ∧
            ∀ i ∈ xs, lt p i → lt i q → keep i = false) := by
        intro p hpm hk hP
        rcases H p (List.mem_cons_of_mem _ hpm) hk hP with
          ⟨q, hq, h1, h2, h3⟩ | ⟨q, hq, h1, h2, h3, h4, h5⟩
        · exact Or.inl ⟨q, hne q h2 h3 hq, h1, h2, h3⟩
        · exact Or.inr ⟨q, hne q h2 h3 hq, h1, h2, h3, h4,
            fun i hi => h5 i (List.mem_cons_of_mem _ hi)⟩
      have IH := ih hp' H'
      cases hk : keep x
      · cases hP : P x
        · simp only [List.filter_cons, hk, List.find?_cons, hP]
          exact IH
        · rcases H x (by simp) hk hP with ⟨q, hq, h1, _, _⟩ | ⟨q, hq, h1, h2, h3, h4, h5⟩
          · exfalso
            rcases List.mem_cons.1 hq with hqx | hq
            · subst hqx; exact hasymm _ _ h1 h1
            · exact hasymm _ _ h1 (hx q hq)
          · have hq' := hne q h2 h3 hq
            obtain ⟨rest, hr⟩ := filter_eq_cons_of_first lt keep q xs hp' hq' h2
              (fun i hi hiq => h5 i (List.mem_cons_of_mem _ hi) (hx i hi) hiq)
            simp [hk, hP, hr, h3, h4]
      · have hP : P x = false := by
          cases hP : P x
          · rfl
          · exact absurd ⟨hk, hP⟩ hkP
        simp only [List.filter_cons, hk, if_true, List.find?_cons, hP]
        exact IH

/-! ### `Spec.n12.go`: head, and dropping a prefix -/

/-- the last non-neutral type of `pre`, or `prev` when there is none: the `prev` argument of
    `Spec.n12.go` after it has consumed `pre` -/
def lastNonNI (prev : BidiClass) (pre : List BidiClass) : BidiClass :=
  (pre.reverse.find? (fun x => !Spec.isNI x)).getD prev

theorem lastNonNI_nil (prev : BidiClass) : lastNonNI prev [] = prev := rfl

theorem lastNonNI_cons (prev c : BidiClass) (pre : List BidiClass) :
    lastNonNI prev (c :: pre) = lastNonNI (if Spec.isNI c then prev else c) pre := by
  unfold lastNonNI
  rw [List.reverse_cons, List.find?_append]
  cases h : pre.reverse.find? (fun x => !Spec.isNI x) with
  | some y => simp
  | none =>
    by_cases hc : Spec.isNI c = true
    · simp [hc]
    · simp [hc]

theorem lastNonNI_snoc (prev c : BidiClass) (pre : List BidiClass) :
    lastNonNI prev (pre ++ [c]) = if Spec.isNI c then lastNonNI prev pre else c := by
  unfold lastNonNI
  rw [List.reverse_append]
  by_cases hc : Spec.isNI c = true
  · simp [hc]
  · simp [hc]

theorem n12_go_cons (eos e prev c : BidiClass) (cs : List BidiClass) :
    Spec.n12.go eos e prev (c :: cs) =
      (if Spec.isNI c then specV prev ((cs.find? (fun x => !Spec.isNI x)).getD eos) e else c) ::
        Spec.n12.go eos e (if Spec.isNI c then prev else c) cs := by
  by_cases hc : Spec.isNI c = true
  · simp only [Spec.n12.go, hc, if_true]; rfl
  · have hc' : Spec.isNI c = false := by simpa using hc
    simp only [Spec.n12.go, hc', Bool.false_eq_true, if_false]

theorem n12_go_drop (eos e : BidiClass) (rest : List BidiClass) :
    ∀ (pre : List BidiClass) (prev : BidiClass),
      (Spec.n12.go eos e prev (pre ++ rest)).drop pre.length =
        Spec.n12.go eos e (lastNonNI prev pre) rest := by
  intro pre
  induction pre with
  | nil => intro prev; rfl
  | cons c pre ih =>
    intro prev
    rw [List.cons_append, n12_go_cons, List.length_cons, List.drop_succ_cons, ih, lastNonNI_cons]

/-! ### the witnesses of a removed unit that carries a non-neutral type -/

theorem wit_nonNI {U : List Nat} {ocs pcs : Classes}
    (hwit : ∀ p ∈ U, keepU ocs p = false →
      cget pcs p = BN ∨ cget pcs p = ON ∨ FwdWit U ocs pcs p ∨ BwdWit U ocs pcs (fun _ => False) p)
    {p : Nat} (hp : p ∈ U) (hk : keepU ocs p = false)
    (hP : (!Spec.isNI (bnToON (cget pcs p))) = true) :
    (∃ q ∈ U, p < q ∧ keepU ocs q = true ∧ cget pcs q = cget pcs p ∧
      ∀ i ∈ U, p < i → i < q → keepU ocs i = false) ∨
    (∃ q ∈ U, q < p ∧ keepU ocs q = true ∧ cget pcs q = cget pcs p ∧
      ∀ i ∈ U, q < i → i < p → keepU ocs i = false) := by
  rcases hwit p hp hk with h | h | ⟨q, hq, h1, h2, h3, h4⟩ | ⟨q, hq, h1, h2, h3, h4, _⟩
  · rw [h] at hP; exact absurd hP (by decide)
  · rw [h] at hP; exact absurd hP (by decide)
  · exact Or.inl ⟨q, hq, h1, h2, h3, h4⟩
  · exact Or.inr ⟨q, hq, h1, h2, h3, h4⟩

theorem notNI_bnToON {c : BidiClass} (h : (!Spec.isNI (bnToON c)) = true) : bnToON c = c := by
  cases c <;> first | rfl | exact absurd h (by decide)

/-- "after": in front of a kept neutral unit `x`, the first non-neutral type after `x` is the same
    over all units and over the kept units -/
theorem n12_after_eq {U : List Nat} {ocs pcs : Classes} (hU : U.Pairwise (· < ·))
    (hkept : ∀ i ∈ U, keepU ocs i = true → cget pcs i ≠ BN)
    (hwit : ∀ p ∈ U, keepU ocs p = false →
      cget pcs p = BN ∨ cget pcs p = ON ∨ FwdWit U ocs pcs p ∨ BwdWit U ocs pcs (fun _ => False) p)
    {pre post : List Nat} {x : Nat} (hsplit : U = pre ++ x :: post)
    (hkx : keepU ocs x = true) (hni : Spec.isNI (cget pcs x) = true) :
    (post.map (fun i => bnToON (cget pcs i))).find? (fun c => !Spec.isNI c) =
      ((post.filter (keepU ocs)).map (cget pcs)).find? (fun c => !Spec.isNI c) := by
  have hU' := hU
  rw [hsplit, List.pairwise_append, List.pairwise_cons] at hU'
  obtain ⟨_, ⟨hxpost, hpost⟩, hcross⟩ := hU'
  have hpostU : ∀ i ∈ post, i ∈ U := fun i hi => by rw [hsplit]; simp [hi]
  have hxU : x ∈ U := by rw [hsplit]; simp
  have e1 : (post.filter (keepU ocs)).map (cget pcs) =
      (post.filter (keepU ocs)).map (fun i => bnToON (cget pcs i)) := by
    apply List.map_congr_left
    intro i hi
    rw [List.mem_filter] at hi
    exact (bnToON_of_ne (hkept i (hpostU i hi.1) hi.2)).symm
  rw [e1, List.find?_map, List.find?_map]
  refine find_filter_keep (· < ·) (fun a b h1 h2 => by omega) (keepU ocs) _ _ post hpost ?_
  intro p hp hk hP
  have hP' : (!Spec.isNI (bnToON (cget pcs p))) = true := hP
  have hxp : x < p := hxpost p hp
  rcases wit_nonNI hwit (hpostU p hp) hk hP' with ⟨q, hq, h1, h2, h3, h4⟩ | ⟨q, hq, h1, h2, h3, h4⟩
  · -- forward witness: `q` lies in `post`, after `p`
    have hqpost : q ∈ post := by
      rw [hsplit] at hq
      rcases List.mem_append.1 hq with hq | hq
      · have := hcross q hq p (by simp [hp]); omega
      · rcases List.mem_cons.1 hq with hq | hq
        · omega
        · exact hq
    refine Or.inr ⟨q, hqpost, h1, h2, ?_, ?_, fun i hi => h4 i (hpostU i hi)⟩
    · show (!Spec.isNI (bnToON (cget pcs q))) = true
      rw [h3]; exact hP'
    · show bnToON (cget pcs q) = bnToON (cget pcs p)
      rw [h3]
  · -- backward witness: `q` lies in `post` (it is not `x`, whose type is neutral), before `p`
    have hqpost : q ∈ post := by
      rw [hsplit] at hq
      rcases List.mem_append.1 hq with hq | hq
      · have hqx := hcross q hq x (by simp)
        have := h4 x hxU hqx hxp
        rw [this] at hkx; exact absurd hkx (by simp)
      · rcases List.mem_cons.1 hq with hq | hq
        · exfalso
          subst hq
          rw [notNI_bnToON hP', ← h3, hni] at hP'
          exact absurd hP' (by simp)
        · exact hq
    refine Or.inl ⟨q, hqpost, h1, h2, ?_⟩
    show (!Spec.isNI (bnToON (cget pcs q))) = true
    rw [h3]; exact hP'

/-- "prev": in front of a kept neutral unit `x`, the last non-neutral type before `x` is the same
    over all units and over the kept units -/
theorem n12_prev_eq {U : List Nat} {ocs pcs : Classes} (hU : U.Pairwise (· < ·))
    (hkept : ∀ i ∈ U, keepU ocs i = true → cget pcs i ≠ BN)
    (hwit : ∀ p ∈ U, keepU ocs p = false →
      cget pcs p = BN ∨ cget pcs p = ON ∨ FwdWit U ocs pcs p ∨ BwdWit U ocs pcs (fun _ => False) p)
    {pre post : List Nat} {x : Nat} (hsplit : U = pre ++ x :: post)
    (hkx : keepU ocs x = true) (hni : Spec.isNI (cget pcs x) = true) (sos : BidiClass) :
    lastNonNI sos (pre.map (fun i => bnToON (cget pcs i))) =
      lastNonNI sos ((pre.filter (keepU ocs)).map (cget pcs)) := by
  have hU' := hU
  rw [hsplit, List.pairwise_append, List.pairwise_cons] at hU'
  obtain ⟨hpre, _, hcross⟩ := hU'
  have hpreU : ∀ i ∈ pre, i ∈ U := fun i hi => by rw [hsplit]; simp [hi]
  have hxU : x ∈ U := by rw [hsplit]; simp
  have e1 : (pre.filter (keepU ocs)).map (cget pcs) =
      (pre.filter (keepU ocs)).map (fun i => bnToON (cget pcs i)) := by
    apply List.map_congr_left
    intro i hi
    rw [List.mem_filter] at hi
    exact (bnToON_of_ne (hkept i (hpreU i hi.1) hi.2)).symm
  unfold lastNonNI
  rw [e1, ← List.map_reverse, ← List.map_reverse, ← List.filter_reverse, List.find?_map, List.find?_map]
  congr 1
  have hrev : pre.reverse.Pairwise (· > ·) := by
    rw [List.pairwise_reverse]; exact hpre
  refine find_filter_keep (· > ·) (fun a b h1 h2 => by omega) (keepU ocs) _ _ pre.reverse hrev ?_
  intro p hp hk hP
  have hP' : (!Spec.isNI (bnToON (cget pcs p))) = true := hP
  have hp : p ∈ pre := List.mem_reverse.1 hp
  have hpx : p < x := hcross p hp x (by simp)
  rcases wit_nonNI hwit (hpreU p hp) hk hP' with ⟨q, hq, h1, h2, h3, h4⟩ | ⟨q, hq, h1, h2, h3, h4⟩
  · -- forward witness: `q` lies in `pre` (it is not `x`, whose type is neutral), after `p`
    have hqpre : q ∈ pre := by
      rw [hsplit] at hq
      rcases List.mem_append.1 hq with hq | hq
      · exact hq
      · rcases List.mem_cons.1 hq with hq | hq
        · exfalso
          subst hq
          rw [notNI_bnToON hP', ← h3, hni] at hP'
          exact absurd hP' (by simp)
        · exfalso
          have hxq : x < q := by
            have := hU
            rw [hsplit, List.pairwise_append, List.pairwise_cons] at this
            exact this.2.1.1 q hq
          have := h4 x hxU hpx hxq
          rw [this] at hkx; exact absurd hkx (by simp)
    refine Or.inl ⟨q, List.mem_reverse.2 hqpre, h1, h2, ?_⟩
    show (!Spec.isNI (bnToON (cget pcs q))) = true
    rw [h3]; exact hP'
  · -- backward witness: `q` lies in `pre`, before `p`
    have hqpre : q ∈ pre := by
      rw [hsplit] at hq
      rcases List.mem_append.1 hq with hq | hq
      · exact hq
      · have := hcross p hp q hq; omega
    refine Or.inr ⟨q, List.mem_reverse.2 hqpre, h1, h2, ?_, ?_,
      fun i hi h5 h6 => h4 i (hpreU i (List.mem_reverse.1 hi)) h6 h5⟩
    · show (!Spec.isNI (bnToON (cget pcs q))) = true
      rw [h3]; exact hP'
    · show bnToON (cget pcs q) = bnToON (cget pcs p)
      rw [h3]

/-! ### the value at a kept unit -/

theorem n12_kept_head (sos eos e : BidiClass) (U : List Nat) (hU : U.Pairwise (· < ·))
    (ocs pcs out : Classes)
    (hkept : ∀ i ∈ U, keepU ocs i = true → cget pcs i ≠ BN)
    (hwit : ∀ p ∈ U, keepU ocs p = false →
      cget pcs p = BN ∨ cget pcs p = ON ∨ FwdWit U ocs pcs p ∨ BwdWit U ocs pcs (fun _ => False) p)
    (hout : U.map (cget out) = Spec.n12 sos eos e (U.map (fun i => bnToON (cget pcs i))))
    {pre post : List Nat} {x : Nat} (hsplit : U = pre ++ x :: post) (hkx : keepU ocs x = true) :
    cget out x =
      if Spec.isNI (cget pcs x) then
        specV (lastNonNI sos ((pre.filter (keepU ocs)).map (cget pcs)))
          ((((post.filter (keepU ocs)).map (cget pcs)).find? (fun c => !Spec.isNI c)).getD eos) e
      else cget pcs x := by
  have hxU : x ∈ U := by rw [hsplit]; simp
  have hgx : bnToON (cget pcs x) = cget pcs x := bnToON_of_ne (hkept x hxU hkx)
  have h1 : (U.map (cget out)).drop pre.length = cget out x :: post.map (cget out) := by
    rw [hsplit, List.map_append, List.map_cons]
    exact List.drop_left' (by simp)
  have h2 : (Spec.n12 sos eos e (U.map (fun i => bnToON (cget pcs i)))).drop pre.length =
      Spec.n12.go eos e (lastNonNI sos (pre.map (fun i => bnToON (cget pcs i))))
        (bnToON (cget pcs x) :: post.map (fun i => bnToON (cget pcs i))) := by
    unfold Spec.n12
    rw [hsplit, List.map_append, List.map_cons]
    have := n12_go_drop eos e (bnToON (cget pcs x) :: post.map (fun i => bnToON (cget pcs i)))
      (pre.map (fun i => bnToON (cget pcs i))) sos
    rw [List.length_map] at this
    exact this
  rw [hout, h2, n12_go_cons, hgx] at h1
  have h3 := (List.cons.inj h1).1
  rw [← h3]
  by_cases hni : Spec.isNI (cget pcs x) = true
  · simp only [hni, if_true]
    rw [n12_after_eq hU hkept hwit hsplit hkx hni, n12_prev_eq hU hkept hwit hsplit hkx hni sos]
  · have hni' : Spec.isNI (cget pcs x) = false := by simpa using hni
    simp only [hni', Bool.false_eq_true, if_false]

/-! ### the projection -/

/-- N1/N2 computed over all units of the sequence (removed units read as neutrals when they carry BN),
    projected to the kept units, is N1/N2 computed over the kept units alone — provided every removed
    unit carries BN, ON, or the type of the neighbouring kept unit (forward or backward witness). -/
theorem n12_kept_proj (sos eos e : BidiClass) (U : List Nat) (hU : U.Pairwise (· < ·))
    (ocs pcs out : Classes)
    (hkept : ∀ i ∈ U, keepU ocs i = true → cget pcs i ≠ BN)
    (hwit : ∀ p ∈ U, keepU ocs p = false →
      cget pcs p = BN ∨ cget pcs p = ON ∨ FwdWit U ocs pcs p ∨ BwdWit U ocs pcs (fun _ => False) p)
    (hout : U.map (cget out) = Spec.n12 sos eos e (U.map (fun i => bnToON (cget pcs i)))) :
    (U.filter (keepU ocs)).map (cget out) =
      Spec.n12 sos eos e ((U.filter (keepU ocs)).map (cget pcs)) := by
  have claim : ∀ (suf pre : List Nat), U = pre ++ suf →
      (suf.filter (keepU ocs)).map (cget out) =
        Spec.n12.go eos e (lastNonNI sos ((pre.filter (keepU ocs)).map (cget pcs)))
          ((suf.filter (keepU ocs)).map (cget pcs)) := by
    intro suf
    induction suf with
    | nil => intro pre _; simp [Spec.n12.go]
    | cons x post ih =>
      intro pre hsplit
      have ih' := ih (pre ++ [x]) (by rw [hsplit]; simp)
      cases hk : keepU ocs x
      · have e1 : (pre ++ [x]).filter (keepU ocs) = pre.filter (keepU ocs) := by
          simp [List.filter_append, hk]
        rw [e1] at ih'
        rw [List.filter_cons, hk]
        exact ih'
      · have e1 : (pre ++ [x]).filter (keepU ocs) = pre.filter (keepU ocs) ++ [x] := by
          simp [List.filter_append, hk]
        rw [e1, List.map_append, List.map_cons, List.map_nil, lastNonNI_snoc] at ih'
        have e2 : (x :: post).filter (keepU ocs) = x :: post.filter (keepU ocs) := by
          rw [List.filter_cons, hk]; rfl
        rw [e2, List.map_cons, List.map_cons, n12_go_cons, ih',
          n12_kept_head sos eos e U hU ocs pcs out hkept hwit hout hsplit hk]
  have := claim U [] rfl
  simpa [Spec.n12, lastNonNI_nil] using this

/-! ### non-vacuity / test (literal input; `decide` here is a test, not a proof) -/

/-- test: units 0..5 with original types `ON BN R LRE L RLE`; the units 1, 3, 5 are removed by X9.
    Current types `ON R R BN L L`: unit 1 carries the type copied from the next kept unit 2 (forward
    witness), unit 3 carries BN, unit 5 carries the type of the previous kept unit 4 (backward
    witness).  The hypotheses `hU`, `hkept`, `hwit` of `n12_kept_proj` hold, with `sos = R`, `eos = L`,
    `e = L` the per-unit N1/N2 is `R R R L L L`, and its projection to the kept units 0, 2, 4 is
    `R R L`, the N1/N2 of `ON R L`. -/
example :
    [0, 1, 2, 3, 4, 5].Pairwise (· < ·) ∧
    (∀ i ∈ [0, 1, 2, 3, 4, 5], keepU [ON, BN, R, LRE, L, RLE] i = true →
      cget [ON, R, R, BN, L, L] i ≠ BN) ∧
    (∀ p ∈ [0, 1, 2, 3, 4, 5], keepU [ON, BN, R, LRE, L, RLE] p = false →
      cget [ON, R, R, BN, L, L] p = BN ∨ cget [ON, R, R, BN, L, L] p = ON ∨
      FwdWit [0, 1, 2, 3, 4, 5] [ON, BN, R, LRE, L, RLE] [ON, R, R, BN, L, L] p ∨
      BwdWit [0, 1, 2, 3, 4, 5] [ON, BN, R, LRE, L, RLE] [ON, R, R, BN, L, L] (fun _ => False) p) ∧
    keepU [ON, BN, R, LRE, L, RLE] 1 = false ∧
    FwdWit [0, 1, 2, 3, 4, 5] [ON, BN, R, LRE, L, RLE] [ON, R, R, BN, L, L] 1 ∧
    [0, 1, 2, 3, 4, 5].map (cget [R, R, R, L, L, L]) =
      Spec.n12 R L L ([0, 1, 2, 3, 4, 5].map (fun i => bnToON (cget [ON, R, R, BN, L, L] i))) ∧
    ([0, 1, 2, 3, 4, 5].filter (keepU [ON, BN, R, LRE, L, RLE])).map (cget [R, R, R, L, L, L]) =
      Spec.n12 R L L
        (([0, 1, 2, 3, 4, 5].filter (keepU [ON, BN, R, LRE, L, RLE])).map (cget [ON, R, R, BN, L, L])) := by
  have hw : ∀ p ∈ [0, 1, 2, 3, 4, 5], keepU [ON, BN, R, LRE, L, RLE] p = false →
      cget [ON, R, R, BN, L, L] p = BN ∨ cget [ON, R, R, BN, L, L] p = ON ∨
      FwdWit [0, 1, 2, 3, 4, 5] [ON, BN, R, LRE, L, RLE] [ON, R, R, BN, L, L] p ∨
      (∃ q ∈ [0, 1, 2, 3, 4, 5], q < p ∧ keepU [ON, BN, R, LRE, L, RLE] q = true ∧
        cget [ON, R, R, BN, L, L] q = cget [ON, R, R, BN, L, L] p ∧
        ∀ i ∈ [0, 1, 2, 3, 4, 5], q < i → i < p → keepU [ON, BN, R, LRE, L, RLE] i = false) := by
    unfold FwdWit; decide
  refine ⟨by decide, by decide, fun p hp hk => ?_, by decide, by unfold FwdWit; decide,
    by decide, by decide⟩
  rcases hw p hp hk with h | h | h | ⟨q, hq, h1, h2, h3, h4⟩
  · exact Or.inl h
  · exact Or.inr (Or.inl h)
  · exact Or.inr (Or.inr (Or.inl h))
  · exact Or.inr (Or.inr (Or.inr ⟨q, hq, h1, h2, h3, h4, fun _ hb => hb.elim⟩))

end UBidi.Lemmas.C01Neutral
