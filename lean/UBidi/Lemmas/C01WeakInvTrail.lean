/-
  UBidi.Lemmas.C01WeakInvTrail — what the weak stage leaves on the units removed by X9, part 5:
  the trail of a unit that leaves the weak stage as ON.

  `MatchG_trailON`: after a non-BN unit `s` whose FINAL type is ON, as long as only units entering as
  BN / NSM / L / R follow up to a non-BN unit `k`, the BN units in between end as BN or ON — for
  every entry class of `s` (the statement `MatchG_trail` of `C01WeakInvIdx`, "they stay BN", needs
  the entry class of `s` to be none of NSM / ES / CS / ET).  This is what the neutral stage needs
  of the removed units between a paired bracket and the original NSMs that follow it, and it holds
  for every data source.

  Proof: the Spec side of `MatchG` is tracked as `w7g b (W p1 al p4 p5 (fl cs))`, the composed pass
  W1–W7 of `C01WeakSpec` in front of the rest `cs`.  Behind `s` the W1 state `g` is calm (no BN unit
  is rewritten), a separator (BN units are rewritten to ON only; a following NSM is a separator
  again), or ET with the pending ET run resolving to ON (`LA = false`; a following NSM joins that
  run, and the BN units in front of it take its value ON).
-/
import UBidi.Lemmas.C01WeakInvIdx
namespace UBidi.Lemmas.C01Weak
open UBidi UBidi.Spec BidiClass

/-- UAX #9's W1–W7 as the composed pass from the initial state -/
theorem weak_eq_w7g_W (sos : BidiClass) (hs : sos = L ∨ sos = R) (ts : List BidiClass) :
    Spec.weak sos ts = w7g (sos == L) (W sos false sos sos ts) := by
  rw [← w16_eq_W sos hs, ← w7_eq]
  rfl

theorem w7g_cons (b : Bool) (c : BidiClass) (cs : List BidiClass) :
    w7g b (c :: cs) =
      (if c == EN && b then L else c) :: w7g (if c == L then true else if c == R then false else b) cs := rfl

/-- the tail of a match whose Spec side is the composed pass in some state is of the same kind -/
theorem MatchG_tail_tracked (eos : BidiClass) (he : eos = L ∨ eos = R) {p1 : BidiClass} {al : Bool}
    {p4 p5 : BidiClass} {b : Bool} {x : BidiClass} {cs : List BidiClass} {r : BidiClass} {rs : List BidiClass}
    (h : MatchG ok7 p1 (x :: cs) (r :: rs) (w7g b (W p1 al p4 p5 (fl (x :: cs))))) :
    ∃ p1' al' p4' p5' b', MatchG ok7 p1' cs rs (w7g b' (W p1' al' p4' p5' (fl cs))) := by
  by_cases hx : x = BN
  · subst hx
    rw [fl_cons_BN, MatchG_cons_BN] at h
    exact ⟨_, _, _, _, _, h.2⟩
  · rw [fl_cons_ne x hx, W_cons eos he, w7g_cons, MatchG_cons_ne _ _ _ hx] at h
    exact ⟨_, _, _, _, _, h.2.2⟩

/-- the first non-BN unit of a trail entered as NSM, L or R -/
theorem fl_head_trail : ∀ (cs : List BidiClass) (k : Nat), (∃ c, cs[k]? = some c ∧ c ≠ BN) →
    (∀ i : Nat, i ≤ k → ∃ c, cs[i]? = some c ∧ inNLR c) →
    ∃ y, (fl cs).head? = some y ∧ (y = NSM ∨ y = L ∨ y = R)
  | [], k, ⟨c, hk, _⟩, _ => by simp at hk
  | x :: cs, k, hk, hall => by
    obtain ⟨c, h1, h2⟩ := hall 0 (by omega)
    simp only [List.getElem?_cons_zero, Option.some.injEq] at h1
    subst h1
    by_cases hx : x = BN
    · subst hx
      cases k with
      | zero =>
        obtain ⟨c, h1, h2⟩ := hk
        simp only [List.getElem?_cons_zero, Option.some.injEq] at h1
        exact absurd h1.symm h2
      | succ k =>
        rw [fl_cons_BN]
        exact fl_head_trail cs k (by simpa using hk) (fun i hi => by simpa using hall (i + 1) (by omega))
    · refine ⟨x, by rw [fl_cons_ne x hx]; rfl, ?_⟩
      rcases h2 with h2 | h2 | h2 | h2
      · exact absurd h2 hx
      · exact Or.inl h2
      · exact Or.inr (Or.inl h2)
      · exact Or.inr (Or.inr h2)

/-- the W1 state behind a unit that ended as ON -/
def TrailSt (g : BidiClass) (al : Bool) (p4 p5 : BidiClass) (cs : List BidiClass) : Prop :=
  calm g ∨ isSepC g ∨ (g = ET ∧ p5 = ET ∧ LA ET al p4 (fl cs) = false)

theorem TrailSt_cons_BN {g : BidiClass} {al : Bool} {p4 p5 : BidiClass} {cs : List BidiClass}
    (h : TrailSt g al p4 p5 (BN :: cs)) : TrailSt g al p4 p5 cs := by
  unfold TrailSt at h ⊢
  rw [fl_cons_BN] at h
  exact h

/-- in the ET state, the NSM that follows ends as ON like the pending run -/
theorem head_ET_NSM (eos : BidiClass) (he : eos = L ∨ eos = R) (al : Bool) (p4 : BidiClass) (b : Bool)
    (rest : List BidiClass) (hla : LA ET al p4 (NSM :: rest) = false) :
    w7g b (W ET al p4 ET (NSM :: rest)) = ON :: w7g b (W ET al ET ET rest) ∧ LA ET al ET rest = false := by
  have hla' : LA ET al ET rest = false := by
    rw [LA_cons eos he ET al p4 ET NSM rest] at hla
    have e1 : sC1 ET NSM = ET := rfl
    have e2 : sC2 al ET = ET := by cases al <;> rfl
    have e3 : sAL al ET = al := by cases al <;> rfl
    rw [e1, e2, e3] at hla
    simpa using hla
  refine ⟨?_, hla'⟩
  rw [W_cons eos he]
  have e1 : sC1 ET NSM = ET := rfl
  have e2 : sC2 al ET = ET := by cases al <;> rfl
  have e3 : sAL al ET = al := by cases al <;> rfl
  rw [e1, e2, e3]
  have e4 : ∀ nx, sM5 p4 ET ET nx = ET := fun nx => rfl
  rw [e4, hla']
  rfl

/-- **behind a unit that ended as ON**: the BN units of its trail end as BN or ON -/
theorem MatchG_trailSt (eos : BidiClass) (he : eos = L ∨ eos = R) :
    ∀ (cs : List BidiClass) (g : BidiClass) (al : Bool) (p4 p5 : BidiClass) (b : Bool) (rs : List BidiClass),
      MatchG ok7 g cs rs (w7g b (W g al p4 p5 (fl cs))) → TrailSt g al p4 p5 cs →
      ∀ k : Nat, (∃ c, cs[k]? = some c ∧ c ≠ BN) → (∀ i : Nat, i ≤ k → ∃ c, cs[i]? = some c ∧ inNLR c) →
      ∀ p : Nat, p < k → cs[p]? = some BN → rs[p]? = some BN ∨ rs[p]? = some ON := by
  intro cs
  induction cs with
  | nil => intro g al p4 p5 b rs _ _ k ⟨c, hk, _⟩; simp at hk
  | cons x cs ih =>
    intro g al p4 p5 b rs h hst k hk hall p hpk hp
    -- the calm state: nothing is rewritten
    by_cases hcalm : calm g
    · exact Or.inl (MatchG_calm h hcalm k hk hall p hpk hp)
    have hst' : isSepC g ∨ (g = ET ∧ p5 = ET ∧ LA ET al p4 (fl (x :: cs)) = false) := by
      rcases hst with h1 | h1 | h1
      · exact absurd h1 hcalm
      · exact Or.inl h1
      · exact Or.inr h1
    cases rs with
    | nil => exact absurd h (MatchG_cons_nil ok7 _ _ _ _)
    | cons r0 rs =>
      cases k with
      | zero => omega
      | succ k =>
        have hk' : ∃ c, cs[k]? = some c ∧ c ≠ BN := by simpa using hk
        have hall' : ∀ i : Nat, i ≤ k → ∃ c, cs[i]? = some c ∧ inNLR c := by
          intro i hi
          simpa using hall (i + 1) (by omega)
        by_cases hx : x = BN
        · subst hx
          have hstc := TrailSt_cons_BN hst
          rw [fl_cons_BN] at h hst'
          rw [MatchG_cons_BN] at h
          cases p with
          | succ p => simpa using ih g al p4 p5 b rs h.2 hstc k hk' hall' p (by omega) (by simpa using hp)
          | zero =>
            simp only [List.getElem?_cons_zero, Option.some.injEq]
            rcases h.1.1 with h1 | h1 | ⟨h1, h2⟩
            · exact Or.inl h1
            · exact Or.inr h1
            · -- the value of the next non-BN unit, which is an ET after W1
              right
              obtain ⟨y, hy, hycases⟩ := fl_head_trail cs k hk' hall'
              have hd : nxt1 g cs = some (sC1 g y) := by simp [nxt1, hy]
              rw [hd] at h2
              have h2' : sC1 g y = ET := Option.some.inj h2
              rcases hst' with hsep | ⟨hg, hp5, hla⟩
              · exfalso
                rcases hycases with rfl | rfl | rfl
                · rw [sC1_sep_NSM g hsep] at h2'
                  rcases hsep with hsep | hsep <;> rw [hsep] at h2' <;> cases h2'
                · cases h2'
                · cases h2'
              · subst hg hp5
                rcases hycases with rfl | rfl | rfl
                · obtain ⟨rest, hrest⟩ : ∃ rest, fl cs = NSM :: rest := by
                    cases hfl : fl cs with
                    | nil => rw [hfl] at hy; cases hy
                    | cons a rest =>
                      rw [hfl] at hy
                      simp only [List.head?_cons, Option.some.injEq] at hy
                      exact ⟨rest, by rw [hy]⟩
                  rw [hrest] at hla h1
                  rw [(head_ET_NSM eos he al p4 b rest hla).1] at h1
                  simp only [List.head?_cons, Option.some.injEq] at h1
                  exact h1.symm
                · cases h2'
                · cases h2'
        · -- a non-BN unit of the trail: NSM, L or R
          obtain ⟨c, h1, h2⟩ := hall 0 (by omega)
          simp only [List.getElem?_cons_zero, Option.some.injEq] at h1
          subst h1
          cases p with
          | zero =>
            simp only [List.getElem?_cons_zero, Option.some.injEq] at hp
            exact absurd hp hx
          | succ p =>
            rw [fl_cons_ne x hx] at h hst'
            rw [W_cons eos he, w7g_cons, MatchG_cons_ne _ _ _ hx] at h
            have hp' : cs[p]? = some BN := by simpa using hp
            suffices hst2 : TrailSt (sC1 g x) (sAL al (sC1 g x)) (sC2 al (sC1 g x))
                (sM5 p4 p5 (sC2 al (sC1 g x)) (nextCls (sAL al (sC1 g x)) eos (fl cs))) cs by
              simpa using ih _ _ _ _ _ rs h.2.2 hst2 k hk' hall' p (by omega) hp'
            rcases h2 with h2 | h2 | h2 | h2
            · exact absurd h2 hx
            · -- an NSM: the state goes on
              subst h2
              rcases hst' with hsep | ⟨hg, hp5, hla⟩
              · exact Or.inr (Or.inl (by rw [sC1_sep_NSM g hsep]; exact hsep))
              · subst hg hp5
                have e1 : sC1 ET NSM = ET := rfl
                have e2 : sC2 al ET = ET := by cases al <;> rfl
                have e3 : sAL al ET = al := by cases al <;> rfl
                have e4 : ∀ nx, sM5 p4 ET ET nx = ET := fun nx => rfl
                rw [e1, e2, e3, e4]
                exact Or.inr (Or.inr ⟨rfl, rfl, (head_ET_NSM eos he al p4 b (fl cs) hla).2⟩)
            · subst h2
              exact Or.inl (by simp [calm, sC1])
            · subst h2
              exact Or.inl (by simp [calm, sC1])

/-- after a non-BN unit `s` that ends as ON, as long as only BN / NSM / L / R units follow up to a
    non-BN unit `k`, the BN units in between end as BN or ON -/
theorem MatchG_trailON (eos : BidiClass) (he : eos = L ∨ eos = R) :
    ∀ (cs : List BidiClass) (p1 : BidiClass) (al : Bool) (p4 p5 : BidiClass) (b : Bool) (rs : List BidiClass),
      MatchG ok7 p1 cs rs (w7g b (W p1 al p4 p5 (fl cs))) →
      ∀ s k : Nat, (∃ c0, cs[s]? = some c0 ∧ c0 ≠ BN) → rs[s]? = some ON →
        (∃ c, cs[k]? = some c ∧ c ≠ BN) →
        (∀ i : Nat, s < i → i ≤ k → ∃ c, cs[i]? = some c ∧ inNLR c) →
        ∀ p : Nat, s < p → p < k → cs[p]? = some BN → rs[p]? = some BN ∨ rs[p]? = some ON := by
  intro cs
  induction cs with
  | nil => intro p1 al p4 p5 b rs _ s k ⟨c0, hs, _⟩; simp at hs
  | cons x cs ih =>
    intro p1 al p4 p5 b rs h s k hs hON hk hall p hsp hpk hp
    cases rs with
    | nil => exact absurd h (MatchG_cons_nil ok7 _ _ _ _)
    | cons r0 rs =>
      cases p with
      | zero => omega
      | succ p =>
        cases k with
        | zero => omega
        | succ k =>
          have hk' : ∃ c, cs[k]? = some c ∧ c ≠ BN := by simpa using hk
          have hp' : cs[p]? = some BN := by simpa using hp
          cases s with
          | zero =>
            obtain ⟨c0, h1, h2⟩ := hs
            simp only [List.getElem?_cons_zero, Option.some.injEq] at h1 hON
            subst h1 hON
            rw [fl_cons_ne x h2, W_cons eos he, w7g_cons, MatchG_cons_ne _ _ _ h2] at h
            obtain ⟨hr, _, hrest⟩ := h
            have hall' : ∀ i : Nat, i ≤ k → ∃ c, cs[i]? = some c ∧ inNLR c := by
              intro i hi
              simpa using hall (i + 1) (by omega) (by omega)
            suffices hst2 : TrailSt (sC1 p1 x) (sAL al (sC1 p1 x)) (sC2 al (sC1 p1 x))
                (sM5 p4 p5 (sC2 al (sC1 p1 x)) (nextCls (sAL al (sC1 p1 x)) eos (fl cs))) cs by
              simpa using MatchG_trailSt eos he cs _ _ _ _ _ rs hrest hst2 k hk' hall' p (by omega) hp'
            -- the state behind `s`
            generalize hg : sC1 p1 x = g at hr hrest ⊢
            by_cases hcalm : calm g
            · exact Or.inl hcalm
            by_cases hsep : isSepC g
            · exact Or.inr (Or.inl hsep)
            have hgET : g = ET := by
              cases g <;> first | rfl | (exact absurd (by unfold calm; decide) hcalm) |
                (exact absurd (by unfold isSepC; decide) hsep)
            subst hgET
            have e2 : sC2 al ET = ET := by cases al <;> rfl
            rw [e2] at hr ⊢
            -- the head of the Spec side is ON: the ET is pending and its run resolves to ON
            by_cases h5 : p5 = EN
            · subst h5
              exfalso
              have : ∀ nx, sM5 p4 EN ET nx = EN := fun nx => rfl
              rw [this] at hr
              cases b <;> simp [sOut] at hr
            · have hm5 : ∀ nx, sM5 p4 p5 ET nx = ET := by
                intro nx
                have : (p5 == EN) = false := by
                  cases hb : p5 == EN with
                  | false => rfl
                  | true => exact absurd ((beq_iff _ _).1 hb) h5
                simp [sM5, this]
              rw [hm5] at hr ⊢
              refine Or.inr (Or.inr ⟨rfl, rfl, ?_⟩)
              cases hla : LA ET (sAL al ET) ET (fl cs) with
              | false => rfl
              | true =>
                exfalso
                rw [hla] at hr
                cases b <;> simp [sOut, etVal] at hr
          | succ s =>
            obtain ⟨p1', al', p4', p5', b', ht⟩ := MatchG_tail_tracked eos he h
            have hall' : ∀ i : Nat, s < i → i ≤ k → ∃ c, cs[i]? = some c ∧ inNLR c := by
              intro i hi1 hi2
              simpa using hall (i + 1) (by omega) (by omega)
            simpa using ih p1' al' p4' p5' b' rs ht s k (by simpa using hs) (by simpa using hON) hk' hall' p
              (by omega) (by omega) hp'

end UBidi.Lemmas.C01Weak
