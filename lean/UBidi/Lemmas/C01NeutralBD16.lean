/-
  C01 stage lemma StageN, part 2: bracket pairs (BD16) — also the bracket clause of C11.

  The crate's `identify_bracket_pairs` (`Model.identifyBracketPairs`: a fold of `bpStep` over
  the characters of the sequence, then a stable sort by opener) finds the same pairs as the
  Spec's BD16 (`Spec.bracketPairs`), including the 63-entry stack limit.

  * `bd16_fold_sim`, `stageBD16_general` — any sequence (several runs, multi-unit characters,
    characters removed by X9 skipped), positions related by a strictly increasing `φ`;
  * `stageBD16_simple` — Layer 3: one run, single-unit characters, nothing removed (`φ = id`);
  * `bd16_limit`, `bd16_stack_le` — the 63 limit;
  * `bd16_pairs_ok`, `identifyBracketPairs_simple_ok` — shape of the pairs, used by N0;
  * `stageBD16_seq`, `keptChars_starts_lt`, `spec_bracketPairs_lt` — BD16 for a real sequence of a
    well-formed text, positions given by the list of the kept characters' first units.
-/
import UBidi.Model.Implicit
import UBidi.Spec.UAX9
import UBidi.Lemmas.C01NeutralN12
namespace UBidi.Lemmas.C01Neutral
open UBidi UBidi.BidiClass

/-- Model stack entry ↦ (bracket key, unit index) -/
def mStack (e : Nat × Nat × Nat) : Nat × Nat := (e.1, e.2.1)
/-- Spec stack entry, position mapped to a unit index -/
def sStack (φ : Nat → Nat) (e : Nat × Nat) : Nat × Nat := (e.1, φ e.2)
def mPair (p : BracketPair) : Nat × Nat := (p.start, p.stop)
def sPair (φ : Nat → Nat) (p : Nat × Nat) : Nat × Nat := (φ p.1, φ p.2)

/-- simulation relation between the crate's BD16 state and the Spec's -/
structure BPRel (φ : Nat → Nat) (st : BPState) (sst : Spec.BPState) : Prop where
  stack : st.stack.map mStack = sst.stack.map (sStack φ)
  pairs : st.pairs.map mPair = sst.pairs.map (sPair φ)
  stopped : st.stopped = sst.stopped

theorem popThrough_sim (φ : Nat → Nat) (key : Nat) :
    ∀ (stack : List (Nat × Nat × Nat)) (sstack : List (Nat × Nat)),
      stack.map mStack = sstack.map (sStack φ) →
      (findOpening key stack).map (fun r => (r.1.2.1, r.2.map mStack)) =
        (Spec.popThrough key sstack).map (fun r => (φ r.1, r.2.map (sStack φ)))
  | [], [], _ => rfl
  | [], _ :: _, h => by simp at h
  | _ :: _, [], h => by simp at h
  | e :: rest, (k, p) :: srest, h => by
    simp only [List.map_cons, List.cons.injEq, mStack, sStack, Prod.mk.injEq] at h
    obtain ⟨⟨h1, h2⟩, h3⟩ := h
    have ih := popThrough_sim φ key rest srest h3
    simp only [findOpening, Spec.popThrough, h1]
    by_cases hk : (k == key) = true
    · simp [hk, h2, h3]
    · simp only [hk, Bool.false_eq_true, if_false]; exact ih

theorem fold_stopped (ds : DataSource) (ocs pcs : Classes) (xs : List (Nat × Seg)) (st : BPState)
    (h : st.stopped = true) : xs.foldl (bpStep ds ocs pcs) st = st := by
  induction xs with
  | nil => rfl
  | cons x xs ih => simp only [List.foldl_cons]; rw [show bpStep ds ocs pcs st x = st by simp [bpStep, h]]; exact ih

/-- the characters BD16 looks at: not removed by X9 (original class) -/
def bpKeep (ocs : Classes) (x : Nat × Seg) : Bool := !(cget ocs x.2.start).removedByX9

theorem bpStep_skip (ds : DataSource) (ocs pcs : Classes) (st : BPState) (x : Nat × Seg)
    (h : bpKeep ocs x = false) : bpStep ds ocs pcs st x = st := by
  simp only [bpKeep, Bool.not_eq_false'] at h
  simp [bpStep, h]


/-- what the Spec sees of a character: current type and bracket property -/
def bpView (ds : DataSource) (pcs : Classes) (x : Nat × Seg) : BidiClass × Option Bracket :=
  (cget pcs x.2.start, ds.brk x.2.cp)

theorem bd16_fold_sim (ds : DataSource) (ocs pcs : Classes) (φ : Nat → Nat) :
    ∀ (xs : List (Nat × Seg)) (st : BPState) (sst : Spec.BPState) (pos : Nat),
      BPRel φ st sst →
      ((xs.filter (bpKeep ocs)).map (fun x => x.2.start) =
          (List.range' pos (xs.filter (bpKeep ocs)).length).map φ) →
      BPRel φ (xs.foldl (bpStep ds ocs pcs) st)
        (Spec.bracketPairs.go sst pos ((xs.filter (bpKeep ocs)).map (bpView ds pcs))) := by
  intro xs
  induction xs with
  | nil => intro st sst pos hr _; simpa [Spec.bracketPairs.go] using hr
  | cons x xs ih =>
    intro st sst pos hr hpos
    simp only [List.foldl_cons]
    by_cases hk : bpKeep ocs x = true
    · simp only [List.filter_cons, hk, if_true, List.map_cons, List.length_cons, List.range'_succ,
        List.cons.injEq] at hpos ⊢
      obtain ⟨hx, hpos'⟩ := hpos
      have hnr : (cget ocs x.2.start).removedByX9 = false := by simpa [bpKeep] using hk
      by_cases hs : st.stopped = true
      · have hs' : sst.stopped = true := hr.stopped ▸ hs
        rw [show bpStep ds ocs pcs st x = st by simp [bpStep, hs], fold_stopped _ _ _ _ _ hs]
        simp only [Spec.bracketPairs.go, bpView, hs', if_true]
        exact hr
      · have hs1 : st.stopped = false := by simpa using hs
        have hs' : sst.stopped = false := hr.stopped ▸ hs1
        cases hb : ds.brk x.2.cp with
        | none =>
          rw [show bpStep ds ocs pcs st x = st by simp [bpStep, hb]]
          simp only [Spec.bracketPairs.go, bpView, hs', hb, Bool.false_eq_true, if_false]
          exact ih st sst (pos + 1) hr hpos'
        | some m =>
          by_cases hon : (cget pcs x.2.start != ON) = true
          · rw [show bpStep ds ocs pcs st x = st by simp [bpStep, hon]]
            simp only [Spec.bracketPairs.go, bpView, hs', hb, Bool.false_eq_true, if_false, hon, if_true]
            exact ih st sst (pos + 1) hr hpos'
          · have hon' : (cget pcs x.2.start != ON) = false := by simpa using hon
            have hlen : st.stack.length = sst.stack.length := by
              have := congrArg List.length hr.stack; simpa using this
            by_cases ho : m.isOpen = true
            · by_cases hfull : st.stack.length ≥ Gen.bracketStackLimit
              · rw [show bpStep ds ocs pcs st x = { st with stopped := true } by
                  simp [bpStep, hs1, hon', hnr, hb, ho, hfull]]
                rw [fold_stopped _ _ _ _ _ rfl]
                have hfull' : sst.stack.length ≥ 63 := by rw [← hlen]; exact hfull
                simp only [Spec.bracketPairs.go, bpView, hs', hb, Bool.false_eq_true, if_false, hon', ho,
                  if_true, hfull']
                exact ⟨hr.stack, hr.pairs, rfl⟩
              · rw [show bpStep ds ocs pcs st x =
                    { st with stack := (m.opening, x.2.start, x.1) :: st.stack } by
                  simp [bpStep, hs1, hon', hnr, hb, ho, hfull]]
                have hfull' : ¬ sst.stack.length ≥ 63 := by rw [← hlen]; exact hfull
                simp only [Spec.bracketPairs.go, bpView, hs', hb, Bool.false_eq_true, if_false, hon', ho,
                  if_true, hfull']
                refine ih _ _ (pos + 1) ⟨?_, hr.pairs, hs1⟩ hpos'
                simp [mStack, sStack, hx, hr.stack]
            · have ho' : m.isOpen = false := by simpa using ho
              have hsim := popThrough_sim φ m.opening st.stack sst.stack hr.stack
              cases hf : findOpening m.opening st.stack with
              | none =>
                rw [hf] at hsim
                have hp : Spec.popThrough m.opening sst.stack = none := by
                  cases h : Spec.popThrough m.opening sst.stack <;> simp_all
                rw [show bpStep ds ocs pcs st x = st by
                  simp [bpStep, hs1, hon', hnr, hb, ho', hf]]
                simp only [Spec.bracketPairs.go, bpView, hs', hb, Bool.false_eq_true, if_false, hon', ho', hp]
                exact ih st sst (pos + 1) hr hpos'
              | some r =>
                obtain ⟨e, rest⟩ := r
                rw [hf] at hsim
                cases hp : Spec.popThrough m.opening sst.stack with
                | none => rw [hp] at hsim; simp at hsim
                | some r' =>
                  obtain ⟨p, srest⟩ := r'
                  rw [hp] at hsim
                  simp only [Option.map_some, Option.some.injEq, Prod.mk.injEq] at hsim
                  rw [show bpStep ds ocs pcs st x =
                      { st with stack := rest,
                                pairs := st.pairs ++ [{ start := e.2.1, stop := x.2.start,
                                                        startRun := e.2.2, endRun := x.1 }] } by
                    simp [bpStep, hs1, hon', hnr, hb, ho', hf]]
                  simp only [Spec.bracketPairs.go, bpView, hs', hb, Bool.false_eq_true, if_false, hon', ho', hp]
                  refine ih _ _ (pos + 1) ⟨hsim.2, ?_, hs1⟩ hpos'
                  simp [mPair, sPair, hx, hr.pairs, hsim.1]
    · have hk' : bpKeep ocs x = false := by simpa using hk
      rw [bpStep_skip _ _ _ _ _ hk']
      simp only [List.filter_cons, hk', Bool.false_eq_true, if_false] at hpos ⊢
      exact ih st sst pos hr hpos


theorem mono_lt_iff {φ : Nat → Nat} (hφ : ∀ a b, a < b → φ a < φ b) (a b : Nat) : φ a < φ b ↔ a < b := by
  constructor
  · intro h
    apply Classical.byContradiction
    intro hn
    have hle : b ≤ a := Nat.le_of_not_lt hn
    rcases Nat.lt_or_eq_of_le hle with h1 | h1
    · have := hφ b a h1; omega
    · subst h1; omega
  · exact hφ a b

theorem ins_sim {φ : Nat → Nat} (hφ : ∀ a b, a < b → φ a < φ b) (p : BracketPair) (sp : Nat × Nat)
    (hp : mPair p = sPair φ sp) :
    ∀ (qs : List BracketPair) (sqs : List (Nat × Nat)), qs.map mPair = sqs.map (sPair φ) →
      (insertPair p qs).map mPair = (Spec.bracketPairs.ins sp sqs).map (sPair φ)
  | [], [], _ => by simp [insertPair, Spec.bracketPairs.ins, hp]
  | [], _ :: _, h => by simp at h
  | _ :: _, [], h => by simp at h
  | q :: qs, sq :: sqs, h => by
    simp only [List.map_cons, List.cons.injEq] at h
    have ih := ins_sim hφ p sp hp qs sqs h.2
    have h1 : p.start = φ sp.1 := congrArg Prod.fst hp
    have h2 : q.start = φ sq.1 := congrArg Prod.fst h.1
    simp only [insertPair, Spec.bracketPairs.ins, h1, h2, mono_lt_iff hφ]
    by_cases hlt : sp.1 < sq.1
    · simp [hlt, hp, h.1, h.2]
    · simp [hlt, h.1, ih]

theorem sort_sim {φ : Nat → Nat} (hφ : ∀ a b, a < b → φ a < φ b) :
    ∀ (ps : List BracketPair) (sps : List (Nat × Nat)) (acc : List BracketPair) (sacc : List (Nat × Nat)),
      ps.map mPair = sps.map (sPair φ) → acc.map mPair = sacc.map (sPair φ) →
      (ps.foldl (fun acc p => insertPair p acc) acc).map mPair =
        (sps.foldl (fun acc p => Spec.bracketPairs.ins p acc) sacc).map (sPair φ)
  | [], [], _, _, _, ha => by simpa using ha
  | [], _ :: _, _, _, h, _ => by simp at h
  | _ :: _, [], _, _, h, _ => by simp at h
  | p :: ps, sp :: sps, acc, sacc, h, ha => by
    simp only [List.map_cons, List.cons.injEq] at h
    simp only [List.foldl_cons]
    exact sort_sim hφ ps sps _ _ h.2 (ins_sim hφ p sp h.1 acc sacc ha)

/-- **BD16, general form.**  `φ` sends the Spec's position (index among the characters of the
    sequence that X9 keeps) to the code-unit index of that character; it must be strictly
    increasing.  Then the crate's sorted pair list is the Spec's, position for position. -/
theorem stageBD16_general (ds : DataSource) (t : Text) (seq : IRSeq) (ocs pcs : Classes) (φ : Nat → Nat)
    (hφ : ∀ a b, a < b → φ a < φ b)
    (hpos : ((seqChars t seq).filter (bpKeep ocs)).map (fun x => x.2.start) =
        (List.range' 0 ((seqChars t seq).filter (bpKeep ocs)).length).map φ) :
    (identifyBracketPairs ds t seq ocs pcs).map (fun p => (p.start, p.stop)) =
      (Spec.bracketPairs (((seqChars t seq).filter (bpKeep ocs)).map (fun x => cget pcs x.2.start))
        (((seqChars t seq).filter (bpKeep ocs)).map (fun x => ds.brk x.2.cp))).map (sPair φ) := by
  have hsim := bd16_fold_sim ds ocs pcs φ (seqChars t seq) {} {} 0 ⟨rfl, rfl, rfl⟩ hpos
  have hz : (((seqChars t seq).filter (bpKeep ocs)).map (fun x => cget pcs x.2.start)).zip
      (((seqChars t seq).filter (bpKeep ocs)).map (fun x => ds.brk x.2.cp)) =
      ((seqChars t seq).filter (bpKeep ocs)).map (bpView ds pcs) := by
    rw [List.zip_map']; rfl
  unfold identifyBracketPairs sortPairs Spec.bracketPairs
  simp only [hz]
  exact sort_sim hφ _ _ [] [] hsim.pairs rfl


/-! ### the single-run, single-unit setting -/

theorem segs_unit_starts : ∀ (segs : List Seg) (pos e : Nat), SegsFrom pos segs e →
    (∀ s ∈ segs, s.len = 1) → segs.map (·.start) = List.range' pos segs.length ∧ e = pos + segs.length
  | [], pos, e, h, _ => by simp [SegsFrom] at h; simp [h]
  | s :: ss, pos, e, h, h1 => by
    simp only [SegsFrom] at h
    have hs : s.len = 1 := h1 s (by simp)
    rw [hs] at h
    have ih := segs_unit_starts ss (pos + 1) e h.2.2 (fun s hs => h1 s (by simp [hs]))
    simp only [List.map_cons, List.length_cons, List.range'_succ, h.1, ih.1, true_and]
    omega

theorem seqChars_single (t : Text) (n : Nat) (sos eos : BidiClass) (h : ∀ s ∈ t.segs, s.start < n) :
    seqChars t { runs := [(0, n)], sos := sos, eos := eos } = t.segs.map (fun s => (0, s)) := by
  simp only [seqChars, List.zipIdx_cons, List.zipIdx_nil, List.flatMap_cons, List.flatMap_nil,
    List.append_nil, Nat.zero_le]
  congr 1
  rw [List.filter_eq_self]
  intro s hs; simpa using h s hs

/-- **Layer 3**: BD16, one run, every character one code unit long, nothing removed by X9. -/
theorem stageBD16_simple (ds : DataSource) (t : Text) (hwf : t.WF) (h1 : ∀ s ∈ t.segs, s.len = 1)
    (n : Nat) (hn : t.len = n) (sos eos : BidiClass) (ocs pcs : Classes) (hpl : pcs.length = n)
    (hocs : ∀ i < n, ¬ (cget ocs i).removedByX9 = true) :
    (identifyBracketPairs ds t { runs := [(0, n)], sos := sos, eos := eos } ocs pcs).map
        (fun p => (p.start, p.stop)) =
      Spec.bracketPairs pcs (t.segs.map (fun s => ds.brk s.cp)) := by
  obtain ⟨hst, hlen⟩ := segs_unit_starts t.segs 0 t.len hwf.tiles h1
  have hlen' : t.segs.length = n := by omega
  have hlt : ∀ s ∈ t.segs, s.start < n := by
    intro s hs
    have : s.start ∈ t.segs.map (·.start) := List.mem_map.2 ⟨s, hs, rfl⟩
    rw [hst, List.mem_range'_1] at this; omega
  have hsc := seqChars_single t n sos eos hlt
  have hkeep : (t.segs.map (fun s => ((0 : Nat), s))).filter (bpKeep ocs) = t.segs.map (fun s => (0, s)) := by
    rw [List.filter_eq_self]
    intro x hx
    obtain ⟨s, hs, rfl⟩ := List.mem_map.1 hx
    simpa [bpKeep] using hocs s.start (hlt s hs)
  have hgen := stageBD16_general ds t { runs := [(0, n)], sos := sos, eos := eos } ocs pcs id
    (fun a b h => h) (by
      rw [hsc, hkeep]
      simp only [List.map_map, List.length_map, List.map_id_fun, id_eq]
      exact hst)
  rw [hgen, hsc, hkeep]
  have hid : sPair id = id := by funext p; rfl
  rw [hid, List.map_id]
  simp only [List.map_map]
  congr 1
  have : (fun x : Nat × Seg => cget pcs x.2.start) ∘ (fun s : Seg => ((0 : Nat), s)) = cget pcs ∘ (·.start) := rfl
  rw [this, ← List.map_map, hst, hlen', ← hpl, map_cget_range]


/-! ### the 63-entry limit (property C11, bracket clause) -/

/-- a character that BD16 counts as an opening bracket -/
def isOpener (ds : DataSource) (ocs pcs : Classes) (x : Nat × Seg) : Prop :=
  cget pcs x.2.start = ON ∧ (cget ocs x.2.start).removedByX9 = false ∧
    ∃ m, ds.brk x.2.cp = some m ∧ m.isOpen = true

/-- **BD16 limit**: if 63 (or more) openers are pending and the next character is a (counted)
    opening bracket, then whatever follows in the sequence, the pairs found so far are kept and
    nothing more is paired; the stack is not touched either. -/
theorem bd16_limit (ds : DataSource) (ocs pcs : Classes) (st : BPState)
    (hfull : st.stack.length ≥ Gen.bracketStackLimit)
    (x : Nat × Seg) (hx : isOpener ds ocs pcs x) (xs : List (Nat × Seg)) :
    ((x :: xs).foldl (bpStep ds ocs pcs) st).pairs = st.pairs ∧
    ((x :: xs).foldl (bpStep ds ocs pcs) st).stack = st.stack := by
  obtain ⟨h1, h2, m, h3, h4⟩ := hx
  simp only [List.foldl_cons]
  by_cases hs : st.stopped = true
  · rw [show bpStep ds ocs pcs st x = st by simp [bpStep, hs], fold_stopped _ _ _ _ _ hs]; exact ⟨rfl, rfl⟩
  · have hs1 : st.stopped = false := by simpa using hs
    have hon : (cget pcs x.2.start != ON) = false := by rw [h1]; rfl
    rw [show bpStep ds ocs pcs st x = { st with stopped := true } by
      simp [bpStep, hs1, hon, h2, h3, h4, hfull]]
    rw [fold_stopped _ _ _ _ _ rfl]; exact ⟨rfl, rfl⟩

theorem findOpening_some (key : Nat) : ∀ (stack : List (Nat × Nat × Nat)) e rest,
    findOpening key stack = some (e, rest) →
      rest.length < stack.length ∧ e ∈ stack ∧ ∀ y ∈ rest, y ∈ stack := by
  intro stack
  induction stack with
  | nil => intro e rest h; simp [findOpening] at h
  | cons a as ih =>
    intro e rest h
    simp only [findOpening] at h
    split at h
    · simp only [Option.some.injEq, Prod.mk.injEq] at h
      obtain ⟨rfl, rfl⟩ := h
      exact ⟨by simp, List.mem_cons_self, fun y hy => List.mem_cons_of_mem _ hy⟩
    · have := ih e rest h
      exact ⟨by simp only [List.length_cons]; omega, List.mem_cons_of_mem _ this.2.1,
        fun y hy => List.mem_cons_of_mem _ (this.2.2 y hy)⟩

/-- the four things one step of BD16 can do -/
theorem bpStep_cases (ds : DataSource) (ocs pcs : Classes) (st : BPState) (x : Nat × Seg) :
    bpStep ds ocs pcs st x = st ∨
    bpStep ds ocs pcs st x = { st with stopped := true } ∨
    (st.stack.length < Gen.bracketStackLimit ∧ ∃ key,
      bpStep ds ocs pcs st x = { st with stack := (key, x.2.start, x.1) :: st.stack }) ∨
    (∃ key e rest, findOpening key st.stack = some (e, rest) ∧
      bpStep ds ocs pcs st x =
        { st with stack := rest,
                  pairs := st.pairs ++ [{ start := e.2.1, stop := x.2.start, startRun := e.2.2, endRun := x.1 }] }) := by
  by_cases hs : st.stopped = true
  · left; simp [bpStep, hs]
  have hs1 : st.stopped = false := by simpa using hs
  by_cases hc : (cget pcs x.2.start != ON || (cget ocs x.2.start).removedByX9) = true
  · left; simp only [bpStep, hs1, Bool.false_eq_true, if_false, hc, if_true]
  cases hb : ds.brk x.2.cp with
  | none => left; simp only [bpStep, hs1, Bool.false_eq_true, if_false, hc, hb]
  | some m =>
    by_cases ho : m.isOpen = true
    · by_cases hfull : st.stack.length ≥ Gen.bracketStackLimit
      · right; left; simp only [bpStep, hs1, Bool.false_eq_true, if_false, hc, hb, ho, if_true, hfull]
      · right; right; left
        refine ⟨by omega, m.opening, ?_⟩
        simp only [bpStep, hs1, Bool.false_eq_true, if_false, hc, hb, ho, if_true, hfull]
    · cases hf : findOpening m.opening st.stack with
      | none => left; simp only [bpStep, hs1, Bool.false_eq_true, if_false, hc, hb, ho, hf]
      | some r =>
        right; right; right
        refine ⟨m.opening, r.1, r.2, hf, ?_⟩
        simp only [bpStep, hs1, Bool.false_eq_true, if_false, hc, hb, ho, hf]

/-- the stack never holds more than 63 entries -/
theorem bd16_stack_le (ds : DataSource) (ocs pcs : Classes) :
    ∀ (xs : List (Nat × Seg)) (st : BPState), st.stack.length ≤ Gen.bracketStackLimit →
      (xs.foldl (bpStep ds ocs pcs) st).stack.length ≤ Gen.bracketStackLimit := by
  intro xs
  induction xs with
  | nil => intro st h; exact h
  | cons x xs ih =>
    intro st h
    simp only [List.foldl_cons]
    apply ih
    rcases bpStep_cases ds ocs pcs st x with h1 | h1 | ⟨hl, key, h1⟩ | ⟨key, e, rest, hf, h1⟩ <;> rw [h1]
    · exact h
    · exact h
    · simp only [List.length_cons]; omega
    · have := (findOpening_some _ _ _ _ hf).1; simp only; omega


/-! ### shape of the pairs (needed by N0) -/

/-- a pair whose ends are characters `(run, unit index)` satisfying `Q`, opener first -/
def PairOK (Q : Nat → Nat → Prop) (p : BracketPair) : Prop :=
  p.start < p.stop ∧ Q p.startRun p.start ∧ Q p.endRun p.stop

theorem bd16_pairs_ok (ds : DataSource) (ocs pcs : Classes) (Q : Nat → Nat → Prop) :
    ∀ (xs : List (Nat × Seg)) (st : BPState) (lo : Nat),
      (∀ e ∈ st.stack, e.2.1 < lo ∧ Q e.2.2 e.2.1) → (∀ p ∈ st.pairs, PairOK Q p) →
      (∀ x ∈ xs, Q x.1 x.2.start) → (xs.map (fun x => x.2.start)).Pairwise (· < ·) →
      (∀ x ∈ xs, lo ≤ x.2.start) →
      ∀ p ∈ (xs.foldl (bpStep ds ocs pcs) st).pairs, PairOK Q p := by
  intro xs
  induction xs with
  | nil => intro st lo _ hp _ _ _; exact hp
  | cons x xs ih =>
    intro st lo hst hp hQ hpw hlo
    simp only [List.foldl_cons]
    simp only [List.map_cons, List.pairwise_cons, List.mem_map, forall_exists_index, and_imp,
      forall_apply_eq_imp_iff₂] at hpw
    have hQx := hQ x (by simp)
    have hlox := hlo x (by simp)
    have hQ' : ∀ y ∈ xs, Q y.1 y.2.start := fun y hy => hQ y (by simp [hy])
    have hlo' : ∀ y ∈ xs, x.2.start + 1 ≤ y.2.start := fun y hy => hpw.1 y hy
    have hst' : ∀ e ∈ st.stack, e.2.1 < x.2.start + 1 ∧ Q e.2.2 e.2.1 :=
      fun e he => ⟨by have := (hst e he).1; omega, (hst e he).2⟩
    apply ih _ (x.2.start + 1) _ _ hQ' hpw.2 hlo'
    · rcases bpStep_cases ds ocs pcs st x with h1 | h1 | ⟨_, key, h1⟩ | ⟨key, e, rest, hf, h1⟩ <;> rw [h1]
      · exact hst'
      · exact hst'
      · intro e he
        simp only [List.mem_cons] at he
        rcases he with rfl | he
        · exact ⟨by simp, hQx⟩
        · exact hst' e he
      · intro y hy; exact hst' y ((findOpening_some _ _ _ _ hf).2.2 y hy)
    · rcases bpStep_cases ds ocs pcs st x with h1 | h1 | ⟨_, key, h1⟩ | ⟨key, e, rest, hf, h1⟩ <;> rw [h1]
      · exact hp
      · exact hp
      · exact hp
      · intro p hpm
        simp only [List.mem_append, List.mem_singleton] at hpm
        rcases hpm with hpm | rfl
        · exact hp p hpm
        · have he := hst e (findOpening_some _ _ _ _ hf).2.1
          exact ⟨by simp only; omega, he.2, hQx⟩

theorem mem_insertPair (p q : BracketPair) : ∀ qs : List BracketPair, q ∈ insertPair p qs ↔ q = p ∨ q ∈ qs
  | [] => by simp [insertPair]
  | a :: qs => by
    simp only [insertPair]
    split
    · simp
    · simp only [List.mem_cons, mem_insertPair p q qs]
      constructor
      · rintro (h | h | h) <;> simp [h]
      · rintro (h | h | h) <;> simp [h]

theorem mem_sortPairs (q : BracketPair) (ps : List BracketPair) : q ∈ sortPairs ps ↔ q ∈ ps := by
  have : ∀ (ps acc : List BracketPair), q ∈ ps.foldl (fun acc p => insertPair p acc) acc ↔ q ∈ ps ∨ q ∈ acc := by
    intro ps
    induction ps with
    | nil => intro acc; simp
    | cons p ps ih =>
      intro acc
      simp only [List.foldl_cons, ih, mem_insertPair, List.mem_cons]
      constructor
      · rintro (h | h | h) <;> simp [h]
      · rintro ((h | h) | h) <;> simp [h]
  simpa [sortPairs] using this ps []

/-- in the single-run, single-unit setting every pair lies inside the run, opener first -/
theorem identifyBracketPairs_simple_ok (ds : DataSource) (t : Text) (hwf : t.WF) (h1 : ∀ s ∈ t.segs, s.len = 1)
    (n : Nat) (hn : t.len = n) (sos eos : BidiClass) (ocs pcs : Classes) :
    ∀ p ∈ identifyBracketPairs ds t { runs := [(0, n)], sos := sos, eos := eos } ocs pcs,
      p.start < p.stop ∧ p.stop < n ∧ p.startRun = 0 ∧ p.endRun = 0 := by
  obtain ⟨hst, hlen⟩ := segs_unit_starts t.segs 0 t.len hwf.tiles h1
  have hlt : ∀ s ∈ t.segs, s.start < n := by
    intro s hs
    have : s.start ∈ t.segs.map (·.start) := List.mem_map.2 ⟨s, hs, rfl⟩
    rw [hst, List.mem_range'_1] at this; omega
  have hsc := seqChars_single t n sos eos hlt
  intro p hp
  unfold identifyBracketPairs at hp
  rw [mem_sortPairs, hsc] at hp
  have := bd16_pairs_ok ds ocs pcs (fun r i => r = 0 ∧ i < n) (t.segs.map (fun s => (0, s))) {} 0
    (by simp) (by simp)
    (by intro x hx; obtain ⟨s, hs, rfl⟩ := List.mem_map.1 hx; exact ⟨rfl, hlt s hs⟩)
    (by
      simp only [List.map_map]
      have : ((fun x : Nat × Seg => x.2.start) ∘ fun s : Seg => ((0 : Nat), s)) = (·.start) := rfl
      rw [this, hst]
      exact List.pairwise_lt_range')
    (by simp) p hp
  exact ⟨this.1, this.2.2.2, this.2.1.1, this.2.2.1⟩


/-! ### non-vacuity / tests (literal inputs; `decide` here is a test, not a proof) -/

/-- "a(b)c[d]" as a `&str`: well formed, all characters one unit long -/
def exText : Text := Text.ofScalars [0x61, 0x28, 0x62, 0x29, 0x63, 0x5B, 0x64, 0x5D]

theorem exText_wf : exText.WF :=
  ⟨by simp [exText, Text.ofScalars, Text.layout, Text.totalLen, SegsFrom, Enc.charLen, utf8Len], by decide⟩

/-- the hypotheses of `stageBD16_simple` hold for `exText` with all types ON -/
example : (∀ s ∈ exText.segs, s.len = 1) ∧ exText.len = 8 ∧
    (∀ i < 8, ¬ (cget (List.replicate 8 ON) i).removedByX9 = true) := by decide
/-- test: both sides are `[(1,3), (5,7)]` -/
example : (identifyBracketPairs hardcoded exText { runs := [(0, 8)], sos := L, eos := L }
      (List.replicate 8 ON) (List.replicate 8 ON)).map (fun p => (p.start, p.stop)) = [(1, 3), (5, 7)] := by
  decide +kernel
example : Spec.bracketPairs (List.replicate 8 ON) (exText.segs.map (fun s => hardcoded.brk s.cp))
    = [(1, 3), (5, 7)] := by decide +kernel

/-- "[]" then 63 × "(": the state `bd16_limit` talks about is reachable — one pair found,
    63 openers pending -/
def exDeep : List (Nat × Seg) :=
  (Text.layout .utf8 0 ([0x5B, 0x5D] ++ List.replicate 63 0x28)).map (fun s => (0, s))

example : let st := exDeep.foldl (bpStep hardcoded (List.replicate 70 ON) (List.replicate 70 ON)) {}
    st.stack.length ≥ Gen.bracketStackLimit ∧ st.pairs.length = 1 ∧ st.stopped = false := by
  decide +kernel
/-- and a 64th opener "(" at unit 65 is an `isOpener` -/
example : isOpener hardcoded (List.replicate 70 ON) (List.replicate 70 ON) (0, ⟨65, 0x28, 1⟩) :=
  ⟨by decide, by decide, ⟨40, true⟩, by decide +kernel, rfl⟩

/-! ### BD16 for a real sequence: positions via the list of character starts -/

/-- a strictly increasing total extension of a strictly increasing list -/
def extendStarts (starts : List Nat) (k : Nat) : Nat :=
  if k < starts.length then starts.getD k 0 else starts.getD (starts.length - 1) 0 + 1 + k

theorem extendStarts_mono (starts : List Nat) (h : starts.Pairwise (· < ·)) :
    ∀ a b, a < b → extendStarts starts a < extendStarts starts b := by
  intro a b hab
  rw [List.pairwise_iff_getElem] at h
  unfold extendStarts
  by_cases hb : b < starts.length
  · have ha : a < starts.length := by omega
    simp only [ha, hb, if_true, List.getD_eq_getElem?_getD, List.getElem?_eq_getElem, Option.getD_some]
    exact h a b ha hb hab
  · simp only [hb, if_false]
    by_cases ha : a < starts.length
    · simp only [ha, if_true]
      have hl : starts.length - 1 < starts.length := by omega
      simp only [List.getD_eq_getElem?_getD, List.getElem?_eq_getElem ha, List.getElem?_eq_getElem hl,
        Option.getD_some]
      by_cases hal : a = starts.length - 1
      · subst hal; omega
      · have := h a (starts.length - 1) ha hl (by omega); omega
    · simp only [ha, if_false]; omega

theorem extendStarts_map (starts : List Nat) :
    starts = (List.range' 0 starts.length).map (extendStarts starts) := by
  apply List.ext_getElem
  · simp
  · intro k h1 h2
    simp [extendStarts, h1]

/-! Spec side: every pair is `opener < closer < length` -/

theorem popThrough_some (key : Nat) : ∀ (stack : List (Nat × Nat)) p rest,
    Spec.popThrough key stack = some (p, rest) → (∃ k, (k, p) ∈ stack) ∧ ∀ y ∈ rest, y ∈ stack := by
  intro stack
  induction stack with
  | nil => intro p rest h; simp [Spec.popThrough] at h
  | cons a as ih =>
    intro p rest h
    obtain ⟨k, q⟩ := a
    simp only [Spec.popThrough] at h
    split at h
    · simp only [Option.some.injEq, Prod.mk.injEq] at h
      obtain ⟨rfl, rfl⟩ := h
      exact ⟨⟨k, List.mem_cons_self⟩, fun y hy => List.mem_cons_of_mem _ hy⟩
    · obtain ⟨⟨k', hk'⟩, h2⟩ := ih p rest h
      exact ⟨⟨k', List.mem_cons_of_mem _ hk'⟩, fun y hy => List.mem_cons_of_mem _ (h2 y hy)⟩

theorem spec_go_pairs_lt : ∀ (xs : List (BidiClass × Option Bracket)) (st : Spec.BPState) (pos : Nat),
    (∀ e ∈ st.stack, e.2 < pos) → (∀ p ∈ st.pairs, p.1 < p.2 ∧ p.2 < pos) →
    ∀ p ∈ (Spec.bracketPairs.go st pos xs).pairs, p.1 < p.2 ∧ p.2 < pos + xs.length := by
  intro xs
  induction xs with
  | nil => intro st pos _ hp p hpm; simpa [Spec.bracketPairs.go] using hp p hpm
  | cons x xs ih =>
    intro st pos hst hp
    have hst' : ∀ e ∈ st.stack, e.2 < pos + 1 := fun e he => by have := hst e he; omega
    have hp' : ∀ p ∈ st.pairs, p.1 < p.2 ∧ p.2 < pos + 1 := fun p h => by have := hp p h; omega
    have hweak : ∀ p ∈ st.pairs, p.1 < p.2 ∧ p.2 < pos + (x :: xs).length :=
      fun p h => by have := hp p h; simp only [List.length_cons]; omega
    have hlen : pos + 1 + xs.length = pos + (x :: xs).length := by simp only [List.length_cons]; omega
    obtain ⟨t, b⟩ := x
    simp only [Spec.bracketPairs.go]
    split
    · exact hweak
    · split
      · split
        · rw [← hlen]; exact ih st (pos + 1) hst' hp'
        · split
          · split
            · exact hweak
            · rw [← hlen]
              refine ih _ (pos + 1) ?_ hp'
              intro e he
              simp only [List.mem_cons] at he
              rcases he with rfl | he
              · simp
              · exact hst' e he
          · split
            · next p stack' hpop =>
              rw [← hlen]
              obtain ⟨⟨k, hk⟩, hsub⟩ := popThrough_some _ _ _ _ hpop
              refine ih _ (pos + 1) (fun e he => hst' e (hsub e he)) ?_
              intro q hq
              simp only [List.mem_append, List.mem_singleton] at hq
              rcases hq with hq | rfl
              · exact hp' q hq
              · have := hst _ hk; simp only at this ⊢; omega
            · rw [← hlen]; exact ih st (pos + 1) hst' hp'
      · rw [← hlen]; exact ih st (pos + 1) hst' hp'

theorem mem_spec_ins (p q : Nat × Nat) : ∀ qs : List (Nat × Nat),
    q ∈ Spec.bracketPairs.ins p qs ↔ q = p ∨ q ∈ qs
  | [] => by simp [Spec.bracketPairs.ins]
  | a :: qs => by
    simp only [Spec.bracketPairs.ins]
    split
    · simp
    · simp only [List.mem_cons, mem_spec_ins p q qs]
      constructor
      · rintro (h | h | h) <;> simp [h]
      · rintro (h | h | h) <;> simp [h]

/-- every pair the Spec's BD16 returns is `opener < closer < length` -/
theorem spec_bracketPairs_lt (ts : List BidiClass) (bs : List (Option Bracket)) :
    ∀ p ∈ Spec.bracketPairs ts bs, p.1 < p.2 ∧ p.2 < (ts.zip bs).length := by
  have hmem : ∀ (q : Nat × Nat) (ps acc : List (Nat × Nat)),
      q ∈ ps.foldl (fun acc p => Spec.bracketPairs.ins p acc) acc ↔ q ∈ ps ∨ q ∈ acc := by
    intro q ps
    induction ps with
    | nil => intro acc; simp
    | cons p ps ih =>
      intro acc
      simp only [List.foldl_cons, ih, mem_spec_ins, List.mem_cons]
      constructor
      · rintro (h | h | h) <;> simp [h]
      · rintro ((h | h) | h) <;> simp [h]
  intro p hp
  unfold Spec.bracketPairs at hp
  simp only [hmem, List.not_mem_nil, or_false] at hp
  have := spec_go_pairs_lt (ts.zip bs) {} 0 (by simp) (by simp) p hp
  simpa using this


/-- the characters of the sequence that BD16 looks at (not removed by X9) -/
def keptChars (t : Text) (seq : IRSeq) (ocs : Classes) : List (Nat × Seg) :=
  (seqChars t seq).filter (bpKeep ocs)

/-- **BD16 for any sequence** (several runs, multi-unit characters, removed characters
    skipped): if the kept characters' first units are strictly increasing, the crate's pairs are
    the Spec's pairs on the kept characters, a Spec position `k` standing for the first unit of
    the `k`-th kept character. -/
theorem stageBD16_seq (ds : DataSource) (t : Text) (seq : IRSeq) (ocs pcs : Classes)
    (hinc : ((keptChars t seq ocs).map (fun x => x.2.start)).Pairwise (· < ·)) :
    (identifyBracketPairs ds t seq ocs pcs).map (fun p => (p.start, p.stop)) =
      (Spec.bracketPairs ((keptChars t seq ocs).map (fun x => cget pcs x.2.start))
          ((keptChars t seq ocs).map (fun x => ds.brk x.2.cp))).map
        (fun p => (((keptChars t seq ocs).map (fun x => x.2.start)).getD p.1 0,
                   ((keptChars t seq ocs).map (fun x => x.2.start)).getD p.2 0)) := by
  have hgen := stageBD16_general ds t seq ocs pcs
    (extendStarts ((keptChars t seq ocs).map (fun x => x.2.start)))
    (extendStarts_mono _ hinc)
    (by
      have := extendStarts_map ((keptChars t seq ocs).map (fun x => x.2.start))
      simpa [keptChars] using this)
  rw [hgen]
  apply List.map_congr_left
  intro p hp
  have hlt := spec_bracketPairs_lt _ _ p hp
  simp only [List.length_zip, List.length_map, Nat.min_self] at hlt
  have h2 : p.2 < ((keptChars t seq ocs).map (fun x => x.2.start)).length := by
    simpa [keptChars] using hlt.2
  have h1 : p.1 < ((keptChars t seq ocs).map (fun x => x.2.start)).length := by omega
  simp only [sPair, extendStarts, h1, h2, if_true]

/-! the hypothesis of `stageBD16_seq` from the text and the run list -/

theorem segs_starts_lt : ∀ (segs : List Seg) (pos e : Nat), SegsFrom pos segs e →
    (∀ s ∈ segs, pos ≤ s.start) ∧ (segs.map (·.start)).Pairwise (· < ·)
  | [], _, _, _ => by simp
  | s :: ss, pos, e, h => by
    simp only [SegsFrom] at h
    have ih := segs_starts_lt ss (pos + s.len) e h.2.2
    refine ⟨?_, ?_⟩
    · intro x hx
      simp only [List.mem_cons] at hx
      rcases hx with rfl | hx
      · omega
      · have := ih.1 x hx; omega
    · simp only [List.map_cons, List.pairwise_cons, List.mem_map, forall_exists_index, and_imp,
        forall_apply_eq_imp_iff₂]
      exact ⟨fun x hx => by have := ih.1 x hx; omega, ih.2⟩

/-- for a well-formed text and runs listed in text order (each run ends where or before the
    next begins), the kept characters' starts are strictly increasing -/
theorem keptChars_starts_lt (t : Text) (hwf : t.WF) (seq : IRSeq) (ocs : Classes)
    (hruns : seq.runs.Pairwise (fun r1 r2 => r1.2 ≤ r2.1)) :
    ((keptChars t seq ocs).map (fun x => x.2.start)).Pairwise (· < ·) := by
  have hsegs := (segs_starts_lt t.segs 0 t.len hwf.tiles).2
  rw [List.pairwise_map] at hsegs ⊢
  unfold keptChars
  apply List.Pairwise.filter
  unfold seqChars
  rw [List.pairwise_flatMap]
  constructor
  · rintro ⟨r, k⟩ _
    simp only
    rw [List.pairwise_map]
    exact List.Pairwise.filter _ hsegs
  · have hz : seq.runs.zipIdx.Pairwise (fun a b => a.1.2 ≤ b.1.1) := by
      have h1 : seq.runs.zipIdx.map Prod.fst = seq.runs := by simp
      rw [← h1, List.pairwise_map] at hruns
      exact hruns
    refine List.Pairwise.imp ?_ hz
    rintro ⟨r1, k1⟩ ⟨r2, k2⟩ hr x hx y hy
    simp only [List.mem_map, List.mem_filter, Bool.and_eq_true, decide_eq_true_eq] at hx hy
    obtain ⟨s1, ⟨_, _, h1⟩, rfl⟩ := hx
    obtain ⟨s2, ⟨_, h2, _⟩, rfl⟩ := hy
    simp only at hr ⊢
    omega


/-! non-vacuity / test for `stageBD16_seq` -/

/-- "א(‪a)" in UTF-8: א is 2 units, U+202A (LRE, removed by X9) 3 units; the sequence is made
    of the two runs [0,6) and [6,8); the LRE in the first run is skipped -/
def exText2 : Text := Text.ofScalars [0x5D0, 0x28, 0x202A, 0x61, 0x29]
def exSeq2 : IRSeq := { runs := [(0, 6), (6, 8)], sos := R, eos := R }
def exOcs2 : Classes := [R, R, ON, LRE, LRE, LRE, L, ON]
def exPcs2 : Classes := [R, R, ON, BN, BN, BN, L, ON]

theorem exText2_wf : exText2.WF :=
  ⟨by simp [exText2, Text.ofScalars, Text.layout, Text.totalLen, SegsFrom, Enc.charLen, utf8Len], by decide⟩

/-- the hypothesis of `keptChars_starts_lt` / `stageBD16_seq` holds -/
example : exSeq2.runs.Pairwise (fun r1 r2 => r1.2 ≤ r2.1) := by decide
/-- test: the pair found is (unit 2, unit 7), spanning the two runs; the Spec finds (1, 3) among the
    four kept characters, whose first units are [0, 2, 6, 7] -/
example : (identifyBracketPairs hardcoded exText2 exSeq2 exOcs2 exPcs2) =
    [{ start := 2, stop := 7, startRun := 0, endRun := 1 }] := by decide +kernel
example : (keptChars exText2 exSeq2 exOcs2).map (fun x => x.2.start) = [0, 2, 6, 7] := by decide +kernel
example : Spec.bracketPairs ((keptChars exText2 exSeq2 exOcs2).map (fun x => cget exPcs2 x.2.start))
    ((keptChars exText2 exSeq2 exOcs2).map (fun x => hardcoded.brk x.2.cp)) = [(1, 3)] := by decide +kernel

end UBidi.Lemmas.C01Neutral
