/-
  UBidi.Lemmas.ExpandWeak — the Expand lemma for the weak-type stage:
  `resolveWeak` on a well-formed text `t` (per code unit, over the unit runs of
  a sequence of character runs) is the expansion of `resolveWeak` on
  `unitize t` (one unit per character).

  Files: ExpandWeakPos (positions, `expand` pointwise, relation `Rp`),
  ExpandWeakSeq (`SeqOK`, walks of `mapSeq`), ExpandWeakOps (`setWhileBN`,
  look-ahead), ExpandWeakStep (`weakStep` in parts), ExpandWeakSim (simulation of
  the main loop), this file (W7 pass, main theorems).
-/
import UBidi.Lemmas.ExpandWeakSim
namespace UBidi.Expand
namespace Weak
open UBidi UBidi.Expand BidiClass

/-! ### the W7 pass -/

def g7 (x : BidiClass) (b : Bool) : Bool :=
  match x with
  | L => true
  | R | AL => false
  | _ => b

theorem w7_noset {P : Classes} {u : Nat} {x : BidiClass} {b : Bool} (h : cget P u = x)
    (hne : ¬ (x = EN ∧ b = true)) : w7Step (P, b) u = (P, g7 x b) := by
  unfold w7Step
  simp only
  rw [h]
  cases x <;> first | rfl | (cases b <;> first | rfl | exact absurd ⟨rfl, rfl⟩ hne)

theorem w7_set {P : Classes} {u : Nat} (h : cget P u = EN) :
    w7Step (P, true) u = (P.set u L, true) := by
  unfold w7Step
  simp only
  rw [h]
  rfl

theorem g7_idem (x : BidiClass) (b : Bool) : g7 x (g7 x b) = g7 x b := by
  cases x <;> rfl

theorem w7_noset_fold {P : Classes} {x : BidiClass} : ∀ (us : List Nat) (b : Bool),
    (∀ u ∈ us, cget P u = x) → ¬ (x = EN ∧ b = true) →
    us.foldl w7Step (P, g7 x b) = (P, g7 x b)
  | [], _, _, _ => rfl
  | u :: us, b, h, hne => by
    have hne' : ¬ (x = EN ∧ g7 x b = true) := by
      rintro ⟨rfl, h2⟩; exact hne ⟨rfl, h2⟩
    rw [List.foldl_cons, w7_noset (h u List.mem_cons_self) hne', g7_idem]
    exact w7_noset_fold us b (fun u' hu' => h u' (List.mem_cons_of_mem _ hu')) hne

section
variable {t : Text} (hp : PosOK t)
include hp

omit hp in
theorem Rp_hole0 {P p : Classes} {k j : Nat} {c c' : BidiClass} (h : Rp t P p k j c)
    (hj : ulen t k ≤ j) (hc : cget p k = c') (v : BidiClass) : Rp t P (p.set k v) k 0 c' := by
  refine ⟨h.1, by rw [List.length_set]; exact h.2.1, ?_⟩
  intro k' j' hk' hj'
  rw [h.2.2 k' j' hk' hj', cget_set]
  have a1 : ¬ (k' = k ∧ j ≤ j') := by rintro ⟨rfl, h3⟩; omega
  rw [if_neg a1]
  by_cases e : k' = k
  · subst e; simp [hc]
  · have e' : ¬ k = k' := fun h => e h.symm
    simp [e, e']

theorem w7_set_fold {p : Classes} {k : Nat} (hk : k < t.segs.length) :
    ∀ (m j : Nat) (P : Classes), j + m = ulen t k → Rp t P (p.set k L) k j EN →
      ((List.range' (pos t k + j) m).foldl w7Step (P, true)).2 = true ∧
      Rp t ((List.range' (pos t k + j) m).foldl w7Step (P, true)).1 (p.set k L) k (ulen t k) EN
  | 0, j, P, hjm, h => by
    have : j = ulen t k := by omega
    subst this; exact ⟨rfl, h⟩
  | m + 1, j, P, hjm, h => by
    have hj : j < ulen t k := by omega
    rw [List.range'_succ, List.foldl_cons, w7_set (Rp_get_hole h hk hj (Nat.le_refl _))]
    have h1 := Rp_set_tail hp h hk hj
    have e : cget (p.set k L) k = L := by
      rw [cget_set]
      have : k < p.length := by have := h.2.1; rw [List.length_set] at this; omega
      simp [this]
    rw [e] at h1
    have := w7_set_fold hk m (j + 1) _ (by omega) h1
    rw [show pos t k + (j + 1) = pos t k + j + 1 by omega] at this
    exact this

theorem w7_char {P p : Classes} {k : Nat} {c : BidiClass} (hk : k < t.segs.length)
    (h : Rp t P p k (ulen t k) c) (b : Bool) :
    Rp t ((units t k).foldl w7Step (P, b)).1 (w7Step (p, b) k).1 k (ulen t k) c ∧
    ((units t k).foldl w7Step (P, b)).2 = (w7Step (p, b) k).2 := by
  have hk0 := hp.lpos k hk
  by_cases hc : cget p k = EN ∧ b = true
  · obtain ⟨hc, rfl⟩ := hc
    rw [w7_set hc]
    have h0 := Rp_hole0 h (Nat.le_refl _) hc L
    have := w7_set_fold hp hk (ulen t k) 0 P (by omega) h0
    simp only [Nat.add_zero] at this
    exact ⟨Rp_full_change this.2 (Nat.le_refl _) k _ c (Nat.le_refl _), this.1⟩
  · rw [w7_noset rfl hc]
    have hall : ∀ u ∈ units t k, cget P u = cget p k := by
      intro u hu
      obtain ⟨j', hj', rfl⟩ := mem_units.1 hu
      exact Rp_get h hk hj' (Or.inr hj')
    have hu : units t k = pos t k :: List.range' (pos t k + 1) (ulen t k - 1) := by
      unfold units
      have : ulen t k = (ulen t k - 1) + 1 := by omega
      rw [this, List.range'_succ]; simp
    rw [hu] at hall ⊢
    rw [List.foldl_cons, w7_noset (hall _ List.mem_cons_self) hc,
      w7_noset_fold _ b (fun u' hu' => hall u' (List.mem_cons_of_mem _ hu')) hc]
    exact ⟨h, rfl⟩

theorem w7_fold : ∀ (ks : List Nat) (X x : Classes × Bool), (∀ k ∈ ks, k < t.segs.length) →
    Rp t X.1 x.1 t.segs.length (ulen t t.segs.length) ON → X.2 = x.2 →
    Rp t ((ks.flatMap (units t)).foldl w7Step X).1 (ks.foldl w7Step x).1
      t.segs.length (ulen t t.segs.length) ON
  | [], _, _, _, h, _ => h
  | k :: ks, (P, b), (p, b'), hlt, h, hb => by
    simp only at h hb
    subst hb
    rw [List.flatMap_cons, List.foldl_append, List.foldl_cons]
    have hk := hlt k List.mem_cons_self
    have hc := w7_char hp hk (Rp_full_change h (Nat.le_refl _) k _ ON (Nat.le_refl _)) b
    exact w7_fold ks _ _ (fun k' hk' => hlt k' (List.mem_cons_of_mem _ hk'))
      (Rp_full_change hc.1 (Nat.le_refl _) _ _ ON (Nat.le_refl _)) hc.2

end

theorem mem_indices_lt {n : Nat} {seq : IRSeq} (h : SeqOK n seq) {k : Nat} (hk : k ∈ seq.indices) : k < n := by
  unfold IRSeq.indices at hk
  rw [List.mem_flatMap] at hk
  obtain ⟨r, hr, hk⟩ := hk
  rw [mem_runIndices] at hk
  have := (h.1 r hr).2
  omega

/-! ### `resolveWeak` only asks `charLenAt` at the positions of the sequence -/

theorem weakStep_congr (cl1 cl2 : Nat → Option Nat) (seq : IRSeq) (st : WState) (ri i : Nat)
    (h : cl1 i = cl2 i) : weakStep cl1 seq st (ri, i) = weakStep cl2 seq st (ri, i) := by
  rw [weakStep_eq, weakStep_eq]
  have : ∀ p4 p5 al et bn pcs c2, w456f cl1 seq p4 p5 al et bn pcs c2 ri i
      = w456f cl2 seq p4 p5 al et bn pcs c2 ri i := by
    intro p4 p5 al et bn pcs c2
    unfold w456f
    rw [h]
  rw [this]

theorem foldl_weakStep_congr (cl1 cl2 : Nat → Option Nat) (seq : IRSeq) :
    ∀ (l : List (Nat × Nat)) (st : WState), (∀ x ∈ l, cl1 x.2 = cl2 x.2) →
      l.foldl (weakStep cl1 seq) st = l.foldl (weakStep cl2 seq) st
  | [], _, _ => rfl
  | x :: l, st, h => by
    rw [List.foldl_cons, List.foldl_cons, weakStep_congr cl1 cl2 seq st x.1 x.2 (h x List.mem_cons_self)]
    exact foldl_weakStep_congr cl1 cl2 seq l _ (fun y hy => h y (List.mem_cons_of_mem _ hy))

theorem resolveWeak_congr (cl1 cl2 : Nat → Option Nat) (seq : IRSeq) (pcs : Classes)
    (h : ∀ i ∈ seq.indices, cl1 i = cl2 i) : resolveWeak cl1 seq pcs = resolveWeak cl2 seq pcs := by
  unfold resolveWeak
  simp only
  rw [foldl_weakStep_congr cl1 cl2 seq seq.indexed _ (fun x hx => h x.2 (by
    rw [← indexed_map_snd]; exact List.mem_map_of_mem hx))]

theorem unitize_charLen_aux (f : Seg × Nat → Seg) (hf : ∀ s k, (f (s, k)).start = k ∧ (f (s, k)).len = 1) :
    ∀ (l : List Seg) (off i : Nat), off ≤ i → i < off + l.length →
      (((l.zipIdx off).map f).find? (fun s => s.start == i)).map (·.len) = some 1
  | [], off, i, h1, h2 => by simp at h2; omega
  | s :: l, off, i, h1, h2 => by
    rw [List.zipIdx_cons, List.map_cons, List.find?_cons]
    by_cases e : off = i
    · subst e; simp [hf]
    · have : ((f (s, off)).start == i) = false := by simp [hf, e]
      rw [this]
      exact unitize_charLen_aux f hf l (off + 1) i (by omega) (by simp at h2; omega)

theorem unitize_charLen (t : Text) {i : Nat} (h : i < t.segs.length) :
    ((unitize t).charAt i).map (·.len) = some 1 := by
  unfold Text.charAt unitize
  simp only
  exact unitize_charLen_aux _ (fun s k => ⟨rfl, rfl⟩) t.segs 0 i (Nat.zero_le _) (by omega)

end Weak

open UBidi BidiClass Weak

/-- **Expand lemma, weak-type stage.**  On a well-formed text, `resolve_weak` run per code
    unit over the unit runs of a sequence of character runs gives, at every unit of every
    character, what `resolve_weak` gives for that character when every character occupies
    one unit. -/
theorem weak_expand (t : Text) (hwf : t.WF) (seq : IRSeq) (hseq : SeqOK t.segs.length seq)
    (pcs1 : List BidiClass) (hl : pcs1.length = t.segs.length) :
    resolveWeak (fun i => (t.charAt i).map (·.len)) (mapSeq t seq) (expand t pcs1)
      = expand t (resolveWeak (fun _ => some 1) seq pcs1) := by
  have hp := posOK_of_wf hwf
  unfold resolveWeak
  simp only
  rw [indexed_mapSeq hp hseq, indices_mapSeq hp hseq]
  have h0 : RS t { pcs := expand t pcs1, prevW4 := (mapSeq t seq).sos, prevW5 := (mapSeq t seq).sos,
                   prevW1 := (mapSeq t seq).sos }
      { pcs := pcs1, prevW4 := seq.sos, prevW5 := seq.sos, prevW1 := seq.sos }
      t.segs.length (ulen t t.segs.length) ON :=
    ⟨Rp_expand hwf pcs1 hl _ _ ON (Nat.le_refl _), rfl, rfl, rfl, rfl, rfl, rfl⟩
  obtain ⟨hRS, hlt⟩ := main_fold hp hseq rfl seq.indexed _ _ (fun x hx => mem_indexed.1 hx)
    (indexed_pairwise hseq) h0 (by intro e he; cases he)
  have hE := hRS.et
  rw [unitsT_full_fun] at hE
  rw [hE]
  have hA := Rp_setAll hp hRS.pcs _ (fun hm => by
    have := hlt _ (List.mem_append_left _ hm); omega) ON
  have h7 := w7_fold hp seq.indices (_, (mapSeq t seq).sos == L) (_, seq.sos == L)
    (fun k hk => mem_indices_lt hseq hk) hA rfl
  exact Rp_eq_expand hp hwf h7 (Nat.le_refl _)

/-- the same, with the character-level run written with `unitize t`'s own `charAt` -/
theorem weak_expand_unitize (t : Text) (hwf : t.WF) (seq : IRSeq) (hseq : SeqOK t.segs.length seq)
    (pcs1 : List BidiClass) (hl : pcs1.length = t.segs.length) :
    resolveWeak (fun i => (t.charAt i).map (·.len)) (mapSeq t seq) (expand t pcs1)
      = expand t (resolveWeak (fun i => ((unitize t).charAt i).map (·.len)) seq pcs1) := by
  rw [weak_expand t hwf seq hseq pcs1 hl]
  congr 1
  apply resolveWeak_congr
  intro i hi
  rw [unitize_charLen t (mem_indices_lt hseq hi)]

/-- non-vacuity: a text with characters of 1, 3, 2, 4, 1 units, a two-run sequence, a class list -/
example :
    (Text.ofScalars [0x41, 0x800, 0x80, 0x10000, 0x42]).WF ∧
    SeqOK (Text.ofScalars [0x41, 0x800, 0x80, 0x10000, 0x42]).segs.length
      { runs := [(0, 2), (3, 5)], sos := L, eos := R } ∧
    [EN, ES, AL, BN, ET].length = (Text.ofScalars [0x41, 0x800, 0x80, 0x10000, 0x42]).segs.length := by
  refine ⟨⟨by simp [Text.ofScalars, Text.layout, SegsFrom, Enc.charLen, utf8Len, Text.totalLen], by decide⟩,
    ⟨by decide, by decide⟩, rfl⟩

end UBidi.Expand
