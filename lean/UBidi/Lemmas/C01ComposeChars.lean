/-
  C01 / composition, layers 2 and 3.
  * `paraLevels_unit_flags` — a single-unit paragraph with the flags the crate passes: the general
    branch, the fast path without isolate initiators, and the pure-LTR shortcut.
  * `paraLevels_chars` — any well-formed text (characters of several code units): the per-unit levels
    are the expansion of UAX #9's per-character levels; `paraLevels_chars_contract` reads them at the
    character starts.
-/
import UBidi.Lemmas.C01ComposeLevels
import UBidi.Lemmas.C01SeqUnitize
namespace UBidi.Lemmas.C01Compose
open UBidi UBidi.BidiClass UBidi.Lemmas.C01Seq UBidi.Lemmas.C01Neutral UBidi.Lemmas.C01Pure UBidi.Expand

/-- **Layer 2**: a paragraph of single-unit characters with the flags of `compute_initial_info`
    (`pure` may only be set when every class is one that leaves `is_pure_ltr` set;
    `has_isolate_controls` = "some class is an isolate initiator") -/
theorem paraLevels_unit_flags {ds : DataSource} {t : Text} {n pl : Nat} {chars : List Spec.Ch}
    (hweak : WeakInv ds) (c : Ctx ds t n pl chars) (pure : Bool)
    (hpure : pure = true → ∀ ch ∈ chars, pureClass ch.cls = true) :
    paraLevels ds pl pure ((chars.map (·.cls)).any isIsolateInitiator) t (chars.map (·.cls)) =
      (Spec.paragraphLevels pl chars, none) := by
  cases hp : (pl == 0 && pure) with
  | false => exact paraLevels_unit hweak c pure hp
  | true =>
    simp only [Bool.and_eq_true, beq_iff_eq] at hp
    obtain ⟨rfl, rfl⟩ := hp
    simp only [paraLevels, beq_self_eq_true, Bool.and_self, if_true]
    rw [pure_ltr_levels chars (hpure rfl), c.hu.len, c.hlen]

/-- the characters of a text as the Spec sees them: class read at the character's first unit,
    bracket property from the data source -/
def charsOf (ds : DataSource) (t : Text) (ocs : Classes) : List Spec.Ch :=
  t.segs.map (fun s => { cls := ocs.getD s.start ON, brk := ds.brk s.cp })

theorem charsOf_cls (ds : DataSource) (t : Text) (ocs : Classes) :
    (charsOf ds t ocs).map (·.cls) = contract t ocs ON := by
  simp only [charsOf, contract, List.map_map]
  rfl

theorem unitize_cps_aux (f : Nat → Option Bracket) : ∀ (l : List Seg) (k : Nat),
    ((l.zipIdx k).map (fun (p : Seg × Nat) => ({ start := p.2, cp := p.1.cp, len := 1 } : Seg))).map
      (fun s => f s.cp) = l.map (fun s => f s.cp)
  | [], _ => rfl
  | a :: l, k => by
    simp only [List.zipIdx_cons, List.map_cons]
    rw [unitize_cps_aux f l (k + 1)]

theorem charsOf_brk (ds : DataSource) (t : Text) (ocs : Classes) :
    (charsOf ds t ocs).map (·.brk) = (unitize t).segs.map (fun s => ds.brk s.cp) := by
  have := unitize_cps_aux ds.brk t.segs 0
  simp only [unitize]
  rw [this]
  simp only [charsOf, List.map_map]
  rfl

/-- the per-character view of a well-formed text meets the hypotheses of layer 1 -/
theorem charsCtx (ds : DataSource) (t : Text) (pl : Nat) (hpl : pl ≤ 1) (ocs : Classes)
    (hB : NoInnerB (contract t ocs ON)) :
    Ctx ds (unitize t) t.segs.length pl (charsOf ds t ocs) :=
  { hu := unitText_unitize t
    hpl := hpl
    hlen := by simp [charsOf]
    hB := by rw [charsOf_cls]; exact hB
    hbrk := charsOf_brk ds t ocs }

/-- the per-character levels of the single-unit version of the text -/
theorem paraLevels_unitize {ds : DataSource} (hweak : WeakInv ds) (t : Text) (pl : Nat) (hpl : pl ≤ 1)
    (ocs : Classes) (hB : NoInnerB (contract t ocs ON))
    (pure : Bool) (hpure : pure = true → ∀ x ∈ contract t ocs ON, pureClass x = true) :
    paraLevels ds pl pure ((contract t ocs ON).any isIsolateInitiator) (unitize t) (contract t ocs ON) =
      (Spec.paragraphLevels pl (charsOf ds t ocs), none) := by
  have h := paraLevels_unit_flags hweak (charsCtx ds t pl hpl ocs hB) pure (by
    intro hp ch hch
    apply hpure hp
    rw [← charsOf_cls ds t ocs]
    exact List.mem_map_of_mem hch)
  rw [charsOf_cls] at h
  exact h

/-- UAX #9 assigns one level per character -/
theorem specLevels_length {ds : DataSource} (hweak : WeakInv ds) (t : Text) (pl : Nat) (hpl : pl ≤ 1)
    (ocs : Classes) (hB : NoInnerB (contract t ocs ON)) :
    (Spec.paragraphLevels pl (charsOf ds t ocs)).length = t.segs.length := by
  have h2 := paraLevels_unitize hweak t pl hpl ocs hB false (by intro h; cases h)
  have h3 := Props.C01.Base.paraLevels_length ds pl false ((contract t ocs ON).any isIsolateInitiator)
    (unitize t) (unitize_wf t) (contract t ocs ON)
  rw [h2] at h3
  exact h3

/-- **Layer 3**: any well-formed text.  `ocs` are the paragraph's per-unit classes (uniform within
    characters), `pl ≤ 1`; a paragraph separator only as the last character; `pure` only for pure-LTR class lists.  The per-unit levels are the expansion of the
    levels UAX #9 assigns to the characters, and nothing panics. -/
theorem paraLevels_chars {ds : DataSource} (hweak : WeakInv ds) (t : Text) (hwf : t.WF) (pl : Nat) (hpl : pl ≤ 1)
    (ocs : Classes) (hlen : ocs.length = t.len) (hu : UniformOn t ocs)
    (hB : NoInnerB (contract t ocs ON))
    (pure : Bool) (hpure : pure = true → ∀ x ∈ contract t ocs ON, pureClass x = true) :
    paraLevels ds pl pure ((contract t ocs ON).any isIsolateInitiator) t ocs =
      (expand t (Spec.paragraphLevels pl (charsOf ds t ocs)), none) := by
  rw [paraLevels_expand ds pl pure _ t hwf ocs hlen hu,
    paraLevels_unitize hweak t pl hpl ocs hB pure hpure]

/-- … read at the character starts -/
theorem paraLevels_chars_contract {ds : DataSource} (hweak : WeakInv ds) (t : Text) (hwf : t.WF) (pl : Nat)
    (hpl : pl ≤ 1) (ocs : Classes) (hlen : ocs.length = t.len) (hu : UniformOn t ocs)
    (hB : NoInnerB (contract t ocs ON))
    (pure : Bool) (hpure : pure = true → ∀ x ∈ contract t ocs ON, pureClass x = true) :
    contract t (paraLevels ds pl pure ((contract t ocs ON).any isIsolateInitiator) t ocs).1 0 =
      Spec.paragraphLevels pl (charsOf ds t ocs) := by
  rw [paraLevels_chars hweak t hwf pl hpl ocs hlen hu hB pure hpure]
  exact contract_expand t hwf _ 0 (specLevels_length hweak t pl hpl ocs hB)

end UBidi.Lemmas.C01Compose
