/-
  C07 helpers, part 4: the stored levels are ≤ 126 and there is one per code unit — the
  preconditions of the line queries, for both analysis types.
-/
import UBidi.Lemmas.C01Base
import UBidi.Lemmas.C10Slice
import UBidi.Props.C11
namespace UBidi.Lemmas.C07
open UBidi UBidi.BidiClass

theorem fillLoop_le (M : Nat) : ∀ (lv : List Nat) (prev : Nat) (ocs : List BidiClass), prev ≤ M →
    (∀ l ∈ lv, l ≤ M) → ∀ l ∈ fillRemovedLoop prev ocs lv, l ≤ M
  | [], _, ocs, _, _ => by cases ocs <;> simp [fillRemovedLoop]
  | l0 :: ls, prev, [], _, h => by simpa [fillRemovedLoop] using h
  | l0 :: ls, prev, c :: cs, hp, h => by
    have h0 : l0 ≤ M := h l0 (by simp)
    have hl' : (if c.removedByX9 then prev else l0) ≤ M := by split <;> assumption
    intro l hl
    simp only [fillRemovedLoop, List.mem_cons] at hl
    rcases hl with rfl | hl
    · exact hl'
    · exact fillLoop_le M ls _ cs hl' (fun x hx => h x (by simp [hx])) l hl

/-- every level of a paragraph is a valid `Level` (≤ 126) -/
theorem paraLevels_le_126 (ds : DataSource) (pl : Nat) (hpl : pl ≤ 1) (pure hasIso : Bool) (t : Text)
    (hwf : t.WF) (ocs : List BidiClass) : ∀ l ∈ (paraLevels ds pl pure hasIso t ocs).1, l ≤ 126 := by
  unfold paraLevels
  split
  · intro l hl
    have := List.eq_of_mem_replicate hl
    omega
  · have hl125 : ∀ l ∈ (explicitCompute t pl ocs).levels, l ≤ 125 :=
      fun l hl => (Props.C11.C11_explicit_le_125 t pl hpl ocs l hl).2
    obtain ⟨hL, hP⟩ := Props.C11.C11_explicit_length t hwf pl ocs
    have hrl := (Props.C11.C11_resolved_le_126
      (resolveSequences ds t (explicitCompute t pl ocs).levels ocs
        (isolatingRunSequences pl ocs (explicitCompute t pl ocs).levels (explicitCompute t pl ocs).runs hasIso).1
        (explicitCompute t pl ocs).pcs).1
      (explicitCompute t pl ocs).levels hl125
      (by rw [Props.C01.Base.resolveSequences_length, hP, hL])).1
    exact fillLoop_le 126 _ pl ocs (by omega) hrl

open UBidi.Lemmas.C10 in
/-- the paragraph loop of `BidiInfo::new`: the level vector ends with one entry per code unit, all ≤ 126 -/
theorem bidi_fold_levels (ds : DataSource) (t : Text) (d : Option Nat) (classes : List BidiClass)
    (err : Option Panic) (e : Nat) (P : List ParaInfo) (F : List Flags) (pos : Nat)
    (h : ParasFrom (GoodPara ds t d classes err) pos P F e) (hlv : ∀ p ∈ P, p.level ≤ 1)
    (acc : List Nat × Option Panic) (hacc : acc.1.length = pos) (hle : ∀ l ∈ acc.1, l ≤ 126) :
    ((P.zip F).foldl (bstep ds t classes) acc).1.length = e ∧
    ∀ l ∈ ((P.zip F).foldl (bstep ds t classes) acc).1, l ≤ 126 := by
  induction P generalizing pos F acc with
  | nil =>
    cases F with
    | nil => simp only [ParasFrom] at h; subst h; exact ⟨hacc, hle⟩
    | cons g gs => simp [ParasFrom] at h
  | cons q qs ih =>
    cases F with
    | nil => simp [ParasFrom] at h
    | cons g gs =>
      obtain ⟨h1, h2, h3, h4⟩ := h
      have hlen : (paraLevels ds q.level g.pureLtr g.hasIso (t.subrange q.start q.stop)
          (slice classes q.start q.stop)).1.length = q.stop - q.start := by
        rw [UBidi.Props.C01.Base.paraLevels_length ds _ _ _ _ h3.1]; rfl
      simp only [List.zip_cons_cons, List.foldl_cons]
      apply ih (pos := q.stop) (F := gs) h4 (fun p hp => hlv p (by simp [hp]))
      · simp only [bstep, List.length_append, hlen, hacc]; omega
      · intro l hl
        simp only [bstep, List.mem_append] at hl
        rcases hl with hl | hl
        · exact hle l hl
        · exact paraLevels_le_126 ds q.level (hlv q (by simp)) _ _ _ h3.1 _ l hl

end UBidi.Lemmas.C07
