/-
  C01 / composition: the residual hypothesis `WeakInv` of the composition theorems holds for every
  data source (`weakInv`), by `weak_stageN_hyps` (files `C01WeakInv*`).
-/
import UBidi.Lemmas.C01ComposeDefs
import UBidi.Lemmas.C01WeakInv
namespace UBidi.Lemmas.C01Compose
open UBidi UBidi.BidiClass UBidi.Lemmas.C01Neutral UBidi.Lemmas.C01Weak

/-- whatever the explicit stage hands over, the weak stage's output meets the hypotheses of the neutral
    stage's lemma -/
theorem weakInv (ds : DataSource) : WeakInv ds := by
  intro t seq ocs pcs0 S
  exact weak_stageN_hyps ds t S.wf S.unit seq S.bound S.sos S.eos ocs pcs0 S.runs S.rem S.kept S.ov

end UBidi.Lemmas.C01Compose
