/-
  C16 — the depth-counter scan of `get_base_direction_impl` against BD9 matching and P2,
  paragraph by paragraph.
-/
import UBidi.Lemmas.C16Defs
namespace UBidi.Props.C16
open UBidi BidiClass

instance : LawfulBEq BidiClass where
  eq_of_beq := by intro a b; cases a <;> cases b <;> decide
  rfl := by intro a; cases a <;> rfl

/-- `baseDirLoop` on classes instead of scalar values -/
def dirLoop (full : Bool) : Nat → List BidiClass → Direction
  | _, [] => .mixed
  | depth, c :: cs =>
    match c with
    | LRI | RLI | FSI => dirLoop full (depth + 1) cs
    | PDI => dirLoop full (depth - 1) cs
    | L => if depth = 0 then .ltr else dirLoop full depth cs
    | R | AL => if depth = 0 then .rtl else dirLoop full depth cs
    | B => if full then dirLoop full 0 cs else .mixed
    | _ => dirLoop full depth cs

theorem baseDirLoop_eq (ds : DataSource) (full : Bool) (d : Nat) (cps : List Nat) :
    baseDirLoop ds full d cps = dirLoop full d (cps.map ds.cls) := by
  induction cps generalizing d with
  | nil => rfl
  | cons c cs ih =>
    simp only [baseDirLoop, List.map_cons, dirLoop]
    cases h : ds.cls c <;> simp [ih]
    all_goals (try (split <;> first | rfl | (congr 1; omega)))

theorem baseDirection_eq (ds : DataSource) (t : Text) (full : Bool) :
    baseDirection ds t full = dirLoop full 0 (rawClasses ds t) := by
  simp [baseDirection, baseDirLoop_eq, rawClasses, List.map_map, Function.comp_def]


theorem matchingPDI_pos (cs : List BidiClass) (n pos : Nat) :
    Spec.matchingPDI cs n pos = (Spec.matchingPDI cs n 0).map (· + pos) := by
  induction cs generalizing n pos with
  | nil => simp [Spec.matchingPDI]
  | cons c cs ih =>
    have e1 : ∀ m, Spec.matchingPDI cs m (pos + 1) = (Spec.matchingPDI cs m 0).map (· + (pos + 1)) :=
      fun m => ih m (pos + 1)
    have e2 : ∀ m, Spec.matchingPDI cs m (0 + 1) = (Spec.matchingPDI cs m 0).map (· + 1) :=
      fun m => ih m 1
    have e3 : ∀ (o : Option Nat), (o.map (· + 1)).map (· + pos) = o.map (· + (pos + 1)) := by
      intro o; cases o <;> simp; omega
    unfold Spec.matchingPDI
    simp only [e1, e2]
    split
    · rfl
    · split
      · simp [e3]
      · split
        · split <;> simp [e3]
        · simp [e3]

theorem matchingPDI_cons (c : BidiClass) (cs : List BidiClass) (n : Nat) :
    Spec.matchingPDI (c :: cs) n 0 =
      if c = B then none
      else if Spec.isIsoInit c then (Spec.matchingPDI cs (n + 1) 0).map (· + 1)
      else if c = PDI then (if n = 0 then some 0 else (Spec.matchingPDI cs (n - 1) 0).map (· + 1))
      else (Spec.matchingPDI cs n 0).map (· + 1) := by
  rw [Spec.matchingPDI]
  simp only [matchingPDI_pos cs _ (0 + 1), beq_iff_eq, Nat.zero_add]

/-- the counter while inside an isolate: up to the matching PDI nothing is reported -/
theorem dirLoop_skip_some (full : Bool) (cs : List BidiClass) (n d k : Nat)
    (h : Spec.matchingPDI cs n 0 = some k) :
    dirLoop full (d + n + 1) cs = dirLoop full d (cs.drop (k + 1)) := by
  induction cs generalizing n k with
  | nil => simp [Spec.matchingPDI] at h
  | cons c cs ih =>
    rw [matchingPDI_cons] at h
    cases c <;> simp [Spec.isIsoInit] at h
    case PDI =>
      by_cases hn : n = 0
      · subst hn; simp at h; subst h; simp [dirLoop]
      · simp [hn] at h
        obtain ⟨a, ha, rfl⟩ := h
        have := ih (n - 1) a ha
        have e : d + (n - 1) + 1 = d + n + 1 - 1 := by omega
        simpa [dirLoop, e] using this
    all_goals
      obtain ⟨a, ha, rfl⟩ := h
      have := ih _ a ha
      simpa [dirLoop, Nat.add_assoc] using this

/-- … and when there is no matching PDI nothing is reported up to the end of the paragraph -/
theorem dirLoop_skip_none (cs : List BidiClass) (n d : Nat)
    (h : Spec.matchingPDI cs n 0 = none) :
    dirLoop false (d + n + 1) cs = .mixed := by
  induction cs generalizing n with
  | nil => rfl
  | cons c cs ih =>
    rw [matchingPDI_cons] at h
    cases c <;> simp [Spec.isIsoInit] at h
    case PDI =>
      have hn : n ≠ 0 := by intro hn; simp [hn] at h
      simp [hn] at h
      have := ih (n - 1) h
      have e : d + (n - 1) + 1 = d + n + 1 - 1 := by omega
      simpa [dirLoop, e] using this
    case B => simp [dirLoop]
    all_goals
      have := ih _ h
      simpa [dirLoop, Nat.add_assoc] using this


/-- a B can only be the last element (the shape of a paragraph) -/
def OnlyFinalB : List BidiClass → Prop
  | [] => True
  | c :: cs => (c = B → cs = []) ∧ OnlyFinalB cs

theorem OnlyFinalB.drop {cs : List BidiClass} (h : OnlyFinalB cs) (k : Nat) : OnlyFinalB (cs.drop k) := by
  induction k generalizing cs with
  | zero => simpa using h
  | succ k ih =>
    cases cs with
    | nil => simpa using h
    | cons c cs => simpa using ih h.2

def toDir : Option BidiClass → Direction
  | some .L => .ltr
  | some _ => .rtl
  | none => .mixed

theorem firstStrong_nil (fuel : Nat) : Spec.firstStrong fuel [] = none := by
  cases fuel <;> rfl

/-- P2 (with BD9 matching) on a paragraph is the depth-counter scan -/
theorem firstStrong_eq_dirLoop (fuel : Nat) (p : List BidiClass) (hf : p.length < fuel)
    (hp : OnlyFinalB p) : toDir (Spec.firstStrong fuel p) = dirLoop false 0 p := by
  induction fuel generalizing p with
  | zero => omega
  | succ fuel ih =>
    cases p with
    | nil => rfl
    | cons c cs =>
      have hl : cs.length < fuel := by simpa using hf
      have ih0 := ih cs hl hp.2
      rw [Spec.firstStrong]
      have iso : (match Spec.matchingPDI cs 0 0 with
            | some k => toDir (Spec.firstStrong fuel (cs.drop (k + 1)))
            | none => toDir none) = dirLoop false 1 cs := by
        cases hm : Spec.matchingPDI cs 0 0 with
        | none => simpa [toDir] using (dirLoop_skip_none cs 0 0 hm).symm
        | some k =>
          have := dirLoop_skip_some false cs 0 0 k hm
          simp only [Nat.add_zero, Nat.zero_add] at this
          rw [this]
          exact ih _ (by simp; omega) (hp.2.drop _)
      cases c <;> simp [Spec.isStrong, Spec.isIsoInit, dirLoop, ih0]
      case B => simp [hp.1 rfl, dirLoop]
      case L | R | AL => rfl
      all_goals
        rw [← iso]; split <;> simp [*]


theorem p2Dir_eq_dirLoop (p : List BidiClass) (hp : OnlyFinalB p) : p2Dir p = dirLoop false 0 p :=
  firstStrong_eq_dirLoop (p.length + 1) p (by omega) hp

/-! ### paragraphs -/

theorem paragraphsOf_eq_nil {cs : List BidiClass} : paragraphsOf cs = [] ↔ cs = [] := by
  cases cs with
  | nil => simp [paragraphsOf]
  | cons c cs =>
    simp only [paragraphsOf]
    split
    · simp
    · split <;> simp

theorem paragraphsOf_onlyFinalB (cs : List BidiClass) : ∀ p ∈ paragraphsOf cs, OnlyFinalB p := by
  induction cs with
  | nil => simp [paragraphsOf]
  | cons c cs ih =>
    simp only [paragraphsOf]
    split
    · intro p hp
      simp at hp
      rcases hp with rfl | hp
      · simp [OnlyFinalB]
      · exact ih p hp
    · rename_i hc
      split
      · simp [OnlyFinalB, hc]
      · rename_i p ps he
        rw [he] at ih
        intro q hq
        simp at hq
        rcases hq with rfl | hq
        · exact ⟨fun h => absurd h hc, ih p (by simp)⟩
        · exact ih q (by simp [hq])

/-- the non-full scan only looks at the first paragraph -/
theorem dirLoop_false_head (d : Nat) (cs : List BidiClass) :
    dirLoop false d cs = ((paragraphsOf cs).head?.map (dirLoop false d)).getD .mixed := by
  induction cs generalizing d with
  | nil => rfl
  | cons c cs ih =>
    simp only [paragraphsOf]
    split
    · subst c; simp [dirLoop]
    · rename_i hc
      split
      · rename_i he
        rw [paragraphsOf_eq_nil.1 he]; simp
      · rename_i p ps he
        have ih' : ∀ d, dirLoop false d cs = dirLoop false d p := by
          intro d; rw [ih d, he]; simp
        cases c <;> simp [dirLoop, ih'] at hc ⊢

/-- directions of the paragraphs when the scan enters the first one with depth `d` -/
def parasDirs (d : Nat) : List (List BidiClass) → List Direction
  | [] => []
  | p :: ps => dirLoop false d p :: ps.map (dirLoop false 0)

theorem parasDirs_zero (ps : List (List BidiClass)) : parasDirs 0 ps = ps.map (dirLoop false 0) := by
  cases ps <;> rfl

theorem paragraphsOf_cons_B (cs : List BidiClass) : paragraphsOf (B :: cs) = [B] :: paragraphsOf cs := by
  simp [paragraphsOf]

theorem paragraphsOf_cons_ne_nil {c : BidiClass} (hc : c ≠ B) {cs : List BidiClass}
    (he : paragraphsOf cs = []) : paragraphsOf (c :: cs) = [[c]] := by
  simp [paragraphsOf, hc, he]

theorem paragraphsOf_cons_ne_cons {c : BidiClass} (hc : c ≠ B) {cs p : List BidiClass}
    {ps : List (List BidiClass)} (he : paragraphsOf cs = p :: ps) :
    paragraphsOf (c :: cs) = (c :: p) :: ps := by
  simp [paragraphsOf, hc, he]

/-- the full scan: first paragraph that reports a direction -/
theorem dirLoop_true_find (d : Nat) (cs : List BidiClass) :
    dirLoop true d cs =
      ((parasDirs d (paragraphsOf cs)).find? (· != Direction.mixed)).getD .mixed := by
  induction cs generalizing d with
  | nil => rfl
  | cons c cs ih =>
    by_cases hc : c = B
    · subst c
      have hB : dirLoop false d [B] = .mixed := by simp [dirLoop]
      rw [paragraphsOf_cons_B, parasDirs, ← parasDirs_zero, List.find?_cons, hB]
      simp only [bne_self_eq_false]
      rw [← ih 0]
      simp [dirLoop]
    · cases he : paragraphsOf cs with
      | nil =>
        rw [paragraphsOf_cons_ne_nil hc he, paragraphsOf_eq_nil.1 he]
        cases c <;> simp [dirLoop, parasDirs] at hc ⊢ <;> split <;> simp
      | cons p ps =>
        rw [paragraphsOf_cons_ne_cons hc he]
        have ih' : ∀ d, dirLoop true d cs =
            ((dirLoop false d p :: ps.map (dirLoop false 0)).find? (· != Direction.mixed)).getD .mixed := by
          intro d; rw [ih d, he]; rfl
        cases c <;> simp [dirLoop, parasDirs, ih'] at hc ⊢ <;> split <;> simp

end UBidi.Props.C16
