/-
  UBidi.Lemmas.C01WeakU — StageW layer 4, part 1: one loop iteration of
  `resolve_weak` for an arbitrary `char_at` (multi-unit characters) on a single
  level run, the loop over the further units of a character (`repeatF`,
  `repeatP`), over BN units and over units overwritten with ON.
-/
import UBidi.Lemmas.C01WeakSeq
namespace UBidi.Lemmas.C01Weak
open UBidi UBidi.Spec BidiClass

section stepU
variable (cl : Nat → Option Nat) (n : Nat) (sos eos : BidiClass) (st : WState) (A : List BidiClass) (c : BidiClass)
  (cs : List BidiClass)

theorem weakStepU_nonBN (hp : st.pcs = A ++ c :: cs) (hc : c ≠ BN) :
    weakStep cl (seq1 n sos eos) st (0, A.length) =
      stepFin A.length (sC1 st.prevW1 c) (sC2 st.lastStrongIsAL (sC1 st.prevW1 c))
          (sAL st.lastStrongIsAL (sC1 st.prevW1 c))
          (stepW456 cl (seq1 n sos eos) st 0 A.length (sC2 st.lastStrongIsAL (sC1 st.prevW1 c))
            (sAL st.lastStrongIsAL (sC1 st.prevW1 c))) := by
  have hcg : cget st.pcs A.length = c := by rw [hp]; exact cget_append_cons ..
  have hbn : (c == BN) = false := by simp [hc]
  rw [weakStep_eq, hcg, hbn]
  rfl

theorem weakStepU_BN (hp : st.pcs = A ++ BN :: cs) :
    weakStep cl (seq1 n sos eos) st (0, A.length) = { st with bnRun := st.bnRun ++ [A.length] } := by
  have hcg : cget st.pcs A.length = BN := by rw [hp]; exact cget_append_cons ..
  rw [weakStep_eq, hcg]
  rfl

theorem stepW456U_EN (hp : st.pcs = A ++ c :: cs) (al' : Bool) :
    stepW456 cl (seq1 n sos eos) st 0 A.length EN al' = (setAll (A ++ EN :: cs) st.etRun EN, []) := by
  simp [stepW456, hp]

theorem stepW456U_ET_EN (hp : st.pcs = A ++ c :: cs) (al' : Bool) (h5 : st.prevW5 = EN) :
    stepW456 cl (seq1 n sos eos) st 0 A.length ET al' = (A ++ EN :: cs, st.etRun) := by
  simp [stepW456, hp, h5]

theorem stepW456U_ET_pend (hp : st.pcs = A ++ c :: cs) (al' : Bool) (h5 : st.prevW5 ≠ EN) :
    stepW456 cl (seq1 n sos eos) st 0 A.length ET al' =
      (A ++ ET :: cs, st.etRun ++ st.bnRun ++ [A.length]) := by
  simp only [stepW456, hp, set_append_cons]

theorem stepW456U_other (hp : st.pcs = A ++ c :: cs) (al' : Bool) (c2 : BidiClass)
    (h : c2 ≠ EN ∧ c2 ≠ ES ∧ c2 ≠ CS ∧ c2 ≠ ET) :
    stepW456 cl (seq1 n sos eos) st 0 A.length c2 al' = (A ++ c2 :: cs, st.etRun) := by
  cases c2 <;> simp_all [stepW456]

/-- a separator at the first unit of a character of `mid.length + 1` units -/
theorem stepW456U_sep_some (mid rest : List BidiClass) (hp : st.pcs = A ++ c :: (mid ++ rest))
    (hn : n = A.length + 1 + mid.length + rest.length) (hcl : cl A.length = some (mid.length + 1))
    (al' : Bool) (c2 : BidiClass) (h : c2 = ES ∨ c2 = CS) :
    stepW456 cl (seq1 n sos eos) st 0 A.length c2 al' =
      (if sC3 st.prevW4 c2 (nextR al' eos rest) = ON then bnSuf ON A ++ ON :: (mid ++ bnPre ON rest)
        else A ++ sC3 st.prevW4 c2 (nextR al' eos rest) :: (mid ++ rest), st.etRun) := by
  have hf : (seq1 n sos eos).iterForwardsFrom (A.length + (mid.length + 1)) 0
      = List.range' (A ++ c2 :: mid).length rest.length := by
    rw [iterFwd_seq1]; simp; omega
  have hm : List.map (cget (A ++ c2 :: (mid ++ rest))) (List.range' (A ++ c2 :: mid).length rest.length) = rest := by
    have := map_cget_range (A ++ c2 :: mid) rest
    simpa using this
  have hnx : (if ((List.find? notRemoved rest).getD eos == EN && al') = true then AN
      else (List.find? notRemoved rest).getD eos) = nextR al' eos rest := by
    simp [nextR, nextCls, List.head?_filter]
  have key : ∀ c3 : BidiClass, (if (c3 == ON) = true then
      (setWhileBN (setWhileBN (A ++ c3 :: (mid ++ rest)) (List.range' 0 A.length).reverse ON)
          (List.range' (A ++ c2 :: mid).length rest.length) ON, st.etRun)
      else (A ++ c3 :: (mid ++ rest), st.etRun)) =
      (if c3 = ON then bnSuf ON A ++ ON :: (mid ++ bnPre ON rest) else A ++ c3 :: (mid ++ rest), st.etRun) := by
    intro c3
    by_cases h3 : c3 = ON
    · subst h3
      rw [setWhileBN_bwd]
      have := setWhileBN_fwd ON (bnSuf ON A ++ ON :: mid) rest
      simp only [List.length_append, bnSuf_length, List.length_cons, List.append_assoc,
        List.cons_append] at this
      simp [this]
    · simp [h3]
  rcases h with rfl | rfl
  · simp only [stepW456, hp, set_append_cons, hcl, hf, hm, hnx, iterBwd_seq1]
    exact key _
  · simp only [stepW456, hp, set_append_cons, hcl, hf, hm, hnx, iterBwd_seq1]
    exact key _

/-- a separator in the middle of a character: copy the previous unit -/
theorem stepW456U_sep_none (A' : List BidiClass) (x : BidiClass) (hp : st.pcs = A' ++ x :: c :: cs)
    (hcl : cl (A'.length + 1) = none) (al' : Bool) (c2 : BidiClass) (h : c2 = ES ∨ c2 = CS) :
    stepW456 cl (seq1 n sos eos) st 0 (A'.length + 1) c2 al' = (A' ++ x :: x :: cs, st.etRun) := by
  have hp' : st.pcs = (A' ++ [x]) ++ c :: cs := by rw [hp]; simp
  have hl : (A' ++ [x]).length = A'.length + 1 := by simp
  have h1 : ∀ y, (st.pcs.set (A'.length + 1) y) = A' ++ x :: y :: cs := by
    intro y; rw [hp', ← hl, set_append_cons]; simp
  have h2 : ∀ y, cget (A' ++ x :: y :: cs) A'.length = x := fun y => cget_append_cons A' x (y :: cs)
  rcases h with rfl | rfl
  · simp only [stepW456, hcl, h1, Nat.add_sub_cancel, h2]
    simp
  · simp only [stepW456, hcl, h1, Nat.add_sub_cancel, h2]
    simp

end stepU


/-- the loop over units `i … i+len-1` with an arbitrary `char_at` -/
def runFromU (cl : Nat → Option Nat) (n : Nat) (sos eos : BidiClass) (st : WState) (i len : Nat) : WState :=
  ((List.range' i len).map (fun j => (0, j))).foldl (weakStep cl (seq1 n sos eos)) st

section runU
variable (cl : Nat → Option Nat) (n : Nat) (sos eos : BidiClass)

theorem runFromU_zero (st : WState) (i : Nat) : runFromU cl n sos eos st i 0 = st := rfl

theorem runFromU_succ (st : WState) (i len : Nat) :
    runFromU cl n sos eos st i (len + 1) =
      runFromU cl n sos eos (weakStep cl (seq1 n sos eos) st (0, i)) (i + 1) len := by
  simp [runFromU, List.range'_succ]

theorem runFromU_add (st : WState) (i a b : Nat) :
    runFromU cl n sos eos st i (a + b) = runFromU cl n sos eos (runFromU cl n sos eos st i a) (i + a) b := by
  induction a generalizing st i with
  | zero => simp [runFromU_zero]
  | succ a ih =>
    rw [show a + 1 + b = (a + b) + 1 by omega, runFromU_succ, runFromU_succ, ih]
    congr 1; omega

/-- BN units only extend `bnRun` -/
theorem bnStepsU (l : Nat) : ∀ (A X : List BidiClass) (st : WState), st.pcs = A ++ List.replicate l BN ++ X →
    runFromU cl n sos eos st A.length l = { st with bnRun := st.bnRun ++ List.range' A.length l } := by
  induction l with
  | zero => intro A X st _; simp [runFromU_zero]
  | succ l ih =>
    intro A X st hp
    have hp' : st.pcs = A ++ BN :: (List.replicate l BN ++ X) := by rw [hp]; simp [List.replicate_succ]
    rw [runFromU_succ, weakStepU_BN cl n sos eos st A _ hp']
    have := ih (A ++ [BN]) X { st with bnRun := st.bnRun ++ [A.length] } (by
      show st.pcs = _
      rw [hp]; simp [List.replicate_succ])
    simp only [List.length_append, List.length_cons, List.length_nil] at this
    rw [this]
    simp [List.range'_succ]

/-- units whose class is ON only reset the state (any `char_at`) -/
theorem onStepsU (j : Nat) :
    ∀ (A X : List BidiClass) (st : WState), st.pcs = A ++ List.replicate j ON ++ X → st.etRun = [] → st.bnRun = [] →
      (runFromU cl n sos eos st A.length j).pcs = st.pcs ∧ (runFromU cl n sos eos st A.length j).etRun = [] ∧
      (runFromU cl n sos eos st A.length j).bnRun = [] ∧
      (runFromU cl n sos eos st A.length j).lastStrongIsAL = st.lastStrongIsAL ∧
      (0 < j → (runFromU cl n sos eos st A.length j).prevW1 = ON ∧ (runFromU cl n sos eos st A.length j).prevW4 = ON ∧
        (runFromU cl n sos eos st A.length j).prevW5 = ON) := by
  induction j with
  | zero => intro A X st hp he hb; simp [runFromU_zero, he, hb]
  | succ j ih =>
    intro A X st hp he hb
    have hp' : st.pcs = A ++ ON :: (List.replicate j ON ++ X) := by
      rw [hp]; simp [List.replicate_succ]
    have h1 : sC1 st.prevW1 ON = ON := rfl
    have hstep : weakStep cl (seq1 n sos eos) st (0, A.length) =
        { pcs := st.pcs, prevW4 := ON, prevW5 := ON, prevW1 := ON, lastStrongIsAL := st.lastStrongIsAL,
          etRun := [], bnRun := [] } := by
      rw [weakStepU_nonBN cl n sos eos st A ON _ hp' (by decide), h1]
      have h2 : sC2 st.lastStrongIsAL ON = ON := rfl
      have h3 : sAL st.lastStrongIsAL ON = st.lastStrongIsAL := rfl
      rw [h2, h3, stepW456U_other cl n sos eos st A ON _ hp' _ ON (by decide), stepFin_cons _ _ rfl, he]
      simp [setAll, hp']
    rw [runFromU_succ, hstep]
    have := ih (A ++ [ON]) X
      { pcs := st.pcs, prevW4 := ON, prevW5 := ON, prevW1 := ON, lastStrongIsAL := st.lastStrongIsAL,
        etRun := [], bnRun := [] } (by rw [hp]; simp [List.replicate_succ]) rfl rfl
    simp only [List.length_append, List.length_cons, List.length_nil] at this
    obtain ⟨q1, q2, q3, q4, q5⟩ := this
    refine ⟨q1, q2, q3, q4, fun _ => ?_⟩
    by_cases hj : 0 < j
    · exact q5 hj
    · have : j = 0 := by omega
      subst this
      simp [runFromU_zero]


/-- a state right after a non-BN unit -/
def stF (pcs : Classes) (c1 c2 m5 : BidiClass) (al' : Bool) (et : List Nat) : WState :=
  { pcs := pcs, prevW4 := c2, prevW5 := m5, prevW1 := c1, lastStrongIsAL := al', etRun := et, bnRun := [] }

/-- a further unit of a character whose first unit has been resolved to `m5 ≠ ET` repeats the result -/
theorem repeatStepF (c c1 c2 m5 : BidiClass) (al' : Bool) (h11 : sC1 c1 c = c1) (h22 : sC2 al' c1 = c2)
    (haa : sAL al' c1 = al') (hcne : c ≠ BN) (hm5 : m5 ≠ ET)
    (hEN : c2 = EN → m5 = EN) (hET : c2 = ET → m5 = EN)
    (hoth : c2 ≠ EN → c2 ≠ ES → c2 ≠ CS → c2 ≠ ET → m5 = c2)
    (A' rest : List BidiClass) (hcl : cl (A'.length + 1) = none) :
    weakStep cl (seq1 n sos eos) (stF (A' ++ m5 :: c :: rest) c1 c2 m5 al' []) (0, A'.length + 1) =
      stF (A' ++ m5 :: m5 :: rest) c1 c2 m5 al' [] := by
  have hl : (A' ++ [m5]).length = A'.length + 1 := by simp
  have hp : (stF (A' ++ m5 :: c :: rest) c1 c2 m5 al' []).pcs = (A' ++ [m5]) ++ c :: rest := by simp [stF]
  rw [← hl, weakStepU_nonBN cl n sos eos _ _ c rest hp hcne]
  have e1 : (stF (A' ++ m5 :: c :: rest) c1 c2 m5 al' []).prevW1 = c1 := rfl
  have e2 : (stF (A' ++ m5 :: c :: rest) c1 c2 m5 al' []).lastStrongIsAL = al' := rfl
  rw [e1, e2, h11, h22, haa]
  have hfin : ∀ x, x ≠ ET → stepFin (A' ++ [m5]).length c1 c2 al' ((A' ++ [m5]) ++ x :: rest, []) =
      stF (A' ++ m5 :: x :: rest) c1 c2 x al' [] := by
    intro x hx
    rw [stepFin_cons _ _ rfl, if_neg hx]
    simp [setAll, stF]
  by_cases h1 : c2 = EN
  · subst h1
    rw [stepW456U_EN cl n sos eos _ _ c rest hp]
    have := hEN rfl
    subst this
    have e3 : (stF (A' ++ EN :: c :: rest) c1 EN EN al' []).etRun = [] := rfl
    rw [e3]
    simp only [setAll, List.foldl_nil]
    exact hfin EN (by decide)
  by_cases h2 : c2 = ES ∨ c2 = CS
  · rw [hl, stepW456U_sep_none cl n sos eos _ c rest A' m5 (by simp [stF]) hcl al' c2 h2, ← hl]
    have := hfin m5 hm5
    simpa [stF] using this
  by_cases h3 : c2 = ET
  · subst h3
    have := hET rfl
    subst this
    rw [stepW456U_ET_EN cl n sos eos _ _ c rest hp al' rfl]
    exact hfin EN (by decide)
  · have h4 : c2 ≠ EN ∧ c2 ≠ ES ∧ c2 ≠ CS ∧ c2 ≠ ET := by
      refine ⟨h1, ?_, ?_, h3⟩ <;> intro hh <;> simp [hh] at h2
    have := hoth h4.1 h4.2.1 h4.2.2.1 h4.2.2.2
    subst this
    rw [stepW456U_other cl n sos eos _ _ c rest hp al' _ h4]
    exact hfin _ hm5


theorem repeatF (c c1 c2 m5 : BidiClass) (al' : Bool) (h11 : sC1 c1 c = c1) (h22 : sC2 al' c1 = c2)
    (haa : sAL al' c1 = al') (hcne : c ≠ BN) (hm5 : m5 ≠ ET)
    (hEN : c2 = EN → m5 = EN) (hET : c2 = ET → m5 = EN)
    (hoth : c2 ≠ EN → c2 ≠ ES → c2 ≠ CS → c2 ≠ ET → m5 = c2) (r : Nat) :
    ∀ (A' rest : List BidiClass), (∀ t, t < r → cl (A'.length + 1 + t) = none) →
      runFromU cl n sos eos (stF (A' ++ m5 :: (List.replicate r c ++ rest)) c1 c2 m5 al' []) (A'.length + 1) r =
        stF (A' ++ m5 :: (List.replicate r m5 ++ rest)) c1 c2 m5 al' [] := by
  induction r with
  | zero => intro A' rest _; simp [runFromU_zero]
  | succ r ih =>
    intro A' rest hcl
    rw [runFromU_succ]
    have hstep := repeatStepF cl n sos eos c c1 c2 m5 al' h11 h22 haa hcne hm5 hEN hET hoth A'
      (List.replicate r c ++ rest) (hcl 0 (by omega))
    rw [show A' ++ m5 :: (List.replicate (r + 1) c ++ rest) = A' ++ m5 :: c :: (List.replicate r c ++ rest) by
      simp [List.replicate_succ], hstep]
    have := ih (A' ++ [m5]) rest (by
      intro t ht
      have := hcl (t + 1) (by omega)
      simp only [List.length_append, List.length_cons, List.length_nil]
      rw [← this]; congr 1; omega)
    simp only [List.length_append, List.length_cons, List.length_nil, List.append_assoc, List.cons_append,
      List.nil_append] at this
    rw [this]
    simp [List.replicate_succ]

/-- a further unit of a pending ET character joins the run -/
theorem repeatStepP (c c1 : BidiClass) (al' : Bool) (h11 : sC1 c1 c = c1) (h22 : sC2 al' c1 = ET)
    (haa : sAL al' c1 = al') (hcne : c ≠ BN) (E : List Nat) (A' rest : List BidiClass) :
    weakStep cl (seq1 n sos eos) (stF (A' ++ ET :: c :: rest) c1 ET ET al' E) (0, A'.length + 1) =
      stF (A' ++ ET :: ET :: rest) c1 ET ET al' (E ++ [A'.length + 1]) := by
  have hl : (A' ++ [ET]).length = A'.length + 1 := by simp
  have hp : (stF (A' ++ ET :: c :: rest) c1 ET ET al' E).pcs = (A' ++ [ET]) ++ c :: rest := by simp [stF]
  rw [← hl, weakStepU_nonBN cl n sos eos _ _ c rest hp hcne]
  have e1 : (stF (A' ++ ET :: c :: rest) c1 ET ET al' E).prevW1 = c1 := rfl
  have e2 : (stF (A' ++ ET :: c :: rest) c1 ET ET al' E).lastStrongIsAL = al' := rfl
  rw [e1, e2, h11, h22, haa, stepW456U_ET_pend cl n sos eos _ _ c rest hp al' (by simp [stF]),
    stepFin_cons _ _ rfl, if_pos rfl]
  simp [stF]

theorem repeatP (c c1 : BidiClass) (al' : Bool) (h11 : sC1 c1 c = c1) (h22 : sC2 al' c1 = ET)
    (haa : sAL al' c1 = al') (hcne : c ≠ BN) (r : Nat) :
    ∀ (E : List Nat) (A' rest : List BidiClass),
      runFromU cl n sos eos (stF (A' ++ ET :: (List.replicate r c ++ rest)) c1 ET ET al' E) (A'.length + 1) r =
        stF (A' ++ ET :: (List.replicate r ET ++ rest)) c1 ET ET al' (E ++ List.range' (A'.length + 1) r) := by
  induction r with
  | zero => intro E A' rest; simp [runFromU_zero]
  | succ r ih =>
    intro E A' rest
    rw [runFromU_succ]
    have hstep := repeatStepP cl n sos eos c c1 al' h11 h22 haa hcne E A' (List.replicate r c ++ rest)
    rw [show A' ++ ET :: (List.replicate (r + 1) c ++ rest) = A' ++ ET :: c :: (List.replicate r c ++ rest) by
      simp [List.replicate_succ], hstep]
    have := ih (E ++ [A'.length + 1]) (A' ++ [ET]) rest
    simp only [List.length_append, List.length_cons, List.length_nil, List.append_assoc, List.cons_append,
      List.nil_append] at this
    rw [this]
    simp [List.replicate_succ, List.range'_succ]

end runU


end UBidi.Lemmas.C01Weak
