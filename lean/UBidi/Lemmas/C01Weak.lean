/-
  UBidi.Lemmas.C01Weak — stage lemma StageW of C01, layer 1:
  `resolve_weak` (one forward pass with extra state, then a W7 pass) equals the
  seven passes W1 … W7 of UAX #9 on a sequence that consists of a single level
  run of single-unit characters none of which is removed by X9.

  NOTE on the hypothesis: the requested hypothesis `∀ c ∈ pcs, c ≠ BN` is not
  enough, the statement is false for the other types removed by X9, e.g.
    resolveWeak (fun _ => some 1) {runs := [(0,4)], sos := L, eos := L} [EN, ES, LRE, EN] = [L, L, LRE, L]
    Spec.weak L [EN, ES, LRE, EN]                                                     = [L, ON, LRE, L]
  (the look-ahead of the separator skips everything `removed_by_x9`).  LRE, RLE,
  LRO, RLO, PDF never reach `resolve_weak` (the explicit stage rewrites them to
  BN), so the hypothesis used is `∀ c ∈ pcs, c.removedByX9 = false`.
-/
import UBidi.Lemmas.C01WeakArr
namespace UBidi.Lemmas.C01Weak
open UBidi UBidi.Spec BidiClass

theorem bnPre_noBN (v : BidiClass) (cs : List BidiClass) (h : ∀ x ∈ cs, x ≠ BN) : bnPre v cs = cs := by
  cases cs with
  | nil => rfl
  | cons c cs => have := h c (by simp); simp [bnPre, this]

theorem bnSuf_noBN (v : BidiClass) (A : List BidiClass) (h : ∀ x ∈ A, x ≠ BN) : bnSuf v A = A := by
  unfold bnSuf
  rw [bnPre_noBN]
  · simp
  · simpa using h

theorem notRemoved_ne_BN {c : BidiClass} (h : notRemoved c = true) : c ≠ BN := by
  cases c <;> simp_all [notRemoved, removedByX9]

theorem filter_notRemoved (cs : List BidiClass) (h : ∀ x ∈ cs, notRemoved x = true) : cs.filter notRemoved = cs := by
  simpa using h

theorem stepFin_cons (i : Nat) (A : List BidiClass) (hi : A.length = i) (c1 c2 : BidiClass) (al' : Bool) (m : BidiClass)
    (cs : List BidiClass) (et : List Nat) :
    stepFin i c1 c2 al' (A ++ m :: cs, et) =
      if m = ET then
        { pcs := A ++ m :: cs, prevW4 := c2, prevW5 := ET, prevW1 := c1, lastStrongIsAL := al', etRun := et, bnRun := [] }
      else
        { pcs := setAll (A ++ m :: cs) et ON, prevW4 := c2, prevW5 := m, prevW1 := c1, lastStrongIsAL := al',
          etRun := [], bnRun := [] } := by
  subst hi
  unfold stepFin
  simp only [cget_append_cons]
  by_cases h : m = ET
  · subst h; simp
  · simp [h]

theorem step_simple (n : Nat) (sos eos : BidiClass) (st : WState) (out : List BidiClass) (k : Nat) (c : BidiClass)
    (cs : List BidiClass)
    (hp : st.pcs = out ++ List.replicate k ET ++ c :: cs)
    (hn : n = out.length + k + 1 + cs.length)
    (het : st.etRun = List.range' out.length k) (hbr : st.bnRun = [])
    (hc : notRemoved c = true) (hcs : ∀ x ∈ cs, notRemoved x = true)
    (hout : ∀ x ∈ out, x ≠ BN)
    (hk : 0 < k → st.prevW4 = ET ∧ st.prevW5 = ET) :
    weakStep (fun _ => some 1) (seq1 n sos eos) st (0, out.length + k) =
      (let c1 := sC1 st.prevW1 c
       let c2 := sC2 st.lastStrongIsAL c1
       let al' := sAL st.lastStrongIsAL c1
       let m5 := sM5 st.prevW4 st.prevW5 c2 (nextCls al' eos cs)
       if m5 = ET then
         { pcs := out ++ List.replicate (k + 1) ET ++ cs, prevW4 := c2, prevW5 := ET, prevW1 := c1,
           lastStrongIsAL := al', etRun := List.range' out.length (k + 1), bnRun := [] }
       else
         { pcs := out ++ List.replicate k (etVal (m5 == EN)) ++ m5 :: cs, prevW4 := c2, prevW5 := m5, prevW1 := c1,
           lastStrongIsAL := al', etRun := [], bnRun := [] }) := by
  have hA : (out ++ List.replicate k ET).length = out.length + k := by simp
  have hAbn : ∀ x ∈ out ++ List.replicate k ET, x ≠ BN := by
    intro x hx
    rw [List.mem_append] at hx
    rcases hx with hx | hx
    · exact hout x hx
    · rw [List.mem_replicate] at hx; rw [hx.2]; decide
  have hcsbn : ∀ x ∈ cs, x ≠ BN := fun x hx => notRemoved_ne_BN (hcs x hx)
  have hsa : ∀ (m v : BidiClass), setAll (out ++ List.replicate k ET ++ m :: cs) (List.range' out.length k) v
      = out ++ List.replicate k v ++ m :: cs := by
    intro m v
    have := setAll_range v out (List.replicate k ET) (m :: cs)
    simpa using this
  rw [← hA, weakStep_nonBN n sos eos st _ c cs hp (notRemoved_ne_BN hc)]
  simp only []
  generalize hc1 : sC1 st.prevW1 c = c1
  generalize hal : sAL st.lastStrongIsAL c1 = al'
  generalize hc2 : sC2 st.lastStrongIsAL c1 = c2
  have hlen : ∀ v : BidiClass, (out ++ List.replicate k v).length = (out ++ List.replicate k ET).length := by
    intro v; simp
  by_cases h1 : c2 = EN
  · subst h1
    rw [stepW456_EN n sos eos st _ c cs hp, het, hsa, stepFin_cons _ _ (hlen EN)]
    simp [sM5, setAll, etVal]
  by_cases h2 : c2 = ES ∨ c2 = CS
  · rw [stepW456_sep n sos eos st _ c cs hp (by rw [hn, hA]) al' c2 h2, bnSuf_noBN _ _ hAbn, bnPre_noBN _ _ hcsbn]
    have hnx : nextR al' eos cs = nextCls al' eos cs := by rw [nextR, filter_notRemoved cs hcs]
    have hm5 : sM5 st.prevW4 st.prevW5 c2 (nextCls al' eos cs) = sC3 st.prevW4 c2 (nextCls al' eos cs) := by
      rcases h2 with rfl | rfl <;> rfl
    rw [hnx, hm5]
    generalize hc3 : sC3 st.prevW4 c2 (nextCls al' eos cs) = c3
    have hc3ne : c3 ≠ ET := by
      rw [← hc3]; unfold sC3; split <;> decide
    have hite : (if c3 = ON then out ++ List.replicate k ET ++ ON :: cs else out ++ List.replicate k ET ++ c3 :: cs)
        = out ++ List.replicate k ET ++ c3 :: cs := by
      split
      · rename_i h; rw [h]
      · rfl
    rw [hite, stepFin_cons _ _ rfl, het, hsa, if_neg hc3ne, if_neg hc3ne]
    by_cases hk0 : k = 0
    · subst hk0; simp
    · have hp4 := (hk (by omega)).1
      have : c3 = ON := by
        rw [← hc3, hp4]; unfold sC3; split <;> simp_all
      subst this
      simp [etVal]
  by_cases h3 : c2 = ET
  · subst h3
    by_cases h5 : st.prevW5 = EN
    · have hk0 : k = 0 := by
        by_cases hk0 : k = 0
        · exact hk0
        · have := (hk (by omega)).2; rw [this] at h5; cases h5
      subst hk0
      rw [stepW456_ET_EN n sos eos st _ c cs hp al' h5, stepFin_cons _ _ rfl, het]
      simp [sM5, h5, setAll]
    · rw [stepW456_ET_pend n sos eos st _ c cs hp al' h5, stepFin_cons _ _ rfl, het]
      have : sM5 st.prevW4 st.prevW5 ET (nextCls al' eos cs) = ET := by simp [sM5, h5]
      rw [this, hbr]
      simp only [if_true, hA, List.append_nil, WState.mk.injEq, true_and, and_true]
      constructor
      · simp [List.replicate_succ']
      · rw [List.range'_concat]; simp
  · have h4 : c2 ≠ EN ∧ c2 ≠ ES ∧ c2 ≠ CS ∧ c2 ≠ ET := by
      refine ⟨h1, ?_, ?_, h3⟩ <;> intro h <;> simp [h] at h2
    rw [stepW456_other n sos eos st _ c cs hp al' c2 h4, stepFin_cons _ _ rfl, het, hsa]
    have hm5 : sM5 st.prevW4 st.prevW5 c2 (nextCls al' eos cs) = c2 := by
      cases c2 <;> simp_all [sM5]
    rw [hm5, if_neg h3, if_neg h3]
    have : (c2 == EN) = false := by simp [h1]
    simp [this, etVal]


theorem sC1_ne_BN {p1 c : BidiClass} (hp : p1 ≠ BN) (hc : c ≠ BN) : sC1 p1 c ≠ BN := by
  unfold sC1; split
  · split <;> first | decide | exact hp
  · exact hc

theorem sC2_ne_BN {al : Bool} {c1 : BidiClass} (h : c1 ≠ BN) : sC2 al c1 ≠ BN := by
  cases c1 <;> cases al <;> simp_all [sC2]

theorem sM5_ne_BN {p4 p5 c2 nx : BidiClass} (h : c2 ≠ BN) : sM5 p4 p5 c2 nx ≠ BN := by
  unfold sM5
  split
  · unfold sC3; split <;> decide
  · unfold sC3; split <;> decide
  · split <;> decide
  · exact h

theorem sM5_eq_ET {p4 p5 c2 nx : BidiClass} (h : sM5 p4 p5 c2 nx = ET) : c2 = ET := by
  unfold sM5 at h
  split at h
  · unfold sC3 at h; split at h <;> cases h
  · unfold sC3 at h; split at h <;> cases h
  · rfl
  · exact h

theorem etVal_ne_BN (b : Bool) : etVal b ≠ BN := by cases b <;> decide

theorem fold_simple (n : Nat) (sos eos : BidiClass) (he : eos = L ∨ eos = R) :
    ∀ (cs out : List BidiClass) (k : Nat) (st : WState),
      st.pcs = out ++ List.replicate k ET ++ cs → n = out.length + k + cs.length →
      st.etRun = List.range' out.length k → st.bnRun = [] →
      (∀ x ∈ cs, notRemoved x = true) → (∀ x ∈ out, x ≠ BN) → st.prevW1 ≠ BN →
      (0 < k → st.prevW4 = ET ∧ st.prevW5 = ET) →
      setAll (((List.range' (out.length + k) cs.length).map (fun i => (0, i))).foldl
                (weakStep (fun _ => some 1) (seq1 n sos eos)) st).pcs
             (((List.range' (out.length + k) cs.length).map (fun i => (0, i))).foldl
                (weakStep (fun _ => some 1) (seq1 n sos eos)) st).etRun ON
        = out ++ List.replicate k (etVal (LA st.prevW1 st.lastStrongIsAL st.prevW4 cs))
            ++ W st.prevW1 st.lastStrongIsAL st.prevW4 st.prevW5 cs := by
  intro cs
  induction cs with
  | nil =>
    intro out k st hp hn het hbr hcs hout hp1 hk
    simp only [List.length_nil, List.range'_zero, List.map_nil, List.foldl_nil, LA_nil, W_nil, List.append_nil]
    rw [hp, het]
    have := setAll_range ON out (List.replicate k ET) []
    simpa [etVal] using this
  | cons c cs ih =>
    intro out k st hp hn het hbr hcs hout hp1 hk
    have hc : notRemoved c = true := hcs c (by simp)
    have hcs' : ∀ x ∈ cs, notRemoved x = true := fun x hx => hcs x (by simp [hx])
    simp only [List.length_cons, List.range'_succ, List.map_cons, List.foldl_cons]
    rw [step_simple n sos eos st out k c cs hp (by rw [hn]; simp; omega) het hbr hc hcs' hout hk]
    rw [W_cons eos he, LA_cons eos he _ _ _ st.prevW5]
    simp only []
    generalize hc1 : sC1 st.prevW1 c = c1
    generalize hal : sAL st.lastStrongIsAL c1 = al'
    generalize hc2 : sC2 st.lastStrongIsAL c1 = c2
    generalize hm5 : sM5 st.prevW4 st.prevW5 c2 (nextCls al' eos cs) = m5
    have hc1ne : c1 ≠ BN := by rw [← hc1]; exact sC1_ne_BN hp1 (notRemoved_ne_BN hc)
    have hm5ne : m5 ≠ BN := by rw [← hm5]; exact sM5_ne_BN (by rw [← hc2]; exact sC2_ne_BN hc1ne)
    by_cases hm : m5 = ET
    · subst hm
      rw [if_pos rfl]
      have hc2e : c2 = ET := sM5_eq_ET hm5
      subst hc2e
      have := ih out (k + 1)
        { pcs := out ++ List.replicate (k + 1) ET ++ cs, prevW4 := ET, prevW5 := ET, prevW1 := c1,
          lastStrongIsAL := al', etRun := List.range' out.length (k + 1), bnRun := [] }
        rfl (by rw [hn]; simp; omega) rfl rfl hcs' hout hc1ne (fun _ => ⟨rfl, rfl⟩)
      simp only [← Nat.add_assoc] at this
      rw [this]
      simp [sOut, List.replicate_succ']
    · rw [if_neg hm]
      have hv : List.replicate k (etVal (if (c2 == ET) = true then LA c1 al' c2 cs else m5 == EN))
          = List.replicate k (etVal (m5 == EN)) := by
        by_cases hk0 : k = 0
        · subst hk0; rfl
        · have hp5 := (hk (by omega)).2
          have : (c2 == ET) = false := by
            cases hce : (c2 == ET)
            · rfl
            · exfalso
              have hce' : c2 = ET := by simpa using hce
              subst hce'
              apply hm
              rw [← hm5, hp5]; rfl
          rw [this]; rfl
      have hout' : ∀ x ∈ out ++ List.replicate k (etVal (m5 == EN)) ++ [m5], x ≠ BN := by
        intro x hx
        simp only [List.mem_append, List.mem_replicate, List.mem_singleton] at hx
        rcases hx with (hx | hx) | hx
        · exact hout x hx
        · rw [hx.2]; exact etVal_ne_BN _
        · rw [hx]; exact hm5ne
      have := ih (out ++ List.replicate k (etVal (m5 == EN)) ++ [m5]) 0
        { pcs := out ++ List.replicate k (etVal (m5 == EN)) ++ m5 :: cs, prevW4 := c2, prevW5 := m5, prevW1 := c1,
          lastStrongIsAL := al', etRun := [], bnRun := [] }
        (by simp) (by rw [hn]; simp; omega) (by simp) rfl hcs' hout' hc1ne (by omega)
      simp only [List.length_append, List.length_replicate, List.length_cons, List.length_nil, Nat.add_zero,
        List.replicate_zero, List.append_nil] at this
      rw [this, hv]
      simp [sOut, hm]


/-! ### W7 -/

/-- the crate's W7 loop on a list (`AL` also resets the flag) -/
def w7m (b : Bool) : List BidiClass → List BidiClass
  | [] => []
  | c :: cs =>
    (if c == EN && b then L else c) ::
      w7m (if c == L then true else if c == R || c == AL then false else b) cs

theorem w7Step_fold (A cs : List BidiClass) (b : Bool) :
    ((List.range' A.length cs.length).foldl w7Step (A ++ cs, b)).1 = A ++ w7m b cs := by
  induction cs generalizing A b with
  | nil => simp [w7m]
  | cons c cs ih =>
    simp only [List.length_cons, List.range'_succ, List.foldl_cons]
    have hstep : w7Step (A ++ c :: cs, b) A.length =
        ((A ++ [if c == EN && b then L else c]) ++ cs,
          if c == L then true else if c == R || c == AL then false else b) := by
      unfold w7Step
      simp only [cget_append_cons]
      cases c <;> cases b <;> simp
    rw [hstep]
    have := ih (A ++ [if c == EN && b then L else c]) (if c == L then true else if c == R || c == AL then false else b)
    simp only [List.length_append, List.length_cons, List.length_nil] at this
    rw [this]
    simp [w7m]

theorem w7m_eq_w7g (b : Bool) (ts : List BidiClass) (h : ∀ x ∈ ts, x ≠ AL) : w7m b ts = w7g b ts := by
  induction ts generalizing b with
  | nil => rfl
  | cons c cs ih =>
    have hc : c ≠ AL := h c (by simp)
    have hcs : ∀ x ∈ cs, x ≠ AL := fun x hx => h x (by simp [hx])
    simp only [w7m, w7g]
    have : (if c == L then true else if c == R || c == AL then false else b)
        = (if c == L then true else if c == R then false else b) := by
      cases c <;> simp_all
    rw [this, ih _ hcs]

theorem sOut_ne_AL (p4 p5 : BidiClass) (al : Bool) (c1 nx : BidiClass) (la : Bool) :
    sOut (sM5 p4 p5 (sC2 al c1) nx) la ≠ AL := by
  have h2 : sC2 al c1 ≠ AL := by cases c1 <;> cases al <;> simp [sC2]
  have h5 : sM5 p4 p5 (sC2 al c1) nx ≠ AL := by
    generalize sC2 al c1 = c2 at h2
    unfold sM5
    split
    · unfold sC3; split <;> decide
    · unfold sC3; split <;> decide
    · split <;> decide
    · exact h2
  unfold sOut
  split
  · cases la <;> decide
  · exact h5

theorem W_noAL (p1 : BidiClass) (al : Bool) (p4 p5 : BidiClass) (cs : List BidiClass) :
    ∀ x ∈ W p1 al p4 p5 cs, x ≠ AL := by
  induction cs generalizing p1 al p4 p5 with
  | nil => simp [W_nil]
  | cons c cs ih =>
    rw [W_cons L (Or.inl rfl)]
    intro x hx
    rw [List.mem_cons] at hx
    rcases hx with rfl | hx
    · exact sOut_ne_AL _ _ _ _ _ _
    · exact ih _ _ _ _ x hx

theorem W_length (p1 : BidiClass) (al : Bool) (p4 p5 : BidiClass) (cs : List BidiClass) :
    (W p1 al p4 p5 cs).length = cs.length := by
  induction cs generalizing p1 al p4 p5 with
  | nil => simp [W_nil]
  | cons c cs ih => rw [W_cons L (Or.inl rfl)]; simp [ih]

/-- **StageW, layer 1**: single run, one code unit per character, no character removed by X9 -/
theorem stageW_simple (n : Nat) (sos eos : BidiClass) (hs : sos = .L ∨ sos = .R) (he : eos = .L ∨ eos = .R)
    (pcs : List BidiClass) (hn : pcs.length = n) (hbn : ∀ c ∈ pcs, c.removedByX9 = false) :
    resolveWeak (fun _ => some 1) { runs := [(0, n)], sos := sos, eos := eos } pcs = Spec.weak sos pcs := by
  subst hn
  have hnr : ∀ x ∈ pcs, notRemoved x = true := by
    intro x hx; simp [notRemoved, hbn x hx]
  have hsos : sos ≠ BN := by rcases hs with rfl | rfl <;> decide
  have hfold := fold_simple pcs.length sos eos he pcs [] 0
    { pcs := pcs, prevW4 := sos, prevW5 := sos, prevW1 := sos } (by simp) (by simp) (by simp) rfl hnr (by simp) hsos
    (by omega)
  simp only [List.length_nil, Nat.add_zero, List.replicate_zero, List.append_nil, List.nil_append] at hfold
  unfold resolveWeak
  simp only []
  rw [show ({ runs := [(0, pcs.length)], sos := sos, eos := eos } : IRSeq) = seq1 pcs.length sos eos from rfl,
    indexed_seq1, indices_seq1, hfold]
  have h7 := w7Step_fold [] (W sos false sos sos pcs) (sos == L)
  simp only [List.length_nil, List.nil_append] at h7
  rw [← W_length sos false sos sos pcs, h7, w7m_eq_w7g _ _ (W_noAL _ _ _ _ _), Spec.weak, w7_eq, w16_eq_W sos hs]


/-- the counterexample that forces the hypothesis `removedByX9 = false` instead of `≠ BN` (a test) -/
example : resolveWeak (fun _ => some 1) { runs := [(0, 4)], sos := L, eos := L } [EN, ES, LRE, EN]
    ≠ Spec.weak L [EN, ES, LRE, EN] := by decide

/-- non-vacuity: a concrete input meeting the hypotheses of `stageW_simple`, on which every rule W1–W7 fires -/
example : ∀ c ∈ [AL, EN, NSM, R, EN, ES, EN, ET, ET, L, ET, EN, CS, EN, AN, CS, AN, CS, ES, LRI, NSM, PDI],
    c.removedByX9 = false := by decide

/-- (test) the two sides on that input -/
example : resolveWeak (fun _ => some 1) { runs := [(0, 22)], sos := R, eos := L }
      [AL, EN, NSM, R, EN, ES, EN, ET, ET, L, ET, EN, CS, EN, AN, CS, AN, CS, ES, LRI, NSM, PDI]
    = [R, AN, AN, R, EN, EN, EN, EN, EN, L, L, L, L, L, AN, AN, AN, ON, ON, LRI, ON, PDI] := by decide +kernel

end UBidi.Lemmas.C01Weak
