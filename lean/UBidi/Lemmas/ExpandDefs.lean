/-
  UBidi.Lemmas.ExpandDefs — vocabulary for "results do not depend on how many
  code units a character occupies" (the `Expand` lemma family of DESIGN.md §5):
  every stage of the per-code-unit Model, run on a well-formed text `t`, equals
  the same stage run on `unitize t` (the same characters, one unit each) with
  every per-character value repeated over the character's units.
-/
import UBidi.Model.Pipeline
namespace UBidi.Expand
open UBidi

/-- the same characters, one code unit each (encoding `utf32`) -/
def unitize (t : Text) : Text :=
  { enc := .utf32, len := t.segs.length,
    segs := (t.segs.zipIdx).map (fun (s, k) => { start := k, cp := s.cp, len := 1 }) }

/-- one value per character ↦ one value per code unit -/
def expand {α} (t : Text) (xs : List α) : List α :=
  (t.segs.zip xs).flatMap (fun (s, x) => List.replicate s.len x)

/-- one value per code unit ↦ one value per character (the value at the character's first unit) -/
def contract {α} (t : Text) (xs : List α) (d : α) : List α :=
  t.segs.map (fun s => xs.getD s.start d)

/-- code-unit position of character number `k` (`t.len` for `k` = number of characters) -/
def pos (t : Text) (k : Nat) : Nat := (t.segs[k]?.map (·.start)).getD t.len

/-- a run of characters `[a,b)` as a run of code units -/
def mapRun (t : Text) (r : Nat × Nat) : Nat × Nat := (pos t r.1, pos t r.2)

def mapSeq (t : Text) (s : IRSeq) : IRSeq := { s with runs := s.runs.map (mapRun t) }

/-- all units of every character carry the same entry -/
def UniformOn {α} (t : Text) (xs : List α) : Prop :=
  ∀ s ∈ t.segs, ∀ j, j < s.len → xs[s.start + j]? = xs[s.start]?

end UBidi.Expand
