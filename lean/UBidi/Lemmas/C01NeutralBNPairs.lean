/-
  C01 stage lemma StageN with retained BN units: the ends of the bracket pairs the crate identifies
  (BD16, `Model.identifyBracketPairs`) are pairwise distinct, and each of them is the first unit of a
  character of the sequence that is typed ON, kept by X9, and a bracket for the data source
  (`bd16_ends`).  The proof mirrors `bd16_pairs_ok` of `C01NeutralBD16`: a fold invariant over
  `bpStep`, then `sortPairs` only permutes the pairs.
-/
import UBidi.Lemmas.C01NeutralBNDefs
import UBidi.Lemmas.C01NeutralBD16
namespace UBidi.Lemmas.C01Neutral
open UBidi UBidi.BidiClass

/-- the guards `bpStep` tests before it pushes an opener or closes a pair -/
def bpGuard (ds : DataSource) (ocs pcs : Classes) (x : Nat × Seg) : Prop :=
  cget pcs x.2.start = ON ∧ (cget ocs x.2.start).removedByX9 = false ∧ (ds.brk x.2.cp).isSome = true

/-- the four things one step of BD16 can do, with the guards in the push and the pair case -/
theorem bpStep_cases' (ds : DataSource) (ocs pcs : Classes) (st : BPState) (x : Nat × Seg) :
    bpStep ds ocs pcs st x = st ∨
    bpStep ds ocs pcs st x = { st with stopped := true } ∨
    (st.stack.length < Gen.bracketStackLimit ∧ bpGuard ds ocs pcs x ∧ ∃ key,
      bpStep ds ocs pcs st x = { st with stack := (key, x.2.start, x.1) :: st.stack }) ∨
    (bpGuard ds ocs pcs x ∧ ∃ key e rest, findOpening key st.stack = some (e, rest) ∧
      bpStep ds ocs pcs st x =
        { st with stack := rest,
                  pairs := st.pairs ++ [{ start := e.2.1, stop := x.2.start, startRun := e.2.2, endRun := x.1 }] }) := by
  by_cases hs : st.stopped = true
  · left; simp [bpStep, hs]
  have hs1 : st.stopped = false := by simpa using hs
  by_cases hc : (cget pcs x.2.start != ON || (cget ocs x.2.start).removedByX9) = true
  · left; simp only [bpStep, hs1, Bool.false_eq_true, if_false, hc, if_true]
  have hc' : cget pcs x.2.start = ON ∧ (cget ocs x.2.start).removedByX9 = false := by
    simp only [Bool.or_eq_true, not_or, Bool.not_eq_true] at hc
    have hON : ∀ c : BidiClass, (c != ON) = false → c = ON := by intro c; cases c <;> decide
    exact ⟨hON _ hc.1, hc.2⟩
  cases hb : ds.brk x.2.cp with
  | none => left; simp only [bpStep, hs1, Bool.false_eq_true, if_false, hc, hb]
  | some m =>
    have hg : bpGuard ds ocs pcs x := ⟨hc'.1, hc'.2, by rw [hb]; rfl⟩
    by_cases ho : m.isOpen = true
    · by_cases hfull : st.stack.length ≥ Gen.bracketStackLimit
      · right; left; simp only [bpStep, hs1, Bool.false_eq_true, if_false, hc, hb, ho, if_true, hfull]
      · right; right; left
        refine ⟨by omega, hg, m.opening, ?_⟩
        simp only [bpStep, hs1, Bool.false_eq_true, if_false, hc, hb, ho, if_true, hfull]
    · cases hf : findOpening m.opening st.stack with
      | none => left; simp only [bpStep, hs1, Bool.false_eq_true, if_false, hc, hb, ho, hf]
      | some r =>
        right; right; right
        refine ⟨hg, m.opening, r.1, r.2, hf, ?_⟩
        simp only [bpStep, hs1, Bool.false_eq_true, if_false, hc, hb, ho, hf]

/-- a successful `findOpening` splits the stack at the entry it returns -/
theorem findOpening_split (key : Nat) : ∀ (stack : List (Nat × Nat × Nat)) e rest,
    findOpening key stack = some (e, rest) → ∃ pre, stack = pre ++ e :: rest := by
  intro stack
  induction stack with
  | nil => intro e rest h; simp [findOpening] at h
  | cons a as ih =>
    intro e rest h
    simp only [findOpening] at h
    split at h
    · simp only [Option.some.injEq, Prod.mk.injEq] at h
      obtain ⟨rfl, rfl⟩ := h
      exact ⟨[], rfl⟩
    · obtain ⟨pre, hpre⟩ := ih e rest h
      exact ⟨a :: pre, by rw [hpre]; rfl⟩

theorem pairEnds_append (ps qs : List BracketPair) : pairEnds (ps ++ qs) = pairEnds ps ++ pairEnds qs := by
  simp [pairEnds, List.flatMap_append]

theorem pairEnds_cons (p : BracketPair) (ps : List BracketPair) :
    pairEnds (p :: ps) = p.start :: p.stop :: pairEnds ps := by
  simp [pairEnds, List.flatMap_cons]

theorem pairEnds_perm {ps qs : List BracketPair} (h : ps.Perm qs) : (pairEnds ps).Perm (pairEnds qs) := by
  induction h with
  | nil => exact List.Perm.refl _
  | cons p _ ih => simp only [pairEnds_cons]; exact (ih.cons _).cons _
  | swap p q l =>
    simp only [pairEnds_cons]
    -- q.start :: q.stop :: p.start :: p.stop :: r  ~  p.start :: p.stop :: q.start :: q.stop :: r
    have : ([q.start, q.stop] ++ ([p.start, p.stop] ++ pairEnds l)).Perm
        ([p.start, p.stop] ++ ([q.start, q.stop] ++ pairEnds l)) := by
      rw [← List.append_assoc, ← List.append_assoc]
      exact List.Perm.append_right _ List.perm_append_comm
    simpa using this
  | trans _ _ ih1 ih2 => exact ih1.trans ih2

theorem insertPair_perm (p : BracketPair) : ∀ qs : List BracketPair, (insertPair p qs).Perm (p :: qs)
  | [] => by simp [insertPair]
  | q :: qs => by
    simp only [insertPair]
    split
    · exact List.Perm.refl _
    · exact ((insertPair_perm p qs).cons q).trans (List.Perm.swap p q qs)

theorem sortPairs_perm (ps : List BracketPair) : (sortPairs ps).Perm ps := by
  have : ∀ (ps acc : List BracketPair),
      (ps.foldl (fun acc p => insertPair p acc) acc).Perm (ps ++ acc) := by
    intro ps
    induction ps with
    | nil => intro acc; exact List.Perm.refl _
    | cons p ps ih =>
      intro acc
      simp only [List.foldl_cons]
      refine (ih _).trans ?_
      refine ((insertPair_perm p acc).append_left ps).trans ?_
      exact List.perm_middle
  simpa [sortPairs] using this ps []

/-- insertion keeps the list sorted by `start` -/
theorem insertPair_sorted (p : BracketPair) : ∀ qs : List BracketPair,
    qs.Pairwise (fun a b => a.start ≤ b.start) → (insertPair p qs).Pairwise (fun a b => a.start ≤ b.start)
  | [], _ => by simp [insertPair]
  | q :: qs, h => by
    have h' := List.pairwise_cons.1 h
    simp only [insertPair]
    split
    · next hlt =>
      refine List.pairwise_cons.2 ⟨?_, h⟩
      intro x hx
      rcases List.mem_cons.1 hx with rfl | hx
      · exact Nat.le_of_lt hlt
      · have := h'.1 x hx; omega
    · next hge =>
      refine List.pairwise_cons.2 ⟨?_, insertPair_sorted p qs h'.2⟩
      intro x hx
      rcases (mem_insertPair p x qs).1 hx with rfl | hx
      · omega
      · exact h'.1 x hx

/-- the crate processes the pairs in the order of their opening brackets -/
theorem sortPairs_sorted (ps : List BracketPair) :
    (sortPairs ps).Pairwise (fun a b => a.start ≤ b.start) := by
  have : ∀ (ps acc : List BracketPair), acc.Pairwise (fun a b => a.start ≤ b.start) →
      (ps.foldl (fun acc p => insertPair p acc) acc).Pairwise (fun a b => a.start ≤ b.start) := by
    intro ps
    induction ps with
    | nil => intro acc h; exact h
    | cons p ps ih => intro acc h; exact ih _ (insertPair_sorted p acc h)
  exact this ps [] List.Pairwise.nil

/-- fold invariant: the positions on the stack and the ends of the pairs found so far are pairwise
    distinct, lie below the characters still to come, and satisfy `G` -/
theorem bd16_fold_ends (ds : DataSource) (ocs pcs : Classes) (G : Nat → Prop) :
    ∀ (xs : List (Nat × Seg)) (st : BPState) (lo : Nat),
      (st.stack.map (·.2.1) ++ pairEnds st.pairs).Nodup →
      (∀ b ∈ st.stack.map (·.2.1) ++ pairEnds st.pairs, b < lo ∧ G b) →
      (∀ x ∈ xs, bpGuard ds ocs pcs x → G x.2.start) →
      (xs.map (fun x => x.2.start)).Pairwise (· < ·) →
      (∀ x ∈ xs, lo ≤ x.2.start) →
      (pairEnds (xs.foldl (bpStep ds ocs pcs) st).pairs).Nodup ∧
        ∀ b ∈ pairEnds (xs.foldl (bpStep ds ocs pcs) st).pairs, G b := by
  intro xs
  induction xs with
  | nil =>
    intro st lo hnd hall _ _ _
    simp only [List.foldl_nil]
    exact ⟨(List.nodup_append.1 hnd).2.1, fun b hb => (hall b (List.mem_append_right _ hb)).2⟩
  | cons x xs ih =>
    intro st lo hnd hall hG hpw hlo
    simp only [List.foldl_cons]
    simp only [List.map_cons, List.pairwise_cons, List.mem_map, forall_exists_index, and_imp,
      forall_apply_eq_imp_iff₂] at hpw
    have hGx := hG x (by simp)
    have hlox := hlo x (by simp)
    have hG' : ∀ y ∈ xs, bpGuard ds ocs pcs y → G y.2.start := fun y hy => hG y (by simp [hy])
    have hlo' : ∀ y ∈ xs, x.2.start + 1 ≤ y.2.start := fun y hy => hpw.1 y hy
    have hall' : ∀ b ∈ st.stack.map (·.2.1) ++ pairEnds st.pairs, b < x.2.start + 1 ∧ G b :=
      fun b hb => ⟨by have := (hall b hb).1; omega, (hall b hb).2⟩
    rcases bpStep_cases' ds ocs pcs st x with h1 | h1 | ⟨_, hg, key, h1⟩ | ⟨hg, key, e, rest, hf, h1⟩ <;> rw [h1]
    · exact ih st (x.2.start + 1) hnd hall' hG' hpw.2 hlo'
    · exact ih _ (x.2.start + 1) hnd hall' hG' hpw.2 hlo'
    · refine ih _ (x.2.start + 1) ?_ ?_ hG' hpw.2 hlo'
      · simp only [List.map_cons, List.cons_append, List.nodup_cons]
        refine ⟨?_, hnd⟩
        intro hm
        have := (hall _ hm).1; omega
      · intro b hb
        simp only [List.map_cons, List.cons_append, List.mem_cons] at hb
        rcases hb with rfl | hb
        · exact ⟨by omega, hGx hg⟩
        · exact hall' b hb
    · obtain ⟨pre, hpre⟩ := findOpening_split _ _ _ _ hf
      have hxlt : ∀ b ∈ st.stack.map (·.2.1) ++ pairEnds st.pairs, b ≠ x.2.start := by
        intro b hb; have := (hall b hb).1; omega
      rw [hpre] at hnd hall' hxlt
      simp only [List.map_append, List.map_cons, List.append_assoc, List.cons_append] at hnd hall' hxlt
      have hpe : ∀ p : BracketPair, pairEnds (st.pairs ++ [p]) = pairEnds st.pairs ++ [p.start, p.stop] := by
        intro p; rw [pairEnds_append]; rfl
      refine ih _ (x.2.start + 1) ?_ ?_ hG' hpw.2 hlo'
      · simp only [hpe]
        -- the new list is a permutation of a sublist of the old one, plus the new position
        have hp1 : (pre.map (·.2.1) ++ e.2.1 :: (rest.map (·.2.1) ++ pairEnds st.pairs)).Perm
            (e.2.1 :: (pre.map (·.2.1) ++ (rest.map (·.2.1) ++ pairEnds st.pairs))) :=
          List.perm_middle
        have hnd1 := hp1.nodup_iff.1 hnd
        have hnd2 : (e.2.1 :: (rest.map (·.2.1) ++ pairEnds st.pairs)).Nodup :=
          hnd1.sublist ((List.sublist_append_right _ _).cons_cons _)
        have hx2 : x.2.start ∉ e.2.1 :: (rest.map (·.2.1) ++ pairEnds st.pairs) := by
          intro hm
          refine hxlt x.2.start ?_ rfl
          simp only [List.mem_cons, List.mem_append] at hm ⊢
          rcases hm with hm | hm | hm
          · exact Or.inr (Or.inl hm)
          · exact Or.inr (Or.inr (Or.inl hm))
          · exact Or.inr (Or.inr (Or.inr hm))
        have hnd3 := List.nodup_cons.2 ⟨hx2, hnd2⟩
        have hp2 : (rest.map (·.2.1) ++ (pairEnds st.pairs ++ [e.2.1, x.2.start])).Perm
            (x.2.start :: e.2.1 :: (rest.map (·.2.1) ++ pairEnds st.pairs)) := by
          rw [← List.append_assoc]
          refine List.perm_append_comm.trans ?_
          exact List.Perm.swap _ _ _
        exact hp2.nodup_iff.2 hnd3
      · intro b hb
        simp only [hpe, List.mem_append, List.mem_cons, List.not_mem_nil, or_false] at hb
        rcases hb with hb | hb | rfl | rfl
        · exact hall' b (by simp only [List.mem_append, List.mem_cons]; exact Or.inr (Or.inr (Or.inl hb)))
        · exact hall' b (by simp only [List.mem_append, List.mem_cons]; exact Or.inr (Or.inr (Or.inr hb)))
        · exact hall' _ (by simp)
        · exact ⟨by omega, hGx hg⟩

/-- the bracket pairs the crate identifies (BD16) have pairwise distinct ends, and every end is the first
    unit of a character of the sequence that is typed ON, kept by X9, and a bracket for the data source -/
theorem bd16_ends (ds : DataSource) (t : Text) (seq : IRSeq) (ocs pcs : Classes)
    (hinc : ((seqChars t seq).map (fun x => x.2.start)).Pairwise (· < ·)) :
    (pairEnds (identifyBracketPairs ds t seq ocs pcs)).Nodup ∧
    ∀ b ∈ pairEnds (identifyBracketPairs ds t seq ocs pcs),
      cget pcs b = ON ∧ keepU ocs b = true ∧
        ∃ x ∈ seqChars t seq, x.2.start = b ∧ (ds.brk x.2.cp).isSome = true := by
  have hfold := bd16_fold_ends ds ocs pcs
    (fun b => cget pcs b = ON ∧ keepU ocs b = true ∧
      ∃ x ∈ seqChars t seq, x.2.start = b ∧ (ds.brk x.2.cp).isSome = true)
    (seqChars t seq) {} 0 (by simp [pairEnds]) (by simp [pairEnds])
    (by
      intro x hx hg
      exact ⟨hg.1, by simp [keepU, hg.2.1], x, hx, rfl, hg.2.2⟩)
    hinc (by simp)
  have hperm := pairEnds_perm (sortPairs_perm ((seqChars t seq).foldl (bpStep ds ocs pcs) {}).pairs)
  unfold identifyBracketPairs
  exact ⟨hperm.nodup_iff.2 hfold.1, fun b hb => hfold.2 b (hperm.mem_iff.1 hb)⟩

/-! ### non-vacuity / test (literal input; `decide` here is a test, not a proof) -/

/-- test: the hypothesis of `bd16_ends` holds for the two-run sequence of `exText2`
    (character starts `[0, 2, 3, 6, 7]`) -/
example : ((seqChars exText2 exSeq2).map (fun x => x.2.start)).Pairwise (· < ·) := by decide +kernel
/-- test: the ends of the pair found there are the units 2 and 7 -/
example : pairEnds (identifyBracketPairs hardcoded exText2 exSeq2 exOcs2 exPcs2) = [2, 7] := by decide +kernel

end UBidi.Lemmas.C01Neutral
