/-
  UBidi.Lemmas.ExpandWeakOps — `setWhileBN` and the ES/CS look-ahead over a walk of
  units versus over the walk of characters, under the pointwise relation `Rp`.
-/
import UBidi.Lemmas.ExpandWeakSeq
namespace UBidi.Expand.Weak
open UBidi UBidi.Expand BidiClass

theorem setWhileBN_block (P : Classes) (us tail : List Nat) (v : BidiClass) (hnd : us.Nodup)
    (hbn : ∀ u ∈ us, cget P u = BN) :
    setWhileBN P (us ++ tail) v = setWhileBN (setAll P us v) tail v := by
  induction us generalizing P with
  | nil => rfl
  | cons u us ih =>
    rw [List.cons_append, setWhileBN, setAll_cons]
    have hu : cget P u = BN := hbn u List.mem_cons_self
    rw [if_neg (by simp [hu])]
    rw [List.nodup_cons] at hnd
    apply ih _ hnd.2
    intro u' hu'
    rw [cget_set]
    have : u ≠ u' := fun e => hnd.1 (e ▸ hu')
    simp only [this, false_and, if_false]
    exact hbn u' (List.mem_cons_of_mem _ hu')

theorem setWhileBN_stop (P : Classes) (u : Nat) (rest : List Nat) (v : BidiClass)
    (h : cget P u ≠ BN) : setWhileBN P (u :: rest) v = P := by
  rw [setWhileBN, if_pos (by simpa using h)]

theorem find?_block {α} (q : α → Bool) (x : α) (ys l : List α) (hne : ys ≠ [])
    (hall : ∀ y ∈ ys, y = x) : (ys ++ l).find? q = (x :: l).find? q := by
  induction ys with
  | nil => exact absurd rfl hne
  | cons y ys ih =>
    have hy : y = x := hall y List.mem_cons_self
    subst hy
    rw [List.cons_append, List.find?_cons, List.find?_cons]
    cases hq : q y with
    | true => rfl
    | false =>
      simp only
      by_cases hys : ys = []
      · subst hys; rfl
      · rw [ih hys (fun y' hy' => hall y' (List.mem_cons_of_mem _ hy')), List.find?_cons, hq]

section
variable {t : Text} (hp : PosOK t)
include hp

/-- a list of unit indices that enumerates the units of character `k'` -/
def EnumUnits (t : Text) (f : Nat → List Nat) (k' : Nat) : Prop :=
  (f k').Nodup ∧ ∀ i, i ∈ f k' ↔ i ∈ units t k'

omit hp in
theorem enum_units (k' : Nat) : EnumUnits t (units t) k' :=
  ⟨by unfold units; exact List.nodup_range', fun _ => Iff.rfl⟩

omit hp in
theorem enum_units_rev (k' : Nat) : EnumUnits t (fun k => (units t k).reverse) k' :=
  ⟨by
    show ((units t k').reverse).Nodup
    unfold List.Nodup units
    rw [List.pairwise_reverse]
    exact (List.pairwise_lt_range' (s := pos t k') (n := ulen t k')).imp (fun h => by omega),
   fun _ => by simp⟩

omit hp in
theorem first_mem_units {k' : Nat} (h : 0 < ulen t k') : pos t k' ∈ units t k' := by
  unfold units; rw [List.mem_range'_1]; omega

theorem Rp_setWhileBN {P p : Classes} {k j : Nat} {c : BidiClass} (h : Rp t P p k j c)
    (f : Nat → List Nat) (walk : List Nat) (hne : k ∉ walk) (hlt : ∀ k' ∈ walk, k' < t.segs.length)
    (hf : ∀ k' ∈ walk, EnumUnits t f k') (v : BidiClass) :
    Rp t (setWhileBN P (walk.flatMap f) v) (setWhileBN p walk v) k j c := by
  induction walk generalizing P p with
  | nil => exact h
  | cons k' rest ih =>
    have hk' : k' < t.segs.length := hlt k' List.mem_cons_self
    have hk'k : k' ≠ k := fun e => hne (by rw [e]; exact List.mem_cons_self)
    have hfk := hf k' List.mem_cons_self
    have hval : ∀ u ∈ f k', cget P u = cget p k' := by
      intro u hu
      obtain ⟨j', hj', rfl⟩ := mem_units.1 ((hfk.2 u).1 hu)
      exact Rp_get h hk' hj' (Or.inl hk'k)
    rw [List.flatMap_cons]
    by_cases hb : cget p k' = BN
    · rw [setWhileBN.eq_2 p, if_neg (by simp [hb])]
      rw [setWhileBN_block P (f k') _ v hfk.1 (fun u hu => by rw [hval u hu, hb])]
      exact ih (Rp_setUnits hp h hk'k (f k') hfk.2 v)
        (fun hm => hne (List.mem_cons_of_mem _ hm))
        (fun x hx => hlt x (List.mem_cons_of_mem _ hx))
        (fun x hx => hf x (List.mem_cons_of_mem _ hx))
    · rw [setWhileBN.eq_2 p, if_pos (by simpa using hb)]
      have hmem : pos t k' ∈ f k' := (hfk.2 _).2 (first_mem_units (hp.lpos k' hk'))
      cases hfe : f k' with
      | nil => rw [hfe] at hmem; cases hmem
      | cons u us =>
        rw [List.cons_append, setWhileBN_stop]
        · exact h
        · rw [hval u (by rw [hfe]; exact List.mem_cons_self)]; exact hb

/-- the first class satisfying `q` along a walk -/
theorem find_walk {P p : Classes} {k j : Nat} {c : BidiClass} (h : Rp t P p k j c)
    (f : Nat → List Nat) (walk : List Nat) (hne : k ∉ walk) (hlt : ∀ k' ∈ walk, k' < t.segs.length)
    (hf : ∀ k' ∈ walk, EnumUnits t f k') (q : BidiClass → Bool) :
    ((walk.flatMap f).map (cget P)).find? q = (walk.map (cget p)).find? q := by
  induction walk with
  | nil => rfl
  | cons k' rest ih =>
    have hk' : k' < t.segs.length := hlt k' List.mem_cons_self
    have hk'k : k' ≠ k := fun e => hne (by rw [e]; exact List.mem_cons_self)
    have hfk := hf k' List.mem_cons_self
    have hmem : pos t k' ∈ f k' := (hfk.2 _).2 (first_mem_units (hp.lpos k' hk'))
    rw [List.flatMap_cons, List.map_append, List.map_cons]
    rw [find?_block q (cget p k') ((f k').map (cget P))]
    · rw [List.find?_cons, List.find?_cons,
        ih (fun hm => hne (List.mem_cons_of_mem _ hm))
          (fun x hx => hlt x (List.mem_cons_of_mem _ hx))
          (fun x hx => hf x (List.mem_cons_of_mem _ hx))]
    · intro e
      rw [List.map_eq_nil_iff] at e
      rw [e] at hmem; cases hmem
    · intro y hy
      obtain ⟨u, hu, rfl⟩ := List.mem_map.1 hy
      obtain ⟨j', hj', rfl⟩ := mem_units.1 ((hfk.2 u).1 hu)
      exact Rp_get h hk' hj' (Or.inl hk'k)

end

end UBidi.Expand.Weak
