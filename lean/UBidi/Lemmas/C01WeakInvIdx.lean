/-
  UBidi.Lemmas.C01WeakInvIdx — what the weak stage leaves on the units removed by X9, part 4:
  `MatchG ok7` read position by position.
-/
import UBidi.Lemmas.C01WeakInvW7
namespace UBidi.Lemmas.C01Weak
open UBidi UBidi.Spec BidiClass

section generic
variable (ok : BidiClass → BidiClass → Option BidiClass → Option BidiClass → Prop)

/-- the tail of a match -/
theorem MatchG_tail {p1 c : BidiClass} {cs : List BidiClass} {r : BidiClass} {rs sp : List BidiClass}
    (h : MatchG ok p1 (c :: cs) (r :: rs) sp) : ∃ p1' sp', MatchG ok p1' cs rs sp' := by
  by_cases hc : c = BN
  · subst hc
    rw [MatchG_cons_BN] at h
    exact ⟨_, _, h.2⟩
  · cases sp with
    | nil => exact absurd h (MatchG_cons_ne_nil ok _ _ hc _ _ _)
    | cons s sp =>
      rw [MatchG_cons_ne _ _ _ hc] at h
      exact ⟨_, _, h.2.2⟩

/-- a non-BN unit never ends as BN -/
theorem MatchG_kept {p1 : BidiClass} {cs rs sp : List BidiClass} (h : MatchG ok p1 cs rs sp) :
    ∀ (k : Nat) (c : BidiClass), cs[k]? = some c → c ≠ BN → ∃ r, rs[k]? = some r ∧ r ≠ BN := by
  induction cs generalizing p1 rs sp with
  | nil => intro k c hk; simp at hk
  | cons x cs ih =>
    intro k c hk hc
    cases rs with
    | nil => exact absurd h (MatchG_cons_nil ok _ _ _ _)
    | cons r0 rs =>
      cases k with
      | zero =>
        simp only [List.getElem?_cons_zero, Option.some.injEq] at hk
        subst hk
        cases sp with
        | nil => exact absurd h (MatchG_cons_ne_nil ok _ _ hc _ _ _)
        | cons s sp =>
          rw [MatchG_cons_ne _ _ _ hc] at h
          exact ⟨r0, by simp, h.2.1⟩
      | succ k =>
        obtain ⟨p1', sp', ht⟩ := MatchG_tail ok h
        simpa using ih ht k c (by simpa using hk) hc

/-- the first non-BN unit carries the head of the spec list -/
theorem MatchG_head {p1 : BidiClass} {cs rs sp : List BidiClass} {r : BidiClass} (h : MatchG ok p1 cs rs sp)
    (hh : sp.head? = some r) :
    ∃ q : Nat, (∃ c, cs[q]? = some c ∧ c ≠ BN) ∧ rs[q]? = some r ∧ ∀ i : Nat, i < q → cs[i]? = some BN := by
  induction cs generalizing p1 rs with
  | nil =>
    cases rs <;> cases sp <;> simp_all [MatchG]
  | cons x cs ih =>
    cases rs with
    | nil => exact absurd h (MatchG_cons_nil ok _ _ _ _)
    | cons r0 rs =>
      by_cases hx : x = BN
      · subst hx
        rw [MatchG_cons_BN] at h
        obtain ⟨q, ⟨c, h1, h2⟩, h3, h4⟩ := ih h.2
        refine ⟨q + 1, ⟨c, by simpa using h1, h2⟩, by simpa using h3, ?_⟩
        intro i hi
        cases i with
        | zero => simp
        | succ i => simpa using h4 i (by omega)
      · cases sp with
        | nil => simp at hh
        | cons s sp =>
          rw [MatchG_cons_ne _ _ _ hx] at h
          simp only [List.head?_cons, Option.some.injEq] at hh
          refine ⟨0, ⟨x, by simp, hx⟩, by simp [h.1, hh], ?_⟩
          intro i hi; omega

end generic

/-- a BN unit ends as BN, ON, or with the final type of the next non-BN unit -/
theorem MatchG_bn7 {p1 : BidiClass} {cs rs sp : List BidiClass} (h : MatchG ok7 p1 cs rs sp) :
    ∀ p : Nat, cs[p]? = some BN → ∃ r, rs[p]? = some r ∧ (r = BN ∨ r = ON ∨
      ∃ q : Nat, p < q ∧ (∃ c, cs[q]? = some c ∧ c ≠ BN) ∧ rs[q]? = some r ∧
        ∀ i : Nat, p < i → i < q → cs[i]? = some BN) := by
  induction cs generalizing p1 rs sp with
  | nil => intro p hp; simp at hp
  | cons x cs ih =>
    intro p hp
    cases rs with
    | nil => exact absurd h (MatchG_cons_nil ok7 _ _ _ _)
    | cons r0 rs =>
      cases p with
      | zero =>
        simp only [List.getElem?_cons_zero, Option.some.injEq] at hp
        subst hp
        rw [MatchG_cons_BN] at h
        refine ⟨r0, by simp, ?_⟩
        rcases h.1.1 with h1 | h1 | h1
        · exact Or.inl h1
        · exact Or.inr (Or.inl h1)
        · obtain ⟨q, ⟨c, h2, h3⟩, h4, h5⟩ := MatchG_head ok7 h.2 h1.1
          refine Or.inr (Or.inr ⟨q + 1, by omega, ⟨c, by simpa using h2, h3⟩, by simpa using h4, ?_⟩)
          intro i hi1 hi2
          cases i with
          | zero => omega
          | succ i => simpa using h5 i (by omega)
      | succ p =>
        obtain ⟨p1', sp', ht⟩ := MatchG_tail ok7 h
        obtain ⟨r, hr, hcases⟩ := ih ht p (by simpa using hp)
        refine ⟨r, by simpa using hr, ?_⟩
        rcases hcases with h1 | h1 | ⟨q, hq, ⟨c, h2, h3⟩, h4, h5⟩
        · exact Or.inl h1
        · exact Or.inr (Or.inl h1)
        · refine Or.inr (Or.inr ⟨q + 1, by omega, ⟨c, by simpa using h2, h3⟩, by simpa using h4, ?_⟩)
          intro i hi1 hi2
          cases i with
          | zero => omega
          | succ i => simpa using h5 i (by omega) (by omega)

/-! ### the trail of a bracket -/

/-- a W1 state next to which no BN unit is rewritten -/
def calm (g : BidiClass) : Prop := g ≠ ES ∧ g ≠ CS ∧ g ≠ ET

/-- the entry types of the units in a trail: removed (BN) or an original NSM (possibly overridden) -/
def inNLR (c : BidiClass) : Prop := c = BN ∨ c = NSM ∨ c = L ∨ c = R

theorem calm_sC1 {g x : BidiClass} (hg : calm g) (hx : x = NSM ∨ x = L ∨ x = R) : calm (sC1 g x) := by
  obtain ⟨h1, h2, h3⟩ := hg
  rcases hx with rfl | rfl | rfl
  · cases g <;> simp_all [calm, sC1]
  · simp [calm, sC1]
  · simp [calm, sC1]

theorem calm_not_near {g : BidiClass} (hg : calm g) {d : BidiClass} (hd : calm d) : ¬ nearSep g (some d) := by
  obtain ⟨h1, h2, h3⟩ := hg
  obtain ⟨d1, d2, d3⟩ := hd
  rintro (h | h | h | h)
  · rcases h with h | h
    · exact h1 h
    · exact h2 h
  · exact d1 (Option.some.inj h)
  · exact d2 (Option.some.inj h)
  · exact d3 (Option.some.inj h)

theorem nxt1_calm {g : BidiClass} (hg : calm g) (cs : List BidiClass) :
    ∀ k : Nat, (∃ c, cs[k]? = some c ∧ c ≠ BN) → (∀ i : Nat, i ≤ k → ∃ c, cs[i]? = some c ∧ inNLR c) →
      ∃ d, nxt1 g cs = some d ∧ calm d := by
  induction cs with
  | nil => intro k ⟨c, hk, _⟩; simp at hk
  | cons x cs ih =>
    intro k hk hall
    by_cases hx : x = BN
    · subst hx
      cases k with
      | zero =>
        obtain ⟨c, h1, h2⟩ := hk
        simp only [List.getElem?_cons_zero, Option.some.injEq] at h1
        exact absurd h1.symm h2
      | succ k =>
        rw [nxt1_cons_BN]
        refine ih k (by simpa using hk) ?_
        intro i hi
        simpa using hall (i + 1) (by omega)
    · rw [nxt1_cons_ne _ _ hx]
      obtain ⟨c, h1, h2⟩ := hall 0 (by omega)
      simp only [List.getElem?_cons_zero, Option.some.injEq] at h1
      subst h1
      refine ⟨_, rfl, calm_sC1 hg ?_⟩
      rcases h2 with h2 | h2 | h2 | h2
      · exact absurd h2 hx
      · exact Or.inl h2
      · exact Or.inr (Or.inl h2)
      · exact Or.inr (Or.inr h2)

theorem MatchG_calm {g : BidiClass} {cs rs sp : List BidiClass} (h : MatchG ok7 g cs rs sp) (hg : calm g) :
    ∀ k : Nat, (∃ c, cs[k]? = some c ∧ c ≠ BN) → (∀ i : Nat, i ≤ k → ∃ c, cs[i]? = some c ∧ inNLR c) →
      ∀ p : Nat, p < k → cs[p]? = some BN → rs[p]? = some BN := by
  induction cs generalizing g rs sp with
  | nil => intro k ⟨c, hk, _⟩; simp at hk
  | cons x cs ih =>
    intro k hk hall p hpk hp
    cases rs with
    | nil => exact absurd h (MatchG_cons_nil ok7 _ _ _ _)
    | cons r0 rs =>
      cases k with
      | zero => omega
      | succ k =>
        have hk' : ∃ c, cs[k]? = some c ∧ c ≠ BN := by simpa using hk
        have hall' : ∀ i : Nat, i ≤ k → ∃ c, cs[i]? = some c ∧ inNLR c := by
          intro i hi
          simpa using hall (i + 1) (by omega)
        by_cases hx : x = BN
        · subst hx
          rw [MatchG_cons_BN] at h
          cases p with
          | zero =>
            simp only [List.getElem?_cons_zero, Option.some.injEq]
            by_cases hr : r0 = BN
            · exact hr
            · exfalso
              obtain ⟨d, hd1, hd2⟩ := nxt1_calm hg cs k hk' hall'
              have := h.1.2 hr
              rw [hd1] at this
              exact calm_not_near hg hd2 this
          | succ p => simpa using ih h.2 hg k hk' hall' p (by omega) (by simpa using hp)
        · cases sp with
          | nil => exact absurd h (MatchG_cons_ne_nil ok7 _ _ hx _ _ _)
          | cons s sp =>
            rw [MatchG_cons_ne _ _ _ hx] at h
            cases p with
            | zero =>
              simp only [List.getElem?_cons_zero, Option.some.injEq] at hp
              exact absurd hp hx
            | succ p =>
              obtain ⟨c, h1, h2⟩ := hall 0 (by omega)
              simp only [List.getElem?_cons_zero, Option.some.injEq] at h1
              subst h1
              have hg' : calm (sC1 g x) := by
                apply calm_sC1 hg
                rcases h2 with h2 | h2 | h2 | h2
                · exact absurd h2 hx
                · exact Or.inl h2
                · exact Or.inr (Or.inl h2)
                · exact Or.inr (Or.inr h2)
              simpa using ih h.2.2 hg' k hk' hall' p (by omega) (by simpa using hp)

/-- after a non-BN unit `s` whose entry type is not NSM / ES / CS / ET, as long as only BN / NSM / L / R
    units follow up to a non-BN unit `k`, the BN units in between stay BN -/
theorem MatchG_trail {p1 : BidiClass} {cs rs sp : List BidiClass} (h : MatchG ok7 p1 cs rs sp) :
    ∀ s k : Nat, (∃ c0, cs[s]? = some c0 ∧ c0 ≠ BN ∧ c0 ≠ NSM ∧ calm c0) → (∃ c, cs[k]? = some c ∧ c ≠ BN) →
      (∀ i : Nat, s < i → i ≤ k → ∃ c, cs[i]? = some c ∧ inNLR c) →
      ∀ p : Nat, s < p → p < k → cs[p]? = some BN → rs[p]? = some BN := by
  induction cs generalizing p1 rs sp with
  | nil => intro s k ⟨c0, hs, _⟩; simp at hs
  | cons x cs ih =>
    intro s k hs hk hall p hsp hpk hp
    cases rs with
    | nil => exact absurd h (MatchG_cons_nil ok7 _ _ _ _)
    | cons r0 rs =>
      cases p with
      | zero => omega
      | succ p =>
        cases k with
        | zero => omega
        | succ k =>
          have hk' : ∃ c, cs[k]? = some c ∧ c ≠ BN := by simpa using hk
          have hp' : cs[p]? = some BN := by simpa using hp
          cases s with
          | zero =>
            obtain ⟨c0, h1, h2, h3, h4⟩ := hs
            simp only [List.getElem?_cons_zero, Option.some.injEq] at h1
            subst h1
            cases sp with
            | nil => exact absurd h (MatchG_cons_ne_nil ok7 _ _ h2 _ _ _)
            | cons s0 sp =>
              rw [MatchG_cons_ne _ _ _ h2, sC1_of_ne_NSM _ _ h3] at h
              have hall' : ∀ i : Nat, i ≤ k → ∃ c, cs[i]? = some c ∧ inNLR c := by
                intro i hi
                simpa using hall (i + 1) (by omega) (by omega)
              simpa using MatchG_calm h.2.2 h4 k hk' hall' p (by omega) hp'
          | succ s =>
            obtain ⟨p1', sp', ht⟩ := MatchG_tail ok7 h
            have hall' : ∀ i : Nat, s < i → i ≤ k → ∃ c, cs[i]? = some c ∧ inNLR c := by
              intro i hi1 hi2
              simpa using hall (i + 1) (by omega) (by omega)
            simpa using ih ht s k (by simpa using hs) hk' hall' p (by omega) (by omega) hp'

end UBidi.Lemmas.C01Weak
