/-
  C01 / composition, part 5: the Model's isolating run sequences (general path) as the loop over the
  sequences needs them (`model_seqs`): every sequence is made of level runs of the paragraph, in
  increasing order; its `sos` / `eos` are L or R; if it has a kept unit at all then its first run has
  one; and the units of all sequences together are exactly the units `0 … n-1`, each once.
-/
import UBidi.Lemmas.C01Seq
import UBidi.Lemmas.C01ComposeFold
namespace UBidi.Lemmas.C01Compose
open UBidi UBidi.BidiClass UBidi.Lemmas.C01Seq UBidi.Lemmas.C01Neutral
open UBidi.Props.C13 (Contig contig_bounds)

theorem keepU_eq_keptAt (cls : List BidiClass) : keepU cls = keptAt cls := rfl

/-! ### the runs are distributed over the sequences -/

theorem perm_insert_mid {α} (A B' : List α) (r : α) : (A ++ r :: B').Perm (A ++ B' ++ [r]) :=
  List.perm_middle.trans (List.perm_append_singleton r (A ++ B')).symm

theorem gStep_perm (b1 b2 : Bool) (st : KState) (r : Nat × Nat) :
    ((gStep b1 b2 st r).done ++ (gStep b1 b2 st r).entries).flatten.Perm
      ((st.done ++ st.entries).flatten ++ [r]) := by
  obtain ⟨entries, done⟩ := st
  cases entries with
  | nil =>
    cases b1 <;> cases b2 <;> simp [gStep]
    all_goals exact (List.perm_append_singleton r _).symm
  | cons h tl =>
    cases b1 <;> cases b2 <;> simp only [gStep, Bool.false_and, Bool.true_and, List.isEmpty_cons, Bool.not_false,
      Bool.false_eq_true, if_false, if_true, List.headD_cons, List.tail_cons, List.flatten_append,
      List.flatten_cons, List.flatten_nil, List.nil_append, List.append_nil, List.append_assoc]
    · -- no pop, not an initiator: done ++ [[r]], entries
      have := perm_insert_mid done.flatten (h ++ tl.flatten) r
      simpa [List.append_assoc] using this
    · have := perm_insert_mid done.flatten (h ++ tl.flatten) r
      simpa [List.append_assoc] using this
    · have := perm_insert_mid (done.flatten ++ h) tl.flatten r
      simpa [List.append_assoc] using this
    · have := perm_insert_mid (done.flatten ++ h) tl.flatten r
      simpa [List.append_assoc] using this

theorem mfold_perm (cls : List BidiClass) : ∀ (runs : List (Nat × Nat)) (st : KState),
    ((runs.foldl (mStep cls) st).done ++ (runs.foldl (mStep cls) st).entries).flatten.Perm
      ((st.done ++ st.entries).flatten ++ runs)
  | [], st => by simp
  | r :: runs, st => by
    rw [List.foldl_cons]
    refine (mfold_perm cls runs (mStep cls st r)).trans ?_
    have h := gStep_perm (cls.getD r.1 ON == PDI) (endClassOf cls r).isIsolateInitiator st r
    have : ((mStep cls st r).done ++ (mStep cls st r).entries).flatten = _ := rfl
    rw [show r :: runs = [r] ++ runs from rfl, ← List.append_assoc]
    exact List.Perm.append_right runs h

theorem flatten_flatMap {α β} (f : α → List β) (X : List (List α)) :
    X.flatten.flatMap f = X.flatMap (fun a => a.flatMap f) := by
  induction X with
  | nil => rfl
  | cons a X ih => simp [List.flatMap_append, ih]

theorem contig_indices : ∀ (runs : List (Nat × Nat)) (p q : Nat), Contig p runs q →
    runs.flatMap runIndices = List.range' p (q - p)
  | [], p, q, h => by simp only [Contig] at h; subst h; simp
  | r :: runs, p, q, h => by
    obtain ⟨h1, h2, h3⟩ := h
    have hb := (contig_bounds h3).1
    rw [List.flatMap_cons, contig_indices runs r.2 q h3, runIndices, h1.symm]
    rw [show q - r.1 = (r.2 - r.1) + (q - r.2) by omega, ← List.range'_append_1]
    congr 2; omega

theorem contig_tile : ∀ (runs : List (Nat × Nat)) (p q : Nat), Contig p runs q → Expand.RunsTile p runs q
  | [], _, _, h => h
  | r :: runs, _, q, h => ⟨h.1, h.2.1, contig_tile runs r.2 q h.2.2⟩

theorem seqBounds_LR (pl : Nat) (cls : List BidiClass) (lv : List Nat) (rs : List (Nat × Nat)) :
    ((seqBounds pl cls lv rs).1.sos = L ∨ (seqBounds pl cls lv rs).1.sos = R) ∧
    ((seqBounds pl cls lv rs).1.eos = L ∨ (seqBounds pl cls lv rs).1.eos = R) := by
  unfold seqBounds
  split
  · exact ⟨Or.inl rfl, Or.inl rfl⟩
  · exact ⟨levelBidiClass_LR _, levelBidiClass_LR _⟩

/-- the first kept unit of a run that has one -/
theorem first_kept (cls : List BidiClass) (r : Nat × Nat) (h1 : r.1 ≤ r.2) (h2 : r.2 ≤ cls.length)
    (hk : toKs cls r.1 < toKs cls r.2) :
    ∃ i0 tl, (runIndices r).filter (keptAt cls) = i0 :: tl ∧ r.1 ≤ i0 ∧ i0 < r.2 ∧ keptAt cls i0 = true := by
  have hm := map_toKs_filter_range' cls r.1 (r.2 - r.1) (by omega)
  rw [show r.1 + (r.2 - r.1) = r.2 by omega] at hm
  cases hf : (runIndices r).filter (keptAt cls) with
  | nil =>
    unfold runIndices at hf
    rw [hf] at hm
    have := congrArg List.length hm
    simp at this
    omega
  | cons i0 tl =>
    have hmem : i0 ∈ (runIndices r).filter (keptAt cls) := by rw [hf]; simp
    rw [List.mem_filter, runIndices, List.mem_range'_1] at hmem
    exact ⟨i0, tl, rfl, hmem.1.1, by omega, hmem.2⟩

/-- **the Model's sequences** on the general path, for level runs that tile `[0, n)` and start at kept
    units (as `explicit_unit` provides) -/
theorem model_seqs (pl : Nat) (cls : List BidiClass) (lv : List Nat) (runs : List (Nat × Nat))
    (hc : Contig 0 runs cls.length) (hstart : ∀ r ∈ runs, r.1 = 0 ∨ keptAt cls r.1 = true) :
    let seqs := (isolatingRunSequences pl cls lv runs true).1
    (∀ s ∈ seqs, Expand.SeqOK cls.length s ∧ s.runs ≠ [] ∧ (s.sos = L ∨ s.sos = R) ∧ (s.eos = L ∨ s.eos = R) ∧
      (∀ r ∈ s.runs, r ∈ runs) ∧
      (keptOf cls s ≠ [] → ∃ i0 tl, keptOf cls s = i0 :: tl ∧ (s.runs.headD (0, 0)).1 ≤ i0 ∧
        i0 < (s.runs.headD (0, 0)).2 ∧ keptAt cls i0 = true)) ∧
    (seqs.flatMap (·.indices)).Perm (List.range' 0 cls.length) := by
  intro seqs
  have hrlt : ∀ r ∈ runs, r.1 < r.2 := fun r hr => ((contig_bounds hc).2 r hr).2.1
  have hok := Expand.Pipeline.sequences_ok_of_tile cls.length pl cls lv runs true (contig_tile runs 0 _ hc)
  have hne := (Lemmas.C07.isolatingRunSequences_ok pl cls lv runs true hrlt).2
  obtain ⟨garbage, D, hdone, hgarb, hgood, _⟩ := fold_runs_tau cls runs hc hstart
  have hmem := mfold_mem cls (fun r => r ∈ runs) runs ⟨[], []⟩ (by simp) (fun _ h => h)
  have hperm := mfold_perm cls runs ⟨[], []⟩
  have hseqs : seqs = ((runs.foldl (mStep cls) ⟨[], []⟩).done ++ (runs.foldl (mStep cls) ⟨[], []⟩).entries).map
      (fun rs => (seqBounds pl cls lv rs).1) := by
    show (isolatingRunSequences pl cls lv runs true).1 = _
    rw [general_path pl cls lv runs hrlt]
    simp only [List.map_map]
    rfl
  generalize runs.foldl (mStep cls) ⟨[], []⟩ = Kf at hdone hgood hmem hperm hseqs
  constructor
  · intro s hs
    refine ⟨hok s hs, hne s hs, ?_⟩
    rw [hseqs, List.mem_map] at hs
    obtain ⟨rs, hrs, rfl⟩ := hs
    have hruns := Lemmas.C07.seqBounds_runs pl cls lv rs
    refine ⟨(seqBounds_LR pl cls lv rs).1, (seqBounds_LR pl cls lv rs).2, ?_, ?_⟩
    · rw [hruns]
      exact (hmem rs (by
        rcases List.mem_append.1 hrs with h | h
        · exact List.mem_append.2 (Or.inr h)
        · exact List.mem_append.2 (Or.inl h))).2
    · intro hk
      rw [hdone, List.append_assoc] at hrs
      rcases List.mem_append.1 hrs with hg | hg
      · -- a sequence without kept unit
        obtain ⟨g1, g2⟩ := hgarb rs hg
        have := (bounds_empty pl cls lv rs g1 g2).2.2
        exact absurd this hk
      · obtain ⟨g1, g2⟩ := hgood rs (by
          rcases List.mem_append.1 hg with h | h
          · exact List.mem_append.2 (Or.inr h)
          · exact List.mem_append.2 (Or.inl h))
        obtain ⟨r0, rest, hr0⟩ := List.exists_cons_of_ne_nil g1
        obtain ⟨a1, a2, a3⟩ := g2 r0 (by rw [hr0]; simp)
        obtain ⟨i0, tl, f1, f2, f3, f4⟩ := first_kept cls r0 (by omega) a2 a3
        refine ⟨i0, tl ++ (rest.flatMap runIndices).filter (keptAt cls), ?_, ?_, ?_, f4⟩
        · unfold keptOf IRSeq.indices
          rw [hruns, hr0, List.flatMap_cons, List.filter_append, keepU_eq_keptAt, f1]
          rfl
        · rw [hruns, hr0]; exact f2
        · rw [hruns, hr0]; exact f3
  · have e1 : seqs.flatMap (·.indices) =
        (Kf.done ++ Kf.entries).flatten.flatMap runIndices := by
      rw [hseqs, List.flatMap_map]
      unfold IRSeq.indices
      simp only [Lemmas.C07.seqBounds_runs]
      exact (flatten_flatMap runIndices _).symm
    rw [e1]
    have := List.Perm.flatMap_right runIndices hperm
    simp only [List.flatten_nil, List.append_nil, List.nil_append] at this
    rw [contig_indices runs 0 _ hc] at this
    simpa using this

end UBidi.Lemmas.C01Compose
