/-
  C02 helper lemmas: `iiStep` by components, `setRange`, the per-unit
  expansion `expand` of per-character classes, and tilings (`SegsFrom`).
-/
import UBidi.Model.Initial
import UBidi.Lemmas.C02Char
import UBidi.Lemmas.C02Width
namespace UBidi.Lemmas.C02
open UBidi BidiClass Spec

/-! ### `iiStep`, by components -/

section step
variable (ds : DataSource) (t : Text) (split : Bool) (dflt : Option Nat) (st : IIState) (s : Seg)

theorem iiStep_stack :
    (iiStep ds t split dflt st s).stack =
      if ds.cls s.cp == B then (if split then [] else st.stack)
      else if isIsoInit (ds.cls s.cp) then s.start :: st.stack
      else if ds.cls s.cp == PDI then st.stack.tail else st.stack := by
  simp only [iiStep]
  generalize ds.cls s.cp = c
  cases c <;> simp only [isIsoInit] <;> (try rfl)
  case B => cases split <;> rfl
  all_goals
    cases st.stack <;> simp <;> split <;> rfl

theorem iiStep_paraLevel :
    (iiStep ds t split dflt st s).paraLevel =
      if ds.cls s.cp == B then (if split then dflt else st.paraLevel)
      else if isStrong (ds.cls s.cp) && st.stack.isEmpty && st.paraLevel.isNone
        then some (lvlOf (ds.cls s.cp)) else st.paraLevel := by
  simp only [iiStep]
  generalize ds.cls s.cp = c
  cases c <;> simp only [isStrong] <;> (try rfl)
  case B => cases split <;> rfl
  all_goals
    cases st.stack <;> simp <;> split <;> simp_all [lvlOf]

theorem iiStep_paraStart :
    (iiStep ds t split dflt st s).paraStart =
      if ds.cls s.cp == B && split then s.start + t.enc.charLen s.cp else st.paraStart := by
  simp only [iiStep]
  generalize ds.cls s.cp = c
  cases c <;> (try rfl)
  case B => cases split <;> rfl
  all_goals
    cases st.stack <;> simp <;> split <;> rfl

theorem iiStep_paras :
    (iiStep ds t split dflt st s).paras =
      if ds.cls s.cp == B && split then
        st.paras ++ [{ start := st.paraStart, stop := s.start + t.enc.charLen s.cp,
                       level := st.paraLevel.getD 0 }]
      else st.paras := by
  simp only [iiStep]
  generalize ds.cls s.cp = c
  cases c <;> (try rfl)
  case B => cases split <;> rfl
  all_goals
    cases st.stack <;> simp <;> split <;> rfl

theorem iiStep_flags_length :
    (iiStep ds t split dflt st s).flags.length =
      if ds.cls s.cp == B && split then st.flags.length + 1 else st.flags.length := by
  simp only [iiStep]
  generalize ds.cls s.cp = c
  cases c <;> (try rfl)
  case B => cases split <;> simp
  all_goals
    cases st.stack <;> simp <;> split <;> rfl

theorem iiStep_classes :
    (iiStep ds t split dflt st s).classes =
      let X := st.classes ++ List.replicate (t.enc.charLen s.cp) (ds.cls s.cp)
      if isStrong (ds.cls s.cp) then
        (match st.stack.head? with
         | some k => if X.getD k ON == FSI
                     then setRange X k (widthAt t k) (fsiTo (ds.cls s.cp)) else X
         | none => X)
      else X := by
  simp only [iiStep]
  generalize ds.cls s.cp = c
  cases c <;> simp only [isStrong] <;> (try rfl)
  case B => cases split <;> rfl
  all_goals
    cases st.stack <;> simp <;> split <;> simp_all [fsiTo, widthAt] <;> (split <;> simp [*])

theorem iiStep_err :
    (iiStep ds t split dflt st s).err =
      let X := st.classes ++ List.replicate (t.enc.charLen s.cp) (ds.cls s.cp)
      if isStrong (ds.cls s.cp) then
        (match st.stack.head? with
         | some k => if X.getD k ON == FSI
                     then orErr st.err (if k + widthAt t k ≤ X.length then none
                                        else some .indexOutOfBounds)
                     else st.err
         | none => st.err)
      else st.err := by
  simp only [iiStep]
  generalize ds.cls s.cp = c
  cases c <;> simp only [isStrong] <;> (try rfl)
  case B => cases split <;> rfl
  all_goals
    cases st.stack <;> simp <;> split <;> simp_all [widthAt] <;> (split <;> simp [*])

end step

/-! ### setRange -/

theorem setRange_length {α} (v : α) : ∀ (n : Nat) (xs : List α) (i : Nat),
    (setRange xs i n v).length = xs.length := by
  intro n
  induction n with
  | zero => intro xs i; rfl
  | succ n ih => intro xs i; simp [setRange, ih]

theorem getElem?_setRange {α} (v : α) : ∀ (n : Nat) (xs : List α) (i p : Nat),
    (setRange xs i n v)[p]? = if i ≤ p ∧ p < i + n then xs[p]?.map (fun _ => v) else xs[p]? := by
  intro n
  induction n with
  | zero => intro xs i p; simp [setRange]; omega
  | succ n ih =>
    intro xs i p
    simp only [setRange, ih, List.getElem?_set]
    by_cases h1 : i + n = p
    · subst h1
      have h2 : (i ≤ i + n ∧ i + n < i + (n + 1)) := by omega
      simp only [h2, if_true]
      split
      · omega
      · by_cases h3 : i + n < xs.length
        · simp [h3]
        · simp [h3]
    · simp only [h1, if_false]
      have : (i ≤ p ∧ p < i + n) ↔ (i ≤ p ∧ p < i + (n + 1)) := by omega
      simp only [this]

/-- overwriting a whole block of equal entries -/
theorem setRange_block (A D : List BidiClass) (n : Nat) (k v : BidiClass) :
    setRange (A ++ List.replicate n k ++ D) A.length n v = A ++ List.replicate n v ++ D := by
  apply List.ext_getElem?
  intro p
  rw [getElem?_setRange]
  simp only [List.getElem?_append, List.getElem?_replicate, List.length_append, List.length_replicate]
  grind

/-! ### tilings -/

theorem segsFrom_append : ∀ (xs ys : List Seg) (a c : Nat),
    SegsFrom a (xs ++ ys) c ↔ ∃ b, SegsFrom a xs b ∧ SegsFrom b ys c := by
  intro xs
  induction xs with
  | nil => intro ys a c; simp [SegsFrom]
  | cons x xs ih =>
    intro ys a c
    simp only [List.cons_append, SegsFrom, ih]
    constructor
    · rintro ⟨h1, h2, b, h3, h4⟩; exact ⟨b, ⟨h1, h2, h3⟩, h4⟩
    · rintro ⟨b, ⟨h1, h2, h3⟩, h4⟩; exact ⟨h1, h2, b, h3, h4⟩

theorem segsFrom_snoc (xs : List Seg) (a b : Nat) (s : Seg) (h : SegsFrom a xs b)
    (hs : s.start = b) (hl : 0 < s.len) : SegsFrom a (xs ++ [s]) (b + s.len) := by
  rw [segsFrom_append]
  exact ⟨b, h, by simp [SegsFrom, hs, hl]⟩

theorem segsFrom_le : ∀ (xs : List Seg) (a b : Nat), SegsFrom a xs b → a ≤ b := by
  intro xs
  induction xs with
  | nil => intro a b h; simp [SegsFrom] at h; omega
  | cons x xs ih => intro a b h; have := ih _ _ h.2.2; omega

theorem segsFrom_lt_of_ne_nil (xs : List Seg) (a b : Nat) (h : SegsFrom a xs b) (hne : xs ≠ []) :
    a < b := by
  cases xs with
  | nil => exact absurd rfl hne
  | cons x xs => have := segsFrom_le _ _ _ h.2.2; have := h.2.1; omega

theorem segsFrom_mem : ∀ (xs : List Seg) (a b : Nat), SegsFrom a xs b → ∀ s ∈ xs,
    a ≤ s.start ∧ s.start + s.len ≤ b ∧ 0 < s.len := by
  intro xs
  induction xs with
  | nil => intro a b _ s hs; simp at hs
  | cons x xs ih =>
    intro a b h s hs
    obtain ⟨h1, h2, h3⟩ := h
    rcases List.mem_cons.1 hs with rfl | hs
    · have := segsFrom_le _ _ _ h3; omega
    · have := ih _ _ h3 s hs; omega

/-- in a tiling, the character found at a segment's start offset is that segment -/
theorem segsFrom_find_start : ∀ (xs : List Seg) (a b : Nat), SegsFrom a xs b → ∀ s ∈ xs,
    xs.find? (fun x => x.start == s.start) = some s := by
  intro xs
  induction xs with
  | nil => intro a b _ s hs; simp at hs
  | cons x xs ih =>
    intro a b h s hs
    obtain ⟨h1, h2, h3⟩ := h
    rcases List.mem_cons.1 hs with rfl | hs
    · simp
    · have := (segsFrom_mem _ _ _ h3 s hs).1
      have hne : (x.start == s.start) = false := by simp; omega
      rw [List.find?_cons, hne]
      exact ih _ _ h3 s hs

/-- `char_at` at the start of a character of a well-formed text returns that character -/
theorem charAt_start (t : Text) (hwf : t.WF) (s : Seg) (hs : s ∈ t.segs) : t.charAt s.start = some s :=
  segsFrom_find_start _ _ _ hwf.tiles s hs

theorem widthAt_start (t : Text) (hwf : t.WF) (s : Seg) (hs : s ∈ t.segs) : widthAt t s.start = s.len := by
  simp [widthAt, charAt_start t hwf s hs]

theorem segsFrom_unique : ∀ (xs : List Seg) (a b b' : Nat), SegsFrom a xs b → SegsFrom a xs b' → b = b' := by
  intro xs
  induction xs with
  | nil => intro a b b' h h'; simp [SegsFrom] at h h'; omega
  | cons x xs ih => intro a b b' h h'; exact ih _ _ _ h.2.2 h'.2.2

/-- first unit of a tiling -/
def chunkStart (ch : List Seg) : Nat := (ch.head?.map (·.start)).getD 0
/-- one past the last unit of a tiling -/
def chunkStop (ch : List Seg) : Nat := (ch.getLast?.map (fun s => s.start + s.len)).getD 0

theorem chunkStart_eq (ch : List Seg) (a b : Nat) (h : SegsFrom a ch b) (hne : ch ≠ []) :
    chunkStart ch = a := by
  cases ch with
  | nil => exact absurd rfl hne
  | cons x xs => simp [chunkStart, h.1]

theorem chunkStop_snoc (xs : List Seg) (s : Seg) : chunkStop (xs ++ [s]) = s.start + s.len := by
  simp [chunkStop]

theorem chunkStop_eq : ∀ (ch : List Seg) (a b : Nat), SegsFrom a ch b → ch ≠ [] → chunkStop ch = b := by
  intro ch
  induction ch with
  | nil => intro a b _ hne; exact absurd rfl hne
  | cons x xs ih =>
    intro a b h hne
    cases xs with
    | nil => simp [chunkStop, SegsFrom] at h ⊢; omega
    | cons y ys =>
      have := ih _ _ h.2.2 (by simp)
      simpa [chunkStop] using this

/-! ### expand -/

/-- per-unit classes from per-character classes -/
def expand : List Seg → List BidiClass → List BidiClass
  | s :: ss, k :: ks => List.replicate s.len k ++ expand ss ks
  | _, _ => []

@[simp] theorem expand_nil_left (ks : List BidiClass) : expand [] ks = [] := by
  cases ks <;> rfl
@[simp] theorem expand_nil_right (ss : List Seg) : expand ss [] = [] := by
  cases ss <;> rfl
@[simp] theorem expand_cons (s : Seg) (ss : List Seg) (k : BidiClass) (ks : List BidiClass) :
    expand (s :: ss) (k :: ks) = List.replicate s.len k ++ expand ss ks := rfl

theorem expand_append : ∀ (ss ss' : List Seg) (ks ks' : List BidiClass), ss.length = ks.length →
    expand (ss ++ ss') (ks ++ ks') = expand ss ks ++ expand ss' ks' := by
  intro ss
  induction ss with
  | nil => intro ss' ks ks' h; cases ks <;> simp_all
  | cons s ss ih =>
    intro ss' ks ks' h
    cases ks with
    | nil => simp at h
    | cons k ks => simp at h; simp [ih ss' ks ks' h]

theorem expand_snoc (ss : List Seg) (s : Seg) (ks : List BidiClass) (k : BidiClass)
    (h : ss.length = ks.length) :
    expand (ss ++ [s]) (ks ++ [k]) = expand ss ks ++ List.replicate s.len k := by
  rw [expand_append _ _ _ _ h]; simp

theorem expand_length : ∀ (ss : List Seg) (ks : List BidiClass) (a b : Nat), SegsFrom a ss b →
    ss.length = ks.length → a + (expand ss ks).length = b := by
  intro ss
  induction ss with
  | nil => intro ks a b h _; simp [SegsFrom] at h; simp [h]
  | cons s ss ih =>
    intro ks a b h hl
    cases ks with
    | nil => simp at hl
    | cons k ks =>
      have := ih ks _ _ h.2.2 (by simpa using hl)
      simp; omega

/-- every unit of character `i` carries class `ks[i]` -/
theorem expand_getD : ∀ (ss : List Seg) (ks : List BidiClass) (A C : List BidiClass) (b : Nat),
    SegsFrom A.length ss b → ss.length = ks.length → ∀ i, i < ss.length → ∀ j, j < (ss.getD i default).len →
    (A ++ expand ss ks ++ C).getD ((ss.getD i default).start + j) ON = ks.getD i ON := by
  intro ss
  induction ss with
  | nil => intro ks A C b _ _ i hi; simp at hi
  | cons s ss ih =>
    intro ks A C b h hl i hi j hj
    cases ks with
    | nil => simp at hl
    | cons k ks =>
      obtain ⟨h1, h2, h3⟩ := h
      cases i with
      | zero =>
        simp only [List.getD_cons_zero] at hj ⊢
        simp only [expand_cons, List.getD_eq_getElem?_getD, List.append_assoc]
        rw [List.getElem?_append_right (by omega), List.getElem?_append_left (by simp; omega)]
        have : s.start + j - A.length < s.len := by omega
        simp [this]
      | succ i =>
        simp only [List.getD_cons_succ] at hj ⊢
        have := ih ks (A ++ List.replicate s.len k) C b (by simpa [h1] using h3) (by simpa using hl)
          i (by simpa using hi) j hj
        simpa [List.append_assoc] using this

/-- overwriting the units of character `i` -/
theorem expand_setRange (v : BidiClass) : ∀ (ss : List Seg) (ks : List BidiClass) (A C : List BidiClass) (b : Nat),
    SegsFrom A.length ss b → ss.length = ks.length → ∀ i, i < ss.length →
    setRange (A ++ expand ss ks ++ C) (ss.getD i default).start (ss.getD i default).len v
      = A ++ expand ss (ks.set i v) ++ C := by
  intro ss
  induction ss with
  | nil => intro ks A C b _ _ i hi; simp at hi
  | cons s ss ih =>
    intro ks A C b h hl i hi
    cases ks with
    | nil => simp at hl
    | cons k ks =>
      obtain ⟨h1, h2, h3⟩ := h
      cases i with
      | zero =>
        simp only [List.getD_cons_zero, expand_cons, List.set_cons_zero, h1]
        have := setRange_block A (expand ss ks ++ C) s.len k v
        simpa [List.append_assoc] using this
      | succ i =>
        simp only [List.getD_cons_succ, List.set_cons_succ, expand_cons]
        have := ih ks (A ++ List.replicate s.len k) C b (by simpa [h1] using h3) (by simpa using hl)
          i (by simpa using hi)
        simpa [List.append_assoc] using this

end UBidi.Lemmas.C02
