/-
  UBidi.Lemmas.ExpandNeutralBrackets — Expand lemma for `identifyBracketPairs` (BD16):
  the pairs found per code unit are the pairs found per character, positions mapped by `pos t`.
-/
import UBidi.Lemmas.ExpandNeutralSeq
namespace UBidi.Expand.Neutral
open UBidi UBidi.BidiClass

/-- a bracket pair of characters as a pair of code-unit positions -/
def mapPair (t : Text) (p : BracketPair) : BracketPair :=
  { p with start := pos t p.start, stop := pos t p.stop }

def mapEntry (t : Text) (x : Nat × Nat × Nat) : Nat × Nat × Nat := (x.1, pos t x.2.1, x.2.2)

def liftBP (t : Text) (st : BPState) : BPState :=
  { stack := st.stack.map (mapEntry t), pairs := st.pairs.map (mapPair t), stopped := st.stopped }

theorem findOpening_map (t : Text) (o : Nat) : ∀ (stk : List (Nat × Nat × Nat)),
    findOpening o (stk.map (mapEntry t)) =
      (findOpening o stk).map (fun x => (mapEntry t x.1, x.2.map (mapEntry t)))
  | [] => rfl
  | e :: rest => by
    simp only [List.map_cons, findOpening]
    have : (mapEntry t e).1 = e.1 := rfl
    rw [this]
    split
    · rfl
    · exact findOpening_map t o rest

theorem findOpening_mem (o : Nat) : ∀ (stk : List (Nat × Nat × Nat)) (e : Nat × Nat × Nat)
    (rest : List (Nat × Nat × Nat)), findOpening o stk = some (e, rest) → e ∈ stk ∧ ∀ x ∈ rest, x ∈ stk
  | [], _, _, h => by simp [findOpening] at h
  | a :: stk, e, rest, h => by
    simp only [findOpening] at h
    split at h
    · simp only [Option.some.injEq, Prod.mk.injEq] at h
      obtain ⟨rfl, rfl⟩ := h
      exact ⟨by simp, fun x hx => by simp [hx]⟩
    · have := findOpening_mem o stk e rest h
      exact ⟨by simp [this.1], fun x hx => by simp [this.2 x hx]⟩

/-- all positions recorded in the state are character numbers `< n` -/
structure BPInv (n : Nat) (st : BPState) : Prop where
  stack : ∀ x ∈ st.stack, x.2.1 < n
  pairs : ∀ p ∈ st.pairs, p.start < n ∧ p.stop < n

theorem bpStep_inv (ds : DataSource) (ocs pcs : Classes) (n : Nat) (st : BPState) (x : Nat × Seg)
    (hx : x.2.start < n) (hi : BPInv n st) : BPInv n (bpStep ds ocs pcs st x) := by
  unfold bpStep
  split
  · exact hi
  · simp only
    split
    · exact hi
    · split
      · exact hi
      · next m _ =>
        split
        · split
          · exact ⟨hi.stack, hi.pairs⟩
          · refine ⟨?_, hi.pairs⟩
            intro y hy
            rcases List.mem_cons.1 hy with rfl | hy
            · exact hx
            · exact hi.stack y hy
        · split
          · next e rest hf =>
            have := findOpening_mem _ _ _ _ hf
            refine ⟨fun y hy => hi.stack y (this.2 y hy), ?_⟩
            intro p hp
            rcases List.mem_append.1 hp with hp | hp
            · exact hi.pairs p hp
            · simp only [List.mem_singleton] at hp
              subst hp
              exact ⟨hi.stack e this.1, hx⟩
          · exact hi

theorem bpStep_lift (ds : DataSource) (t : Text) (hwf : t.WF) (ocs1 pcs1 : Classes)
    (hlo : ocs1.length = t.segs.length) (hlp : pcs1.length = t.segs.length) (st : BPState) (x : Nat × Seg)
    (hx : x.2.start < t.segs.length) :
    bpStep ds (expand t ocs1) (expand t pcs1) (liftBP t st) (x.1, liftSeg t x.2) =
      liftBP t (bpStep ds ocs1 pcs1 st x) := by
  unfold bpStep
  simp only [liftSeg, cget_expand_pos t hwf ocs1 hlo hx, cget_expand_pos t hwf pcs1 hlp hx]
  have hst : (liftBP t st).stopped = st.stopped := rfl
  rw [hst]
  split
  · rfl
  · split
    · rfl
    · split
      · rfl
      · next m _ =>
        have hlen : (liftBP t st).stack.length = st.stack.length := by simp [liftBP]
        rw [hlen]
        split
        · split
          · rfl
          · rfl
        · have hfo := findOpening_map t m.opening st.stack
          have hstk : (liftBP t st).stack = st.stack.map (mapEntry t) := rfl
          rw [hstk, hfo]
          cases hf : findOpening m.opening st.stack with
          | none => rfl
          | some er =>
            obtain ⟨e, rest⟩ := er
            simp [liftBP, mapPair, mapEntry]

theorem bp_fold (ds : DataSource) (t : Text) (hwf : t.WF) (ocs1 pcs1 : Classes)
    (hlo : ocs1.length = t.segs.length) (hlp : pcs1.length = t.segs.length) :
    ∀ (xs : List (Nat × Seg)) (st : BPState), (∀ x ∈ xs, x.2.start < t.segs.length) → BPInv t.segs.length st →
      (xs.map (fun x => (x.1, liftSeg t x.2))).foldl (bpStep ds (expand t ocs1) (expand t pcs1)) (liftBP t st) =
        liftBP t (xs.foldl (bpStep ds ocs1 pcs1) st) ∧
      BPInv t.segs.length (xs.foldl (bpStep ds ocs1 pcs1) st)
  | [], st, _, hi => ⟨rfl, hi⟩
  | x :: xs, st, hx, hi => by
    rw [List.map_cons, List.foldl_cons, List.foldl_cons, bpStep_lift ds t hwf ocs1 pcs1 hlo hlp st x (hx x (by simp))]
    exact bp_fold ds t hwf ocs1 pcs1 hlo hlp xs _ (fun y hy => hx y (by simp [hy]))
      (bpStep_inv ds ocs1 pcs1 _ st x (hx x (by simp)) hi)

/-! ### sorting -/

theorem mem_insertPair (p : BracketPair) : ∀ (acc : List BracketPair) (q : BracketPair),
    q ∈ insertPair p acc → q = p ∨ q ∈ acc
  | [], q, h => by simp [insertPair] at h; exact Or.inl h
  | a :: acc, q, h => by
    simp only [insertPair] at h
    split at h
    · rcases List.mem_cons.1 h with h | h
      · exact Or.inl h
      · exact Or.inr h
    · rcases List.mem_cons.1 h with h | h
      · exact Or.inr (by simp [h])
      · rcases mem_insertPair p acc q h with h | h
        · exact Or.inl h
        · exact Or.inr (by simp [h])

theorem insertPair_map (t : Text) (hwf : t.WF) (p : BracketPair) (hp : p.start < t.segs.length) :
    ∀ (acc : List BracketPair), (∀ q ∈ acc, q.start < t.segs.length) →
      insertPair (mapPair t p) (acc.map (mapPair t)) = (insertPair p acc).map (mapPair t)
  | [], _ => rfl
  | a :: acc, h => by
    have ha := h a (by simp)
    have hiff : (mapPair t p).start < (mapPair t a).start ↔ p.start < a.start :=
      pos_lt_iff t hwf (by omega) (by omega)
    simp only [List.map_cons, insertPair, hiff]
    split
    · rfl
    · rw [List.map_cons, insertPair_map t hwf p hp acc (fun q hq => h q (by simp [hq]))]

theorem sort_fold_map (t : Text) (hwf : t.WF) : ∀ (ps acc : List BracketPair),
    (∀ q ∈ ps, q.start < t.segs.length) → (∀ q ∈ acc, q.start < t.segs.length) →
    (ps.map (mapPair t)).foldl (fun acc p => insertPair p acc) (acc.map (mapPair t)) =
      (ps.foldl (fun acc p => insertPair p acc) acc).map (mapPair t)
  | [], _, _, _ => rfl
  | p :: ps, acc, h1, h2 => by
    rw [List.map_cons, List.foldl_cons, List.foldl_cons, insertPair_map t hwf p (h1 p (by simp)) acc h2]
    apply sort_fold_map t hwf ps _ (fun q hq => h1 q (by simp [hq]))
    intro q hq
    rcases mem_insertPair p acc q hq with rfl | hq
    · exact h1 q (by simp)
    · exact h2 q hq

theorem sortPairs_map (t : Text) (hwf : t.WF) (ps : List BracketPair) (h : ∀ q ∈ ps, q.start < t.segs.length) :
    sortPairs (ps.map (mapPair t)) = (sortPairs ps).map (mapPair t) :=
  sort_fold_map t hwf ps [] h (by simp)

theorem mem_sort_fold : ∀ (ps acc : List BracketPair) (q : BracketPair),
    q ∈ ps.foldl (fun acc p => insertPair p acc) acc → q ∈ ps ∨ q ∈ acc
  | [], _, _, h => Or.inr h
  | p :: ps, acc, q, h => by
    rw [List.foldl_cons] at h
    rcases mem_sort_fold ps _ q h with h | h
    · exact Or.inl (by simp [h])
    · rcases mem_insertPair p acc q h with rfl | h
      · exact Or.inl (by simp)
      · exact Or.inr h

theorem mem_sortPairs {ps : List BracketPair} {q : BracketPair} (h : q ∈ sortPairs ps) : q ∈ ps := by
  rcases mem_sort_fold ps [] q h with h | h
  · exact h
  · simp at h

/-! ### the theorem -/

theorem bp_final (ds : DataSource) (t : Text) (hwf : t.WF) (seq : IRSeq) (hs : SeqOKN t.segs.length seq)
    (ocs1 pcs1 : Classes) (hlo : ocs1.length = t.segs.length) (hlp : pcs1.length = t.segs.length) :
    (seqChars t (mapSeq t seq)).foldl (bpStep ds (expand t ocs1) (expand t pcs1)) {} =
      liftBP t ((seqChars (unitize t) seq).foldl (bpStep ds ocs1 pcs1) {}) ∧
    BPInv t.segs.length ((seqChars (unitize t) seq).foldl (bpStep ds ocs1 pcs1) {}) := by
  rw [seqChars_mapSeq t hwf seq hs]
  exact bp_fold ds t hwf ocs1 pcs1 hlo hlp _ {} (seqChars_unitize_lt t seq)
    ⟨by intro x hx; simp at hx, by intro p hp; simp at hp⟩

/-- the pairs found on `unitize t` are pairs of character numbers `< n` -/
theorem brackets_lt (ds : DataSource) (t : Text) (seq : IRSeq) (ocs1 pcs1 : Classes) :
    ∀ p ∈ identifyBracketPairs ds (unitize t) seq ocs1 pcs1, p.start < t.segs.length ∧ p.stop < t.segs.length := by
  intro p hp
  have hinv : BPInv t.segs.length ((seqChars (unitize t) seq).foldl (bpStep ds ocs1 pcs1) {}) := by
    have : ∀ (xs : List (Nat × Seg)) (st : BPState), (∀ x ∈ xs, x.2.start < t.segs.length) →
        BPInv t.segs.length st → BPInv t.segs.length (xs.foldl (bpStep ds ocs1 pcs1) st) := by
      intro xs
      induction xs with
      | nil => intro st _ hi; exact hi
      | cons x xs ih =>
        intro st hx hi
        exact ih _ (fun y hy => hx y (by simp [hy])) (bpStep_inv ds ocs1 pcs1 _ st x (hx x (by simp)) hi)
    exact this _ {} (seqChars_unitize_lt t seq) ⟨by intro x hx; simp at hx, by intro p hp; simp at hp⟩
  exact hinv.pairs p (mem_sortPairs hp)

end UBidi.Expand.Neutral
namespace UBidi.Expand
open Neutral

/-- **BD16 does not depend on the number of units of a character.** -/
theorem brackets_expand (ds : DataSource) (t : Text) (hwf : t.WF) (seq : IRSeq)
    (hs : SeqOKN t.segs.length seq) (ocs1 pcs1 : List BidiClass)
    (hl : ocs1.length = t.segs.length ∧ pcs1.length = t.segs.length) :
    identifyBracketPairs ds t (mapSeq t seq) (expand t ocs1) (expand t pcs1)
      = (identifyBracketPairs ds (unitize t) seq ocs1 pcs1).map
          (fun p => { p with start := pos t p.start, stop := pos t p.stop }) := by
  obtain ⟨h1, h2⟩ := bp_final ds t hwf seq hs ocs1 pcs1 hl.1 hl.2
  unfold identifyBracketPairs
  rw [h1]
  exact sortPairs_map t hwf _ (fun q hq => (h2.pairs q hq).1)

end UBidi.Expand
