/-
  UBidi.Lemmas.ExpandNeutralScan — the writes and scans of the neutral stage over the unit
  walk of a character walk: `setAll`, `setRange`, `setWhileBN`, `setWhileNsmOrBN`,
  `scanEnclosed`, the backward `find?`, and the N1/N2 fold.
-/
import UBidi.Lemmas.ExpandNeutralBasic
namespace UBidi.Expand.Neutral
open UBidi UBidi.BidiClass

/-! ### single writes -/

theorem length_setAll (pcs : Classes) (idxs : List Nat) (v : BidiClass) :
    (setAll pcs idxs v).length = pcs.length := by
  unfold setAll
  induction idxs generalizing pcs with
  | nil => rfl
  | cons i is ih => simp only [List.foldl_cons]; rw [ih]; simp

theorem getElem?_setAll (pcs : Classes) (idxs : List Nat) (v : BidiClass) (i : Nat) :
    (setAll pcs idxs v)[i]? = if i ∈ idxs then pcs[i]?.map (fun _ => v) else pcs[i]? := by
  unfold setAll
  induction idxs generalizing pcs with
  | nil => simp
  | cons a is ih =>
    simp only [List.foldl_cons]
    rw [ih, List.getElem?_set]
    grind

theorem setAll_append (pcs : Classes) (a b : List Nat) (v : BidiClass) :
    setAll pcs (a ++ b) v = setAll (setAll pcs a v) b v := by
  simp [setAll, List.foldl_append]

theorem cget_set_ne (pcs : Classes) {i j : Nat} (v : BidiClass) (h : i ≠ j) :
    cget (pcs.set i v) j = cget pcs j := by
  unfold cget
  simp [List.getD_eq_getElem?_getD, h]

theorem cget_setAll_not_mem (pcs : Classes) (idxs : List Nat) (v : BidiClass) {j : Nat} (h : j ∉ idxs) :
    cget (setAll pcs idxs v) j = cget pcs j := by
  unfold cget
  rw [List.getD_eq_getElem?_getD, List.getD_eq_getElem?_getD, getElem?_setAll, if_neg h]

theorem length_setRange {α} (xs : List α) (i n : Nat) (v : α) : (setRange xs i n v).length = xs.length := by
  induction n generalizing xs with
  | zero => rfl
  | succ n ih => simp [setRange, ih]

theorem getElem?_setRange {α} (xs : List α) (i n : Nat) (v : α) (k : Nat) :
    (setRange xs i n v)[k]? = if i ≤ k ∧ k < i + n then xs[k]?.map (fun _ => v) else xs[k]? := by
  induction n generalizing xs with
  | zero =>
    simp only [setRange, Nat.add_zero]
    rw [if_neg (by omega)]
  | succ n ih =>
    rw [setRange, ih, List.getElem?_set]
    grind

/-! ### writing a whole character -/

/-- an array that is `P` with `v` written exactly at the units of character `k` is the
    expansion of the per-character array with `v` written at `k` -/
theorem write_char (t : Text) (hwf : t.WF) (xs A : Classes) (hl : xs.length = t.segs.length) (k : Nat)
    (hk : k < t.segs.length) (v : BidiClass) (hlen : A.length = t.len)
    (hA : ∀ i, A[i]? = if pos t k ≤ i ∧ i < pos t k + clen t k then ((expand t xs)[i]?).map (fun _ => v)
                        else (expand t xs)[i]?) :
    A = expand t (xs.set k v) := by
  apply expand_ext t hwf A _ (by simpa using hl) hlen
  intro k' j hk' hj
  rw [hA, getElem?_expand t hwf xs hl hk' hj, List.getElem?_set]
  by_cases h : k = k'
  · subst h
    have : pos t k ≤ pos t k + j ∧ pos t k + j < pos t k + clen t k := by omega
    rw [if_pos this, if_pos rfl, if_pos (by omega), List.getElem?_eq_getElem (by omega)]
    rfl
  · rw [if_neg h, if_neg]
    intro hh
    apply h
    have := unit_inj t hwf hk (j := pos t k' + j - pos t k) (by omega) hk' hj (by omega)
    exact this

theorem setAll_block (t : Text) (hwf : t.WF) (xs : Classes) (hl : xs.length = t.segs.length) (k : Nat)
    (hk : k < t.segs.length) (blk : List Nat) (hb : Block t k blk) (v : BidiClass) :
    setAll (expand t xs) blk v = expand t (xs.set k v) := by
  apply write_char t hwf xs _ hl k hk v
  · rw [length_setAll, length_expand t hwf xs hl]
  · intro i
    rw [getElem?_setAll]
    simp only [hb.mem i]

theorem setRange_expand (t : Text) (hwf : t.WF) (xs : Classes) (hl : xs.length = t.segs.length) (k : Nat)
    (hk : k < t.segs.length) (v : BidiClass) :
    setRange (expand t xs) (pos t k) (clen t k) v = expand t (xs.set k v) := by
  apply write_char t hwf xs _ hl k hk v
  · rw [length_setRange, length_expand t hwf xs hl]
  · intro i
    rw [getElem?_setRange]

/-! ### walks: a list of characters `ks`, every character replaced by a block of its units -/

/-- `f` gives a block of units for every character of `ks`, all in range -/
def WalkOK (t : Text) (f : Nat → List Nat) (ks : List Nat) : Prop :=
  ∀ k ∈ ks, k < t.segs.length ∧ Block t k (f k)

theorem WalkOK.tail {t : Text} {f : Nat → List Nat} {k : Nat} {ks : List Nat} (h : WalkOK t f (k :: ks)) :
    WalkOK t f ks := fun k' hk' => h k' (by simp [hk'])

theorem walkOK_fwd (t : Text) (ks : List Nat) (h : ∀ k ∈ ks, k < t.segs.length) : WalkOK t (fwd t) ks :=
  fun k hk => ⟨h k hk, block_fwd t k⟩

theorem walkOK_bwd (t : Text) (ks : List Nat) (h : ∀ k ∈ ks, k < t.segs.length) : WalkOK t (bwd t) ks :=
  fun k hk => ⟨h k hk, block_bwd t k⟩

theorem cget_block (t : Text) (hwf : t.WF) (xs : Classes) (hl : xs.length = t.segs.length) {k : Nat}
    (hk : k < t.segs.length) {blk : List Nat} (hb : Block t k blk) {u : Nat} (hu : u ∈ blk) :
    cget (expand t xs) u = cget xs k := by
  obtain ⟨j, hj, rfl⟩ := hb.unit hu
  exact cget_expand t hwf xs hl hk hj

theorem setAll_walk (t : Text) (hwf : t.WF) (f : Nat → List Nat) (v : BidiClass) :
    ∀ (ks : List Nat) (xs : Classes), xs.length = t.segs.length → WalkOK t f ks →
      setAll (expand t xs) (ks.flatMap f) v = expand t (setAll xs ks v)
  | [], xs, _, _ => rfl
  | k :: ks, xs, hl, hw => by
    rw [List.flatMap_cons, setAll_append, setAll_block t hwf xs hl k (hw k (by simp)).1 _ (hw k (by simp)).2,
      setAll_walk t hwf f v ks (xs.set k v) (by simpa using hl) hw.tail]
    rfl

/-! ### `setWhileBN` -/

theorem setWhileBN_block (v : BidiClass) (rest : List Nat) : ∀ (blk : List Nat) (P : Classes), blk.Nodup →
    (∀ u ∈ blk, (cget P u != BN) = false) →
    setWhileBN P (blk ++ rest) v = setWhileBN (setAll P blk v) rest v
  | [], _, _, _ => rfl
  | u :: blk, P, hnd, h => by
    have hnd' := List.nodup_cons.1 hnd
    rw [List.cons_append, setWhileBN, h u (by simp)]
    simp only [Bool.false_eq_true, if_false]
    rw [setWhileBN_block v rest blk (P.set u v) hnd'.2]
    · rfl
    · intro u' hu'
      rw [cget_set_ne _ _ (by intro e; subst e; exact hnd'.1 hu')]
      exact h u' (by simp [hu'])

theorem length_setWhileBN (v : BidiClass) : ∀ (it : List Nat) (P : Classes), (setWhileBN P it v).length = P.length
  | [], _ => rfl
  | i :: it, P => by
    rw [setWhileBN]
    split
    · rfl
    · rw [length_setWhileBN v it]; simp

theorem setWhileBN_walk (t : Text) (hwf : t.WF) (f : Nat → List Nat) (v : BidiClass) :
    ∀ (ks : List Nat) (xs : Classes), xs.length = t.segs.length → WalkOK t f ks →
      setWhileBN (expand t xs) (ks.flatMap f) v = expand t (setWhileBN xs ks v)
  | [], xs, _, _ => rfl
  | k :: ks, xs, hl, hw => by
    obtain ⟨hk, hb⟩ := hw k (by simp)
    rw [List.flatMap_cons]
    cases hc : (cget xs k != BN)
    · rw [setWhileBN_block v _ (f k) _ hb.nodup
        (by intro u hu; rw [cget_block t hwf xs hl hk hb hu]; exact hc),
        setAll_block t hwf xs hl k hk _ hb, setWhileBN_walk t hwf f v ks _ (by simpa using hl) hw.tail]
      rw [setWhileBN.eq_2, hc]; rfl
    · obtain ⟨u, r, hur⟩ := hb.ne_nil hwf hk
      have hu : u ∈ f k := by rw [hur]; simp
      rw [hur, List.cons_append, setWhileBN, cget_block t hwf xs hl hk hb hu, hc, setWhileBN.eq_2, hc]
      rfl

/-! ### `setWhileNsmOrBN` -/

theorem setWhileNsmOrBN_block (ocs : Classes) (v : BidiClass) (rest : List Nat) :
    ∀ (blk : List Nat) (P : Classes),
    (∀ u ∈ blk, (cget ocs u == NSM) = true) →
    setWhileNsmOrBN ocs P (blk ++ rest) v = setWhileNsmOrBN ocs (setAll P blk v) rest v
  | [], _, _ => rfl
  | u :: blk, P, h => by
    rw [List.cons_append, setWhileNsmOrBN, if_pos (h u (by simp))]
    rw [setWhileNsmOrBN_block ocs v rest blk (P.set u v) (fun u' hu' => h u' (by simp [hu']))]
    rfl

/-- a block of removed (non-NSM) units is stepped over without a write -/
theorem setWhileNsmOrBN_skip (ocs : Classes) (v : BidiClass) (rest : List Nat) :
    ∀ (blk : List Nat) (P : Classes),
    (∀ u ∈ blk, (cget ocs u == NSM) = false ∧ (cget ocs u).removedByX9 = true) →
    setWhileNsmOrBN ocs P (blk ++ rest) v = setWhileNsmOrBN ocs P rest v
  | [], _, _ => rfl
  | u :: blk, P, h => by
    rw [List.cons_append, setWhileNsmOrBN, (h u (by simp)).1, (h u (by simp)).2]
    simp only [Bool.false_eq_true, if_false, if_true]
    exact setWhileNsmOrBN_skip ocs v rest blk P (fun u' hu' => h u' (by simp [hu']))

theorem length_setWhileNsmOrBN (ocs : Classes) (v : BidiClass) :
    ∀ (it : List Nat) (P : Classes), (setWhileNsmOrBN ocs P it v).length = P.length
  | [], _ => rfl
  | i :: it, P => by
    rw [setWhileNsmOrBN]
    split
    · rw [length_setWhileNsmOrBN ocs v it]; simp
    · split
      · exact length_setWhileNsmOrBN ocs v it P
      · rfl

theorem setWhileNsmOrBN_walk (t : Text) (hwf : t.WF) (f : Nat → List Nat) (os : Classes)
    (hlo : os.length = t.segs.length) (v : BidiClass) :
    ∀ (ks : List Nat) (xs : Classes), xs.length = t.segs.length → WalkOK t f ks →
      setWhileNsmOrBN (expand t os) (expand t xs) (ks.flatMap f) v = expand t (setWhileNsmOrBN os xs ks v)
  | [], xs, _, _ => rfl
  | k :: ks, xs, hl, hw => by
    obtain ⟨hk, hb⟩ := hw k (by simp)
    rw [List.flatMap_cons]
    cases hc : (cget os k == NSM)
    · cases hr : (cget os k).removedByX9
      · obtain ⟨u, r, hur⟩ := hb.ne_nil hwf hk
        have hu : u ∈ f k := by rw [hur]; simp
        rw [hur, List.cons_append, setWhileNsmOrBN,
          cget_block t hwf os hlo hk hb hu, hc, hr, setWhileNsmOrBN.eq_2, hc, hr]
        rfl
      · rw [setWhileNsmOrBN_skip _ v _ (f k) _
          (by intro u hu; rw [cget_block t hwf os hlo hk hb hu]; exact ⟨hc, hr⟩),
          setWhileNsmOrBN_walk t hwf f os hlo v ks _ hl hw.tail]
        rw [setWhileNsmOrBN.eq_2, hc, hr]; rfl
    · rw [setWhileNsmOrBN_block _ v _ (f k) _
        (by intro u hu; rw [cget_block t hwf os hlo hk hb hu]; exact hc),
        setAll_block t hwf xs hl k hk _ hb, setWhileNsmOrBN_walk t hwf f os hlo v ks _ (by simpa using hl) hw.tail]
      rw [setWhileNsmOrBN.eq_2, hc]; rfl

/-! ### `scanEnclosed` -/

theorem scanEnclosed_dup (P : Classes) (e notE : BidiClass) (S u u1 : Nat) (rest : List Nat) (fne : Bool)
    (hc : cget P u1 = cget P u) (hs : u1 ≥ S ↔ u ≥ S) :
    scanEnclosed P e notE S (u :: u1 :: rest) fne = scanEnclosed P e notE S (u :: rest) fne := by
  rw [scanEnclosed.eq_2 P e notE S fne u (u1 :: rest), scanEnclosed.eq_2 P e notE S fne u rest]
  by_cases h0 : u ≥ S
  · simp only [h0, if_true]
  · have hu1 : ¬ u1 ≥ S := fun h => h0 (hs.1 h)
    simp only [h0, ↓reduceIte]
    by_cases h1 : (cget P u == e) = true
    · simp only [h1, ↓reduceIte]
    · simp only [h1, Bool.false_eq_true, ↓reduceIte]
      by_cases h2 : (cget P u == notE) = true
      · simp only [h2, ↓reduceIte]
        rw [scanEnclosed.eq_2 P e notE S true u1 rest]
        simp only [hu1, hc, h1, h2, Bool.false_eq_true, ↓reduceIte]
      · simp only [h2, Bool.false_eq_true, ↓reduceIte]
        by_cases h3 : (cget P u == EN || cget P u == AN) = true
        · simp only [h3, ↓reduceIte]
          by_cases h4 : (e == L) = true
          · simp only [h4, ↓reduceIte]
            rw [scanEnclosed.eq_2 P e notE S true u1 rest]
            simp only [hu1, hc, h1, h2, h3, h4, Bool.false_eq_true, ↓reduceIte]
          · simp only [h4, Bool.false_eq_true, ↓reduceIte]
        · simp only [h3, Bool.false_eq_true, ↓reduceIte]
          rw [scanEnclosed.eq_2 P e notE S fne u1 rest]
          simp only [hu1, hc, h1, h2, h3, Bool.false_eq_true, ↓reduceIte]

theorem scanEnclosed_block (P : Classes) (e notE : BidiClass) (S : Nat) (c : BidiClass) (b : Bool)
    (rest : List Nat) : ∀ (blk : List Nat) (u : Nat) (fne : Bool),
    (∀ u' ∈ u :: blk, cget P u' = c ∧ decide (u' ≥ S) = b) →
    scanEnclosed P e notE S (u :: blk ++ rest) fne = scanEnclosed P e notE S (u :: rest) fne
  | [], _, _, _ => rfl
  | u1 :: blk, u, fne, h => by
    have hu := h u (by simp)
    have hu1 := h u1 (by simp)
    have h1 : (u1 ≥ S) ↔ (u ≥ S) := decide_eq_decide.1 (hu1.2.trans hu.2.symm)
    rw [List.cons_append, List.cons_append, scanEnclosed_dup P e notE S u u1 _ fne (hu1.1.trans hu.1.symm) h1]
    have := scanEnclosed_block P e notE S c b rest blk u fne (by
      intro u' hu'
      rcases List.mem_cons.1 hu' with rfl | hu'
      · exact hu
      · exact h u' (List.mem_cons_of_mem _ (List.mem_cons_of_mem _ hu')))
    rw [List.cons_append] at this
    exact this

theorem scanEnclosed_walk (t : Text) (hwf : t.WF) (f : Nat → List Nat) (e notE : BidiClass) (stop : Nat)
    (hs : stop ≤ t.segs.length) (xs : Classes) (hl : xs.length = t.segs.length) :
    ∀ (ks : List Nat) (fne : Bool), WalkOK t f ks →
      scanEnclosed (expand t xs) e notE (pos t stop) (ks.flatMap f) fne = scanEnclosed xs e notE stop ks fne
  | [], _, _ => rfl
  | k :: ks, fne, hw => by
    obtain ⟨hk, hb⟩ := hw k (by simp)
    have ih := fun f' => scanEnclosed_walk t hwf f e notE stop hs xs hl ks f' hw.tail
    obtain ⟨u, r, hur⟩ := hb.ne_nil hwf hk
    have hu : u ∈ f k := by rw [hur]; simp
    have hcmp : ∀ u' ∈ f k, (u' ≥ pos t stop) ↔ (k ≥ stop) := by
      intro u' hu'
      obtain ⟨j, hj, rfl⟩ := hb.unit hu'
      have := unit_lt_pos_iff t hwf hk hj hs
      omega
    rw [List.flatMap_cons, hur, scanEnclosed_block (expand t xs) e notE (pos t stop) (cget xs k)
      (decide (k ≥ stop)) _ r u fne (by
        intro u' hu'
        rw [← hur] at hu'
        refine ⟨cget_block t hwf xs hl hk hb hu', ?_⟩
        simp only [hcmp u' hu'])]
    rw [scanEnclosed, scanEnclosed.eq_2 (i := k) (rest := ks)]
    simp only [ih, cget_block t hwf xs hl hk hb hu, hcmp u hu]

/-! ### the backward search for the previous strong type -/

theorem find_walk (t : Text) (hwf : t.WF) (f : Nat → List Nat) (p : BidiClass → Bool) (xs : Classes)
    (hl : xs.length = t.segs.length) :
    ∀ (ks : List Nat), WalkOK t f ks →
      ((ks.flatMap f).map (cget (expand t xs))).find? p = (ks.map (cget xs)).find? p
  | [], _ => rfl
  | k :: ks, hw => by
    obtain ⟨hk, hb⟩ := hw k (by simp)
    have ih := find_walk t hwf f p xs hl ks hw.tail
    obtain ⟨u, r, hur⟩ := hb.ne_nil hwf hk
    have hall : (f k).map (cget (expand t xs)) = List.replicate (f k).length (cget xs k) := by
      apply List.ext_getElem
      · simp
      · intro i h1 h2
        simp only [List.getElem_map, List.getElem_replicate]
        exact cget_block t hwf xs hl hk hb (List.getElem_mem _)
    rw [List.flatMap_cons, List.map_append, hall, hur, List.length_cons, List.replicate_succ, List.cons_append,
      List.map_cons, List.find?_cons, List.find?_cons]
    cases hp : p (cget xs k)
    · simp only
      rw [List.find?_append, ih]
      have : (List.replicate r.length (cget xs k)).find? p = none := by
        rw [List.find?_eq_none]; intro x hx; rw [List.mem_replicate] at hx; rw [hx.2, hp]; simp
      rw [this]; rfl
    · rfl

end UBidi.Expand.Neutral
