/-
  UBidi.Lemmas.C03Core — helper lemmas for property C03 (rule L1): `setRange`, the
  Spec's `l1`, and the invariant of the `reorder_levels` scan.
-/
import UBidi.Model.Reorder
import UBidi.Spec.Reorder
namespace UBidi.Lemmas.C03
open UBidi BidiClass

theorem length_setRange {α} (xs : List α) (i n : Nat) (v : α) : (setRange xs i n v).length = xs.length := by
  induction n generalizing xs with
  | zero => rfl
  | succ n ih => simp [setRange, ih]

theorem getElem?_setRange {α} (xs : List α) (i n : Nat) (v : α) (k : Nat) :
    (setRange xs i n v)[k]? = if i ≤ k ∧ k < i + n then xs[k]?.map (fun _ => v) else xs[k]? := by
  induction n generalizing xs with
  | zero =>
    simp only [setRange, Nat.add_zero]
    rw [if_neg (by omega)]
  | succ n ih =>
    rw [setRange, ih, List.getElem?_set]
    grind

theorem setRange_eq_append {α} (xs : List α) (i n : Nat) (v : α) (h : i + n ≤ xs.length) :
    setRange xs i n v = xs.take i ++ List.replicate n v ++ xs.drop (i + n) := by
  apply List.ext_getElem?
  intro k
  rw [getElem?_setRange]
  by_cases h1 : k < i
  · have : ¬ (i ≤ k ∧ k < i + n) := by omega
    rw [if_neg this, List.append_assoc, List.getElem?_append_left (by simp; omega), List.getElem?_take_of_lt h1]
  · by_cases h2 : k < i + n
    · have : (i ≤ k ∧ k < i + n) := by omega
      rw [if_pos this, List.getElem?_append_left (by simp; omega), List.getElem?_append_right (by simp; omega)]
      have hk : k < xs.length := by omega
      simp [List.getElem?_eq_getElem hk, List.getElem?_replicate]
      omega
    · have : ¬ (i ≤ k ∧ k < i + n) := by omega
      rw [if_neg this, List.getElem?_append_right (by simp; omega)]
      simp
      congr 1
      omega

/-! ### segment lists -/

/-- one value per character → one per code unit -/
def expandS (segs : List Seg) (xs : List Nat) : List Nat :=
  (segs.zip xs).flatMap (fun (s, x) => List.replicate s.len x)

/-- `(class, level)` of every character, read at its first unit -/
def perCharS (segs : List Seg) (cls : List BidiClass) (lv : List Nat) : List (BidiClass × Nat) :=
  segs.map (fun s => (cls.getD s.start .ON, lv.getD s.start 0))

/-- all units of a character hold the same value -/
def UniformS {α} (segs : List Seg) (xs : List α) : Prop :=
  ∀ s ∈ segs, ∀ j, j < s.len → xs[s.start + j]? = xs[s.start]?

theorem expandS_cons (s : Seg) (segs : List Seg) (x : Nat) (xs : List Nat) :
    expandS (s :: segs) (x :: xs) = List.replicate s.len x ++ expandS segs xs := by
  simp [expandS]

theorem expandS_nil (xs : List Nat) : expandS [] xs = [] := by simp [expandS]

theorem perCharS_cons (s : Seg) (segs : List Seg) (cls : List BidiClass) (lv : List Nat) :
    perCharS (s :: segs) cls lv = (cls.getD s.start .ON, lv.getD s.start 0) :: perCharS segs cls lv := rfl

theorem perCharS_fst (segs : List Seg) (cls : List BidiClass) (lv : List Nat) :
    (perCharS segs cls lv).map (·.1) = segs.map (fun s => cls.getD s.start .ON) := by
  simp [perCharS]

theorem SegsFrom_bounds {k n : Nat} {segs : List Seg} (h : SegsFrom k segs n) :
    k ≤ n ∧ ∀ s ∈ segs, k ≤ s.start ∧ s.start + s.len ≤ n := by
  induction segs generalizing k with
  | nil => simp [SegsFrom] at h; simp [h]
  | cons s ss ih =>
    obtain ⟨h1, h2, h3⟩ := h
    have := ih h3
    refine ⟨by omega, ?_⟩
    intro s' hs'
    rcases List.mem_cons.1 hs' with rfl | hs'
    · omega
    · have := this.2 s' hs'; omega

theorem perCharS_congr {k : Nat} (segs : List Seg) (cls : List BidiClass) (lv lv' : List Nat)
    (hs : ∀ s ∈ segs, k ≤ s.start) (h : ∀ i, k ≤ i → lv'[i]? = lv[i]?) :
    perCharS segs cls lv' = perCharS segs cls lv := by
  unfold perCharS
  apply List.map_congr_left
  intro s hs'
  simp [List.getD_eq_getElem?_getD, h s.start (hs s hs')]

theorem UniformS_congr {k : Nat} (segs : List Seg) (lv lv' : List Nat)
    (hs : ∀ s ∈ segs, k ≤ s.start) (h : ∀ i, k ≤ i → lv'[i]? = lv[i]?) (hu : UniformS segs lv) :
    UniformS segs lv' := by
  intro s hs' j hj
  rw [h _ (by have := hs s hs'; omega), h _ (hs s hs')]
  exact hu s hs' j hj

/-! ### the Spec -/

/-- when everything up to the next separator is resettable, the incoming `prev` is irrelevant -/
theorem l1_indep (pl p q : Nat) (cs : List (BidiClass × Nat)) (h : Spec.trailingOk (cs.map (·.1)) = true) :
    Spec.l1 pl p cs = Spec.l1 pl q cs := by
  induction cs generalizing p q with
  | nil => rfl
  | cons c rest ih =>
    obtain ⟨c, l⟩ := c
    simp only [List.map_cons, Spec.trailingOk, Bool.or_eq_true, Bool.and_eq_true] at h
    simp only [Spec.l1]
    rcases h with h | ⟨h1, h2⟩
    · simp [h]
    · simp [h1, h2]

/-! ### one step of the scan, by class of the character -/

def isWsLike (c : BidiClass) : Bool := c == WS || c == FSI || c == LRI || c == RLI || c == PDI

theorem l1Step_sep (enc : Enc) (cls : Classes) (pl : Nat) (L : List Nat) (rf : Option Nat) (prev : Nat)
    (e : Option Panic) (s : Seg) (hc : Spec.isSep (cls.getD s.start ON) = true) :
    l1Step enc cls pl ⟨L, rf, none, prev, e⟩ s =
      ⟨setRange L (rf.getD s.start) (s.start + enc.charLen s.cp - rf.getD s.start) pl, none, none,
       (setRange L (rf.getD s.start) (s.start + enc.charLen s.cp - rf.getD s.start) pl).getD s.start 0, e⟩ := by
  unfold l1Step cget; dsimp only
  generalize cls.getD s.start ON = c at hc
  cases c <;> first | (exact absurd hc (by decide)) | (cases rf <;> cases e <;> rfl)

theorem l1Step_ws (enc : Enc) (cls : Classes) (pl : Nat) (L : List Nat) (rf : Option Nat) (prev : Nat)
    (e : Option Panic) (s : Seg) (hc : isWsLike (cls.getD s.start ON) = true) :
    l1Step enc cls pl ⟨L, rf, none, prev, e⟩ s =
      ⟨L, some (rf.getD s.start), none, L.getD s.start 0, e⟩ := by
  unfold l1Step cget; dsimp only
  generalize cls.getD s.start ON = c at hc
  cases c <;> first | (exact absurd hc (by decide)) | (cases rf <;> rfl)

theorem l1Step_removed (enc : Enc) (cls : Classes) (pl : Nat) (L : List Nat) (rf : Option Nat) (prev : Nat)
    (e : Option Panic) (s : Seg) (hc : Spec.isRemovedCls (cls.getD s.start ON) = true) :
    l1Step enc cls pl ⟨L, rf, none, prev, e⟩ s =
      ⟨setRange L s.start (enc.charLen s.cp) prev, some (rf.getD s.start), none,
       (setRange L s.start (enc.charLen s.cp) prev).getD s.start 0, e⟩ := by
  unfold l1Step cget; dsimp only
  generalize cls.getD s.start ON = c at hc
  cases c <;> first | (exact absurd hc (by decide)) | (cases rf <;> rfl)

theorem l1Step_other (enc : Enc) (cls : Classes) (pl : Nat) (L : List Nat) (rf : Option Nat) (prev : Nat)
    (e : Option Panic) (s : Seg) (h1 : Spec.isSep (cls.getD s.start ON) = false)
    (h2 : Spec.isResettable (cls.getD s.start ON) = false) :
    l1Step enc cls pl ⟨L, rf, none, prev, e⟩ s = ⟨L, none, none, L.getD s.start 0, e⟩ := by
  unfold l1Step cget; dsimp only
  generalize cls.getD s.start ON = c at h1 h2
  cases c <;> first | (exact absurd h1 (by decide)) | (exact absurd h2 (by decide)) | (cases rf <;> rfl)


theorem take_setRange_add {α} (xs : List α) (i m : Nat) (v : α) (h : i + m ≤ xs.length) :
    (setRange xs i m v).take (i + m) = xs.take i ++ List.replicate m v := by
  rw [setRange_eq_append xs i m v h, List.take_append_of_le_length (by simp; omega), List.take_of_length_le (by simp; omega)]

theorem take_setRange_le {α} (xs : List α) (i m q : Nat) (v : α) (h : q ≤ i) :
    (setRange xs i m v).take q = xs.take q := by
  apply List.ext_getElem?
  intro k
  simp only [List.getElem?_take, getElem?_setRange]
  split
  · rw [if_neg (by omega)]
  · rfl

theorem getElem?_setRange_ge {α} (xs : List α) (i m q : Nat) (v : α) (h : i + m ≤ q) :
    (setRange xs i m v)[q]? = xs[q]? := by
  rw [getElem?_setRange, if_neg (by omega)]

theorem getD_setRange_in {α} (xs : List α) (i m q : Nat) (v d : α) (h1 : i ≤ q) (h2 : q < i + m) (h3 : q < xs.length) :
    (setRange xs i m v).getD q d = v := by
  rw [List.getD_eq_getElem?_getD, getElem?_setRange, if_pos ⟨h1, h2⟩, List.getElem?_eq_getElem h3]
  rfl

theorem take_add_uniform (L : List Nat) (k m : Nat) (h : k + m ≤ L.length) (hm : 0 < m)
    (hu : ∀ j, j < m → L[k + j]? = L[k]?) :
    L.take (k + m) = L.take k ++ List.replicate m (L.getD k 0) := by
  apply List.ext_getElem?
  intro q
  by_cases h1 : q < k
  · rw [List.getElem?_append_left (by simp; omega), List.getElem?_take_of_lt h1, List.getElem?_take_of_lt (by omega)]
  · by_cases h2 : q < k + m
    · rw [List.getElem?_append_right (by simp; omega), List.getElem?_take_of_lt h2]
      have := hu (q - k) (by omega)
      rw [show k + (q - k) = q by omega] at this
      rw [this]
      have hk : k < L.length := by omega
      simp [List.getElem?_replicate, List.getElem?_eq_getElem hk]
      omega
    · rw [List.getElem?_append_right (by simp; omega)]
      rw [List.getElem?_take, if_neg h2, List.getElem?_replicate, if_neg (by simp; omega)]


end UBidi.Lemmas.C03
