/-
  C13 — helper lemmas, part 7: `Spec.paragraphLevels` taken apart.  `orig` is not used when
  resolving (`resolvedOf_strip`); the list `all` is a zip of explicit results and characters
  (`allK_eq`); the final fill is the structural recursion `fill'` over the classes
  (`paragraphLevels_fill'`).
-/
import UBidi.Lemmas.C13Resolve
import UBidi.Lemmas.C13Explicit
namespace UBidi.Props.C13
open UBidi UBidi.Spec BidiClass

/-! ### `orig` is not used when resolving -/

def strip (k : K) : K := { k with orig := 0 }

theorem strip_default : strip default = default := rfl

theorem getD_map_strip (ks : List K) (p : Nat) : (ks.map strip).getD p default = strip (ks.getD p default) := by
  simp only [List.getD_eq_getElem?_getD, List.getElem?_map]
  cases ks[p]? <;> rfl

theorem resolveAt_strip (pl : Nat) (ks : List K) (pos : List Nat) :
    resolveAt pl (ks.map strip) pos = resolveAt pl ks pos := by
  unfold resolveAt
  simp only [getD_map_strip, List.length_map]
  rfl

theorem isolatingRunSequences_strip (ks : List K) :
    isolatingRunSequences (ks.map strip) = isolatingRunSequences ks := by
  unfold isolatingRunSequences
  simp only [List.map_map]
  rfl

theorem resolvedOf_strip (pl : Nat) (ks : List K) : resolvedOf pl (ks.map strip) = resolvedOf pl ks := by
  unfold resolvedOf
  rw [isolatingRunSequences_strip]
  congr 1
  funext seq
  rw [resolveSequence_eq, resolveSequence_eq, resolveAt_strip]


/-! ### the surviving characters -/

/-- the list `all` of `paragraphLevels` -/
def allK (pl : Nat) (chars : List Ch) : List K :=
  let cls := chars.map (·.cls)
  let ex := explicit pl cls
  (List.range chars.length).map (fun i =>
    { orig := i, level := (ex.getD i (0, ON)).1, ty := (ex.getD i (0, ON)).2,
      cls := cls.getD i ON, brk := (chars.getD i default).brk })

def notRem (k : K) : Bool := !isRemoved k.cls

def ksOf (pl : Nat) (chars : List Ch) : List K := (allK pl chars).filter notRem

def kLevelsOf (pl : Nat) (ks : List K) : List (Nat × Nat) :=
  (List.range ks.length).map (fun p =>
    let k := ks.getD p default
    (k.orig, implicitLevel k.level (tyAt (resolvedOf pl ks) p)))

theorem paragraphLevels_eq (pl : Nat) (chars : List Ch) :
    paragraphLevels pl chars =
      paragraphLevels.fill (kLevelsOf pl (ksOf pl chars)) pl 0 (List.range chars.length) := rfl

def mkAll : Nat → List (Nat × BidiClass) → List Ch → List K
  | i, e :: ex, c :: cs =>
    { orig := i, level := e.1, ty := e.2, cls := c.cls, brk := c.brk } :: mkAll (i + 1) ex cs
  | _, _, _ => []

theorem mkAll_getElem? (off : Nat) (ex : List (Nat × BidiClass)) (cs : List Ch) (i : Nat) :
    (mkAll off ex cs)[i]? =
      match ex[i]?, cs[i]? with
      | some e, some c => some { orig := off + i, level := e.1, ty := e.2, cls := c.cls, brk := c.brk }
      | _, _ => none := by
  induction ex generalizing off cs i with
  | nil => simp [mkAll]
  | cons e ex ih =>
    cases cs with
    | nil => simp [mkAll]
    | cons c cs =>
      cases i with
      | zero => simp [mkAll]
      | succ i =>
        simp only [mkAll, List.getElem?_cons_succ, ih]
        have : off + 1 + i = off + (i + 1) := by omega
        rw [this]

theorem allK_eq (pl : Nat) (chars : List Ch) :
    allK pl chars = mkAll 0 (explicit pl (chars.map (·.cls))) chars := by
  apply List.ext_getElem?
  intro i
  unfold allK
  simp only
  have hl : (explicit pl (chars.map (·.cls))).length = chars.length := by
    unfold explicit; rw [xRun_length]; simp
  rw [mkAll_getElem?]
  by_cases hi : i < chars.length
  · have h1 : (explicit pl (chars.map (·.cls)))[i]? = some (explicit pl (chars.map (·.cls)))[i] :=
      List.getElem?_eq_getElem (by omega)
    have h2 : chars[i]? = some chars[i] := List.getElem?_eq_getElem hi
    rw [h1, h2]
    simp [List.getD_eq_getElem?_getD, hi, h1]
  · have h1 : (explicit pl (chars.map (·.cls)))[i]? = none := List.getElem?_eq_none (by omega)
    rw [h1]
    simp; omega


/-! ### `kLevels` and `fill` -/

/-- `(orig, level)` of the surviving characters, from the classes -/
def kl (f : Nat → Nat) : Nat → Nat → List BidiClass → List (Nat × Nat)
  | _, _, [] => []
  | p, i, c :: cs => if isRemoved c then kl f p (i + 1) cs else (i, f p) :: kl f (p + 1) (i + 1) cs

theorem kl_ge (f : Nat → Nat) (p i : Nat) (cs : List BidiClass) : ∀ x ∈ kl f p i cs, i ≤ x.1 := by
  induction cs generalizing p i with
  | nil => simp [kl]
  | cons c cs ih =>
    intro x hx
    simp only [kl] at hx
    split at hx
    · have := ih _ _ x hx; omega
    · rcases List.mem_cons.1 hx with rfl | h
      · simp
      · have := ih _ _ x h; omega

theorem range_map_orig (f : Nat → Nat) (ks : List K) (p0 : Nat) :
    (List.range' p0 ks.length).map (fun p => ((ks.getD (p - p0) default).orig, f p)) =
      match ks with
      | [] => []
      | k :: ks' => (k.orig, f p0) ::
          (List.range' (p0 + 1) ks'.length).map (fun p => ((ks'.getD (p - (p0 + 1)) default).orig, f p)) := by
  cases ks with
  | nil => rfl
  | cons k ks' =>
    simp only [List.length_cons, List.range'_succ, List.map_cons, Nat.sub_self, List.getD_cons_zero]
    congr 1
    apply List.map_congr_left
    intro p hp
    rw [List.mem_range'_1] at hp
    have : p - p0 = (p - (p0 + 1)) + 1 := by omega
    rw [this, List.getD_cons_succ]

theorem kl_mkAll (f : Nat → Nat) (p i : Nat) (ex : List (Nat × BidiClass)) (cs : List Ch)
    (hl : ex.length = cs.length) :
    (List.range' p ((mkAll i ex cs).filter notRem).length).map
        (fun q => ((((mkAll i ex cs).filter notRem).getD (q - p) default).orig, f q)) =
      kl f p i (cs.map (·.cls)) := by
  induction cs generalizing p i ex with
  | nil => cases ex <;> simp [mkAll, kl]
  | cons c cs ih =>
    cases ex with
    | nil => simp at hl
    | cons e ex =>
      simp only [List.length_cons, Nat.add_right_cancel_iff] at hl
      simp only [mkAll, List.map_cons, kl]
      by_cases hr : isRemoved c.cls = true
      · simp only [hr, if_true]
        rw [List.filter_cons_of_neg (by simp [notRem, hr])]
        exact ih p (i + 1) ex hl
      · simp only [hr, Bool.false_eq_true, if_false]
        rw [List.filter_cons_of_pos (by simp [notRem, hr])]
        rw [range_map_orig]
        simp only
        congr 1
        exact ih (p + 1) (i + 1) ex hl

/-- the implicit level of surviving position `p` -/
def lvf (pl : Nat) (ks : List K) (p : Nat) : Nat :=
  implicitLevel (ks.getD p default).level (tyAt (resolvedOf pl ks) p)

theorem kLevelsOf_eq (pl : Nat) (chars : List Ch) :
    kLevelsOf pl (ksOf pl chars) = kl (lvf pl (ksOf pl chars)) 0 0 (chars.map (·.cls)) := by
  have hl : (explicit pl (chars.map (·.cls))).length = chars.length := by
    unfold explicit; rw [xRun_length]; simp
  have := kl_mkAll (lvf pl (ksOf pl chars)) 0 0 (explicit pl (chars.map (·.cls))) chars hl
  rw [← this]
  unfold kLevelsOf ksOf
  rw [allK_eq, List.range_eq_range']
  rfl

/-- the levels of all characters: a removed character takes the level of the character before it -/
def fill' (f : Nat → Nat) : Nat → Nat → List BidiClass → List Nat
  | _, _, [] => []
  | prev, p, c :: cs => if isRemoved c then prev :: fill' f prev p cs else f p :: fill' f (f p) (p + 1) cs

theorem fill_eq (f : Nat → Nat) (cs : List BidiClass) :
    ∀ (past : List (Nat × Nat)) (prev p i : Nat) (L : List Nat), L.length = cs.length →
      (∀ x ∈ past, x.1 < i) →
      paragraphLevels.fill (past ++ kl f p i cs) prev i L = fill' f prev p cs := by
  induction cs with
  | nil =>
    intro past prev p i L hL _
    have : L = [] := List.eq_nil_of_length_eq_zero hL
    subst this; rfl
  | cons c cs ih =>
    intro past prev p i L hL hpast
    cases L with
    | nil => simp at hL
    | cons x L =>
      simp only [List.length_cons, Nat.add_right_cancel_iff] at hL
      have hpn : past.find? (fun x => x.1 == i) = none := by
        rw [List.find?_eq_none]; intro x hx; have := hpast x hx; simp; omega
      simp only [paragraphLevels.fill, fill', kl]
      by_cases hr : isRemoved c = true
      · simp only [hr, if_true]
        have hn : (past ++ kl f p (i + 1) cs).find? (fun x => x.1 == i) = none := by
          rw [List.find?_append, hpn]
          simp only [Option.none_or]
          rw [List.find?_eq_none]; intro x hx; have := kl_ge f p (i + 1) cs x hx; simp; omega
        rw [hn]
        simp only
        congr 1
        exact ih past prev p (i + 1) L hL (fun x hx => by have := hpast x hx; omega)
      · simp only [hr, Bool.false_eq_true, if_false]
        have hn : (past ++ (i, f p) :: kl f (p + 1) (i + 1) cs).find? (fun x => x.1 == i) = some (i, f p) := by
          rw [List.find?_append, hpn]
          simp
        rw [hn]
        simp only
        congr 1
        have := ih (past ++ [(i, f p)]) (f p) (p + 1) (i + 1) L hL (by
          intro x hx
          rcases List.mem_append.1 hx with h | h
          · have := hpast x h; omega
          · simp at h; subst h; simp)
        simpa using this

theorem paragraphLevels_fill' (pl : Nat) (chars : List Ch) :
    paragraphLevels pl chars = fill' (lvf pl (ksOf pl chars)) pl 0 (chars.map (·.cls)) := by
  rw [paragraphLevels_eq, kLevelsOf_eq]
  have := fill_eq (lvf pl (ksOf pl chars)) (chars.map (·.cls)) [] pl 0 0 (List.range chars.length)
    (by simp) (by simp)
  simpa using this


/-- number of characters X9 keeps -/
def cnt (cs : List BidiClass) : Nat := (cs.filter (fun c => !isRemoved c)).length

theorem cnt_append (a b : List BidiClass) : cnt (a ++ b) = cnt a + cnt b := by simp [cnt]

theorem fill'_length (f : Nat → Nat) (prev p : Nat) (cs : List BidiClass) :
    (fill' f prev p cs).length = cs.length := by
  induction cs generalizing prev p with
  | nil => rfl
  | cons c cs ih => simp only [fill']; split <;> simp [ih]

theorem fill'_congr (f g : Nat → Nat) (prev p q : Nat) (cs : List BidiClass)
    (h : ∀ t, t < cnt cs → f (p + t) = g (q + t)) : fill' f prev p cs = fill' g prev q cs := by
  induction cs generalizing prev p q with
  | nil => rfl
  | cons c cs ih =>
    simp only [fill']
    by_cases hr : isRemoved c = true
    · simp only [hr, if_true]
      rw [ih prev p q (fun t ht => h t (by simpa [cnt, hr] using ht))]
    · simp only [hr, Bool.false_eq_true, if_false]
      have hc : cnt (c :: cs) = cnt cs + 1 := by simp [cnt, hr]
      have h0 := h 0 (by omega)
      simp only [Nat.add_zero] at h0
      rw [h0, ih (g q) (p + 1) (q + 1) (fun t ht => by
        have := h (t + 1) (by omega)
        rw [show p + 1 + t = p + (t + 1) by omega, show q + 1 + t = q + (t + 1) by omega]; exact this)]

theorem fill'_append (f : Nat → Nat) (prev p : Nat) (xs ys : List BidiClass) :
    ∃ prev', fill' f prev p (xs ++ ys) = fill' f prev p xs ++ fill' f prev' (p + cnt xs) ys := by
  induction xs generalizing prev p with
  | nil => exact ⟨prev, by simp [fill', cnt]⟩
  | cons c xs ih =>
    simp only [List.cons_append, fill']
    by_cases hr : isRemoved c = true
    · obtain ⟨prev', h⟩ := ih prev p
      exact ⟨prev', by simp [hr, h, cnt]⟩
    · obtain ⟨prev', h⟩ := ih (f p) (p + 1)
      refine ⟨prev', ?_⟩
      have hc : cnt (c :: xs) = cnt xs + 1 := by simp [cnt, hr]
      simp only [hr, Bool.false_eq_true, if_false, h, List.cons_append, hc]
      congr 3; omega

/-- a surviving character at the start fixes everything after it -/
theorem fill'_cons_keep (f : Nat → Nat) (prev p : Nat) (c : BidiClass) (cs : List BidiClass)
    (hc : isRemoved c = false) : fill' f prev p (c :: cs) = f p :: fill' f (f p) (p + 1) cs := by
  simp [fill', hc]

end UBidi.Props.C13
