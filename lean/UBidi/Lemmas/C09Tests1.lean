/-
  C09 tests, part 1 (evaluation on a literal; kept in a file of their own because kernel evaluation of the
  built-in class table is slow): the sample text of Props/C09.lean as `&[u16]` and as `&str` — paragraphs
  and reported classes.
-/
import UBidi.Lemmas.C09Multi
namespace UBidi.Props.C09
open UBidi UBidi.BidiClass

/-- sample: `A`, a surrogate pair (U+10401), `א`, a lone high surrogate, space, FSI, `ا`, LF, `1` -/
def sample : List Nat := [0x41, 0xD801, 0xDC01, 0x5D0, 0xD800, 0x20, 0x2068, 0x627, 0xA, 0x31]

/-- the sample as `&[u16]` -/
def sample16 : Text := Utf16.toText sample
/-- the sample as `&str`, the lone surrogate read as U+FFFD -/
def sample8 : Text := Text.ofScalars ((Spec.lossy sample).map (·.1))

/-- test (literals): the two texts differ in their code units — 10 units against 18, the characters start
    at different offsets — and have the same 9 characters -/
theorem sample_texts : sample16.len = 10 ∧ sample8.len = 18 ∧
    sample16.segs.map (·.start) = [0, 1, 3, 4, 5, 6, 7, 8, 9] ∧
    sample8.segs.map (·.start) = [0, 1, 5, 7, 10, 11, 14, 16, 17] ∧
    sample8.segs.map (·.cp) = [0x41, 0x10401, 0x5D0, 0xFFFD, 0x20, 0x2068, 0x627, 0xA, 0x31] := by
  decide

/-- test (literals): two paragraphs, at different code-unit offsets but the same character ranges -/
theorem sample_paras : (computeInitialInfo hardcoded sample16 none true).paras = [⟨0, 9, 0⟩, ⟨9, 10, 0⟩] ∧
    (computeInitialInfo hardcoded sample8 none true).paras = [⟨0, 17, 0⟩, ⟨17, 18, 0⟩] := by
  decide +kernel

theorem sample_para_chars :
    ([⟨0, 9, 0⟩, ⟨9, 10, 0⟩] : List ParaInfo).map (fun p => (charIndexOf sample16 p.start, charIndexOf sample16 p.stop))
      = [(0, 8), (8, 9)] ∧
    ([⟨0, 17, 0⟩, ⟨17, 18, 0⟩] : List ParaInfo).map (fun p => (charIndexOf sample8 p.start, charIndexOf sample8 p.stop))
      = [(0, 8), (8, 9)] := by
  decide

/-- test (literals): the reported classes per character (the FSI has become RLI) -/
theorem sample_classes :
    sample16.segs.map (fun s => (computeInitialInfo hardcoded sample16 none true).classes.getD s.start .ON)
      = [.L, .L, .R, .ON, .WS, .RLI, .AL, .B, .EN] := by
  decide +kernel

end UBidi.Props.C09
