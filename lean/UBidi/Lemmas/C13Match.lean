/-
  C13 — helper lemmas, part 1: balanced isolate content, BD9 matching through a
  balanced block, P2 (`firstStrong`) and X5c (`resolveFSI`) outside a matched pair.
-/
import UBidi.Spec.UAX9
namespace UBidi.Props.C13
open UBidi UBidi.Spec BidiClass

instance : LawfulBEq BidiClass where
  eq_of_beq := by intro a b; cases a <;> cases b <;> decide
  rfl := by intro a; cases a <;> rfl

/-- isolate controls balanced, no paragraph separator -/
inductive IsoBalanced : List BidiClass → Prop
  | nil : IsoBalanced []
  | other (c) (w) : c ≠ .B → c ≠ .LRI → c ≠ .RLI → c ≠ .FSI → c ≠ .PDI → IsoBalanced w →
      IsoBalanced (c :: w)
  | iso (i) (w v) : (i = .LRI ∨ i = .RLI ∨ i = .FSI) → IsoBalanced w → IsoBalanced v →
      IsoBalanced (i :: w ++ .PDI :: v)

theorem isIsoInit_iff (c : BidiClass) : isIsoInit c = true ↔ (c = LRI ∨ c = RLI ∨ c = FSI) := by
  cases c <;> simp [isIsoInit]

theorem IsoBalanced.noB {w : List BidiClass} (h : IsoBalanced w) : B ∉ w := by
  induction h with
  | nil => simp
  | other c w hB _ _ _ _ _ ih => simp [ih, Ne.symm hB]
  | iso i w v hi _ _ ihw ihv =>
    rcases hi with rfl | rfl | rfl <;> simp [ihw, ihv]

theorem IsoBalanced.append {w v : List BidiClass} (hw : IsoBalanced w) (hv : IsoBalanced v) :
    IsoBalanced (w ++ v) := by
  induction hw with
  | nil => simpa
  | other c w h1 h2 h3 h4 h5 _ ih => exact .other c _ h1 h2 h3 h4 h5 ih
  | iso i w u hi hw' _ _ ihu =>
    have := IsoBalanced.iso i w (u ++ v) hi hw' ihu
    simpa using this

/-! ### BD9 -/

/-- the PDI after a balanced content is the match of the initiator before it -/
theorem matching_balanced (w : List BidiClass) (hw : IsoBalanced w) (rest : List BidiClass) (d pos : Nat) :
    matchingPDI (w ++ PDI :: rest) d pos =
      (if d = 0 then some (pos + w.length) else matchingPDI rest (d - 1) (pos + w.length + 1)) := by
  induction hw generalizing rest d pos with
  | nil => simp [matchingPDI, isIsoInit]
  | other c w h1 h2 h3 h4 h5 _ ih =>
    have hiso : isIsoInit c = false := by
      cases c <;> simp_all [isIsoInit]
    have hB : (c == B) = false := by simpa using h1
    have hP : (c == PDI) = false := by simpa using h5
    simp only [List.cons_append, matchingPDI, hB, hiso, hP, Bool.false_eq_true, if_false, ih,
      List.length_cons]
    split <;> (congr 1; try omega)
  | iso i w v hi _ _ ihw ihv =>
    have hiso : isIsoInit i = true := (isIsoInit_iff i).2 hi
    have hB : (i == B) = false := by rcases hi with rfl | rfl | rfl <;> rfl
    have e : (i :: w ++ PDI :: v) ++ PDI :: rest = i :: (w ++ PDI :: (v ++ PDI :: rest)) := by simp
    rw [e]
    simp only [matchingPDI, hB, hiso, Bool.false_eq_true, if_false, if_true, ihw, ihv]
    simp only [Nat.add_one_ne_zero, if_false, Nat.add_sub_cancel, List.length_cons, List.length_append]
    split <;> (congr 1; try omega)

/-- the position offset of `matchingPDI` is additive -/
theorem matching_pos (cs : List BidiClass) (d pos : Nat) :
    matchingPDI cs d pos = (matchingPDI cs d 0).map (· + pos) := by
  induction cs generalizing d pos with
  | nil => simp [matchingPDI]
  | cons c cs ih =>
    simp only [matchingPDI]
    split
    · simp
    · split
      · rw [ih, ih (pos := 0 + 1)]; cases matchingPDI cs _ 0 <;> simp; omega
      · split
        · split
          · simp
          · rw [ih, ih (pos := 0 + 1)]; cases matchingPDI cs _ 0 <;> simp; omega
        · rw [ih, ih (pos := 0 + 1)]; cases matchingPDI cs _ 0 <;> simp; omega

/-- an initiator, a balanced content and its PDI are skipped as a whole -/
theorem matching_skip_pair (i : BidiClass) (hi : isIsoInit i = true) (w : List BidiClass) (hw : IsoBalanced w)
    (rest : List BidiClass) (d pos : Nat) :
    matchingPDI (i :: w ++ PDI :: rest) d pos = matchingPDI rest d (pos + w.length + 2) := by
  have hB : (i == B) = false := by
    rcases (isIsoInit_iff i).1 hi with rfl | rfl | rfl <;> rfl
  simp only [List.cons_append, matchingPDI, hB, hi, Bool.false_eq_true, if_false, if_true,
    matching_balanced w hw, Nat.add_one_ne_zero, Nat.add_sub_cancel]
  congr 1; omega

/-- what a scan through an arbitrary prefix `pre` does: it finds the match inside `pre`, or stops
    at a paragraph separator in `pre`, or leaves `pre` at some depth. -/
theorem matching_prefix (pre : List BidiClass) (d : Nat) :
    (∃ k, k < pre.length ∧ ∀ Y pos, matchingPDI (pre ++ Y) d pos = some (pos + k)) ∨
    (B ∈ pre ∧ ∀ Y pos, matchingPDI (pre ++ Y) d pos = none) ∨
    (B ∉ pre ∧ ∃ d', ∀ Y pos, matchingPDI (pre ++ Y) d pos = matchingPDI Y d' (pos + pre.length)) := by
  induction pre generalizing d with
  | nil => right; right; exact ⟨by simp, d, by simp⟩
  | cons c pre ih =>
    by_cases hB : c = B
    · subst hB; right; left; exact ⟨by simp, by intro Y pos; simp [matchingPDI]⟩
    have hB' : (c == B) = false := by simpa using hB
    have hBm : (B ∈ c :: pre) ↔ B ∈ pre := by simp [Ne.symm hB]
    -- the depth after `c`
    by_cases hfound : c = PDI ∧ d = 0
    · obtain ⟨rfl, rfl⟩ := hfound
      left; exact ⟨0, by simp, by intro Y pos; simp [matchingPDI, isIsoInit]⟩
    · obtain ⟨d1, hd1⟩ : ∃ d1, ∀ Y pos, matchingPDI (c :: pre ++ Y) d pos = matchingPDI (pre ++ Y) d1 (pos + 1) := by
        by_cases hiso : isIsoInit c = true
        · exact ⟨d + 1, by intro Y pos; simp [matchingPDI, hB', hiso]⟩
        · by_cases hP : c = PDI
          · subst hP
            have : d ≠ 0 := fun h => hfound ⟨rfl, h⟩
            exact ⟨d - 1, by intro Y pos; simp [matchingPDI, isIsoInit, this]⟩
          · have hP' : (c == PDI) = false := by simpa using hP
            exact ⟨d, by intro Y pos; simp [matchingPDI, hB', hiso, hP']⟩
      rcases ih d1 with ⟨k, hk, h⟩ | ⟨hm, h⟩ | ⟨hm, d', h⟩
      · left; refine ⟨k + 1, by simp [hk], ?_⟩
        intro Y pos; rw [hd1, h]; congr 1; omega
      · right; left; exact ⟨hBm.2 hm, by intro Y pos; rw [hd1, h]⟩
      · right; right; refine ⟨fun h => hm (hBm.1 h), d', ?_⟩
        intro Y pos; rw [hd1, h]; congr 1; simp; omega

/-! ### P2 -/

/-- enough fuel is enough -/
theorem firstStrong_fuel (cs : List BidiClass) (f1 f2 : Nat) (h1 : cs.length < f1) (h2 : cs.length < f2) :
    firstStrong f1 cs = firstStrong f2 cs := by
  induction f1 generalizing f2 cs with
  | zero => omega
  | succ f1 ih =>
    cases f2 with
    | zero => omega
    | succ f2 =>
      cases cs with
      | nil => simp [firstStrong]
      | cons c cs =>
        simp only [firstStrong]
        simp only [List.length_cons] at h1 h2
        split
        · rfl
        · split
          · split
            · apply ih <;> (simp only [List.length_drop]; omega)
            · rfl
          · apply ih <;> omega


theorem isStrong_of_isIsoInit {c : BidiClass} (h : isIsoInit c = true) : isStrong c = false := by
  cases c <;> simp_all [isIsoInit, isStrong]

theorem drop_pair (pre w suf : List BidiClass) (i : BidiClass) (k n : Nat) (hn : n = k + (pre.length + w.length + 2)) :
    (pre ++ i :: w ++ PDI :: suf).drop n = suf.drop k := by
  subst hn
  have e : pre ++ i :: w ++ PDI :: suf = (pre ++ i :: w ++ [PDI]) ++ suf := by simp
  have l : (pre ++ i :: w ++ [PDI]).length = pre.length + w.length + 2 := by simp; omega
  rw [e, List.drop_append, List.drop_of_length_le (by omega), l]
  simp

/-- P2 at a matched pair: continue after the PDI -/
theorem firstStrong_pair (i : BidiClass) (hi : isIsoInit i = true) (w : List BidiClass)
    (h : IsoBalanced w) (suf : List BidiClass) (f : Nat) :
    firstStrong (f + 1) (i :: w ++ PDI :: suf) = firstStrong f suf := by
  simp only [List.cons_append, firstStrong, isStrong_of_isIsoInit hi, hi,
        Bool.false_eq_true, if_false, if_true, matching_balanced _ h]
  simp

theorem firstStrong_outside (i : BidiClass) (hi : isIsoInit i = true) (w1 w2 : List BidiClass)
    (h1 : IsoBalanced w1) (h2 : IsoBalanced w2) (n : Nat) :
    ∀ (pre suf : List BidiClass) (f1 f2 : Nat), pre.length ≤ n →
      (pre ++ i :: w1 ++ PDI :: suf).length < f1 → (pre ++ i :: w2 ++ PDI :: suf).length < f2 →
      firstStrong f1 (pre ++ i :: w1 ++ PDI :: suf) = firstStrong f2 (pre ++ i :: w2 ++ PDI :: suf) := by
  induction n with
  | zero =>
    intro pre suf f1 f2 hn hf1 hf2
    have : pre = [] := List.eq_nil_of_length_eq_zero (by omega)
    subst this
    simp only [List.nil_append, List.length_cons, List.length_append] at hf1 hf2 ⊢
    obtain ⟨f1, rfl⟩ : ∃ g, f1 = g + 1 := ⟨f1 - 1, by omega⟩
    obtain ⟨f2, rfl⟩ : ∃ g, f2 = g + 1 := ⟨f2 - 1, by omega⟩
    rw [firstStrong_pair i hi w1 h1, firstStrong_pair i hi w2 h2]
    apply firstStrong_fuel <;> omega
  | succ n ih =>
    intro pre suf f1 f2 hn hf1 hf2
    cases pre with
    | nil => exact ih [] suf f1 f2 (by simp) hf1 hf2
    | cons c pre =>
      simp only [List.cons_append, List.length_cons, List.length_append] at hf1 hf2 hn
      obtain ⟨f1, rfl⟩ : ∃ g, f1 = g + 1 := ⟨f1 - 1, by omega⟩
      obtain ⟨f2, rfl⟩ : ∃ g, f2 = g + 1 := ⟨f2 - 1, by omega⟩
      simp only [List.cons_append, List.append_assoc, firstStrong]
      split
      · rfl
      · split
        · rcases matching_prefix pre 0 with ⟨k, hk, h⟩ | ⟨_, h⟩ | ⟨_, d', h⟩
          · have e1 := h (i :: w1 ++ PDI :: suf) 0
            have e2 := h (i :: w2 ++ PDI :: suf) 0
            simp only [List.cons_append] at e1 e2
            rw [e1, e2]
            simp only [Nat.zero_add]
            rw [List.drop_append_of_le_length (by omega), List.drop_append_of_le_length (by omega)]
            have := ih (pre.drop (k + 1)) suf f1 f2 (by simp; omega)
            simp only [List.cons_append, List.append_assoc] at this
            apply this <;> simp <;> omega
          · have e1 := h (i :: w1 ++ PDI :: suf) 0
            have e2 := h (i :: w2 ++ PDI :: suf) 0
            simp only [List.cons_append] at e1 e2
            rw [e1, e2]
          · have e1 := h (i :: w1 ++ PDI :: suf) 0
            have e2 := h (i :: w2 ++ PDI :: suf) 0
            rw [matching_skip_pair i hi w1 h1, matching_pos suf] at e1
            rw [matching_skip_pair i hi w2 h2, matching_pos suf] at e2
            simp only [List.cons_append] at e1 e2
            rw [e1, e2]
            cases matchingPDI suf d' 0 with
            | none => rfl
            | some k0 =>
              simp only [Option.map_some]
              have d1 := drop_pair pre w1 suf i (k0 + 1) (k0 + (0 + pre.length + w1.length + 2) + 1) (by omega)
              have d2 := drop_pair pre w2 suf i (k0 + 1) (k0 + (0 + pre.length + w2.length + 2) + 1) (by omega)
              simp only [List.cons_append, List.append_assoc] at d1 d2
              rw [d1, d2]
              apply firstStrong_fuel <;> simp <;> omega
        · have := ih pre suf f1 f2 (by omega)
          simp only [List.cons_append, List.append_assoc] at this
          apply this <;> simp <;> omega


/-! ### X5c -/

theorem resolveFSI_length (cs : List BidiClass) : (resolveFSI cs).length = cs.length := by
  induction cs with
  | nil => rfl
  | cons c cs ih => simp [resolveFSI, ih]

theorem resolveFSI_drop (a b : List BidiClass) : (resolveFSI (a ++ b)).drop a.length = resolveFSI b := by
  induction a with
  | nil => rfl
  | cons c a ih => simpa [resolveFSI] using ih

theorem length_takeWhile_le' {α} (p : α → Bool) (l : List α) : (l.takeWhile p).length ≤ l.length := by
  induction l with
  | nil => simp
  | cons a l ih => simp only [List.takeWhile_cons]; split <;> simp <;> omega

theorem takeWhile_notB_of_mem (a b : List BidiClass) (h : B ∈ a) :
    (a ++ b).takeWhile (· != B) = a.takeWhile (· != B) := by
  induction a with
  | nil => simp at h
  | cons c a ih =>
    by_cases hc : c = B
    · subst hc; simp [List.takeWhile]
    · have : B ∈ a := by simpa [Ne.symm hc] using h
      simp [List.takeWhile_cons, ih this]

theorem takeWhile_notB_of_not_mem (a b : List BidiClass) (h : B ∉ a) :
    (a ++ b).takeWhile (· != B) = a ++ b.takeWhile (· != B) := by
  induction a with
  | nil => rfl
  | cons c a ih =>
    have hc : c ≠ B := by intro e; subst e; simp at h
    have : B ∉ a := by intro e; exact h (by simp [e])
    simp [ih this, hc]

theorem take_pair (pre w suf : List BidiClass) (i : BidiClass) (k n : Nat) (hn : n = k + (pre.length + w.length + 2)) :
    (pre ++ i :: w ++ PDI :: suf).take n = pre ++ i :: w ++ PDI :: suf.take k := by
  subst hn
  have e : pre ++ i :: w ++ PDI :: suf = (pre ++ i :: w ++ [PDI]) ++ suf := by simp
  have l : (pre ++ i :: w ++ [PDI]).length = pre.length + w.length + 2 := by simp; omega
  rw [e, List.take_append, List.take_of_length_le (by omega), l]
  simp

/-- the strong character X5c looks for in the scope of an FSI standing before `pre` -/
theorem isolateContent_outside (i : BidiClass) (hi : isIsoInit i = true) (w1 w2 : List BidiClass)
    (h1 : IsoBalanced w1) (h2 : IsoBalanced w2) (pre suf : List BidiClass) (f1 f2 : Nat)
    (hf1 : (pre ++ i :: w1 ++ PDI :: suf).length < f1) (hf2 : (pre ++ i :: w2 ++ PDI :: suf).length < f2) :
    firstStrong f1 (isolateContent (pre ++ i :: w1 ++ PDI :: suf)) =
      firstStrong f2 (isolateContent (pre ++ i :: w2 ++ PDI :: suf)) := by
  have hiB : i ≠ B := by rcases (isIsoInit_iff i).1 hi with rfl | rfl | rfl <;> decide
  simp only [List.length_append, List.length_cons] at hf1 hf2
  unfold isolateContent
  rcases matching_prefix pre 0 with ⟨k, hk, h⟩ | ⟨hm, h⟩ | ⟨hm, d', h⟩
  · have e1 := h (i :: w1 ++ PDI :: suf) 0
    have e2 := h (i :: w2 ++ PDI :: suf) 0
    simp only [List.cons_append, List.append_assoc] at e1 e2 ⊢
    rw [e1, e2]
    simp only [Nat.zero_add]
    rw [List.take_append_of_le_length (by omega), List.take_append_of_le_length (by omega)]
    apply firstStrong_fuel <;> simp <;> omega
  · have e1 := h (i :: w1 ++ PDI :: suf) 0
    have e2 := h (i :: w2 ++ PDI :: suf) 0
    simp only [List.cons_append, List.append_assoc] at e1 e2 ⊢
    rw [e1, e2]
    simp only
    rw [takeWhile_notB_of_mem _ _ hm, takeWhile_notB_of_mem _ _ hm]
    have := length_takeWhile_le' (· != B) pre
    apply firstStrong_fuel <;> omega
  · have e1 := h (i :: w1 ++ PDI :: suf) 0
    have e2 := h (i :: w2 ++ PDI :: suf) 0
    rw [matching_skip_pair i hi w1 h1, matching_pos suf] at e1
    rw [matching_skip_pair i hi w2 h2, matching_pos suf] at e2
    simp only [List.cons_append, List.append_assoc] at e1 e2 ⊢
    rw [e1, e2]
    cases matchingPDI suf d' 0 with
    | none =>
      simp only [Option.map_none]
      have n1 : B ∉ pre ++ i :: w1 ++ [PDI] := by simp [hm, h1.noB, Ne.symm hiB]
      have n2 : B ∉ pre ++ i :: w2 ++ [PDI] := by simp [hm, h2.noB, Ne.symm hiB]
      have t1 := takeWhile_notB_of_not_mem _ suf n1
      have t2 := takeWhile_notB_of_not_mem _ suf n2
      simp only [List.cons_append, List.append_assoc, List.nil_append] at t1 t2
      rw [t1, t2]
      have := length_takeWhile_le' (· != B) suf
      have := firstStrong_outside i hi w1 w2 h1 h2 pre.length pre (suf.takeWhile (· != B)) f1 f2 (Nat.le_refl _)
      simp only [List.cons_append, List.append_assoc] at this
      apply this <;> simp <;> omega
    | some k0 =>
      simp only [Option.map_some]
      have t1 := take_pair pre w1 suf i k0 (k0 + (0 + pre.length + w1.length + 2)) (by omega)
      have t2 := take_pair pre w2 suf i k0 (k0 + (0 + pre.length + w2.length + 2)) (by omega)
      simp only [List.cons_append, List.append_assoc] at t1 t2
      rw [t1, t2]
      have := firstStrong_outside i hi w1 w2 h1 h2 pre.length pre (suf.take k0) f1 f2 (Nat.le_refl _)
      simp only [List.cons_append, List.append_assoc] at this
      apply this <;> simp <;> omega

theorem resolveFSI_take_outside (i : BidiClass) (hi : i = LRI ∨ i = RLI) (w1 w2 : List BidiClass)
    (h1 : IsoBalanced w1) (h2 : IsoBalanced w2) (pre suf : List BidiClass) :
    (resolveFSI (pre ++ i :: w1 ++ PDI :: suf)).take (pre.length + 1) =
      (resolveFSI (pre ++ i :: w2 ++ PDI :: suf)).take (pre.length + 1) := by
  have hi' : isIsoInit i = true := by rcases hi with rfl | rfl <;> rfl
  induction pre with
  | nil =>
    have : (i == FSI) = false := by rcases hi with rfl | rfl <;> rfl
    simp [resolveFSI, this]
  | cons c pre ih =>
    simp only [List.cons_append, List.append_assoc] at ih ⊢
    simp only [resolveFSI, List.length_cons, List.take_succ_cons, ih]
    congr 1
    split
    · have := isolateContent_outside i hi' w1 w2 h1 h2 pre suf
        ((pre ++ i :: (w1 ++ PDI :: suf)).length + 1) ((pre ++ i :: (w2 ++ PDI :: suf)).length + 1)
      simp only [List.cons_append, List.append_assoc] at this
      rw [this] <;> simp
    · rfl

end UBidi.Props.C13
