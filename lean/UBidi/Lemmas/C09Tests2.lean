/-
  C09 tests, part 2 (evaluation on a literal): the levels of the sample text, and the `Expand` hypothesis
  of `C09_levels_single_of_expand` (Props/C09.lean) for it.
-/
import UBidi.Lemmas.C09Tests1
namespace UBidi.Props.C09
open UBidi UBidi.BidiClass

/-- `PbiExpand` holds for both texts (hypotheses of `C09_levels_single_of_expand`) -/
theorem sample_PbiExpand : PbiExpand hardcoded sample16 none ∧ PbiExpand hardcoded sample8 none := by
  decide +kernel

/-- test (literals): the levels — 10 against 18 entries -/
theorem sample_levels : (bidiInfo hardcoded sample16 none).levels = [0, 0, 0, 1, 0, 0, 0, 1, 0, 0] ∧
    (bidiInfo hardcoded sample8 none).levels = [0, 0, 0, 0, 0, 1, 1, 0, 0, 0, 0, 0, 0, 0, 1, 1, 0, 0] := by
  decide +kernel

end UBidi.Props.C09
