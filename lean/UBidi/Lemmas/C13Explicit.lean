/-
  C13 — helper lemmas, part 2: the X1–X8 machine (`Spec.xStep`, `Spec.xRun`) over a balanced
  block.  Main results: `balanced_inv` (what a balanced block does to the state from ANY state),
  `pair_restores` (initiator + balanced content + PDI brings the machine back to the state at
  the initiator, valid or overflowing), `xRun_pair`.
-/
import UBidi.Lemmas.C13Match
namespace UBidi.Props.C13
open UBidi UBidi.Spec BidiClass

/-- the state of the X1–X8 machine after the characters `cs` -/
def xFinal (pl : Nat) : XState → List BidiClass → XState
  | s, [] => s
  | s, c :: cs => xFinal pl (xStep pl s c).1 cs

theorem xFinal_append (pl : Nat) (s : XState) (a b : List BidiClass) :
    xFinal pl s (a ++ b) = xFinal pl (xFinal pl s a) b := by
  induction a generalizing s with
  | nil => rfl
  | cons c a ih => simp [xFinal, ih]

theorem xRun_append (pl : Nat) (s : XState) (a b : List BidiClass) :
    xRun pl s (a ++ b) = xRun pl s a ++ xRun pl (xFinal pl s a) b := by
  induction a generalizing s with
  | nil => rfl
  | cons c a ih => simp [xRun, xFinal, ih]

theorem xRun_length (pl : Nat) (s : XState) (a : List BidiClass) : (xRun pl s a).length = a.length := by
  induction a generalizing s with
  | nil => rfl
  | cons c a ih => simp [xRun, ih]

/-- what a balanced block does to the machine -/
def BalInv (s s' : XState) : Prop :=
  if s.overflowIsolate > 0 then s' = s
  else s'.overflowIsolate = 0 ∧ s'.validIsolate = s.validIsolate ∧
    popToIsolate s'.stack = popToIsolate s.stack

theorem BalInv.refl (s : XState) : BalInv s s := by
  unfold BalInv; split <;> simp_all

theorem BalInv.trans {a b c : XState} (h1 : BalInv a b) (h2 : BalInv b c) : BalInv a c := by
  unfold BalInv at *
  by_cases h : a.overflowIsolate > 0
  · simp only [h, if_true] at h1 ⊢; subst h1; simpa [h] using h2
  · simp only [h, if_false] at h1 ⊢
    have : ¬ b.overflowIsolate > 0 := by omega
    simp only [this, if_false] at h2
    exact ⟨h2.1, h2.2.1.trans h1.2.1, h2.2.2.trans h1.2.2⟩

theorem step_other (pl : Nat) (s : XState) (c : BidiClass)
    (h2 : c ≠ LRI) (h3 : c ≠ RLI) (h4 : c ≠ FSI) (h5 : c ≠ PDI) : BalInv s (xStep pl s c).1 := by
  unfold BalInv
  by_cases h : s.overflowIsolate > 0
  · have h0 : (s.overflowIsolate == 0) = false := by simp; omega
    simp only [h, if_true]
    cases c <;> simp_all [xStep]
  · have h0 : s.overflowIsolate = 0 := by omega
    simp only [h, if_false]
    cases c <;> simp_all [xStep]
    all_goals (repeat' split) <;> simp_all [popToIsolate]


/-- the level an isolate initiator `i` would push -/
def isoLevel (pl : Nat) (s : XState) (i : BidiClass) : Nat :=
  if i == RLI then leastOddAbove (topLevel pl s) else leastEvenAbove (topLevel pl s)

/-- X5a/X5b: the initiator is valid (pushes an entry) -/
def isoValid (pl : Nat) (s : XState) (i : BidiClass) : Bool :=
  isoLevel pl s i ≤ maxDepth && s.overflowIsolate == 0 && s.overflowEmbedding == 0

theorem step_iso_valid (pl : Nat) (s : XState) (i : BidiClass) (hi : isIsoInit i = true)
    (hv : isoValid pl s i = true) :
    (xStep pl s i).1 = { s with validIsolate := s.validIsolate + 1,
                                stack := { level := isoLevel pl s i, override := none, isolate := true } :: s.stack } := by
  unfold isoValid at hv
  rcases (isIsoInit_iff i).1 hi with rfl | rfl | rfl <;> simp_all [xStep, isoLevel]

theorem step_iso_invalid (pl : Nat) (s : XState) (i : BidiClass) (hi : isIsoInit i = true)
    (hv : isoValid pl s i = false) :
    (xStep pl s i).1 = { s with overflowIsolate := s.overflowIsolate + 1 } := by
  unfold isoValid at hv
  rcases (isIsoInit_iff i).1 hi with rfl | rfl | rfl <;> simp only [xStep] <;> rw [if_neg] <;>
    simp_all [isoLevel]

theorem step_pdi (pl : Nat) (s : XState) :
    (xStep pl s PDI).1 =
      if s.overflowIsolate > 0 then { s with overflowIsolate := s.overflowIsolate - 1 }
      else if s.validIsolate == 0 then s
      else { s with overflowEmbedding := 0, stack := popToIsolate s.stack,
                    validIsolate := s.validIsolate - 1 } := rfl

/-- an isolate initiator, a block with the balance property, and a PDI: the machine is back where it was -/
theorem pair_restores_aux (pl : Nat) (s : XState) (i : BidiClass) (hi : isIsoInit i = true) (w : List BidiClass)
    (hbal : ∀ s, BalInv s (xFinal pl s w)) :
    (xStep pl (xFinal pl (xStep pl s i).1 w) PDI).1 = s := by
  have hb := hbal (xStep pl s i).1
  rw [step_pdi]
  unfold BalInv at hb
  generalize xFinal pl (xStep pl s i).1 w = s2 at hb ⊢
  cases hv : isoValid pl s i
  · rw [step_iso_invalid pl s i hi hv] at hb
    simp only [Nat.zero_lt_succ, if_true] at hb
    rw [hb]
    simp
  · rw [step_iso_valid pl s i hi hv] at hb
    unfold isoValid at hv
    simp only [Bool.and_eq_true, beq_iff_eq, decide_eq_true_eq] at hv
    simp only [hv.1.2, Nat.lt_irrefl, if_false, popToIsolate, if_true] at hb
    obtain ⟨st, oI, oE, vI⟩ := s
    obtain ⟨st2, oI2, oE2, vI2⟩ := s2
    simp_all

/-- the balance lemma for X1–X8 -/
theorem balanced_inv (pl : Nat) (w : List BidiClass) (hw : IsoBalanced w) : ∀ s, BalInv s (xFinal pl s w) := by
  induction hw with
  | nil => exact fun s => BalInv.refl s
  | other c w _ h2 h3 h4 h5 _ ih =>
    intro s
    exact (step_other pl s c h2 h3 h4 h5).trans (ih _)
  | iso i w v hi _ _ ihw ihv =>
    intro s
    have e : i :: w ++ PDI :: v = (i :: w) ++ PDI :: v := rfl
    rw [e, xFinal_append]
    simp only [xFinal]
    rw [pair_restores_aux pl s i ((isIsoInit_iff i).2 hi) w ihw]
    exact ihv s

/-- X1–X8: at the PDI matching an initiator the machine is back in the state it had at the initiator -/
theorem pair_restores (pl : Nat) (s : XState) (i : BidiClass) (hi : isIsoInit i = true) (w : List BidiClass)
    (hw : IsoBalanced w) :
    (xStep pl (xFinal pl (xStep pl s i).1 w) PDI).1 = s :=
  pair_restores_aux pl s i hi w (balanced_inv pl w hw)

theorem xRun_pair (pl : Nat) (s : XState) (i : BidiClass) (hi : isIsoInit i = true) (w : List BidiClass)
    (hw : IsoBalanced w) (suf : List BidiClass) :
    xRun pl s (i :: w ++ PDI :: suf) =
      ((xStep pl s i).2 :: xRun pl (xStep pl s i).1 w) ++ (topLevel pl s, applyOv s PDI) :: xRun pl s suf := by
  have e : i :: w ++ PDI :: suf = (i :: w) ++ PDI :: suf := rfl
  rw [e, xRun_append]
  simp only [xRun, xFinal]
  have := pair_restores pl s i hi w hw
  congr 2
  · generalize xFinal pl (xStep pl s i).1 w = s2 at this ⊢
    simp only [xStep] at this ⊢
    rw [this]
  · rw [this]


/-! ### the levels inside a valid isolate -/

/-- the stack is `extra ++ base` and every entry of `extra` has level at least `nl` -/
def Above (nl : Nat) (base : List Entry) (s : XState) : Prop :=
  ∃ extra, s.stack = extra ++ base ∧ ∀ e ∈ extra, nl ≤ e.level

theorem leastOddAbove_gt (l : Nat) : l < leastOddAbove l := by unfold leastOddAbove; split <;> omega
theorem leastEvenAbove_gt (l : Nat) : l < leastEvenAbove l := by unfold leastEvenAbove; split <;> omega

theorem isoLevel_gt (pl : Nat) (s : XState) (i : BidiClass) : topLevel pl s < isoLevel pl s i := by
  unfold isoLevel; split
  · exact leastOddAbove_gt _
  · exact leastEvenAbove_gt _

theorem Above.topLevel {nl : Nat} {e0 : Entry} {base : List Entry} {s : XState} (pl : Nat)
    (h : Above nl (e0 :: base) s) (h0 : nl ≤ e0.level) : nl ≤ topLevel pl s := by
  obtain ⟨extra, hs, hl⟩ := h
  unfold Spec.topLevel
  rw [hs]
  cases extra with
  | nil => simpa using h0
  | cons e extra => simpa using hl e (by simp)

theorem step_emb (pl : Nat) (s : XState) (c : BidiClass) (hc : c = RLE ∨ c = LRE ∨ c = RLO ∨ c = LRO) :
    (xStep pl s c).2.1 = topLevel pl s ∧
    ((∃ e : Entry, topLevel pl s < e.level ∧ (xStep pl s c).1 = { s with stack := e :: s.stack }) ∨
     (∃ oE, (xStep pl s c).1 = { s with overflowEmbedding := oE }) ∨ (xStep pl s c).1 = s) := by
  have hodd := leastOddAbove_gt (topLevel pl s)
  have heven := leastEvenAbove_gt (topLevel pl s)
  rcases hc with rfl | rfl | rfl | rfl
  all_goals
    simp (config := { decide := true }) only [xStep, if_true, if_false]
    split
    · exact ⟨rfl, Or.inl ⟨_, by simp; omega, rfl⟩⟩
    · split
      · exact ⟨rfl, Or.inr (Or.inl ⟨_, rfl⟩)⟩
      · exact ⟨rfl, Or.inr (Or.inr rfl)⟩

theorem step_other_above (pl nl : Nat) (e0 : Entry) (base : List Entry) (h0 : nl ≤ e0.level)
    (hiso : e0.isolate = true) (s : XState) (c : BidiClass)
    (hQ : Above nl (e0 :: base) s)
    (h1 : c ≠ B) (h2 : c ≠ LRI) (h3 : c ≠ RLI) (h4 : c ≠ FSI) (h5 : c ≠ PDI) :
    Above nl (e0 :: base) (xStep pl s c).1 ∧ nl ≤ (xStep pl s c).2.1 := by
  have htop := hQ.topLevel pl h0
  have hodd := leastOddAbove_gt (topLevel pl s)
  have heven := leastEvenAbove_gt (topLevel pl s)
  obtain ⟨extra, hs, hl⟩ := hQ
  have push : ∀ (e : Entry), nl ≤ e.level → Above nl (e0 :: base) { s with stack := e :: s.stack } := by
    intro e he
    exact ⟨e :: extra, by simp [hs], by intro e' he'; rcases List.mem_cons.1 he' with rfl | h; exact he; exact hl e' h⟩
  have same : ∀ (oE : Nat), Above nl (e0 :: base) { s with overflowEmbedding := oE } := fun _ => ⟨extra, hs, hl⟩
  have self : Above nl (e0 :: base) s := ⟨extra, hs, hl⟩
  by_cases hemb : c = RLE ∨ c = LRE ∨ c = RLO ∨ c = LRO
  · obtain ⟨hl', hst⟩ := step_emb pl s c hemb
    rw [hl']
    rcases hst with ⟨e, he, h⟩ | ⟨oE, h⟩ | h <;> rw [h]
    · exact ⟨push e (by omega), htop⟩
    · exact ⟨same _, htop⟩
    · exact ⟨self, htop⟩
  cases c <;> try contradiction
  case PDF =>
    simp only [xStep]
    split
    · exact ⟨self, htop⟩
    · split
      · exact ⟨same _, htop⟩
      · split
        · rename_i e rest hst
          split
          · rename_i hc
            simp only [Bool.and_eq_true, Bool.not_eq_true', decide_eq_true_eq] at hc
            -- the top is not an isolate entry, so it belongs to `extra`
            cases extra with
            | nil =>
              simp only [List.nil_append] at hs
              rw [hs] at hst
              simp only [List.cons.injEq] at hst
              rw [← hst.1, hiso] at hc
              simp at hc
            | cons e' extra' =>
              rw [hs] at hst
              simp only [List.cons_append, List.cons.injEq] at hst
              have hab : Above nl (e0 :: base) { s with stack := rest } :=
                ⟨extra', hst.2.symm, fun e'' he'' => hl e'' (by simp [he''])⟩
              exact ⟨hab, hab.topLevel pl h0⟩
          · exact ⟨self, htop⟩
        · exact ⟨self, htop⟩
  all_goals exact ⟨self, htop⟩


theorem step_iso_snd (pl : Nat) (s : XState) (i : BidiClass) (hi : isIsoInit i = true) :
    (xStep pl s i).2.1 = topLevel pl s := by
  rcases (isIsoInit_iff i).1 hi with rfl | rfl | rfl <;> simp only [xStep] <;> (repeat' split) <;> rfl

/-- inside a valid isolate every explicit level is at least the level the initiator pushed -/
theorem content_levels (pl nl : Nat) (e0 : Entry) (base : List Entry) (h0 : nl ≤ e0.level)
    (hiso : e0.isolate = true) (w : List BidiClass) (hw : IsoBalanced w) :
    ∀ s, Above nl (e0 :: base) s →
      Above nl (e0 :: base) (xFinal pl s w) ∧ ∀ x ∈ xRun pl s w, nl ≤ x.1 := by
  induction hw with
  | nil => intro s hs; exact ⟨hs, by simp [xRun]⟩
  | other c w h1 h2 h3 h4 h5 _ ih =>
    intro s hs
    obtain ⟨q1, q2⟩ := step_other_above pl nl e0 base h0 hiso s c hs h1 h2 h3 h4 h5
    obtain ⟨r1, r2⟩ := ih _ q1
    refine ⟨r1, ?_⟩
    intro x hx
    simp only [xRun, List.mem_cons] at hx
    rcases hx with rfl | hx
    · exact q2
    · exact r2 x hx
  | iso i w v hi hw' _ ihw ihv =>
    intro s hs
    have hi' := (isIsoInit_iff i).2 hi
    have htop := hs.topLevel pl h0
    -- the state after the initiator
    have hs1 : Above nl (e0 :: base) (xStep pl s i).1 := by
      cases hv : isoValid pl s i
      · rw [step_iso_invalid pl s i hi' hv]; exact hs
      · rw [step_iso_valid pl s i hi' hv]
        obtain ⟨extra, hst, hl⟩ := hs
        refine ⟨{ level := isoLevel pl s i, override := none, isolate := true } :: extra, by simp [hst], ?_⟩
        intro e he
        rcases List.mem_cons.1 he with rfl | h
        · have := isoLevel_gt pl s i; simp only; omega
        · exact hl e h
    obtain ⟨_, r2⟩ := ihw _ hs1
    obtain ⟨t1, t2⟩ := ihv s hs
    constructor
    · have e : i :: w ++ PDI :: v = (i :: w) ++ PDI :: v := rfl
      rw [e, xFinal_append]
      simp only [xFinal]
      rw [pair_restores pl s i hi' w hw']
      exact t1
    · intro x hx
      rw [xRun_pair pl s i hi' w hw' v] at hx
      simp only [List.cons_append, List.mem_cons, List.mem_append] at hx
      rcases hx with rfl | hx | rfl | hx
      · rw [step_iso_snd pl s i hi']; exact htop
      · exact r2 x hx
      · exact htop
      · exact t2 x hx

/-- the explicit levels of the content of a valid isolate are above the level of the initiator -/
theorem content_levels_valid (pl : Nat) (s : XState) (i : BidiClass) (hi : isIsoInit i = true)
    (hv : isoValid pl s i = true) (w : List BidiClass) (hw : IsoBalanced w) :
    ∀ x ∈ xRun pl (xStep pl s i).1 w, topLevel pl s < x.1 := by
  rw [step_iso_valid pl s i hi hv]
  have := (content_levels pl (isoLevel pl s i) { level := isoLevel pl s i, override := none, isolate := true }
    s.stack (Nat.le_refl _) rfl w hw
    { s with validIsolate := s.validIsolate + 1,
             stack := { level := isoLevel pl s i, override := none, isolate := true } :: s.stack }
    ⟨[], rfl, by simp⟩).2
  intro x hx
  have h1 := this x hx
  have h2 := isoLevel_gt pl s i
  omega

end UBidi.Props.C13
