/-
  UBidi.Lemmas.C01WeakRuns — StageW layer 3, part 2: the structure of
  `IRSeq.indexed` for a sequence of several level runs, and what
  `iter_forwards_from` / `iter_backwards_from` return at its `k`-th unit.
-/
import UBidi.Lemmas.C01WeakScatter
namespace UBidi.Lemmas.C01Weak
open UBidi UBidi.Spec BidiClass

/-- `IRSeq.indexed` with the run counter starting at `off` -/
def indexedFrom (runs : List (Nat × Nat)) (off : Nat) : List (Nat × Nat) :=
  (runs.zipIdx off).flatMap (fun (r, k) => (runIndices r).map (fun i => (k, i)))

theorem indexed_eq_from (s : IRSeq) : s.indexed = indexedFrom s.runs 0 := rfl

theorem indexedFrom_cons (r : Nat × Nat) (rs : List (Nat × Nat)) (off : Nat) :
    indexedFrom (r :: rs) off = (runIndices r).map (fun i => (off, i)) ++ indexedFrom rs (off + 1) := by
  simp [indexedFrom, List.zipIdx_cons]

theorem indexedFrom_length (runs : List (Nat × Nat)) (off : Nat) :
    (indexedFrom runs off).length = (runs.flatMap runIndices).length := by
  induction runs generalizing off with
  | nil => rfl
  | cons r rs ih => rw [indexedFrom_cons]; simp [ih]

/-- the `k`-th unit of the sequence: its run and its offset in the run -/
theorem indexedFrom_get (runs : List (Nat × Nat)) (off k : Nat) (hk : k < (indexedFrom runs off).length) :
    ∃ pre a b post d, runs = pre ++ (a, b) :: post ∧ d < b - a ∧
      (indexedFrom runs off)[k] = (off + pre.length, a + d) ∧ k = (pre.flatMap runIndices).length + d := by
  induction runs generalizing off k with
  | nil => simp [indexedFrom] at hk
  | cons r rs ih =>
    obtain ⟨a, b⟩ := r
    have hcons := indexedFrom_cons (a, b) rs off
    by_cases hlt : k < b - a
    · refine ⟨[], a, b, rs, k, rfl, hlt, ?_, by simp⟩
      simp only [hcons]
      rw [List.getElem_append_left (by simp [runIndices, hlt])]
      simp [runIndices]
    · have hk' : k - (b - a) < (indexedFrom rs (off + 1)).length := by
        rw [hcons] at hk
        simp [runIndices] at hk
        omega
      obtain ⟨pre, a', b', post, d, h1, h2, h3, h4⟩ := ih (off + 1) (k - (b - a)) hk'
      refine ⟨(a, b) :: pre, a', b', post, d, by rw [h1]; rfl, h2, ?_, ?_⟩
      · simp only [hcons]
        rw [List.getElem_append_right (by simp [runIndices]; omega)]
        simp only [List.length_map, runIndices, List.length_range']
        rw [h3]
        simp; omega
      · simp [runIndices] at h4 ⊢
        omega


theorem drop_eq_map_idx (l : List Nat) (a : Nat) : l.drop a = (List.range' a (l.length - a)).map (idx l) := by
  apply List.ext_getElem
  · simp
  · intro j h1 h2
    simp only [List.length_drop] at h1
    simp [idx, List.getD_eq_getElem?_getD, List.getElem?_eq_getElem (show a + j < l.length by omega)]

theorem take_reverse_eq_map_idx (l : List Nat) (k : Nat) (hk : k ≤ l.length) :
    (l.take k).reverse = (List.range' 0 k).reverse.map (idx l) := by
  rw [List.map_reverse]
  congr 1
  apply List.ext_getElem
  · simp; omega
  · intro j h1 h2
    simp only [List.length_take] at h1
    simp [idx, List.getD_eq_getElem?_getD, List.getElem?_eq_getElem (show j < l.length by omega)]

theorem drop_add_append {α} (l1 l2 : List α) (m : Nat) : (l1 ++ l2).drop (l1.length + m) = l2.drop m := by
  induction l1 with
  | nil => simp
  | cons x l1 ih => simp [Nat.succ_add]

theorem take_add_append {α} (l1 l2 : List α) (m : Nat) : (l1 ++ l2).take (l1.length + m) = l1 ++ l2.take m := by
  induction l1 with
  | nil => simp
  | cons x l1 ih => simpa [Nat.succ_add] using ih

theorem indexed_snd (s : IRSeq) : s.indexed.map (·.2) = s.indices := by
  rw [indexed_eq_from]
  unfold IRSeq.indices
  generalize s.runs = runs
  generalize 0 = off
  induction runs generalizing off with
  | nil => rfl
  | cons r rs ih => rw [indexedFrom_cons]; simp [ih, List.map_map, Function.comp_def]

/-- what the pass sees at the `k`-th unit of a sequence: its index, and the forward / backward walks -/
theorem indexed_facts (s : IRSeq) (k : Nat) (hk : k < s.indices.length) :
    (s.indexed.getD k (0, 0)).2 = idx s.indices k ∧
    s.iterForwardsFrom ((s.indexed.getD k (0, 0)).2 + 1) (s.indexed.getD k (0, 0)).1
      = (List.range' (k + 1) (s.indices.length - (k + 1))).map (idx s.indices) ∧
    s.iterBackwardsFrom (s.indexed.getD k (0, 0)).2 (s.indexed.getD k (0, 0)).1
      = (List.range' 0 k).reverse.map (idx s.indices) := by
  have hlen : s.indexed.length = s.indices.length := by rw [← indexed_snd, List.length_map]
  have hk' : k < (indexedFrom s.runs 0).length := by rw [← indexed_eq_from, hlen]; exact hk
  obtain ⟨pre, a, b, post, d, h1, h2, h3, h4⟩ := indexedFrom_get s.runs 0 k hk'
  have hget : s.indexed.getD k (0, 0) = (pre.length, a + d) := by
    rw [List.getD_eq_getElem?_getD, indexed_eq_from, List.getElem?_eq_getElem hk', h3]; simp
  have hind : s.indices = pre.flatMap runIndices ++ (List.range' a (b - a) ++ post.flatMap runIndices) := by
    simp [IRSeq.indices, h1, runIndices]
  rw [hget]
  simp only []
  refine ⟨?_, ?_, ?_⟩
  · rw [idx, List.getD_eq_getElem?_getD, hind, h4, List.getElem?_append_right (by omega)]
    simp [List.getElem?_append_left, h2]
  · rw [← drop_eq_map_idx]
    simp only [IRSeq.iterForwardsFrom, h1, List.drop_left']
    rw [hind, h4, show (pre.flatMap runIndices).length + d + 1 = (pre.flatMap runIndices).length + (d + 1) by omega,
      drop_add_append, List.drop_append_of_le_length (by simp; omega), List.drop_range']
    congr 2
    · omega
    · omega
  · rw [← take_reverse_eq_map_idx _ _ (by omega)]
    simp only [IRSeq.iterBackwardsFrom, h1]
    rw [List.getElem?_append_right (by omega)]
    simp only [Nat.sub_self, List.getElem?_cons_zero, List.take_left']
    rw [hind, h4, take_add_append, List.take_append_of_le_length (by simp; omega),
      List.take_range'_of_length_ge (by omega), List.reverse_append, List.reverse_flatMap]
    congr 2
    · congr 1; omega


end UBidi.Lemmas.C01Weak
