/-
  C02 helper lemmas, Spec side: BD9 (`matchingPDI`), P2 (`firstStrong`) and the
  X5c description `resolveFSI` rewritten as single left-to-right scans with a
  depth counter (`scan`, `scanP`, `resolveScan`), for a paragraph `xs ++ tl`
  whose body `xs` contains no class-B character and whose tail `tl` is empty or
  the single separator `[B]`.
-/
import UBidi.Spec.UAX9
namespace UBidi.Lemmas.C02
open UBidi BidiClass Spec

instance instLawfulBEqBidiClass : LawfulBEq BidiClass where
  rfl := by intro a; cases a <;> rfl
  eq_of_beq := by intro a b; cases a <;> cases b <;> first | (intro; rfl) | (intro h; cases h)

/-- `firstStrong` with enough fuel -/
def fs (xs : List BidiClass) : Option BidiClass := firstStrong (xs.length + 1) xs

/-- what is left of `xs` after leaving `d` isolates that are open at its start
    (`none` if one of them is not closed in `xs`) -/
def skip : Nat → List BidiClass → Option (List BidiClass)
  | 0, xs => some xs
  | d + 1, xs => (matchingPDI xs d 0).map (fun k => xs.drop (k + 1))

/-- `isolateContent` for an initiator with `d` further isolates already open -/
def contentD (d : Nat) (xs : List BidiClass) : List BidiClass :=
  match matchingPDI xs d 0 with
  | some k => xs.take k
  | none => xs.takeWhile (· != B)

/-- the first strong character at relative depth 0 before the PDI that closes
    the isolate we are in (`d` = number of isolates opened since) -/
def scan : Nat → List BidiClass → Option BidiClass
  | _, [] => none
  | d, c :: cs =>
    if isIsoInit c then scan (d + 1) cs
    else if c == PDI then (if d == 0 then none else scan (d - 1) cs)
    else if isStrong c && d == 0 then some c
    else scan d cs

/-- the first strong character at depth 0, `d` = number of open isolates -/
def scanP : Nat → List BidiClass → Option BidiClass
  | _, [] => none
  | d, c :: cs =>
    if isIsoInit c then scanP (d + 1) cs
    else if c == PDI then scanP (d - 1) cs
    else if isStrong c && d == 0 then some c
    else scanP d cs

/-- X5c: what an FSI becomes, given the first strong character of its content -/
def res : Option BidiClass → BidiClass
  | some L => LRI
  | some _ => RLI
  | none => FSI

def resolveScan : List BidiClass → List BidiClass
  | [] => []
  | c :: cs => (if c == FSI then res (scan 0 cs) else c) :: resolveScan cs

def lvlOf (c : BidiClass) : Nat := if c != L then 1 else 0

/-! ### matchingPDI -/

theorem matchingPDI_pos : ∀ (xs : List BidiClass) (d p : Nat),
    matchingPDI xs d p = (matchingPDI xs d 0).map (· + p) := by
  intro xs
  induction xs with
  | nil => intro d p; simp [matchingPDI]
  | cons c cs ih =>
    intro d p
    have h1 : ∀ d', matchingPDI cs d' (p + 1) = (matchingPDI cs d' 0).map (· + (p + 1)) := fun d' => ih d' (p + 1)
    have h2 : ∀ d', matchingPDI cs d' (0 + 1) = (matchingPDI cs d' 0).map (· + 1) := fun d' => ih d' 1
    simp only [matchingPDI, h1, h2]
    split
    · rfl
    · split
      · simp [Option.map_map, Function.comp_def, Nat.add_assoc, Nat.add_comm 1 p]
      · split
        · split
          · simp
          · simp [Option.map_map, Function.comp_def, Nat.add_assoc, Nat.add_comm 1 p]
        · simp [Option.map_map, Function.comp_def, Nat.add_assoc, Nat.add_comm 1 p]

theorem matchingPDI_lt : ∀ (xs : List BidiClass) (d k : Nat),
    matchingPDI xs d 0 = some k → k < xs.length := by
  intro xs
  induction xs with
  | nil => intro d k h; simp [matchingPDI] at h
  | cons c cs ih =>
    intro d k h
    simp only [matchingPDI] at h
    rw [matchingPDI_pos cs _ (0 + 1)] at h
    rw [matchingPDI_pos cs _ (0 + 1)] at h
    rw [matchingPDI_pos cs _ (0 + 1)] at h
    split at h
    · cases h
    · split at h
      · simp only [Option.map_eq_some_iff] at h
        obtain ⟨a, ha, rfl⟩ := h
        have := ih _ _ ha; simp; omega
      · split at h
        · split at h
          · cases h; simp
          · simp only [Option.map_eq_some_iff] at h
            obtain ⟨a, ha, rfl⟩ := h
            have := ih _ _ ha; simp; omega
        · simp only [Option.map_eq_some_iff] at h
          obtain ⟨a, ha, rfl⟩ := h
          have := ih _ _ ha; simp; omega

theorem matchingPDI_nil (d p : Nat) : matchingPDI [] d p = none := rfl
theorem matchingPDI_B (xs : List BidiClass) (d p : Nat) : matchingPDI (B :: xs) d p = none := by
  simp [matchingPDI]

/-- one step of `matchingPDI`, position-free -/
theorem matchingPDI_cons (c : BidiClass) (xs : List BidiClass) (d : Nat) :
    matchingPDI (c :: xs) d 0 =
      if c == B then none
      else if isIsoInit c then (matchingPDI xs (d + 1) 0).map (· + 1)
      else if c == PDI then (if d == 0 then some 0 else (matchingPDI xs (d - 1) 0).map (· + 1))
      else (matchingPDI xs d 0).map (· + 1) := by
  simp only [matchingPDI]
  rw [matchingPDI_pos xs (d + 1) (0 + 1), matchingPDI_pos xs (d - 1) (0 + 1), matchingPDI_pos xs d (0 + 1)]

/-! ### skip, contentD -/

theorem skip_succ_nil (d : Nat) : skip (d + 1) [] = none := rfl
theorem skip_succ_B (d : Nat) (xs : List BidiClass) : skip (d + 1) (B :: xs) = none := by
  simp [skip, matchingPDI_B]

theorem skip_succ_cons (c : BidiClass) (hc : c ≠ B) (xs : List BidiClass) (d : Nat) :
    skip (d + 1) (c :: xs) =
      if isIsoInit c then skip (d + 2) xs
      else if c == PDI then skip d xs
      else skip (d + 1) xs := by
  have hB : (c == B) = false := by simpa using hc
  simp only [skip, matchingPDI_cons, hB, Bool.false_eq_true, if_false]
  by_cases h1 : isIsoInit c = true
  · simp only [h1, if_true, Option.map_map, Function.comp_def, List.drop_succ_cons]
  · simp only [h1]
    by_cases h2 : (c == PDI) = true
    · simp only [h2, if_true]
      cases d with
      | zero => simp
      | succ d' => simp [Option.map_map, Function.comp_def]
    · simp only [h2, Bool.false_eq_true, if_false, Option.map_map, Function.comp_def, List.drop_succ_cons]

theorem contentD_nil (d : Nat) : contentD d [] = [] := rfl
theorem contentD_B (d : Nat) (xs : List BidiClass) : contentD d (B :: xs) = [] := by
  simp [contentD, matchingPDI_B]

theorem contentD_cons (c : BidiClass) (hc : c ≠ B) (xs : List BidiClass) (d : Nat) :
    contentD d (c :: xs) =
      if isIsoInit c then c :: contentD (d + 1) xs
      else if c == PDI then (if d == 0 then [] else c :: contentD (d - 1) xs)
      else c :: contentD d xs := by
  have hB : (c == B) = false := by simpa using hc
  have hB' : (c != B) = true := by simpa using hc
  simp only [contentD, matchingPDI_cons, hB, Bool.false_eq_true, if_false]
  by_cases h1 : isIsoInit c = true
  · simp only [h1, if_true]
    cases h : matchingPDI xs (d + 1) 0 <;> simp [hB']
  · simp only [h1]
    by_cases h2 : (c == PDI) = true
    · simp only [h2, if_true]
      by_cases h3 : (d == 0) = true
      · simp [h3]
      · simp only [h3]
        cases h : matchingPDI xs (d - 1) 0 <;> simp [hB']
    · simp only [h2, Bool.false_eq_true, if_false]
      cases h : matchingPDI xs d 0 <;> simp [hB']

theorem contentD_length_le (d : Nat) (xs : List BidiClass) : (contentD d xs).length ≤ xs.length := by
  unfold contentD
  split
  · simp only [List.length_take]; omega
  · exact (List.takeWhile_sublist _).length_le

/-! ### firstStrong -/

theorem firstStrong_fuel : ∀ (f1 f2 : Nat) (xs : List BidiClass), xs.length < f1 → xs.length < f2 →
    firstStrong f1 xs = firstStrong f2 xs := by
  intro f1
  induction f1 with
  | zero => intro f2 xs h; omega
  | succ f1 ih =>
    intro f2 xs h1 h2
    cases f2 with
    | zero => omega
    | succ f2 =>
      cases xs with
      | nil => rfl
      | cons c cs =>
        simp only [firstStrong]
        simp only [List.length_cons] at h1 h2
        split
        · rfl
        · split
          · split
            · rename_i k hk
              have := matchingPDI_lt _ _ _ hk
              apply ih <;> simp only [List.length_drop] <;> omega
            · rfl
          · apply ih <;> omega

theorem fs_eq (f : Nat) (xs : List BidiClass) (h : xs.length < f) : firstStrong f xs = fs xs :=
  firstStrong_fuel _ _ _ h (Nat.lt_succ_self _)

theorem fs_nil : fs [] = none := rfl

theorem fs_cons (c : BidiClass) (xs : List BidiClass) :
    fs (c :: xs) =
      if isStrong c then some c
      else if isIsoInit c then (skip 1 xs).bind fs
      else fs xs := by
  show firstStrong ((c :: xs).length + 1) (c :: xs) = _
  simp only [List.length_cons, firstStrong]
  split
  · rfl
  · split
    · simp only [skip]
      cases h : matchingPDI xs 0 0 with
      | none => rfl
      | some k =>
        have := matchingPDI_lt _ _ _ h
        simp only [Option.map_some, Option.bind_some]
        apply fs_eq; simp only [List.length_drop]; omega
    · apply fs_eq; omega

/-! ### the scans -/

/-- a paragraph tail: nothing, or the paragraph separator -/
def IsTail (tl : List BidiClass) : Prop := tl = [] ∨ tl = [B]

theorem scanP_strong : ∀ (xs : List BidiClass) (d : Nat) (x : BidiClass),
    scanP d xs = some x → isStrong x = true := by
  intro xs
  induction xs with
  | nil => intro d x h; simp [scanP] at h
  | cons c cs ih =>
    intro d x h
    simp only [scanP] at h
    split at h
    · exact ih _ _ h
    · split at h
      · exact ih _ _ h
      · split at h
        · rename_i h3; cases h; simp only [Bool.and_eq_true] at h3; exact h3.1
        · exact ih _ _ h

theorem scan_strong : ∀ (xs : List BidiClass) (d : Nat) (x : BidiClass),
    scan d xs = some x → isStrong x = true := by
  intro xs
  induction xs with
  | nil => intro d x h; simp [scan] at h
  | cons c cs ih =>
    intro d x h
    simp only [scan] at h
    split at h
    · exact ih _ _ h
    · split at h
      · split at h
        · cases h
        · exact ih _ _ h
      · split at h
        · rename_i h3; cases h; simp only [Bool.and_eq_true] at h3; exact h3.1
        · exact ih _ _ h

theorem scan_eq (xs : List BidiClass) (hxs : ∀ c ∈ xs, c ≠ B) (tl : List BidiClass) (htl : IsTail tl) :
    ∀ d, (skip d (contentD d (xs ++ tl))).bind fs = scan d xs := by
  induction xs with
  | nil =>
    intro d
    rcases htl with rfl | rfl
    · cases d <;> rfl
    · cases d <;> simp [contentD_B, skip, fs_nil, scan, matchingPDI_nil]
  | cons c cs ih =>
    intro d
    have hc : c ≠ B := hxs c (by simp)
    have ih := ih (fun x hx => hxs x (by simp [hx]))
    rw [List.cons_append, contentD_cons c hc]
    cases d with
    | zero =>
      simp only [skip, Option.bind_some, scan]
      rw [← ih 0, ← ih 1]
      cases c <;> simp [isIsoInit, isStrong, fs_cons, fs_nil, skip] at hc ⊢
    | succ d =>
      simp only [scan, Nat.add_sub_cancel]
      rw [← ih d, ← ih (d + 1), ← ih (d + 1 + 1)]
      cases c <;> simp [isIsoInit, isStrong, skip_succ_cons] at hc ⊢

theorem scanP_eq (xs : List BidiClass) (hxs : ∀ c ∈ xs, c ≠ B) (tl : List BidiClass) (htl : IsTail tl) :
    ∀ d, (skip d (xs ++ tl)).bind fs = scanP d xs := by
  induction xs with
  | nil =>
    intro d
    rcases htl with rfl | rfl
    · cases d <;> rfl
    · cases d
      · rfl
      · simp [skip_succ_B, scanP]
  | cons c cs ih =>
    intro d
    have hc : c ≠ B := hxs c (by simp)
    have ih := ih (fun x hx => hxs x (by simp [hx]))
    rw [List.cons_append]
    cases d with
    | zero =>
      simp only [skip, Option.bind_some, scanP]
      rw [← ih 0, ← ih 1]
      cases c <;> simp [isIsoInit, isStrong, fs_cons, skip] at hc ⊢
    | succ d =>
      simp only [scanP, Nat.add_sub_cancel]
      rw [skip_succ_cons c hc, ← ih d, ← ih (d + 1), ← ih (d + 1 + 1)]
      cases c <;> simp [isIsoInit, isStrong] at hc ⊢

theorem resolveFSI_eq (xs : List BidiClass) (hxs : ∀ c ∈ xs, c ≠ B) (tl : List BidiClass) (htl : IsTail tl) :
    resolveFSI (xs ++ tl) = resolveScan xs ++ tl := by
  induction xs with
  | nil => rcases htl with rfl | rfl <;> simp [resolveFSI, resolveScan]
  | cons c cs ih =>
    have ih := ih (fun x hx => hxs x (by simp [hx]))
    have hs := scan_eq cs (fun x hx => hxs x (by simp [hx])) tl htl 0
    simp only [skip, Option.bind_some] at hs
    have hf : firstStrong ((cs ++ tl).length + 1) (isolateContent (cs ++ tl)) = scan 0 cs := by
      rw [← hs]
      apply fs_eq
      have := contentD_length_le 0 (cs ++ tl)
      show (contentD 0 (cs ++ tl)).length < _
      omega
    rw [List.cons_append]
    simp only [resolveFSI, resolveScan, hf, ih, List.cons_append]
    congr 1

theorem paraLevel_eq (dflt : Option Nat) (xs : List BidiClass) (hxs : ∀ c ∈ xs, c ≠ B)
    (tl : List BidiClass) (htl : IsTail tl) :
    paraLevel dflt (xs ++ tl) =
      (match dflt with | some l => some l | none => (scanP 0 xs).map lvlOf).getD 0 := by
  cases dflt with
  | some l => rfl
  | none =>
    have h := scanP_eq xs hxs tl htl 0
    simp only [skip, Option.bind_some] at h
    simp only [paraLevel]
    change (match fs (xs ++ tl) with | some R | some AL => 1 | _ => 0) = _
    rw [h]
    cases hsc : scanP 0 xs with
    | none => rfl
    | some x =>
      have := scanP_strong _ _ _ hsc
      cases x <;> simp [lvlOf, isStrong] at this ⊢

end UBidi.Lemmas.C02
