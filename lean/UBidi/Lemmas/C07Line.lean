/-
  C07 helpers, part 3: `reorder_line`.  The line levels stay ≤ 126, they are uniform within
  the characters of the line, so every level run of the line starts and ends on a character
  boundary and the `str` slicing of `reorder_line` cannot fail.
-/
import UBidi.Props.C03
import UBidi.Props.C05
namespace UBidi.Lemmas.C07
open UBidi UBidi.BidiClass UBidi.Lemmas.C03

/-! ### L1 writes only the paragraph level or a level that was already there -/

theorem mem_setRange {α} (xs : List α) (i n : Nat) (v x : α) (h : x ∈ setRange xs i n v) :
    x ∈ xs ∨ x = v := by
  induction n generalizing xs with
  | zero => exact Or.inl h
  | succ n ih =>
    simp only [setRange] at h
    rcases ih _ h with h | h
    · exact List.mem_or_eq_of_mem_set h
    · exact Or.inr h

structure L1Bound (M : Nat) (st : L1State) : Prop where
  lv : ∀ l ∈ st.levels, l ≤ M
  prev : st.prev ≤ M

theorem getD_le (xs : List Nat) (i M : Nat) (h : ∀ l ∈ xs, l ≤ M) : xs.getD i 0 ≤ M := by
  rw [List.getD_eq_getElem?_getD]
  cases hx : xs[i]? with
  | none => simp
  | some x => exact h x (List.mem_of_getElem? hx)

theorem setRange_le (xs : List Nat) (i n v M : Nat) (h : ∀ l ∈ xs, l ≤ M) (hv : v ≤ M) :
    ∀ l ∈ setRange xs i n v, l ≤ M := by
  intro l hl
  rcases mem_setRange xs i n v l hl with h1 | h1
  · exact h l h1
  · omega

theorem l1Step_bound (enc : Enc) (cls : Classes) (pl M : Nat) (hpl : pl ≤ M) (st : L1State) (s : Seg)
    (h : L1Bound M st) : L1Bound M (l1Step enc cls pl st s) := by
  obtain ⟨h1, h2⟩ := h
  have key : ∀ l ∈ (l1Step enc cls pl st s).levels, l ≤ M := by
    unfold l1Step
    simp only []
    split <;> split <;>
      first
        | exact h1
        | exact setRange_le _ _ _ _ _ h1 h2
        | exact setRange_le _ _ _ _ _ h1 hpl
        | exact setRange_le _ _ _ _ _ (setRange_le _ _ _ _ _ h1 h2) hpl
  refine ⟨key, ?_⟩
  have : (l1Step enc cls pl st s).prev = (l1Step enc cls pl st s).levels.getD s.start 0 := by
    unfold l1Step
    simp only []
  rw [this]
  exact getD_le _ _ _ key

theorem l1_fold_bound (enc : Enc) (cls : Classes) (pl M : Nat) (hpl : pl ≤ M) :
    ∀ (segs : List Seg) (st : L1State), L1Bound M st → L1Bound M (segs.foldl (l1Step enc cls pl) st)
  | [], _, h => h
  | s :: segs, st, h => l1_fold_bound enc cls pl M hpl segs _ (l1Step_bound enc cls pl M hpl st s h)

/-- `reorder_levels` keeps every level below a bound that holds for the input and the paragraph level -/
theorem reorderLevels_le (cls : Classes) (lv : List Nat) (t : Text) (pl M : Nat) (hpl : pl ≤ M)
    (h : ∀ l ∈ lv, l ≤ M) : ∀ l ∈ (reorderLevels cls lv t pl).1, l ≤ M := by
  have := l1_fold_bound t.enc cls pl M hpl t.segs { levels := lv, prev := pl } ⟨h, hpl⟩
  unfold reorderLevels
  simp only []
  split
  · exact setRange_le _ _ _ _ _ this.lv hpl
  · exact this.lv

/-! ### the `assert_eq!(reset_to, None)` of `reorder_levels` is unreachable, whatever the input -/

theorem orErr_none_right' (a : Option Panic) : orErr a none = a := by cases a <;> rfl

/-- `reset_to` is `None` again at the end of every iteration (a separator sets `reset_from` too, and the
    range is reset at once), so the assert at the next separator holds -/
theorem l1Step_resetTo (enc : Enc) (cls : Classes) (pl : Nat) (st : L1State) (s : Seg)
    (h : st.resetTo = none) :
    (l1Step enc cls pl st s).resetTo = none ∧ (l1Step enc cls pl st s).err = st.err := by
  unfold l1Step
  simp only []
  generalize cget cls s.start = c
  cases c <;> cases hrf : st.resetFrom <;> simp [h, orErr_none_right']

theorem l1_fold_resetTo (enc : Enc) (cls : Classes) (pl : Nat) :
    ∀ (segs : List Seg) (st : L1State), st.resetTo = none →
      (segs.foldl (l1Step enc cls pl) st).resetTo = none ∧ (segs.foldl (l1Step enc cls pl) st).err = st.err
  | [], _, h => ⟨h, rfl⟩
  | s :: segs, st, h => by
    obtain ⟨h1, h2⟩ := l1Step_resetTo enc cls pl st s h
    obtain ⟨h3, h4⟩ := l1_fold_resetTo enc cls pl segs _ h1
    exact ⟨h3, h4.trans h2⟩

/-- `reorder_levels` cannot panic: no hypothesis on the classes, the levels or the text -/
theorem reorderLevels_err (cls : Classes) (lv : List Nat) (t : Text) (pl : Nat) :
    (reorderLevels cls lv t pl).2 = none := by
  have := (l1_fold_resetTo t.enc cls pl t.segs { levels := lv, prev := pl } rfl).2
  unfold reorderLevels
  simp only []
  split <;> exact this

/-- `reordered_levels(line)` panics only through its range checks and the `str` slicing -/
theorem reorderedLevels_err (t : Text) (classes : List BidiClass) (levels : List Nat) (pl a b : Nat)
    (hab : a ≤ b) (hbl : b ≤ levels.length) (hbc : b ≤ classes.length)
    (hbd : t.enc = .utf8 → t.isBoundary a = true ∧ t.isBoundary b = true) :
    (reorderedLevels t classes levels pl a b).2 = none := by
  unfold reorderedLevels
  rw [if_neg (by simp; omega), if_neg (by simp; omega)]
  split
  · rename_i h
    simp only [Bool.and_eq_true, beq_iff_eq, Bool.not_eq_true'] at h
    have := hbd h.1
    simp [this.1, this.2] at h
  · exact reorderLevels_err _ _ _ _

theorem reorderedLevels_le (t : Text) (classes : List BidiClass) (levels : List Nat) (pl a b M : Nat)
    (hpl : pl ≤ M) (h : ∀ l ∈ levels, l ≤ M) : ∀ l ∈ (reorderedLevels t classes levels pl a b).1, l ≤ M := by
  unfold reorderedLevels
  split
  · exact h
  · split
    · exact h
    · split
      · exact h
      · intro l hl
        simp only [List.mem_append] at hl
        rcases hl with (hl | hl) | hl
        · exact h l (List.mem_of_mem_take hl)
        · exact reorderLevels_le _ _ _ _ M hpl
            (fun x hx => h x (List.mem_of_mem_drop (List.mem_of_mem_take hx))) l hl
        · exact h l (List.mem_of_mem_drop hl)

/-! ### characters cover the text; levels do not change inside a character -/

theorem segs_cover : ∀ (segs : List Seg) (k n i : Nat), SegsFrom k segs n → k ≤ i → i < n →
    ∃ s ∈ segs, s.start ≤ i ∧ i < s.start + s.len
  | [], k, n, i, h, h1, h2 => by simp only [SegsFrom] at h; omega
  | s :: ss, k, n, i, h, h1, h2 => by
    obtain ⟨hs, hpos, h'⟩ := h
    by_cases hi : i < k + s.len
    · exact ⟨s, by simp, by omega, by omega⟩
    · obtain ⟨x, hx, hx1⟩ := segs_cover ss (k + s.len) n i h' (by omega) h2
      exact ⟨x, by simp [hx], hx1⟩

/-- a unit that is not the first unit of a character has the value of the unit before it -/
theorem interior_eq {α} (segs : List Seg) (n : Nat) (hs : SegsFrom 0 segs n) (xs : List α)
    (hu : UniformS segs xs) (j : Nat) (hj : j < n) (hnb : ∀ s ∈ segs, s.start ≠ j) :
    xs[j - 1]? = xs[j]? := by
  obtain ⟨s, hs1, hs2, hs3⟩ := segs_cover segs 0 n j hs (Nat.zero_le _) hj
  have hne := hnb s hs1
  have e1 := hu s hs1 (j - s.start) (by omega)
  have e2 := hu s hs1 (j - 1 - s.start) (by omega)
  rw [show s.start + (j - s.start) = j by omega] at e1
  rw [show s.start + (j - 1 - s.start) = j - 1 by omega] at e2
  rw [e1, e2]

/-! ### the level runs of a line -/

/-- if the levels change only at character boundaries inside the line `[a, b)`, every level run
    of the line starts and ends at a character boundary -/
theorem logicalRuns_boundaries (t : Text) (lv : List Nat) (a b : Nat) (hab : a < b) (hb : b ≤ lv.length)
    (ha' : t.isBoundary a = true) (hb' : t.isBoundary b = true)
    (hin : ∀ i, a < i → i < b → t.isBoundary i = false → lv[i - 1]? = lv[i]?) :
    ∀ r ∈ Props.C05.logicalRuns lv a b, t.isBoundary r.1 = true ∧ t.isBoundary r.2 = true := by
  obtain ⟨t1, t2, t3⟩ := Props.C05.logicalRuns_spec lv a b hab hb
  intro r hr
  obtain ⟨b1, b2, b3⟩ := (Props.C05.tiles_bounds _ _ _ t1).2 r hr
  obtain ⟨m1, m2⟩ := t3 r hr
  constructor
  · by_cases h : r.1 = a
    · rw [h]; exact ha'
    · cases hbd : t.isBoundary r.1 with
      | true => rfl
      | false => exact absurd (hin r.1 (by omega) (by omega) hbd) (m1 (by omega))
  · by_cases h : r.2 = b
    · rw [h]; exact hb'
    · cases hbd : t.isBoundary r.2 with
      | true => rfl
      | false =>
        have e := hin r.2 (by omega) (by omega) hbd
        rw [t2 r hr (r.2 - 1) (by omega) (by omega)] at e
        exact absurd e.symm (m2 (by omega))

theorem reorderLinePieces_err (t : Text) (lv : List Nat) (runs : List (Nat × Nat))
    (h : ∀ r ∈ runs, t.isBoundary r.1 = true ∧ t.isBoundary r.2 = true) :
    (reorderLinePieces t lv runs).2 = none := by
  unfold reorderLinePieces
  split
  · rfl
  · have : runs.any (fun r => !(t.isBoundary r.1 && t.isBoundary r.2)) = false := by
      rw [List.any_eq_false]
      intro r hr
      simp [(h r hr).1, (h r hr).2]
    dsimp only
    rw [this]
    rfl

/-! ### the line levels as stored by `reordered_levels` -/

/-- `reordered_levels(line)` for a line on character boundaries: no panic, and the result is the
    stored levels with the line replaced by what `reorder_levels` returns for the line alone -/
theorem reorderedLevels_form (t : Text) (hwf : t.WF) (classes : List BidiClass) (levels : List Nat)
    (pl a b : Nat) (hab : a ≤ b) (ha : t.isBoundary a = true) (hbb : t.isBoundary b = true)
    (hc : classes.length = t.len) (hl : levels.length = t.len) (hul : UniformS t.segs levels) :
    reorderedLevels t classes levels pl a b =
      (levels.take a ++ (reorderLevels (slice classes a b) (slice levels a b) (t.subrange a b) pl).1
        ++ levels.drop b, none) ∧
    b ≤ t.len ∧
    (reorderLevels (slice classes a b) (slice levels a b) (t.subrange a b) pl).1.length = b - a ∧
    UniformS (t.subrange a b).segs
      (reorderLevels (slice classes a b) (slice levels a b) (t.subrange a b) pl).1 := by
  have hb : b ≤ t.len := by
    rcases (isBoundary_iff t b).1 hbb with h | ⟨s, hs, h⟩
    · omega
    · have := (SegsFrom_bounds hwf.tiles).2 s hs; omega
  have hwf' := subrange_WF t hwf a b hab ha hbb
  have hsl : (slice levels a b).length = (t.subrange a b).len := by
    simp [slice, Text.subrange]; omega
  have hu' : UniformS (t.subrange a b).segs (slice levels a b) :=
    subrange_uniform t hwf a b hab ha hbb levels hul
  obtain ⟨h1, h2⟩ := Props.C03.C03_l1 (t.subrange a b) hwf' (slice classes a b) (slice levels a b) pl hsl hu'
  obtain ⟨u1, u2⟩ := Props.C03.C03_uniform (t.subrange a b) hwf' (slice classes a b) (slice levels a b) pl hsl hu'
  refine ⟨?_, hb, u2, u1⟩
  unfold reorderedLevels
  rw [if_neg (by simp; omega), if_neg (by simp; omega), if_neg (by simp [ha, hbb])]
  dsimp only
  rw [h2]

/-- `BidiInfo::reorder_line` / `ParagraphBidiInfo::reorder_line` do not panic on a non-empty line on
    character boundaries, when the stored levels are ≤ 126 and uniform within characters -/
theorem reorderLine_ok (t : Text) (hwf : t.WF) (classes : List BidiClass) (levels : List Nat)
    (pl a b : Nat) (hab : a < b) (ha : t.isBoundary a = true) (hbb : t.isBoundary b = true)
    (hc : classes.length = t.len) (hl : levels.length = t.len) (hul : UniformS t.segs levels)
    (h126 : ∀ l ∈ levels, l ≤ 126) (hpl : pl ≤ 126) :
    (reorderLine t classes levels pl a b).2 = none := by
  obtain ⟨hform, hb, hlen, hunif⟩ :=
    reorderedLevels_form t hwf classes levels pl a b (by omega) ha hbb hc hl hul
  generalize hll : (reorderLevels (slice classes a b) (slice levels a b) (t.subrange a b) pl).1 = ll
    at hform hlen hunif
  have hll126 : ∀ l ∈ ll, l ≤ 126 := by
    rw [← hll]
    apply reorderLevels_le _ _ _ _ 126 hpl
    intro l hl'
    exact h126 l (List.mem_of_mem_drop (List.mem_of_mem_take hl'))
  unfold reorderLine
  rw [if_neg (by simp; omega)]
  split
  · simp [ha, hbb]
  · rw [hform]
    simp only []
    have hlvlen : (levels.take a ++ ll ++ levels.drop b).length = t.len := by
      simp only [List.length_append, List.length_take, List.length_drop, hlen]; omega
    have hlv126 : ∀ l ∈ levels.take a ++ ll ++ levels.drop b, l ≤ 126 := by
      intro l hl'
      simp only [List.mem_append] at hl'
      rcases hl' with (h | h) | h
      · exact h126 l (List.mem_of_mem_take h)
      · exact hll126 l h
      · exact h126 l (List.mem_of_mem_drop h)
    have hget : ∀ i, a ≤ i → i < b → (levels.take a ++ ll ++ levels.drop b)[i]? = ll[i - a]? := by
      intro i h1 h2
      rw [List.append_assoc, List.getElem?_append_right (by simp; omega),
        List.getElem?_append_left (by simp; omega)]
      simp only [List.length_take]
      congr 1; omega
    have hvis := Props.C05.C05_no_panic (levels.take a ++ ll ++ levels.drop b) a b hab (by omega) hlv126
    obtain ⟨_, hperm, _⟩ := Props.C05.C05_partition (levels.take a ++ ll ++ levels.drop b) a b hab
      (by omega) hlv126
    rcases hvr : visualRunsForLine (levels.take a ++ ll ++ levels.drop b) a b with ⟨runs, e2⟩
    rw [hvr] at hvis hperm
    simp only at hvis hperm
    subst hvis
    simp only []
    apply reorderLinePieces_err
    intro r hr
    refine logicalRuns_boundaries t _ a b hab (by omega) ha hbb ?_ r (hperm.subset hr)
    intro i h1 h2 hbd
    rw [hget i (by omega) h2, hget (i - 1) (by omega) (by omega)]
    have hwf' := subrange_WF t hwf a b (by omega) ha hbb
    have := interior_eq (t.subrange a b).segs (b - a) hwf'.tiles ll hunif (i - a) (by omega) (by
      intro s' hs' heq
      obtain ⟨s, hs, q1, q2, rfl⟩ := mem_subSegs (by rw [← subrange_segs]; exact hs')
      simp only at heq
      have : t.isBoundary i = true := by
        rw [isBoundary_iff]
        exact Or.inr ⟨s, hs, by omega⟩
      rw [hbd] at this
      cases this)
    rw [show i - 1 - a = i - a - 1 by omega]
    exact this

/-- for `[u16]` (any encoding but `str`) nothing is sliced as `str`: `reorder_line` does not panic on any
    non-empty line inside the level vector, with no uniformity or boundary hypothesis -/
theorem reorderLine_ok_not_utf8 (t : Text) (classes : List BidiClass) (levels : List Nat) (pl a b : Nat)
    (henc : t.enc ≠ .utf8) (hab : a < b) (hbl : b ≤ levels.length) (hbc : b ≤ classes.length)
    (h126 : ∀ l ∈ levels, l ≤ 126) (hpl : pl ≤ 126) :
    (reorderLine t classes levels pl a b).2 = none := by
  have hne : (t.enc == Enc.utf8) = false := by simpa using henc
  unfold reorderLine
  rw [if_neg (by simp; omega)]
  split
  · simp [hne]
  · have he := reorderedLevels_err t classes levels pl a b (by omega) hbl hbc (fun h => absurd h henc)
    have hle := reorderedLevels_le t classes levels pl a b 126 hpl h126
    have hlen := (Props.C03.C03_outside t classes levels pl a b).1
    rcases hrl : reorderedLevels t classes levels pl a b with ⟨lv, e1⟩
    rw [hrl] at he hle hlen
    simp only at he hle hlen
    subst he
    simp only []
    have hvis := Props.C05.C05_no_panic lv a b hab (by omega) hle
    rcases hvr : visualRunsForLine lv a b with ⟨runs, e2⟩
    rw [hvr] at hvis
    simp only at hvis
    subst hvis
    simp only []
    unfold reorderLinePieces
    split
    · rfl
    · simp [hne]

end UBidi.Lemmas.C07
