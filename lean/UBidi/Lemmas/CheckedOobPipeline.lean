/-
  UBidi.Lemmas.CheckedOobPipeline — no out-of-bounds flag, part 3: `explicit::compute`,
  `isolating_run_sequences`, `assign_levels_to_removed_chars`, and the composition
  `compute_bidi_info_for_para` (`paraLevelsC_val`, `paraLevelsC_oob`): every hypothesis of a stage
  lemma is discharged from what the preceding stages produce.  Lemmas only.
-/
import UBidi.Lemmas.CheckedOobNeutral
import UBidi.Props.C11
import UBidi.Lemmas.C01SeqBounds
namespace UBidi.Checked
open UBidi UBidi.BidiClass UBidi.Props.C01.Base UBidi.Expand

@[simp] theorem idxC_oob {len i : Nat} (h : i < len) : (idxC len i).oob = false := by
  simp only [idxC, decide_eq_false_iff_not]; omega
theorem lastC_oob {α : Type} {xs : List α} (d : α) (h : xs ≠ []) : (lastC xs d).oob = false := by
  cases xs with
  | nil => exact absurd rfl h
  | cons _ _ => rfl

/-! ### `explicit::compute` -/

theorem exStepC_oob (pl : Nat) (ocs : List BidiClass) (n : Nat) (st : ExState) (s : Seg)
    (h1 : s.start < ocs.length) (h2 : s.start < n) (h3 : s.start + s.len ≤ n) :
    (exStepC pl ocs n st s).oob = false := by
  simp only [exStepC, oob_bind, rd_oob ON h1, idxC_oob h2, slc_oob (Nat.le_add_right _ _) h3, Bool.false_or]
  simp only [apply_ite Chk.oob, oob_pure, ite_self]

/-- **`explicit::compute` raises no index error** on a well-formed text with one class per code unit -/
theorem explicitComputeC_oob (t : Text) (hwf : t.WF) (pl : Nat) (ocs : List BidiClass)
    (hlen : ocs.length = t.len) : (explicitComputeC t pl ocs).oob = false := by
  have hb := Props.C08.Base.segsFrom_bounds t.segs 0 t.len hwf.tiles
  have h := (foldlC_oob (exStepC pl ocs t.len) (fun _ => True) t.segs
    { stack := [{ level := pl, status := .neutral }],
      err := if t.len = ocs.length then none else some .explicitLenMismatch } trivial
    (fun s _ x hx => ⟨exStepC_oob pl ocs t.len s x (by have := hb x hx; omega) (by have := hb x hx; omega)
      (hb x hx).2.1, trivial⟩)).1
  simp only [explicitComputeC, oob_bind, oob_pure, h, Bool.or_self]

/-- what the fold of `explicitCompute` maintains about the level runs: the closed runs tile
    `[0, curStart)`, and the open run is non-empty as soon as a character has been read -/
structure TileInv (st : ExState) (pos : Nat) : Prop where
  len : st.levels.length = pos
  cur : (pos = 0 ∧ st.curStart = 0) ∨ st.curStart < pos
  tile : RunsTile 0 st.runs st.curStart

theorem exStep_tileInv (pl : Nat) (ocs : List BidiClass) (st : ExState) (s : Seg) (pos : Nat)
    (h : TileInv st pos) (hs : s.start = pos) (hl : 0 < s.len) : TileInv (exStep pl ocs st s) (pos + s.len) := by
  obtain ⟨h1, h2, h3⟩ := h
  refine ⟨by rw [Expand.exStep_levels]; simp [h1], ?_, ?_⟩
  · rw [exStep_curStart]
    by_cases h0 : s.start = 0
    · rw [if_pos h0]; right; omega
    · rw [if_neg h0]; right; split <;> omega
  · rw [exStep_curStart, exStep_runs]
    by_cases h0 : s.start = 0
    · rw [if_pos h0, if_pos h0]; exact h3
    · rw [if_neg h0, if_neg h0]
      split
      · exact runsTile_snoc _ _ _ _ h3 (by omega)
      · exact h3

theorem fold_tileInv (pl : Nat) (ocs : List BidiClass) :
    ∀ (segs : List Seg) (st : ExState) (pos e : Nat), SegsFrom pos segs e → TileInv st pos →
      TileInv (segs.foldl (exStep pl ocs) st) e
  | [], st, pos, e, h, hi => by simp only [SegsFrom] at h; subst h; exact hi
  | s :: segs, st, pos, e, h, hi => by
    simp only [SegsFrom] at h
    exact fold_tileInv pl ocs segs _ _ e h.2.2 (exStep_tileInv pl ocs st s pos hi h.1 h.2.1)

/-- the level runs of `explicit::compute` on a well-formed text are non-empty, consecutive and tile
    `[0, text.len())` -/
theorem explicit_runs_tile (t : Text) (hwf : t.WF) (pl : Nat) (ocs : List BidiClass) :
    RunsTile 0 (explicitCompute t pl ocs).runs t.len := by
  have := fold_tileInv pl ocs t.segs
    { stack := [{ level := pl, status := .neutral }],
      err := if t.len = ocs.length then none else some .explicitLenMismatch } 0 t.len hwf.tiles
    ⟨rfl, Or.inl ⟨rfl, rfl⟩, by simp [RunsTile]⟩
  simp only [explicitCompute]
  generalize List.foldl (exStep pl ocs) _ t.segs = st at this
  obtain ⟨h1, h2, h3⟩ := this
  rw [h1]
  split
  · exact runsTile_snoc _ _ _ _ h3 (by omega)
  · have : st.curStart = t.len := by omega
    rw [← this]; exact h3


/-! ### `isolating_run_sequences` -/

theorem mapC_oob {α β : Type} (f : α → Chk β) : ∀ xs : List α, (∀ x ∈ xs, (f x).oob = false) →
    (mapC f xs).oob = false
  | [], _ => rfl
  | x :: xs, h => by
    simp only [mapC, oob_bind, oob_pure, h x (by simp), mapC_oob f xs (fun y hy => h y (by simp [hy])),
      Bool.or_self]

theorem findIdx?_lt {α : Type} {p : α → Bool} {xs : List α} {k : Nat} (h : xs.findIdx? p = some k) :
    k < xs.length := (List.findIdx?_eq_some_iff_findIdx_eq.1 h).1

theorem levelBeforeC_oob (pl : Nat) (ocs : List BidiClass) (levels : List Nat) (a : Nat)
    (h : a ≤ levels.length) (ho : ocs.length = levels.length) : (levelBeforeC pl ocs levels a).oob = false := by
  simp only [levelBeforeC, oob_bind, takeC_val, takeC_oob (show a ≤ ocs.length by omega), Bool.false_or]
  cases hr : rposition notRemoved (List.take a ocs) with
  | none => rfl
  | some idx =>
    have := Lemmas.C01Seq.rposition_lt _ _ _ hr
    simp only [List.length_take] at this
    exact rd_oob 0 (by omega)

theorem levelAfterC_oob (pl : Nat) (ocs : List BidiClass) (levels : List Nat) (b : Nat)
    (h : b ≤ levels.length) (ho : ocs.length = levels.length) : (levelAfterC pl ocs levels b).oob = false := by
  simp only [levelAfterC, oob_bind, dropC_val, dropC_oob (show b ≤ ocs.length by omega), Bool.false_or]
  cases hr : List.findIdx? notRemoved (List.drop b ocs) with
  | none => rfl
  | some idx =>
    have := findIdx?_lt hr
    simp only [List.length_drop] at this
    exact rd_oob 0 (by omega)

theorem seqOfRunFastC_oob (pl : Nat) (ocs : List BidiClass) (levels : List Nat) (run : Nat × Nat) (n : Nat)
    (hr : run.1 < run.2 ∧ run.2 ≤ n) (ho : ocs.length = n) (hl : levels.length = n) :
    (seqOfRunFastC pl ocs levels run).oob = false := by
  have hsl : (slice levels run.1 run.2).length = run.2 - run.1 := by simp [slice]; omega
  have hsc : (slice ocs run.1 run.2).length = run.2 - run.1 := by simp [slice]; omega
  have h1 : ((slice ocs run.1 run.2).findIdx? notRemoved).getD 0 < (slice levels run.1 run.2).length := by
    cases hf : (slice ocs run.1 run.2).findIdx? notRemoved with
    | none => simp only [Option.getD_none]; omega
    | some k => have := findIdx?_lt hf; simp only [Option.getD_some]; omega
  have h2 : (rposition notRemoved (slice ocs run.1 run.2)).getD (run.2 - run.1 - 1) <
      (slice levels run.1 run.2).length := by
    cases hf : rposition notRemoved (slice ocs run.1 run.2) with
    | none => simp only [Option.getD_none]; omega
    | some k => have := Lemmas.C01Seq.rposition_lt _ _ _ hf; simp only [Option.getD_some]; omega
  simp only [seqOfRunFastC, oob_bind, oob_pure, sliceC_val, dec1_val,
    sliceC_oob (Nat.le_of_lt hr.1) (show run.2 ≤ levels.length by omega),
    sliceC_oob (Nat.le_of_lt hr.1) (show run.2 ≤ ocs.length by omega), rd_oob 0 h1, rd_oob 0 h2,
    dec1_oob (show 0 < run.2 - run.1 by omega), levelBeforeC_oob pl ocs levels run.1 (by omega) (by omega),
    levelAfterC_oob pl ocs levels run.2 (by omega) (by omega), Bool.or_self]

theorem prepStepC_oob (ocs : List BidiClass) (st : PrepState) (run : Nat × Nat)
    (hr : run.1 < run.2 ∧ run.2 ≤ ocs.length) : (prepStepC ocs st run).oob = false := by
  simp only [prepStepC, oob_bind, rd_oob ON (show run.1 < ocs.length by omega),
    sliceC_oob (Nat.le_of_lt hr.1) hr.2, Bool.false_or]
  simp only [apply_ite Chk.oob, oob_pure, ite_self]

theorem mem_find? {α : Type} {p : α → Bool} {xs : List α} {a : α} (h : xs.find? p = some a) : a ∈ xs :=
  List.mem_of_find?_eq_some h

theorem seqBoundsC_oob (pl : Nat) (ocs : List BidiClass) (levels : List Nat) (runs : List (Nat × Nat)) (n : Nat)
    (hr : ∀ r ∈ runs, r.1 < r.2 ∧ r.2 ≤ n) (ho : ocs.length = n) (hl : levels.length = n) :
    (seqBoundsC pl ocs levels runs).oob = false := by
  unfold seqBoundsC
  cases runs with
  | nil => rfl
  | cons r0 rs =>
    have hN : SeqOKN n { runs := r0 :: rs, sos := L, eos := L } := SeqOKN.of_lt hr
    have hidx := Neutral.indices_lt hN
    have hr0 := hr r0 (by simp)
    have hlast : (r0 :: rs).getLast?.getD r0 ∈ r0 :: rs := by
      cases hg : (r0 :: rs).getLast? with
      | none => simp
      | some x => simpa using List.mem_of_getLast? hg
    have hrl := hr _ hlast
    have h1 : (List.find? (fun i => notRemoved (ocs.getD i ON))
        ({ runs := r0 :: rs, sos := L, eos := L } : IRSeq).indices).getD r0.1 < levels.length := by
      cases hf : List.find? (fun i => notRemoved (ocs.getD i ON))
          ({ runs := r0 :: rs, sos := L, eos := L } : IRSeq).indices with
      | none => simp only [Option.getD_none]; omega
      | some k => have := hidx k (mem_find? hf); simp only [Option.getD_some]; omega
    have h2 : (List.find? (fun i => notRemoved (ocs.getD i ON))
        ({ runs := r0 :: rs, sos := L, eos := L } : IRSeq).indices.reverse).getD
          (((r0 :: rs).getLast?.getD r0).2 - 1) < levels.length := by
      cases hf : List.find? (fun i => notRemoved (ocs.getD i ON))
          ({ runs := r0 :: rs, sos := L, eos := L } : IRSeq).indices.reverse with
      | none => simp only [Option.getD_none]; omega
      | some k =>
        have := hidx k (List.mem_reverse.1 (mem_find? hf)); simp only [Option.getD_some]; omega
    have e1 := findIdxRd_oob ocs notRemoved ({ runs := r0 :: rs, sos := L, eos := L } : IRSeq).indices
      (by rw [ho]; exact hidx)
    have e2 := findIdxRd_oob ocs notRemoved ({ runs := r0 :: rs, sos := L, eos := L } : IRSeq).indices.reverse
      (by rw [ho]; intro j hj; exact hidx j (List.mem_reverse.1 hj))
    simp only [oob_bind, oob_pure, lastC_val, findIdxRd_val, dec1_val, takeC_val, rd_val,
      lastC_oob r0 (List.cons_ne_nil r0 rs), e1, e2,
      rd_oob 0 h1, rd_oob 0 h2, dec1_oob (show 0 < ((r0 :: rs).getLast?.getD r0).2 by omega),
      takeC_oob (show ((r0 :: rs).getLast?.getD r0).2 ≤ ocs.length by omega),
      levelBeforeC_oob pl ocs levels r0.1 (by omega) (by omega), Bool.false_or, Bool.or_false]
    simp only [apply_ite Chk.oob, oob_pure,
      levelAfterC_oob pl ocs levels ((r0 :: rs).getLast?.getD r0).2 (by omega) (by omega), ite_self]


/-- **`isolating_run_sequences` raises no index or slice error** when the level runs tile `[0, n)` and
    the arrays have `n` entries -/
theorem isolatingRunSequencesC_oob (pl : Nat) (ocs : List BidiClass) (levels : List Nat)
    (runs : List (Nat × Nat)) (hasIso : Bool) (n : Nat) (ht : RunsTile 0 runs n) (ho : ocs.length = n)
    (hl : levels.length = n) : (isolatingRunSequencesC pl ocs levels runs hasIso).oob = false := by
  have hin := ht.runsIn
  unfold isolatingRunSequencesC
  cases hasIso with
  | false =>
    simp only [Bool.not_false, if_true, oob_bind, oob_pure, Bool.or_false]
    exact mapC_oob _ _ (fun r hr => seqOfRunFastC_oob pl ocs levels r n (hin r hr) ho hl)
  | true =>
    simp only [Bool.not_true, Bool.false_eq_true, if_false, oob_bind, oob_pure, Bool.or_false]
    rw [(foldlC_oob (prepStepC ocs) (fun _ => True) runs _ trivial
      (fun s _ r hr => ⟨prepStepC_oob ocs s r (by rw [ho]; exact hin r hr), trivial⟩)).1, Bool.false_or,
      foldlC_val _ _ (prepStepC_val ocs)]
    apply mapC_oob
    intro rs hrs
    have hok := Pipeline.sequences_ok_of_tile n pl ocs levels runs true ht (seqBounds pl ocs levels rs).1 (by
      simp only [isolatingRunSequences, Bool.not_true, Bool.false_eq_true, if_false, List.map_map,
        List.mem_map, Function.comp]
      exact ⟨rs, hrs, rfl⟩)
    unfold SeqOK at hok
    rw [Lemmas.C07.seqBounds_runs] at hok
    exact seqBoundsC_oob pl ocs levels rs n hok.1 ho hl

/-! ### `assign_levels_to_removed_chars` -/

/-- **`assign_levels_to_removed_chars` raises no index error** when there is one class per level -/
theorem assignLevelsToRemovedCharsC_oob (pl : Nat) (ocs : List BidiClass) (levels : List Nat)
    (h : ocs.length = levels.length) : (assignLevelsToRemovedCharsC pl ocs levels).oob = false := by
  unfold assignLevelsToRemovedCharsC
  refine (foldlC_oob _ (fun lv => lv.length = levels.length) (List.range levels.length) levels rfl ?_).1
  intro lv hlv i hi
  have hi' : i < levels.length := List.mem_range.1 hi
  simp only [oob_bind, val_bind, rd_oob ON (show i < ocs.length by omega), rd_val, Bool.false_or]
  simp only [apply_ite Chk.oob, apply_ite Chk.val, oob_pure, val_pure, oob_bind, val_bind, wr_val, dec1_val,
    wr_oob _ (show i < lv.length by omega), Bool.or_false]
  split
  · refine ⟨?_, by simp [hlv]⟩
    split
    · rename_i h0
      simp only [dec1_oob h0, rd_oob 0 (show i - 1 < lv.length by omega), Bool.or_self]
    · rfl
  · exact ⟨rfl, hlv⟩

/-! ### the loop over the sequences, `compute_bidi_info_for_para` -/

theorem resolveSequencesC_oob (ds : DataSource) (t : Text) (hwf : t.WF) (levels : List Nat) (ocs : Classes)
    (seqs : List IRSeq) (pcs : Classes) (hs : ∀ s ∈ seqs, SeqOK t.len s ∧ s.runs ≠ [])
    (hlv : levels.length = t.len) (ho : ocs.length = t.len) (hp : pcs.length = t.len) :
    (resolveSequencesC ds t levels ocs seqs pcs).oob = false := by
  unfold resolveSequencesC
  refine (foldlC_oob _ (fun st => st.1.length = t.len) seqs (pcs, none) hp ?_).1
  intro st hst seq hseq
  obtain ⟨hok, hne⟩ := hs seq hseq
  have hw := resolveWeakC_oob (fun i => (t.charAt i).map (·.len)) seq st.1 t.len (SeqOKN.of_lt hok.1) hst
    (by
      intro i hi h0
      cases i with
      | zero =>
        obtain ⟨sg, hsg⟩ := charAt_zero t hwf hi
        simp [hsg] at h0
      | succ k => omega)
  have hn := resolveNeutralC_oob ds t hwf seq levels ocs
    (resolveWeak (fun i => (t.charAt i).map (·.len)) seq st.1) hok hne hlv ho
    (by rw [resolveWeak_length]; exact hst)
  simp only [oob_bind, oob_pure, val_bind, val_pure, resolveWeakC_val, resolveNeutralC_val, hw, hn,
    Bool.or_self, resolveNeutral_length, resolveWeak_length, hst, and_self]

/-- the checked `compute_bidi_info_for_para` computes the Model's `paraLevels` (on a well-formed
    paragraph: there the two arrays `resolve_levels` loops over have the same length) -/
theorem paraLevelsC_val (ds : DataSource) (pl : Nat) (pure hasIso : Bool) (t : Text) (hwf : t.WF)
    (ocs : Classes) :
    (paraLevelsC ds pl pure hasIso t ocs).val = paraLevels ds pl pure hasIso t ocs := by
  obtain ⟨hL, hP⟩ := Props.C11.C11_explicit_length t hwf pl ocs
  unfold paraLevelsC paraLevels
  split
  · rfl
  · simp only [val_bind, val_pure, explicitComputeC_val, isolatingRunSequencesC_val, resolveSequencesC_val,
      assignLevelsToRemovedCharsC_val]
    rw [resolveLevelsC_val _ _ (by rw [resolveSequences_length, hP, hL])]

/-- **the checked `compute_bidi_info_for_para` raises no out-of-bounds flag** -/
theorem paraLevelsC_oob (ds : DataSource) (pl : Nat) (pure hasIso : Bool) (t : Text) (hwf : t.WF)
    (ocs : Classes) (hlen : ocs.length = t.len) :
    (paraLevelsC ds pl pure hasIso t ocs).oob = false := by
  obtain ⟨hL, hP⟩ := Props.C11.C11_explicit_length t hwf pl ocs
  have htile := explicit_runs_tile t hwf pl ocs
  have hruns := Lemmas.C07.explicit_runs_nonempty t hwf pl ocs
  have hok := Pipeline.sequences_ok_of_tile t.len pl ocs (explicitCompute t pl ocs).levels
    (explicitCompute t pl ocs).runs hasIso htile
  have hne := (Lemmas.C07.isolatingRunSequences_ok pl ocs (explicitCompute t pl ocs).levels
    (explicitCompute t pl ocs).runs hasIso hruns).2
  have hRS : (resolveSequences ds t (explicitCompute t pl ocs).levels ocs
      (isolatingRunSequences pl ocs (explicitCompute t pl ocs).levels (explicitCompute t pl ocs).runs hasIso).1
      (explicitCompute t pl ocs).pcs).1.length = (explicitCompute t pl ocs).levels.length := by
    rw [resolveSequences_length, hP, hL]
  unfold paraLevelsC
  split
  · rfl
  · simp only [oob_bind, oob_pure, explicitComputeC_val, isolatingRunSequencesC_val, resolveSequencesC_val,
      explicitComputeC_oob t hwf pl ocs hlen,
      isolatingRunSequencesC_oob pl ocs _ _ hasIso t.len htile hlen hL,
      resolveSequencesC_oob ds t hwf _ ocs _ _ (fun s hs => ⟨hok s hs, hne s hs⟩) hL hlen hP,
      resolveLevelsC_oob _ _ hRS, resolveLevelsC_val _ _ hRS, Bool.false_or, Bool.or_false]
    apply assignLevelsToRemovedCharsC_oob
    rw [resolveLevels_length, hRS, Nat.min_self, hL, hlen]

end UBidi.Checked
