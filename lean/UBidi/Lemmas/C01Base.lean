/-
  C01 helpers (base layer): the removed-character fill, I1/I2, and the
  "one entry per code unit" bookkeeping of every stage of `paraLevels`.
  Shared by Props/C01.lean and Props/C08.lean.
-/
import UBidi.Model.Pipeline
import UBidi.Spec.UAX9
import UBidi.Props.C19
namespace UBidi.Props.C01.Base
open UBidi UBidi.BidiClass

/-! ### the removed-character fill -/

/-- StageFill, unit by unit.  No relation between the two lengths is needed: a unit beyond
    the end of `ocs` reads class `ON` (not removed) and keeps its level. -/
theorem fillLoop_spec (prev : Nat) (ocs : List BidiClass) (lv : List Nat)
    (i : Nat) (hi : i < lv.length) :
    (fillRemovedLoop prev ocs lv)[i]? =
      if (ocs.getD i .ON).removedByX9 then
        (if i = 0 then some prev else (fillRemovedLoop prev ocs lv)[i - 1]?)
      else lv[i]? := by
  induction lv generalizing prev ocs i with
  | nil => simp at hi
  | cons l ls ih =>
    cases ocs with
    | nil => simp [fillRemovedLoop, removedByX9]
    | cons c cs =>
      cases i with
      | zero => by_cases hc : c.removedByX9 <;> simp [fillRemovedLoop, hc]
      | succ k =>
        have hk : k < ls.length := by simpa using hi
        have := ih (if c.removedByX9 then prev else l) cs k hk
        simp only [fillRemovedLoop, List.getElem?_cons_succ, List.getD_cons_succ, this]
        cases k with
        | zero => simp
        | succ m => simp

/-- the removed-character fill keeps one level per code unit -/
theorem fillLoop_length (prev : Nat) (ocs : List BidiClass) (lv : List Nat) :
    (fillRemovedLoop prev ocs lv).length = lv.length := by
  induction lv generalizing prev ocs with
  | nil => cases ocs <;> simp [fillRemovedLoop]
  | cons l ls ih => cases ocs <;> simp [fillRemovedLoop, ih]

/-! ### I1 / I2 -/

/-- the derived `BEq` of `BidiClass` agrees with equality -/
theorem beq_eq (a b : BidiClass) : (a == b) = decide (a = b) := by
  cases a <;> cases b <;> rfl

theorem resolveLevel_spec (l : Nat) (c : BidiClass) (h : l ≤ 125) :
    resolveLevel l c = (Spec.implicitLevel l c, none) := by
  have hp : l % 2 = 0 ∨ l % 2 = 1 := by omega
  have h1 : l + 1 ≤ 126 := by omega
  rcases hp with hp | hp
  · have h2 : l + 2 ≤ 126 := by omega
    cases c <;>
      simp [resolveLevel, Spec.implicitLevel, Level.isRtl, hp, Props.C19.raise_spec, h1, h2, beq_eq]
  · cases c <;>
      simp [resolveLevel, Spec.implicitLevel, Level.isRtl, hp, Props.C19.raise_spec, h1, beq_eq]

theorem foldl_orErr_none {α} (f : α → Option Panic) (xs : List α) (h : ∀ x ∈ xs, f x = none) :
    xs.foldl (fun e r => orErr e (f r)) none = none := by
  induction xs with
  | nil => rfl
  | cons x xs ih =>
    simp only [List.foldl_cons, orErr, h x (by simp)]
    exact ih (fun y hy => h y (by simp [hy]))

/-! ### every write of W/N keeps the length -/

@[simp] theorem setAll_length (pcs : Classes) (idxs : List Nat) (v : BidiClass) :
    (setAll pcs idxs v).length = pcs.length := by
  unfold setAll
  induction idxs generalizing pcs with
  | nil => rfl
  | cons i is ih => simp [List.foldl_cons, ih]

@[simp] theorem setWhileBN_length (pcs : Classes) (it : List Nat) (v : BidiClass) :
    (setWhileBN pcs it v).length = pcs.length := by
  induction it generalizing pcs with
  | nil => rfl
  | cons i is ih => unfold setWhileBN; split <;> simp [ih]

@[simp] theorem setWhileNsmOrBN_length (ocs pcs : Classes) (it : List Nat) (v : BidiClass) :
    (setWhileNsmOrBN ocs pcs it v).length = pcs.length := by
  induction it generalizing pcs with
  | nil => rfl
  | cons i is ih => unfold setWhileNsmOrBN; split <;> (try split) <;> simp [ih]

@[simp] theorem setRange_length {α} (xs : List α) (i n : Nat) (v : α) :
    (setRange xs i n v).length = xs.length := by
  induction n generalizing xs with
  | zero => rfl
  | succ n ih => simp [setRange, ih]

theorem weakStep_length (f : Nat → Option Nat) (seq : IRSeq) (st : WState) (ri : Nat × Nat) :
    (weakStep f seq st ri).pcs.length = st.pcs.length := by
  unfold weakStep
  grind [setAll_length, setWhileBN_length, List.length_set]

theorem foldl_length_inv {σ β α} (f : σ → β → σ) (proj : σ → List α)
    (h : ∀ st b, (proj (f st b)).length = (proj st).length) (xs : List β) (st : σ) :
    (proj (xs.foldl f st)).length = (proj st).length := by
  induction xs generalizing st with
  | nil => rfl
  | cons x xs ih => simp [List.foldl_cons, ih, h]

theorem w7Step_length (st : Classes × Bool) (i : Nat) : (w7Step st i).1.length = st.1.length := by
  unfold w7Step; grind [List.length_set]

theorem resolveWeak_length (f : Nat → Option Nat) (seq : IRSeq) (pcs : Classes) :
    (resolveWeak f seq pcs).length = pcs.length := by
  unfold resolveWeak
  simp only []
  rw [foldl_length_inv w7Step (·.1) w7Step_length, setAll_length,
    foldl_length_inv (weakStep f seq) (·.pcs) (weakStep_length f seq)]

theorem n0Pair_length (t : Text) (seq : IRSeq) (e : BidiClass) (ocs : Classes)
    (st : Classes × Option Panic) (pair : BracketPair) :
    (n0Pair t seq e ocs st pair).1.length = st.1.length := by
  unfold n0Pair
  grind [setRange_length, setWhileBN_length, setWhileNsmOrBN_length]

theorem n12Step_length (e : BidiClass) (st : N12State) (i : Nat) :
    (n12Step e st i).pcs.length = st.pcs.length := by
  unfold n12Step; grind [setAll_length]

theorem n12_length (seq : IRSeq) (e : BidiClass) (pcs : Classes) : (n12 seq e pcs).length = pcs.length := by
  unfold n12
  have := foldl_length_inv (n12Step e) (·.pcs) (n12Step_length e) seq.indices { pcs := pcs, prev := seq.sos }
  grind [setAll_length]

theorem resolveNeutral_length (ds : DataSource) (t : Text) (seq : IRSeq) (levels : List Nat)
    (ocs pcs : Classes) : (resolveNeutral ds t seq levels ocs pcs).1.length = pcs.length := by
  unfold resolveNeutral
  split
  · rfl
  · simp only [n12_length]
    exact foldl_length_inv _ (·.1) (n0Pair_length t seq _ ocs) _ (pcs, none)

theorem resolveSequences_length (ds : DataSource) (t : Text) (levels : List Nat) (ocs : Classes)
    (seqs : List IRSeq) (pcs : Classes) :
    (resolveSequences ds t levels ocs seqs pcs).1.length = pcs.length := by
  unfold resolveSequences
  refine foldl_length_inv (σ := Classes × Option Panic) _ (fun st => st.1) ?_ seqs (pcs, none)
  intro st seq
  simp only [resolveNeutral_length, resolveWeak_length]

theorem resolveLevels_length (pcs : Classes) (lv : List Nat) :
    (resolveLevels pcs lv).1.length = min lv.length pcs.length := by
  simp [resolveLevels]

/-! ### the explicit stage emits `s.len` entries per character -/

theorem foldl_append_replicate {σ α} (f : σ → Seg → σ) (proj : σ → List α)
    (h : ∀ st s, ∃ v, proj (f st s) = proj st ++ List.replicate s.len v)
    (segs : List Seg) (pos e : Nat) (hs : SegsFrom pos segs e) (st : σ)
    (hst : (proj st).length = pos) :
    (proj (segs.foldl f st)).length = e ∧
    (∀ k, k < pos → (proj (segs.foldl f st))[k]? = (proj st)[k]?) ∧
    (∀ s ∈ segs, ∀ j, j < s.len →
      (proj (segs.foldl f st))[s.start + j]? = (proj (segs.foldl f st))[s.start]?) := by
  induction segs generalizing pos st with
  | nil => simp [SegsFrom] at hs; simp [hs, hst]
  | cons s ss ih =>
    obtain ⟨hstart, hlen, hrest⟩ := hs
    obtain ⟨v, hv⟩ := h st s
    have hl1 : (proj (f st s)).length = pos + s.len := by simp [hv, hst]
    obtain ⟨ih1, ih2, ih3⟩ := ih (pos + s.len) hrest (f st s) hl1
    simp only [List.foldl_cons]
    refine ⟨ih1, ?_, ?_⟩
    · intro k hk
      rw [ih2 k (by omega), hv, List.getElem?_append_left (by omega)]
    · intro s' hs' j hj
      rcases List.mem_cons.1 hs' with rfl | hs'
      · have a : ∀ i, i < s'.len → (proj (ss.foldl f (f st s')))[s'.start + i]? = some v := by
          intro i hi
          have h1 : s'.start + i < pos + s'.len := by omega
          have h2 : (proj st).length ≤ s'.start + i := by omega
          rw [ih2 _ h1, hv, List.getElem?_append_right h2]
          simp [hst, hstart, hi]
        rw [a j hj]; have := a 0 hlen; simpa using this.symm
      · exact ih3 s' hs' j hj

theorem exStep_levels (pl : Nat) (ocs : List BidiClass) (st : ExState) (s : Seg) :
    ∃ v, (exStep pl ocs st s).levels = st.levels ++ List.replicate s.len v := by
  refine ⟨(exChar pl st.stack st.oi st.oe st.vi (ocs.getD s.start ON)).level, ?_⟩
  unfold exStep
  simp only []
  split
  · rfl
  · split <;> rfl

theorem exStep_pcs (pl : Nat) (ocs : List BidiClass) (st : ExState) (s : Seg) :
    ∃ v, (exStep pl ocs st s).pcs = st.pcs ++ List.replicate s.len v := by
  refine ⟨(exChar pl st.stack st.oi st.oe st.vi (ocs.getD s.start ON)).pc, ?_⟩
  unfold exStep
  simp only []
  split
  · rfl
  · split <;> rfl

/-- levels of the explicit stage: one per code unit, uniform within each character -/
theorem explicit_levels (t : Text) (hwf : t.WF) (pl : Nat) (ocs : List BidiClass) :
    (explicitCompute t pl ocs).levels.length = t.len ∧
    (∀ s ∈ t.segs, ∀ j, j < s.len →
      (explicitCompute t pl ocs).levels[s.start + j]? = (explicitCompute t pl ocs).levels[s.start]?) := by
  have := foldl_append_replicate (exStep pl ocs) (·.levels) (exStep_levels pl ocs) t.segs 0 t.len
    hwf.tiles { stack := [{ level := pl, status := .neutral }],
                err := if t.len = ocs.length then none else some .explicitLenMismatch } rfl
  exact ⟨this.1, this.2.2⟩

/-- processing classes of the explicit stage: one per code unit, uniform within each character -/
theorem explicit_pcs (t : Text) (hwf : t.WF) (pl : Nat) (ocs : List BidiClass) :
    (explicitCompute t pl ocs).pcs.length = t.len ∧
    (∀ s ∈ t.segs, ∀ j, j < s.len →
      (explicitCompute t pl ocs).pcs[s.start + j]? = (explicitCompute t pl ocs).pcs[s.start]?) := by
  have := foldl_append_replicate (exStep pl ocs) (·.pcs) (exStep_pcs pl ocs) t.segs 0 t.len
    hwf.tiles { stack := [{ level := pl, status := .neutral }],
                err := if t.len = ocs.length then none else some .explicitLenMismatch } rfl
  exact ⟨this.1, this.2.2⟩

/-- the levels of one paragraph have one entry per code unit -/
theorem paraLevels_length (ds : DataSource) (pl : Nat) (pure hasIso : Bool) (t : Text) (hwf : t.WF)
    (ocs : List BidiClass) :
    (paraLevels ds pl pure hasIso t ocs).1.length = t.len := by
  unfold paraLevels
  split
  · simp
  · simp only [assignLevelsToRemovedChars, fillLoop_length, resolveLevels_length,
      resolveSequences_length, (explicit_levels t hwf pl ocs).1,
      (explicit_pcs t hwf pl ocs).1, Nat.min_self]

/-! ### every `&str` is a well-formed text (for the non-vacuity examples) -/

theorem foldl_add (xs : List Nat) (a : Nat) : xs.foldl (· + ·) a = a + xs.foldl (· + ·) 0 := by
  induction xs generalizing a with
  | nil => simp
  | cons x xs ih => simp only [List.foldl_cons]; rw [ih (a + x), ih (0 + x)]; omega

theorem charLen_pos (enc : Enc) (c : Nat) : 0 < enc.charLen c := by
  cases enc <;> simp only [Enc.charLen, utf8Len, utf16Len] <;> (repeat' split) <;> omega

theorem layout_tiles (enc : Enc) (pos : Nat) (cs : List Nat) :
    SegsFrom pos (Text.layout enc pos cs) (pos + Text.totalLen enc cs) := by
  induction cs generalizing pos with
  | nil => simp [Text.layout, Text.totalLen, SegsFrom]
  | cons c cs ih =>
    simp only [Text.layout, SegsFrom, true_and]
    refine ⟨charLen_pos enc c, ?_⟩
    have := ih (pos + enc.charLen c)
    have e : Text.totalLen enc (c :: cs) = enc.charLen c + Text.totalLen enc cs := by
      simp only [Text.totalLen, List.map_cons, List.foldl_cons]; rw [foldl_add]; omega
    rw [e, ← Nat.add_assoc]; exact this

theorem layout_lens (enc : Enc) (pos : Nat) (cs : List Nat) :
    ∀ s ∈ Text.layout enc pos cs, s.len = enc.charLen s.cp := by
  induction cs generalizing pos with
  | nil => simp [Text.layout]
  | cons c cs ih =>
    intro s hs
    simp only [Text.layout, List.mem_cons] at hs
    rcases hs with rfl | hs
    · rfl
    · exact ih _ s hs

theorem ofScalars_WF (cs : List Nat) : (Text.ofScalars cs).WF :=
  ⟨by simpa [Text.ofScalars] using layout_tiles .utf8 0 cs, layout_lens .utf8 0 cs⟩

end UBidi.Props.C01.Base
