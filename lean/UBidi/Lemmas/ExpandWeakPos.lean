/-
  UBidi.Lemmas.ExpandWeakPos — positions of characters in a well-formed text,
  `expand` pointwise, and the pointwise relation `Rp` between a per-unit class
  array and a per-character class array ("all units of character k' carry the
  class of k', except the units ≥ j of character k which carry c").
-/
import UBidi.Lemmas.ExpandDefs
namespace UBidi.Expand.Weak
open UBidi UBidi.Expand BidiClass

instance : LawfulBEq BidiClass where
  eq_of_beq := by intro a b; cases a <;> cases b <;> decide
  rfl := by intro a; cases a <;> rfl

/-- number of units of character `k` (0 outside the text) -/
def ulen (t : Text) (k : Nat) : Nat := (t.segs[k]?.map (·.len)).getD 0

/-- the units of character `k` -/
def units (t : Text) (k : Nat) : List Nat := List.range' (pos t k) (ulen t k)

/-- the units of character `k'`, but only the first `j` ones if `k' = k` -/
def unitsT (t : Text) (k j k' : Nat) : List Nat :=
  if k' = k then List.range' (pos t k) j else units t k'

/-- what `Text.WF` says about positions -/
structure PosOK (t : Text) : Prop where
  zero : pos t 0 = 0
  succ : ∀ k, k < t.segs.length → pos t (k + 1) = pos t k + ulen t k
  lpos : ∀ k, k < t.segs.length → 0 < ulen t k

theorem segsFrom_aux : ∀ (segs : List Seg) (p0 e : Nat), SegsFrom p0 segs e →
    (segs[0]?.map (·.start)).getD e = p0 ∧
    ∀ k, k < segs.length → 0 < (segs[k]?.map (·.len)).getD 0 ∧
      (segs[k + 1]?.map (·.start)).getD e = (segs[k]?.map (·.start)).getD e + (segs[k]?.map (·.len)).getD 0
  | [], p0, e, h => by
    simp only [SegsFrom] at h
    simp [h]
  | s :: ss, p0, e, h => by
    simp only [SegsFrom] at h
    obtain ⟨h1, h2, h3⟩ := h
    have ih := segsFrom_aux ss (p0 + s.len) e h3
    refine ⟨by simp [h1], ?_⟩
    intro k hk
    cases k with
    | zero =>
      simp only [List.getElem?_cons_zero, Option.map_some, Option.getD_some, Nat.zero_add,
        List.getElem?_cons_succ]
      exact ⟨h2, by rw [ih.1, h1]⟩
    | succ k =>
      simp only [List.getElem?_cons_succ]
      exact ih.2 k (by simpa using hk)

theorem posOK_of_wf {t : Text} (hwf : t.WF) : PosOK t := by
  have h := segsFrom_aux t.segs 0 t.len hwf.tiles
  refine ⟨?_, ?_, ?_⟩
  · unfold pos; exact h.1
  · intro k hk; unfold pos ulen; exact (h.2 k hk).2
  · intro k hk; unfold ulen; exact (h.2 k hk).1

theorem pos_ge (t : Text) {k : Nat} (h : t.segs.length ≤ k) : pos t k = t.len := by
  unfold pos; simp [h]

theorem ulen_ge (t : Text) {k : Nat} (h : t.segs.length ≤ k) : ulen t k = 0 := by
  unfold ulen; simp [h]

theorem units_ge (t : Text) {k : Nat} (h : t.segs.length ≤ k) : units t k = [] := by
  unfold units; simp [ulen_ge t h]

section
variable {t : Text} (hp : PosOK t)
include hp

theorem pos_succ' (k : Nat) : pos t (k + 1) = pos t k + ulen t k := by
  by_cases hk : k < t.segs.length
  · exact hp.succ k hk
  · rw [pos_ge t (by omega), pos_ge t (by omega), ulen_ge t (by omega)]; rfl

theorem pos_mono {a b : Nat} (h : a ≤ b) : pos t a ≤ pos t b := by
  induction b with
  | zero => have : a = 0 := by omega
            subst this; exact Nat.le_refl _
  | succ b ih =>
    by_cases hab : a = b + 1
    · subst hab; exact Nat.le_refl _
    · have := ih (by omega)
      rw [pos_succ' hp b]; omega

theorem pos_end_le {a b : Nat} (h : a < b) : pos t a + ulen t a ≤ pos t b := by
  rw [← pos_succ' hp a]; exact pos_mono hp h

theorem pos_le_len (k : Nat) : pos t k ≤ t.len := by
  have := pos_mono hp (Nat.le_max_left k t.segs.length)
  rw [pos_ge t (Nat.le_max_right k t.segs.length)] at this
  exact this

theorem unit_lt_len {k j : Nat} (hj : j < ulen t k) : pos t k + j < t.len := by
  have := pos_le_len hp (k + 1)
  rw [pos_succ' hp k] at this; omega

/-- a unit index determines its character and offset -/
theorem unit_inj {k j k' j' : Nat} (hj : j < ulen t k) (hj' : j' < ulen t k')
    (h : pos t k + j = pos t k' + j') : k = k' ∧ j = j' := by
  rcases Nat.lt_trichotomy k k' with hlt | heq | hgt
  · have := pos_end_le hp hlt; omega
  · subst heq; exact ⟨rfl, by omega⟩
  · have := pos_end_le hp hgt; omega

/-- every unit index belongs to a character -/
theorem unit_surj : ∀ (m i : Nat), i < pos t m → ∃ k j, k < m ∧ j < ulen t k ∧ i = pos t k + j := by
  intro m
  induction m with
  | zero => intro i hi; rw [hp.zero] at hi; omega
  | succ m ih =>
    intro i hi
    by_cases h : i < pos t m
    · obtain ⟨k, j, h1, h2, h3⟩ := ih i h
      exact ⟨k, j, by omega, h2, h3⟩
    · rw [pos_succ' hp m] at hi
      exact ⟨m, i - pos t m, by omega, by omega, by omega⟩

theorem unit_surj_len {i : Nat} (hi : i < t.len) :
    ∃ k j, k < t.segs.length ∧ j < ulen t k ∧ i = pos t k + j := by
  have := unit_surj hp t.segs.length i (by rw [pos_ge t (Nat.le_refl _)]; exact hi)
  exact this

omit hp in
theorem mem_units {k i : Nat} : i ∈ units t k ↔ ∃ j, j < ulen t k ∧ i = pos t k + j := by
  unfold units
  rw [List.mem_range'_1]
  constructor
  · intro h; exact ⟨i - pos t k, by omega, by omega⟩
  · rintro ⟨j, h1, h2⟩; omega

theorem unit_mem_units {k j k' : Nat} (hj : j < ulen t k) :
    pos t k + j ∈ units t k' ↔ k = k' := by
  rw [mem_units]
  constructor
  · rintro ⟨j', h1, h2⟩; exact (unit_inj hp hj h1 h2).1
  · intro h; subst h; exact ⟨j, hj, rfl⟩

/-- a range of characters as a range of units -/
theorem range'_pos (a : Nat) : ∀ (m : Nat),
    List.range' (pos t a) (pos t (a + m) - pos t a) = (List.range' a m).flatMap (units t)
  | 0 => by simp
  | m + 1 => by
    have ih := range'_pos (a + 1) m
    rw [List.range'_succ, List.flatMap_cons, ← ih]
    have e1 : a + 1 + m = a + (m + 1) := by omega
    rw [e1, pos_succ' hp a]
    have h2 : pos t a + ulen t a ≤ pos t (a + (m + 1)) := pos_end_le hp (by omega)
    unfold units
    have : pos t (a + (m + 1)) - pos t a = ulen t a + (pos t (a + (m + 1)) - (pos t a + ulen t a)) := by omega
    rw [this, ← List.range'_append_1]

theorem range'_pos' {a b : Nat} (h : a ≤ b) :
    List.range' (pos t a) (pos t b - pos t a) = (List.range' a (b - a)).flatMap (units t) := by
  have := range'_pos hp a (b - a)
  rwa [show a + (b - a) = b by omega] at this

end

/-! ### `expand` pointwise -/

theorem expand_aux {α} : ∀ (segs : List Seg) (xs : List α) (p0 e : Nat), SegsFrom p0 segs e →
    xs.length = segs.length →
    p0 + ((segs.zip xs).flatMap (fun sx => List.replicate sx.1.len sx.2)).length = e ∧
    ∀ k (hk : k < segs.length) j, j < segs[k].len → p0 ≤ segs[k].start ∧
      ((segs.zip xs).flatMap (fun sx => List.replicate sx.1.len sx.2))[segs[k].start - p0 + j]? = xs[k]?
  | [], xs, p0, e, h, hl => by
    simp only [SegsFrom] at h
    simp [h]
  | s :: ss, [], p0, e, h, hl => by simp at hl
  | s :: ss, x :: xs, p0, e, h, hl => by
    simp only [SegsFrom] at h
    obtain ⟨h1, h2, h3⟩ := h
    have ih := expand_aux ss xs (p0 + s.len) e h3 (by simpa using hl)
    simp only [List.zip_cons_cons, List.flatMap_cons, List.length_append, List.length_replicate]
    refine ⟨by omega, ?_⟩
    intro k hk j hj
    cases k with
    | zero =>
      simp only [List.getElem_cons_zero] at hj ⊢
      refine ⟨by omega, ?_⟩
      rw [h1, Nat.sub_self, Nat.zero_add, List.getElem?_append_left (by simpa using hj)]
      simp [hj]
    | succ k =>
      simp only [List.getElem_cons_succ] at hj ⊢
      have := ih.2 k (by simpa using hk) j hj
      refine ⟨by omega, ?_⟩
      rw [List.getElem?_append_right (by simp; omega)]
      simp only [List.length_replicate, List.getElem?_cons_succ]
      rw [← this.2]
      congr 1
      omega

theorem expand_length {α} {t : Text} (hwf : t.WF) (xs : List α) (hl : xs.length = t.segs.length) :
    (expand t xs).length = t.len := by
  have := (expand_aux t.segs xs 0 t.len hwf.tiles hl).1
  have e : expand t xs = (t.segs.zip xs).flatMap (fun sx => List.replicate sx.1.len sx.2) := rfl
  rw [e]; omega

theorem expand_getElem? {α} {t : Text} (hwf : t.WF) (xs : List α) (hl : xs.length = t.segs.length)
    {k j : Nat} (hk : k < t.segs.length) (hj : j < ulen t k) :
    (expand t xs)[pos t k + j]? = xs[k]? := by
  have h := (expand_aux t.segs xs 0 t.len hwf.tiles hl).2 k hk j
    (by unfold ulen at hj; simpa [hk] using hj)
  have e : expand t xs = (t.segs.zip xs).flatMap (fun sx => List.replicate sx.1.len sx.2) := rfl
  rw [e]
  unfold pos
  simpa [hk] using h.2

theorem cget_expand {t : Text} (hwf : t.WF) (p : Classes) (hl : p.length = t.segs.length)
    {k j : Nat} (hk : k < t.segs.length) (hj : j < ulen t k) :
    cget (expand t p) (pos t k + j) = cget p k := by
  unfold cget
  rw [List.getD_eq_getElem?_getD, List.getD_eq_getElem?_getD, expand_getElem? hwf p hl hk hj]

/-! ### small facts on `cget`, `set`, `setAll` -/

theorem cget_set (P : Classes) (i q : Nat) (v : BidiClass) :
    cget (P.set i v) q = if i = q ∧ q < P.length then v else cget P q := by
  unfold cget
  rw [List.getD_eq_getElem?_getD, List.getD_eq_getElem?_getD, List.getElem?_set]
  by_cases h : i = q
  · subst h
    by_cases h2 : i < P.length
    · simp [h2]
    · simp [h2]
  · simp [h]

theorem cget_ge (P : Classes) {q : Nat} (h : P.length ≤ q) : cget P q = ON := by
  unfold cget; simp [h]

theorem setAll_nil (P : Classes) (v : BidiClass) : setAll P [] v = P := rfl

theorem setAll_cons (P : Classes) (i : Nat) (is : List Nat) (v : BidiClass) :
    setAll P (i :: is) v = setAll (P.set i v) is v := rfl

theorem setAll_append (P : Classes) (as bs : List Nat) (v : BidiClass) :
    setAll P (as ++ bs) v = setAll (setAll P as v) bs v := by
  unfold setAll; rw [List.foldl_append]

theorem setAll_length (P : Classes) (is : List Nat) (v : BidiClass) : (setAll P is v).length = P.length := by
  induction is generalizing P with
  | nil => rfl
  | cons i is ih => rw [setAll_cons, ih, List.length_set]

theorem cget_setAll (P : Classes) (is : List Nat) (v : BidiClass) (q : Nat) :
    cget (setAll P is v) q = if q ∈ is ∧ q < P.length then v else cget P q := by
  induction is generalizing P with
  | nil => simp [setAll_nil]
  | cons i is ih =>
    rw [setAll_cons, ih, List.length_set, cget_set]
    by_cases h1 : q ∈ is
    · by_cases h2 : q < P.length
      · simp [h1, h2]
      · simp [h2]
    · by_cases h3 : i = q
      · subst h3; simp [h1]
      · have : ¬ q = i := fun h => h3 h.symm
        simp [h1, h3, this]

theorem setWhileBN_length (P : Classes) (it : List Nat) (v : BidiClass) :
    (setWhileBN P it v).length = P.length := by
  induction it generalizing P with
  | nil => rfl
  | cons i is ih =>
    unfold setWhileBN
    split
    · rfl
    · rw [ih, List.length_set]

/-- `setWhileBN` never touches an entry that is not `BN` -/
theorem cget_setWhileBN_of_ne (P : Classes) (it : List Nat) (v : BidiClass) (q : Nat)
    (h : cget P q ≠ BN) : cget (setWhileBN P it v) q = cget P q := by
  induction it generalizing P with
  | nil => rfl
  | cons i is ih =>
    unfold setWhileBN
    split
    · rfl
    · rename_i hb
      have hb' : cget P i = BN := by simpa using hb
      have hne : i ≠ q := by intro e; subst e; exact h hb'
      have e : cget (P.set i v) q = cget P q := by rw [cget_set]; simp [hne]
      rw [ih (P.set i v) (by rw [e]; exact h), e]

/-! ### the pointwise relation -/

/-- `P` (per unit) is `p` (per character) repeated over the units, except that the
    units `≥ j` of character `k` hold `c`. -/
def Rp (t : Text) (P p : Classes) (k j : Nat) (c : BidiClass) : Prop :=
  P.length = t.len ∧ p.length = t.segs.length ∧
  ∀ k' j', k' < t.segs.length → j' < ulen t k' →
    cget P (pos t k' + j') = if k' = k ∧ j ≤ j' then c else cget p k'

theorem Rp_expand {t : Text} (hwf : t.WF) (p : Classes) (hl : p.length = t.segs.length)
    (k j : Nat) (c : BidiClass) (hj : ulen t k ≤ j) : Rp t (expand t p) p k j c := by
  refine ⟨expand_length hwf p hl, hl, ?_⟩
  intro k' j' hk' hj'
  rw [cget_expand hwf p hl hk' hj']
  by_cases h : k' = k
  · subst h; simp; omega
  · simp [h]

section
variable {t : Text} (hp : PosOK t)
include hp

theorem Rp_unique {P Q p : Classes} {k j : Nat} {c : BidiClass}
    (h1 : Rp t P p k j c) (h2 : Rp t Q p k j c) : P = Q := by
  apply List.ext_getElem?
  intro i
  by_cases hi : i < t.len
  · obtain ⟨k', j', hk', hj', rfl⟩ := unit_surj_len hp hi
    have e1 := h1.2.2 k' j' hk' hj'
    have e2 := h2.2.2 k' j' hk' hj'
    rw [← e2] at e1
    unfold cget at e1
    have l1 : pos t k' + j' < P.length := by rw [h1.1]; exact hi
    have l2 : pos t k' + j' < Q.length := by rw [h2.1]; exact hi
    rw [List.getD_eq_getElem?_getD, List.getD_eq_getElem?_getD,
      List.getElem?_eq_getElem l1, List.getElem?_eq_getElem l2] at e1
    simp only [Option.getD_some] at e1
    rw [List.getElem?_eq_getElem l1, List.getElem?_eq_getElem l2, e1]
  · rw [List.getElem?_eq_none (by rw [h1.1]; omega), List.getElem?_eq_none (by rw [h2.1]; omega)]

omit hp in
/-- the hole is irrelevant once it is empty -/
theorem Rp_full_change {P p : Classes} {k j : Nat} {c : BidiClass} (h : Rp t P p k j c)
    (hj : ulen t k ≤ j) (k2 j2 : Nat) (c2 : BidiClass) (hj2 : ulen t k2 ≤ j2) : Rp t P p k2 j2 c2 := by
  refine ⟨h.1, h.2.1, ?_⟩
  intro k' j' hk' hj'
  rw [h.2.2 k' j' hk' hj']
  have a1 : ¬ (k' = k ∧ j ≤ j') := by rintro ⟨rfl, h3⟩; omega
  have a2 : ¬ (k' = k2 ∧ j2 ≤ j') := by rintro ⟨rfl, h3⟩; omega
  rw [if_neg a1, if_neg a2]

omit hp in
/-- a hole filled with the character's own class is no hole -/
theorem Rp_open {P p : Classes} {k j : Nat} {c : BidiClass} (h : Rp t P p k j c)
    (hj : ulen t k ≤ j) (j2 : Nat) : Rp t P p k j2 (cget p k) := by
  refine ⟨h.1, h.2.1, ?_⟩
  intro k' j' hk' hj'
  rw [h.2.2 k' j' hk' hj']
  have a1 : ¬ (k' = k ∧ j ≤ j') := by rintro ⟨rfl, h3⟩; omega
  rw [if_neg a1]
  split
  · rename_i h3; rw [h3.1]
  · rfl

omit hp in
theorem Rp_close {P p : Classes} {k j : Nat} {c : BidiClass} (h : Rp t P p k j c)
    (hc : cget p k = c) (k2 j2 : Nat) (c2 : BidiClass) (hj2 : ulen t k2 ≤ j2) : Rp t P p k2 j2 c2 := by
  refine ⟨h.1, h.2.1, ?_⟩
  intro k' j' hk' hj'
  rw [h.2.2 k' j' hk' hj']
  have a2 : ¬ (k' = k2 ∧ j2 ≤ j') := by rintro ⟨rfl, h3⟩; omega
  rw [if_neg a2]
  split
  · rename_i h3; rw [h3.1, hc]
  · rfl

theorem Rp_eq_expand {P p : Classes} {k j : Nat} {c : BidiClass} (hwf : t.WF) (h : Rp t P p k j c)
    (hj : ulen t k ≤ j) : P = expand t p :=
  Rp_unique hp h (Rp_expand hwf p h.2.1 k j c hj)

omit hp in
theorem Rp_get {P p : Classes} {k j : Nat} {c : BidiClass} (h : Rp t P p k j c)
    {k' j' : Nat} (hk' : k' < t.segs.length) (hj' : j' < ulen t k') (hne : k' ≠ k ∨ j' < j) :
    cget P (pos t k' + j') = cget p k' := by
  rw [h.2.2 k' j' hk' hj']
  have a1 : ¬ (k' = k ∧ j ≤ j') := by rintro ⟨h2, h3⟩; omega
  rw [if_neg a1]

omit hp in
theorem Rp_get_hole {P p : Classes} {k j : Nat} {c : BidiClass} (h : Rp t P p k j c)
    {j' : Nat} (hk : k < t.segs.length) (hj' : j' < ulen t k) (hjj : j ≤ j') :
    cget P (pos t k + j') = c := by
  rw [h.2.2 k j' hk hj', if_pos ⟨rfl, hjj⟩]

/-- writing the first unit of character `k` -/
theorem Rp_set_first {P p : Classes} {k : Nat} {c : BidiClass} (h : Rp t P p k 1 c)
    (hk : k < t.segs.length) (v : BidiClass) : Rp t (P.set (pos t k) v) (p.set k v) k 1 c := by
  refine ⟨by rw [List.length_set]; exact h.1, by rw [List.length_set]; exact h.2.1, ?_⟩
  intro k' j' hk' hj'
  rw [cget_set, cget_set, h.2.2 k' j' hk' hj']
  have hl : pos t k' + j' < P.length := by rw [h.1]; exact unit_lt_len hp hj'
  have hl2 : k' < p.length := by rw [h.2.1]; exact hk'
  by_cases e : k' = k
  · subst e
    by_cases e2 : j' = 0
    · subst e2
      have hl' : pos t k' < P.length := by simpa using hl
      simp [hl', hl2]
    · have : ¬ pos t k' = pos t k' + j' := by omega
      have : 1 ≤ j' := by omega
      simp [*]
  · have hk0 := hp.lpos k hk
    have : ¬ pos t k = pos t k' + j' := by
      intro e3
      exact e (unit_inj hp (j := 0) hk0 hj' (by omega)).1.symm
    have e' : ¬ k = k' := fun h => e h.symm
    simp [*]

/-- writing unit `j` of character `k` with the character's class -/
theorem Rp_set_tail {P p : Classes} {k j : Nat} {c : BidiClass} (h : Rp t P p k j c)
    (hk : k < t.segs.length) (hj : j < ulen t k) : Rp t (P.set (pos t k + j) (cget p k)) p k (j + 1) c := by
  refine ⟨by rw [List.length_set]; exact h.1, h.2.1, ?_⟩
  intro k' j' hk' hj'
  rw [cget_set, h.2.2 k' j' hk' hj']
  have hl : pos t k' + j' < P.length := by rw [h.1]; exact unit_lt_len hp hj'
  by_cases e : pos t k + j = pos t k' + j'
  · obtain ⟨rfl, rfl⟩ := unit_inj hp hj hj' e
    have : ¬ (j + 1 ≤ j) := by omega
    simp [hl, this]
  · have : ¬ (k' = k ∧ j' = j) := by rintro ⟨rfl, rfl⟩; exact e rfl
    rw [if_neg (by rintro ⟨h1, _⟩; exact e h1)]
    by_cases e2 : k' = k
    · subst e2
      have : j' ≠ j := fun h => this ⟨rfl, h⟩
      by_cases e3 : j ≤ j'
      · rw [if_pos ⟨rfl, e3⟩, if_pos ⟨rfl, by omega⟩]
      · rw [if_neg (by rintro ⟨_, h4⟩; exact e3 h4), if_neg (by rintro ⟨_, h4⟩; omega)]
    · rw [if_neg (by rintro ⟨h1, _⟩; exact e2 h1), if_neg (by rintro ⟨h1, _⟩; exact e2 h1)]

/-- writing all units of another character -/
theorem Rp_setUnits {P p : Classes} {k j : Nat} {c : BidiClass} (h : Rp t P p k j c)
    {k2 : Nat} (hne : k2 ≠ k) (us : List Nat) (hus : ∀ i, i ∈ us ↔ i ∈ units t k2) (v : BidiClass) :
    Rp t (setAll P us v) (p.set k2 v) k j c := by
  refine ⟨by rw [setAll_length]; exact h.1, by rw [List.length_set]; exact h.2.1, ?_⟩
  intro k' j' hk' hj'
  rw [cget_setAll, cget_set, h.2.2 k' j' hk' hj']
  have hm : pos t k' + j' ∈ us ↔ k' = k2 := by rw [hus, unit_mem_units hp hj']
  have hl : pos t k' + j' < P.length := by rw [h.1]; exact unit_lt_len hp hj'
  have hl2 : k' < p.length := by rw [h.2.1]; exact hk'
  by_cases e : k' = k2
  · have hmem := hm.2 e
    subst e
    have : ¬ (k' = k ∧ j ≤ j') := by rintro ⟨h1, _⟩; exact hne h1
    simp [hl, hl2, this, hmem]
  · have e' : ¬ k2 = k' := fun h => e h.symm
    have hmem : ¬ pos t k' + j' ∈ us := fun h => e (hm.1 h)
    simp [e', hmem]

omit hp in
theorem flatMap_unitsT_of_not_mem {k j : Nat} {ks : List Nat} (h : k ∉ ks) :
    ks.flatMap (unitsT t k j) = ks.flatMap (units t) := by
  induction ks with
  | nil => rfl
  | cons a as ih =>
    rw [List.flatMap_cons, List.flatMap_cons, ih (fun hm => h (List.mem_cons_of_mem _ hm))]
    have : a ≠ k := fun e => h (by rw [e]; exact List.mem_cons_self)
    unfold unitsT; rw [if_neg this]

omit hp in
theorem unitsT_full (k k' : Nat) : unitsT t k (ulen t k) k' = units t k' := by
  unfold unitsT units
  split
  · rename_i h; rw [h]
  · rfl

/-- `setAll` over the units of a list of characters (none of them `k`) -/
theorem Rp_setAll {P p : Classes} {k j : Nat} {c : BidiClass} (h : Rp t P p k j c)
    (ks : List Nat) (hne : k ∉ ks) (v : BidiClass) :
    Rp t (setAll P (ks.flatMap (units t)) v) (setAll p ks v) k j c := by
  induction ks generalizing P p with
  | nil => exact h
  | cons a as ih =>
    rw [List.flatMap_cons, setAll_append, setAll_cons]
    have ha : a ≠ k := fun e => hne (by rw [e]; exact List.mem_cons_self)
    exact ih (Rp_setUnits hp h ha (units t a) (fun _ => Iff.rfl) v)
      (fun hm => hne (List.mem_cons_of_mem _ hm))

end

end UBidi.Expand.Weak
