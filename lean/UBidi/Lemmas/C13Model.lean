/-
  C13 on the Model of the crate — helper lemmas.

  * `textOf enc cs` — scalar values laid out as a well-formed text in encoding `enc`
    (`textOf_WF`, `raw_textOf`); `Text.ofScalars cs = textOf .utf8 cs`.
  * `chOf ds c` — a scalar value as the Spec sees it (class and bracket property of the data source).
  * `charsOf_eq_applyX5c` — the bridge between `C01_paragraphBidiInfo` and `C13_isolation_raw`: the
    characters with the classes the crate reports are `applyX5c` of the characters with their raw classes.
  * `expandCs` — `Expand.expand` on a laid-out text depends on the scalar values only; it splits over `++`.
  * `chunk_mem` — the cutting of a text into paragraphs is unique; `bidiInfo_para` — `BidiInfo::new` on
    `before ++ para ++ after` reports `para` as a paragraph, with the classes and levels of
    `ParagraphBidiInfo::new` on `para` alone (per unit and per character).
-/
import UBidi.Props.C01Levels
import UBidi.Props.C13
namespace UBidi.Props.C13Model
open UBidi UBidi.Spec UBidi.BidiClass UBidi.Expand UBidi.Lemmas.C01Compose
open UBidi.Props.C02 (raw)
open UBidi.Props.C13 (applyX5c IsoBalanced)

/-! ### scalar values as a text -/

/-- scalar values laid out as a text in encoding `enc` (for `utf8`: `Text.ofScalars`, a `&str`) -/
def textOf (enc : Enc) (cs : List Nat) : Text :=
  { enc := enc, len := Text.totalLen enc cs, segs := Text.layout enc 0 cs }

theorem textOf_utf8 (cs : List Nat) : textOf .utf8 cs = Text.ofScalars cs := rfl

theorem textOf_WF (enc : Enc) (cs : List Nat) : (textOf enc cs).WF :=
  ⟨by simpa [textOf] using C01.Base.layout_tiles enc 0 cs, C01.Base.layout_lens enc 0 cs⟩

theorem textOf_cps (enc : Enc) (cs : List Nat) : (textOf enc cs).segs.map (·.cp) = cs :=
  C09.layout_map_cp enc 0 cs

theorem textOf_segs_map {β} (enc : Enc) (cs : List Nat) (f : Nat → β) :
    (textOf enc cs).segs.map (fun s => f s.cp) = cs.map f := by
  have := congrArg (List.map f) (textOf_cps enc cs)
  simpa [List.map_map, Function.comp_def] using this

theorem textOf_segs_length (enc : Enc) (cs : List Nat) : (textOf enc cs).segs.length = cs.length := by
  have := congrArg List.length (textOf_cps enc cs)
  simpa using this

theorem raw_textOf (ds : DataSource) (enc : Enc) (cs : List Nat) : raw ds (textOf enc cs) = cs.map ds.cls :=
  textOf_segs_map enc cs ds.cls

/-! ### the characters as the Spec sees them -/

/-- a scalar value as the Spec sees it: class and bracket property of the data source -/
def chOf (ds : DataSource) (c : Nat) : Spec.Ch := { cls := ds.cls c, brk := ds.brk c }

theorem map_chOf_cls (ds : DataSource) (cs : List Nat) : (cs.map (chOf ds)).map (·.cls) = cs.map ds.cls := by
  simp [List.map_map, Function.comp_def, chOf]

theorem ch_list_ext : ∀ (a b : List Spec.Ch), a.map (·.cls) = b.map (·.cls) → a.map (·.brk) = b.map (·.brk) → a = b
  | [], [], _, _ => rfl
  | [], _ :: _, h, _ => by simp at h
  | _ :: _, [], h, _ => by simp at h
  | x :: a, y :: b, h1, h2 => by
    simp only [List.map_cons, List.cons.injEq] at h1 h2
    rw [ch_list_ext a b h1.2 h2.2]
    cases x; cases y
    simp_all

theorem zipWith_setCls_brk : ∀ (t : List Spec.Ch) (r : List BidiClass), t.length = r.length →
    (List.zipWith (fun (c : Spec.Ch) k => { c with cls := k }) t r).map (·.brk) = t.map (·.brk)
  | [], [], _ => rfl
  | [], _ :: _, h => by simp at h
  | _ :: _, [], h => by simp at h
  | c :: t, k :: r, h => by
    simp only [List.length_cons, Nat.add_right_cancel_iff] at h
    simp [zipWith_setCls_brk t r h]

theorem applyX5c_cls (t : List Spec.Ch) : (applyX5c t).map (·.cls) = resolveFSI (t.map (·.cls)) :=
  C13.zipWith_setCls_cls t _ (by rw [C13.resolveFSI_length, List.length_map])

theorem applyX5c_brk (t : List Spec.Ch) : (applyX5c t).map (·.brk) = t.map (·.brk) :=
  zipWith_setCls_brk t _ (by rw [C13.resolveFSI_length, List.length_map])

/-- **the bridge**: characters whose classes are X5c of the raw classes and whose bracket properties are
    the data source's are `applyX5c` of the text's characters as the data source classifies them -/
theorem charsOf_eq_applyX5c (ds : DataSource) (t : Text) (ocs : Classes)
    (h : (charsOf ds t ocs).map (·.cls) = resolveFSI (raw ds t)) :
    charsOf ds t ocs = applyX5c (t.segs.map (fun s => chOf ds s.cp)) := by
  apply ch_list_ext
  · rw [h, applyX5c_cls]
    simp [raw, List.map_map, Function.comp_def, chOf]
  · rw [applyX5c_brk]
    simp [charsOf, List.map_map, Function.comp_def, chOf]

theorem charsOf_textOf (ds : DataSource) (enc : Enc) (cs : List Nat) (ocs : Classes)
    (h : (charsOf ds (textOf enc cs) ocs).map (·.cls) = resolveFSI (raw ds (textOf enc cs))) :
    charsOf ds (textOf enc cs) ocs = applyX5c (cs.map (chOf ds)) := by
  rw [charsOf_eq_applyX5c ds _ ocs h, textOf_segs_map enc cs (chOf ds)]

/-! ### one paragraph -/

theorem dropLast_subset_aux {α} (A : List α) (x : α) (S : List α) :
    ∀ c ∈ (A ++ x :: S).dropLast, c ∈ A ∨ c = x ∨ c ∈ S.dropLast := by
  intro c hc
  rw [List.dropLast_append_of_ne_nil (by simp)] at hc
  rcases List.mem_append.1 hc with h | h
  · exact Or.inl h
  · cases S with
    | nil => simp at h
    | cons y S =>
      rw [List.dropLast_cons_of_ne_nil (by simp)] at h
      rcases List.mem_cons.1 h with h | h
      · exact Or.inr (Or.inl h)
      · exact Or.inr (Or.inr h)

/-- `pre ++ i :: c ++ p :: suf` is one paragraph: B-free `pre`, isolate initiator, balanced content,
    PDI, and a `suf` with no B except possibly at its end -/
theorem one_para (ds : DataSource) (pre c suf : List Nat) (i p : Nat)
    (hi : ds.cls i = LRI ∨ ds.cls i = RLI) (hp : ds.cls p = PDI) (hc : IsoBalanced (c.map ds.cls))
    (hpre : ∀ x ∈ pre, ds.cls x ≠ B) (hsuf : ∀ x ∈ suf.dropLast, ds.cls x ≠ B) :
    ∀ k ∈ ((pre ++ i :: c ++ p :: suf).map ds.cls).dropLast, k ≠ B := by
  intro k hk
  rw [← List.map_dropLast, List.mem_map] at hk
  obtain ⟨x, hx, rfl⟩ := hk
  rcases dropLast_subset_aux (pre ++ i :: c) p suf x hx with h | rfl | h
  · rcases List.mem_append.1 h with h | h
    · exact hpre x h
    · rcases List.mem_cons.1 h with rfl | h
      · rcases hi with e | e <;> rw [e] <;> decide
      · intro e
        exact hc.noB (e ▸ List.mem_map_of_mem h)
  · rw [hp]; decide
  · exact hsuf x h

/-! ### per-unit values of a laid-out text -/

/-- one value per scalar value ↦ one value per code unit of the encoding -/
def expandCs {α} (enc : Enc) (cs : List Nat) (xs : List α) : List α :=
  (cs.zip xs).flatMap (fun (c, x) => List.replicate (enc.charLen c) x)

theorem expand_layout {α} (enc : Enc) : ∀ (pos : Nat) (cs : List Nat) (xs : List α),
    ((Text.layout enc pos cs).zip xs).flatMap (fun (s, x) => List.replicate s.len x) = expandCs enc cs xs
  | _, [], _ => by simp [Text.layout, expandCs]
  | _, _ :: _, [] => by simp [Text.layout, expandCs]
  | pos, c :: cs, x :: xs => by
    have ih := expand_layout enc (pos + enc.charLen c) cs xs
    simp only [expandCs] at ih
    simp only [Text.layout, List.zip_cons_cons, List.flatMap_cons, expandCs, ih]

theorem expand_textOf {α} (enc : Enc) (cs : List Nat) (xs : List α) :
    expand (textOf enc cs) xs = expandCs enc cs xs :=
  expand_layout enc 0 cs xs

theorem expandCs_append {α} (enc : Enc) : ∀ (a b : List Nat) (xs : List α), a.length ≤ xs.length →
    expandCs enc (a ++ b) xs = expandCs enc a (xs.take a.length) ++ expandCs enc b (xs.drop a.length)
  | [], b, xs, _ => by simp [expandCs]
  | c :: a, b, [], h => by simp at h
  | c :: a, b, x :: xs, h => by
    have ih := expandCs_append enc a b xs (by simpa using h)
    simp only [expandCs] at ih
    simp only [expandCs, List.cons_append, List.zip_cons_cons, List.flatMap_cons, List.length_cons,
      List.take_succ_cons, List.drop_succ_cons, ih, List.append_assoc]

theorem totalLen_cons (enc : Enc) (c : Nat) (cs : List Nat) :
    Text.totalLen enc (c :: cs) = enc.charLen c + Text.totalLen enc cs := by
  simp only [Text.totalLen, List.map_cons, List.foldl_cons]; rw [C01.Base.foldl_add]; omega

theorem expandCs_length {α} (enc : Enc) : ∀ (a : List Nat) (xs : List α), a.length ≤ xs.length →
    (expandCs enc a xs).length = Text.totalLen enc a
  | [], _, _ => by simp [expandCs, Text.totalLen]
  | c :: a, [], h => by simp at h
  | c :: a, x :: xs, h => by
    have ih := expandCs_length enc a xs (by simpa using h)
    simp only [expandCs] at ih
    simp only [expandCs, List.zip_cons_cons, List.flatMap_cons, List.length_append, List.length_replicate, ih,
      totalLen_cons]

/-- the units of the first `a.length` characters -/
theorem expandCs_take {α} (enc : Enc) (a b : List Nat) (xs : List α) (h : a.length ≤ xs.length) :
    (expandCs enc (a ++ b) xs).take (Text.totalLen enc a) = expandCs enc a (xs.take a.length) := by
  rw [expandCs_append enc a b xs h]
  apply List.take_left'
  rw [expandCs_length]
  simp [Nat.min_eq_left h]

/-- the units of the characters from number `a.length` on -/
theorem expandCs_drop {α} (enc : Enc) (a b : List Nat) (xs : List α) (h : a.length ≤ xs.length) :
    (expandCs enc (a ++ b) xs).drop (Text.totalLen enc a) = expandCs enc b (xs.drop a.length) := by
  rw [expandCs_append enc a b xs h]
  apply List.drop_left'
  rw [expandCs_length]
  simp [Nat.min_eq_left h]

/-! ### one paragraph of a multi-paragraph text -/

open UBidi.Lemmas.C02 (IsPara IsChunk mkPara chunkStart chunkStop clsOf)

theorem layout_append (enc : Enc) : ∀ (pos : Nat) (a b : List Nat),
    Text.layout enc pos (a ++ b) = Text.layout enc pos a ++ Text.layout enc (pos + Text.totalLen enc a) b
  | pos, [], b => by simp [Text.layout, Text.totalLen]
  | pos, c :: a, b => by
    simp only [List.cons_append, Text.layout, totalLen_cons, layout_append enc _ a b, Nat.add_assoc]

theorem totalLen_append (enc : Enc) : ∀ (a b : List Nat),
    Text.totalLen enc (a ++ b) = Text.totalLen enc a + Text.totalLen enc b
  | [], b => by simp [Text.totalLen]
  | c :: a, b => by simp only [List.cons_append, totalLen_cons, totalLen_append enc a b, Nat.add_assoc]

theorem layout_shift (enc : Enc) (o : Nat) : ∀ (k : Nat) (cs : List Nat),
    (Text.layout enc (o + k) cs).map (fun s => { s with start := s.start - o }) = Text.layout enc k cs
  | _, [] => rfl
  | k, c :: cs => by
    have ih := layout_shift enc o (k + enc.charLen c) cs
    rw [← Nat.add_assoc] at ih
    simp only [Text.layout, List.map_cons, ih, Nat.add_sub_cancel_left]

theorem layout_cp_mem (enc : Enc) (pos : Nat) (cs : List Nat) : ∀ s ∈ Text.layout enc pos cs, s.cp ∈ cs := by
  intro s hs
  have := List.mem_map_of_mem (f := (·.cp)) hs
  rwa [C09.layout_map_cp] at this

theorem layout_ne_nil (enc : Enc) (pos : Nat) (cs : List Nat) (h : cs ≠ []) : Text.layout enc pos cs ≠ [] := by
  cases cs with
  | nil => exact absurd rfl h
  | cons c cs => simp [Text.layout]

theorem eq_nil_or_snoc {α} (l : List α) : l = [] ∨ ∃ l' x, l = l' ++ [x] := by
  rcases List.eq_nil_or_concat l with h | ⟨l', x, h⟩
  · exact Or.inl h
  · exact Or.inr ⟨l', x, by rw [h, List.concat_eq_append]⟩

theorem layout_snoc (enc : Enc) (pos : Nat) (cs : List Nat) (x : Nat) :
    Text.layout enc pos (cs ++ [x]) =
      Text.layout enc pos cs ++ [⟨pos + Text.totalLen enc cs, x, enc.charLen x⟩] := by
  rw [layout_append]; rfl

/-- a list of characters that is empty or ends with a paragraph separator -/
def EndsB (ds : DataSource) (X : List Seg) : Prop :=
  X = [] ∨ ∃ X' b, X = X' ++ [b] ∧ ds.cls b.cp = B

theorem layout_endsB (ds : DataSource) (enc : Enc) (pos : Nat) (cs : List Nat)
    (h : ∀ x, cs.getLast? = some x → ds.cls x = B) : EndsB ds (Text.layout enc pos cs) := by
  rcases eq_nil_or_snoc cs with rfl | ⟨cs', x, rfl⟩
  · exact Or.inl rfl
  · right
    refine ⟨Text.layout enc pos cs', ⟨pos + Text.totalLen enc cs', x, enc.charLen x⟩, ?_, ?_⟩
    · exact layout_snoc enc pos cs' x
    · exact h x (by simp)

theorem layout_isPara (ds : DataSource) (enc : Enc) (pos : Nat) (cs : List Nat) (hne : cs ≠ [])
    (h : ∀ x ∈ cs.dropLast, ds.cls x ≠ B) : IsPara ds (Text.layout enc pos cs) := by
  rcases eq_nil_or_snoc cs with rfl | ⟨cs', x, rfl⟩
  · exact absurd rfl hne
  · refine ⟨Text.layout enc pos cs', ⟨pos + Text.totalLen enc cs', x, enc.charLen x⟩, ?_, ?_⟩
    · exact layout_snoc enc pos cs' x
    · intro s hs
      apply h
      rw [List.dropLast_concat]
      exact layout_cp_mem enc pos cs' s hs

theorem layout_isChunk (ds : DataSource) (enc : Enc) (pos : Nat) (cs : List Nat)
    (h : ∀ x ∈ cs.dropLast, ds.cls x ≠ B) (x : Nat) (hx : cs.getLast? = some x) (hB : ds.cls x = B) :
    IsChunk ds (Text.layout enc pos cs) := by
  rcases eq_nil_or_snoc cs with rfl | ⟨cs', y, rfl⟩
  · simp at hx
  · have : y = x := by simpa using hx
    subst this
    refine ⟨Text.layout enc pos cs', ⟨pos + Text.totalLen enc cs', y, enc.charLen y⟩, ?_, ?_, hB⟩
    · exact layout_snoc enc pos cs' y
    · intro s hs
      apply h
      rw [List.dropLast_concat]
      exact layout_cp_mem enc pos cs' s hs

/-- a proper prefix of a paragraph has no separator -/
theorem isPara_prefix_noB {ds : DataSource} {ch A E : List Seg} (h : IsPara ds ch) (e : ch = A ++ E)
    (hE : E ≠ []) : ∀ s ∈ A, ds.cls s.cp ≠ B := by
  obtain ⟨xs, b, rfl, hxs⟩ := h
  rcases eq_nil_or_snoc E with rfl | ⟨E', x, rfl⟩
  · exact absurd rfl hE
  · rw [← List.append_assoc] at e
    have := List.append_inj_left' e (by simp)
    intro s hs
    exact hxs s (by rw [this]; exact List.mem_append_left _ hs)

theorem isChunk_hasB {ds : DataSource} {ch : List Seg} (h : IsChunk ds ch) : ∃ s ∈ ch, ds.cls s.cp = B := by
  obtain ⟨xs, b, rfl, _, hb⟩ := h
  exact ⟨b, by simp, hb⟩

/-- the cutting of a text into paragraphs is unique: a piece `P` that is a paragraph (no inner separator;
    followed by nothing, or ending with a separator) and starts after a separator or at the start is one
    of the chunks -/
theorem chunk_mem (ds : DataSource) : ∀ (chunks : List (List Seg)) (X P Y : List Seg),
    (∀ c1 ch c2, chunks = c1 ++ ch :: c2 → IsPara ds ch ∧ (IsChunk ds ch ∨ c2 = [])) →
    chunks.flatten = X ++ P ++ Y → EndsB ds X → IsPara ds P → (IsChunk ds P ∨ Y = []) → P ∈ chunks
  | [], X, P, Y, _, hflat, _, hP, _ => by
    obtain ⟨xs, b, rfl, _⟩ := hP
    simp at hflat
  | ch :: rest, X, P, Y, hch, hflat, hX, hP, hPY => by
    have hrest : ∀ c1 ch' c2, rest = c1 ++ ch' :: c2 → IsPara ds ch' ∧ (IsChunk ds ch' ∨ c2 = []) := by
      intro c1 ch' c2 e
      exact hch (ch :: c1) ch' c2 (by rw [e]; rfl)
    obtain ⟨hchP, hchE⟩ := hch [] ch rest rfl
    have hPne : P ≠ [] := by obtain ⟨xs, b, rfl, _⟩ := hP; simp
    simp only [List.flatten_cons] at hflat
    -- the case where `P` starts where `ch` starts
    have start_case : ch ++ rest.flatten = P ++ Y → P ∈ ch :: rest := by
      intro hflat
      rcases List.append_eq_append_iff.1 hflat with ⟨E, e1, e2⟩ | ⟨E, e1, e2⟩
      · -- P = ch ++ E
        by_cases hE : E = []
        · subst hE; simp at e1; simp [e1]
        · exfalso
          have noB := isPara_prefix_noB hP e1 hE
          have hrne : rest ≠ [] := by
            rintro rfl
            simp at e2
            exact hE e2.1
          rcases hchE with hc | hc
          · obtain ⟨s, hs, hsB⟩ := isChunk_hasB hc
            exact noB s hs hsB
          · exact hrne hc
      · -- ch = P ++ E
        by_cases hE : E = []
        · subst hE; simp at e1; simp [e1]
        · exfalso
          have noB := isPara_prefix_noB hchP e1 hE
          rcases hPY with hc | hc
          · obtain ⟨s, hs, hsB⟩ := isChunk_hasB hc
            exact noB s hs hsB
          · rw [hc] at e2
            exact hE (List.append_eq_nil_iff.1 e2.symm).1
    rcases hX with rfl | ⟨X', b0, rfl, hb0⟩
    · exact start_case (by simpa using hflat)
    · rw [List.append_assoc (X' ++ [b0])] at hflat
      rcases List.append_eq_append_iff.1 hflat with ⟨E, e1, e2⟩ | ⟨E, e1, e2⟩
      · -- X = ch ++ E: go on in the rest
        have hE : EndsB ds E := by
          rcases eq_nil_or_snoc E with rfl | ⟨E', x, rfl⟩
          · exact Or.inl rfl
          · right
            rw [← List.append_assoc] at e1
            have := List.append_inj_right' e1 (by simp)
            simp only [List.cons.injEq, and_true] at this
            exact ⟨E', x, by simp, this ▸ hb0⟩
        have := chunk_mem ds rest E P Y hrest (by rw [e2, List.append_assoc]) hE hP hPY
        exact List.mem_cons_of_mem _ this
      · by_cases hE : E = []
        · subst hE
          simp only [List.append_nil, List.nil_append] at e1 e2
          have := chunk_mem ds rest [] P Y hrest (by simpa using e2.symm) (Or.inl rfl) hP hPY
          exact List.mem_cons_of_mem _ this
        · exfalso
          exact isPara_prefix_noB hchP e1 hE b0 (by simp) hb0

theorem layout_length (enc : Enc) (pos : Nat) (cs : List Nat) : (Text.layout enc pos cs).length = cs.length := by
  have := congrArg List.length (C09.layout_map_cp enc pos cs)
  simpa using this

theorem slice_mid {α} (A M Z : List α) : slice (A ++ M ++ Z) A.length (A.length + M.length) = M := by
  unfold slice
  rw [List.append_assoc, List.drop_left, Nat.add_sub_cancel_left, List.take_left]

theorem slice_prefix {α} (xs : List α) (a b k : Nat) (h : a + k ≤ b) :
    slice xs a (a + k) = (slice xs a b).take k := by
  unfold slice
  rw [List.take_take, Nat.add_sub_cancel_left, Nat.min_eq_left (by omega)]

theorem slice_suffix {α} (xs : List α) (a b j : Nat) : slice xs (a + j) b = (slice xs a b).drop j := by
  unfold slice
  rw [List.drop_take, List.drop_drop, show b - (a + j) = b - a - j by omega]

/-- **one paragraph of `BidiInfo::new`**: in a text `before ++ para ++ after` where `before` is empty or ends
    with a separator, `para` has no inner separator and either ends with one or ends the text, `BidiInfo`
    reports `para` as a paragraph, and its classes and levels there are those of `ParagraphBidiInfo::new` on
    `para` alone. -/
theorem bidiInfo_para (ds : DataSource) (enc : Enc) (d : Option Nat) (hd : ∀ l, d = some l → l ≤ 1)
    (before para after : List Nat) (hne : para ≠ [])
    (hbefore : ∀ x, before.getLast? = some x → ds.cls x = B)
    (hpara : ∀ x ∈ para.dropLast, ds.cls x ≠ B)
    (hafter : after = [] ∨ ∃ x, para.getLast? = some x ∧ ds.cls x = B) :
    let b := bidiInfo ds (textOf enc (before ++ para ++ after)) d
    let q := paragraphBidiInfo ds (textOf enc para) d
    let o := Text.totalLen enc before
    let e := o + Text.totalLen enc para
    b.err = none ∧ { start := o, stop := e, level := q.paraLevel } ∈ b.paras ∧
    slice b.levels o e = q.levels ∧ slice b.classes o e = q.classes ∧
    slice (contract (textOf enc (before ++ para ++ after)) b.levels 0) before.length (before.length + para.length) =
      contract (textOf enc para) q.levels 0 := by
  intro b q o e
  have hwf := textOf_WF enc (before ++ para ++ after)
  obtain ⟨chunks, hflat, hparas, _, hchunks, hcls⟩ := C02.chunks_exist ds (textOf enc (before ++ para ++ after)) d hwf
  have hsegs : (textOf enc (before ++ para ++ after)).segs =
      Text.layout enc 0 before ++ Text.layout enc o para ++ Text.layout enc e after := by
    show Text.layout enc 0 (before ++ para ++ after) = _
    rw [layout_append, layout_append, Nat.zero_add, totalLen_append, Nat.zero_add]
  have tX : SegsFrom 0 (Text.layout enc 0 before) o := by
    have := C01.Base.layout_tiles enc 0 before
    rwa [Nat.zero_add] at this
  have tP : SegsFrom o (Text.layout enc o para) e := C01.Base.layout_tiles enc o para
  have hPne := layout_ne_nil enc o para hne
  have hPpara := layout_isPara ds enc o para hne hpara
  have hPend : IsChunk ds (Text.layout enc o para) ∨ Text.layout enc e after = [] := by
    rcases hafter with rfl | ⟨x, hx, hB⟩
    · exact Or.inr rfl
    · exact Or.inl (layout_isChunk ds enc o para hpara x hx hB)
  have hmem : Text.layout enc o para ∈ chunks :=
    chunk_mem ds chunks _ _ _ hchunks (hflat.trans hsegs) (layout_endsB ds enc 0 before hbefore) hPpara hPend
  obtain ⟨c1, c2, hsplit⟩ := List.append_of_mem hmem
  have ctx := C02.ctx_of_split ds _ d hwf chunks hflat hchunks hcls c1 _ c2 hsplit
  have hstart : chunkStart (Text.layout enc o para) = o := Lemmas.C02.chunkStart_eq _ _ _ tP hPne
  have hstop : chunkStop (Text.layout enc o para) = e := Lemmas.C02.chunkStop_eq _ _ _ tP hPne
  have hp : mkPara ds d (Text.layout enc o para) ∈ b.paras := by
    show _ ∈ (computeInitialInfo ds _ d true).paras
    rw [hparas]
    exact List.mem_map_of_mem hmem
  have hin := C02.segsIn_eq ds _ d ctx
  simp only [C02.segsIn, mkPara, hstart, hstop] at hin
  have hsub : (textOf enc (before ++ para ++ after)).subrange o e = textOf enc para := by
    have hin' : List.filter (fun s => decide (o ≤ s.start) && decide (s.start < e))
        (Text.layout enc 0 (before ++ para ++ after)) = Text.layout enc o para := hin
    simp only [Text.subrange, textOf, Text.mk.injEq, true_and]
    refine ⟨Nat.add_sub_cancel_left .., ?_⟩
    rw [hin']
    have := layout_shift enc o 0 para
    rwa [Nat.add_zero] at this
  obtain ⟨s1, s2, s3, _⟩ := C10.C10_slice ds _ hwf d _ hp
  simp only [mkPara, hstart, hstop, hsub] at s1 s2 s3
  have herr := (C01Levels.C01_bidiInfo ds _ hwf d hd).1
  refine ⟨herr, ?_, s2.symm, s1.symm, ?_⟩
  · have : mkPara ds d (Text.layout enc o para) = { start := o, stop := e, level := q.paraLevel } := by
      simp only [mkPara, hstart, hstop, ParaInfo.mk.injEq, true_and]
      exact s3.symm
    rw [← this]
    exact hp
  · have hr := C01Levels.subrange_read (textOf enc (before ++ para ++ after)) o e b.levels 0 (fun l _ => l)
    rw [hsub, hin, ← s2] at hr
    show slice (List.map _ (textOf enc (before ++ para ++ after)).segs) _ _ = List.map _ _
    rw [hr, hsegs, List.map_append, List.map_append]
    have lX : before.length = (List.map (fun s => b.levels.getD s.start 0) (Text.layout enc 0 before)).length := by
      rw [List.length_map, layout_length]
    have lP : para.length = (List.map (fun s => b.levels.getD s.start 0) (Text.layout enc o para)).length := by
      rw [List.length_map, layout_length]
    rw [lX, lP]
    exact slice_mid _ _ _

end UBidi.Props.C13Model
