/- C18 helpers: what `Utf16.charAt` returns, in terms of the Spec's surrogate tests. -/
import UBidi.Lemmas.C18Basic
namespace UBidi.Lemmas.C18
open UBidi

theorem charAt_ge (u : List Nat) {i : Nat} (h : u.length ≤ i) : Utf16.charAt u i = none := by
  unfold Utf16.charAt
  have : u[i]? = none := by simp [h]
  simp [this]

/-- `charAt` inside the text, as one decision tree on the Spec's predicates -/
theorem charAt_eq (u : List Nat) {i : Nat} (h : i < u.length) :
    Utf16.charAt u i =
      if (Spec.isHighS (u.getD i 0) || Spec.isLowS (u.getD i 0)) = false then some (u.getD i 0, 1)
      else if (Spec.isLowS (u.getD i 0) && decide (0 < i) && Spec.isHighS (u.getD (i - 1) 0)) = true then none
      else if Spec.isHighS (u.getD i 0) = true then
        (if (decide (i + 1 < u.length) && Spec.isLowS (u.getD (i + 1) 0)) = true
          then some (Utf16.combine (u.getD i 0) (u.getD (i + 1) 0), 2) else some (0xFFFD, 1))
      else some (0xFFFD, 1) := by
  unfold Utf16.charAt
  have e : u[i]? = some (u.getD i 0) := by rw [getD_lt u h]; exact List.getElem?_eq_getElem h
  rw [e]
  simp only [isSurrogate_eq, isHigh_eq, isLow_eq, Utf16.replacement]
  by_cases h1 : i + 1 < u.length
  · have e1 : u[i + 1]? = some (u.getD (i + 1) 0) := by
      rw [getD_lt u h1]; exact List.getElem?_eq_getElem h1
    rw [e1]
    simp [h1]
  · have e1 : u[i + 1]? = none := by simp; omega
    rw [e1]
    simp [h1]

theorem lossyUnit_of_not_surr {x : Nat} (h : (Spec.isHighS x || Spec.isLowS x) = false) :
    Spec.lossyUnit x = x := by
  unfold Spec.lossyUnit; rw [h]; rfl

theorem lossyUnit_of_surr {x : Nat} (h : (Spec.isHighS x || Spec.isLowS x) = true) :
    Spec.lossyUnit x = 0xFFFD := by
  unfold Spec.lossyUnit; rw [h]; rfl

/-- At a good index inside the text `charAt` yields the first character of the lossy
    decoding from there, and the index after it is good again. -/
theorem charAt_good (u : List Nat) {i : Nat} (h : i < u.length) (hg : good u i = true) :
    ∃ c l, Utf16.charAt u i = some (c, l) ∧ 0 < l ∧ i + l ≤ u.length ∧ good u (i + l) = true ∧
      Spec.lossy (slice u i (i + l)) = [(c, l)] := by
  rw [charAt_eq u h]
  by_cases hs : (Spec.isHighS (u.getD i 0) || Spec.isLowS (u.getD i 0)) = false
  · rw [if_pos hs]
    refine ⟨_, _, rfl, by omega, by omega, ?_, ?_⟩
    · apply good_of_prev_not_high
      simp only [Nat.add_sub_cancel]
      simp only [Bool.or_eq_false_iff] at hs; exact hs.1
    · rw [slice_one u h, lossy_single, lossyUnit_of_not_surr hs]
  · rw [if_neg hs]
    have hs' : (Spec.isHighS (u.getD i 0) || Spec.isLowS (u.getD i 0)) = true := by
      cases hb : (Spec.isHighS (u.getD i 0) || Spec.isLowS (u.getD i 0)) with
      | true => rfl
      | false => exact absurd hb hs
    have hng : ¬ (Spec.isLowS (u.getD i 0) && decide (0 < i) && Spec.isHighS (u.getD (i - 1) 0)) = true := by
      intro hc
      simp only [Bool.and_eq_true, decide_eq_true_eq] at hc
      unfold good at hg
      rw [hc.1.1, hc.2] at hg
      simp at hg; omega
    rw [if_neg hng]
    by_cases hh : Spec.isHighS (u.getD i 0) = true
    · rw [if_pos hh]
      by_cases hp : (decide (i + 1 < u.length) && Spec.isLowS (u.getD (i + 1) 0)) = true
      · rw [if_pos hp]
        simp only [Bool.and_eq_true, decide_eq_true_eq] at hp
        refine ⟨_, _, rfl, by omega, by omega, ?_, ?_⟩
        · apply good_of_prev_not_high
          exact low_not_high hp.2
        · rw [slice_two u hp.1, lossy_pair hh hp.2]; rfl
      · rw [if_neg hp]
        refine ⟨_, _, rfl, by omega, by omega, ?_, ?_⟩
        · by_cases h1 : i + 1 < u.length
          · apply good_of_not_low
            simpa [h1] using hp
          · exact good_of_ge u (by omega)
        · rw [slice_one u h, lossy_single, lossyUnit_of_surr hs']
    · rw [if_neg hh]
      refine ⟨_, _, rfl, by omega, by omega, ?_, ?_⟩
      · apply good_of_prev_not_high
        simpa using hh
      · rw [slice_one u h, lossy_single, lossyUnit_of_surr hs']

/-- at an index that splits a pair `charAt` answers `none` -/
theorem charAt_not_good (u : List Nat) {i : Nat} (hg : good u i = false) : Utf16.charAt u i = none := by
  by_cases h : i < u.length
  · rw [charAt_eq u h]
    unfold good at hg
    simp only [Bool.not_eq_false', Bool.and_eq_true, decide_eq_true_eq] at hg
    obtain ⟨⟨h0, hh⟩, hl⟩ := hg
    have hs : ¬ (Spec.isHighS (u.getD i 0) || Spec.isLowS (u.getD i 0)) = false := by rw [hl]; simp
    rw [if_neg hs, if_pos (by rw [hl, hh]; simp [h0])]
  · exact charAt_ge u (by omega)

theorem charAt_some_good (u : List Nat) {i : Nat} {q : Nat × Nat} (h : Utf16.charAt u i = some q) :
    i < u.length ∧ good u i = true := by
  constructor
  · apply Nat.lt_of_not_le
    intro hc
    rw [charAt_ge u hc] at h; cases h
  · cases hg : good u i
    · rw [charAt_not_good u hg] at h; cases h
    · rfl

/-- `charAt` answers length 2 exactly on a high surrogate followed by a low one -/
theorem charAt_len_two (u : List Nat) {j c : Nat} (h : Utf16.charAt u j = some (c, 2)) :
    j + 1 < u.length ∧ Spec.isHighS (u.getD j 0) = true ∧ Spec.isLowS (u.getD (j + 1) 0) = true ∧
      c = Utf16.combine (u.getD j 0) (u.getD (j + 1) 0) := by
  have hj := (charAt_some_good u h).1
  rw [charAt_eq u hj] at h
  split at h
  · simp at h
  · split at h
    · cases h
    · split at h
      · rename_i hh
        split at h
        · rename_i hp
          simp only [Bool.and_eq_true, decide_eq_true_eq] at hp
          simp only [Option.some.injEq, Prod.mk.injEq, and_true] at h
          exact ⟨hp.1, hh, hp.2, h.symm⟩
        · simp at h
      · simp at h

theorem charAt_pair (u : List Nat) {j : Nat} (hj : j + 1 < u.length)
    (hh : Spec.isHighS (u.getD j 0) = true) (hl : Spec.isLowS (u.getD (j + 1) 0) = true) :
    Utf16.charAt u j = some (Utf16.combine (u.getD j 0) (u.getD (j + 1) 0), 2) := by
  rw [charAt_eq u (by omega)]
  rw [if_neg (by rw [hh]; simp), if_neg (by rw [high_not_low hh]; simp), if_pos hh,
    if_pos (by rw [hl]; simp [hj])]

end UBidi.Lemmas.C18
