/-
  UBidi.Lemmas.C10LinesRuns — for C10 (line queries): `visual_runs_for_line` reads the levels of the line
  only, so on the restriction of the level vector to `[s,e)` it returns the same runs shifted by `s`
  (`visualRuns_shift`); every run it returns lies inside the line (`visualRuns_bounds`).
-/
import UBidi.Lemmas.C10LinesBasic
import UBidi.Lemmas.C05Groups
namespace UBidi.Lemmas.C10Lines
open UBidi UBidi.Lemmas.C03 UBidi.Lemmas.C05

/-- a run moved `s` code units to the right -/
def shiftRun (s : Nat) (r : Nat × Nat) : Nat × Nat := (r.1 + s, r.2 + s)

theorem findRuns_shift (s stop : Nat) (xs : List Nat) : ∀ (st rl i : Nat),
    findRuns (st + s) rl (i + s) (stop + s) xs = (findRuns st rl i stop xs).map (shiftRun s) := by
  induction xs with
  | nil => intro st rl i; rfl
  | cons l ls ih =>
    intro st rl i
    unfold findRuns
    split
    · rw [show i + s + 1 = i + 1 + s by omega, ih i l (i + 1)]; rfl
    · rw [show i + s + 1 = i + 1 + s by omega, ih st rl (i + 1)]

/-- where the runs of `findRuns` start and stop -/
theorem findRuns_bounds (stop : Nat) (xs : List Nat) : ∀ (st rl i : Nat), ∀ r ∈ findRuns st rl i stop xs,
    (r.1 = st ∨ (i ≤ r.1 ∧ r.1 < i + xs.length)) ∧ (r.2 = stop ∨ (i ≤ r.2 ∧ r.2 < i + xs.length)) := by
  induction xs with
  | nil =>
    intro st rl i r hr
    simp only [findRuns, List.mem_singleton] at hr
    subst hr
    exact ⟨Or.inl rfl, Or.inl rfl⟩
  | cons l ls ih =>
    intro st rl i r hr
    unfold findRuns at hr
    split at hr
    · rcases List.mem_cons.1 hr with rfl | hr
      · exact ⟨Or.inl rfl, Or.inr ⟨Nat.le_refl _, by simp⟩⟩
      · have := ih i l (i + 1) r hr
        simp only [List.length_cons]
        omega
    · have := ih st rl (i + 1) r hr
      simp only [List.length_cons]
      omega

theorem revG_congr' {α} (p q : α → Bool) (acc xs : List α) (h : ∀ x ∈ xs, p x = q x) :
    revG p acc xs = revG q acc xs := by
  induction xs generalizing acc with
  | nil => rfl
  | cons x xs ih =>
    have hx := h x (by simp)
    have ih' := fun acc => ih acc (fun y hy => h y (by simp [hy]))
    simp only [revG, hx, ih']

theorem revGroups_mem (p : Nat × Nat → Bool) (rs : List (Nat × Nat)) (r : Nat × Nat)
    (h : r ∈ revGroups p [] rs) : r ∈ rs := by
  rw [revGroups_eq] at h
  simpa using (revG_perm p [] rs).mem_iff.1 h

/-- the L2 loop only permutes the runs -/
theorem l2RunsLoop_mem (lv : List Nat) (minL : Nat) : ∀ (fuel maxL : Nat) (runs : List (Nat × Nat)),
    ∀ r ∈ (l2RunsLoop lv minL fuel maxL runs).1, r ∈ runs := by
  intro fuel
  induction fuel with
  | zero => intro maxL runs r hr; exact hr
  | succ fuel ih =>
    intro maxL runs r hr
    unfold l2RunsLoop at hr
    split at hr
    · split at hr
      · exact revGroups_mem _ _ _ (ih _ _ r hr)
      · exact revGroups_mem _ _ _ hr
    · exact hr

/-- one reversal pass on shifted runs, reading the levels through the restriction to `[s,e)` -/
theorem revGroups_shift (lv : List Nat) (s e maxL : Nat) (runs : List (Nat × Nat))
    (hr : ∀ r ∈ runs, s + r.1 < e) :
    revGroups (fun r => decide (lv.getD r.1 0 ≥ maxL)) [] (runs.map (shiftRun s))
      = (revGroups (fun r => decide ((slice lv s e).getD r.1 0 ≥ maxL)) [] runs).map (shiftRun s) := by
  rw [revGroups_eq, revGroups_eq,
    revG_congr' (fun r => decide ((slice lv s e).getD r.1 0 ≥ maxL))
      (fun r => decide (lv.getD (shiftRun s r).1 0 ≥ maxL)) [] runs
      (fun r hx => by
        simp only [shiftRun]
        rw [getD_slice_sub lv s e r.1 0 (hr r hx), Nat.add_comm s r.1]
        rfl)]
  exact (revG_map _ _ (shiftRun s) (fun _ => rfl) [] runs).symm

theorem l2RunsLoop_shift (lv : List Nat) (s e minL : Nat) : ∀ (fuel maxL : Nat) (runs : List (Nat × Nat)),
    (∀ r ∈ runs, s + r.1 < e) →
    l2RunsLoop lv minL fuel maxL (runs.map (shiftRun s))
      = ((l2RunsLoop (slice lv s e) minL fuel maxL runs).1.map (shiftRun s),
         (l2RunsLoop (slice lv s e) minL fuel maxL runs).2) := by
  intro fuel
  induction fuel with
  | zero => intro maxL runs _; rfl
  | succ fuel ih =>
    intro maxL runs hr
    unfold l2RunsLoop
    by_cases hm : maxL ≥ minL
    · simp only [hm, if_true]
      rw [revGroups_shift lv s e maxL runs hr]
      cases hl : Level.lower maxL 1 with
      | none => rfl
      | some m =>
        simp only []
        exact ih m _ (fun r h => hr r (revGroups_mem _ _ _ h))
    · simp only [hm, if_false]

/-- **the runs of a line inside a paragraph**: `visual_runs_for_line` on the whole level vector, for a
    non-empty line `[a,b)` inside `[s,e)`, gives the runs that it gives on the restriction of the levels to
    `[s,e)` for the line `[a-s, b-s)`, shifted by `s`; same panic behaviour -/
theorem visualRuns_shift (lv : List Nat) (s e a b : Nat) (h : s ≤ a ∧ a < b ∧ b ≤ e ∧ e ≤ lv.length) :
    visualRunsForLine lv a b
      = ((visualRunsForLine (slice lv s e) (a - s) (b - s)).1.map (shiftRun s),
         (visualRunsForLine (slice lv s e) (a - s) (b - s)).2) := by
  obtain ⟨hs, hab, hbe, he⟩ := h
  have ha : a < lv.length := by omega
  have h0 : lv[a]? = some lv[a] := List.getElem?_eq_getElem ha
  have h0' : (slice lv s e)[a - s]? = some lv[a] := by
    rw [getElem?_slice, if_pos (by omega), show s + (a - s) = a by omega, h0]
  have hsl : slice (slice lv s e) (a - s + 1) (b - s) = slice lv (a + 1) b := by
    rw [slice_slice lv s e _ _ (by omega)]; congr 1 <;> omega
  have hsl2 : slice (slice lv s e) (a - s) (b - s) = slice lv a b := slice_slice_sub lv s e a b hs (by omega) hbe
  have hruns : findRuns a lv[a] (a + 1) b (slice lv (a + 1) b)
      = (findRuns (a - s) lv[a] (a - s + 1) (b - s) (slice lv (a + 1) b)).map (shiftRun s) := by
    rw [← findRuns_shift]
    congr 1 <;> omega
  have hb : ∀ r ∈ findRuns (a - s) lv[a] (a - s + 1) (b - s) (slice lv (a + 1) b), s + r.1 < e := by
    intro r hr
    have := (findRuns_bounds _ _ _ _ _ r hr).1
    rw [length_slice_of_le _ _ _ (by omega)] at this
    omega
  unfold visualRunsForLine
  rw [h0, h0']
  simp only [hsl, hsl2]
  cases hm : Level.newLowestGeRtl ((slice lv a b).foldl min lv[a]) with
  | none => simp only [hruns]
  | some m =>
    simp only [hruns]
    exact l2RunsLoop_shift lv s e m _ _ _ hb

/-- every run returned for a non-empty line `[a,b)` starts in `[a,b)` and stops in `(a,b]` -/
theorem visualRuns_bounds (lv : List Nat) (a b : Nat) (hab : a < b) (hb : b ≤ lv.length) :
    ∀ r ∈ (visualRunsForLine lv a b).1, a ≤ r.1 ∧ r.1 < b ∧ a < r.2 ∧ r.2 ≤ b := by
  have ha : a < lv.length := by omega
  have h0 : lv[a]? = some lv[a] := List.getElem?_eq_getElem ha
  have key : ∀ r ∈ findRuns a lv[a] (a + 1) b (slice lv (a + 1) b), a ≤ r.1 ∧ r.1 < b ∧ a < r.2 ∧ r.2 ≤ b := by
    intro r hr
    have := findRuns_bounds _ _ _ _ _ r hr
    rw [length_slice_of_le _ _ _ hb] at this
    omega
  intro r hr
  unfold visualRunsForLine at hr
  rw [h0] at hr
  simp only [] at hr
  split at hr
  · exact key r hr
  · exact key r (l2RunsLoop_mem _ _ _ _ _ r hr)

end UBidi.Lemmas.C10Lines
