/-
  UBidi.Lemmas.CheckedOob — the checked copies of `UBidi/Lemmas/CheckedDefs.lean` raise no
  out-of-bounds flag under the invariants the pipeline establishes: part 1, the primitives, the array
  helpers and `resolve_weak`.  Lemmas only.
-/
import UBidi.Lemmas.CheckedVal
import UBidi.Lemmas.C01Base
import UBidi.Lemmas.ExpandPipelineSeqs
namespace UBidi.Checked
open UBidi UBidi.BidiClass UBidi.Props.C01.Base UBidi.Expand

/-! ### the primitives raise no flag inside the bounds -/

theorem rd_oob {α : Type} {xs : List α} {i : Nat} (d : α) (h : i < xs.length) : (rd xs i d).oob = false := by
  simp only [rd, decide_eq_false_iff_not]; omega
theorem rdOpt_oob {α : Type} {xs : List α} {i : Nat} (h : i < xs.length) : (rdOpt xs i).oob = false := by
  simp only [rdOpt, decide_eq_false_iff_not]; omega
theorem wr_oob {α : Type} {xs : List α} {i : Nat} (v : α) (h : i < xs.length) : (wr xs i v).oob = false := by
  simp only [wr, decide_eq_false_iff_not]; omega
theorem slc_oob {len x y : Nat} (h1 : x ≤ y) (h2 : y ≤ len) : (slc len x y).oob = false := by
  simp [slc, h1, h2]
theorem sliceC_oob {α : Type} {xs : List α} {x y : Nat} (h1 : x ≤ y) (h2 : y ≤ xs.length) :
    (sliceC xs x y).oob = false := by
  simp [sliceC, h1, h2]
theorem takeC_oob {α : Type} {xs : List α} {k : Nat} (h : k ≤ xs.length) : (takeC xs k).oob = false := by
  simp only [takeC, decide_eq_false_iff_not]; omega
theorem dropC_oob {α : Type} {xs : List α} {k : Nat} (h : k ≤ xs.length) : (dropC xs k).oob = false := by
  simp only [dropC, decide_eq_false_iff_not]; omega
theorem dec1_oob {i : Nat} (h : 0 < i) : (dec1 i).oob = false := by
  simp only [dec1, decide_eq_false_iff_not]; omega

theorem oob_bind_false {α β : Type} {x : Chk α} {f : α → Chk β} (h1 : x.oob = false)
    (h2 : (f x.val).oob = false) : (x >>= f).oob = false := by
  rw [oob_bind, h1, h2]; rfl

/-- a checked loop raises no flag if its body raises none on every state satisfying an invariant
    that the body preserves -/
theorem foldlC_oob {σ β : Type} (f : σ → β → Chk σ) (Inv : σ → Prop) :
    ∀ (xs : List β) (s : σ), Inv s →
      (∀ s, Inv s → ∀ x ∈ xs, (f s x).oob = false ∧ Inv (f s x).val) →
      (foldlC f s xs).oob = false ∧ Inv (foldlC f s xs).val
  | [], s, hs, _ => ⟨rfl, hs⟩
  | x :: xs, s, hs, h => by
    obtain ⟨h1, h2⟩ := h s hs x (by simp)
    obtain ⟨h3, h4⟩ := foldlC_oob f Inv xs (f s x).val h2 (fun s' hs' y hy => h s' hs' y (by simp [hy]))
    simp only [foldlC, oob_bind, val_bind, h1, h3, Bool.or_self]
    exact ⟨trivial, h4⟩

/-! ### the array helpers -/

theorem wrAll_oob (v : BidiClass) : ∀ (idxs : List Nat) (pcs : Classes), (∀ j ∈ idxs, j < pcs.length) →
    (wrAll pcs idxs v).oob = false := by
  intro idxs pcs h
  exact (foldlC_oob (fun p j => wr p j v) (fun p => p.length = pcs.length) idxs pcs rfl
    (fun s hs x hx => ⟨wr_oob v (by rw [hs]; exact h x hx), by simp [hs]⟩)).1

theorem wrWhileBN_oob (v : BidiClass) : ∀ (it : List Nat) (pcs : Classes), (∀ j ∈ it, j < pcs.length) →
    (wrWhileBN v pcs it).oob = false
  | [], _, _ => rfl
  | idx :: rest, pcs, h => by
    have hi : idx < pcs.length := h idx (by simp)
    simp only [wrWhileBN, oob_bind, rd_oob ON hi, Bool.false_or]
    simp only [apply_ite Chk.oob, oob_pure, oob_bind, wr_oob v hi, Bool.false_or, wr_val]
    split
    · rfl
    · exact wrWhileBN_oob v rest _ (by simpa using fun j hj => h j (by simp [hj]))

theorem wrWhileNsmOrBN_oob (ocs : Classes) (v : BidiClass) : ∀ (it : List Nat) (pcs : Classes),
    (∀ j ∈ it, j < ocs.length) → (∀ j ∈ it, j < pcs.length) → (wrWhileNsmOrBN ocs v pcs it).oob = false
  | [], _, _, _ => rfl
  | idx :: rest, pcs, ho, h => by
    have hi : idx < pcs.length := h idx (by simp)
    have hio : idx < ocs.length := ho idx (by simp)
    have ho' : ∀ j ∈ rest, j < ocs.length := fun j hj => ho j (by simp [hj])
    have h' : ∀ j ∈ rest, j < pcs.length := fun j hj => h j (by simp [hj])
    simp only [wrWhileNsmOrBN, oob_bind, rd_oob ON hio, Bool.false_or]
    simp only [apply_ite Chk.oob, oob_pure, oob_bind, wr_oob v hi, Bool.false_or, wr_val]
    split
    · exact wrWhileNsmOrBN_oob ocs v rest _ ho' (by simpa using h')
    · split
      · exact wrWhileNsmOrBN_oob ocs v rest _ ho' h'
      · rfl

theorem wrRangeLoop_oob {α : Type} (i : Nat) (v : α) : ∀ (n : Nat) (xs : List α), i + n ≤ xs.length →
    (wrRangeLoop i v xs n).oob = false
  | 0, _, _ => rfl
  | n + 1, xs, h => by
    simp only [wrRangeLoop, oob_bind, wr_val, wr_oob v (show i + n < xs.length by omega), Bool.false_or]
    exact wrRangeLoop_oob i v n _ (by simp; omega)

theorem wrRange_oob {α : Type} (xs : List α) (i n : Nat) (v : α) (h : i + n ≤ xs.length) :
    (wrRange xs i n v).oob = false := by
  simp only [wrRange, oob_bind, slc_oob (Nat.le_add_right i n) h, Bool.false_or]
  exact wrRangeLoop_oob i v n xs h

theorem findRd_oob (pcs : Classes) (p : BidiClass → Bool) : ∀ (it : List Nat), (∀ j ∈ it, j < pcs.length) →
    (findRd pcs p it).oob = false
  | [], _ => rfl
  | j :: rest, h => by
    simp only [findRd, oob_bind, rd_oob ON (h j (by simp)), Bool.false_or]
    simp only [apply_ite Chk.oob, oob_pure]
    split
    · rfl
    · exact findRd_oob pcs p rest (fun k hk => h k (by simp [hk]))

theorem findIdxRd_oob (ocs : Classes) (p : BidiClass → Bool) : ∀ (it : List Nat), (∀ j ∈ it, j < ocs.length) →
    (findIdxRd ocs p it).oob = false
  | [], _ => rfl
  | j :: rest, h => by
    simp only [findIdxRd, oob_bind, rd_oob ON (h j (by simp)), Bool.false_or]
    simp only [apply_ite Chk.oob, oob_pure]
    split
    · rfl
    · exact findIdxRd_oob ocs p rest (fun k hk => h k (by simp [hk]))

theorem iterForwardsFromC_oob (s : IRSeq) (pos runIdx : Nat) (h : runIdx < s.runs.length) :
    (iterForwardsFromC s pos runIdx).oob = false := by
  simp only [iterForwardsFromC, oob_bind, dropC_oob (Nat.le_of_lt h), Bool.false_or, dropC_val]
  cases hd : s.runs.drop runIdx with
  | nil => simp at hd; omega
  | cons r rest => rfl

theorem iterBackwardsFromC_oob (s : IRSeq) (pos runIdx : Nat) (h : runIdx < s.runs.length) :
    (iterBackwardsFromC s pos runIdx).oob = false := by
  simp only [iterBackwardsFromC, oob_bind, takeC_oob (Nat.le_of_lt h), rdOpt_oob h, Bool.false_or, rdOpt_val]
  split <;> rfl

/-! ### `resolve_weak` -/

/-- what the loop of `resolve_weak` maintains: the array keeps its length, the remembered ET / BN
    positions are positions of the array -/
structure WInv (n : Nat) (st : WState) : Prop where
  len : st.pcs.length = n
  et : ∀ j ∈ st.etRun, j < n
  bn : ∀ j ∈ st.bnRun, j < n

theorem weakSepM_shape (seq : IRSeq) (p4 c2 : BidiClass) (lastAL : Bool) (etRun : List Nat) (pcs : Classes)
    (i charLen runIdx : Nat) :
    (weakSepM seq p4 c2 lastAL etRun pcs i charLen runIdx).1.length = pcs.length ∧
    (weakSepM seq p4 c2 lastAL etRun pcs i charLen runIdx).2 = etRun := by
  simp only [weakSepM]
  split <;> simp

theorem weakW456M_shape (f : Nat → Option Nat) (seq : IRSeq) (st : WState) (c2 : BidiClass)
    (lastAL : Bool) (pcs : Classes) (i runIdx n : Nat) (hst : WInv n st) (hi : i < n) :
    (weakW456M f seq st c2 lastAL pcs i runIdx).1.length = pcs.length ∧
    ∀ j ∈ (weakW456M f seq st c2 lastAL pcs i runIdx).2, j < n := by
  have het := hst.et
  have hbn := hst.bn
  have hsep := fun cl => weakSepM_shape seq st.prevW4 c2 lastAL st.etRun pcs i cl runIdx
  unfold weakW456M
  cases c2 <;> simp only [setAll_length, true_and] <;> try exact het
  · cases f i with
    | none => simpa using het
    | some cl => simp only [hsep cl, true_and]; exact het
  · simp
  · cases f i with
    | none => simpa using het
    | some cl => simp only [hsep cl, true_and]; exact het
  · cases st.prevW5 <;> simp only [List.length_set, true_and] <;> try exact het
    all_goals
      intro j hj
      simp only [List.mem_append, List.mem_singleton] at hj
      rcases hj with (hj | hj) | hj
      · exact het j hj
      · exact hbn j hj
      · omega

theorem weakTailM_inv (cb p1 : BidiClass) (lastAL : Bool) (i n : Nat) (pe : Classes × List Nat)
    (hl : pe.1.length = n) (he : ∀ j ∈ pe.2, j < n) : WInv n (weakTailM cb p1 lastAL i pe) := by
  simp only [weakTailM]
  split
  · exact ⟨by simp [hl], by simp, by simp⟩
  · exact ⟨hl, he, by simp⟩

theorem weakStep_inv (f : Nat → Option Nat) (seq : IRSeq) (st : WState) (ri : Nat × Nat) (n : Nat)
    (hst : WInv n st) (hi : ri.2 < n) : WInv n (weakStep f seq st ri) := by
  rw [weakStep_eq]
  split
  · refine ⟨hst.len, hst.et, ?_⟩
    intro j hj
    simp only [List.mem_append, List.mem_singleton] at hj
    rcases hj with hj | hj
    · exact hst.bn j hj
    · omega
  · simp only [weakBodyM]
    refine weakTailM_inv _ _ _ _ _ _ ?_ ?_
    · rw [(weakW456M_shape f seq st _ _ _ ri.2 ri.1 n hst hi).1]; simp [hst.len]
    · exact (weakW456M_shape f seq st _ _ _ ri.2 ri.1 n hst hi).2


theorem weakSepC_oob (seq : IRSeq) (p4 c2 : BidiClass) (lastAL : Bool) (etRun : List Nat) (pcs : Classes)
    (i charLen runIdx n : Nat) (hs : SeqOKN n seq) (hl : pcs.length = n) (hi : i < n)
    (hk : runIdx < seq.runs.length) :
    (weakSepC seq p4 c2 lastAL etRun pcs i charLen runIdx).oob = false := by
  have hF : ∀ c, ∀ j ∈ seq.iterForwardsFrom c runIdx, j < n := fun c => Neutral.iterForwards_lt hs c runIdx
  have hB : ∀ j ∈ seq.iterBackwardsFrom i runIdx, j < n := Neutral.iterBackwards_lt hs i runIdx (Nat.le_of_lt hi)
  have e1 := iterForwardsFromC_oob seq (i + charLen) runIdx hk
  have e2 := findRd_oob pcs notRemoved (seq.iterForwardsFrom (i + charLen) runIdx) (by rw [hl]; exact hF _)
  have e3 : ∀ c, (wr pcs i c).oob = false := fun c => wr_oob c (by omega)
  have e4 := iterBackwardsFromC_oob seq i runIdx hk
  have e5 : ∀ (c : BidiClass), (wrWhileBN ON (pcs.set i c) (seq.iterBackwardsFrom i runIdx)).oob = false :=
    fun c => wrWhileBN_oob ON _ _ (by simpa [hl] using hB)
  have e6 : ∀ (c : BidiClass), (wrWhileBN ON (setWhileBN (pcs.set i c) (seq.iterBackwardsFrom i runIdx) ON)
      (seq.iterForwardsFrom (i + charLen) runIdx)).oob = false :=
    fun c => wrWhileBN_oob ON _ _ (by simpa [hl] using hF _)
  simp only [weakSepC, oob_bind, iterForwardsFromC_val, findRd_val, wr_val, e1, e2, e3, Bool.false_or]
  simp only [apply_ite Chk.oob, oob_pure, oob_bind, iterBackwardsFromC_val, iterForwardsFromC_val,
    wrWhileBN_val, e1, e4, e5, e6, Bool.or_self, ite_self]

theorem weakW456C_oob (f : Nat → Option Nat) (seq : IRSeq) (st : WState) (c2 : BidiClass)
    (lastAL : Bool) (pcs : Classes) (i runIdx n : Nat) (hs : SeqOKN n seq) (hst : WInv n st)
    (hl : pcs.length = n) (hi : i < n) (hk : runIdx < seq.runs.length) (hf : f i = none → 0 < i) :
    (weakW456C f seq st c2 lastAL pcs i runIdx).oob = false := by
  have hip : i < pcs.length := by omega
  have het : ∀ j ∈ st.etRun, j < pcs.length := by rw [hl]; exact hst.et
  have hsep := fun cl => weakSepC_oob seq st.prevW4 c2 lastAL st.etRun pcs i cl runIdx n hs hl hi hk
  have hnone : f i = none → (do
       let j ← dec1 i
       let c ← rd pcs j ON
       let pcs ← wr pcs i c
       pure (pcs, st.etRun) : Chk (Classes × List Nat)).oob = false := by
    intro h0
    have := hf h0
    simp only [oob_bind, oob_pure, dec1_oob this, dec1_val, rd_oob ON (show i - 1 < pcs.length by omega),
      wr_oob _ hip, Bool.or_self]
  unfold weakW456C
  cases c2 <;> simp only [oob_pure]
  · cases h0 : f i with
    | none => exact hnone h0
    | some cl => exact hsep cl
  · simp only [oob_bind, oob_pure, wrAll_oob EN _ _ het, Bool.or_self]
  · cases h0 : f i with
    | none => exact hnone h0
    | some cl => exact hsep cl
  · cases st.prevW5 <;> simp only [oob_pure, oob_bind, wr_oob _ hip, Bool.or_self]

theorem weakTailC_oob (cb p1 : BidiClass) (lastAL : Bool) (i n : Nat) (pe : Classes × List Nat)
    (hl : pe.1.length = n) (he : ∀ j ∈ pe.2, j < n) (hi : i < n) :
    (weakTailC cb p1 lastAL i pe).oob = false := by
  simp only [weakTailC, oob_bind, oob_pure, rd_oob ON (show i < pe.1.length by omega), Bool.false_or,
    Bool.or_false]
  simp only [apply_ite Chk.oob, oob_bind, oob_pure, wrAll_oob ON _ _ (by rw [hl]; exact he), Bool.or_self,
    ite_self]

theorem weakStepC_oob (f : Nat → Option Nat) (seq : IRSeq) (st : WState) (ri : Nat × Nat) (n : Nat)
    (hs : SeqOKN n seq) (hst : WInv n st) (hi : ri.2 < n) (hk : ri.1 < seq.runs.length)
    (hf : f ri.2 = none → 0 < ri.2) :
    (weakStepC f seq st ri).oob = false := by
  have hip : ri.2 < st.pcs.length := by rw [hst.len]; exact hi
  simp only [weakStepC, oob_bind, rd_oob ON hip, Bool.false_or]
  simp only [apply_ite Chk.oob, oob_pure, oob_bind, rd_oob ON hip, Bool.false_or]
  split
  · rfl
  · simp only [weakBodyC, oob_bind, wr_oob _ hip, wr_val, Bool.false_or, weakW456C_val]
    rw [weakW456C_oob f seq st _ _ _ ri.2 ri.1 n hs hst (by simp [hst.len]) hi hk hf, Bool.false_or]
    refine weakTailC_oob _ _ _ _ n _ ?_ ?_ hi
    · rw [(weakW456M_shape f seq st _ _ _ ri.2 ri.1 n hst hi).1]; simp [hst.len]
    · exact (weakW456M_shape f seq st _ _ _ ri.2 ri.1 n hst hi).2

theorem w7StepC_oob (st : Classes × Bool) (i : Nat) (h : i < st.1.length) : (w7StepC st i).oob = false := by
  simp only [w7StepC, oob_bind, rd_oob ON h, Bool.false_or, rd_val]
  cases List.getD st.1 i ON <;> simp only [oob_pure]
  cases st.2 <;> simp [oob_bind, oob_pure, wr_oob _ h]

theorem mem_indexed (seq : IRSeq) (x : Nat × Nat) (hx : x ∈ seq.indexed) :
    x.1 < seq.runs.length ∧ x.2 ∈ seq.indices := by
  simp only [IRSeq.indexed, List.mem_flatMap, List.mem_map] at hx
  obtain ⟨⟨r, k⟩, hrk, i, hi, rfl⟩ := hx
  have := List.mem_zipIdx hrk
  simp only [Nat.zero_le, Nat.zero_add, Nat.sub_zero, true_and] at this
  refine ⟨this.1, ?_⟩
  simp only [IRSeq.indices, List.mem_flatMap]
  exact ⟨r, by rw [this.2]; exact List.getElem_mem _, hi⟩

/-- **`resolve_weak` raises no index error**: the array has `n` entries, every run of the sequence
    lies in `[0, n]`, and a unit that is not a character start is not unit 0 (so `i - 1` is fine) -/
theorem resolveWeakC_oob (f : Nat → Option Nat) (seq : IRSeq) (pcs : Classes) (n : Nat)
    (hs : SeqOKN n seq) (hl : pcs.length = n) (hf : ∀ i, i < n → f i = none → 0 < i) :
    (resolveWeakC f seq pcs).oob = false := by
  have hidx : ∀ i ∈ seq.indices, i < n := Neutral.indices_lt hs
  obtain ⟨h1, h2⟩ := foldlC_oob (weakStepC f seq) (WInv n) seq.indexed
    { pcs := pcs, prevW4 := seq.sos, prevW5 := seq.sos, prevW1 := seq.sos }
    ⟨hl, by simp, by simp⟩
    (fun s hs' x hx => by
      obtain ⟨hx1, hx2⟩ := mem_indexed seq x hx
      have hx3 := hidx _ hx2
      refine ⟨weakStepC_oob f seq s x n hs hs' hx3 hx1 (hf _ hx3), ?_⟩
      rw [weakStepC_val]
      exact weakStep_inv f seq s x n hs' hx3)
  obtain ⟨h3, _⟩ := foldlC_oob w7StepC (fun st => st.1.length = n) seq.indices
    ((wrAll (foldlC (weakStepC f seq)
      { pcs := pcs, prevW4 := seq.sos, prevW5 := seq.sos, prevW1 := seq.sos } seq.indexed).val.pcs
      (foldlC (weakStepC f seq)
      { pcs := pcs, prevW4 := seq.sos, prevW5 := seq.sos, prevW1 := seq.sos } seq.indexed).val.etRun ON).val,
      seq.sos == L)
    (by simp [h2.len])
    (fun s hs' x hx => ⟨w7StepC_oob s x (by rw [hs']; exact hidx x hx), by
      rw [w7StepC_val, w7Step_length]; exact hs'⟩)
  simp only [resolveWeakC, oob_bind, oob_pure, h1, h3, wrAll_oob ON _ _ (by rw [h2.len]; exact h2.et),
    Bool.or_self]


end UBidi.Checked
