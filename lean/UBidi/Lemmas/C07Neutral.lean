/-
  C07 helpers, part 2: the bracket pairs of BD16 start and stop at character starts of the
  text, so `chars().next().unwrap()` in N0 is unreachable; `resolve_neutral` fails only on a
  sequence without runs; the loop over the sequences.
-/
import UBidi.Model.Pipeline
import UBidi.Lemmas.C07Runs
namespace UBidi.Lemmas.C07
open UBidi UBidi.BidiClass

/-- `i` is the first code unit of a character of `t` -/
def IsStart (t : Text) (i : Nat) : Prop := ∃ s ∈ t.segs, s.start = i

theorem charAt_of_isStart (t : Text) (i : Nat) (h : IsStart t i) : ∃ sg, t.charAt i = some sg := by
  obtain ⟨s, hs, rfl⟩ := h
  unfold Text.charAt
  cases hf : t.segs.find? (fun x => x.start == s.start) with
  | some sg => exact ⟨sg, rfl⟩
  | none =>
    rw [List.find?_eq_none] at hf
    have := hf s hs
    simp at this

/-! ### BD16 -/

theorem findOpening_mem (key : Nat) : ∀ (stack : List (Nat × Nat × Nat)) e rest,
    findOpening key stack = some (e, rest) → e ∈ stack ∧ ∀ y ∈ rest, y ∈ stack := by
  intro stack
  induction stack with
  | nil => intro e rest h; simp [findOpening] at h
  | cons a as ih =>
    intro e rest h
    simp only [findOpening] at h
    split at h
    · simp only [Option.some.injEq, Prod.mk.injEq] at h
      obtain ⟨rfl, rfl⟩ := h
      exact ⟨List.mem_cons_self, fun y hy => List.mem_cons_of_mem _ hy⟩
    · have := ih e rest h
      exact ⟨List.mem_cons_of_mem _ this.1, fun y hy => List.mem_cons_of_mem _ (this.2 y hy)⟩

/-- the four things one step of BD16 can do -/
theorem bpStep_cases (ds : DataSource) (ocs pcs : Classes) (st : BPState) (x : Nat × Seg) :
    bpStep ds ocs pcs st x = st ∨
    bpStep ds ocs pcs st x = { st with stopped := true } ∨
    (∃ key, bpStep ds ocs pcs st x = { st with stack := (key, x.2.start, x.1) :: st.stack }) ∨
    (∃ key e rest, findOpening key st.stack = some (e, rest) ∧
      bpStep ds ocs pcs st x =
        { st with stack := rest,
                  pairs := st.pairs ++ [{ start := e.2.1, stop := x.2.start, startRun := e.2.2, endRun := x.1 }] }) := by
  by_cases hs : st.stopped = true
  · left; simp [bpStep, hs]
  have hs1 : st.stopped = false := by simpa using hs
  by_cases hc : (cget pcs x.2.start != ON || (cget ocs x.2.start).removedByX9) = true
  · left; simp only [bpStep, hs1, Bool.false_eq_true, if_false, hc, if_true]
  cases hb : ds.brk x.2.cp with
  | none => left; simp only [bpStep, hs1, Bool.false_eq_true, if_false, hc, hb]
  | some m =>
    by_cases ho : m.isOpen = true
    · by_cases hfull : st.stack.length ≥ Gen.bracketStackLimit
      · right; left; simp only [bpStep, hs1, Bool.false_eq_true, if_false, hc, hb, ho, if_true, hfull]
      · right; right; left
        refine ⟨m.opening, ?_⟩
        simp only [bpStep, hs1, Bool.false_eq_true, if_false, hc, hb, ho, if_true, hfull]
    · cases hf : findOpening m.opening st.stack with
      | none => left; simp only [bpStep, hs1, Bool.false_eq_true, if_false, hc, hb, ho, hf]
      | some r =>
        right; right; right
        refine ⟨m.opening, r.1, r.2, hf, ?_⟩
        simp only [bpStep, hs1, Bool.false_eq_true, if_false, hc, hb, ho, hf]

/-- both ends of every pair are positions of characters that were fed to the scan -/
theorem bp_fold_ends (ds : DataSource) (ocs pcs : Classes) (Q : Nat → Prop) :
    ∀ (xs : List (Nat × Seg)) (st : BPState),
      (∀ e ∈ st.stack, Q e.2.1) → (∀ p ∈ st.pairs, Q p.start ∧ Q p.stop) →
      (∀ x ∈ xs, Q x.2.start) →
      ∀ p ∈ (xs.foldl (bpStep ds ocs pcs) st).pairs, Q p.start ∧ Q p.stop := by
  intro xs
  induction xs with
  | nil => intro st _ hp _; exact hp
  | cons x xs ih =>
    intro st hst hp hQ
    simp only [List.foldl_cons]
    have hQx := hQ x (by simp)
    have hQ' : ∀ y ∈ xs, Q y.2.start := fun y hy => hQ y (by simp [hy])
    apply ih _ _ _ hQ'
    · rcases bpStep_cases ds ocs pcs st x with h1 | h1 | ⟨key, h1⟩ | ⟨key, e, rest, hf, h1⟩ <;> rw [h1]
      · exact hst
      · exact hst
      · intro e he
        simp only [List.mem_cons] at he
        rcases he with rfl | he
        · exact hQx
        · exact hst e he
      · intro y hy; exact hst y ((findOpening_mem _ _ _ _ hf).2 y hy)
    · rcases bpStep_cases ds ocs pcs st x with h1 | h1 | ⟨key, h1⟩ | ⟨key, e, rest, hf, h1⟩ <;> rw [h1]
      · exact hp
      · exact hp
      · exact hp
      · intro p hpm
        simp only [List.mem_append, List.mem_singleton] at hpm
        rcases hpm with hpm | rfl
        · exact hp p hpm
        · exact ⟨hst e (findOpening_mem _ _ _ _ hf).1, hQx⟩

theorem mem_insertPair (p q : BracketPair) : ∀ qs : List BracketPair, q ∈ insertPair p qs ↔ q = p ∨ q ∈ qs
  | [] => by simp [insertPair]
  | a :: qs => by
    simp only [insertPair]
    split
    · simp
    · simp only [List.mem_cons, mem_insertPair p q qs]
      constructor
      · rintro (h | h | h) <;> simp [h]
      · rintro (h | h | h) <;> simp [h]

theorem mem_sortPairs (q : BracketPair) (ps : List BracketPair) : q ∈ sortPairs ps ↔ q ∈ ps := by
  have : ∀ (ps acc : List BracketPair), q ∈ ps.foldl (fun acc p => insertPair p acc) acc ↔ q ∈ ps ∨ q ∈ acc := by
    intro ps
    induction ps with
    | nil => intro acc; simp
    | cons p ps ih =>
      intro acc
      simp only [List.foldl_cons, ih, mem_insertPair, List.mem_cons]
      constructor
      · rintro (h | h | h) <;> simp [h]
      · rintro ((h | h) | h) <;> simp [h]
  simpa [sortPairs] using this ps []

theorem seqChars_mem (t : Text) (seq : IRSeq) : ∀ x ∈ seqChars t seq, x.2 ∈ t.segs := by
  intro x hx
  simp only [seqChars, List.mem_flatMap, List.mem_map, List.mem_filter] at hx
  obtain ⟨_, _, s, ⟨hs, _⟩, rfl⟩ := hx
  exact hs

/-- every bracket pair opens and closes at the first unit of a character of the text -/
theorem identifyBracketPairs_starts (ds : DataSource) (t : Text) (seq : IRSeq) (ocs pcs : Classes) :
    ∀ p ∈ identifyBracketPairs ds t seq ocs pcs, IsStart t p.start ∧ IsStart t p.stop := by
  intro p hp
  unfold identifyBracketPairs at hp
  rw [mem_sortPairs] at hp
  exact bp_fold_ends ds ocs pcs (IsStart t) (seqChars t seq) {} (by simp) (by simp)
    (fun x hx => ⟨x.2, seqChars_mem t seq x hx, rfl⟩) p hp

/-! ### N0: the `unwrap`s -/

theorem n0Pair_err (t : Text) (seq : IRSeq) (e : BidiClass) (ocs : Classes)
    (st : Classes × Option Panic) (pair : BracketPair)
    (h1 : IsStart t pair.start) (h2 : IsStart t pair.stop) :
    (n0Pair t seq e ocs st pair).2 = st.2 := by
  obtain ⟨s1, hs1⟩ := charAt_of_isStart t _ h1
  obtain ⟨s2, hs2⟩ := charAt_of_isStart t _ h2
  unfold n0Pair
  simp only [hs1, hs2]
  split <;> rfl

theorem n0_fold_err (t : Text) (seq : IRSeq) (e : BidiClass) (ocs : Classes) :
    ∀ (pairs : List BracketPair) (st : Classes × Option Panic),
      (∀ p ∈ pairs, IsStart t p.start ∧ IsStart t p.stop) →
      (pairs.foldl (n0Pair t seq e ocs) st).2 = st.2
  | [], _, _ => rfl
  | p :: ps, st, h => by
    rw [List.foldl_cons, n0_fold_err t seq e ocs ps _ (fun q hq => h q (by simp [hq])),
      n0Pair_err t seq e ocs st p (h p (by simp)).1 (h p (by simp)).2]

/-- `resolve_neutral` does not panic on a sequence that has a run: `level_runs[0]` exists and
    both `unwrap`s of N0 see a character -/
theorem resolveNeutral_err (ds : DataSource) (t : Text) (seq : IRSeq) (levels : List Nat)
    (ocs pcs : Classes) (h : seq.runs ≠ []) : (resolveNeutral ds t seq levels ocs pcs).2 = none := by
  unfold resolveNeutral
  split
  · rename_i hnil; exact absurd hnil h
  · simp only []
    exact n0_fold_err t seq _ ocs _ (pcs, none) (identifyBracketPairs_starts ds t seq ocs pcs)

theorem resolveSequences_fold_err (ds : DataSource) (t : Text) (levels : List Nat) (ocs : Classes) :
    ∀ (seqs : List IRSeq) (st : Classes × Option Panic), (∀ s ∈ seqs, s.runs ≠ []) →
      (seqs.foldl (fun (st : Classes × Option Panic) seq =>
        let pcs1 := resolveWeak (fun i => (t.charAt i).map (·.len)) seq st.1
        let (pcs2, e) := resolveNeutral ds t seq levels ocs pcs1
        (pcs2, orErr st.2 e)) st).2 = st.2
  | [], _, _ => rfl
  | s :: seqs, st, h => by
    rw [List.foldl_cons, resolveSequences_fold_err ds t levels ocs seqs _ (fun q hq => h q (by simp [hq]))]
    simp only []
    rw [resolveNeutral_err ds t s levels ocs _ (h s (by simp))]
    cases st.2 <;> rfl

/-- the loop over the isolating run sequences does not panic when every sequence has a run -/
theorem resolveSequences_err (ds : DataSource) (t : Text) (levels : List Nat) (ocs : Classes)
    (seqs : List IRSeq) (pcs : Classes) (h : ∀ s ∈ seqs, s.runs ≠ []) :
    (resolveSequences ds t levels ocs seqs pcs).2 = none :=
  resolveSequences_fold_err ds t levels ocs seqs (pcs, none) h

end UBidi.Lemmas.C07
