/-
  C06 helper lemmas, part 1: rule L2 (`Spec.l2`) on per-code-unit levels that are constant on
  every character versus `Spec.l2` on the per-character levels (`l2_expand`), and elementary
  facts on `Spec.l2` (it is a permutation; it is the identity when no level is odd).
  Characters are given as half-open ranges of code units `(start, stop)`.
-/
import UBidi.Props.C05
namespace UBidi.Lemmas.C06
open UBidi UBidi.Lemmas.C05 UBidi.Props.C05

/-! ### `Spec.l2`: permutation, identity -/

theorem revG_congr {α} (p q : α → Bool) (acc xs : List α) (h : ∀ x ∈ xs, p x = q x) :
    revG p acc xs = revG q acc xs := by
  induction xs generalizing acc with
  | nil => rfl
  | cons x xs ih =>
    have hx := h x (by simp)
    have ih' := fun acc => ih acc (fun y hy => h y (by simp [hy]))
    simp only [revG, hx, ih']

theorem foldl_revRunsGE_perm (f : Nat → Nat) (ks : List Nat) (U : List Nat) :
    (ks.foldl (fun order k => Spec.revRunsGE f k [] order) U).Perm U := by
  induction ks generalizing U with
  | nil => exact List.Perm.refl _
  | cons k ks ih =>
    rw [List.foldl_cons]
    refine (ih _).trans ?_
    rw [revRunsGE_eq]
    simpa using revG_perm (fun u => decide (f u ≥ k)) [] U

/-- rule L2 permutes the positions of the line (for every level vector) -/
theorem spec_l2_perm (lv : List Nat) : (Spec.l2 lv).Perm (List.range lv.length) := by
  unfold Spec.l2
  dsimp only
  split
  · exact List.Perm.refl _
  · exact foldl_revRunsGE_perm _ _ _

theorem spec_l2_lt (lv : List Nat) : ∀ k ∈ Spec.l2 lv, k < lv.length := by
  intro k hk
  simpa using (spec_l2_perm lv).subset hk

/-- with no odd level, rule L2 is the identity -/
theorem spec_l2_even (lv : List Nat) (h : ∀ l ∈ lv, l % 2 = 0) :
    Spec.l2 lv = List.range lv.length := by
  have : lv.filter (· % 2 == 1) = [] := by
    rw [List.filter_eq_nil_iff]
    intro l hl
    have := h l hl
    simp [this]
  unfold Spec.l2
  simp only [this]

/-- reading a list through the identity order -/
theorem map_getD_range {α} (xs : List α) (d : α) :
    (List.range xs.length).map (fun k => xs.getD k d) = xs := by
  apply List.ext_getElem?
  intro i
  by_cases hi : i < xs.length
  · simp [hi, List.getD_eq_getElem?_getD]
  · simp [hi]

/-! ### the maximum of two lists with the same entries -/

theorem foldl_max_eq (xs ys : List Nat) (h1 : ∀ x ∈ xs, x ∈ ys) (h2 : ∀ y ∈ ys, y ∈ xs) :
    xs.foldl max 0 = ys.foldl max 0 := by
  apply Nat.le_antisymm
  · rcases List.mem_cons.1 (foldl_max_mem xs 0) with h | h
    · rw [h]; exact Nat.zero_le _
    · exact (foldl_max_ge ys 0).2 _ (h1 _ h)
  · rcases List.mem_cons.1 (foldl_max_mem ys 0) with h | h
    · rw [h]; exact Nat.zero_le _
    · exact (foldl_max_ge xs 0).2 _ (h2 _ h)

/-! ### passes on positions versus passes on ranges -/

theorem pass_map (ul : Nat → Nat) (lev : Nat × Nat → Nat) (h : Nat → Nat × Nat) (ks : List Nat) :
    ∀ (U : List Nat), (∀ x ∈ U, lev (h x) = ul x) →
    (ks.foldl (fun U k => passU ul k U) U).map h = ks.foldl (fun R k => passR lev k R) (U.map h) := by
  induction ks with
  | nil => intro U _; rfl
  | cons k ks ih =>
    intro U hU
    rw [List.foldl_cons, List.foldl_cons]
    have hperm : (passU ul k U).Perm U := by
      simpa [passU] using revG_perm (fun u => decide (ul u ≥ k)) [] U
    rw [ih (passU ul k U) (fun x hx => hU x (hperm.subset hx))]
    congr 1
    unfold passU passR
    rw [revG_congr (fun u => decide (ul u ≥ k)) (fun u => decide (lev (h u) ≥ k)) [] U
      (fun x hx => by rw [hU x hx])]
    exact revG_map (fun u => decide (lev (h u) ≥ k)) (fun r => decide (lev r ≥ k)) h (fun _ => rfl) [] U

/-- the visual order of the code units of a line whose levels are constant on every character:
    the characters in their visual order, the units of a character reversed iff its level is odd -/
theorem l2_expand (C : List (Nat × Nat)) (a b : Nat) (hC : tiles a C b) (Lu lc : List Nat)
    (hLu : Lu.length = b - a) (hlc : lc.length = C.length)
    (hlev : ∀ i, i < C.length → ∀ u ∈ units (C.getD i default), Lu.getD (u - a) 0 = lc.getD i 0) :
    (Spec.l2 Lu).map (· + a)
      = (Spec.l2 lc).flatMap (fun k =>
          if lc.getD k 0 % 2 == 1 then (units (C.getD k default)).reverse else units (C.getD k default)) := by
  have hbd := (tiles_bounds _ _ _ hC).2
  have hgetD : ∀ i, i < C.length → C.getD i default ∈ C := by
    intro i hi
    simp [List.getD_eq_getElem?_getD, hi]
  -- the two level vectors have the same entries
  have hmem1 : ∀ x ∈ Lu, x ∈ lc := by
    intro x hx
    obtain ⟨j, hj, rfl⟩ := List.mem_iff_getElem.1 hx
    have hu : a + j ∈ C.flatMap units := by
      rw [tiles_units _ _ _ hC]; simp; omega
    obtain ⟨r, hr, hur⟩ := List.mem_flatMap.1 hu
    obtain ⟨i, hi, rfl⟩ := List.mem_iff_getElem.1 hr
    have := hlev i hi (a + j) (by simpa [List.getD_eq_getElem?_getD, hi] using hur)
    rw [show a + j - a = j by omega] at this
    have hi' : i < lc.length := by omega
    simp only [List.getD_eq_getElem?_getD, hj, hi', List.getElem?_eq_getElem, Option.getD_some] at this
    rw [this]
    exact List.getElem_mem _
  have hmem2 : ∀ y ∈ lc, y ∈ Lu := by
    intro y hy
    obtain ⟨i, hi, rfl⟩ := List.mem_iff_getElem.1 hy
    have hi' : i < C.length := by omega
    have hb' := hbd _ (hgetD i hi')
    have := hlev i hi' (C.getD i default).1 (by simp only [units, List.mem_range'_1]; omega)
    have hj : (C.getD i default).1 - a < Lu.length := by omega
    generalize (C.getD i default).1 - a = j at this hj
    have hy : lc.getD i 0 = lc[i] := by simp [List.getD_eq_getElem?_getD, hi]
    have hz : Lu.getD j 0 = Lu[j] := by simp [List.getD_eq_getElem?_getD, hj]
    rw [hy, hz] at this
    rw [← this]
    exact List.getElem_mem _
  have hhi : lc.foldl max 0 = Lu.foldl max 0 := foldl_max_eq lc Lu hmem2 hmem1
  generalize hhiu : Lu.foldl max 0 = hi at hhi
  -- the unit side
  have hU := spec_l2_shift Lu a 1 rfl (by omega) (fun l _ h => by omega)
  rw [hhiu, hLu, ← tiles_units _ _ _ hC] at hU
  have hinv := foldInv (unitLevel Lu a) (fun r => unitLevel Lu a r.1) hi C
    (fun r hr => by have := hbd r hr; simp [units]; omega)
    (fun r hr u hu => by
      obtain ⟨i, hi', rfl⟩ := List.mem_iff_getElem.1 hr
      have hb' := hbd _ (List.getElem_mem hi')
      have e : C.getD i default = C[i] := by simp [List.getD_eq_getElem?_getD, hi']
      have h1 := hlev i hi' u (by rw [e]; exact hu)
      have h2 := hlev i hi' C[i].1 (by rw [e]; simp only [units, List.mem_range'_1]; omega)
      simp only [unitLevel, h1, h2])
    (fun r hr => by
      have hb' := hbd r hr
      have : unitLevel Lu a r.1 = 0 ∨ unitLevel Lu a r.1 ∈ Lu := unitLevel_mem Lu a r.1
      rcases this with h | h
      · omega
      · have := (foldl_max_ge Lu 0).2 _ h; omega)
    hi (by omega)
  obtain ⟨_, heq⟩ := hinv
  rw [show hi + 1 - 1 = hi by omega] at hU
  rw [hU, heq, show hi + 1 - hi = 1 by omega]
  -- the character side
  have hK := spec_l2_shift lc 0 1 rfl (by omega) (fun l _ h => by omega)
  rw [hhi, show hi + 1 - 1 = hi by omega] at hK
  have hid : (Spec.l2 lc).map (· + 0) = Spec.l2 lc := by simp
  rw [hid] at hK
  have hlevk : ∀ k, k < C.length → unitLevel Lu a (C.getD k default).1 = lc.getD k 0 := by
    intro k hk
    have hb' := hbd _ (hgetD k hk)
    exact hlev k hk _ (by simp only [units, List.mem_range'_1]; omega)
  have hmap : (Spec.l2 lc).map (fun k => C.getD k default)
      = (List.range hi).foldl (fun R d => passR (fun r => unitLevel Lu a r.1) (hi - d) R) C := by
    rw [hK]
    have e1 : ∀ (U0 : List Nat), (List.range hi).foldl (fun U d => passU (unitLevel lc 0) (hi - d) U) U0
        = ((List.range hi).map (fun d => hi - d)).foldl (fun U k => passU (unitLevel lc 0) k U) U0 := by
      intro U0; rw [List.foldl_map]
    have e2 : ∀ (R0 : List (Nat × Nat)),
        (List.range hi).foldl (fun R d => passR (fun r => unitLevel Lu a r.1) (hi - d) R) R0
        = ((List.range hi).map (fun d => hi - d)).foldl
            (fun R k => passR (fun r => unitLevel Lu a r.1) k R) R0 := by
      intro R0; rw [List.foldl_map]
    rw [e1, e2, pass_map (unitLevel lc 0) (fun r => unitLevel Lu a r.1) (fun k => C.getD k default)]
    · congr 1
      rw [← List.range_eq_range', hlc]
      exact map_getD_range C default
    · intro x hx
      have hx' : x < C.length := by
        simp only [List.mem_range'_1] at hx; omega
      show unitLevel Lu a (C.getD x default).1 = unitLevel lc 0 x
      rw [hlevk x hx']
      simp only [unitLevel, Nat.sub_zero]
  rw [← hmap, List.flatMap_map]
  apply flatMap_congr'
  intro k hk
  have hk' : k < C.length := by have := spec_l2_lt lc k hk; omega
  have hfl : flag (fun r => unitLevel Lu a r.1) 1 (C.getD k default) = (lc.getD k 0 % 2 == 1) := by
    unfold flag
    simp only [hlevk k hk']
    exact flag_parity 1 _ rfl (fun h => by omega)
  unfold render
  rw [hfl]

end UBidi.Lemmas.C06
