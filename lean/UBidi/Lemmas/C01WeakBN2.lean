/-
  UBidi.Lemmas.C01WeakBN2 — StageW layer 2, part 2: the five cases of one loop
  iteration, the induction, W7, and the theorem `stageW_bn`.

  NOTE on the statement.  The requested middle conjunct "every BN position ends
  as BN, ON or EN" is false: a BN inside an ET run that becomes EN is EN after
  the forward pass, and the W7 pass then turns it into L like any other EN, e.g.
    resolveWeak (fun _ => some 1) {runs := [(0,3)], sos := L, eos := L} [BN, ET, EN] = [L, L, L].
  The theorem below says "BN, ON, EN or L".  The hypothesis on the input is
  "BN or not removed by X9" (LRE, RLE, LRO, RLO, PDF never reach `resolve_weak`,
  and `stageW_simple`'s counterexample shows they must be excluded).
-/
import UBidi.Lemmas.C01WeakBN
namespace UBidi.Lemmas.C01Weak
open UBidi UBidi.Spec BidiClass

theorem range'_three (o p b : Nat) :
    List.range' o p ++ List.range' (o + p) b ++ [o + p + b] = List.range' o (p + b + 1) := by
  rw [List.range'_append_1, List.range'_1_concat, Nat.add_assoc]

theorem bnPre_split (v : BidiClass) (cs : List BidiClass) :
    ∃ j cs', cs = List.replicate j BN ++ cs' ∧ bnPre v cs = List.replicate j v ++ cs' := by
  induction cs with
  | nil => exact ⟨0, [], rfl, rfl⟩
  | cons c cs ih =>
    by_cases hc : c = BN
    · subst hc
      obtain ⟨j, cs', h1, h2⟩ := ih
      refine ⟨j + 1, cs', ?_, ?_⟩
      · rw [List.replicate_succ, List.cons_append, ← h1]
      · simp [bnPre, h2, List.replicate_succ]
    · exact ⟨0, c :: cs, rfl, by simp [bnPre, hc]⟩

theorem sC3_ne_ET (p4 c2 nx : BidiClass) : sC3 p4 c2 nx ≠ ET := by
  unfold sC3; split <;> decide

theorem sC3_ET_prev (c2 nx : BidiClass) : sC3 ET c2 nx = ON := rfl

section cases
variable (n : Nat) (sos eos : BidiClass) (he : eos = L ∨ eos = R) (m : Nat) (ih : IH n sos eos m)
  (st : WState) (out P : List BidiClass) (b : Nat) (c : BidiClass) (cs : List BidiClass)
  (hinv : Inv n st out P b (c :: cs)) (hm : cs.length ≤ m)

theorem Inv.hpA {n : Nat} {st : WState} {out P : List BidiClass} {b : Nat} {c : BidiClass} {cs : List BidiClass}
    (hinv : Inv n st out P b (c :: cs)) : st.pcs = (out ++ P ++ List.replicate b BN) ++ c :: cs := hinv.hp

theorem lenA (out P : List BidiClass) (b : Nat) : (out ++ P ++ List.replicate b BN).length = out.length + P.length + b := by
  simp; omega

theorem setAll_P (out P X : List BidiClass) (v : BidiClass) :
    setAll (out ++ P ++ X) (List.range' out.length P.length) v = out ++ List.replicate P.length v ++ X :=
  setAll_range v out P X

theorem Inv.hcs_tail {n : Nat} {st : WState} {out P : List BidiClass} {b : Nat} {c : BidiClass} {cs : List BidiClass}
    (hinv : Inv n st out P b (c :: cs)) : ∀ x ∈ cs, okCls x = true := fun x hx => hinv.hcs x (by simp [hx])

include ih hinv hm in
theorem case_BN (hc : c = BN) :
    Concl (finalOf (runFrom n sos eos st (out.length + P.length + b) ((c :: cs).length))) st out P b (c :: cs) := by
  subst hc
  have hstep := weakStep_BN n sos eos st _ cs hinv.hpA
  rw [lenA] at hstep
  simp only [List.length_cons]
  rw [finalOf_runFrom_cons, hstep]
  have hinv1 : Inv n { st with bnRun := st.bnRun ++ [out.length + P.length + b] } out P (b + 1) cs := by
    refine ⟨?_, ?_, hinv.het, ?_, hinv.hnt, hinv.hp1, hinv.hk, hinv.hcs_tail⟩
    · show st.pcs = _
      rw [hinv.hp]; simp [List.replicate_succ']
    · have := hinv.hn; simp only [List.length_cons] at this; omega
    · show st.bnRun ++ _ = _
      rw [hinv.hbr, List.range'_concat]; simp
  have := ih cs hm _ out P (b + 1) hinv1
  rw [show out.length + P.length + (b + 1) = out.length + P.length + b + 1 by omega] at this
  obtain ⟨bns2, res2, hfin, hb2, hok2, hmatch⟩ := this
  refine ⟨bns2.take b, bns2.drop b ++ res2, ?_, by simp [hb2], fun x hx => hok2 x (List.mem_of_mem_take hx), ?_⟩
  · rw [hfin, fl_cons_BN]
    show _ = out ++ List.replicate P.length (etVal (LA st.prevW1 st.lastStrongIsAL st.prevW4 (fl cs))) ++ _ ++ _
    simp only [List.append_assoc]
    rw [← List.append_assoc (List.take b bns2), List.take_append_drop]
  · rw [fl_cons_BN]
    obtain ⟨x, hx⟩ : ∃ x, bns2.drop b = [x] := by
      have : (bns2.drop b).length = 1 := by simp [hb2]
      exact List.length_eq_one_iff.mp this
    rw [hx]
    simp only [List.cons_append, List.nil_append]
    rw [Match_cons_BN]
    refine ⟨hok2 x ?_, hmatch⟩
    have : x ∈ bns2.drop b := by rw [hx]; simp
    exact List.mem_of_mem_drop this


theorem Inv.nextR_eq {n : Nat} {st : WState} {out P : List BidiClass} {b : Nat} {c : BidiClass} {cs : List BidiClass}
    (hinv : Inv n st out P b (c :: cs)) (eos : BidiClass) (al' : Bool) :
    nextR al' eos cs = nextCls al' eos (fl cs) := by
  rw [nextR, filter_notRemoved_ok cs hinv.hcs_tail]

include he ih hinv hm in
theorem case_EN (hc : c ≠ BN) (h2 : sC2 st.lastStrongIsAL (sC1 st.prevW1 c) = EN) :
    Concl (finalOf (runFrom n sos eos st (out.length + P.length + b) ((c :: cs).length))) st out P b (c :: cs) := by
  apply finish n sos eos he m ih st out P b c cs hinv hm hc _ _ EN _ rfl rfl h2 (by rfl) (by decide) 0 cs (by simp)
    (List.replicate b BN) (by simp) (by intro x hx; rw [List.mem_replicate] at hx; rw [hx.2]; rfl) _ (Or.inl rfl)
  have hstep := weakStep_nonBN n sos eos st _ c cs hinv.hpA hc
  rw [h2, stepW456_EN n sos eos st _ c cs hinv.hpA, hinv.het, List.append_assoc (out ++ P), setAll_P, lenA,
    ← List.append_assoc, stepFin_cons _ _ (by simp; omega)] at hstep
  rw [hstep]
  simp [setAll, etVal]

include he ih hinv hm in
theorem case_other (hc : c ≠ BN)
    (h : sC2 st.lastStrongIsAL (sC1 st.prevW1 c) ≠ EN ∧ sC2 st.lastStrongIsAL (sC1 st.prevW1 c) ≠ ES ∧
      sC2 st.lastStrongIsAL (sC1 st.prevW1 c) ≠ CS ∧ sC2 st.lastStrongIsAL (sC1 st.prevW1 c) ≠ ET) :
    Concl (finalOf (runFrom n sos eos st (out.length + P.length + b) ((c :: cs).length))) st out P b (c :: cs) := by
  generalize hc2 : sC2 st.lastStrongIsAL (sC1 st.prevW1 c) = c2 at h
  have hm5 : ∀ nx, sM5 st.prevW4 st.prevW5 c2 nx = c2 := by
    intro nx; cases c2 <;> simp_all [sM5]
  apply finish n sos eos he m ih st out P b c cs hinv hm hc _ c2 c2 _ rfl rfl hc2 (hm5 _) h.2.2.2 0 cs (by simp)
    (List.replicate b BN) (by simp) (by intro x hx; rw [List.mem_replicate] at hx; rw [hx.2]; rfl) _ (Or.inl rfl)
  have hstep := weakStep_nonBN n sos eos st _ c cs hinv.hpA hc
  rw [hc2, stepW456_other n sos eos st _ c cs hinv.hpA _ c2 h, lenA, stepFin_cons _ _ (lenA ..), if_neg h.2.2.2,
    hinv.het, List.append_assoc (out ++ P), setAll_P] at hstep
  rw [hstep]
  have : (c2 == EN) = false := by simp [h.1]
  simp [this, etVal]


include he ih hinv hm in
theorem case_ET_EN (hc : c ≠ BN) (h2 : sC2 st.lastStrongIsAL (sC1 st.prevW1 c) = ET) (h5 : st.prevW5 = EN) :
    Concl (finalOf (runFrom n sos eos st (out.length + P.length + b) ((c :: cs).length))) st out P b (c :: cs) := by
  have hP : P = [] := by
    by_cases hP : P = []
    · exact hP
    · have := (hinv.hk hP).2; rw [this] at h5; cases h5
  subst hP
  have hm5 : ∀ nx, sM5 st.prevW4 st.prevW5 ET nx = EN := by intro nx; simp [sM5, h5]
  apply finish n sos eos he m ih st out [] b c cs hinv hm hc _ ET EN _ rfl rfl h2 (hm5 _) (by decide) 0 cs (by simp)
    (List.replicate b BN) (by simp) (by intro x hx; rw [List.mem_replicate] at hx; rw [hx.2]; rfl) _ (Or.inl rfl)
  have hstep := weakStep_nonBN n sos eos st _ c cs hinv.hpA hc
  rw [h2, stepW456_ET_EN n sos eos st _ c cs hinv.hpA _ h5, lenA, stepFin_cons _ _ (lenA ..), if_neg (by decide),
    hinv.het] at hstep
  rw [hstep]
  simp [setAll]

include he ih hinv hm in
theorem case_ET_pend (hc : c ≠ BN) (h2 : sC2 st.lastStrongIsAL (sC1 st.prevW1 c) = ET) (h5 : st.prevW5 ≠ EN) :
    Concl (finalOf (runFrom n sos eos st (out.length + P.length + b) ((c :: cs).length))) st out P b (c :: cs) := by
  have hstep := weakStep_nonBN n sos eos st _ c cs hinv.hpA hc
  rw [h2, stepW456_ET_pend n sos eos st _ c cs hinv.hpA _ h5, lenA, stepFin_cons _ _ (lenA ..), if_pos rfl,
    hinv.het, hinv.hbr] at hstep
  simp only [List.length_cons]
  rw [finalOf_runFrom_cons, hstep]
  generalize hc1 : sC1 st.prevW1 c = c1 at h2 ⊢
  generalize hal : sAL st.lastStrongIsAL c1 = al'
  have hc1ne : c1 ≠ BN := by rw [← hc1]; exact sC1_ne_BN hinv.hp1 hc
  have hinv1 : Inv n
      { pcs := out ++ P ++ List.replicate b BN ++ ET :: cs, prevW4 := ET, prevW5 := ET, prevW1 := c1,
        lastStrongIsAL := al',
        etRun := List.range' out.length P.length ++ List.range' (out.length + P.length) b ++ [out.length + P.length + b],
        bnRun := [] }
      out (P ++ List.replicate b BN ++ [ET]) 0 cs := by
    refine ⟨by simp, ?_, ?_, by simp, ?_, hc1ne, fun _ => ⟨rfl, rfl⟩, hinv.hcs_tail⟩
    · have := hinv.hn; simp only [List.length_cons] at this; simp; omega
    · show _ ++ _ ++ _ = _
      simp only [List.length_append, List.length_replicate, List.length_cons, List.length_nil]
      exact range'_three _ _ _
    · rw [← List.append_assoc, ← List.append_assoc]; exact noTrailBN_concat _ ET (by decide)
  have := ih cs hm _ out _ 0 hinv1
  rw [show out.length + (P ++ List.replicate b BN ++ [ET]).length + 0 = out.length + P.length + b + 1 by
    simp; omega] at this
  obtain ⟨bns2, res2, hfin, hb2, _, hmatch⟩ := this
  have hb2' : bns2 = [] := List.eq_nil_of_length_eq_zero hb2
  subst hb2'
  simp only [] at hfin hmatch
  have hfl : fl (c :: cs) = c :: fl cs := fl_cons_ne c hc cs
  have hm5 : ∀ nx, sM5 st.prevW4 st.prevW5 ET nx = ET := by intro nx; simp [sM5, h5]
  refine ⟨List.replicate b (etVal (LA c1 al' ET (fl cs))), etVal (LA c1 al' ET (fl cs)) :: res2, ?_, by simp,
    by intro x hx; rw [List.mem_replicate] at hx; rw [hx.2]; exact okBN_etVal _, ?_⟩
  · rw [hfin, hfl, LA_cons eos he _ _ _ st.prevW5, hc1, hal, h2]
    simp only [List.length_append, List.length_replicate, List.length_cons, List.length_nil, List.append_nil,
      beq_self_eq_true, if_true]
    rw [show P.length + b + (0 + 1) = P.length + b + 1 by omega, List.replicate_succ',
      ← List.replicate_append_replicate]
    simp
  · rw [hfl, W_cons eos he, hc1, hal, h2, hm5, Match_cons_ne _ _ hc]
    exact ⟨by simp [sOut], hmatch⟩


include he ih hinv hm in
theorem case_sep (hc : c ≠ BN)
    (h2 : sC2 st.lastStrongIsAL (sC1 st.prevW1 c) = ES ∨ sC2 st.lastStrongIsAL (sC1 st.prevW1 c) = CS) :
    Concl (finalOf (runFrom n sos eos st (out.length + P.length + b) ((c :: cs).length))) st out P b (c :: cs) := by
  have h12 := sC2_sep h2
  have hstep := weakStep_nonBN n sos eos st _ c cs hinv.hpA hc
  have hn' : n = (out ++ P ++ List.replicate b BN).length + 1 + cs.length := by
    have := hinv.hn; simp only [List.length_cons] at this; rw [lenA]; omega
  rw [stepW456_sep n sos eos st _ c cs hinv.hpA hn' _ _ h2, hinv.nextR_eq] at hstep
  generalize hc1 : sC1 st.prevW1 c = c1 at h2 h12 hstep ⊢
  generalize hal : sAL st.lastStrongIsAL c1 = al' at hstep
  generalize hc2 : sC2 st.lastStrongIsAL c1 = c2 at h2 h12 hstep
  have hm5 : sM5 st.prevW4 st.prevW5 c2 (nextCls al' eos (fl cs)) = sC3 st.prevW4 c2 (nextCls al' eos (fl cs)) := by
    rcases h2 with rfl | rfl <;> rfl
  generalize hc3 : sC3 st.prevW4 c2 (nextCls al' eos (fl cs)) = c3 at hm5 hstep
  have hc3ET : c3 ≠ ET := by rw [← hc3]; exact sC3_ne_ET _ _ _
  by_cases h3 : c3 = ON
  · subst h3
    obtain ⟨j, cs', hcs, hpre⟩ := bnPre_split ON cs
    rw [if_pos rfl, bnSuf_trail ON _ b hinv.hnt, hpre, lenA, stepFin_cons _ _ (by simp; omega), if_neg (by decide),
      hinv.het, List.append_assoc (out ++ P), setAll_P] at hstep
    apply finish n sos eos he m ih st out P b c cs hinv hm hc c1 c2 ON al' hc1 hal hc2 hm5 (by decide) j cs' hcs
      (List.replicate b ON) (by simp) (by intro x hx; rw [List.mem_replicate] at hx; rw [hx.2]; rfl) _
      (Or.inr ⟨h12.symm, h2, rfl⟩)
    rw [hstep]
    simp only [List.append_assoc]
    rfl
  · have hP : P = [] := by
      by_cases hP : P = []
      · exact hP
      · exfalso; apply h3; rw [← hc3, (hinv.hk hP).1]; rfl
    subst hP
    rw [if_neg h3, lenA, stepFin_cons _ _ (lenA ..), if_neg hc3ET, hinv.het] at hstep
    apply finish n sos eos he m ih st out [] b c cs hinv hm hc c1 c2 c3 al' hc1 hal hc2 hm5 hc3ET 0 cs (by simp)
      (List.replicate b BN) (by simp) (by intro x hx; rw [List.mem_replicate] at hx; rw [hx.2]; rfl) _ (Or.inl rfl)
    rw [hstep]
    simp [setAll]

end cases


theorem base_nil (n : Nat) (sos eos : BidiClass) (st : WState) (out P : List BidiClass) (b : Nat)
    (hinv : Inv n st out P b []) :
    Concl (finalOf (runFrom n sos eos st (out.length + P.length + b) ([] : List BidiClass).length)) st out P b [] := by
  refine ⟨List.replicate b BN, [], ?_, by simp, by intro x hx; rw [List.mem_replicate] at hx; rw [hx.2]; rfl, ?_⟩
  · simp only [List.length_nil, runFrom_zero, finalOf]
    rw [hinv.hp, hinv.het, List.append_nil, setAll_P]
    simp [fl, LA_nil, etVal]
  · simp [fl, W_nil, Match]

theorem main_bn (n : Nat) (sos eos : BidiClass) (he : eos = L ∨ eos = R) : ∀ m, IH n sos eos m := by
  intro m
  induction m with
  | zero =>
    intro cs hcs st out P b hinv
    have : cs = [] := List.eq_nil_of_length_eq_zero (by omega)
    subst this
    exact base_nil n sos eos st out P b hinv
  | succ m ih =>
    intro cs hcs st out P b hinv
    cases cs with
    | nil => exact base_nil n sos eos st out P b hinv
    | cons c cs =>
      have hm : cs.length ≤ m := by simp only [List.length_cons] at hcs; omega
      by_cases hc : c = BN
      · exact case_BN n sos eos m ih st out P b c cs hinv hm hc
      by_cases h1 : sC2 st.lastStrongIsAL (sC1 st.prevW1 c) = EN
      · exact case_EN n sos eos he m ih st out P b c cs hinv hm hc h1
      by_cases h2 : sC2 st.lastStrongIsAL (sC1 st.prevW1 c) = ES ∨ sC2 st.lastStrongIsAL (sC1 st.prevW1 c) = CS
      · exact case_sep n sos eos he m ih st out P b c cs hinv hm hc h2
      by_cases h3 : sC2 st.lastStrongIsAL (sC1 st.prevW1 c) = ET
      · by_cases h5 : st.prevW5 = EN
        · exact case_ET_EN n sos eos he m ih st out P b c cs hinv hm hc h3 h5
        · exact case_ET_pend n sos eos he m ih st out P b c cs hinv hm hc h3 h5
      · refine case_other n sos eos he m ih st out P b c cs hinv hm hc ⟨h1, ?_, ?_, h3⟩
        · intro h; exact h2 (Or.inl h)
        · intro h; exact h2 (Or.inr h)


/-! ### W7 on an array with BN units -/

/-- the values a BN unit may hold in the end -/
def okBN7 (x : BidiClass) : Bool := x == BN || x == ON || x == EN || x == L

theorem Match_w7m (b : Bool) (cs fin sp : List BidiClass) (h : Match okBN cs fin sp) :
    Match okBN7 cs (w7m b fin) (w7m b sp) := by
  induction cs generalizing fin sp b with
  | nil => cases fin <;> cases sp <;> simp_all [Match, w7m]
  | cons c cs ih =>
    cases fin with
    | nil => simp [Match] at h
    | cons r rs =>
      by_cases hc : c = BN
      · subst hc
        rw [Match_cons_BN] at h
        obtain ⟨hr, hrest⟩ := h
        simp only [w7m]
        rw [Match_cons_BN]
        have hflag : (if r == L then true else if r == R || r == AL then false else b) = b := by
          cases r <;> simp_all [okBN]
        rw [hflag]
        refine ⟨?_, ih b rs sp hrest⟩
        cases r <;> cases b <;> simp_all [okBN, okBN7]
      · cases sp with
        | nil => simp [Match, hc] at h
        | cons s sp =>
          rw [Match_cons_ne _ _ hc] at h
          obtain ⟨hr, hrest⟩ := h
          subst hr
          simp only [w7m]
          rw [Match_cons_ne _ _ hc]
          exact ⟨rfl, ih _ rs sp hrest⟩

/-- **StageW, layer 2**: single run, one code unit per character, BN allowed.
    The non-BN units carry `Spec.weak` of the sequence without its BNs; a BN unit ends as BN, ON, EN or L. -/
theorem stageW_bn (n : Nat) (sos eos : BidiClass) (hs : sos = .L ∨ sos = .R) (he : eos = .L ∨ eos = .R)
    (pcs : List BidiClass) (hn : pcs.length = n) (hok : ∀ c ∈ pcs, c = .BN ∨ c.removedByX9 = false) :
    let out := resolveWeak (fun _ => some 1) { runs := [(0, n)], sos := sos, eos := eos } pcs
    (out.zip pcs).filterMap (fun (o, c) => if c = .BN then none else some o) = Spec.weak sos (pcs.filter (· ≠ .BN)) ∧
    (∀ i : Nat, pcs[i]? = some .BN →
      out[i]? = some .BN ∨ out[i]? = some .ON ∨ out[i]? = some .EN ∨ out[i]? = some .L) ∧
    out.length = n := by
  subst hn
  have hokc : ∀ x ∈ pcs, okCls x = true := by
    intro x hx
    rcases hok x hx with h | h
    · subst h; rfl
    · simp [okCls, notRemoved, h]
  have hsos : sos ≠ BN := by rcases hs with rfl | rfl <;> decide
  have hinv : Inv pcs.length { pcs := pcs, prevW4 := sos, prevW5 := sos, prevW1 := sos } [] [] 0 pcs :=
    ⟨by simp, by simp, by simp, by simp, by simp [noTrailBN], hsos, by simp, hokc⟩
  obtain ⟨bns, fin, hfin, hb, _, hmatch⟩ := main_bn pcs.length sos eos he pcs.length pcs (Nat.le_refl _) _ [] [] 0 hinv
  have hb' : bns = [] := List.eq_nil_of_length_eq_zero hb
  subst hb'
  simp only [List.length_nil, Nat.add_zero, List.replicate_zero, List.append_nil, List.nil_append] at hfin
  have hlen := Match_length hmatch
  have hout : resolveWeak (fun _ => some 1) { runs := [(0, pcs.length)], sos := sos, eos := eos } pcs
      = w7m (sos == L) fin := by
    unfold resolveWeak
    simp only []
    rw [show ({ runs := [(0, pcs.length)], sos := sos, eos := eos } : IRSeq) = seq1 pcs.length sos eos from rfl,
      indexed_seq1, indices_seq1]
    have h7 := w7Step_fold [] fin (sos == L)
    simp only [List.length_nil, List.nil_append] at h7
    rw [← hlen, ← h7]
    rw [hlen]
    congr 2
    exact congrArg (fun x => (x, sos == L)) hfin
  have hm7 := Match_w7m (sos == L) pcs fin _ hmatch
  rw [w7m_eq_w7g _ _ (W_noAL _ _ _ _ _), ← w7_eq, ← w16_eq_W sos hs] at hm7
  obtain ⟨h1, h2, h3⟩ := Match_spec hm7
  simp only []
  rw [hout]
  refine ⟨?_, ?_, h3⟩
  · rw [h1]; rfl
  · intro i hi
    obtain ⟨r, hr, hrok⟩ := h2 i hi
    rw [hr]
    cases r <;> simp_all [okBN7]


/-- (test) the counterexample to "BN positions end as BN, ON or EN" -/
example : resolveWeak (fun _ => some 1) { runs := [(0, 3)], sos := L, eos := L } [BN, ET, EN] = [L, L, L] := by decide

/-- non-vacuity: an input with BNs at the start, inside an ET run, next to separators and at the end -/
example : ∀ c ∈ [BN, AL, BN, EN, ET, BN, ET, R, EN, BN, CS, BN, EN, ES, BN, BN, L, ET, BN, EN, NSM, BN],
    c = .BN ∨ c.removedByX9 = false := by decide

/-- (test) what the pass makes of it -/
example : resolveWeak (fun _ => some 1) { runs := [(0, 22)], sos := R, eos := L }
      [BN, AL, BN, EN, ET, BN, ET, R, EN, BN, CS, BN, EN, ES, BN, BN, L, ET, BN, EN, NSM, BN]
    = [BN, R, BN, AN, ON, ON, ON, R, EN, BN, EN, BN, EN, ON, ON, ON, L, L, BN, L, L, BN] := by decide +kernel

end UBidi.Lemmas.C01Weak
