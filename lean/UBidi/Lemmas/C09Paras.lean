/-
  C09 helper lemmas, part 3: the paragraphs of the splitting scan, per character.

  * `paras_structure`: the characters of a well-formed text are cut into chunks, one per reported
    paragraph, and the class lists of the chunks are `paragraphsOf` (rule P1 on classes) of the raw
    classes — so the cut is the same for two texts with the same characters (`chunks_sameChars`);
  * `charIndexOf`, `paras_char_view`: the paragraphs as ranges of character indices, with their levels,
    are a function of the raw classes;
  * `contract_chunks`: reading a per-unit vector at the character starts, paragraph by paragraph.
-/
import UBidi.Lemmas.C09Single
import UBidi.Props.C16
namespace UBidi.Props.C09
open UBidi UBidi.BidiClass UBidi.Lemmas.C02
open UBidi.Props.C16 (paragraphsOf)

/-! ### rule P1 on classes and the chunks of the scan -/

theorem paragraphsOf_noB : ∀ (l : List BidiClass), l ≠ [] → (∀ c ∈ l, c ≠ B) → paragraphsOf l = [l] := by
  intro l
  induction l with
  | nil => intro h; exact absurd rfl h
  | cons c cs ih =>
    intro _ h
    rw [C16.paragraphsOf_other c (h c (by simp))]
    cases cs with
    | nil => rfl
    | cons c' cs' => rw [ih (by simp) (fun x hx => h x (by simp [hx]))]

theorem paragraphsOf_chunk : ∀ (xs R : List BidiClass), (∀ c ∈ xs, c ≠ B) →
    paragraphsOf (xs ++ B :: R) = (xs ++ [B]) :: paragraphsOf R := by
  intro xs
  induction xs with
  | nil => intro R _; exact C16.paragraphsOf_B R
  | cons c cs ih =>
    intro R h
    rw [List.cons_append, C16.paragraphsOf_other c (h c (by simp)), ih R (fun x hx => h x (by simp [hx]))]
    rfl

theorem clsOf_append (ds : DataSource) (xs ys : List Seg) : clsOf ds (xs ++ ys) = clsOf ds xs ++ clsOf ds ys := by
  simp [clsOf]

/-- the class lists of the chunks are the P1 paragraphs of the classes -/
theorem paragraphsOf_chunks (ds : DataSource) : ∀ chunks : List (List Seg),
    (∀ c1 ch c2, chunks = c1 ++ ch :: c2 → IsPara ds ch ∧ (IsChunk ds ch ∨ c2 = [])) →
    chunks.map (clsOf ds) = paragraphsOf (clsOf ds chunks.flatten) := by
  intro chunks
  induction chunks with
  | nil => intro _; rfl
  | cons ch rest ih =>
    intro h
    have hrest := ih (fun c1 ch' c2 he => h (ch :: c1) ch' c2 (by rw [he]; rfl))
    obtain ⟨hp, hc⟩ := h [] ch rest rfl
    have chunkCase : IsChunk ds ch →
        (ch :: rest).map (clsOf ds) = paragraphsOf (clsOf ds (ch :: rest).flatten) := by
      rintro ⟨xs, b, rfl, hxs, hb⟩
      have hx : ∀ c ∈ clsOf ds xs, c ≠ B := by
        intro c hc
        simp only [clsOf, List.mem_map] at hc
        obtain ⟨x, hx, rfl⟩ := hc
        exact hxs x hx
      have e1 : clsOf ds (xs ++ [b] ++ rest.flatten) = clsOf ds xs ++ B :: clsOf ds rest.flatten := by
        simp [clsOf, hb]
      have e2 : clsOf ds (xs ++ [b]) = clsOf ds xs ++ [B] := by rw [clsOf_snoc, hb]
      simp only [List.map_cons, List.flatten_cons]
      rw [e1, e2, paragraphsOf_chunk _ _ hx, hrest]
    rcases hc with hc | hc
    · exact chunkCase hc
    · subst hc
      obtain ⟨xs, b, rfl, hxs⟩ := hp
      by_cases hb : ds.cls b.cp = B
      · exact chunkCase ⟨xs, b, rfl, hxs, hb⟩
      · simp only [List.map_cons, List.map_nil, List.flatten_cons, List.flatten_nil, List.append_nil]
        rw [paragraphsOf_noB _ (by simp [clsOf])]
        intro c hc
        simp only [clsOf, List.mem_map, List.mem_append, List.mem_singleton] at hc
        obtain ⟨x, hx | hx, rfl⟩ := hc
        · exact hxs x hx
        · rw [hx]; exact hb

/-- a list of lists is determined by its concatenation and the lengths of its pieces -/
theorem eq_of_flatten_eq {α} : ∀ (L L' : List (List α)), L.map List.length = L'.map List.length →
    L.flatten = L'.flatten → L = L' := by
  intro L
  induction L with
  | nil => intro L' hl _; cases L' with
    | nil => rfl
    | cons x xs => simp at hl
  | cons x xs ih =>
    intro L' hl hf
    cases L' with
    | nil => simp at hl
    | cons y ys =>
      simp only [List.map_cons, List.cons.injEq] at hl
      simp only [List.flatten_cons] at hf
      obtain ⟨h1, h2⟩ := List.append_inj hf hl.1
      rw [h1, ih ys hl.2 h2]

/-- the cut of a well-formed text into the chunks of its reported paragraphs -/
structure Chunks (ds : DataSource) (t : Text) (d : Option Nat) (chunks : List (List Seg)) : Prop where
  flatten : chunks.flatten = t.segs
  paras : (computeInitialInfo ds t d true).paras = chunks.map (mkPara ds d)
  classes : chunks.map (clsOf ds) = paragraphsOf (C02.raw ds t)
  nonempty : ∀ ch ∈ chunks, ch ≠ []

theorem paras_structure (ds : DataSource) (t : Text) (d : Option Nat) (hwf : t.WF) :
    ∃ chunks, Chunks ds t d chunks := by
  obtain ⟨chunks, h1, h2, _, h4, _⟩ := C02.chunks_exist ds t d hwf
  refine ⟨chunks, h1, h2, ?_, ?_⟩
  · rw [paragraphsOf_chunks ds chunks h4, h1]; rfl
  · intro ch hch
    obtain ⟨c1, c2, heq⟩ := List.append_of_mem hch
    exact C02.isPara_ne_nil ds (h4 c1 ch c2 heq).1

/-- two texts with the same characters are cut in the same places -/
theorem chunks_sameChars {ds : DataSource} {t t' : Text} {d d' : Option Nat} {chunks chunks' : List (List Seg)}
    (h : Chunks ds t d chunks) (h' : Chunks ds t' d' chunks') (hs : SameChars t t') :
    chunks.map (·.map (·.cp)) = chunks'.map (·.map (·.cp)) := by
  apply eq_of_flatten_eq
  · have e1 : (chunks.map (·.map (·.cp))).map List.length = (chunks.map (clsOf ds)).map List.length := by
      simp [List.map_map, Function.comp_def]
    have e2 : (chunks'.map (·.map (·.cp))).map List.length = (chunks'.map (clsOf ds)).map List.length := by
      simp [List.map_map, Function.comp_def]
    rw [e1, e2, h.classes, h'.classes, hs.raw ds]
  · rw [← List.map_flatten, ← List.map_flatten, h.flatten, h'.flatten]
    exact hs

/-- a chunk with its surroundings -/
theorem chunk_ctx {ds : DataSource} {t : Text} {d : Option Nat} {chunks : List (List Seg)} (hwf : t.WF)
    (h : Chunks ds t d chunks) (c1 : List (List Seg)) (ch : List Seg) (c2 : List (List Seg))
    (heq : chunks = c1 ++ ch :: c2) :
    t.segs = c1.flatten ++ ch ++ c2.flatten ∧ SegsFrom 0 c1.flatten (chunkStart ch) ∧
    SegsFrom (chunkStart ch) ch (chunkStop ch) ∧ SegsFrom (chunkStop ch) c2.flatten t.len := by
  have hne : ch ≠ [] := h.nonempty ch (by rw [heq]; simp)
  have hflat : t.segs = c1.flatten ++ ch ++ c2.flatten := by rw [← h.flatten, heq]; simp
  have ht := hwf.tiles
  rw [hflat, List.append_assoc] at ht
  obtain ⟨a, t1, t2⟩ := (Lemmas.C02.segsFrom_append _ _ _ _).1 ht
  obtain ⟨b, t3, t4⟩ := (Lemmas.C02.segsFrom_append _ _ _ _).1 t2
  rw [chunkStart_eq _ _ _ t3 hne, chunkStop_eq _ _ _ t3 hne]
  exact ⟨hflat, t1, t3, t4⟩

/-! ### paragraphs as ranges of character indices -/

/-- the number of characters that start before code-unit offset `off`: the index of the character that
    starts at `off` (the number of characters for `off = t.len`) -/
def charIndexOf (t : Text) (off : Nat) : Nat := (t.segs.filter (fun s => s.start < off)).length

theorem charIndexOf_split (t : Text) (X Y : List Seg) (a : Nat) (h : t.segs = X ++ Y) (h1 : SegsFrom 0 X a)
    (h2 : SegsFrom a Y t.len) : charIndexOf t a = X.length := by
  unfold charIndexOf
  rw [h, List.filter_append,
    List.filter_eq_self.mpr (fun s hs => by have := segsFrom_mem _ _ _ h1 s hs; simp; omega),
    List.filter_eq_nil_iff.mpr (fun s hs => by have := segsFrom_mem _ _ _ h2 s hs; simp; omega)]
  simp

/-- the paragraphs of rule P1 as character ranges with their levels (rules P2/P3, or the forced level) -/
def charParas (d : Option Nat) : Nat → List (List BidiClass) → List (Nat × Nat × Nat)
  | _, [] => []
  | k, p :: ps => (k, k + p.length, Spec.paraLevel d p) :: charParas d (k + p.length) ps

theorem paras_char_view_aux {ds : DataSource} {t : Text} {d : Option Nat} {chunks : List (List Seg)} (hwf : t.WF)
    (h : Chunks ds t d chunks) : ∀ (c2 c1 : List (List Seg)), chunks = c1 ++ c2 →
    (c2.map (mkPara ds d)).map (fun p => (charIndexOf t p.start, charIndexOf t p.stop, p.level))
      = charParas d c1.flatten.length (c2.map (clsOf ds)) := by
  intro c2
  induction c2 with
  | nil => intro _ _; rfl
  | cons ch rest ih =>
    intro c1 heq
    obtain ⟨hflat, t1, t3, t4⟩ := chunk_ctx hwf h c1 ch rest heq
    have hs : charIndexOf t (chunkStart ch) = c1.flatten.length :=
      charIndexOf_split t _ (ch ++ rest.flatten) _ (by rw [hflat]; simp) t1
        ((Lemmas.C02.segsFrom_append _ _ _ _).2 ⟨_, t3, t4⟩)
    have he : charIndexOf t (chunkStop ch) = c1.flatten.length + ch.length := by
      rw [charIndexOf_split t (c1.flatten ++ ch) rest.flatten _ hflat
        ((Lemmas.C02.segsFrom_append _ _ _ _).2 ⟨_, t1, t3⟩) t4]
      simp
    have := ih (c1 ++ [ch]) (by rw [heq]; simp)
    simp only [List.map_cons, charParas, mkPara, hs, he, clsOf_length, List.cons.injEq, true_and]
    simp only [List.flatten_append, List.flatten_singleton, List.length_append] at this
    exact this

/-- the reported paragraphs, as (first character, one past the last character, level), are a function of
    the raw classes -/
theorem paras_char_view (ds : DataSource) (t : Text) (d : Option Nat) (hwf : t.WF) :
    (computeInitialInfo ds t d true).paras.map (fun p => (charIndexOf t p.start, charIndexOf t p.stop, p.level))
      = charParas d 0 (paragraphsOf (C02.raw ds t)) := by
  obtain ⟨chunks, h⟩ := paras_structure ds t d hwf
  rw [h.paras, ← h.classes]
  exact paras_char_view_aux hwf h chunks [] rfl

/-! ### reading a per-unit vector paragraph by paragraph -/

theorem slice_getD {α} (xs : List α) (a b i : Nat) (d : α) (h1 : a ≤ i) (h2 : i < b) :
    (slice xs a b).getD (i - a) d = xs.getD i d := by
  simp only [slice, List.getD_eq_getElem?_getD, List.getElem?_take, List.getElem?_drop]
  rw [if_pos (by omega), show a + (i - a) = i by omega]

/-- the sub-text of a chunk -/
theorem chunk_subrange {ds : DataSource} {t : Text} {d : Option Nat} {chunks : List (List Seg)} (hwf : t.WF)
    (h : Chunks ds t d chunks) (c1 : List (List Seg)) (ch : List Seg) (c2 : List (List Seg))
    (heq : chunks = c1 ++ ch :: c2) :
    t.subrange (chunkStart ch) (chunkStop ch) =
      { enc := t.enc, len := chunkStop ch - chunkStart ch,
        segs := ch.map (fun s => { s with start := s.start - chunkStart ch }) } := by
  obtain ⟨hflat, t1, t3, t4⟩ := chunk_ctx hwf h c1 ch c2 heq
  exact Lemmas.C10.subrange_mid t _ ch _ _ _ hflat t1 t3 t4

theorem chunk_subrange_cps {ds : DataSource} {t : Text} {d : Option Nat} {chunks : List (List Seg)} (hwf : t.WF)
    (h : Chunks ds t d chunks) (ch : List Seg) (hch : ch ∈ chunks) :
    (t.subrange (chunkStart ch) (chunkStop ch)).segs.map (·.cp) = ch.map (·.cp) := by
  obtain ⟨c1, c2, heq⟩ := List.append_of_mem hch
  rw [chunk_subrange hwf h c1 ch c2 heq]
  simp [List.map_map, Function.comp_def]

theorem contract_chunks_aux {α} {ds : DataSource} {t : Text} {d : Option Nat} {chunks : List (List Seg)}
    (hwf : t.WF) (h : Chunks ds t d chunks) (xs : List α) (x : α) : ∀ (c2 c1 : List (List Seg)), chunks = c1 ++ c2 →
    c2.flatten.map (fun s => xs.getD s.start x) =
      (c2.map (fun ch => Expand.contract (t.subrange (chunkStart ch) (chunkStop ch))
        (slice xs (chunkStart ch) (chunkStop ch)) x)).flatten := by
  intro c2
  induction c2 with
  | nil => intro _ _; rfl
  | cons ch rest ih =>
    intro c1 heq
    obtain ⟨_, _, t3, _⟩ := chunk_ctx hwf h c1 ch rest heq
    simp only [List.flatten_cons, List.map_append, List.map_cons]
    rw [ih (c1 ++ [ch]) (by rw [heq]; simp), chunk_subrange hwf h c1 ch rest heq]
    congr 1
    simp only [Expand.contract, List.map_map]
    apply List.map_congr_left
    intro s hs
    have := segsFrom_mem _ _ _ t3 s hs
    simp only [Function.comp]
    rw [slice_getD _ _ _ _ _ this.1 (by omega)]

/-- the per-character view of a per-unit vector is the concatenation of the per-character views of its
    slices over the paragraphs' sub-texts -/
theorem contract_chunks {α} {ds : DataSource} {t : Text} {d : Option Nat} {chunks : List (List Seg)}
    (hwf : t.WF) (h : Chunks ds t d chunks) (xs : List α) (x : α) :
    Expand.contract t xs x =
      (chunks.map (fun ch => Expand.contract (t.subrange (chunkStart ch) (chunkStop ch))
        (slice xs (chunkStart ch) (chunkStop ch)) x)).flatten := by
  have := contract_chunks_aux hwf h xs x chunks [] rfl
  rw [h.flatten] at this
  exact this

end UBidi.Props.C09
