/- C18 helpers: surrogate arithmetic, slices, `Spec.lossy` over appends, layouts. -/
import UBidi.Model.Utf16
import UBidi.Spec.Reorder
namespace UBidi.Lemmas.C18
open UBidi

/-! ### surrogate arithmetic: the Model's mask tests are the Spec's range tests -/

theorem isHigh_eq (x : Nat) : Utf16.isHigh x = Spec.isHighS x := by
  unfold Utf16.isHigh Spec.isHighS
  rw [Bool.eq_iff_iff]
  simp only [beq_iff_eq, Bool.and_eq_true, decide_eq_true_eq]
  omega

theorem isLow_eq (x : Nat) : Utf16.isLow x = Spec.isLowS x := by
  unfold Utf16.isLow Spec.isLowS
  rw [Bool.eq_iff_iff]
  simp only [beq_iff_eq, Bool.and_eq_true, decide_eq_true_eq]
  omega

theorem isSurrogate_eq (x : Nat) : Utf16.isSurrogate x = (Spec.isHighS x || Spec.isLowS x) := by
  unfold Utf16.isSurrogate Spec.isHighS Spec.isLowS
  rw [Bool.eq_iff_iff]
  simp only [Bool.and_eq_true, Bool.or_eq_true, decide_eq_true_eq]
  omega

theorem high_not_low {x : Nat} (h : Spec.isHighS x = true) : Spec.isLowS x = false := by
  unfold Spec.isHighS at h; unfold Spec.isLowS
  simp only [Bool.and_eq_true, decide_eq_true_eq] at h
  simp only [Bool.and_eq_false_iff, decide_eq_false_iff_not]
  omega

theorem low_not_high {x : Nat} (h : Spec.isLowS x = true) : Spec.isHighS x = false := by
  cases h' : Spec.isHighS x
  · rfl
  · rw [high_not_low h'] at h; exact absurd h (by decide)

/-! ### slices -/

/-- units `[i, j)` of `u` -/
def slice (u : List Nat) (i j : Nat) : List Nat := (u.drop i).take (j - i)

theorem slice_to_end (u : List Nat) (i : Nat) : slice u i u.length = u.drop i := by
  unfold slice
  apply List.take_of_length_le
  simp

theorem slice_zero_end (u : List Nat) : slice u 0 u.length = u := by
  rw [slice_to_end]; rfl

theorem slice_self (u : List Nat) (i : Nat) : slice u i i = [] := by
  simp [slice]

theorem slice_append (u : List Nat) {i m j : Nat} (h1 : i ≤ m) (h2 : m ≤ j) :
    slice u i j = slice u i m ++ slice u m j := by
  unfold slice
  have e : j - i = (m - i) + (j - m) := by omega
  rw [e, List.take_add, List.drop_drop]
  have e2 : i + (m - i) = m := by omega
  rw [e2]

theorem getD_lt (u : List Nat) {i : Nat} (h : i < u.length) : u.getD i 0 = u[i] := by
  simp [List.getD_eq_getElem?_getD, h]

theorem slice_one (u : List Nat) {i : Nat} (h : i < u.length) : slice u i (i + 1) = [u.getD i 0] := by
  unfold slice
  rw [List.drop_eq_getElem_cons h, Nat.add_sub_cancel_left, getD_lt u h]
  rfl

theorem slice_two (u : List Nat) {i : Nat} (h : i + 1 < u.length) :
    slice u i (i + 2) = [u.getD i 0, u.getD (i + 1) 0] := by
  unfold slice
  have h0 : i < u.length := by omega
  rw [List.drop_eq_getElem_cons h0, List.drop_eq_getElem_cons h, Nat.add_sub_cancel_left,
    getD_lt u h, getD_lt u h0]
  rfl

theorem length_slice (u : List Nat) {i j : Nat} (h1 : i ≤ j) (h2 : j ≤ u.length) :
    (slice u i j).length = j - i := by
  unfold slice
  simp only [List.length_take, List.length_drop]
  omega

theorem getLast?_slice (u : List Nat) {i j : Nat} (h1 : i < j) (h2 : j ≤ u.length) :
    (slice u i j).getLast? = some (u.getD (j - 1) 0) := by
  rw [List.getLast?_eq_getElem?, length_slice u (by omega) h2]
  unfold slice
  have hj : j - 1 < u.length := by omega
  have e : i + (j - i - 1) = j - 1 := by omega
  simp [List.getElem?_take, List.getElem?_drop, List.getD_eq_getElem?_getD, hj, e]
  omega

theorem head?_slice (u : List Nat) {i j : Nat} (h1 : i < j) (h2 : j ≤ u.length) :
    (slice u i j).head? = some (u.getD i 0) := by
  have hi : i < u.length := by omega
  unfold slice
  rw [List.drop_eq_getElem_cons hi]
  have : j - i = (j - i - 1) + 1 := by omega
  rw [this, List.take_succ_cons]
  simp [List.getD_eq_getElem?_getD, hi]

/-! ### `Spec.lossy` over an append: decoding splits wherever no pair straddles the cut -/

theorem lossy_append (a b : List Nat)
    (h : ∀ x y, a.getLast? = some x → b.head? = some y →
          ¬ (Spec.isHighS x = true ∧ Spec.isLowS y = true)) :
    Spec.lossy (a ++ b) = Spec.lossy a ++ Spec.lossy b := by
  induction a using Spec.lossy.induct with
  | case1 => rfl
  | case2 x =>
    cases b with
    | nil => simp [Spec.lossy]
    | cons y b' =>
      have hxy := h x y rfl rfl
      have : (Spec.isHighS x && Spec.isLowS y) = false := by
        simpa using hxy
      simp [Spec.lossy, this]
  | case3 x y rest hp ih =>
    have : Spec.lossy (x :: y :: rest ++ b) = Spec.lossy (x :: y :: (rest ++ b)) := rfl
    rw [this]
    simp only [Spec.lossy, hp, if_true]
    rw [ih]
    · rfl
    · intro x' y' hx' hy'
      apply h x' y' _ hy'
      cases rest with
      | nil => simp at hx'
      | cons r rs => simpa using hx'
  | case4 x y rest hp ih =>
    have : Spec.lossy (x :: y :: rest ++ b) = Spec.lossy (x :: y :: (rest ++ b)) := rfl
    rw [this]
    rw [Spec.lossy, if_neg hp, Spec.lossy, if_neg hp]
    have e : y :: (rest ++ b) = (y :: rest) ++ b := rfl
    rw [e, ih]
    · rfl
    · intro x' y' hx' hy'
      apply h x' y' _ hy'
      simpa using hx'

theorem lossy_single (x : Nat) : Spec.lossy [x] = [(Spec.lossyUnit x, 1)] := rfl

theorem lossy_pair {x y : Nat} (hx : Spec.isHighS x = true) (hy : Spec.isLowS y = true) :
    Spec.lossy [x, y] = [(0x10000 + (x - 0xD800) * 1024 + (y - 0xDC00), 2)] := by
  simp [Spec.lossy, hx, hy]

/-! ### the boundary predicate: an index that does not split a surrogate pair -/

/-- `i` is not between a high surrogate and a low surrogate -/
def good (u : List Nat) (i : Nat) : Bool :=
  !(decide (0 < i) && Spec.isHighS (u.getD (i - 1) 0) && Spec.isLowS (u.getD i 0))

theorem good_zero (u : List Nat) : good u 0 = true := by simp [good]

theorem good_of_not_low (u : List Nat) (i : Nat) (h : Spec.isLowS (u.getD i 0) = false) :
    good u i = true := by unfold good; rw [h]; simp

theorem good_of_prev_not_high (u : List Nat) (i : Nat) (h : Spec.isHighS (u.getD (i - 1) 0) = false) :
    good u i = true := by unfold good; rw [h]; simp

theorem good_of_ge (u : List Nat) {i : Nat} (h : u.length ≤ i) : good u i = true := by
  apply good_of_not_low
  have : u.getD i 0 = 0 := by simp [List.getD_eq_getElem?_getD, h]
  rw [this]; decide

/-- decoding a slice splits at every good index -/
theorem lossy_slice_split (u : List Nat) {i m j : Nat} (h1 : i ≤ m) (h2 : m ≤ j) (h3 : j ≤ u.length)
    (hg : good u m = true) :
    Spec.lossy (slice u i j) = Spec.lossy (slice u i m) ++ Spec.lossy (slice u m j) := by
  rw [slice_append u h1 h2]
  apply lossy_append
  intro x y hx hy
  by_cases him : i < m
  · by_cases hmj : m < j
    · rw [getLast?_slice u him (by omega)] at hx
      rw [head?_slice u hmj h3] at hy
      cases hx; cases hy
      intro ⟨hh, hl⟩
      have : 0 < m := by omega
      unfold good at hg; rw [hh, hl] at hg
      simp at hg; omega
    · have : m = j := by omega
      subst this
      simp [slice_self] at hy
  · have : i = m := by omega
    subst this
    simp [slice_self] at hx

/-! ### laying out `(scalar, length)` pairs as consecutive segments -/

def lay : Nat → List (Nat × Nat) → List Seg
  | _, [] => []
  | p, (c, l) :: r => { start := p, cp := c, len := l } :: lay (p + l) r

theorem map_lay (p : Nat) (l : List (Nat × Nat)) : (lay p l).map (fun s => (s.cp, s.len)) = l := by
  induction l generalizing p with
  | nil => rfl
  | cons a r ih => obtain ⟨c, n⟩ := a; simp [lay, ih]

theorem segsFrom_lay_lossy (p : Nat) (l : List Nat) : SegsFrom p (lay p (Spec.lossy l)) (p + l.length) := by
  induction l using Spec.lossy.induct generalizing p with
  | case1 => simp [Spec.lossy, lay, SegsFrom]
  | case2 x => simp [Spec.lossy, lay, SegsFrom]
  | case3 x y rest hp ih =>
    simp only [Spec.lossy, hp, if_true, lay, SegsFrom, true_and]
    refine ⟨by omega, ?_⟩
    have := ih (p + 2)
    simpa [Nat.add_assoc, Nat.add_comm 2] using this
  | case4 x y rest hp ih =>
    rw [Spec.lossy, if_neg hp]
    simp only [lay, SegsFrom, true_and]
    refine ⟨by omega, ?_⟩
    have := ih (p + 1)
    simpa [Nat.add_assoc, Nat.add_comm 1] using this

theorem lossy_len_sum (a : Nat) (l : List Nat) :
    ((Spec.lossy l).map (·.2)).foldl (· + ·) a = a + l.length := by
  induction l using Spec.lossy.induct generalizing a with
  | case1 => simp [Spec.lossy]
  | case2 x => simp [Spec.lossy]
  | case3 x y rest hp ih =>
    simp only [Spec.lossy, hp, if_true, List.map_cons, List.foldl_cons, ih, List.length_cons]
    omega
  | case4 x y rest hp ih =>
    rw [Spec.lossy, if_neg hp]
    simp only [List.map_cons, List.foldl_cons, ih, List.length_cons]
    omega

/-- for genuine 16-bit units every decoded character has its `len_utf16` length -/
theorem lossy_lens (l : List Nat) (hl : ∀ x ∈ l, x < 65536) :
    ∀ q ∈ Spec.lossy l, q.2 = utf16Len q.1 := by
  induction l using Spec.lossy.induct with
  | case1 => simp [Spec.lossy]
  | case2 x =>
    have hx : x < 65536 := hl x (by simp)
    have : Spec.lossyUnit x < 65536 := by unfold Spec.lossyUnit; split <;> omega
    simp [Spec.lossy, utf16Len, this]
  | case3 x y rest hp ih =>
    simp only [Spec.lossy, hp, if_true, List.mem_cons]
    intro q hq
    rcases hq with rfl | hq
    · simp only [utf16Len]; rw [if_neg (by omega)]
    · exact ih (fun z hz => hl z (by simp [hz])) q hq
  | case4 x y rest hp ih =>
    rw [Spec.lossy, if_neg hp]
    simp only [List.mem_cons]
    intro q hq
    have hx : x < 65536 := hl x (by simp)
    have : Spec.lossyUnit x < 65536 := by unfold Spec.lossyUnit; split <;> omega
    rcases hq with rfl | hq
    · simp [utf16Len, this]
    · exact ih (fun z hz => hl z (by simp at hz ⊢; rcases hz with h | h <;> simp [h])) q hq

theorem mem_lay {p : Nat} {l : List (Nat × Nat)} {s : Seg} (h : s ∈ lay p l) : (s.cp, s.len) ∈ l := by
  have : (s.cp, s.len) ∈ (lay p l).map (fun s => (s.cp, s.len)) := List.mem_map_of_mem h
  rwa [map_lay] at this

end UBidi.Lemmas.C18
