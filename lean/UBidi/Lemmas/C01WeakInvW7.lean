/-
  UBidi.Lemmas.C01WeakInvW7 — what the weak stage leaves on the units removed by X9, part 3:
  the W7 pass, and the statement for a single level run (`weakInv_view`).
-/
import UBidi.Lemmas.C01WeakInvStep
namespace UBidi.Lemmas.C01Weak
open UBidi UBidi.Spec BidiClass

theorem w7m_head (b : Bool) (s : BidiClass) (sp : List BidiClass) :
    (w7m b (s :: sp)).head? = some (if s == EN && b then L else s) := by
  simp [w7m]

/-- W7 treats a BN unit that holds EN exactly like the next non-BN unit (which holds EN too):
    the units in between hold BN / ON / EN and do not change the last-strong flag -/
theorem MatchG_w7m (b : Bool) (p1 : BidiClass) (cs fin sp : List BidiClass) (h : MatchG okG p1 cs fin sp) :
    MatchG ok7 p1 cs (w7m b fin) (w7m b sp) := by
  induction cs generalizing fin sp b p1 with
  | nil => cases fin <;> cases sp <;> simp_all [MatchG, w7m]
  | cons c cs ih =>
    cases fin with
    | nil => exact absurd h (MatchG_cons_nil okG _ _ _ _)
    | cons r rs =>
      by_cases hc : c = BN
      · subst hc
        rw [MatchG_cons_BN] at h
        obtain ⟨⟨hr, hnear⟩, hrest⟩ := h
        simp only [w7m]
        rw [MatchG_cons_BN]
        have hflag : (if r == L then true else if r == R || r == AL then false else b) = b := by
          rcases hr with rfl | rfl | ⟨rfl, _⟩ <;> rfl
        rw [hflag]
        refine ⟨⟨?_, ?_⟩, ih b p1 rs sp hrest⟩
        · rcases hr with rfl | rfl | ⟨rfl, hsh⟩
          · exact Or.inl rfl
          · exact Or.inr (Or.inl rfl)
          · refine Or.inr (Or.inr ?_)
            cases sp with
            | nil => simp at hsh
            | cons s sp =>
              simp only [List.head?_cons, Option.some.injEq] at hsh
              obtain ⟨hsh, hdh⟩ := hsh
              subst hsh
              rw [w7m_head]
              exact ⟨rfl, hdh⟩
        · intro hne
          apply hnear
          rintro rfl
          exact hne (by cases b <;> rfl)
      · cases sp with
        | nil => exact absurd h (MatchG_cons_ne_nil okG _ _ hc _ _ _)
        | cons s sp =>
          rw [MatchG_cons_ne _ _ _ hc] at h
          obtain ⟨hr, hrne, hrest⟩ := h
          subst hr
          simp only [w7m]
          rw [MatchG_cons_ne _ _ _ hc]
          refine ⟨rfl, ?_, ih _ _ rs sp hrest⟩
          cases r <;> cases b <;> simp_all

/-- **single run**: the array the weak stage returns for a run of single-unit characters, relative to
    UAX #9's W1–W7 on the run without its BN units (`sp`): the non-BN units carry `sp`, never BN;
    a BN unit carries BN, ON, or the final type of the next non-BN unit, and it is rewritten only
    next to a separator or in front of an ET (`ok7`). -/
theorem weakInv_view (n : Nat) (sos eos : BidiClass) (hs : sos = .L ∨ sos = .R) (he : eos = .L ∨ eos = .R)
    (pcs : List BidiClass) (hn : pcs.length = n) (hok : ∀ c ∈ pcs, okCls c = true) :
    MatchG ok7 sos pcs (resolveWeak (fun _ => some 1) { runs := [(0, n)], sos := sos, eos := eos } pcs)
      (Spec.weak sos (fl pcs)) := by
  subst hn
  have hsos : sos ≠ BN := by rcases hs with rfl | rfl <;> decide
  have hinv : Inv pcs.length { pcs := pcs, prevW4 := sos, prevW5 := sos, prevW1 := sos } [] [] 0 pcs :=
    ⟨by simp, by simp, by simp, by simp, by simp [noTrailBN], hsos, by simp, hok⟩
  obtain ⟨bns, fin, hfin, hb, _, hmatch⟩ := mainG_bn pcs.length sos eos he pcs.length pcs (Nat.le_refl _) _ [] [] 0 hinv
  have hb' : bns = [] := List.eq_nil_of_length_eq_zero hb
  subst hb'
  simp only [List.length_nil, Nat.add_zero, List.replicate_zero, List.append_nil, List.nil_append] at hfin
  have hlen := MatchG_length okG hmatch
  have hout : resolveWeak (fun _ => some 1) { runs := [(0, pcs.length)], sos := sos, eos := eos } pcs
      = w7m (sos == L) fin := by
    unfold resolveWeak
    simp only []
    rw [show ({ runs := [(0, pcs.length)], sos := sos, eos := eos } : IRSeq) = seq1 pcs.length sos eos from rfl,
      indexed_seq1, indices_seq1]
    have h7 := w7Step_fold [] fin (sos == L)
    simp only [List.length_nil, List.nil_append] at h7
    rw [← hlen, ← h7]
    rw [hlen]
    congr 2
    exact congrArg (fun x => (x, sos == L)) hfin
  have hm7 := MatchG_w7m (sos == L) sos pcs fin _ hmatch
  rw [w7m_eq_w7g _ _ (W_noAL _ _ _ _ _), ← w7_eq, ← w16_eq_W sos hs] at hm7
  rw [hout]
  exact hm7

end UBidi.Lemmas.C01Weak
