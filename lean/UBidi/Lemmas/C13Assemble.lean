/-
  C13 — helper lemmas, part 8: assembly.  The surviving characters of `pre ++ i :: c ++ pdi :: suf`
  (`ks_decomp`), and its outside levels in terms of the text without `c` (`side`).
-/
import UBidi.Lemmas.C13Fill
namespace UBidi.Props.C13
open UBidi UBidi.Spec BidiClass

/-! ### the surviving characters of `pre ++ i :: c ++ pdi :: suf` -/

def mk (e : Nat × BidiClass) (c : Ch) : K := { orig := 0, level := e.1, ty := e.2, cls := c.cls, brk := c.brk }

theorem mkAll_strip (i : Nat) (ex : List (Nat × BidiClass)) (cs : List Ch) :
    (mkAll i ex cs).map strip = List.zipWith mk ex cs := by
  induction ex generalizing i cs with
  | nil => simp [mkAll]
  | cons e ex ih =>
    cases cs with
    | nil => simp [mkAll]
    | cons c cs => simp only [mkAll, List.map_cons, List.zipWith_cons_cons, ih]; rfl

/-- surviving characters, `orig` stripped -/
def surv (ex : List (Nat × BidiClass)) (cs : List Ch) : List K := (List.zipWith mk ex cs).filter notRem

theorem ksOf_strip (pl : Nat) (chars : List Ch) :
    (ksOf pl chars).map strip = surv (explicit pl (chars.map (·.cls))) chars := by
  unfold ksOf surv
  rw [allK_eq, ← mkAll_strip 0, List.filter_map]
  rfl

theorem surv_append (ex1 ex2 : List (Nat × BidiClass)) (cs1 cs2 : List Ch) (h : ex1.length = cs1.length) :
    surv (ex1 ++ ex2) (cs1 ++ cs2) = surv ex1 cs1 ++ surv ex2 cs2 := by
  unfold surv
  rw [List.zipWith_append h, List.filter_append]

theorem surv_cls (ex : List (Nat × BidiClass)) (cs : List Ch) (h : ex.length = cs.length) :
    (surv ex cs).map (·.cls) = (cs.map (·.cls)).filter (fun c => !isRemoved c) := by
  induction cs generalizing ex with
  | nil => cases ex <;> simp [surv]
  | cons c cs ih =>
    cases ex with
    | nil => simp at h
    | cons e ex =>
      simp only [List.length_cons, Nat.add_right_cancel_iff] at h
      have := ih ex h
      unfold surv at this ⊢
      simp only [List.zipWith_cons_cons, List.map_cons]
      by_cases hr : isRemoved c.cls = true
      · rw [List.filter_cons_of_neg (by simp [notRem, mk, hr]), List.filter_cons_of_neg (by simp [hr])]
        exact this
      · rw [List.filter_cons_of_pos (by simp [notRem, mk, hr]), List.filter_cons_of_pos (by simp [hr])]
        simp only [List.map_cons, this]
        rfl

theorem surv_length (ex : List (Nat × BidiClass)) (cs : List Ch) (h : ex.length = cs.length) :
    (surv ex cs).length = cnt (cs.map (·.cls)) := by
  unfold cnt
  rw [← surv_cls ex cs h, List.length_map]

theorem surv_level_mem (ex : List (Nat × BidiClass)) (cs : List Ch) (k : K) (hk : k ∈ surv ex cs) :
    ∃ e ∈ ex, k.level = e.1 := by
  unfold surv at hk
  replace hk := (List.mem_filter.1 hk).1
  induction ex generalizing cs with
  | nil => simp at hk
  | cons e ex ih =>
    cases cs with
    | nil => simp at hk
    | cons c cs =>
      simp only [List.zipWith_cons_cons, List.mem_cons] at hk
      rcases hk with rfl | hk
      · exact ⟨e, by simp, rfl⟩
      · obtain ⟨e', he', h⟩ := ih cs hk
        exact ⟨e', by simp [he'], h⟩

theorem IsoBalanced.filter {w : List BidiClass} (h : IsoBalanced w) :
    IsoBalanced (w.filter (fun c => !isRemoved c)) := by
  induction h with
  | nil => exact .nil
  | other c w h1 h2 h3 h4 h5 _ ih =>
    by_cases hr : isRemoved c = true
    · rw [List.filter_cons_of_neg (by simp [hr])]; exact ih
    · rw [List.filter_cons_of_pos (by simp [hr])]; exact .other c _ h1 h2 h3 h4 h5 ih
  | iso i w v hi _ _ ihw ihv =>
    have hri : isRemoved i = false := by rcases hi with rfl | rfl | rfl <;> rfl
    have : (i :: w ++ PDI :: v).filter (fun c => !isRemoved c) =
        i :: w.filter (fun c => !isRemoved c) ++ PDI :: v.filter (fun c => !isRemoved c) := by
      have hP : isRemoved PDI = false := rfl
      rw [List.filter_append, List.filter_cons_of_pos (by simp [hri]), List.filter_cons_of_pos (by simp [hP])]
    rw [this]
    exact .iso i _ _ hi ihw ihv

theorem lvf_strip (pl : Nat) (ks : List K) : lvf pl ks = lvf pl (ks.map strip) := by
  funext p
  unfold lvf
  rw [resolvedOf_strip, getD_map_strip]
  rfl


/-- the initial state of X1 -/
def initState (pl : Nat) : XState := { stack := [{ level := pl, override := none, isolate := false }] }

/-- the state of the X1–X8 machine at the initiator -/
def stI (pl : Nat) (pre : List Ch) : XState := xFinal pl (initState pl) (pre.map (·.cls))

def partA (pl : Nat) (pre : List Ch) : List K := surv (xRun pl (initState pl) (pre.map (·.cls))) pre
def kI (pl : Nat) (pre : List Ch) (i : Ch) : K := mk (xStep pl (stI pl pre) i.cls).2 i
def kP (pl : Nat) (pre : List Ch) (pdi : Ch) : K := mk (topLevel pl (stI pl pre), applyOv (stI pl pre) PDI) pdi
def partB (pl : Nat) (pre suf : List Ch) : List K := surv (xRun pl (stI pl pre) (suf.map (·.cls))) suf
def partC (pl : Nat) (pre : List Ch) (i : Ch) (c : List Ch) : List K :=
  surv (xRun pl (xStep pl (stI pl pre) i.cls).1 (c.map (·.cls))) c

theorem surv_single (e : Nat × BidiClass) (c : Ch) (h : isRemoved c.cls = false) : surv [e] [c] = [mk e c] := by
  simp [surv, notRem, mk, h]

theorem ks_decomp (pl : Nat) (pre suf c : List Ch) (i pdi : Ch) (hi : isIsoInit i.cls = true)
    (hpdi : pdi.cls = PDI) (hc : IsoBalanced (c.map (·.cls))) :
    (ksOf pl (pre ++ i :: c ++ pdi :: suf)).map strip =
      partA pl pre ++ kI pl pre i :: partC pl pre i c ++ kP pl pre pdi :: partB pl pre suf := by
  rw [ksOf_strip]
  have ecls : (pre ++ i :: c ++ pdi :: suf).map (·.cls) =
      pre.map (·.cls) ++ (i.cls :: c.map (·.cls) ++ PDI :: suf.map (·.cls)) := by simp [hpdi]
  rw [ecls]
  unfold explicit
  rw [xRun_append]
  change surv (xRun pl (initState pl) (pre.map (·.cls)) ++ xRun pl (stI pl pre) _) _ = _
  rw [xRun_pair pl (stI pl pre) i.cls hi (c.map (·.cls)) hc]
  have e1 : pre ++ i :: c ++ pdi :: suf = pre ++ ([i] ++ (c ++ ([pdi] ++ suf))) := by simp
  have e2 : ((xStep pl (stI pl pre) i.cls).2 :: xRun pl (xStep pl (stI pl pre) i.cls).1 (c.map (·.cls))) ++
      (topLevel pl (stI pl pre), applyOv (stI pl pre) PDI) :: xRun pl (stI pl pre) (suf.map (·.cls)) =
      [(xStep pl (stI pl pre) i.cls).2] ++ (xRun pl (xStep pl (stI pl pre) i.cls).1 (c.map (·.cls)) ++
        ([(topLevel pl (stI pl pre), applyOv (stI pl pre) PDI)] ++ xRun pl (stI pl pre) (suf.map (·.cls)))) := by
    simp
  rw [e1, e2, surv_append _ _ _ _ (by rw [xRun_length]; simp), surv_append _ _ _ _ (by simp),
    surv_append _ _ _ _ (by rw [xRun_length]; simp), surv_append _ _ _ _ (by simp)]
  have hri : isRemoved i.cls = false := by
    rcases (isIsoInit_iff i.cls).1 hi with h | h | h <;> rw [h] <;> rfl
  have hrp : isRemoved pdi.cls = false := by rw [hpdi]; rfl
  rw [surv_single _ _ hri, surv_single _ _ hrp]
  simp [partA, partB, partC, kI, kP]


/-- the text without the content -/
def skel (pl : Nat) (pre suf : List Ch) (i pdi : Ch) : List K :=
  partA pl pre ++ kI pl pre i :: kP pl pre pdi :: partB pl pre suf

/-- the outside levels of `pre ++ i :: c ++ pdi :: suf`, in terms of the text without `c` -/
theorem side (pl : Nat) (pre suf c : List Ch) (i pdi : Ch) (hi : isIsoInit i.cls = true)
    (hpdi : pdi.cls = PDI) (hc : IsoBalanced (c.map (·.cls)))
    (hvalid : isoValid pl (stI pl pre) i.cls = true) :
    let G := lvf pl (skel pl pre suf i pdi)
    let a := (partA pl pre).length + 1
    (paragraphLevels pl (pre ++ i :: c ++ pdi :: suf)).take (pre.length + 1) =
        fill' G pl 0 (pre.map (·.cls) ++ [i.cls]) ∧
    (paragraphLevels pl (pre ++ i :: c ++ pdi :: suf)).drop (pre.length + 1 + c.length) =
        G a :: fill' G (G a) (a + 1) (suf.map (·.cls)) := by
  intro G a
  have hri : isRemoved i.cls = false := by
    rcases (isIsoInit_iff i.cls).1 hi with h | h | h <;> rw [h] <;> rfl
  -- the surviving characters
  have hks := ks_decomp pl pre suf c i pdi hi hpdi hc
  have hkI : isIsoInit (kI pl pre i).cls = true := hi
  have hkP : (kP pl pre pdi).cls = PDI := hpdi
  have hlev : (kP pl pre pdi).level = (kI pl pre i).level := by
    simp only [kP, kI, mk]; rw [step_iso_snd pl _ _ hi]
  have hCb : IsoBalanced ((partC pl pre i c).map (·.cls)) := by
    unfold partC; rw [surv_cls _ _ (by rw [xRun_length]; simp)]; exact hc.filter
  have hCl : ∀ k ∈ partC pl pre i c, k.level ≠ (kI pl pre i).level := by
    intro k hk
    obtain ⟨e, he, hle⟩ := surv_level_mem _ _ k hk
    have := content_levels_valid pl (stI pl pre) i.cls hi hvalid (c.map (·.cls)) hc e he
    simp only [kI, mk]; rw [step_iso_snd pl _ _ hi, hle]; omega
  -- the level function
  have hF : ∀ p, lvf pl (ksOf pl (pre ++ i :: c ++ pdi :: suf)) (sig a (partC pl pre i c).length p) = G p := by
    intro p
    rw [lvf_strip, hks]
    unfold lvf
    rw [getD_sig]
    rw [key pl (partA pl pre) (kI pl pre i) (kP pl pre pdi) (partC pl pre i c) (partB pl pre suf) hkI hkP hlev
      hCb hCl p]
    rfl
  have hm : (partC pl pre i c).length = cnt (c.map (·.cls)) := by
    unfold partC; exact surv_length _ _ (by rw [xRun_length]; simp)
  have ha : a = cnt (pre.map (·.cls) ++ [i.cls]) := by
    rw [cnt_append]
    have : cnt [i.cls] = 1 := by simp [cnt, hri]
    rw [this]
    show (partA pl pre).length + 1 = _
    unfold partA; rw [surv_length _ _ (by rw [xRun_length]; simp)]
  rw [paragraphLevels_fill']
  have ecls : (pre ++ i :: c ++ pdi :: suf).map (·.cls) =
      (pre.map (·.cls) ++ [i.cls]) ++ (c.map (·.cls) ++ (PDI :: suf.map (·.cls))) := by simp [hpdi]
  rw [ecls]
  obtain ⟨prev1, h1⟩ := fill'_append (lvf pl (ksOf pl (pre ++ i :: c ++ pdi :: suf))) pl 0
    (pre.map (·.cls) ++ [i.cls]) (c.map (·.cls) ++ (PDI :: suf.map (·.cls)))
  obtain ⟨prev2, h2⟩ := fill'_append (lvf pl (ksOf pl (pre ++ i :: c ++ pdi :: suf))) prev1
    (0 + cnt (pre.map (·.cls) ++ [i.cls])) (c.map (·.cls)) (PDI :: suf.map (·.cls))
  rw [h1, h2]
  have l1 : (fill' (lvf pl (ksOf pl (pre ++ i :: c ++ pdi :: suf))) pl 0 (pre.map (·.cls) ++ [i.cls])).length =
      pre.length + 1 := by rw [fill'_length]; simp
  have l2 : (fill' (lvf pl (ksOf pl (pre ++ i :: c ++ pdi :: suf))) prev1
      (0 + cnt (pre.map (·.cls) ++ [i.cls])) (c.map (·.cls))).length = c.length := by rw [fill'_length]; simp
  constructor
  · rw [List.take_append_of_le_length (by omega), List.take_of_length_le (by omega)]
    apply fill'_congr
    intro t ht
    have := hF (0 + t)
    rw [sig_lt (by omega)] at this
    exact this
  · rw [← List.append_assoc]
    have l12 := List.length_append (as := fill' (lvf pl (ksOf pl (pre ++ i :: c ++ pdi :: suf))) pl 0
      (pre.map (·.cls) ++ [i.cls])) (bs := fill' (lvf pl (ksOf pl (pre ++ i :: c ++ pdi :: suf))) prev1
      (0 + cnt (pre.map (·.cls) ++ [i.cls])) (c.map (·.cls)))
    rw [l1, l2] at l12
    rw [List.drop_append_of_le_length (by rw [l12]; exact Nat.le_refl _),
      List.drop_of_length_le (by rw [l12]; exact Nat.le_refl _)]
    simp only [List.nil_append]
    rw [fill'_cons_keep _ _ _ _ _ rfl]
    have hpos : 0 + cnt (pre.map (·.cls) ++ [i.cls]) + cnt (c.map (·.cls)) =
        sig a (partC pl pre i c).length a := by rw [sig_ge (Nat.le_refl _), hm, ← ha]; omega
    rw [hpos, hF a]
    congr 1
    apply fill'_congr
    intro t ht
    have := hF (a + 1 + t)
    rw [sig_ge (by omega)] at this
    rw [← this, sig_ge (Nat.le_refl _)]
    congr 1; omega

end UBidi.Props.C13
