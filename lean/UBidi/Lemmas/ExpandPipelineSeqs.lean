/-
  UBidi.Lemmas.ExpandPipelineSeqs — the isolating run sequences that the pipeline builds from a tiling
  list of level runs satisfy the side condition `SeqOK` of the stage lemmas `weak_expand` /
  `neutral_expand`: every run is non-empty and inside the text, and the runs of one sequence come in
  increasing order of position (`sequences_ok`).

  Fast path: one singleton sequence per run.  General path: `prepStep` appends each run to exactly one
  sequence, in the order of the run list; the runs tile `[0, n)`, so every run held by the state ends
  at or before the start of the next run to be appended (`StOK`).
-/
import UBidi.Lemmas.ExpandExplicit
import UBidi.Lemmas.ExpandWeak
import UBidi.Lemmas.ExpandNeutral
import UBidi.Lemmas.C07Runs
namespace UBidi.Expand
namespace Pipeline
open UBidi UBidi.BidiClass

/-- the runs of a sequence under construction: non-empty, ending at or before `p`, in increasing order -/
def RunsOK (p : Nat) (seq : List (Nat × Nat)) : Prop :=
  (∀ r ∈ seq, r.1 < r.2 ∧ r.2 ≤ p) ∧ seq.Pairwise (fun r s => r.2 ≤ s.1)

theorem RunsOK.nil (p : Nat) : RunsOK p [] := ⟨by simp, List.Pairwise.nil⟩

theorem RunsOK.mono {p q : Nat} {seq : List (Nat × Nat)} (h : RunsOK p seq) (hpq : p ≤ q) : RunsOK q seq :=
  ⟨fun r hr => ⟨(h.1 r hr).1, by have := (h.1 r hr).2; omega⟩, h.2⟩

theorem RunsOK.snoc {p : Nat} {seq : List (Nat × Nat)} {r : Nat × Nat} (h : RunsOK p seq)
    (h1 : p ≤ r.1) (h2 : r.1 < r.2) : RunsOK r.2 (seq ++ [r]) := by
  constructor
  · intro x hx
    rcases List.mem_append.1 hx with hx | hx
    · have := h.1 x hx; omega
    · rw [List.mem_singleton.1 hx]; omega
  · rw [List.pairwise_append]
    refine ⟨h.2, List.pairwise_singleton _ _, ?_⟩
    intro a ha b hb
    rw [List.mem_singleton.1 hb]
    have := h.1 a ha
    omega

/-- every sequence held by the grouping state is `RunsOK p` -/
def StOK (p : Nat) (st : PrepState) : Prop :=
  (∀ seq ∈ st.stack, RunsOK p seq) ∧ (∀ seq ∈ st.done, RunsOK p seq)

theorem prepStep_stOK (ocs : List BidiClass) (st : PrepState) (r : Nat × Nat) (p : Nat)
    (h : StOK p st) (h1 : p ≤ r.1) (h2 : r.1 < r.2) : StOK r.2 (prepStep ocs st r) := by
  have hpq : p ≤ r.2 := by omega
  unfold prepStep
  simp only []
  have hnil : RunsOK r.2 ([] ++ [r]) := (RunsOK.nil p).snoc h1 h2
  by_cases c1 : (ocs.getD r.1 ON == PDI && decide (st.stack.length > 1)) = true
  · have hne : st.stack ≠ [] := by
      intro h; simp [h] at c1
    obtain ⟨top, rest, hst⟩ := List.exists_cons_of_ne_nil hne
    have htop : RunsOK r.2 (top ++ [r]) := (h.1 top (by simp [hst])).snoc h1 h2
    have hrest : ∀ seq ∈ rest, RunsOK r.2 seq := fun seq hs => (h.1 seq (by simp [hst, hs])).mono hpq
    rw [hst] at c1
    simp only [hst, c1, if_true, List.head!, List.tail_cons]
    split
    · refine ⟨?_, fun seq hs => (h.2 seq hs).mono hpq⟩
      intro seq hs
      rcases List.mem_cons.1 hs with rfl | hs
      · exact htop
      · exact hrest seq hs
    · refine ⟨hrest, ?_⟩
      intro seq hs
      rcases List.mem_append.1 hs with hs | hs
      · exact (h.2 seq hs).mono hpq
      · rw [List.mem_singleton.1 hs]; exact htop
  · simp only [c1]
    split
    · refine ⟨?_, fun seq hs => (h.2 seq hs).mono hpq⟩
      intro seq hs
      rcases List.mem_cons.1 hs with rfl | hs
      · exact hnil
      · exact (h.1 seq hs).mono hpq
    · refine ⟨fun seq hs => (h.1 seq hs).mono hpq, ?_⟩
      intro seq hs
      rcases List.mem_append.1 hs with hs | hs
      · exact (h.2 seq hs).mono hpq
      · rw [List.mem_singleton.1 hs]; exact hnil

theorem fold_stOK (ocs : List BidiClass) : ∀ (runs : List (Nat × Nat)) (p e : Nat) (st : PrepState),
    RunsTile p runs e → StOK p st → StOK e (runs.foldl (prepStep ocs) st)
  | [], p, e, st, ht, h => by
    simp only [RunsTile] at ht
    subst ht
    exact h
  | r :: runs, p, e, st, ht, h => by
    obtain ⟨h1, h2, h3⟩ := ht
    rw [List.foldl_cons]
    exact fold_stOK ocs runs r.2 e _ h3 (prepStep_stOK ocs st r p h (by omega) h2)

/-- the sequences built from a tiling list of level runs satisfy `SeqOK` -/
theorem sequences_ok_of_tile (n pl : Nat) (ocs : List BidiClass) (lv : List Nat) (runs : List (Nat × Nat))
    (hasIso : Bool) (ht : RunsTile 0 runs n) :
    ∀ seq ∈ (isolatingRunSequences pl ocs lv runs hasIso).1, SeqOK n seq := by
  intro seq hseq
  cases hasIso with
  | false =>
    simp only [isolatingRunSequences, Bool.not_false, if_true, List.mem_map] at hseq
    obtain ⟨r, hr, rfl⟩ := hseq
    have := ht.runsIn r hr
    exact ⟨by simpa [seqOfRunFast] using this, by simp [seqOfRunFast]⟩
  | true =>
    simp only [isolatingRunSequences, Bool.not_true, Bool.false_eq_true, if_false, List.map_map,
      List.mem_map, Function.comp] at hseq
    obtain ⟨rs, hrs, rfl⟩ := hseq
    have h0 : StOK 0 { stack := [[]], done := [] } := by
      constructor
      · intro seq hs
        simp only [List.mem_singleton] at hs
        subst hs
        exact RunsOK.nil 0
      · intro seq hs; simp at hs
    have hst := fold_stOK ocs runs 0 n _ ht h0
    have hok : RunsOK n rs := by
      rcases List.mem_append.1 hrs with hs | hs
      · exact hst.2 rs hs
      · exact hst.1 rs (List.mem_filter.1 hs).1
    unfold SeqOK
    rw [Lemmas.C07.seqBounds_runs]
    exact hok

theorem SeqOK.toN {n : Nat} {seq : IRSeq} (h : SeqOK n seq) : SeqOKN n seq :=
  SeqOKN.of_lt h.1

end Pipeline

open Pipeline

/-- the sequences the pipeline produces on the unitized text satisfy the side conditions of the stage
    lemmas (`SeqOK`, hence `SeqOKN`: `Pipeline.SeqOK.toN`) -/
theorem sequences_ok (t : Text) (hwf : t.WF) (pl : Nat) (ocs1 : List BidiClass)
    (hl : ocs1.length = t.segs.length) (hasIso : Bool) :
    let e1 := explicitCompute (unitize t) pl ocs1
    ∀ seq ∈ (isolatingRunSequences pl ocs1 e1.levels e1.runs hasIso).1, SeqOK t.segs.length seq := by
  intro e1
  exact sequences_ok_of_tile t.segs.length pl ocs1 e1.levels e1.runs hasIso
    (explicit_runs_shape t hwf pl ocs1 hl)

end UBidi.Expand
