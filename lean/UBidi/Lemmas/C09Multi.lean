/-
  C09 helper lemmas, part 4: the multi-paragraph analysis (`compute_initial_info … true`, `BidiInfo`),
  per character, for an arbitrary well-formed text.

  With `C10` (a paragraph analysed alone reproduces its slice of the whole-text analysis) the
  per-character classes and levels of the whole text are the concatenation over the paragraphs of
  what the single-paragraph analysis gives — a function of the characters of each paragraph only
  (`multi_classes_chars`, `multi_levels_chars`).
-/
import UBidi.Lemmas.C09Paras
import UBidi.Props.C10
namespace UBidi.Props.C09
open UBidi UBidi.BidiClass UBidi.Lemmas.C02
open UBidi.Props.C16 (paragraphsOf)

section
variable {ds : DataSource} {t : Text} {d : Option Nat} {chunks : List (List Seg)}

theorem chunk_para_mem (h : Chunks ds t d chunks) (ch : List Seg) (hch : ch ∈ chunks) :
    mkPara ds d ch ∈ (computeInitialInfo ds t d true).paras := by
  rw [h.paras]; exact List.mem_map_of_mem hch

/-- `C10`: the paragraph of a chunk, analysed alone -/
theorem chunk_good (hwf : t.WF) (h : Chunks ds t d chunks) (ch : List Seg) (hch : ch ∈ chunks) :
    ∃ f, Lemmas.C10.GoodPara ds t d (computeInitialInfo ds t d true).classes (computeInitialInfo ds t d true).err
      (mkPara ds d ch) f := by
  obtain ⟨f, _, hg, _⟩ := Lemmas.C10.parasFrom_mem (Lemmas.C10.paras_good ds t hwf d).1 _ (chunk_para_mem h ch hch)
  exact ⟨f, hg⟩

theorem chunk_subrange_raw (hwf : t.WF) (h : Chunks ds t d chunks) (ch : List Seg) (hch : ch ∈ chunks) :
    C02.raw ds (t.subrange (chunkStart ch) (chunkStop ch)) = clsOf ds ch := by
  have := congrArg (List.map ds.cls) (chunk_subrange_cps hwf h ch hch)
  simpa [C02.raw, clsOf, List.map_map, Function.comp_def] using this

/-- the classes of the splitting scan read at the character starts, paragraph by paragraph -/
theorem multi_classes_chunks (hwf : t.WF) (h : Chunks ds t d chunks) :
    Expand.contract t (computeInitialInfo ds t d true).classes .ON
      = (chunks.map (fun ch => (cRun d (clsOf ds ch)).cls)).flatten := by
  rw [contract_chunks hwf h]
  congr 1
  apply List.map_congr_left
  intro ch hch
  obtain ⟨f, hw, _, g1, _⟩ := chunk_good hwf h ch hch
  have g1' : (computeInitialInfo ds (t.subrange (chunkStart ch) (chunkStop ch)) d false).classes
      = slice (computeInitialInfo ds t d true).classes (chunkStart ch) (chunkStop ch) := g1
  have hw' : (t.subrange (chunkStart ch) (chunkStop ch)).WF := hw
  rw [← g1', single_contract ds _ d hw', chunk_subrange_raw hwf h ch hch]

end

/-- the classes of the splitting scan, read at the first unit of every character, are a function of the
    raw classes: X5c (as the per-character machine `cRun` of C02 performs it) on every P1 paragraph -/
theorem multi_classes_chars (ds : DataSource) (t : Text) (d : Option Nat) (hwf : t.WF) :
    Expand.contract t (computeInitialInfo ds t d true).classes .ON
      = ((paragraphsOf (C02.raw ds t)).map (fun p => (cRun d p).cls)).flatten := by
  obtain ⟨chunks, h⟩ := paras_structure ds t d hwf
  rw [multi_classes_chunks hwf h, ← h.classes, List.map_map]
  rfl

/-- the levels of `BidiInfo` read at the first unit of every character: paragraph by paragraph, the levels
    of `ParagraphBidiInfo` of the paragraph's characters laid out one unit per character -/
theorem multi_levels_chunks {ds : DataSource} {t : Text} {d : Option Nat} {chunks : List (List Seg)}
    (hwf : t.WF) (h : Chunks ds t d chunks)
    (hexp : ∀ p ∈ (bidiInfo ds t d).paras, PbiExpand ds (t.subrange p.start p.stop) d) (x : Nat) :
    Expand.contract t (bidiInfo ds t d).levels x
      = ((chunks.map (·.map (·.cp))).map (fun cps => (paragraphBidiInfo ds (charText cps) d).levels)).flatten := by
  rw [contract_chunks hwf h, List.map_map]
  congr 1
  apply List.map_congr_left
  intro ch hch
  have hp : mkPara ds d ch ∈ (bidiInfo ds t d).paras := chunk_para_mem h ch hch
  obtain ⟨f, hw, _⟩ := chunk_good hwf h ch hch
  have hw' : (t.subrange (chunkStart ch) (chunkStop ch)).WF := hw
  have hs : (paragraphBidiInfo ds (t.subrange (chunkStart ch) (chunkStop ch)) d).levels
      = slice (bidiInfo ds t d).levels (chunkStart ch) (chunkStop ch) := by
    have := (C10.C10_slice ds t hwf d _ hp).2.1
    simpa only [mkPara] using this
  have he : PbiExpand ds (t.subrange (chunkStart ch) (chunkStop ch)) d := by
    have := hexp _ hp
    simpa only [mkPara] using this
  simp only [Function.comp]
  rw [← hs, pbi_contract ds _ d hw' he x, unitize_eq_charText,
    chunk_subrange_cps hwf h ch hch]

/-- two well-formed texts with the same characters: same per-character levels from `BidiInfo` -/
theorem multi_levels_sameChars {ds : DataSource} {t t' : Text} {d : Option Nat} (hs : SameChars t t')
    (hwf : t.WF) (hwf' : t'.WF)
    (hexp : ∀ p ∈ (bidiInfo ds t d).paras, PbiExpand ds (t.subrange p.start p.stop) d)
    (hexp' : ∀ p ∈ (bidiInfo ds t' d).paras, PbiExpand ds (t'.subrange p.start p.stop) d) (x : Nat) :
    Expand.contract t (bidiInfo ds t d).levels x = Expand.contract t' (bidiInfo ds t' d).levels x := by
  obtain ⟨chunks, h⟩ := paras_structure ds t d hwf
  obtain ⟨chunks', h'⟩ := paras_structure ds t' d hwf'
  rw [multi_levels_chunks hwf h hexp x, multi_levels_chunks hwf' h' hexp' x, chunks_sameChars h h' hs]

end UBidi.Props.C09
