/-
  UBidi.Lemmas.C01WeakMatch — for StageW layer 2 (sequences that contain BN):
  a spec-side bridging lemma and the predicate `Match` that describes a result
  array relative to the spec output of the BN-free sequence.
-/
import UBidi.Lemmas.C01Weak
namespace UBidi.Lemmas.C01Weak
open UBidi UBidi.Spec BidiClass

/-- after a separator that W6 turned into ON the state `(sep, sep)` of the pass is
    indistinguishable from `(ON, ON)` -/
theorem W_sep_ON (sep : BidiClass) (hsep : sep = ES ∨ sep = CS) (al : Bool) (ts : List BidiClass) :
    W sep al sep ON ts = W ON al ON ON ts := by
  induction ts generalizing al with
  | nil => simp [W_nil]
  | cons d ts ih =>
    rw [W_cons L (Or.inl rfl), W_cons L (Or.inl rfl)]
    by_cases hd : d = NSM
    · subst hd
      have h1 : sC1 sep NSM = sep := by rcases hsep with rfl | rfl <;> rfl
      have h1' : sC1 ON NSM = ON := rfl
      have h2 : sC2 al sep = sep := by rcases hsep with rfl | rfl <;> rfl
      have h3 : sAL al sep = al := by rcases hsep with rfl | rfl <;> rfl
      have h5 : ∀ nx, sM5 sep ON sep nx = ON := by intro nx; rcases hsep with rfl | rfl <;> rfl
      rw [h1, h1', h2, h3, h5]
      have : sC2 al ON = ON := rfl
      have h3' : sAL al ON = al := rfl
      have h5' : ∀ nx, sM5 ON ON ON nx = ON := fun _ => rfl
      rw [this, h3', h5', ih]
      rfl
    · have h1 : sC1 sep d = d := by simp [sC1, hd]
      have h1' : sC1 ON d = d := by simp [sC1, hd]
      rw [h1, h1']
      have h5 : ∀ nx, sM5 sep ON (sC2 al d) nx = sM5 ON ON (sC2 al d) nx := by
        intro nx
        generalize sC2 al d = c2
        rcases hsep with rfl | rfl <;> cases c2 <;> rfl
      rw [h5]


/-! ### the shape of a result on a sequence that contains BN -/

/-- the types X9 does not remove, plus BN: what reaches `resolve_weak` -/
def okCls (c : BidiClass) : Bool := c == BN || notRemoved c

/-- drop the BN units -/
def fl (cs : List BidiClass) : List BidiClass := cs.filter (· ≠ BN)

/-- `Match ok cs res sp`: `res` has the length of `cs`, carries `sp` on the non-BN
    positions of `cs` in order, and a value accepted by `ok` on the BN positions -/
def Match (ok : BidiClass → Bool) : List BidiClass → List BidiClass → List BidiClass → Prop
  | [], [], [] => True
  | c :: cs, r :: rs, sp =>
    if c = BN then ok r = true ∧ Match ok cs rs sp
    else (match sp with
          | s :: sp' => r = s ∧ Match ok cs rs sp'
          | [] => False)
  | _, _, _ => False

theorem Match_nil (ok : BidiClass → Bool) : Match ok [] [] [] := by simp [Match]

theorem Match_cons_BN (ok : BidiClass → Bool) (cs : List BidiClass) (r : BidiClass) (rs sp : List BidiClass) :
    Match ok (BN :: cs) (r :: rs) sp ↔ (ok r = true ∧ Match ok cs rs sp) := by
  simp [Match]

theorem Match_cons_ne (ok : BidiClass → Bool) (c : BidiClass) (hc : c ≠ BN) (cs : List BidiClass) (r : BidiClass)
    (rs : List BidiClass) (s : BidiClass) (sp : List BidiClass) :
    Match ok (c :: cs) (r :: rs) (s :: sp) ↔ (r = s ∧ Match ok cs rs sp) := by
  simp [Match, hc]

theorem Match_append (ok : BidiClass → Bool) (a ra sa b rb sb : List BidiClass)
    (h1 : Match ok a ra sa) (h2 : Match ok b rb sb) : Match ok (a ++ b) (ra ++ rb) (sa ++ sb) := by
  induction a generalizing ra sa with
  | nil =>
    cases ra <;> cases sa <;> simp_all [Match]
  | cons c a ih =>
    cases ra with
    | nil => simp [Match] at h1
    | cons r ra =>
      by_cases hc : c = BN
      · subst hc
        rw [Match_cons_BN] at h1
        simp only [List.cons_append]
        rw [Match_cons_BN]
        exact ⟨h1.1, ih _ _ h1.2⟩
      · cases sa with
        | nil => simp [Match, hc] at h1
        | cons s sa =>
          rw [Match_cons_ne _ _ hc] at h1
          simp only [List.cons_append]
          rw [Match_cons_ne _ _ hc]
          exact ⟨h1.1, ih _ _ h1.2⟩

theorem Match_BNs (ok : BidiClass → Bool) (bs : List BidiClass) (h : ∀ x ∈ bs, ok x = true) :
    Match ok (List.replicate bs.length BN) bs [] := by
  induction bs with
  | nil => exact Match_nil ok
  | cons x bs ih =>
    simp only [List.length_cons, List.replicate_succ]
    rw [Match_cons_BN]
    exact ⟨h x (by simp), ih (fun y hy => h y (by simp [hy]))⟩

theorem Match_length {ok : BidiClass → Bool} {cs res sp : List BidiClass} (h : Match ok cs res sp) :
    res.length = cs.length := by
  induction cs generalizing res sp with
  | nil => cases res <;> cases sp <;> simp_all [Match]
  | cons c cs ih =>
    cases res with
    | nil => simp [Match] at h
    | cons r rs =>
      by_cases hc : c = BN
      · subst hc
        rw [Match_cons_BN] at h
        simp [ih h.2]
      · cases sp with
        | nil => simp [Match, hc] at h
        | cons s sp =>
          rw [Match_cons_ne _ _ hc] at h
          simp [ih h.2]

theorem Match_mono {ok ok' : BidiClass → Bool} (hok : ∀ x, ok x = true → ok' x = true) {cs res sp : List BidiClass}
    (h : Match ok cs res sp) : Match ok' cs res sp := by
  induction cs generalizing res sp with
  | nil => cases res <;> cases sp <;> simp_all [Match]
  | cons c cs ih =>
    cases res with
    | nil => simp [Match] at h
    | cons r rs =>
      by_cases hc : c = BN
      · subst hc
        rw [Match_cons_BN] at h ⊢
        exact ⟨hok _ h.1, ih h.2⟩
      · cases sp with
        | nil => simp [Match, hc] at h
        | cons s sp =>
          rw [Match_cons_ne _ _ hc] at h ⊢
          exact ⟨h.1, ih h.2⟩

/-- `Match` in the terms of the requested statement -/
theorem Match_spec {ok : BidiClass → Bool} {cs res sp : List BidiClass} (h : Match ok cs res sp) :
    (res.zip cs).filterMap (fun (o, c) => if c = BN then none else some o) = sp ∧
    (∀ i : Nat, cs[i]? = some BN → ∃ r, res[i]? = some r ∧ ok r = true) ∧ res.length = cs.length := by
  induction cs generalizing res sp with
  | nil => cases res <;> cases sp <;> simp_all [Match]
  | cons c cs ih =>
    cases res with
    | nil => simp [Match] at h
    | cons r rs =>
      by_cases hc : c = BN
      · subst hc
        rw [Match_cons_BN] at h
        obtain ⟨h1, h2, h3⟩ := ih h.2
        refine ⟨by simpa using h1, ?_, by simp [h3]⟩
        intro i hi
        cases i with
        | zero => exact ⟨r, by simp, h.1⟩
        | succ i => simpa using h2 i (by simpa using hi)
      · cases sp with
        | nil => simp [Match, hc] at h
        | cons s sp =>
          rw [Match_cons_ne _ _ hc] at h
          obtain ⟨h1, h2, h3⟩ := ih h.2
          refine ⟨by simp [hc, h.1, h1], ?_, by simp [h3]⟩
          intro i hi
          cases i with
          | zero => simp at hi; exact absurd hi hc
          | succ i => simpa using h2 i (by simpa using hi)


end UBidi.Lemmas.C01Weak
