/-
  Helper lemmas for C10, second half (a paragraph analysed alone agrees with its part of the whole-text analysis):
  * `Sim` / `sim_step` / `sim_fold`: the scanner of `compute_initial_info`, started fresh at offset `off`, simulates the
    scanner of the rest of the text analysed alone (positions shifted by `off`);
  * `para_B`, `para_last`: one paragraph of the splitting scan;
  * `paras_structure`, `paras_good`: every paragraph reported for a well-formed text, by induction on the
    number of separators;
  * `levels_fold`: the paragraph loop of `BidiInfo::new_with_data_source` concatenates the per-paragraph levels
    (uses `paraLevels_length` from Lemmas/C01Base).
-/
import UBidi.Lemmas.C10
import UBidi.Lemmas.C01Base
import UBidi.Lemmas.C02Sim
namespace UBidi.Lemmas.C10
open UBidi BidiClass
open UBidi.Lemmas.C02 (widthAt widthAt_of_charAt iiStepW iiStep_eq)

local instance : LawfulBEq BidiClass where
  eq_of_beq {a b} h := by cases a <;> cases b <;> first | rfl | cases h
  rfl {a} := by cases a <;> rfl

theorem orErr_assoc (a b c : Option Panic) : orErr (orErr a b) c = orErr a (orErr b c) := by
  cases a <;> simp [orErr]

theorem orErr_none_right (a : Option Panic) : orErr a none = a := by cases a <;> rfl

theorem orErr_eq_none (a b : Option Panic) : orErr a b = none ↔ a = none ∧ b = none := by
  cases a <;> simp [orErr]

theorem setRange_append_right {α} (C xs : List α) (i n : Nat) (v : α) :
    setRange (C ++ xs) (i + C.length) n v = C ++ setRange xs i n v := by
  induction n generalizing xs with
  | zero => rfl
  | succ n ih =>
    simp only [setRange]
    rw [← ih]
    congr 1
    rw [List.set_append]
    have : ¬ (i + C.length + n < C.length) := by omega
    simp only [this, if_false]
    congr 2; omega

theorem getD_append_shift {α} (C xs : List α) (i : Nat) (dflt : α) :
    (C ++ xs).getD (i + C.length) dflt = xs.getD i dflt := by
  simp [List.getD, List.getElem?_append_right]

theorem getElem?_append_shift {α} (C xs : List α) (i : Nat) : (C ++ xs)[i + C.length]? = xs[i]? := by
  simp [List.getElem?_append_right]

theorem le_shift (a c n m : Nat) : a + c + n ≤ c + m ↔ a + n ≤ m := by omega

/-- the scanner state inside the whole text (`big`) against the scanner state of the text that starts
    at offset `off` analysed alone (`small`) -/
structure Sim (off : Nat) (C : List BidiClass) (P : List ParaInfo) (F : List Flags) (E : Option Panic)
    (big small : IIState) : Prop where
  classes : big.classes = C ++ small.classes
  stack : big.stack = small.stack.map (· + off)
  paraStart : big.paraStart = small.paraStart + off
  paraLevel : big.paraLevel = small.paraLevel
  pureLtr : big.pureLtr = small.pureLtr
  hasIso : big.hasIso = small.hasIso
  paras : big.paras = P ++ small.paras.map (fun p => { p with start := p.start + off, stop := p.stop + off })
  flags : big.flags = F ++ small.flags
  err : big.err = orErr E small.err

theorem sim_step (ds : DataSource) (T T' : Text) (henc : T'.enc = T.enc) (split : Bool) (d : Option Nat)
    (off : Nat) (C : List BidiClass) (P : List ParaInfo) (F : List Flags) (E : Option Panic) (hC : C.length = off)
    (big small : IIState) (s : Seg) (hs : off ≤ s.start) (h : Sim off C P F E big small)
    (hw : ∀ k ∈ small.stack.head?, widthAt T (k + off) = widthAt T' k) :
    Sim off C P F E (iiStep ds T split d big s) (iiStep ds T' split d small { s with start := s.start - off }) := by
  rw [iiStep_eq, iiStep_eq, henc]
  generalize T.enc = enc
  obtain ⟨h1, h2, h3, h4, h5, h6, h7, h8, h9⟩ := h
  obtain ⟨bcl, bstk, bps, bpl, bplt, bhi, bprs, bfl, ber⟩ := big
  obtain ⟨cl, stk, ps, pl, plt, hi, prs, fl, er⟩ := small
  simp only at h1 h2 h3 h4 h5 h6 h7 h8 h9
  subst h1 h2 h3 h4 h5 h6 h7 h8 h9
  subst hC
  have hst : s.start = (s.start - C.length) + C.length := by omega
  generalize hcls : ds.cls s.cp = cls
  cases stk with
  | nil =>
    cases cls <;> cases split <;> simp [iiStepW, hcls] <;> (try split) <;> constructor <;> simp <;> (try omega)
  | cons a rest =>
    have hwa : widthAt T (a + C.length) = widthAt T' a := hw a (by simp)
    cases cls <;> cases split <;>
      simp [iiStepW, hcls, hwa, getElem?_append_shift, setRange_append_right, orErr_assoc] <;>
      (try split) <;> constructor <;> simp [le_shift] <;> (try omega)

/-- the stack after a step holds old entries and possibly the start of the character read -/
theorem iiStep_stack_mem (ds : DataSource) (T : Text) (split : Bool) (d : Option Nat) (st : IIState) (s : Seg) :
    ∀ k ∈ (iiStep ds T split d st s).stack, k = s.start ∨ k ∈ st.stack := by
  intro k hk
  rw [C02.iiStep_stack] at hk
  split at hk
  · split at hk
    · simp at hk
    · exact Or.inr hk
  · split at hk
    · simpa using hk
    · split at hk
      · exact Or.inr (List.mem_of_mem_tail hk)
      · exact Or.inr hk

theorem sim_fold (ds : DataSource) (T T' : Text) (henc : T'.enc = T.enc) (split : Bool) (d : Option Nat)
    (off : Nat) (C : List BidiClass) (P : List ParaInfo) (F : List Flags) (E : Option Panic) (hC : C.length = off)
    (segs : List Seg) (hs : ∀ s ∈ segs, off ≤ s.start)
    (hws : ∀ s ∈ segs, widthAt T s.start = widthAt T' (s.start - off))
    (big small : IIState) (h : Sim off C P F E big small)
    (hw : ∀ k ∈ small.stack, widthAt T (k + off) = widthAt T' k) :
    Sim off C P F E (segs.foldl (iiStep ds T split d) big)
      ((segs.map (fun s => { s with start := s.start - off })).foldl (iiStep ds T' split d) small) := by
  induction segs generalizing big small with
  | nil => exact h
  | cons s ss ih =>
    simp only [List.foldl_cons, List.map_cons]
    refine ih (fun x hx => hs x (by simp [hx])) (fun x hx => hws x (by simp [hx])) _ _
      (sim_step ds T T' henc split d off C P F E hC big small s (hs s (by simp)) h
        (fun k hk => hw k (List.mem_of_mem_head? hk))) ?_
    intro k hk
    rcases iiStep_stack_mem ds T' split d small _ k hk with hk | hk
    · have h1 := hs s (by simp)
      have h2 := hws s (by simp)
      simp only at hk
      rw [hk, show s.start - off + off = s.start by omega]; exact h2
    · exact hw k hk

/-- the state right after a paragraph separator (or at the very beginning): nothing pending -/
structure Fresh (d : Option Nat) (st : IIState) (pos : Nat) : Prop where
  stack : st.stack = []
  paraStart : st.paraStart = pos
  len : st.classes.length = pos
  paraLevel : st.paraLevel = d
  pureLtr : st.pureLtr = true
  hasIso : st.hasIso = false

theorem fresh_init (d : Option Nat) : Fresh d { paraLevel := d } 0 := ⟨rfl, rfl, rfl, rfl, rfl, rfl⟩

theorem Fresh.sim {d : Option Nat} {st : IIState} {pos : Nat} (h : Fresh d st pos) :
    Sim pos st.classes st.paras st.flags st.err st { paraLevel := d } := by
  obtain ⟨h1, h2, h3, h4, h5, h6⟩ := h
  constructor <;> simp [*, orErr_none_right]

/-- the end of `compute_initial_info`: close the last paragraph -/
def finishII (len : Nat) (split : Bool) (st : IIState) : InitialOut :=
  let (paras, flags) :=
    if split && st.paraStart < len then
      (st.paras ++ [{ start := st.paraStart, stop := len, level := st.paraLevel.getD 0 }],
       st.flags ++ [{ pureLtr := st.pureLtr, hasIso := st.hasIso }])
    else (st.paras, st.flags)
  { classes := st.classes, paras := paras, flags := flags,
    lastLevel := st.paraLevel.getD 0, lastPureLtr := st.pureLtr, lastHasIso := st.hasIso,
    err := st.err }

theorem cii_eq (ds : DataSource) (t : Text) (d : Option Nat) (split : Bool) :
    computeInitialInfo ds t d split =
      finishII t.len split (t.segs.foldl (iiStep ds t split d) { paraLevel := d }) := rfl

theorem segsFrom_append (pos e : Nat) (xs ys : List Seg) :
    SegsFrom pos (xs ++ ys) e ↔ ∃ m, SegsFrom pos xs m ∧ SegsFrom m ys e := by
  induction xs generalizing pos with
  | nil => simp [SegsFrom]
  | cons x xs ih =>
    simp only [List.cons_append, SegsFrom, ih]
    constructor
    · rintro ⟨h1, h2, m, h3, h4⟩; exact ⟨m, ⟨h1, h2, h3⟩, h4⟩
    · rintro ⟨m, ⟨h1, h2, h3⟩, h4⟩; exact ⟨h1, h2, m, h3, h4⟩

theorem segsFrom_shift (pos e off : Nat) (segs : List Seg) (h : SegsFrom pos segs e) (ho : off ≤ pos) :
    SegsFrom (pos - off) (segs.map (fun s => { s with start := s.start - off })) (e - off) := by
  induction segs generalizing pos with
  | nil => simp [SegsFrom] at h ⊢; omega
  | cons s ss ih =>
    obtain ⟨h1, h2, h3⟩ := h
    refine ⟨by simp [h1], h2, ?_⟩
    have := ih (pos + s.len) h3 (by omega)
    simp only at this ⊢
    rw [show pos - off + s.len = pos + s.len - off by omega]
    exact this

/-- the sub-range of a text between two character boundaries, described by the split of its characters -/
theorem subrange_mid (t : Text) (pre mid post : List Seg) (a b : Nat) (h : t.segs = pre ++ mid ++ post)
    (h1 : SegsFrom 0 pre a) (h2 : SegsFrom a mid b) (h3 : SegsFrom b post t.len) :
    t.subrange a b = { enc := t.enc, len := b - a, segs := mid.map (fun s => { s with start := s.start - a }) } := by
  have b1 := (segsFrom_bounds _ _ _ h1).2
  have b2 := (segsFrom_bounds _ _ _ h2).2
  have b3 := (segsFrom_bounds _ _ _ h3).2
  simp only [Text.subrange, h, List.filter_append]
  rw [List.filter_eq_nil_iff.mpr (fun s hs => by have := b1 s hs; simp; omega),
    List.filter_eq_self.mpr (fun s hs => by have := b2 s hs; simp; omega),
    List.filter_eq_nil_iff.mpr (fun s hs => by have := b3 s hs; simp; omega)]
  simp

theorem subrange_mid_WF (t : Text) (mid : List Seg) (a b : Nat) (hl : ∀ s ∈ mid, s.len = t.enc.charLen s.cp)
    (h2 : SegsFrom a mid b) :
    ({ enc := t.enc, len := b - a, segs := mid.map (fun s => { s with start := s.start - a }) } : Text).WF := by
  constructor
  · have := segsFrom_shift a b a mid h2 (Nat.le_refl _)
    simpa using this
  · intro s hs
    simp only [List.mem_map] at hs
    obtain ⟨s', hs', rfl⟩ := hs
    exact hl s' hs'


/-- the width of a character of the whole text is its width in the text of its paragraph alone -/
theorem widthAt_shift (T : Text) (enc : Enc) (segs : List Seg) (pos e : Nat) (hseg : SegsFrom pos segs e)
    (hat : ∀ s ∈ segs, T.charAt s.start = some s) :
    ∀ s ∈ segs, widthAt T s.start
      = widthAt ⟨enc, e - pos, segs.map (fun s => { s with start := s.start - pos })⟩ (s.start - pos) := by
  intro s hs
  rw [widthAt_of_charAt (hat s hs)]
  have h1 := segsFrom_shift pos e pos segs hseg (Nat.le_refl _)
  have h2 := C02.segsFrom_find_start _ _ _ h1 { s with start := s.start - pos } (List.mem_map_of_mem hs)
  have h3 : (⟨enc, e - pos, segs.map (fun s => { s with start := s.start - pos })⟩ : Text).charAt (s.start - pos)
      = some { s with start := s.start - pos } := h2
  rw [widthAt_of_charAt h3]

/-- one paragraph that ends in a separator: the splitting scan, started fresh at `pos`, appends exactly what the
    non-splitting scan of the paragraph alone computes, and is fresh again afterwards -/
theorem para_B (ds : DataSource) (T : Text) (d : Option Nat) (st : IIState) (pos pos2 : Nat)
    (body : List Seg) (bseg : Seg) (hf : Fresh d st pos) (hseg : SegsFrom pos (body ++ [bseg]) pos2)
    (hl : ∀ s ∈ body ++ [bseg], s.len = T.enc.charLen s.cp)
    (hat : ∀ s ∈ body ++ [bseg], T.charAt s.start = some s)
    (hnb : ∀ s ∈ body, ds.cls s.cp ≠ B) (hb : ds.cls bseg.cp = B) :
    let st2 := (body ++ [bseg]).foldl (iiStep ds T true d) st
    let o := computeInitialInfo ds ⟨T.enc, pos2 - pos, (body ++ [bseg]).map (fun s => { s with start := s.start - pos })⟩ d false
    Fresh d st2 pos2 ∧ st2.classes = st.classes ++ o.classes ∧
    st2.paras = st.paras ++ [{ start := pos, stop := pos2, level := o.lastLevel }] ∧
    st2.flags = st.flags ++ [{ pureLtr := o.lastPureLtr, hasIso := o.lastHasIso }] ∧
    st2.err = orErr st.err o.err ∧ o.classes.length = pos2 - pos := by
  intro st2 o
  let T' : Text := ⟨T.enc, pos2 - pos, (body ++ [bseg]).map (fun s => { s with start := s.start - pos })⟩
  have hlen2 : st2.classes.length = pos2 :=
    foldl_classes_length ds T true d (body ++ [bseg]) st pos pos2 hseg hl hf.len
  have hend : bseg.start + T.enc.charLen bseg.cp = pos2 := by
    have := segsFrom_last _ _ _ _ hseg
    rw [hl bseg (by simp)] at this; exact this
  have hbnd := (segsFrom_bounds _ _ _ hseg).2
  obtain ⟨e1, e2, e3, e4⟩ := foldl_noB ds T d body st hnb
  have hsim := sim_fold ds T T' rfl false d pos st.classes st.paras st.flags st.err hf.len body
    (fun s hs => (hbnd s (by simp [hs])).1)
    (fun s hs => widthAt_shift T T.enc (body ++ [bseg]) pos pos2 hseg hat s (by simp [hs]))
    st { paraLevel := d } hf.sim (by simp)
  have hst2 : st2 = iiStep ds T true d (body.foldl (iiStep ds T false d) st) bseg := by
    simp only [st2, List.foldl_append, List.foldl_cons, List.foldl_nil, e1]
  have ho : o = finishII (pos2 - pos) false
      (iiStep ds T' false d ((body.map (fun s => { s with start := s.start - pos })).foldl
        (iiStep ds T' false d) { paraLevel := d }) { bseg with start := bseg.start - pos }) := by
    simp only [o, cii_eq, T', List.map_append, List.foldl_append, List.map_cons, List.map_nil,
      List.foldl_cons, List.foldl_nil]
  generalize body.foldl (iiStep ds T false d) st = stA at *
  generalize (body.map (fun s => { s with start := s.start - pos })).foldl
    (iiStep ds T' false d) { paraLevel := d } = sB at *
  obtain ⟨s1, s2, s3, s4, s5, s6, s7, s8, s9⟩ := hsim
  have hencT : T'.enc = T.enc := rfl
  have hcl : st2.classes = st.classes ++ o.classes := by
    rw [hst2, ho]; simp [iiStep, hb, finishII, s1, hencT]
  refine ⟨⟨?_, ?_, hlen2, ?_, ?_, ?_⟩, hcl, ?_, ?_, ?_, ?_⟩
  · rw [hst2]; simp [iiStep, hb]
  · rw [hst2]; simp [iiStep, hb, hend]
  · rw [hst2]; simp [iiStep, hb]
  · rw [hst2]; simp [iiStep, hb]
  · rw [hst2]; simp [iiStep, hb]
  · rw [hst2, ho]; simp [iiStep, hb, finishII, e2, e4, hend, s4, hf.paraStart]
  · rw [hst2, ho]; simp [iiStep, hb, finishII, e3, s5, s6]
  · rw [hst2, ho]; simp [iiStep, hb, finishII, s9]
  · have := congrArg List.length hcl
    rw [hlen2, List.length_append, hf.len] at this
    omega


/-- the last paragraph (no separator): what the splitting scan adds at the end is what the non-splitting scan of
    the rest alone computes -/
theorem para_last (ds : DataSource) (T : Text) (d : Option Nat) (st : IIState) (pos len : Nat)
    (segs : List Seg) (hf : Fresh d st pos) (hseg : SegsFrom pos segs len)
    (hl : ∀ s ∈ segs, s.len = T.enc.charLen s.cp)
    (hat : ∀ s ∈ segs, T.charAt s.start = some s) (hnb : ∀ s ∈ segs, ds.cls s.cp ≠ B) :
    let out := finishII len true (segs.foldl (iiStep ds T true d) st)
    let o := computeInitialInfo ds ⟨T.enc, len - pos, segs.map (fun s => { s with start := s.start - pos })⟩ d false
    out.classes = st.classes ++ o.classes ∧ out.err = orErr st.err o.err ∧ o.classes.length = len - pos ∧
    (pos < len → out.paras = st.paras ++ [{ start := pos, stop := len, level := o.lastLevel }] ∧
                 out.flags = st.flags ++ [{ pureLtr := o.lastPureLtr, hasIso := o.lastHasIso }]) ∧
    (¬ pos < len → out.paras = st.paras ∧ out.flags = st.flags) := by
  intro out o
  let T' : Text := ⟨T.enc, len - pos, segs.map (fun s => { s with start := s.start - pos })⟩
  have hlen2 := foldl_classes_length ds T true d segs st pos len hseg hl hf.len
  have hbnd := (segsFrom_bounds _ _ _ hseg).2
  obtain ⟨e1, e2, e3, e4⟩ := foldl_noB ds T d segs st hnb
  have hsim := sim_fold ds T T' rfl false d pos st.classes st.paras st.flags st.err hf.len segs
    (fun s hs => (hbnd s hs).1) (widthAt_shift T T.enc segs pos len hseg hat)
    st { paraLevel := d } hf.sim (by simp)
  have hout : out = finishII len true (segs.foldl (iiStep ds T false d) st) := by simp only [out, e1]
  have ho : o = finishII (len - pos) false ((segs.map (fun s => { s with start := s.start - pos })).foldl
        (iiStep ds T' false d) { paraLevel := d }) := by simp only [o, cii_eq, T']
  rw [e1] at hlen2
  generalize segs.foldl (iiStep ds T false d) st = stA at *
  generalize (segs.map (fun s => { s with start := s.start - pos })).foldl
    (iiStep ds T' false d) { paraLevel := d } = sB at *
  obtain ⟨s1, s2, s3, s4, s5, s6, s7, s8, s9⟩ := hsim
  have hcl : out.classes = st.classes ++ o.classes := by rw [hout, ho]; simp [finishII, s1]
  refine ⟨hcl, ?_, ?_, ?_, ?_⟩
  · rw [hout, ho]; simp [finishII, s9]
  · have := congrArg List.length hcl
    rw [hout] at this
    simp only [finishII] at this
    rw [hlen2, List.length_append, hf.len] at this
    omega
  · intro hlt
    rw [hout, ho]
    simp [finishII, e2, e3, e4, hf.paraStart, hlt, s4, s5, s6]
  · intro hlt
    rw [hout]
    simp [finishII, e2, e3, e4, hf.paraStart, hlt]


theorem split_first_B (ds : DataSource) (segs : List Seg) :
    (∀ s ∈ segs, ds.cls s.cp ≠ B) ∨
    ∃ body bseg rest, segs = body ++ bseg :: rest ∧ (∀ s ∈ body, ds.cls s.cp ≠ B) ∧ ds.cls bseg.cp = B := by
  induction segs with
  | nil => left; simp
  | cons x xs ih =>
    by_cases hx : ds.cls x.cp = B
    · right; exact ⟨[], x, xs, rfl, by simp, hx⟩
    · rcases ih with h | ⟨body, bseg, rest, h1, h2, h3⟩
      · left; intro s hs; rcases List.mem_cons.mp hs with rfl | hs
        · exact hx
        · exact h s hs
      · right; refine ⟨x :: body, bseg, rest, by simp [h1], ?_, h3⟩
        intro s hs; rcases List.mem_cons.mp hs with rfl | hs
        · exact hx
        · exact h2 s hs

theorem slice_append_mid {α} (A M R : List α) (a b : Nat) (ha : A.length = a) (hm : M.length = b - a) (hab : a ≤ b) :
    slice (A ++ M ++ R) a b = M := by
  subst ha
  simp only [slice, List.append_assoc, List.drop_left']
  rw [List.take_append_of_le_length (by omega), List.take_of_length_le (by omega)]

/-- paragraphs tile `[pos, e)`, are non-empty, and each satisfies `G` together with its flags -/
def ParasFrom (G : ParaInfo → Flags → Prop) : Nat → List ParaInfo → List Flags → Nat → Prop
  | pos, [], [], e => pos = e
  | pos, p :: ps, f :: fs, e => p.start = pos ∧ p.start < p.stop ∧ G p f ∧ ParasFrom G p.stop ps fs e
  | _, _, _, _ => False

/-- what the analysis of paragraph `p` alone has to do with the whole-text scan (`classes`, `err` are the
    whole-text results, `f` the paragraph's flags) -/
def GoodPara (ds : DataSource) (t : Text) (d : Option Nat) (classes : List BidiClass) (err : Option Panic)
    (p : ParaInfo) (f : Flags) : Prop :=
  (t.subrange p.start p.stop).WF ∧
  (∀ s ∈ (t.subrange p.start p.stop).segs.dropLast, ds.cls s.cp ≠ B) ∧
  (computeInitialInfo ds (t.subrange p.start p.stop) d false).classes = slice classes p.start p.stop ∧
  (computeInitialInfo ds (t.subrange p.start p.stop) d false).lastLevel = p.level ∧
  (computeInitialInfo ds (t.subrange p.start p.stop) d false).lastPureLtr = f.pureLtr ∧
  (computeInitialInfo ds (t.subrange p.start p.stop) d false).lastHasIso = f.hasIso ∧
  (err = none → (computeInitialInfo ds (t.subrange p.start p.stop) d false).err = none)

theorem paras_structure (ds : DataSource) (t : Text) (d : Option Nat) :
    ∀ n, ∀ pre segs : List Seg, segs.length ≤ n → t.segs = pre ++ segs →
    ∀ st pos, Fresh d st pos → SegsFrom 0 pre pos → SegsFrom pos segs t.len →
    (∀ s ∈ segs, s.len = t.enc.charLen s.cp) → (∀ s ∈ segs, t.charAt s.start = some s) →
    ∃ C' P' F' e',
      (finishII t.len true (segs.foldl (iiStep ds t true d) st)).classes = st.classes ++ C' ∧
      (finishII t.len true (segs.foldl (iiStep ds t true d) st)).paras = st.paras ++ P' ∧
      (finishII t.len true (segs.foldl (iiStep ds t true d) st)).flags = st.flags ++ F' ∧
      (finishII t.len true (segs.foldl (iiStep ds t true d) st)).err = orErr st.err e' ∧
      ((∀ p f, (p, f) ∈ P'.zip F' → (computeInitialInfo ds (t.subrange p.start p.stop) d false).err = none) → e' = none) ∧
      ParasFrom (GoodPara ds t d (finishII t.len true (segs.foldl (iiStep ds t true d) st)).classes
        (finishII t.len true (segs.foldl (iiStep ds t true d) st)).err) pos P' F' t.len := by
  intro n
  induction n with
  | zero =>
    intro pre segs hn hsegs st pos hf hpre hseg hl hat
    have : segs = [] := List.eq_nil_of_length_eq_zero (by omega)
    subst this
    simp only [SegsFrom] at hseg
    refine ⟨[], [], [], none, ?_, ?_, ?_, ?_, ?_, ?_⟩ <;>
      simp [finishII, hf.paraStart, hseg, orErr_none_right, ParasFrom]
  | succ n ih =>
    intro pre segs hn hsegs st pos hf hpre hseg hl hat
    rcases split_first_B ds segs with hnb | ⟨body, bseg, rest, hsplit, hnb, hb⟩
    · -- the last paragraph
      obtain ⟨c1, c2, c3, c4, c5⟩ := para_last ds t d st pos t.len segs hf hseg hl hat hnb
      have hple := (segsFrom_bounds _ _ _ hseg).1
      by_cases hlt : pos < t.len
      · obtain ⟨c4a, c4b⟩ := c4 hlt
        have hsub := subrange_mid t pre segs [] pos t.len (by simp [hsegs]) hpre hseg (by simp [SegsFrom])
        rw [← hsub] at c1 c2 c3 c4a c4b
        generalize ho : computeInitialInfo ds (t.subrange pos t.len) d false = o at c1 c2 c3 c4a c4b
        refine ⟨o.classes, [{ start := pos, stop := t.len, level := o.lastLevel }],
          [{ pureLtr := o.lastPureLtr, hasIso := o.lastHasIso }], o.err, c1, c4a, c4b, c2, ?_, ?_⟩
        · intro h
          have := h { start := pos, stop := t.len, level := o.lastLevel }
            { pureLtr := o.lastPureLtr, hasIso := o.lastHasIso } (by simp)
          simpa only [ho] using this
        refine ⟨rfl, hlt, ⟨?_, ?_, ?_, ?_, ?_, ?_, ?_⟩, by simp [ParasFrom]⟩
        · simp only [hsub]; exact subrange_mid_WF t segs pos t.len hl hseg
        · simp only [hsub]
          intro s hs
          obtain ⟨s', hs', rfl⟩ := List.mem_map.mp (List.dropLast_subset _ hs)
          exact hnb s' hs'
        · simp only [ho, c1]
          rw [← List.append_nil (st.classes ++ _), slice_append_mid _ _ _ pos t.len hf.len c3 hple]
        · simp only [ho]
        · simp only [ho]
        · simp only [ho]
        · simp only [ho, c2]; intro h; exact ((orErr_eq_none _ _).mp h).2
      · obtain ⟨c5a, c5b⟩ := c5 hlt
        have hnil : segs = [] := by
          cases segs with
          | nil => rfl
          | cons x xs => have := (segsFrom_bounds _ _ _ hseg).2 x (by simp); omega
        subst hnil
        refine ⟨[], [], [], none, ?_, by simpa using c5a, by simpa using c5b, ?_, by simp, ?_⟩
        · simp [finishII]
        · simp [finishII, orErr_none_right]
        · simp only [ParasFrom]; omega
    · -- a paragraph ending in a separator, then the rest
      subst hsplit
      have hseg' : SegsFrom pos ((body ++ [bseg]) ++ rest) t.len := by simpa using hseg
      obtain ⟨pos2, hseg1, hseg2⟩ := (segsFrom_append _ _ _ _).mp hseg'
      have hl1 : ∀ s ∈ body ++ [bseg], s.len = t.enc.charLen s.cp := fun s hs => hl s (by
        simp only [List.mem_append, List.mem_cons, List.not_mem_nil, or_false] at hs ⊢
        rcases hs with h | h
        · exact Or.inl h
        · exact Or.inr (Or.inl h))
      have hat1 : ∀ s ∈ body ++ [bseg], t.charAt s.start = some s := fun s hs => hat s (by
        simp only [List.mem_append, List.mem_cons, List.not_mem_nil, or_false] at hs ⊢
        rcases hs with h | h
        · exact Or.inl h
        · exact Or.inr (Or.inl h))
      obtain ⟨b1, b2, b3, b4, b5, b6⟩ := para_B ds t d st pos pos2 body bseg hf hseg1 hl1 hat1 hnb hb
      have hfold : (body ++ bseg :: rest).foldl (iiStep ds t true d) st =
          rest.foldl (iiStep ds t true d) ((body ++ [bseg]).foldl (iiStep ds t true d) st) := by
        simp [List.foldl_append]
      have hpre2 : SegsFrom 0 (pre ++ (body ++ [bseg])) pos2 := (segsFrom_append _ _ _ _).mpr ⟨pos, hpre, hseg1⟩
      obtain ⟨C2, P2, F2, e2, i1, i2, i3, i4, i6, i5⟩ :=
        ih (pre ++ (body ++ [bseg])) rest (by simp at hn; omega) (by simp [hsegs]) _ pos2 b1 hpre2 hseg2
          (fun s hs => hl s (by simp [hs])) (fun s hs => hat s (by simp [hs]))
      rw [hfold]
      have hbnd := (segsFrom_bounds _ _ _ hseg1).2 bseg (by simp)
      have hsub := subrange_mid t pre (body ++ [bseg]) rest pos pos2 (by simp [hsegs]) hpre hseg1 hseg2
      rw [← hsub] at b2 b3 b4 b5 b6
      generalize ho : computeInitialInfo ds (t.subrange pos pos2) d false = o at b2 b3 b4 b5 b6
      refine ⟨o.classes ++ C2, { start := pos, stop := pos2, level := o.lastLevel } :: P2,
        { pureLtr := o.lastPureLtr, hasIso := o.lastHasIso } :: F2, orErr o.err e2, ?_, ?_, ?_, ?_, ?_, ?_⟩
      · rw [i1, b2, List.append_assoc]
      · rw [i2, b3, List.append_assoc]; rfl
      · rw [i3, b4, List.append_assoc]; rfl
      · rw [i4, b5, orErr_assoc]
      · intro h
        have h0 := h { start := pos, stop := pos2, level := o.lastLevel }
            { pureLtr := o.lastPureLtr, hasIso := o.lastHasIso } (by simp)
        simp only [ho] at h0
        rw [h0, i6 (fun p f hpf => h p f (by simp [hpf]))]; rfl
      · refine ⟨rfl, by simp only; omega, ⟨?_, ?_, ?_, ?_, ?_, ?_, ?_⟩, i5⟩
        · simp only [hsub]; exact subrange_mid_WF t _ pos pos2 hl1 hseg1
        · simp only [hsub, List.map_append, List.map_cons, List.map_nil, List.dropLast_concat]
          intro s hs
          obtain ⟨s', hs', rfl⟩ := List.mem_map.mp hs
          exact hnb s' hs'
        · simp only [ho, i1, b2]
          rw [slice_append_mid _ _ _ pos pos2 hf.len b6 (by omega)]
        · simp only [ho]
        · simp only [ho]
        · simp only [ho]
        · simp only [ho, i4, b5]; intro h
          exact ((orErr_eq_none _ _).mp ((orErr_eq_none _ _).mp h).1).2

/-- the paragraphs reported for a well-formed text tile it, and each one, analysed alone, reproduces its part of
    the whole-text scan; the whole-text scan fails only if the scan of some paragraph alone fails -/
theorem paras_good (ds : DataSource) (t : Text) (hwf : t.WF) (d : Option Nat) :
    ParasFrom (GoodPara ds t d (computeInitialInfo ds t d true).classes (computeInitialInfo ds t d true).err)
      0 (computeInitialInfo ds t d true).paras (computeInitialInfo ds t d true).flags t.len ∧
    ((∀ p f, (p, f) ∈ (computeInitialInfo ds t d true).paras.zip (computeInitialInfo ds t d true).flags →
        (computeInitialInfo ds (t.subrange p.start p.stop) d false).err = none) →
      (computeInitialInfo ds t d true).err = none) := by
  obtain ⟨C', P', F', e', h1, h2, h3, h4, h6, h5⟩ :=
    paras_structure ds t d t.segs.length [] t.segs (Nat.le_refl _) rfl { paraLevel := d } 0 (fresh_init d)
      (by simp [SegsFrom]) hwf.tiles hwf.lens (C02.charAt_start t hwf)
  rw [← cii_eq] at h1 h2 h3 h4 h5
  simp only [List.nil_append] at h2 h3
  rw [h2, h3]
  refine ⟨h5, fun h => ?_⟩
  rw [h4, h6 h]; rfl

theorem parasFrom_mem {G : ParaInfo → Flags → Prop} {pos e : Nat} {P : List ParaInfo} {F : List Flags}
    (h : ParasFrom G pos P F e) (p : ParaInfo) (hp : p ∈ P) :
    ∃ f, (p, f) ∈ P.zip F ∧ G p f ∧ p.start < p.stop := by
  induction P generalizing pos F with
  | nil => simp at hp
  | cons q qs ih =>
    cases F with
    | nil => simp [ParasFrom] at h
    | cons f fs =>
      obtain ⟨_, h2, h3, h4⟩ := h
      rcases List.mem_cons.mp hp with rfl | hp
      · exact ⟨f, by simp, h3, h2⟩
      · obtain ⟨f', hf1, hf2⟩ := ih h4 hp
        exact ⟨f', by simp [hf1], hf2⟩

theorem parasFrom_zip_mem {G : ParaInfo → Flags → Prop} {pos e : Nat} {P : List ParaInfo} {F : List Flags}
    (h : ParasFrom G pos P F e) (p : ParaInfo) (f : Flags) (hp : (p, f) ∈ P.zip F) : G p f := by
  induction P generalizing pos F with
  | nil => simp at hp
  | cons q qs ih =>
    cases F with
    | nil => simp at hp
    | cons g gs =>
      obtain ⟨_, _, h3, h4⟩ := h
      rcases List.mem_cons.mp hp with heq | hp
      · obtain ⟨rfl, rfl⟩ := Prod.mk.inj heq; exact h3
      · exact ih h4 hp

/-- one iteration of the paragraph loop of `BidiInfo::new_with_data_source` -/
def bstep (ds : DataSource) (t : Text) (classes : List BidiClass) (acc : List Nat × Option Panic)
    (pf : ParaInfo × Flags) : List Nat × Option Panic :=
  (acc.1 ++ (paraLevels ds pf.1.level pf.2.pureLtr pf.2.hasIso (t.subrange pf.1.start pf.1.stop)
              (slice classes pf.1.start pf.1.stop)).1,
   orErr acc.2 (paraLevels ds pf.1.level pf.2.pureLtr pf.2.hasIso (t.subrange pf.1.start pf.1.stop)
              (slice classes pf.1.start pf.1.stop)).2)

theorem bidiInfo_eq (ds : DataSource) (t : Text) (d : Option Nat) :
    bidiInfo ds t d =
      { classes := (computeInitialInfo ds t d true).classes,
        levels := (((computeInitialInfo ds t d true).paras.zip (computeInitialInfo ds t d true).flags).foldl
          (bstep ds t (computeInitialInfo ds t d true).classes) ([], (computeInitialInfo ds t d true).err)).1,
        paras := (computeInitialInfo ds t d true).paras,
        err := (((computeInitialInfo ds t d true).paras.zip (computeInitialInfo ds t d true).flags).foldl
          (bstep ds t (computeInitialInfo ds t d true).classes) ([], (computeInitialInfo ds t d true).err)).2 } := rfl

theorem levels_fold (ds : DataSource) (t : Text) (d : Option Nat) (classes : List BidiClass) (err : Option Panic)
    (e : Nat) (P : List ParaInfo) (F : List Flags) (pos : Nat)
    (h : ParasFrom (GoodPara ds t d classes err) pos P F e)
    (acc : List Nat × Option Panic) (hacc : acc.1.length = pos) :
    (∃ R, ((P.zip F).foldl (bstep ds t classes) acc).1 = acc.1 ++ R) ∧
    (((P.zip F).foldl (bstep ds t classes) acc).2 = none → acc.2 = none) ∧
    (acc.2 = none → (∀ p f, (p, f) ∈ P.zip F →
        (paraLevels ds p.level f.pureLtr f.hasIso (t.subrange p.start p.stop) (slice classes p.start p.stop)).2 = none) →
      ((P.zip F).foldl (bstep ds t classes) acc).2 = none) ∧
    (∀ p f, (p, f) ∈ P.zip F →
      slice ((P.zip F).foldl (bstep ds t classes) acc).1 p.start p.stop =
        (paraLevels ds p.level f.pureLtr f.hasIso (t.subrange p.start p.stop) (slice classes p.start p.stop)).1 ∧
      (((P.zip F).foldl (bstep ds t classes) acc).2 = none →
        (paraLevels ds p.level f.pureLtr f.hasIso (t.subrange p.start p.stop) (slice classes p.start p.stop)).2 = none)) := by
  induction P generalizing pos F acc with
  | nil => simp
  | cons q qs ih =>
    cases F with
    | nil => simp [ParasFrom] at h
    | cons g gs =>
      obtain ⟨h1, h2, h3, h4⟩ := h
      have hlen : (paraLevels ds q.level g.pureLtr g.hasIso (t.subrange q.start q.stop)
          (slice classes q.start q.stop)).1.length = q.stop - q.start := by
        rw [UBidi.Props.C01.Base.paraLevels_length ds _ _ _ _ h3.1]; rfl
      have hacc' : (bstep ds t classes acc (q, g)).1.length = q.stop := by
        simp only [bstep, List.length_append, hlen, hacc]; omega
      obtain ⟨⟨R, i1⟩, i2, i4, i3⟩ := ih (pos := q.stop) (F := gs) h4 (bstep ds t classes acc (q, g)) hacc'
      simp only [List.zip_cons_cons, List.foldl_cons]
      refine ⟨⟨(bstep ds t classes ([], none) (q, g)).1 ++ R, by rw [i1]; simp [bstep]⟩, ?_, ?_, ?_⟩
      · intro hn
        exact ((orErr_eq_none _ _).mp (i2 hn)).1
      · intro ha hall
        refine i4 ?_ (fun p f hpf => hall p f (by simp [hpf]))
        simp only [bstep]
        rw [ha, hall q g (by simp)]; rfl
      · intro p f hpf
        rcases List.mem_cons.mp hpf with heq | hpf
        · obtain ⟨rfl, rfl⟩ := Prod.mk.inj heq
          refine ⟨?_, fun hn => ((orErr_eq_none _ _).mp (i2 hn)).2⟩
          rw [i1]
          simp only [bstep]
          exact slice_append_mid _ _ _ _ _ (by omega) hlen (by omega)
        · exact i3 p f hpf

end UBidi.Lemmas.C10
