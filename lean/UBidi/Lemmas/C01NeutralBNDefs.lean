/-
  C01 stage lemma StageN with retained BN units (characters removed by X9 that stay in the
  per-unit arrays): definitions shared by the `C01NeutralBN*` files.

  `U` is the (strictly increasing) list of the unit indices of an isolating run sequence,
  `ocs` the original classes, `pcs` the processing classes ("current types").  A unit `i` is
  *kept* when `keepU ocs i` (its character is not removed by X9).

  The invariant `InvBN U ocs pcs F` describes what the removed units may carry while the crate's
  `n0Pair` loop runs; `F b` says "`b` is an end of a bracket pair that has not been processed yet".
-/
import UBidi.Model.Implicit
import UBidi.Spec.UAX9
import UBidi.Lemmas.C01NeutralN12
namespace UBidi.Lemmas.C01Neutral
open UBidi UBidi.BidiClass

/-- the unit's character survives rule X9 -/
def keepU (ocs : Classes) (i : Nat) : Bool := !(cget ocs i).removedByX9

/-- *forward witness*: the next kept unit after the removed unit `p` carries the same type as `p` -/
def FwdWit (U : List Nat) (ocs pcs : Classes) (p : Nat) : Prop :=
  ∃ q ∈ U, p < q ∧ keepU ocs q = true ∧ cget pcs q = cget pcs p ∧
    ∀ i ∈ U, p < i → i < q → keepU ocs i = false

/-- `k` lies in the *trail* of `b`: every unit of the sequence in `(b, k]` is removed or an
    original NSM (this is how far the "NSMs following a bracket" sweep can possibly reach) -/
def InTrail (U : List Nat) (ocs : Classes) (b k : Nat) : Prop :=
  b < k ∧ ∀ i ∈ U, b < i → i ≤ k → keepU ocs i = false ∨ cget ocs i = NSM

/-- *backward witness*: the last kept unit before the removed unit `p` carries the same type as
    `p`, and no pending bracket can still change it.  (Since the crate's forward sweep no longer
    writes removed units, `n0Pair` never produces this situation; the N1/N2 projection lemma of
    `C01NeutralBNN12` still allows it.) -/
def BwdWit (U : List Nat) (ocs pcs : Classes) (F : Nat → Prop) (p : Nat) : Prop :=
  ∃ q ∈ U, q < p ∧ keepU ocs q = true ∧ cget pcs q = cget pcs p ∧
    (∀ i ∈ U, q < i → i < p → keepU ocs i = false) ∧
    ∀ b, F b → b ≠ q ∧ ¬ InTrail U ocs b q

/-- *forward witness, settled*: the next kept unit after the removed unit `p` carries the same type
    as `p`, and it is not an end of a bracket pair that is still to be processed -/
def FwdWitF (U : List Nat) (ocs pcs : Classes) (F : Nat → Prop) (p : Nat) : Prop :=
  ∃ q ∈ U, p < q ∧ keepU ocs q = true ∧ cget pcs q = cget pcs p ∧
    (∀ i ∈ U, p < i → i < q → keepU ocs i = false) ∧ ¬ F q

theorem FwdWitF.fwd {U : List Nat} {ocs pcs : Classes} {F : Nat → Prop} {p : Nat}
    (h : FwdWitF U ocs pcs F p) : FwdWit U ocs pcs p := by
  obtain ⟨q, hq, h1, h2, h3, h4, _⟩ := h
  exact ⟨q, hq, h1, h2, h3, h4⟩

/-- the state of the per-unit array during N0, relative to the pending bracket ends `F` -/
structure InvBN (U : List Nat) (ocs pcs : Classes) (F : Nat → Prop) : Prop where
  /-- a kept unit never carries BN -/
  kept : ∀ i ∈ U, keepU ocs i = true → cget pcs i ≠ BN
  /-- a pending bracket end is a kept unit of the sequence -/
  fresh : ∀ b, F b → b ∈ U ∧ keepU ocs b = true
  /-- a removed unit carries BN, ON, or the type of the next kept unit, which is not a pending
      bracket end -/
  wit : ∀ p ∈ U, keepU ocs p = false →
    cget pcs p = BN ∨ cget pcs p = ON ∨ FwdWitF U ocs pcs F p
  /-- in the trail of a pending bracket end, the removed units in front of a kept original NSM
      carry BN or ON (so the type of that NSM, which the bracket's sweep may overwrite, is nobody's
      forward witness) -/
  trail : ∀ b, F b → ∀ k ∈ U, keepU ocs k = true → InTrail U ocs b k →
    ∀ p ∈ U, b < p → p < k → keepU ocs p = false → cget pcs p = BN ∨ cget pcs p = ON

theorem InvBN.mono {U : List Nat} {ocs pcs : Classes} {F F' : Nat → Prop}
    (h : InvBN U ocs pcs F) (hF : ∀ b, F' b → F b) : InvBN U ocs pcs F' where
  kept := h.kept
  fresh := fun b hb => h.fresh b (hF b hb)
  wit := fun p hp hr => by
    rcases h.wit p hp hr with h1 | h1 | ⟨q, hq, h2, h3, h4, h5, h6⟩
    · exact Or.inl h1
    · exact Or.inr (Or.inl h1)
    · exact Or.inr (Or.inr ⟨q, hq, h2, h3, h4, h5, fun hb => h6 (hF q hb)⟩)
  trail := fun b hb => h.trail b (hF b hb)

/-- the ends of a list of bracket pairs -/
def pairEnds (ps : List BracketPair) : List Nat := ps.flatMap (fun p => [p.start, p.stop])

theorem keepU_false_ne_NSM {ocs : Classes} {i : Nat} (h : keepU ocs i = false) : cget ocs i ≠ NSM := by
  intro h2
  simp [keepU, h2, BidiClass.removedByX9] at h

end UBidi.Lemmas.C01Neutral
