/-
  UBidi.Lemmas.ExpandWeakSeq — a sequence of character runs as a sequence of unit
  runs: its units, its forward and backward walks, `charAt` on unit positions.
-/
import UBidi.Lemmas.ExpandWeakPos
namespace UBidi.Expand

/-- a sequence of character runs of a text with `n` characters: every run is
    non-empty and inside `[0,n)`, the runs are in increasing order of position
    (hence pairwise disjoint).  This is what `isolatingRunSequences` produces. -/
def SeqOK (n : Nat) (seq : IRSeq) : Prop :=
  (∀ r ∈ seq.runs, r.1 < r.2 ∧ r.2 ≤ n) ∧ seq.runs.Pairwise (fun r s => r.2 ≤ s.1)

instance (n : Nat) (seq : IRSeq) : Decidable (SeqOK n seq) := by
  unfold SeqOK; infer_instance

namespace Weak
open UBidi UBidi.Expand BidiClass

/-- `(ri,k)`: character `k` lies in run number `ri` of `seq` -/
def Valid (seq : IRSeq) (x : Nat × Nat) : Prop :=
  ∃ r, seq.runs[x.1]? = some r ∧ r.1 ≤ x.2 ∧ x.2 < r.2

theorem mem_runIndices {r : Nat × Nat} {i : Nat} : i ∈ runIndices r ↔ r.1 ≤ i ∧ i < r.2 := by
  unfold runIndices
  rw [List.mem_range'_1]; omega

theorem mem_indexed_aux (runs : List (Nat × Nat)) (n : Nat) (x : Nat × Nat) :
    x ∈ (runs.zipIdx n).flatMap (fun (r, k) => (runIndices r).map (fun i => (k, i))) ↔
      ∃ r, n ≤ x.1 ∧ runs[x.1 - n]? = some r ∧ r.1 ≤ x.2 ∧ x.2 < r.2 := by
  induction runs generalizing n with
  | nil => simp
  | cons r rs ih =>
    rw [List.zipIdx_cons, List.flatMap_cons, List.mem_append, ih]
    constructor
    · rintro (h | ⟨r', h1, h2, h3⟩)
      · simp only [List.mem_map] at h
        obtain ⟨i, hi, rfl⟩ := h
        rw [mem_runIndices] at hi
        exact ⟨r, Nat.le_refl _, by simp, hi.1, hi.2⟩
      · refine ⟨r', by omega, ?_, h3⟩
        have : x.1 - n = (x.1 - (n + 1)) + 1 := by omega
        rw [this, List.getElem?_cons_succ]; exact h2
    · rintro ⟨r', h1, h2, h3⟩
      by_cases e : x.1 = n
      · left
        rw [e, Nat.sub_self, List.getElem?_cons_zero] at h2
        cases h2
        simp only [List.mem_map]
        exact ⟨x.2, mem_runIndices.2 h3, by rw [← e]⟩
      · right
        refine ⟨r', by omega, ?_, h3⟩
        have : x.1 - n = (x.1 - (n + 1)) + 1 := by omega
        rw [this, List.getElem?_cons_succ] at h2; exact h2

theorem mem_indexed {seq : IRSeq} {x : Nat × Nat} : x ∈ seq.indexed ↔ Valid seq x := by
  unfold IRSeq.indexed Valid
  rw [mem_indexed_aux]
  simp

theorem indexed_map_snd_aux (runs : List (Nat × Nat)) (n : Nat) :
    ((runs.zipIdx n).flatMap (fun (r, k) => (runIndices r).map (fun i => (k, i)))).map (·.2)
      = runs.flatMap runIndices := by
  induction runs generalizing n with
  | nil => rfl
  | cons r rs ih =>
    rw [List.zipIdx_cons, List.flatMap_cons, List.map_append, ih, List.flatMap_cons]
    simp [Function.comp_def]

theorem indexed_map_snd (seq : IRSeq) : seq.indexed.map (·.2) = seq.indices :=
  indexed_map_snd_aux seq.runs 0

theorem indices_pairwise {n : Nat} {seq : IRSeq} (h : SeqOK n seq) :
    seq.indices.Pairwise (· < ·) := by
  unfold IRSeq.indices
  rw [List.pairwise_flatMap]
  refine ⟨?_, ?_⟩
  · intro r _; unfold runIndices; exact List.pairwise_lt_range'
  · refine h.2.imp ?_
    intro r s hrs x hx y hy
    rw [mem_runIndices] at hx hy; omega

theorem indexed_pairwise {n : Nat} {seq : IRSeq} (h : SeqOK n seq) :
    seq.indexed.Pairwise (fun x y => x.2 < y.2) := by
  have := indices_pairwise h
  rw [← indexed_map_snd, List.pairwise_map] at this
  exact this

theorem Valid.lt {n : Nat} {seq : IRSeq} (h : SeqOK n seq) {x : Nat × Nat} (hx : Valid seq x) : x.2 < n := by
  obtain ⟨r, h1, h2, h3⟩ := hx
  have := (h.1 r (List.mem_of_getElem? h1)).2
  omega

/-! ### walks -/

theorem mem_iterForwards {n : Nat} {seq : IRSeq} (h : SeqOK n seq) {ri k : Nat} (hv : Valid seq (ri, k))
    {x : Nat} (hx : x ∈ seq.iterForwardsFrom (k + 1) ri) : k < x ∧ x < n := by
  obtain ⟨r, h1, h2, h3⟩ := hv
  simp only at h1 h2 h3
  have hri : ri < seq.runs.length := (List.getElem?_eq_some_iff.1 h1).1
  have hd : seq.runs.drop ri = r :: seq.runs.drop (ri + 1) := by
    rw [List.drop_eq_getElem_cons hri]
    congr 1
    exact (List.getElem?_eq_some_iff.1 h1).2
  have hpw : (r :: seq.runs.drop (ri + 1)).Pairwise (fun r s => r.2 ≤ s.1) := by
    rw [← hd]; exact h.2.sublist (List.drop_sublist _ _)
  unfold IRSeq.iterForwardsFrom at hx
  rw [hd] at hx
  simp only [List.mem_append, List.mem_flatMap] at hx
  rcases hx with hx | ⟨r', hr', hx⟩
  · rw [List.mem_range'_1] at hx
    have := (h.1 r (List.mem_of_getElem? h1)).2
    omega
  · have h4 := List.rel_of_pairwise_cons hpw hr'
    rw [mem_runIndices] at hx
    have := (h.1 r' (List.mem_of_mem_drop hr')).2
    omega

theorem mem_iterBackwards {n : Nat} {seq : IRSeq} (h : SeqOK n seq) {ri k : Nat} (hv : Valid seq (ri, k))
    {x : Nat} (hx : x ∈ seq.iterBackwardsFrom k ri) : x < k := by
  obtain ⟨r, h1, h2, h3⟩ := hv
  simp only at h1 h2 h3
  unfold IRSeq.iterBackwardsFrom at hx
  rw [h1] at hx
  simp only [List.mem_append, List.mem_reverse, List.mem_flatMap] at hx
  rcases hx with hx | ⟨r', hr', hx⟩
  · rw [List.mem_range'_1] at hx; omega
  · rw [mem_runIndices] at hx
    obtain ⟨i, hi, rfl⟩ := List.mem_iff_getElem.1 hr'
    rw [List.length_take] at hi
    rw [List.getElem_take] at hx
    have hri : ri < seq.runs.length := (List.getElem?_eq_some_iff.1 h1).1
    have := List.pairwise_iff_getElem.1 h.2 i ri (by omega) hri (by omega)
    rw [(List.getElem?_eq_some_iff.1 h1).2] at this
    omega

section
variable {t : Text} (hp : PosOK t)
include hp

theorem runIndices_mapRun {r : Nat × Nat} (h : r.1 ≤ r.2) :
    runIndices (mapRun t r) = (runIndices r).flatMap (units t) := by
  unfold runIndices mapRun
  exact range'_pos' hp h

theorem flatMap_runIndices_map {rs : List (Nat × Nat)} (h : ∀ r ∈ rs, r.1 ≤ r.2) :
    (rs.map (mapRun t)).flatMap runIndices = (rs.flatMap runIndices).flatMap (units t) := by
  induction rs with
  | nil => rfl
  | cons r rs ih =>
    rw [List.map_cons, List.flatMap_cons, List.flatMap_cons, List.flatMap_append,
      runIndices_mapRun hp (h r List.mem_cons_self),
      ih (fun r' hr' => h r' (List.mem_cons_of_mem _ hr'))]

theorem indices_mapSeq {n : Nat} {seq : IRSeq} (h : SeqOK n seq) :
    (mapSeq t seq).indices = seq.indices.flatMap (units t) := by
  unfold IRSeq.indices mapSeq
  exact flatMap_runIndices_map hp (fun r hr => Nat.le_of_lt (h.1 r hr).1)

theorem indexed_mapSeq_aux {rs : List (Nat × Nat)} (h : ∀ r ∈ rs, r.1 ≤ r.2) (n : Nat) :
    ((rs.map (mapRun t)).zipIdx n).flatMap (fun (r, k) => (runIndices r).map (fun i => (k, i)))
      = ((rs.zipIdx n).flatMap (fun (r, k) => (runIndices r).map (fun i => (k, i)))).flatMap
          (fun x => (units t x.2).map (fun i => (x.1, i))) := by
  induction rs generalizing n with
  | nil => rfl
  | cons r rs ih =>
    rw [List.map_cons, List.zipIdx_cons, List.zipIdx_cons, List.flatMap_cons, List.flatMap_cons,
      List.flatMap_append, ih (fun r' hr' => h r' (List.mem_cons_of_mem _ hr'))]
    congr 1
    simp only
    rw [runIndices_mapRun hp (h r List.mem_cons_self), List.map_flatMap, List.flatMap_map]

theorem indexed_mapSeq {n : Nat} {seq : IRSeq} (h : SeqOK n seq) :
    (mapSeq t seq).indexed = seq.indexed.flatMap (fun x => (units t x.2).map (fun i => (x.1, i))) := by
  unfold IRSeq.indexed mapSeq
  exact indexed_mapSeq_aux hp (fun r hr => Nat.le_of_lt (h.1 r hr).1) 0

theorem iterForwards_mapSeq {n : Nat} {seq : IRSeq} (h : SeqOK n seq) {ri k : Nat}
    (hv : Valid seq (ri, k)) :
    (mapSeq t seq).iterForwardsFrom (pos t k + ulen t k) ri
      = (seq.iterForwardsFrom (k + 1) ri).flatMap (units t) := by
  obtain ⟨r, h1, h2, h3⟩ := hv
  simp only at h1 h2 h3
  have hri : ri < seq.runs.length := (List.getElem?_eq_some_iff.1 h1).1
  have hd : seq.runs.drop ri = r :: seq.runs.drop (ri + 1) := by
    rw [List.drop_eq_getElem_cons hri]
    congr 1
    exact (List.getElem?_eq_some_iff.1 h1).2
  unfold IRSeq.iterForwardsFrom mapSeq
  simp only
  rw [← List.map_drop, hd, List.map_cons]
  simp only
  rw [List.flatMap_append, ← pos_succ' hp k]
  congr 1
  · have := range'_pos' hp (a := k + 1) (b := r.2) (by omega)
    simpa [mapRun] using this
  · exact flatMap_runIndices_map hp
      (fun r' hr' => Nat.le_of_lt (h.1 r' (List.mem_of_mem_drop hr')).1)

omit hp in
theorem reverse_flatMap_units (l : List Nat) :
    (l.flatMap (units t)).reverse = l.reverse.flatMap (fun k => (units t k).reverse) := by
  induction l with
  | nil => rfl
  | cons a as ih =>
    rw [List.flatMap_cons, List.reverse_append, ih, List.reverse_cons, List.flatMap_append]
    simp

theorem iterBackwards_mapSeq {n : Nat} {seq : IRSeq} (h : SeqOK n seq) {ri k : Nat}
    (hv : Valid seq (ri, k)) :
    (mapSeq t seq).iterBackwardsFrom (pos t k) ri
      = (seq.iterBackwardsFrom k ri).flatMap (fun k' => (units t k').reverse) := by
  obtain ⟨r, h1, h2, h3⟩ := hv
  simp only at h1 h2 h3
  unfold IRSeq.iterBackwardsFrom mapSeq
  simp only [List.getElem?_map, h1, Option.map_some]
  rw [List.flatMap_append]
  congr 1
  · have := range'_pos' hp (a := r.1) (b := k) h2
    simp only [mapRun]
    rw [this, reverse_flatMap_units]
  · rw [← List.map_take, ← List.map_reverse]
    have hall : ∀ r' ∈ (seq.runs.take ri).reverse, r'.1 ≤ r'.2 := by
      intro r' hr'
      exact Nat.le_of_lt (h.1 r' (List.mem_of_mem_take (List.mem_reverse.1 hr'))).1
    generalize (seq.runs.take ri).reverse = rs at hall
    induction rs with
    | nil => rfl
    | cons r' rs ih =>
      rw [List.map_cons, List.flatMap_cons, List.flatMap_cons, List.flatMap_append,
        ih (fun x hx => hall x (List.mem_cons_of_mem _ hx)),
        runIndices_mapRun hp (hall r' List.mem_cons_self), reverse_flatMap_units]

/-! ### `charAt` at unit positions -/

omit hp in
theorem seg_start {k : Nat} (hk : k < t.segs.length) : (t.segs[k]).start = pos t k := by
  unfold pos; simp [hk]

omit hp in
theorem seg_len {k : Nat} (hk : k < t.segs.length) : (t.segs[k]).len = ulen t k := by
  unfold ulen; simp [hk]

theorem charLen_first {k : Nat} (hk : k < t.segs.length) :
    (t.charAt (pos t k)).map (·.len) = some (ulen t k) := by
  have : t.charAt (pos t k) = some t.segs[k] := by
    unfold Text.charAt
    rw [List.find?_eq_some_iff_getElem]
    refine ⟨by simp [seg_start hk], k, hk, rfl, ?_⟩
    intro j hj
    have hjl : j < t.segs.length := by omega
    rw [seg_start hjl]
    have := pos_end_le hp hj
    have := hp.lpos j hjl
    simp; omega
  rw [this]; simp [seg_len hk]

theorem charLen_other {k j : Nat} (hj0 : 0 < j) (hj : j < ulen t k) :
    (t.charAt (pos t k + j)).map (·.len) = none := by
  have : t.charAt (pos t k + j) = none := by
    unfold Text.charAt
    rw [List.find?_eq_none]
    intro s hs
    obtain ⟨k', hk', rfl⟩ := List.mem_iff_getElem.1 hs
    rw [seg_start hk']
    intro e
    have e' : pos t k' + 0 = pos t k + j := by simpa using e
    have := unit_inj hp (hp.lpos k' hk') hj e'
    omega
  rw [this]; rfl

end
end Weak
end UBidi.Expand
