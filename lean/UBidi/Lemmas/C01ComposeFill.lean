/-
  C01 / composition, part 1: the two removed-character fill rules.

  `Spec.paragraphLevels` ends with `fill` (a character X9 removes takes the level of the character
  before it), reading the levels of the surviving characters from the association list `kLevels`;
  the Model ends with `assignLevelsToRemovedChars`, reading them from the per-unit array.  When the
  association list holds, for every surviving position `j`, the Model's entry at `j`, the two fills
  agree (`spec_fill_eq`); and the association list the Spec builds over the survivors `ks` is read
  by position through `toKs` (`find_kLevels`).
-/
import UBidi.Lemmas.C01SeqBounds
import UBidi.Props.C01
namespace UBidi.Lemmas.C01Compose
open UBidi UBidi.BidiClass UBidi.Lemmas.C01Seq

theorem fill_nil (kl : List (Nat × Nat)) (prev i : Nat) : Spec.paragraphLevels.fill kl prev i [] = [] := by
  simp [Spec.paragraphLevels.fill]

theorem fill_cons (kl : List (Nat × Nat)) (prev i x : Nat) (rest : List Nat) :
    Spec.paragraphLevels.fill kl prev i (x :: rest) =
      (match kl.find? (fun y => y.1 == i) with | some y => y.2 | none => prev) ::
        Spec.paragraphLevels.fill kl
          (match kl.find? (fun y => y.1 == i) with | some y => y.2 | none => prev) (i + 1) rest := by
  rfl

/-- the Spec's fill over an association list that holds the Model's levels at the kept positions is the
    Model's fill -/
theorem spec_fill_eq (kl : List (Nat × Nat)) (cls : List BidiClass) (lv : List Nat)
    (hlen : cls.length = lv.length)
    (H : ∀ j, j < lv.length → (kl.find? (fun y => y.1 == j)).map (·.2) =
        if (cls.getD j ON).removedByX9 then none else lv[j]?) :
    ∀ (rest : List Nat) (prev i : Nat), i + rest.length = lv.length →
      Spec.paragraphLevels.fill kl prev i rest = fillRemovedLoop prev (cls.drop i) (lv.drop i) := by
  intro rest
  induction rest with
  | nil =>
    intro prev i hi
    simp only [List.length_nil, Nat.add_zero] at hi
    rw [fill_nil, List.drop_eq_nil_of_le (by omega : lv.length ≤ i)]
    cases cls.drop i <;> rfl
  | cons x rest ih =>
    intro prev i hi
    simp only [List.length_cons] at hi
    have hil : i < lv.length := by omega
    have hic : i < cls.length := by omega
    rw [fill_cons, List.drop_eq_getElem_cons hil, List.drop_eq_getElem_cons hic]
    have hH := H i hil
    have hg : cls.getD i ON = cls[i] := by simp [List.getD, hic]
    rw [hg, List.getElem?_eq_getElem hil] at hH
    have hl : (match kl.find? (fun y => y.1 == i) with | some y => y.2 | none => prev) =
        (if cls[i].removedByX9 then prev else lv[i]) := by
      cases hf : kl.find? (fun y => y.1 == i) with
      | none =>
        rw [hf] at hH
        by_cases hr : cls[i].removedByX9 = true
        · simp [hr]
        · simp [hr] at hH
      | some y =>
        rw [hf] at hH
        by_cases hr : cls[i].removedByX9 = true
        · simp [hr] at hH
        · simp only [hr, Bool.false_eq_true, if_false, Option.map_some, Option.some.injEq] at hH
          simp [hr, hH]
    rw [hl]
    simp only [fillRemovedLoop]
    congr 1
    exact ih _ (i + 1) (by omega)

/-- corollary for the whole paragraph -/
theorem spec_fill_model (kl : List (Nat × Nat)) (pl : Nat) (cls : List BidiClass) (lv : List Nat)
    (hlen : cls.length = lv.length)
    (H : ∀ j, j < lv.length → (kl.find? (fun y => y.1 == j)).map (·.2) =
        if (cls.getD j ON).removedByX9 then none else lv[j]?) :
    Spec.paragraphLevels.fill kl pl 0 (List.range lv.length) = assignLevelsToRemovedChars pl cls lv := by
  have := spec_fill_eq kl cls lv hlen H (List.range lv.length) pl 0 (by simp)
  simpa [assignLevelsToRemovedChars] using this

/-! ### reading the Spec's association list -/

theorem keptIdx_sorted (cls : List BidiClass) : (keptIdx cls).Pairwise (· < ·) := by
  unfold keptIdx
  exact (List.pairwise_lt_range).filter _

theorem keptIdx_nodup (cls : List BidiClass) : (keptIdx cls).Nodup :=
  (keptIdx_sorted cls).imp (fun h => Nat.ne_of_lt h)

theorem mem_keptIdx {cls : List BidiClass} {i : Nat} : i ∈ keptIdx cls ↔ i < cls.length ∧ keptAt cls i = true := by
  unfold keptIdx
  simp [List.mem_filter]

/-- the position of a kept character among the survivors is below their number -/
theorem toKs_lt_length (cls : List BidiClass) (j : Nat) (hj : j < cls.length) (hk : keptAt cls j = true) :
    toKs cls j < (keptIdx cls).length := by
  have h := keptIdx_getElem?_toKs cls j hj hk
  rcases Nat.lt_or_ge (toKs cls j) (keptIdx cls).length with h1 | h1
  · exact h1
  · rw [List.getElem?_eq_none h1] at h; cases h

/-- `toKs` is injective on kept positions -/
theorem toKs_inj (cls : List BidiClass) (i j : Nat) (hi : i < cls.length) (hj : j < cls.length)
    (hki : keptAt cls i = true) (hkj : keptAt cls j = true) (h : toKs cls i = toKs cls j) : i = j := by
  have h1 := keptIdx_getElem?_toKs cls i hi hki
  have h2 := keptIdx_getElem?_toKs cls j hj hkj
  rw [h] at h1
  rw [h1] at h2
  exact Option.some.inj h2

/-- an association list indexed by the survivors: the entry of position `j` -/
theorem find_assoc (cls : List BidiClass) (g : Nat → Nat) (j : Nat) (hj : j < cls.length) :
    (((List.range (keptIdx cls).length).map (fun p => ((keptIdx cls).getD p 0, g p))).find?
        (fun y => y.1 == j)).map (·.2) =
      if keptAt cls j = true then some (g (toKs cls j)) else none := by
  rw [List.find?_map]
  by_cases hk : keptAt cls j = true
  · rw [if_pos hk]
    have hp0 := keptIdx_getElem?_toKs cls j hj hk
    have hlt := toKs_lt_length cls j hj hk
    cases hf : (List.range (keptIdx cls).length).find?
        ((fun y : Nat × Nat => y.1 == j) ∘ (fun p => ((keptIdx cls).getD p 0, g p))) with
    | none =>
      rw [List.find?_eq_none] at hf
      have := hf (toKs cls j) (List.mem_range.2 hlt)
      simp [List.getD_eq_getElem?_getD, hp0] at this
    | some p =>
      have hp := List.find?_some hf
      have hpm := List.mem_of_find?_eq_some hf
      rw [List.mem_range] at hpm
      simp only [Function.comp, beq_iff_eq] at hp
      rw [List.getD_eq_getElem?_getD, List.getElem?_eq_getElem hpm, Option.getD_some] at hp
      have : (keptIdx cls)[p]? = some j := by rw [List.getElem?_eq_getElem hpm, hp]
      have hpe : p = toKs cls j := by
        rw [List.getElem?_eq_getElem hlt] at hp0
        have h1 : (keptIdx cls)[p] = (keptIdx cls)[toKs cls j] := by
          rw [hp]; exact (Option.some.inj hp0).symm
        exact (List.getElem_inj (keptIdx_nodup cls)).1 h1
      simp [hpe]
  · rw [if_neg hk]
    have : (List.range (keptIdx cls).length).find?
        ((fun y : Nat × Nat => y.1 == j) ∘ (fun p => ((keptIdx cls).getD p 0, g p))) = none := by
      rw [List.find?_eq_none]
      intro p hp
      rw [List.mem_range] at hp
      simp only [Function.comp, beq_iff_eq]
      rw [List.getD_eq_getElem?_getD, List.getElem?_eq_getElem hp, Option.getD_some]
      intro he
      have : j ∈ keptIdx cls := he ▸ List.getElem_mem hp
      exact hk (mem_keptIdx.1 this).2
    rw [this]; rfl

end UBidi.Lemmas.C01Compose
