/-
  C06 helper lemmas, part 3: the line levels of `reorder_line` (from `C03_line`), run boundaries are
  character boundaries, and the characters of the pieces in terms of `Spec.l2` on the
  per-character levels.
-/
import UBidi.Lemmas.C06L2
import UBidi.Lemmas.C06Segs
namespace UBidi.Lemmas.C06
open UBidi UBidi.Lemmas.C03 UBidi.Lemmas.C05 UBidi.Props.C05 UBidi.Props.C03

/-- the characters of the line `[a, b)` -/
def lineSegs (t : Text) (a b : Nat) : List Seg := t.segs.filter (inRange a b)

/-- `(class, level)` of the characters of the line -/
def lineCls (t : Text) (classes : List BidiClass) (levels : List Nat) (a b : Nat) : List (BidiClass × Nat) :=
  (lineSegs t a b).map (fun s => (classes.getD s.start .ON, levels.getD s.start 0))

/-- the per-character levels of the line after rule L1 -/
def lineL1 (t : Text) (classes : List BidiClass) (levels : List Nat) (pl a b : Nat) : List Nat :=
  Spec.lineLevels pl (lineCls t classes levels a b)

/-- the hypotheses of property C06 -/
structure Hyp (t : Text) (classes : List BidiClass) (levels : List Nat) (pl a b : Nat) : Prop where
  wf : t.WF
  hab : a < b
  hb : b ≤ t.len
  ha : t.isBoundary a = true
  hbb : t.isBoundary b = true
  hc : classes.length = t.len
  hl : levels.length = t.len
  hul : UniformOn t levels
  h126 : ∀ l ∈ levels, l ≤ 126
  hpl : pl ≤ 126

theorem mem_lineSegs {t : Text} {a b : Nat} {s : Seg} (h : s ∈ lineSegs t a b) :
    s ∈ t.segs ∧ a ≤ s.start ∧ s.start < b := by
  simpa [lineSegs, inRange] using h

theorem getD_slice {α} (xs : List α) (a b i : Nat) (d : α) (h1 : a ≤ i) (h2 : i < b) :
    (slice xs a b).getD (i - a) d = xs.getD i d := by
  simp only [List.getD_eq_getElem?_getD, getElem?_slice]
  rw [if_pos (by omega), show a + (i - a) = i by omega]

theorem perChar_sub (t : Text) (classes : List BidiClass) (levels : List Nat) (a b : Nat) :
    perChar (t.subrange a b) (slice classes a b) (slice levels a b) = lineCls t classes levels a b := by
  unfold perChar lineCls Text.subrange
  simp only [List.map_map]
  apply List.map_congr_left
  intro s hs
  obtain ⟨_, h1, h2⟩ := mem_lineSegs (by simpa [lineSegs, inRange] using hs)
  simp only [Function.comp]
  rw [getD_slice _ a b _ _ h1 h2, getD_slice _ a b _ _ h1 h2]

/-! ### values of rule L1 -/

theorem l1_mem (pl : Nat) (cs : List (BidiClass × Nat)) : ∀ (p : Nat), ∀ x ∈ Spec.l1 pl p cs,
    x = pl ∨ x = p ∨ x ∈ cs.map (·.2) := by
  induction cs with
  | nil => intro p x hx; simp [Spec.l1] at hx
  | cons c rest ih =>
    intro p x hx
    obtain ⟨c, l⟩ := c
    simp only [Spec.l1, List.mem_cons] at hx
    rcases hx with rfl | hx
    · split
      · exact Or.inl rfl
      · split
        · exact Or.inr (Or.inl rfl)
        · exact Or.inr (Or.inr (by simp))
    · rcases ih _ x hx with h | h | h
      · exact Or.inl h
      · rw [h]
        split
        · exact Or.inl rfl
        · split
          · exact Or.inr (Or.inl rfl)
          · exact Or.inr (Or.inr (by simp))
      · exact Or.inr (Or.inr (by simp [List.mem_map] at h ⊢; exact Or.inr h))

/-- rule L1 only produces the paragraph level or a level of a character of the line -/
theorem lineL1_mem (t : Text) (classes : List BidiClass) (levels : List Nat) (pl a b : Nat)
    (hb : b ≤ levels.length) : ∀ x ∈ lineL1 t classes levels pl a b, x = pl ∨ x ∈ slice levels a b := by
  intro x hx
  rcases l1_mem pl _ pl x hx with h | h | h
  · exact Or.inl h
  · exact Or.inl h
  · right
    simp only [lineCls, List.map_map, List.mem_map, Function.comp] at h
    obtain ⟨s, hs, rfl⟩ := h
    obtain ⟨_, h1, h2⟩ := mem_lineSegs hs
    have hlt : s.start - a < b - a := by omega
    have := getElem?_slice levels a b (s.start - a)
    rw [if_pos hlt, show a + (s.start - a) = s.start by omega] at this
    have hs' : s.start < levels.length := by omega
    rw [List.getElem?_eq_getElem hs'] at this
    simp only [List.getD_eq_getElem?_getD, List.getElem?_eq_getElem hs', Option.getD_some]
    exact List.mem_of_getElem? this

theorem mem_slice {α} (xs : List α) (a b : Nat) (x : α) (h : x ∈ slice xs a b) : x ∈ xs := by
  unfold slice at h
  exact List.mem_of_mem_drop (List.mem_of_mem_take h)

theorem lineL1_length (t : Text) (classes : List BidiClass) (levels : List Nat) (pl a b : Nat) :
    (lineL1 t classes levels pl a b).length = (lineSegs t a b).length := by
  simp [lineL1, lineCls, Spec.lineLevels, length_l1]

theorem mem_expandS (S : List Seg) (xs : List Nat) (x : Nat) (h : x ∈ expandS S xs) : x ∈ xs := by
  unfold expandS at h
  obtain ⟨⟨s, y⟩, hz, hx⟩ := List.mem_flatMap.1 h
  have := (List.of_mem_zip hz).2
  simp only [List.mem_replicate] at hx
  rw [hx.2]; exact this

theorem segsFrom_pos {k e : Nat} {S : List Seg} (h : SegsFrom k S e) : ∀ s ∈ S, 0 < s.len := by
  induction S generalizing k with
  | nil => intro s hs; simp at hs
  | cons c S ih =>
    intro s hs
    obtain ⟨_, hpos, h'⟩ := h
    rcases List.mem_cons.1 hs with rfl | hs
    · exact hpos
    · exact ih h' s hs

/-! ### the line levels -/

section
variable {t : Text} {classes : List BidiClass} {levels : List Nat} {pl a b : Nat}

/-- the shifted characters of the line -/
def shiftSegs (a : Nat) (S : List Seg) : List Seg := S.map (fun s => { s with start := s.start - a })

theorem Hyp.tiles (h : Hyp t classes levels pl a b) : SegsFrom a (lineSegs t a b) b :=
  lineSegs_tiles t h.wf a b (Nat.le_of_lt h.hab) h.ha h.hbb

theorem Hyp.tiles0 (h : Hyp t classes levels pl a b) :
    SegsFrom 0 (shiftSegs a (lineSegs t a b)) (b - a) :=
  subSegs_tiles (a := a) (b := b) t.segs 0 t.len h.wf.tiles (Nat.zero_le _) (Nat.le_of_lt h.hab)
    ((isBoundary_iff t a).1 h.ha) ((isBoundary_iff t b).1 h.hbb)

/-- `C03_line`, restated with the characters of the line -/
theorem Hyp.lv_eq (h : Hyp t classes levels pl a b) :
    (reorderedLevels t classes levels pl a b).2 = none ∧
    (reorderedLevels t classes levels pl a b).1
      = levels.take a ++ expandS (shiftSegs a (lineSegs t a b)) (lineL1 t classes levels pl a b)
          ++ levels.drop b := by
  have := C03_line t h.wf classes levels pl a b (Nat.le_of_lt h.hab) h.ha h.hbb h.hc h.hl h.hul
  rw [perChar_sub] at this
  exact this

theorem Hyp.lv_length (h : Hyp t classes levels pl a b) :
    (reorderedLevels t classes levels pl a b).1.length = t.len := by
  rw [(C03_outside t classes levels pl a b).1, h.hl]

/-- unit `j` of the `i`-th character of the line has the `i`-th level of rule L1 -/
theorem Hyp.lv_get (h : Hyp t classes levels pl a b) (i : Nat) (hi : i < (lineSegs t a b).length)
    (j : Nat) (hj : j < ((lineSegs t a b)[i]).len) :
    (reorderedLevels t classes levels pl a b).1[((lineSegs t a b)[i]).start + j]?
      = (lineL1 t classes levels pl a b)[i]? := by
  rw [h.lv_eq.2]
  have hm := mem_lineSegs (List.getElem_mem hi)
  have hbd := (SegsFrom_bounds h.tiles).2 _ (List.getElem_mem hi)
  have hlen : (expandS (shiftSegs a (lineSegs t a b)) (lineL1 t classes levels pl a b)).length = b - a := by
    rw [expandS_length _ _ 0 (b - a) h.tiles0 (by simp [shiftSegs, lineL1_length])]; omega
  have hla : (levels.take a).length = a := by
    rw [List.length_take, h.hl]; have := h.hb; have := h.hab; omega
  rw [List.getElem?_append_left (by rw [List.length_append, hla, hlen]; omega),
    List.getElem?_append_right (by rw [hla]; omega), hla]
  have hi' : i < (shiftSegs a (lineSegs t a b)).length := by simpa [shiftSegs] using hi
  have := expandS_get (shiftSegs a (lineSegs t a b)) (lineL1 t classes levels pl a b) 0 (b - a) h.tiles0
    (by simp [shiftSegs, lineL1_length]) i hi' j (by simpa [shiftSegs] using hj)
  rw [← this]
  congr 1
  simp [shiftSegs]
  omega

/-- all units of a character of the line have the level of its first unit -/
theorem Hyp.lv_uniform (h : Hyp t classes levels pl a b) (s : Seg) (hs : s ∈ lineSegs t a b)
    (j : Nat) (hj : j < s.len) :
    (reorderedLevels t classes levels pl a b).1[s.start + j]?
      = (reorderedLevels t classes levels pl a b).1[s.start]? := by
  obtain ⟨i, hi, rfl⟩ := List.mem_iff_getElem.1 hs
  have hpos : 0 < ((lineSegs t a b)[i]).len := by omega
  have h0 := h.lv_get i hi 0 hpos
  rw [Nat.add_zero] at h0
  rw [h.lv_get i hi j hj, h0]

theorem Hyp.l1_le (h : Hyp t classes levels pl a b) : ∀ x ∈ lineL1 t classes levels pl a b, x ≤ 126 := by
  intro x hx
  rcases lineL1_mem t classes levels pl a b (by rw [h.hl]; exact h.hb) x hx with rfl | hx
  · exact h.hpl
  · exact h.h126 x (mem_slice _ _ _ _ hx)

theorem Hyp.lv_le (h : Hyp t classes levels pl a b) :
    ∀ x ∈ (reorderedLevels t classes levels pl a b).1, x ≤ 126 := by
  intro x hx
  rw [h.lv_eq.2] at hx
  simp only [List.mem_append] at hx
  rcases hx with (hx | hx) | hx
  · exact h.h126 x (List.mem_of_mem_take hx)
  · exact h.l1_le x (mem_expandS _ _ _ hx)
  · exact h.h126 x (List.mem_of_mem_drop hx)

/-! ### run boundaries are character boundaries -/

theorem isBoundary_of_mem {t : Text} {s : Seg} (hs : s ∈ t.segs) : t.isBoundary s.start = true :=
  (isBoundary_iff t s.start).2 (Or.inr ⟨s, hs, rfl⟩)

/-- a unit of the line that is not a character boundary has the level of the unit before it -/
theorem Hyp.inside (h : Hyp t classes levels pl a b) (u : Nat) (h1 : a ≤ u) (h2 : u < b)
    (hnb : t.isBoundary u = false) :
    a < u ∧ (reorderedLevels t classes levels pl a b).1[u - 1]?
      = (reorderedLevels t classes levels pl a b).1[u]? := by
  obtain ⟨s, hs, hs1, hs2⟩ := segs_cover _ a b u h.tiles h1 h2
  have hm := mem_lineSegs hs
  have hne : s.start ≠ u := by
    intro he
    rw [← he, isBoundary_of_mem hm.1] at hnb
    exact absurd hnb (by decide)
  refine ⟨by omega, ?_⟩
  have e1 := h.lv_uniform s hs (u - 1 - s.start) (by omega)
  have e2 := h.lv_uniform s hs (u - s.start) (by omega)
  rw [show s.start + (u - 1 - s.start) = u - 1 by omega] at e1
  rw [show s.start + (u - s.start) = u by omega] at e2
  rw [e1, e2]

/-- the runs of the line lie inside the line and start and end at character boundaries -/
theorem Hyp.run_boundaries (h : Hyp t classes levels pl a b) :
    ∀ r ∈ (visualRunsForLine (reorderedLevels t classes levels pl a b).1 a b).1,
      a ≤ r.1 ∧ r.1 < r.2 ∧ r.2 ≤ b ∧ t.isBoundary r.1 = true ∧ t.isBoundary r.2 = true := by
  intro r hr
  obtain ⟨_, hperm, ht, hone, hmax⟩ := C05_partition (reorderedLevels t classes levels pl a b).1 a b h.hab
    (by rw [h.lv_length]; exact h.hb) h.lv_le
  have hr' := hperm.subset hr
  obtain ⟨b1, b2, b3⟩ := (tiles_bounds _ _ _ ht).2 r hr'
  refine ⟨b1, b2, b3, ?_, ?_⟩
  · cases hbd : t.isBoundary r.1 with
    | true => rfl
    | false =>
      obtain ⟨i1, i2⟩ := h.inside r.1 b1 (by omega) hbd
      exact absurd i2 ((hmax r hr').1 i1)
  · cases hbd : t.isBoundary r.2 with
    | true => rfl
    | false =>
      have hlt : r.2 < b := by
        rcases Nat.lt_or_ge r.2 b with h' | h'
        · exact h'
        · have : r.2 = b := by omega
          rw [this, h.hbb] at hbd
          exact absurd hbd (by decide)
      obtain ⟨_, i2⟩ := h.inside r.2 (by omega) hlt hbd
      have := hone r hr' (r.2 - 1) (by omega) (by omega)
      rw [i2] at this
      exact absurd this ((hmax r hr').2 hlt)

/-! ### the characters of the pieces -/

/-- the characters of the line as ranges of code units -/
def charRanges (S : List Seg) : List (Nat × Nat) := S.map (fun s => (s.start, s.start + s.len))

theorem charRanges_tiles (S : List Seg) : ∀ (k e : Nat), SegsFrom k S e → tiles k (charRanges S) e := by
  induction S with
  | nil => intro k e h; exact h
  | cons c S ih =>
    intro k e h
    obtain ⟨hc, hpos, h'⟩ := h
    refine ⟨hc, by simp only; omega, ?_⟩
    have := ih _ _ h'
    rw [← hc] at this
    exact this

theorem charRanges_getD (S : List Seg) (k : Nat) (hk : k < S.length) :
    (charRanges S).getD k default = (S[k].start, S[k].start + S[k].len) := by
  simp [charRanges, List.getD_eq_getElem?_getD, hk]

/-- what a run contributes to the result: its characters, reversed iff its level is odd -/
def runSegs (t : Text) (lv : List Nat) (r : Nat × Nat) : List Seg :=
  if Level.isRtl (lv.getD r.1 0) then (t.segs.filter (inRange r.1 r.2)).reverse
  else t.segs.filter (inRange r.1 r.2)

/-- the characters listed run by run in the order of the runs are the characters of the line in the
    order of rule L2 applied to the per-character levels of rule L1 -/
theorem Hyp.runs_segs (h : Hyp t classes levels pl a b) :
    ((visualRunsForLine (reorderedLevels t classes levels pl a b).1 a b).1).flatMap
        (runSegs t (reorderedLevels t classes levels pl a b).1)
      = (Spec.l2 (lineL1 t classes levels pl a b)).map (fun k => (lineSegs t a b).getD k default) := by
  have hrb := h.run_boundaries
  have hget := h.lv_get
  have hlen := h.lv_length
  have hle := h.lv_le
  generalize (reorderedLevels t classes levels pl a b).1 = lv at hrb hget hlen hle
  have hord := C05_order lv a b h.hab (by rw [hlen]; exact h.hb) hle
  have hn := lineL1_length t classes levels pl a b
  have hexp := l2_expand (charRanges (lineSegs t a b)) a b (charRanges_tiles _ _ _ h.tiles)
    (slice lv a b) (lineL1 t classes levels pl a b)
    (by rw [slice_length lv a b (by rw [hlen]; exact h.hb)])
    (by simp [charRanges, hn])
    (by
      intro i hi u hu
      have hi' : i < (lineSegs t a b).length := by simpa [charRanges] using hi
      rw [charRanges_getD _ i hi'] at hu
      simp only [units, List.mem_range'_1] at hu
      have hm := mem_lineSegs (List.getElem_mem hi')
      have hbd := (SegsFrom_bounds h.tiles).2 _ (List.getElem_mem hi')
      have := hget i hi' (u - ((lineSegs t a b)[i]).start) (by omega)
      rw [show ((lineSegs t a b)[i]).start + (u - ((lineSegs t a b)[i]).start) = u by omega] at this
      simp only [List.getD_eq_getElem?_getD, getElem?_slice]
      rw [if_pos (by omega), show a + (u - a) = u by omega, this])
  rw [hexp] at hord
  -- read both sides through "the character that starts at this unit"
  have hF := congrArg (List.filterMap (fun u => t.segs.find? (fun s => s.start == u))) hord
  rw [runsOrder, List.filterMap_flatMap, List.filterMap_flatMap] at hF
  have hL : ∀ r ∈ (visualRunsForLine lv a b).1,
      List.filterMap (fun u => t.segs.find? (fun s => s.start == u))
        (let idx := List.range' r.1 (r.2 - r.1); if (lv.getD r.1 0) % 2 == 1 then idx.reverse else idx)
      = runSegs t lv r := by
    intro r hr
    obtain ⟨_, b2, _⟩ := hrb r hr
    have := filterMap_find t.segs 0 t.len h.wf.tiles r.1 (r.2 - r.1)
    rw [show r.1 + (r.2 - r.1) = r.2 by omega] at this
    simp only [runSegs, Level.isRtl]
    by_cases hc : (lv.getD r.1 0 % 2 == 1) = true
    · simp only [hc, ↓reduceIte, List.filterMap_reverse, this]
    · simp only [hc, Bool.false_eq_true, ↓reduceIte, this]
  have hR : ∀ k ∈ Spec.l2 (lineL1 t classes levels pl a b),
      List.filterMap (fun u => t.segs.find? (fun s => s.start == u))
        (if (lineL1 t classes levels pl a b).getD k 0 % 2 == 1
          then (units ((charRanges (lineSegs t a b)).getD k default)).reverse
          else units ((charRanges (lineSegs t a b)).getD k default))
      = [(lineSegs t a b).getD k default] := by
    intro k hk
    have hk' : k < (lineSegs t a b).length := by
      have := spec_l2_lt _ k hk; omega
    have hm := mem_lineSegs (List.getElem_mem hk')
    rw [charRanges_getD _ k hk']
    have e : (lineSegs t a b).getD k default = (lineSegs t a b)[k] := by
      simp [List.getD_eq_getElem?_getD, hk']
    have := filterMap_find t.segs 0 t.len h.wf.tiles ((lineSegs t a b)[k]).start ((lineSegs t a b)[k]).len
    rw [filter_self t.segs 0 t.len h.wf.tiles _ hm.1] at this
    simp only [units, show ∀ x y : Nat, x + y - x = y by intro x y; omega]
    rw [e]
    split
    · rw [List.filterMap_reverse, this]; rfl
    · rw [this]
  rw [flatMap_congr' _ _ _ hL, flatMap_congr' _ _ _ hR] at hF
  rw [hF]
  exact List.map_eq_flatMap.symm

/-! ### evaluating `reorderLine` -/

/-- under the hypotheses neither of the two bounds checks nor the two callees fail -/
theorem Hyp.reorderLine_eq (h : Hyp t classes levels pl a b) :
    reorderLine t classes levels pl a b =
      if (!Level.hasRtl (slice levels a b) && Level.isLtr pl) = true then (none, none)
      else reorderLinePieces t (reorderedLevels t classes levels pl a b).1
            (visualRunsForLine (reorderedLevels t classes levels pl a b).1 a b).1 := by
  have hab := h.hab
  have hb := h.hb
  have hl := h.hl
  unfold reorderLine
  rw [if_neg (by simp; omega)]
  split
  · simp [h.ha, h.hbb]
  · have e1 : reorderedLevels t classes levels pl a b = ((reorderedLevels t classes levels pl a b).1, none) :=
      Prod.ext rfl h.lv_eq.1
    have e2 : visualRunsForLine (reorderedLevels t classes levels pl a b).1 a b
        = ((visualRunsForLine (reorderedLevels t classes levels pl a b).1 a b).1, none) :=
      Prod.ext rfl (C05_no_panic _ a b h.hab (by rw [h.lv_length]; exact h.hb) h.lv_le)
    generalize reorderedLevels t classes levels pl a b = R at e1 e2
    obtain ⟨lv, e⟩ := R
    simp only [Prod.mk.injEq, true_and] at e1
    subst e1
    simp only
    generalize visualRunsForLine lv a b = V at e2
    obtain ⟨runs, e'⟩ := V
    simp only [Prod.mk.injEq, true_and] at e2
    subst e2
    rfl

/-- the pieces, when `reorder_line` builds any, list the runs' characters, and no slice is off a
    character boundary -/
theorem Hyp.pieces_eq (h : Hyp t classes levels pl a b) :
    let lv := (reorderedLevels t classes levels pl a b).1
    let runs := (visualRunsForLine lv a b).1
    (reorderLinePieces t lv runs).2 = none ∧
    ((reorderLinePieces t lv runs).1 = none ∧ runs.all (fun r => Level.isLtr (lv.getD r.1 0)) = true ∨
     (reorderLinePieces t lv runs).1 = some (runs.map (fun r =>
        { verbatim := !Level.isRtl (lv.getD r.1 0), segs := runSegs t lv r : Piece }))) := by
  intro lv runs
  have hrb : ∀ r ∈ runs, (t.isBoundary r.1 && t.isBoundary r.2) = true := by
    intro r hr
    obtain ⟨_, _, _, h1, h2⟩ := h.run_boundaries r hr
    simp [h1, h2]
  unfold reorderLinePieces
  split
  · rename_i hall
    exact ⟨rfl, Or.inl ⟨rfl, hall⟩⟩
  · refine ⟨?_, Or.inr ?_⟩
    · have : runs.any (fun r => !(t.isBoundary r.1 && t.isBoundary r.2)) = false := by
        rw [List.any_eq_false]
        intro r hr
        simp [hrb r hr]
      simp only [this, Bool.false_and, Bool.false_eq_true, if_false]
    · simp only [Option.some.injEq]
      apply List.map_congr_left
      intro r _
      unfold runSegs
      cases hc : Level.isRtl (lv.getD r.1 0) <;> rfl

/-- with only left-to-right runs, no character of the line has an odd level after rule L1 -/
theorem Hyp.all_ltr_even (h : Hyp t classes levels pl a b)
    (hall : (visualRunsForLine (reorderedLevels t classes levels pl a b).1 a b).1.all
      (fun r => Level.isLtr ((reorderedLevels t classes levels pl a b).1.getD r.1 0)) = true) :
    ∀ x ∈ lineL1 t classes levels pl a b, x % 2 = 0 := by
  intro x hx
  obtain ⟨i, hi, rfl⟩ := List.mem_iff_getElem.1 hx
  have hi' : i < (lineSegs t a b).length := by rw [← lineL1_length t classes levels pl a b]; exact hi
  have hm := mem_lineSegs (List.getElem_mem hi')
  have hbd := (SegsFrom_bounds h.tiles).2 _ (List.getElem_mem hi')
  have hg := h.lv_get i hi' 0 (segsFrom_pos h.tiles _ (List.getElem_mem hi'))
  rw [Nat.add_zero, List.getElem?_eq_getElem hi] at hg
  have hlen := h.lv_length
  have hle := h.lv_le
  generalize (reorderedLevels t classes levels pl a b).1 = lv at hall hg hlen hle
  have hcov := C05_cover lv a b h.hab (by rw [hlen]; exact h.hb) hle
  obtain ⟨_, hperm, ht, hone, _⟩ := C05_partition lv a b h.hab (by rw [hlen]; exact h.hb) hle
  have hu : ((lineSegs t a b)[i]).start ∈ (visualRunsForLine lv a b).1.flatMap units :=
    hcov.symm.subset (by simp only [List.mem_range'_1]; omega)
  obtain ⟨r, hr, hur⟩ := List.mem_flatMap.1 hu
  simp only [units, List.mem_range'_1] at hur
  have h1 := hone r (hperm.subset hr) _ hur.1 (by omega)
  have h2 := List.all_eq_true.1 hall r hr
  rw [hg] at h1
  have : lv.getD r.1 0 = (lineL1 t classes levels pl a b)[i] := by
    rw [List.getD_eq_getElem?_getD, ← h1]; rfl
  rw [this] at h2
  simpa [Level.isLtr] using h2

/-- the early exit is sound: no character of the line has an odd level after rule L1 -/
theorem Hyp.early_even (h : Hyp t classes levels pl a b)
    (he : (!Level.hasRtl (slice levels a b) && Level.isLtr pl) = true) :
    ∀ x ∈ lineL1 t classes levels pl a b, x % 2 = 0 := by
  simp only [Bool.and_eq_true, Bool.not_eq_true', Level.hasRtl, List.any_eq_false, Level.isLtr,
    Level.isRtl, beq_iff_eq] at he
  intro x hx
  rcases lineL1_mem t classes levels pl a b (by rw [h.hl]; exact h.hb) x hx with rfl | hx
  · exact he.2
  · have := he.1 x hx
    omega

/-- the characters of the result, `none` meaning the line itself -/
def resultSegs (t : Text) (a b : Nat) (r : Option (List Piece)) : List Seg :=
  match r with
  | none => lineSegs t a b
  | some ps => ps.flatMap (·.segs)

theorem l2_even_map (S : List Seg) (l1 : List Nat) (hn : l1.length = S.length)
    (hev : ∀ x ∈ l1, x % 2 = 0) : (Spec.l2 l1).map (fun k => S.getD k default) = S := by
  rw [spec_l2_even l1 hev, hn]
  exact map_getD_range S default

/-- no panic, and the characters of the result are the characters of the line in the order of
    rule L2 on the per-character levels of rule L1 -/
theorem Hyp.result (h : Hyp t classes levels pl a b) :
    (reorderLine t classes levels pl a b).2 = none ∧
    resultSegs t a b (reorderLine t classes levels pl a b).1
      = (Spec.l2 (lineL1 t classes levels pl a b)).map (fun k => (lineSegs t a b).getD k default) := by
  have hn := lineL1_length t classes levels pl a b
  rw [h.reorderLine_eq]
  split
  · rename_i he
    exact ⟨rfl, (l2_even_map _ _ hn (h.early_even he)).symm⟩
  · obtain ⟨hp1, hp2⟩ := h.pieces_eq
    refine ⟨hp1, ?_⟩
    rcases hp2 with ⟨hp, hall⟩ | hp
    · rw [hp]
      exact (l2_even_map _ _ hn (h.all_ltr_even hall)).symm
    · rw [hp, ← h.runs_segs]
      simp only [resultSegs, List.flatMap_map]

/-- every character of the line occurs exactly once in the result -/
theorem Hyp.result_perm (h : Hyp t classes levels pl a b) :
    (resultSegs t a b (reorderLine t classes levels pl a b).1).Perm (lineSegs t a b) := by
  rw [h.result.2]
  have hp := (spec_l2_perm (lineL1 t classes levels pl a b)).map (fun k => (lineSegs t a b).getD k default)
  rw [lineL1_length, map_getD_range] at hp
  exact hp

/-- every piece consists of the characters that start in a range `[x, y)` of the line whose ends are
    character boundaries: these tile `[x, y)` and are consecutive characters of the line; a
    verbatim piece lists them in order, the other pieces in reverse order -/
theorem Hyp.pieces_whole (h : Hyp t classes levels pl a b) (ps : List Piece)
    (hps : (reorderLine t classes levels pl a b).1 = some ps) :
    ∀ p ∈ ps, ∃ x y, a ≤ x ∧ x < y ∧ y ≤ b ∧ t.isBoundary x = true ∧ t.isBoundary y = true ∧
      (if p.verbatim then p.segs else p.segs.reverse) = t.segs.filter (inRange x y) ∧
      SegsFrom x (t.segs.filter (inRange x y)) y ∧
      t.segs.filter (inRange x y) <:+: lineSegs t a b := by
  rw [h.reorderLine_eq] at hps
  split at hps
  · exact absurd hps (by simp)
  · rcases h.pieces_eq.2 with ⟨hp, _⟩ | hp
    · rw [hp] at hps; exact absurd hps (by simp)
    · rw [hp, Option.some.injEq] at hps
      subst hps
      intro p hp
      obtain ⟨r, hr, rfl⟩ := List.mem_map.1 hp
      obtain ⟨r1, r2, r3, r4, r5⟩ := h.run_boundaries r hr
      refine ⟨r.1, r.2, r1, r2, r3, r4, r5, ?_, lineSegs_tiles t h.wf r.1 r.2 (Nat.le_of_lt r2) r4 r5, ?_⟩
      · unfold runSegs
        cases Level.isRtl ((reorderedLevels t classes levels pl a b).1.getD r.1 0) <;> simp
      · have e : t.segs.filter (inRange r.1 r.2) = (lineSegs t a b).filter (inRange r.1 r.2) := by
          unfold lineSegs
          rw [List.filter_filter]
          apply List.filter_congr
          intro s _
          simp only [inRange]
          by_cases h1 : r.1 ≤ s.start <;> by_cases h2 : s.start < r.2 <;> simp [h1, h2] <;> omega
        rw [e]
        exact filter_infix _ a b r.1 r.2 h.tiles (Nat.le_of_lt r2)

end

end UBidi.Lemmas.C06
