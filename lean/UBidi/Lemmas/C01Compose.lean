/-
  C01 / composition — the levels the Model computes are the levels UAX #9 assigns.

  Files (in order): `C01ComposeDefs` (vocabulary, the residual hypothesis `WeakInv`),
  `C01ComposeFill` (the two fill rules), `C01ComposeExplicit` (facts about the explicit stage),
  `C01ComposeStep` (one sequence), `C01ComposeFold` (the loop over disjoint sequences),
  `C01ComposeSeqs` (the Model's sequences), `C01ComposeUnit` / `C01ComposeLevels` (layer 1: a
  single-unit paragraph), `C01ComposeChars` (layers 2, 3: flags, characters of several units),
  `C01ComposeFlags` (the flags and X5c), `C01ComposeWeak` (`WeakInv` holds), and here layer 4a:
  one paragraph as `compute_initial_info` (single-paragraph mode) presents it (`single_para_levels`).
-/
import UBidi.Lemmas.C01ComposeFlags
import UBidi.Lemmas.C01ComposeWeak
import UBidi.Lemmas.C09Single
import UBidi.Props.C02
namespace UBidi.Lemmas.C01Compose
open UBidi UBidi.BidiClass UBidi.Lemmas.C01Seq UBidi.Lemmas.C01Pure UBidi.Expand
open UBidi.Props.C02 (raw)

theorem paraLevel_le_one (d : Option Nat) (hd : ∀ l, d = some l → l ≤ 1) (cs : List BidiClass) :
    Spec.paraLevel d cs ≤ 1 := by
  unfold Spec.paraLevel
  cases d with
  | some l => exact hd l rfl
  | none =>
    simp only
    split <;> omega

/-- **one paragraph, as the scan presents it.**  `t` is a well-formed text with no paragraph separator
    except possibly its last character; `compute_initial_info` in single-paragraph mode gives the
    paragraph level, the two flags and the per-unit classes.  With these, `compute_bidi_info_for_para`
    does not panic and its levels are the expansion of the levels UAX #9 assigns to the characters
    (classes after X5c as reported, bracket property from the data source).  Also: the reported
    classes are X5c of the raw classes and the level is P2/P3's (`C02`). -/
theorem single_para_levels (ds : DataSource) (hweak : WeakInv ds) (t : Text)
    (hwf : t.WF) (d : Option Nat) (hd : ∀ l, d = some l → l ≤ 1)
    (hB : ∀ c ∈ (raw ds t).dropLast, c ≠ B) :
    let ii := computeInitialInfo ds t d false
    paraLevels ds ii.lastLevel ii.lastPureLtr ii.lastHasIso t ii.classes =
      (expand t (Spec.paragraphLevels ii.lastLevel (charsOf ds t ii.classes)), none) ∧
    (Spec.paragraphLevels ii.lastLevel (charsOf ds t ii.classes)).length = t.segs.length ∧
    (charsOf ds t ii.classes).map (·.cls) = Spec.resolveFSI (raw ds t) ∧
    ii.lastLevel = Spec.paraLevel d (raw ds t) := by
  intro ii
  have hcon : contract t ii.classes ON = Spec.resolveFSI (raw ds t) :=
    Props.C02.C02_single_classes ds t d hwf hB
  have hlev : ii.lastLevel = Spec.paraLevel d (raw ds t) := Props.C02.C02_single_level ds t d hwf hB
  have hpl : ii.lastLevel ≤ 1 := by rw [hlev]; exact paraLevel_le_one d hd _
  obtain ⟨hf1, hf2⟩ := single_flags ds t d
  have hlen : ii.classes.length = t.len := Props.C02.C02_classes_length ds t d hwf false
  have hu : UniformOn t ii.classes := Props.C09.classes_uniformOn ds t d hwf false
  have hnb : NoInnerB (contract t ii.classes ON) := by
    rw [hcon]; exact resolveFSI_noInnerB _ hB
  have hpure : ii.lastPureLtr = true → ∀ x ∈ contract t ii.classes ON, pureClass x = true := by
    intro hp x hx
    rw [hf1] at hp
    have hp' : (raw ds t).all pureClass = true := hp
    rw [hcon, resolveFSI_pure _ hp'] at hx
    exact List.all_eq_true.1 hp' x hx
  have hiso : ii.lastHasIso = (contract t ii.classes ON).any isIsolateInitiator := by
    rw [hf2, hcon, resolveFSI_anyIso]; rfl
  refine ⟨?_, specLevels_length hweak t ii.lastLevel hpl ii.classes hnb, ?_, hlev⟩
  · rw [hiso]
    exact paraLevels_chars hweak t hwf ii.lastLevel hpl ii.classes hlen hu hnb ii.lastPureLtr hpure
  · rw [charsOf_cls, hcon]

end UBidi.Lemmas.C01Compose
