/-
  UBidi.Lemmas.C12UnitsCanon — for C12 ("irrespective of how many code units each character occupies"):
  `ParagraphBidiInfo` of a one-unit-per-character text is a function of the list of class values and the list of
  bracket values of its characters (`pbi_charText_canon`): it equals `ParagraphBidiInfo` of the text whose
  characters are their own indices `0, 1, 2, …`, under the data source that reads the two lists (`dsOf`).
-/
import UBidi.Lemmas.C12UnitsMap
import UBidi.Lemmas.C09Chars
import UBidi.Props.C12
namespace UBidi.Lemmas.C12Units
open UBidi BidiClass UBidi.Props.C09

/-- the data source that reads class and bracket value of "character" `k` from two lists -/
def dsOf (cl : List BidiClass) (bk : List (Option Bracket)) : DataSource :=
  { cls := fun k => cl.getD k .ON, brk := fun k => bk.getD k none }

theorem charText_mapCp (cps : List Nat) :
    mapCp (fun k => cps.getD k 0) (charText (List.range cps.length)) = charText cps := by
  simp only [mapCp, charText, List.length_range, List.map_map]
  congr 1
  apply List.ext_getElem
  · simp
  · intro i h1 h2
    simp only [List.length_map, List.length_zipIdx, List.length_range] at h1
    simp [List.getElem_zipIdx, List.getD_eq_getElem?_getD, List.getElem?_eq_getElem h1]

theorem charText_range_cp (n : Nat) : ∀ s ∈ (charText (List.range n)).segs, s.cp < n := by
  intro s hs
  simp only [charText, List.mem_map] at hs
  obtain ⟨⟨c, k⟩, hck, rfl⟩ := hs
  have := (List.mem_zipIdx hck).2.2
  simp only [Nat.sub_zero, List.getElem_range] at this
  have h2 := (List.mem_zipIdx hck).2.1
  simp only [List.length_range, Nat.zero_add] at h2
  simp only
  omega

/-- `ParagraphBidiInfo` of a one-unit-per-character text depends on the scalar values only through the lists of
    their class and bracket values (every field, the panic field included) -/
theorem pbi_charText_canon (ds : DataSource) (cps : List Nat) (d : Option Nat) :
    paragraphBidiInfo ds (charText cps) d
      = paragraphBidiInfo (dsOf (cps.map ds.cls) (cps.map ds.brk)) (charText (List.range cps.length)) d := by
  conv => lhs; rw [← charText_mapCp cps]
  rw [pbi_mapCp ds _ _ rfl d]
  apply (Props.C12.C12_depends_only_on_ds _ _ _ d ?_).2.1
  intro s hs
  have hk := charText_range_cp cps.length s hs
  simp only [comap, dsOf, List.getD_eq_getElem?_getD, List.getElem?_map, List.getElem?_eq_getElem hk,
    Option.map_some, Option.getD_some, and_self]

/-- two lists of scalar values with, position by position, the same class and bracket values under their
    respective data sources: the same `ParagraphBidiInfo` of the one-unit-per-character texts -/
theorem pbi_charText_congr (ds ds' : DataSource) (cps cps' : List Nat) (d : Option Nat)
    (hc : cps.map ds.cls = cps'.map ds'.cls) (hb : cps.map ds.brk = cps'.map ds'.brk) :
    paragraphBidiInfo ds (charText cps) d = paragraphBidiInfo ds' (charText cps') d := by
  have hl : cps.length = cps'.length := by simpa using congrArg List.length hc
  rw [pbi_charText_canon ds cps d, pbi_charText_canon ds' cps' d, hc, hb, hl]

end UBidi.Lemmas.C12Units
