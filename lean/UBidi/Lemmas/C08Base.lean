/-
  C08 helpers: the bookkeeping of `compute_initial_info` (one class per code unit, as many
  flag records as paragraphs, classes uniform within each character), the accumulation loop
  of `BidiInfo::new`, unit-wise readings of `resolve_levels` and of the removed-character
  fill.  Stage lemmas shared with C01 are in UBidi/Lemmas/C01Base.lean.
-/
import UBidi.Lemmas.C01Base
import UBidi.Lemmas.C02Sim
namespace UBidi.Props.C08.Base
open UBidi UBidi.BidiClass
open UBidi.Props.C01.Base
open UBidi.Lemmas.C02 (widthAt widthAt_of_charAt iiStepW iiStep_eq)

/-! ### `compute_initial_info`: lengths -/

theorem iiStep_classes_length (ds : DataSource) (T : Text) (split : Bool) (dflt : Option Nat)
    (st : IIState) (s : Seg) :
    (iiStep ds T split dflt st s).classes.length = st.classes.length + T.enc.charLen s.cp := by
  rw [iiStep_eq]
  unfold iiStepW
  grind [setRange_length, List.length_append, List.length_replicate]

theorem iiStep_paras_flags (ds : DataSource) (T : Text) (split : Bool) (dflt : Option Nat)
    (st : IIState) (s : Seg) (h : st.paras.length = st.flags.length) :
    (iiStep ds T split dflt st s).paras.length = (iiStep ds T split dflt st s).flags.length := by
  rw [iiStep_eq]
  unfold iiStepW
  grind [List.length_append]

theorem foldl_length_segs {σ α} (f : σ → Seg → σ) (proj : σ → List α) (g : Seg → Nat)
    (h : ∀ st s, (proj (f st s)).length = (proj st).length + g s)
    (segs : List Seg) (pos e : Nat) (hs : SegsFrom pos segs e) (hg : ∀ s ∈ segs, g s = s.len)
    (st : σ) (hst : (proj st).length = pos) :
    (proj (segs.foldl f st)).length = e := by
  induction segs generalizing pos st with
  | nil => simp [SegsFrom] at hs; simp [hs, hst]
  | cons s ss ih =>
    obtain ⟨hstart, _, hrest⟩ := hs
    simp only [List.foldl_cons]
    apply ih (pos + s.len) hrest (fun s' hs' => hg s' (by simp [hs']))
    rw [h, hst, hg s (by simp)]

theorem foldl_inv {σ β} (P : σ → Prop) (f : σ → β → σ) (h : ∀ st b, P st → P (f st b))
    (xs : List β) (st : σ) (h0 : P st) : P (xs.foldl f st) := by
  induction xs generalizing st with
  | nil => exact h0
  | cons x xs ih => exact ih _ (h _ _ h0)

theorem initial_classes_length (ds : DataSource) (t : Text) (hwf : t.WF) (d : Option Nat) (split : Bool) :
    (computeInitialInfo ds t d split).classes.length = t.len := by
  unfold computeInitialInfo
  simp only []
  exact foldl_length_segs (iiStep ds t split d) (·.classes) (fun s => t.enc.charLen s.cp)
    (iiStep_classes_length ds t split d) t.segs 0 t.len hwf.tiles
    (fun s hs => (hwf.lens s hs).symm) _ rfl

theorem initial_paras_flags (ds : DataSource) (t : Text) (d : Option Nat) (split : Bool) :
    (computeInitialInfo ds t d split).paras.length = (computeInitialInfo ds t d split).flags.length := by
  have := foldl_inv (fun st : IIState => st.paras.length = st.flags.length) (iiStep ds t split d)
    (fun st s h => iiStep_paras_flags ds t split d st s h) t.segs { paraLevel := d } rfl
  unfold computeInitialInfo
  simp only []
  split <;> simp_all

/-- the accumulation loop of `BidiInfo::new`: the level vector is the concatenation of the
    paragraphs' level vectors -/
theorem bidi_fold_length {β} (g : β → List Nat × Option Panic) (n : β → Nat) (xs : List β)
    (h : ∀ x ∈ xs, (g x).1.length = n x) (acc : List Nat × Option Panic) :
    (xs.foldl (fun (acc : List Nat × Option Panic) x => (acc.1 ++ (g x).1, orErr acc.2 (g x).2)) acc).1.length
      = acc.1.length + (xs.map n).sum := by
  induction xs generalizing acc with
  | nil => simp
  | cons x xs ih =>
    simp only [List.foldl_cons, List.map_cons, List.sum_cons]
    rw [ih (fun y hy => h y (by simp [hy]))]
    simp [h x (by simp)]; omega

/-! ### unit-wise reading of `resolve_levels`, ranges -/

theorem resolveLevels_getElem? (pcs : Classes) (lv : List Nat) (k : Nat) :
    (resolveLevels pcs lv).1[k]? =
      (lv[k]?).bind (fun l => (pcs[k]?).map (fun c => (resolveLevel l c).1)) := by
  simp only [resolveLevels, List.map_map, List.getElem?_map]
  rw [List.zip, List.getElem?_zipWith]
  cases lv[k]? <;> cases pcs[k]? <;> simp

theorem resolveLevel_range (l : Nat) (c : BidiClass) : l ≤ (resolveLevel l c).1 ∧ ((resolveLevel l c).1 ≤ 126 ∨ (resolveLevel l c).1 = l) := by
  unfold resolveLevel
  simp only [Props.C19.raise_spec]
  grind

theorem fillLoop_range (P : Nat → Prop) (prev : Nat) (ocs : List BidiClass) (lv : List Nat)
    (hp : P prev) (h : ∀ l ∈ lv, P l) : ∀ l ∈ fillRemovedLoop prev ocs lv, P l := by
  induction lv generalizing prev ocs with
  | nil => cases ocs <;> simp [fillRemovedLoop]
  | cons l ls ih =>
    cases ocs with
    | nil => simpa [fillRemovedLoop] using h
    | cons c cs =>
      have hl : P l := h l (by simp)
      have hp' : P (if c.removedByX9 then prev else l) := by split <;> assumption
      intro x hx
      simp only [fillRemovedLoop, List.mem_cons] at hx
      rcases hx with rfl | hx
      · exact hp'
      · exact ih _ cs hp' (fun y hy => h y (by simp [hy])) x hx

/-- every character of a tiling lies inside the tiled interval -/
theorem segsFrom_bounds : ∀ (segs : List Seg) (p e : Nat), SegsFrom p segs e →
    ∀ s ∈ segs, p ≤ s.start ∧ s.start + s.len ≤ e ∧ 0 < s.len
  | [], _, _, _ => by simp
  | s :: ss, p, e, h => by
    obtain ⟨h1, h2, h3⟩ := h
    have ih := segsFrom_bounds ss _ e h3
    have he : p + s.len ≤ e := by
      cases ss with
      | nil => simp only [SegsFrom] at h3; omega
      | cons s2 ss2 => have := ih s2 (by simp); obtain ⟨h4, _, _⟩ := h3; omega
    intro x hx
    rcases List.mem_cons.1 hx with rfl | hx
    · omega
    · have := ih x hx; omega

/-! ### `compute_initial_info`: the classes are uniform within each character -/

theorem setRange_getElem? {α} (xs : List α) (i n : Nat) (v : α) (k : Nat) :
    (setRange xs i n v)[k]? = if i ≤ k ∧ k < i + n then (xs[k]?).map (fun _ => v) else xs[k]? := by
  induction n generalizing xs with
  | zero => simp only [setRange]; split <;> first | omega | rfl
  | succ n ih =>
    simp only [setRange, ih, List.getElem?_set]
    grind

/-- what one step of `compute_initial_info` does to the class vector and the isolate stack -/
theorem iiStep_shape (ds : DataSource) (T : Text) (split : Bool) (dflt : Option Nat)
    (st : IIState) (s : Seg) :
    let r := iiStep ds T split dflt st s
    let cl1 := st.classes ++ List.replicate (T.enc.charLen s.cp) (ds.cls s.cp)
    (r.classes = cl1 ∨ ∃ start v, start ∈ st.stack ∧ r.classes = setRange cl1 start (widthAt T start) v) ∧
    (r.stack = st.stack ∨ r.stack = [] ∨ r.stack = st.stack.tail ∨
      (r.stack = s.start :: st.stack ∧ (ds.cls s.cp).isIsolateInitiator = true)) := by
  rw [iiStep_eq]
  unfold iiStepW
  grind [isIsolateInitiator]

/-- invariant of the `compute_initial_info` loop: `done` are the characters read so far,
    `pos` the number of code units read, `w` the X5c width function (`widthAt`): at every pending
    initiator it is the length of the character that sits there -/
structure IInv (w : Nat → Nat) (done : List Seg) (pos : Nat) (classes : List BidiClass) (stack : List Nat) : Prop where
  len : classes.length = pos
  inb : ∀ s ∈ done, s.start + s.len ≤ pos
  disj : ∀ s1 ∈ done, ∀ s2 ∈ done, s1 = s2 ∨ s1.start + s1.len ≤ s2.start ∨ s2.start + s2.len ≤ s1.start
  uni : ∀ s ∈ done, ∀ j, j < s.len → classes[s.start + j]? = classes[s.start]?
  stk : ∀ start ∈ stack, ∃ s ∈ done, s.start = start ∧ s.len = w start

theorem IInv.append {w done pos classes stack} (h : IInv w done pos classes stack) (s : Seg)
    (hs : s.start = pos) (c : BidiClass) :
    IInv w (done ++ [s]) (pos + s.len) (classes ++ List.replicate s.len c) stack := by
  constructor
  · simp [h.len]
  · intro s' hs'
    rcases List.mem_append.1 hs' with h1 | h1
    · have := h.inb s' h1; omega
    · simp at h1; subst h1; omega
  · intro s1 h1 s2 h2
    rcases List.mem_append.1 h1 with a1 | a1 <;> rcases List.mem_append.1 h2 with a2 | a2
    · exact h.disj s1 a1 s2 a2
    · simp at a2; subst a2; have := h.inb s1 a1; right; left; omega
    · simp at a1; subst a1; have := h.inb s2 a2; right; right; omega
    · simp at a1 a2; left; rw [a1, a2]
  · intro s' hs' j hj
    rcases List.mem_append.1 hs' with h1 | h1
    · have := h.inb s' h1
      rw [List.getElem?_append_left (by rw [h.len]; omega), List.getElem?_append_left (by rw [h.len]; omega)]
      exact h.uni s' h1 j hj
    · simp at h1; subst h1
      rw [List.getElem?_append_right (by rw [h.len]; omega), List.getElem?_append_right (by rw [h.len]; omega)]
      simp [h.len, hs]
      have : 0 < s'.len := by omega
      simp [hj, this]
  · intro start hst
    obtain ⟨s', h1, h2⟩ := h.stk start hst
    exact ⟨s', List.mem_append_left _ h1, h2⟩

theorem IInv.setRange {w done pos classes stack} (h : IInv w done pos classes stack)
    (start : Nat) (hst : start ∈ stack) (v : BidiClass) :
    IInv w done pos (setRange classes start (w start) v) stack := by
  obtain ⟨s', hs', hs1, hs2⟩ := h.stk start hst
  refine ⟨by rw [setRange_length]; exact h.len, h.inb, h.disj, ?_, h.stk⟩
  intro s hs j hj
  rw [setRange_getElem?, setRange_getElem?, h.uni s hs j hj]
  rcases h.disj s hs s' hs' with rfl | hd | hd
  · have a : start ≤ s.start + j ∧ s.start + j < start + w start := by omega
    have b : start ≤ s.start ∧ s.start < start + w start := by omega
    simp only [a, b, and_self, if_true]
  · have a : ¬ (start ≤ s.start + j ∧ s.start + j < start + w start) := by omega
    have b : ¬ (start ≤ s.start ∧ s.start < start + w start) := by omega
    simp only [a, b, if_false]
  · have a : ¬ (start ≤ s.start + j ∧ s.start + j < start + w start) := by omega
    have b : ¬ (start ≤ s.start ∧ s.start < start + w start) := by omega
    simp only [a, b, if_false]

theorem IInv.step {ds : DataSource} {T : Text}
    {done pos} {st : IIState} (h : IInv (widthAt T) done pos st.classes st.stack)
    (split : Bool) (dflt : Option Nat) (s : Seg) (hs : s.start = pos)
    (hl : s.len = T.enc.charLen s.cp) (hat : T.charAt s.start = some s) :
    IInv (widthAt T) (done ++ [s]) (pos + s.len) (iiStep ds T split dflt st s).classes
      (iiStep ds T split dflt st s).stack := by
  have h1 := h.append s hs (ds.cls s.cp)
  obtain ⟨hc, hk⟩ := iiStep_shape ds T split dflt st s
  rw [← hl] at hc
  -- first the stack
  have hstk : ∀ start ∈ (iiStep ds T split dflt st s).stack,
      ∃ s' ∈ done ++ [s], s'.start = start ∧ s'.len = widthAt T start := by
    intro start hmem
    rcases hk with hk | hk | hk | ⟨hk, hi⟩
    · rw [hk] at hmem; exact h1.stk start hmem
    · rw [hk] at hmem; cases hmem
    · rw [hk] at hmem; exact h1.stk start (List.mem_of_mem_tail hmem)
    · rw [hk] at hmem
      rcases List.mem_cons.1 hmem with rfl | hmem
      · exact ⟨s, by simp, rfl, (widthAt_of_charAt hat).symm⟩
      · exact h1.stk start hmem
  rcases hc with hc | ⟨start, v, hmem, hc⟩
  · rw [hc]; exact ⟨h1.len, h1.inb, h1.disj, h1.uni, hstk⟩
  · rw [hc]
    have h2 := h1.setRange start hmem v
    exact ⟨h2.len, h2.inb, h2.disj, h2.uni, hstk⟩

theorem IInv.fold {ds : DataSource} {T : Text} (split : Bool) (dflt : Option Nat) :
    ∀ (segs : List Seg) (pos e : Nat) (done : List Seg) (st : IIState), SegsFrom pos segs e →
      (∀ s ∈ segs, s.len = T.enc.charLen s.cp ∧ T.charAt s.start = some s) →
      IInv (widthAt T) done pos st.classes st.stack →
      IInv (widthAt T) (done ++ segs) e (segs.foldl (iiStep ds T split dflt) st).classes
        (segs.foldl (iiStep ds T split dflt) st).stack
  | [], pos, e, done, st, hs, _, h => by
    simp only [SegsFrom] at hs; subst hs; simpa using h
  | s :: ss, pos, e, done, st, hs, hl, h => by
    obtain ⟨h1, _, h3⟩ := hs
    have hs' := hl s (by simp)
    have := IInv.fold (ds := ds) split dflt ss (pos + s.len) e (done ++ [s]) (iiStep ds T split dflt st s) h3
      (fun x hx => hl x (by simp [hx])) (h.step (ds := ds) split dflt s h1 hs'.1 hs'.2)
    simpa using this

/-- the original classes are uniform within each character, for every data source: rule X5c
    rewrites exactly the code units of the character at the initiator's offset (since the repair
    of finding D10; before, it rewrote `char_len(FSI)` units and a proviso on the data source was
    needed) -/
theorem initial_classes_uniform (ds : DataSource) (t : Text) (hwf : t.WF) (d : Option Nat) (split : Bool) :
    ∀ s ∈ t.segs, ∀ j, j < s.len →
      (computeInitialInfo ds t d split).classes[s.start + j]? =
        (computeInitialInfo ds t d split).classes[s.start]? := by
  have h0 : IInv (widthAt t) [] 0 ({ paraLevel := d } : IIState).classes
      ({ paraLevel := d } : IIState).stack :=
    ⟨rfl, by simp, by simp, by simp, by simp⟩
  have := IInv.fold (ds := ds) (T := t) split d t.segs 0 t.len [] { paraLevel := d } hwf.tiles
    (fun s hs => ⟨hwf.lens s hs, UBidi.Lemmas.C02.charAt_start t hwf s hs⟩) h0
  intro s hs j hj
  exact this.uni s (by simpa using hs) j hj

end UBidi.Props.C08.Base
