/-
  UBidi.Lemmas.ExpandExplicit — the Expand lemma for the explicit and the prepare stage:
  on a well-formed text `t`, `explicitCompute` and `isolatingRunSequences` give the expansion
  (`Expand.expand`, `mapRun`, `mapSeq`) of what they give on `unitize t` (one unit per character).

  Basic lemmas (`unitize_wf`, `expand_contract`, `contract_expand`, `expand_uniform`) are in
  `ExpandExplicitBase`, `explicit_expand` / `explicit_runs_shape` in `ExpandExplicitFold`,
  the list layer of the prepare stage in `ExpandExplicitPrep`.
-/
import UBidi.Lemmas.ExpandExplicitFold
import UBidi.Lemmas.ExpandExplicitPrep
namespace UBidi.Expand
open UBidi UBidi.BidiClass

theorem mapRun_eq_mr (t : Text) (hwf : t.WF) : mapRun t = mr (lens t) := by
  funext r; exact mapRun_eq t hwf r

theorem mapSeq_eq_mseq (t : Text) (hwf : t.WF) : mapSeq t = mseq (lens t) := by
  funext s; simp only [mapSeq, mseq, mapRun_eq_mr t hwf]

/-- prepare stage: the sequences of the per-unit arrays are the images of the sequences of the
    per-character arrays.  `RunsIn n runs1` (every run non-empty and inside `[0, n)`) is all that is
    needed of the runs; `explicit_runs_shape` gives the stronger `RunsTile 0 runs1 n`. -/
theorem prepare_expand (t : Text) (hwf : t.WF) (pl : Nat) (ocs1 : List BidiClass) (lv1 : List Nat)
    (runs1 : List (Nat × Nat)) (hasIso : Bool)
    (hl : ocs1.length = t.segs.length) (hl2 : lv1.length = t.segs.length)
    (hruns : RunsIn t.segs.length runs1) :
    isolatingRunSequences pl (expand t ocs1) (expand t lv1) (runs1.map (mapRun t)) hasIso
      = ((isolatingRunSequences pl ocs1 lv1 runs1 hasIso).1.map (mapSeq t),
         (isolatingRunSequences pl ocs1 lv1 runs1 hasIso).2) := by
  rw [expand_eq_ex, expand_eq_ex, mapRun_eq_mr t hwf, mapSeq_eq_mseq t hwf]
  exact irs_ex (lens t) (lens_pos t hwf) pl ocs1 lv1 (by simpa using hl) (by simpa using hl2) runs1 hasIso
    (by simpa using hruns)

/-- the same with the tiling hypothesis (the shape `explicitCompute (unitize t)` produces) -/
theorem prepare_expand_tile (t : Text) (hwf : t.WF) (pl : Nat) (ocs1 : List BidiClass) (lv1 : List Nat)
    (runs1 : List (Nat × Nat)) (hasIso : Bool)
    (hl : ocs1.length = t.segs.length) (hl2 : lv1.length = t.segs.length)
    (hruns : RunsTile 0 runs1 t.segs.length) :
    isolatingRunSequences pl (expand t ocs1) (expand t lv1) (runs1.map (mapRun t)) hasIso
      = ((isolatingRunSequences pl ocs1 lv1 runs1 hasIso).1.map (mapSeq t),
         (isolatingRunSequences pl ocs1 lv1 runs1 hasIso).2) :=
  prepare_expand t hwf pl ocs1 lv1 runs1 hasIso hl hl2 hruns.runsIn

/-- explicit + prepare on the real pipeline inputs -/
theorem explicit_prepare_expand (t : Text) (hwf : t.WF) (pl : Nat) (ocs : List BidiClass)
    (hlen : ocs.length = t.len) (hu : UniformOn t ocs) (hasIso : Bool) :
    let e := explicitCompute t pl ocs
    let e1 := explicitCompute (unitize t) pl (contract t ocs .ON)
    isolatingRunSequences pl ocs e.levels e.runs hasIso =
      ((isolatingRunSequences pl (contract t ocs .ON) e1.levels e1.runs hasIso).1.map (mapSeq t),
       (isolatingRunSequences pl (contract t ocs .ON) e1.levels e1.runs hasIso).2) := by
  intro e e1
  obtain ⟨h1, _, h3, _⟩ := explicit_expand t hwf pl ocs hlen
  have hc : (contract t ocs ON).length = t.segs.length := contract_length t ocs ON
  have hshape := explicit_runs_shape t hwf pl (contract t ocs ON) hc
  have hlv := (explicit_unit_lengths t hwf pl (contract t ocs ON) hc).1
  have hp := prepare_expand_tile t hwf pl (contract t ocs ON) e1.levels e1.runs hasIso hc hlv hshape
  rw [expand_contract t hwf ocs ON hlen hu] at hp
  show isolatingRunSequences pl ocs e.levels e.runs hasIso = _
  rw [show e.levels = expand t e1.levels from h1, show e.runs = e1.runs.map (mapRun t) from h3]
  exact hp

/-! ### non-vacuity: a text with 1-, 2-, 3- and 4-unit characters meets the hypotheses -/

/-- test text: `a RLE א 😀 PDF RLI 1 PDI ¶` as a `&str` -/
def sampleScalars : List Nat := [0x61, 0x202B, 0x5D0, 0x1F600, 0x202C, 0x2067, 0x31, 0x2069, 0xA]
def sampleClasses : List BidiClass := [L, RLE, R, ON, PDF, RLI, EN, PDI, B]

theorem sample_wf : (Text.ofScalars sampleScalars).WF := by
  constructor
  · simp [Text.ofScalars, sampleScalars, Text.layout, Text.totalLen, SegsFrom, Enc.charLen, utf8Len]
  · intro s hs
    simp [Text.ofScalars, sampleScalars, Text.layout, Enc.charLen, utf8Len] at hs
    rcases hs with rfl | rfl | rfl | rfl | rfl | rfl | rfl | rfl | rfl <;> rfl

/-- the hypotheses of `explicit_expand` / `explicit_prepare_expand` hold for the sample
    (21 code units, 9 characters) -/
example :
    (Text.ofScalars sampleScalars).WF ∧
    (expand (Text.ofScalars sampleScalars) sampleClasses).length = (Text.ofScalars sampleScalars).len ∧
    UniformOn (Text.ofScalars sampleScalars) (expand (Text.ofScalars sampleScalars) sampleClasses) ∧
    (Text.ofScalars sampleScalars).len = 21 ∧ (Text.ofScalars sampleScalars).segs.length = 9 := by
  have h := expand_uniform (Text.ofScalars sampleScalars) sample_wf sampleClasses (by decide)
  exact ⟨sample_wf, h.2, h.1, by decide, by decide⟩

/-- the hypotheses of `prepare_expand` hold for the sample's per-character explicit output;
    test (evaluation on a literal): its level runs are `[(0,2),(2,5),(5,6),(6,7),(7,9)]` -/
example :
    RunsIn (Text.ofScalars sampleScalars).segs.length
      (explicitCompute (unitize (Text.ofScalars sampleScalars)) 0 sampleClasses).runs ∧
    (explicitCompute (unitize (Text.ofScalars sampleScalars)) 0 sampleClasses).runs =
      [(0, 2), (2, 5), (5, 6), (6, 7), (7, 9)] :=
  ⟨(explicit_runs_shape _ sample_wf 0 sampleClasses (by decide)).runsIn, by decide⟩

end UBidi.Expand
