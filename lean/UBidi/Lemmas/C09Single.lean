/-
  C09 helper lemmas, part 2: the single-paragraph scan (`compute_initial_info … false`) and
  `ParagraphBidiInfo`, per character.

  Everything the scan reports is a function of the raw class list (`C02.raw`): the level
  (`single_level`), the classes read at the character starts (`single_contract`), the flags
  (`last_flags`).  Hence `ParagraphBidiInfo` of a text and of its `unitize` get the same inputs for
  `compute_bidi_info_for_para` (`pbi_unitize`), and under the `Expand` hypothesis
  (`PbiExpand`: the instance `ParagraphBidiInfo` needs; implied by the general `ParaLevelsExpand`)
  the levels of the text are the expansion of the levels of its `unitize` (`pbi_levels_expand`).
-/
import UBidi.Lemmas.C09Chars
import UBidi.Lemmas.C10Slice
namespace UBidi.Props.C09
open UBidi UBidi.BidiClass UBidi.Lemmas.C02

/-- the `Expand` lemma of `compute_bidi_info_for_para` for given inputs: the levels are the expansion of
    the levels computed on the unitized text from the per-character view of the classes -/
def ParaLevelsExpandAt (ds : DataSource) (t : Text) (pl : Nat) (pure hasIso : Bool) (ocs : List BidiClass) : Prop :=
  (paraLevels ds pl pure hasIso t ocs).1 =
    Expand.expand t (paraLevels ds pl pure hasIso (Expand.unitize t) (Expand.contract t ocs .ON)).1

/-- hypothesis (the `Expand` lemma family, UBidi/Lemmas/Expand*.lean): the levels of a paragraph are
    the expansion of the levels computed on the unitized text, for all inputs with one class per code
    unit, uniform within characters -/
def ParaLevelsExpand (ds : DataSource) (t : Text) : Prop :=
  ∀ pl pure hasIso (ocs : List BidiClass), ocs.length = t.len → Expand.UniformOn t ocs →
    (paraLevels ds pl pure hasIso t ocs).1 =
      Expand.expand t (paraLevels ds pl pure hasIso (Expand.unitize t) (Expand.contract t ocs .ON)).1

/-- the one instance of the `Expand` lemma that `ParagraphBidiInfo::new(t, d)` needs: at the paragraph
    level, flags and classes that `compute_initial_info` reports for `t` (a decidable statement) -/
def PbiExpand (ds : DataSource) (t : Text) (d : Option Nat) : Prop :=
  ParaLevelsExpandAt ds t (computeInitialInfo ds t d false).lastLevel (computeInitialInfo ds t d false).lastPureLtr
    (computeInitialInfo ds t d false).lastHasIso (computeInitialInfo ds t d false).classes

instance (ds : DataSource) (t : Text) (pl : Nat) (pure hasIso : Bool) (ocs : List BidiClass) :
    Decidable (ParaLevelsExpandAt ds t pl pure hasIso ocs) := by
  unfold ParaLevelsExpandAt; infer_instance

instance (ds : DataSource) (t : Text) (d : Option Nat) : Decidable (PbiExpand ds t d) := by
  unfold PbiExpand; infer_instance

section
variable (ds : DataSource) (t : Text) (d : Option Nat)

theorem single_level (hwf : t.WF) :
    (computeInitialInfo ds t d false).lastLevel = (cRun d (C02.raw ds t)).lvl.getD 0 :=
  (single_structure ds t d hwf).1

theorem single_classes (hwf : t.WF) :
    (computeInitialInfo ds t d false).classes = Lemmas.C02.expand t.segs (cRun d (C02.raw ds t)).cls :=
  (single_structure ds t d hwf).2

theorem cRun_raw_length : (cRun d (C02.raw ds t)).cls.length = t.segs.length := by
  rw [cRun_cls_length]; simp [C02.raw]

/-- the classes read at the first unit of every character -/
theorem single_contract (hwf : t.WF) :
    Expand.contract t (computeInitialInfo ds t d false).classes .ON = (cRun d (C02.raw ds t)).cls := by
  rw [single_classes ds t d hwf]
  have := expand_read t.segs (cRun d (C02.raw ds t)).cls [] [] t.len hwf.tiles (cRun_raw_length ds t d).symm
  simpa [Expand.contract] using this

/-- both modes: all units of a character carry the same class, in the form the `Expand` lemmas use -/
theorem classes_uniformOn (hwf : t.WF) (split : Bool) :
    Expand.UniformOn t (computeInitialInfo ds t d split).classes := by
  intro s hs j hj
  have hlen := C02.C02_classes_length ds t d hwf split
  have hb := segsFrom_mem _ _ _ hwf.tiles s hs
  have h := C02.C02_classes_uniform ds t d hwf split s hs j hj
  have h1 : s.start + j < (computeInitialInfo ds t d split).classes.length := by omega
  have h2 : s.start < (computeInitialInfo ds t d split).classes.length := by omega
  simp only [List.getD_eq_getElem?_getD, List.getElem?_eq_getElem h1, List.getElem?_eq_getElem h2,
    Option.getD_some] at h
  rw [List.getElem?_eq_getElem h1, List.getElem?_eq_getElem h2, h]

end

theorem expand_unit : ∀ (ss : List Seg) (ks : List BidiClass), (∀ s ∈ ss, s.len = 1) → ss.length = ks.length →
    Lemmas.C02.expand ss ks = ks := by
  intro ss
  induction ss with
  | nil => intro ks _ hl; cases ks with
    | nil => rfl
    | cons k ks => simp at hl
  | cons s ss ih =>
    intro ks h1 hl
    cases ks with
    | nil => simp at hl
    | cons k ks =>
      simp only [expand_cons, h1 s (by simp), List.replicate_one, List.singleton_append, List.cons.injEq, true_and]
      exact ih ks (fun x hx => h1 x (by simp [hx])) (by simpa using hl)

section
variable (ds : DataSource) (t : Text) (d : Option Nat)

theorem raw_unitize : C02.raw ds (Expand.unitize t) = C02.raw ds t := (unitize_sameChars t).raw ds

/-- the single-paragraph scan of the unitized text: one class per character, the classes the scan of
    the text itself reports at the character starts -/
theorem unitize_classes (hwf : t.WF) :
    (computeInitialInfo ds (Expand.unitize t) d false).classes
      = Expand.contract t (computeInitialInfo ds t d false).classes .ON := by
  rw [single_contract ds t d hwf, single_classes ds _ d (unitize_WF t), raw_unitize]
  apply expand_unit _ _ (unitize_unit_len t)
  rw [unitize_segs_length, cRun_raw_length]

theorem unitize_level (hwf : t.WF) :
    (computeInitialInfo ds (Expand.unitize t) d false).lastLevel = (computeInitialInfo ds t d false).lastLevel := by
  rw [single_level ds t d hwf, single_level ds _ d (unitize_WF t), raw_unitize]

theorem unitize_flags :
    (computeInitialInfo ds (Expand.unitize t) d false).lastPureLtr = (computeInitialInfo ds t d false).lastPureLtr ∧
    (computeInitialInfo ds (Expand.unitize t) d false).lastHasIso = (computeInitialInfo ds t d false).lastHasIso := by
  have h1 := last_flags ds (Expand.unitize t) d false
  have h2 := last_flags ds t d false
  rw [raw_unitize, ← h2] at h1
  exact ⟨congrArg Prod.fst h1, congrArg Prod.snd h1⟩

theorem pbi_levels_eq :
    (paragraphBidiInfo ds t d).levels =
      (paraLevels ds (computeInitialInfo ds t d false).lastLevel (computeInitialInfo ds t d false).lastPureLtr
        (computeInitialInfo ds t d false).lastHasIso t (computeInitialInfo ds t d false).classes).1 := rfl

/-- `ParagraphBidiInfo` of the unitized text runs `compute_bidi_info_for_para` on the per-character
    view of the inputs it gets for the text itself -/
theorem pbi_unitize (hwf : t.WF) :
    (paragraphBidiInfo ds (Expand.unitize t) d).levels =
      (paraLevels ds (computeInitialInfo ds t d false).lastLevel (computeInitialInfo ds t d false).lastPureLtr
        (computeInitialInfo ds t d false).lastHasIso (Expand.unitize t)
        (Expand.contract t (computeInitialInfo ds t d false).classes .ON)).1 := by
  rw [pbi_levels_eq, unitize_classes ds t d hwf, unitize_level ds t d hwf, (unitize_flags ds t d).1,
    (unitize_flags ds t d).2]

/-- the general `Expand` lemma gives the instance -/
theorem PbiExpand_of_ParaLevelsExpand (hwf : t.WF) (hexp : ParaLevelsExpand ds t) :
    PbiExpand ds t d :=
  hexp _ _ _ _ (C02.C02_classes_length ds t d hwf false) (classes_uniformOn ds t d hwf false)

/-- under the `Expand` hypothesis the levels of `ParagraphBidiInfo` are the expansion of the levels of
    the unitized text, which has one level per character -/
theorem pbi_levels_expand (hwf : t.WF) (hexp : PbiExpand ds t d) :
    (paragraphBidiInfo ds t d).levels = Expand.expand t (paragraphBidiInfo ds (Expand.unitize t) d).levels ∧
    (paragraphBidiInfo ds (Expand.unitize t) d).levels.length = t.segs.length := by
  constructor
  · rw [pbi_unitize ds t d hwf, pbi_levels_eq]
    exact hexp
  · rw [pbi_levels_eq, UBidi.Props.C01.Base.paraLevels_length ds _ _ _ _ (unitize_WF t)]
    rfl

/-- per-character levels of `ParagraphBidiInfo` -/
theorem pbi_contract (hwf : t.WF) (hexp : PbiExpand ds t d) (x : Nat) :
    Expand.contract t (paragraphBidiInfo ds t d).levels x = (paragraphBidiInfo ds (Expand.unitize t) d).levels := by
  obtain ⟨h1, h2⟩ := pbi_levels_expand ds t d hwf hexp
  rw [h1]
  exact contract_expand t hwf _ h2.symm x

end

end UBidi.Props.C09
