/-
  C13 — X5c (`Spec.resolveFSI`) keeps the isolate structure; `resolveFSI` of
  `pre ++ i :: w ++ PDI :: suf` taken apart.
-/
import UBidi.Lemmas.C13Bal
namespace UBidi.Props.C13
open UBidi UBidi.Spec BidiClass

/-! ### X5c keeps the isolate structure -/

/-- what BD9 and `IsoBalanced` see of a class -/
def kind (c : BidiClass) : Nat :=
  if c == B then 0 else if isIsoInit c then 1 else if c == PDI then 2 else 3

theorem kind_eq (c1 c2 : BidiClass) : kind c1 = kind c2 →
    (c1 == B) = (c2 == B) ∧ isIsoInit c1 = isIsoInit c2 ∧ (c1 == PDI) = (c2 == PDI) := by
  cases c1 <;> cases c2 <;> decide

theorem balD_kind (w1 w2 : List BidiClass) (h : w1.map kind = w2.map kind) (d : Nat) :
    balD d w1 = balD d w2 := by
  induction w1 generalizing w2 d with
  | nil =>
    cases w2 with
    | nil => rfl
    | cons c w2 => simp at h
  | cons c1 w1 ih =>
    cases w2 with
    | nil => simp at h
    | cons c2 w2 =>
      simp only [List.map_cons, List.cons.injEq] at h
      obtain ⟨hk, ht⟩ := h
      obtain ⟨hB, hI, hP⟩ := kind_eq c1 c2 hk
      simp only [balD, hB, hI, hP, ih w2 ht]

theorem isoBalanced_of_kind (w1 w2 : List BidiClass) (h : w1.map kind = w2.map kind) (h1 : IsoBalanced w1) :
    IsoBalanced w2 := by
  rw [isoBalanced_iff] at h1 ⊢
  rw [← balD_kind w1 w2 h]; exact h1

theorem resolveFSI_kind (cs : List BidiClass) : (resolveFSI cs).map kind = cs.map kind := by
  induction cs with
  | nil => rfl
  | cons c cs ih =>
    simp only [resolveFSI, List.map_cons, ih, List.cons.injEq, and_true]
    split
    · rename_i h
      have : c = FSI := by simpa using h
      subst this
      split <;> rfl
    · rfl

theorem resolveFSI_cons_of_ne (c : BidiClass) (cs : List BidiClass) (h : c ≠ FSI) :
    resolveFSI (c :: cs) = c :: resolveFSI cs := by
  have : (c == FSI) = false := by simpa using h
  simp [resolveFSI, this]

theorem resolveFSI_split (a b : List BidiClass) :
    resolveFSI (a ++ b) = (resolveFSI (a ++ b)).take a.length ++ resolveFSI b := by
  conv => lhs; rw [← List.take_append_drop a.length (resolveFSI (a ++ b))]
  rw [resolveFSI_drop]

/-- X5c over `pre ++ i :: w ++ PDI :: suf` -/
theorem resolveFSI_decomp (pre suf w : List BidiClass) (i : BidiClass) (hi : i ≠ FSI) :
    ∃ rpre rmid, rpre.length = pre.length ∧ rmid.length = w.length ∧ rmid.map kind = w.map kind ∧
      rpre = (resolveFSI (pre ++ i :: w ++ PDI :: suf)).take pre.length ∧
      resolveFSI (pre ++ i :: w ++ PDI :: suf) = rpre ++ i :: rmid ++ PDI :: resolveFSI suf := by
  refine ⟨(resolveFSI (pre ++ i :: w ++ PDI :: suf)).take pre.length,
    (resolveFSI (w ++ PDI :: suf)).take w.length, ?_, ?_, ?_, rfl, ?_⟩
  · simp [resolveFSI_length]
  · simp [resolveFSI_length]
  · rw [List.map_take, resolveFSI_kind]; simp
  · have e : pre ++ i :: w ++ PDI :: suf = pre ++ (i :: (w ++ PDI :: suf)) := by simp
    rw [e]
    conv => lhs; rw [resolveFSI_split pre, resolveFSI_cons_of_ne i _ hi, resolveFSI_split w,
      resolveFSI_cons_of_ne PDI _ (by decide)]
    simp


/-- the paragraph's characters with the classes after X5c -/
def applyX5c (t : List Ch) : List Ch :=
  List.zipWith (fun c k => { c with cls := k }) t (resolveFSI (t.map (·.cls)))

theorem zipWith_setCls_cls (t : List Ch) (r : List BidiClass) (h : t.length = r.length) :
    (List.zipWith (fun (c : Ch) k => { c with cls := k }) t r).map (·.cls) = r := by
  induction t generalizing r with
  | nil => cases r with
    | nil => rfl
    | cons _ _ => simp at h
  | cons c t ih =>
    cases r with
    | nil => simp at h
    | cons k r =>
      simp only [List.length_cons, Nat.add_right_cancel_iff] at h
      simp [ih r h]

/-- `applyX5c` of `pre ++ i :: c ++ pdi :: suf` -/
theorem applyX5c_decomp (pre suf c : List Ch) (i pdi : Ch) (hi : i.cls ≠ FSI) (hpdi : pdi.cls = PDI) :
    ∃ pre' c' : List Ch, pre'.length = pre.length ∧ c'.length = c.length ∧
      (c'.map (·.cls)).map kind = (c.map (·.cls)).map kind ∧
      pre'.map (·.cls) = (resolveFSI ((pre ++ i :: c ++ pdi :: suf).map (·.cls))).take pre.length ∧
      applyX5c (pre ++ i :: c ++ pdi :: suf) = pre' ++ i :: c' ++ pdi :: applyX5c suf := by
  have ecls : (pre ++ i :: c ++ pdi :: suf).map (·.cls) =
      pre.map (·.cls) ++ i.cls :: c.map (·.cls) ++ PDI :: suf.map (·.cls) := by simp [hpdi]
  obtain ⟨rpre, rmid, l1, l2, hk, hpre, hr⟩ :=
    resolveFSI_decomp (pre.map (·.cls)) (suf.map (·.cls)) (c.map (·.cls)) i.cls hi
  simp only [List.length_map] at l1 l2 hpre
  refine ⟨List.zipWith (fun (c : Ch) k => { c with cls := k }) pre rpre,
    List.zipWith (fun (c : Ch) k => { c with cls := k }) c rmid, by simp [l1], by simp [l2], ?_, ?_, ?_⟩
  · rw [zipWith_setCls_cls _ _ l2.symm]; exact hk
  · rw [zipWith_setCls_cls _ _ l1.symm, ecls]; exact hpre
  · unfold applyX5c
    rw [ecls, hr]
    have e1 : pre ++ i :: c ++ pdi :: suf = pre ++ ([i] ++ (c ++ ([pdi] ++ suf))) := by simp
    have e2 : rpre ++ i.cls :: rmid ++ PDI :: resolveFSI (suf.map (·.cls)) =
        rpre ++ ([i.cls] ++ (rmid ++ ([PDI] ++ resolveFSI (suf.map (·.cls))))) := by simp
    rw [e1, e2, List.zipWith_append l1.symm, List.zipWith_append (by simp), List.zipWith_append l2.symm,
      List.zipWith_append (by simp)]
    simp [← hpdi]

end UBidi.Props.C13
