/-
  C16 — specification-level helper definitions (shown again, with their
  characterising equations, in `UBidi/Props/C16.lean`).
-/
import UBidi.Model.Initial
import UBidi.Spec.UAX9
namespace UBidi.Props.C16
open UBidi BidiClass

/-- the bidi classes of the characters of a text, one per character -/
def rawClasses (ds : DataSource) (t : Text) : List BidiClass :=
  t.segs.map (fun s => ds.cls s.cp)

/-- P1 on classes: split after every B.  Every paragraph includes its final B,
    there are no empty paragraphs, the concatenation is the input. -/
def paragraphsOf : List BidiClass → List (List BidiClass)
  | [] => []
  | c :: cs =>
    if c = B then [c] :: paragraphsOf cs
    else
      match paragraphsOf cs with
      | [] => [[c]]
      | p :: ps => (c :: p) :: ps

/-- P2/P3 as a direction: the first strong character outside isolates -/
def p2Dir (cs : List BidiClass) : Direction :=
  match Spec.firstStrong (cs.length + 1) cs with
  | some .L => .ltr
  | some _ => .rtl
  | none => .mixed

end UBidi.Props.C16
