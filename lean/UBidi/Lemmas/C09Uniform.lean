/-
  C09 helper lemmas, part 6: under the `Expand` hypothesis all code units of a character carry the same
  level (`pbi_levels_uniform` for `ParagraphBidiInfo`, `multi_levels_uniform` for `BidiInfo`), so that
  agreement at the first unit of every character is agreement at every unit.
-/
import UBidi.Lemmas.C09Multi
namespace UBidi.Props.C09
open UBidi UBidi.BidiClass UBidi.Lemmas.C02

theorem flatMap_expand_getElem? {α} : ∀ (segs : List Seg) (xs A : List α) (e : Nat),
    SegsFrom A.length segs e → segs.length = xs.length → ∀ s ∈ segs, ∀ j, j < s.len →
    (A ++ (segs.zip xs).flatMap (fun (s, x) => List.replicate s.len x))[s.start + j]?
      = (A ++ (segs.zip xs).flatMap (fun (s, x) => List.replicate s.len x))[s.start]? := by
  intro segs
  induction segs with
  | nil => intro xs A e _ _ s hs; simp at hs
  | cons s0 ss ih =>
    intro xs A e h hl s hs j hj
    cases xs with
    | nil => simp at hl
    | cons x xs =>
      obtain ⟨h1, h2, h3⟩ := h
      rcases List.mem_cons.1 hs with rfl | hs
      · simp only [List.zip_cons_cons, List.flatMap_cons]
        have key : ∀ (R : List α) (i : Nat), i < s.len →
            (A ++ (List.replicate s.len x ++ R))[s.start + i]? = some x := by
          intro R i hi
          rw [List.getElem?_append_right (by omega), List.getElem?_append_left (by simp; omega),
            List.getElem?_replicate, if_pos (by omega)]
        have k0 := key ((ss.zip xs).flatMap (fun (s, x) => List.replicate s.len x)) 0 h2
        rw [Nat.add_zero] at k0
        rw [key _ j hj, k0]
      · have := ih xs (A ++ List.replicate s0.len x) e (by simpa [h1] using h3) (by simpa using hl) s hs j hj
        simpa [List.append_assoc] using this

/-- an expanded vector is uniform within characters -/
theorem expand_uniformOn {α} (t : Text) (hwf : t.WF) (xs : List α) (hl : t.segs.length = xs.length) :
    Expand.UniformOn t (Expand.expand t xs) := by
  intro s hs j hj
  have := flatMap_expand_getElem? t.segs xs [] t.len (by simpa using hwf.tiles) hl s hs j hj
  simpa [Expand.expand] using this

/-- `ParagraphBidiInfo`: under the `Expand` hypothesis all units of a character carry the same level -/
theorem pbi_levels_uniform (ds : DataSource) (t : Text) (d : Option Nat) (hwf : t.WF)
    (hexp : PbiExpand ds t d) : Expand.UniformOn t (paragraphBidiInfo ds t d).levels := by
  obtain ⟨h1, h2⟩ := pbi_levels_expand ds t d hwf hexp
  rw [h1]
  exact expand_uniformOn t hwf _ h2.symm

theorem slice_getElem? {α} (xs : List α) (a b i : Nat) (h1 : a ≤ i) (h2 : i < b) :
    (slice xs a b)[i - a]? = xs[i]? := by
  simp only [slice, List.getElem?_take, List.getElem?_drop]
  rw [if_pos (by omega), show a + (i - a) = i by omega]

/-- `BidiInfo`: under the `Expand` hypothesis for the paragraphs' sub-texts all units of a character carry
    the same level -/
theorem multi_levels_uniform (ds : DataSource) (t : Text) (d : Option Nat) (hwf : t.WF)
    (hexp : ∀ p ∈ (bidiInfo ds t d).paras, PbiExpand ds (t.subrange p.start p.stop) d) :
    Expand.UniformOn t (bidiInfo ds t d).levels := by
  obtain ⟨chunks, h⟩ := paras_structure ds t d hwf
  intro s hs j hj
  rw [← h.flatten, List.mem_flatten] at hs
  obtain ⟨ch, hch, hsch⟩ := hs
  obtain ⟨c1, c2, heq⟩ := List.append_of_mem hch
  obtain ⟨_, _, t3, _⟩ := chunk_ctx hwf h c1 ch c2 heq
  have hb := segsFrom_mem _ _ _ t3 s hsch
  have hp : mkPara ds d ch ∈ (bidiInfo ds t d).paras := chunk_para_mem h ch hch
  obtain ⟨f, hw, _⟩ := chunk_good hwf h ch hch
  have hw' : (t.subrange (chunkStart ch) (chunkStop ch)).WF := hw
  have hsl : (paragraphBidiInfo ds (t.subrange (chunkStart ch) (chunkStop ch)) d).levels
      = slice (bidiInfo ds t d).levels (chunkStart ch) (chunkStop ch) := by
    have := (C10.C10_slice ds t hwf d _ hp).2.1
    simpa only [mkPara] using this
  have he : PbiExpand ds (t.subrange (chunkStart ch) (chunkStop ch)) d := by
    have := hexp _ hp
    simpa only [mkPara] using this
  have hu := pbi_levels_uniform ds _ d hw' he
  rw [hsl] at hu
  have hmem : ({ s with start := s.start - chunkStart ch } : Seg) ∈
      (t.subrange (chunkStart ch) (chunkStop ch)).segs := by
    rw [chunk_subrange hwf h c1 ch c2 heq]
    exact List.mem_map_of_mem hsch
  have := hu _ hmem j hj
  simp only at this
  rw [show s.start - chunkStart ch + j = (s.start + j) - chunkStart ch by omega,
    slice_getElem? _ _ _ _ (by omega) (by omega), slice_getElem? _ _ _ _ hb.1 (by omega)] at this
  exact this

end UBidi.Props.C09
