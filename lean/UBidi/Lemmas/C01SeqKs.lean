/-
  C01 / StageSeq — the survivors `ks` of a paragraph satisfy the hypotheses `Hyp` of the
  stack-algorithm theorem (`stack_bd13`).
-/
import UBidi.Lemmas.C01SeqDefs
import UBidi.Lemmas.C01SeqStack
import UBidi.Lemmas.C01SeqF3
namespace UBidi.Lemmas.C01Seq
open UBidi UBidi.BidiClass UBidi.Spec
open UBidi.Props.C13 (levelRuns_contig xRun_length)

theorem zip_eq_range_map {α β} (xs : List α) (ys : List β) (a : α) (b : β) (h : xs.length = ys.length) :
    xs.zip ys = (List.range xs.length).map (fun i => (xs.getD i a, ys.getD i b)) := by
  apply List.ext_getElem
  · simp [h]
  · intro i h1 h2
    simp only [List.length_zip, h, Nat.min_self] at h1
    simp [List.getD_eq_getElem?_getD, List.getElem?_eq_getElem (h ▸ h1 : i < xs.length),
      List.getElem?_eq_getElem h1]

/-- classes and explicit levels of the survivors, as a filter of the paragraph's -/
def keptPairs (pl : Nat) (cls : List BidiClass) : List (BidiClass × Nat) :=
  (pairsOf pl cls).filter (fun z => notRemoved z.1)

theorem keptPairs_eq (pl : Nat) (cls : List BidiClass) :
    keptPairs pl cls = (keptIdx cls).map (fun i => (cls.getD i ON, ((explicit pl cls).getD i (0, ON)).1)) := by
  unfold keptPairs pairsOf keptIdx
  have hl : cls.length = ((explicit pl cls).map (·.1)).length := by simp [explicit, xRun_length]
  rw [zip_eq_range_map cls _ ON 0 hl, List.filter_map]
  congr 1
  · funext i
    congr 1
    simp only [List.getD_eq_getElem?_getD, List.getElem?_map]
    cases (explicit pl cls)[i]? <;> rfl

theorem ks_pairs (pl : Nat) (chars : List Ch) :
    (ksOf pl chars).map (fun k => (k.cls, k.level)) = keptPairs pl (chars.map (·.cls)) := by
  rw [ksOf_eq, keptPairs_eq, List.map_map]
  rfl

theorem ks_cls (pl : Nat) (chars : List Ch) :
    (ksOf pl chars).map (·.cls) = (keptPairs pl (chars.map (·.cls))).map (·.1) := by
  rw [← ks_pairs, List.map_map]; rfl

theorem ks_level (pl : Nat) (chars : List Ch) :
    (ksOf pl chars).map (·.level) = (keptPairs pl (chars.map (·.cls))).map (·.2) := by
  rw [← ks_pairs, List.map_map]; rfl

theorem keptPairs_fst (pl : Nat) (cls : List BidiClass) :
    (keptPairs pl cls).map (·.1) = cls.filter notRemoved := by
  unfold keptPairs
  have : (fun z : BidiClass × Nat => notRemoved z.1) = notRemoved ∘ (·.1) := rfl
  rw [this, ← List.filter_map, pairsOf_fst]

theorem noInnerB_filter (cls : List BidiClass) (h : NoInnerB cls) : NoInnerB (cls.filter notRemoved) := by
  rcases List.eq_nil_or_concat cls with rfl | ⟨init, last, rfl⟩
  · intro c hc; simp at hc
  · unfold NoInnerB at h ⊢
    simp only [List.concat_eq_append, List.dropLast_concat] at h
    intro c hc
    rw [List.concat_eq_append, List.filter_append] at hc
    apply h c
    by_cases hl : notRemoved last = true
    · simp only [List.filter_cons, hl, if_true, List.filter_nil, List.dropLast_concat] at hc
      exact (List.mem_filter.1 hc).1
    · simp only [List.filter_cons, hl, Bool.false_eq_true, if_false, List.filter_nil, List.append_nil] at hc
      exact (List.mem_filter.1 (List.dropLast_subset _ hc)).1

/-- the survivors of a paragraph satisfy the hypotheses of `stack_bd13` -/
theorem hyp_ks (pl : Nat) (cls : List BidiClass) (hB : NoInnerB cls) :
    Hyp ((keptPairs pl cls).map (·.1)) (matchTable ((keptPairs pl cls).map (·.1)))
      (levelRuns ((keptPairs pl cls).map (·.2)) 0) (keptPairs pl cls).length := by
  refine ⟨?_, match_h1 _, match_inj _, ?_, ?_⟩
  · have := levelRuns_contig ((keptPairs pl cls).map (·.2)) 0
    simpa using this
  · apply match_h3
    rw [keptPairs_fst]; exact noInnerB_filter cls hB
  · apply f3_of_pairOK
    apply pairOK_filter _ _ _ (pairOK_explicit pl cls)
    intro z _ hz
    revert hz
    cases z.1 <;> simp [notRemoved, removedByX9, inert, isIsoInit]

end UBidi.Lemmas.C01Seq
