/-
  C01 / composition, part 2: what the composition needs from the explicit stage on a single-unit text,
  beyond `explicit_unit`:
  * `exChar_pc`, `explicit_pcs_shape` — a removed character is retained as BN, a kept character carries
    its own class or the override's L / R;
  * `explicit_run_uniform` — inside a level run every kept character has the level stored at the run's
    first unit (which may belong to a removed character: `resolve_neutral` reads the embedding
    direction there);
  * `unit_segs`, `charAt_unit`, `charLen_unit`, `brkAt_unit` — the characters of a single-unit text.
-/
import UBidi.Lemmas.C01SeqRuns
import UBidi.Lemmas.C01ComposeDefs
namespace UBidi.Lemmas.C01Compose
open UBidi UBidi.BidiClass UBidi.Lemmas.C01Seq UBidi.Lemmas.C01Seq.Runs UBidi.Lemmas.C01Neutral
open UBidi.Props.C13 (Contig contig_bounds)

/-! ### the processing class `exChar` emits -/

theorem applyOverride_cases (st : OStatus) (c : BidiClass) :
    applyOverride st c = c ∨ applyOverride st c = L ∨ applyOverride st c = R := by
  cases st <;> simp [applyOverride]

theorem exChar_pc (pl : Nat) (last : Status) (rest : List Status) (oi oe vi : Nat) (oc : BidiClass) :
    (oc.removedByX9 = true → (exChar pl (last :: rest) oi oe vi oc).pc = BN) ∧
    (oc.removedByX9 = false →
      (exChar pl (last :: rest) oi oe vi oc).pc = oc ∨ (exChar pl (last :: rest) oi oe vi oc).pc = L ∨
        (exChar pl (last :: rest) oi oe vi oc).pc = R) := by
  have ho := applyOverride_cases last.status oc
  cases oc <;> simp only [exChar, removedByX9, isIsolateInitiator, isRtlInitiator] <;>
    (repeat' split) <;> simp_all [applyOverride_cases]
  all_goals (first | exact applyOverride_cases _ _ | skip)

/-- a type that is the character's own class, L or R is not a removed type when the class is kept -/
theorem pc_not_removed {oc pc : BidiClass} (h : oc.removedByX9 = false) (hp : pc = oc ∨ pc = L ∨ pc = R) :
    pc.removedByX9 = false := by
  rcases hp with rfl | rfl | rfl
  · exact h
  · rfl
  · rfl

/-! ### the run detection: all kept characters of a run have the level stored at its first unit -/

structure UInv (cls : List BidiClass) (lv : Nat → Nat) (i : Nat) (s : RS) : Prop where
  cur0 : i = 0 → s = ([], 0, 0)
  cur : i ≠ 0 → s.2.2 = lv s.2.1
  opn : ∀ j, s.2.1 ≤ j → j < i → keptAt cls j = true → lv j = s.2.2
  closed : ∀ r ∈ s.1, ∀ j, r.1 ≤ j → j < r.2 → keptAt cls j = true → lv j = lv r.1

theorem UInv_step {cls : List BidiClass} {lv : Nat → Nat} {i : Nat} {s : RS} (h : UInv cls lv i s) :
    UInv cls lv (i + 1) (rstep cls lv s i) := by
  obtain ⟨R, cs, cl⟩ := s
  unfold rstep
  by_cases h0 : i = 0
  · have hs := h.cur0 h0
    simp only [Prod.mk.injEq] at hs
    obtain ⟨rfl, rfl, rfl⟩ := hs
    subst h0
    simp only [if_true]
    refine ⟨by omega, fun _ => rfl, ?_, by simp⟩
    intro j _ hj _
    have : j = 0 := by omega
    subst this; rfl
  · rw [if_neg h0]
    have hc := h.cur h0
    simp only at hc
    by_cases hk : keptAt cls i = true ∧ lv i ≠ cl
    · rw [if_pos hk]
      refine ⟨by omega, fun _ => rfl, ?_, ?_⟩
      · intro j h1 h2 _
        simp only at h1
        have : j = i := by omega
        subst this; rfl
      · intro r hr j h1 h2 h3
        simp only [List.mem_append, List.mem_singleton] at hr
        rcases hr with hr | rfl
        · exact h.closed r hr j h1 h2 h3
        · simp only at h1 h2 ⊢
          rw [h.opn j h1 h2 h3]; exact hc
    · rw [if_neg hk]
      refine ⟨by omega, fun _ => hc, ?_, h.closed⟩
      intro j h1 h2 h3
      simp only at h1 ⊢
      by_cases hj : j = i
      · subst hj
        by_cases e : lv j = cl
        · exact e
        · exact absurd ⟨h3, e⟩ hk
      · exact h.opn j h1 (by omega) h3

theorem UInv_fold (cls : List BidiClass) (lv : Nat → Nat) (i : Nat) :
    UInv cls lv i ((List.range i).foldl (rstep cls lv) ([], 0, 0)) := by
  induction i with
  | zero => exact ⟨fun _ => rfl, fun h => absurd rfl h, by intro j _ h; omega, by simp⟩
  | succ i ih =>
    rw [List.range_succ, List.foldl_append]
    exact UInv_step ih

/-- the explicit stage on a single-unit text: processing classes and the levels inside a run -/
theorem explicit_unit_more (t : Text) (n : Nat) (hu : UnitText t n) (pl : Nat) (hpl : pl ≤ 1)
    (cls : List BidiClass) (hlen : cls.length = n) :
    let e := explicitCompute t pl cls
    e.pcs.length = n ∧
    (∀ i, i < n → keptAt cls i = false → e.pcs.getD i ON = BN) ∧
    (∀ i, i < n → keptAt cls i = true →
      e.pcs.getD i ON = cls.getD i ON ∨ e.pcs.getD i ON = L ∨ e.pcs.getD i ON = R) ∧
    (∀ r ∈ e.runs, ∀ j, r.1 ≤ j → j < r.2 → keptAt cls j = true →
      e.levels.getD j 0 = e.levels.getD r.1 0) := by
  have h0 : FInv pl cls 0
      { stack := [{ level := pl, status := .neutral }],
        err := if t.len = cls.length then none else some .explicitLenMismatch } :=
    ⟨rfl, rfl, rfl, by simp [hu.len, hlen], rfl⟩
  have hf := FInv_fold hpl cls t.segs 0 n _ (hu.len ▸ hu.wf.tiles) hu.unit (by omega) h0
  have hU := UInv_fold cls (lvAt pl cls) n
  rw [← hf.rs] at hU
  obtain ⟨_, _, _, hcontig, _, _⟩ := explicit_unit t n hu pl hpl cls hlen
  generalize hst : List.foldl (exStep pl cls) _ t.segs = st at hf hU
  intro e
  have elev : e.levels = (List.range n).map (lvAt pl cls) := by rw [← hf.levels, ← hst]; rfl
  have epcs : e.pcs = (List.range n).map (pcAt pl cls) := by rw [← hf.pcs, ← hst]; rfl
  have hlen' : st.levels.length = n := by rw [hf.levels]; simp
  have erun : e.runs = if n > st.curStart then st.runs ++ [(st.curStart, n)] else st.runs := by
    rw [← hlen', ← hst]; rfl
  have hlv : ∀ i, i < n → e.levels.getD i 0 = lvAt pl cls i := by
    intro i hi; rw [elev]; simp [List.getD, hi]
  have hpc : ∀ i, i < n → e.pcs.getD i ON = pcAt pl cls i := by
    intro i hi; rw [epcs]; simp [List.getD, hi]
  have hshape : ∀ i, ((cls.getD i ON).removedByX9 = true → pcAt pl cls i = BN) ∧
      ((cls.getD i ON).removedByX9 = false →
        pcAt pl cls i = cls.getD i ON ∨ pcAt pl cls i = L ∨ pcAt pl cls i = R) := by
    intro i
    have hne := (mach_inv pl hpl cls i).ok.ne_nil
    unfold pcAt outAt
    cases hm : (mach pl cls i).1 with
    | nil => exact absurd hm hne
    | cons last rest => exact exChar_pc pl last rest _ _ _ _
  refine ⟨by rw [epcs]; simp, ?_, ?_, ?_⟩
  · intro i hi hk
    rw [hpc i hi]
    apply (hshape i).1
    simpa [keptAt, notRemoved] using hk
  · intro i hi hk
    rw [hpc i hi]
    apply (hshape i).2
    simpa [keptAt, notRemoved] using hk
  · intro r hr j h1 h2 h3
    have hb := (contig_bounds hcontig).2 r hr
    rw [hlv j (by omega), hlv r.1 (by omega)]
    rw [erun] at hr
    by_cases hn : n > st.curStart
    · rw [if_pos hn] at hr
      rcases List.mem_append.1 hr with hr | hr
      · exact hU.closed r hr j h1 h2 h3
      · simp only [List.mem_singleton] at hr
        subst hr
        simp only at h1 h2 ⊢
        rw [hU.opn j h1 h2 h3]
        exact hU.cur (by omega)
    · rw [if_neg hn] at hr
      exact hU.closed r hr j h1 h2 h3

/-! ### the characters of a single-unit text -/

theorem unit_segs_aux : ∀ (segs : List Seg) (p e : Nat), SegsFrom p segs e → (∀ s ∈ segs, s.len = 1) →
    p + segs.length = e ∧ ∀ k (h : k < segs.length), segs[k].start = p + k
  | [], p, e, h, _ => by simp only [SegsFrom] at h; subst h; simp
  | s :: ss, p, e, h, hu => by
    simp only [SegsFrom] at h
    have h1 : s.len = 1 := hu s (by simp)
    rw [h1] at h
    obtain ⟨ih1, ih2⟩ := unit_segs_aux ss (p + 1) e h.2.2 (fun x hx => hu x (by simp [hx]))
    refine ⟨by simp only [List.length_cons]; omega, ?_⟩
    intro k hk
    cases k with
    | zero => simpa using h.1
    | succ k =>
      simp only [List.getElem_cons_succ]
      rw [ih2 k (by simpa using hk)]; omega

/-- a single-unit text of `n` units has `n` characters, the `k`-th at unit `k` -/
theorem unit_segs {t : Text} {n : Nat} (hu : UnitText t n) :
    t.segs.length = n ∧ ∀ k (h : k < t.segs.length), t.segs[k].start = k := by
  have := unit_segs_aux t.segs 0 t.len hu.wf.tiles hu.unit
  rw [hu.len] at this
  exact ⟨by omega, fun k h => by rw [this.2 k h]; omega⟩

theorem charAt_unit {t : Text} {n : Nat} (hu : UnitText t n) (i : Nat) (hi : i < n) :
    ∃ s, t.charAt i = some s ∧ t.segs[i]? = some s ∧ s.len = 1 ∧ s.start = i := by
  obtain ⟨h1, h2⟩ := unit_segs hu
  have hi' : i < t.segs.length := by omega
  refine ⟨t.segs[i], ?_, List.getElem?_eq_getElem hi', hu.unit _ (List.getElem_mem hi'), h2 i hi'⟩
  have := find_start_of_mem t.segs (segs_starts_lt t.segs 0 t.len hu.wf.tiles).2 t.segs[i] (List.getElem_mem hi')
  rw [h2 i hi'] at this
  exact this

theorem charLen_unit {t : Text} {n : Nat} (hu : UnitText t n) (i : Nat) (hi : i < n) :
    (t.charAt i).map (·.len) = some 1 := by
  obtain ⟨s, h1, _, h3, _⟩ := charAt_unit hu i hi
  rw [h1, Option.map_some, h3]

/-- the bracket property per unit, from the list of bracket properties per character -/
theorem brkAt_unit (ds : DataSource) {t : Text} {n : Nat} (hu : UnitText t n) (chars : List Spec.Ch)
    (hbrk : chars.map (·.brk) = t.segs.map (fun s => ds.brk s.cp)) (i : Nat) (hi : i < n) :
    (chars.getD i default).brk = brkAt ds t i := by
  obtain ⟨s, h1, h2, _, _⟩ := charAt_unit hu i hi
  have hl : chars.length = t.segs.length := by
    have := congrArg List.length hbrk; simpa using this
  have hn := (unit_segs hu).1
  have := congrArg (fun l => l[i]?) hbrk
  simp only [List.getElem?_map, h2, Option.map_some] at this
  unfold brkAt
  rw [h1, Option.bind_some, List.getD_eq_getElem?_getD]
  cases hc : chars[i]? with
  | none => rw [hc] at this; cases this
  | some c =>
    rw [hc] at this
    simp only [Option.map_some, Option.some.injEq] at this
    simpa using this

end UBidi.Lemmas.C01Compose
