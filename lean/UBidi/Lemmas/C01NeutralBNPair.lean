/-
  C01 StageN with retained BN units, part: rule N0 for ONE bracket pair.
  `n0Pair_bn_units`: under the invariant `InvBN`, the crate's `n0Pair` does not panic, touches only
  the sequence's units, re-establishes the invariant for the remaining pairs, and — read at the
  kept units — is the Spec's `n0One` on the kept characters.
-/
import UBidi.Lemmas.C01NeutralBNProj
namespace UBidi.Lemmas.C01Neutral
open UBidi UBidi.BidiClass

/-- the decision of N0 for one pair, from the types before the opening bracket (`tA`) and the
    types enclosed (`tM`) -/
def n0Decide (sos e : BidiClass) (tA tM : List BidiClass) : Option BidiClass :=
  if (tM.filterMap Spec.strongOfN0).contains e then some e
  else if (tM.filterMap Spec.strongOfN0).contains (if e == L then R else L) then
    some (if ((tA.reverse.filterMap Spec.strongOfN0).head?.getD sos) == (if e == L then R else L)
          then (if e == L then R else L) else e)
  else none

theorem n0Decide_LR (sos e : BidiClass) (he : e = L ∨ e = R) (tA tM : List BidiClass) (v : BidiClass)
    (h : n0Decide sos e tA tM = some v) : v = L ∨ v = R := by
  unfold n0Decide at h
  cases hc1 : (tM.filterMap Spec.strongOfN0).contains e
  · cases hc2 : (tM.filterMap Spec.strongOfN0).contains (if e == L then R else L)
    · simp only [hc1, hc2, Bool.false_eq_true, if_false] at h
      cases h
    · simp only [hc1, hc2, Bool.false_eq_true, if_false, if_true, Option.some.injEq] at h
      subst h
      generalize (tA.reverse.filterMap Spec.strongOfN0).head?.getD sos = bf
      rcases he with rfl | rfl
      · show (if (bf == R) = true then R else L) = L ∨ (if (bf == R) = true then R else L) = R
        cases (bf == R) <;> simp
      · show (if (bf == L) = true then L else R) = L ∨ (if (bf == L) = true then L else R) = R
        cases (bf == L) <;> simp
  · simp only [hc1, if_true, Option.some.injEq] at h
    subst h; exact he

/-- the Spec's `n0One` on a list split at the two brackets -/
theorem spec_n0One_split (sos e : BidiClass) (tA tM tZ : List BidiClass) (nA nM nZ : List Bool)
    (x y : BidiClass) (no nc : Bool) (hA : tA.length = nA.length) (hM : tM.length = nM.length)
    (hZ : tZ.length = nZ.length) (a b : Nat) (ha : a = tA.length) (hb : b = tA.length + 1 + tM.length) :
    Spec.n0One sos e (nA ++ no :: (nM ++ nc :: nZ)) (tA ++ x :: (tM ++ y :: tZ)) (a, b) =
      match n0Decide sos e tA tM with
      | none => tA ++ x :: (tM ++ y :: tZ)
      | some v => tA ++ v :: (sweepL v nM tM ++ v :: sweepL v nZ tZ) := by
  subst ha hb
  have hinside : List.drop (tA.length + 1) (List.take (tA.length + 1 + tM.length) (tA ++ x :: (tM ++ y :: tZ))) = tM := by
    have e1 : tA ++ x :: (tM ++ y :: tZ) = (tA ++ x :: tM) ++ (y :: tZ) := by simp
    rw [e1, List.take_left' (by simp; omega)]
    have e2 : tA ++ x :: tM = (tA ++ [x]) ++ tM := by simp
    rw [e2, List.drop_left' (by simp)]
  have hbefore : (List.take tA.length (tA ++ x :: (tM ++ y :: tZ))).reverse = tA.reverse := by
    rw [List.take_left' rfl]
  unfold Spec.n0One n0Decide
  simp only [hinside, hbefore]
  cases hc1 : (tM.filterMap Spec.strongOfN0).contains e
  · cases hc2 : (tM.filterMap Spec.strongOfN0).contains (if (e == L) = true then R else L)
    · simp only [Bool.false_eq_true, if_false]
    · simp only [Bool.false_eq_true, if_false, if_true]
      exact spec_writes _ tA tM tZ nA nM nZ x y no nc hA hM hZ
  · simp only [if_true]
    exact spec_writes e tA tM tZ nA nM nZ x y no nc hA hM hZ

/-- the crate's `n0Pair`, unfolded along the walks `A.reverse`, `M ++ c :: Z`, `Z` -/
theorem n0Pair_unfold (t : Text) (seq : IRSeq) (e : BidiClass) (he : e = L ∨ e = R)
    (hs : seq.sos = L ∨ seq.sos = R) (ocs pcs : Classes) (pair : BracketPair) (A M Z : List Nat)
    (sseg eseg : Seg) (hcs : t.charAt pair.start = some sseg) (hls : t.enc.charLen sseg.cp = 1)
    (hce : t.charAt pair.stop = some eseg) (hle : t.enc.charLen eseg.cp = 1)
    (hfw1 : seq.iterForwardsFrom (pair.start + 1) pair.startRun = M ++ pair.stop :: Z)
    (hfw2 : seq.iterForwardsFrom (pair.stop + 1) pair.endRun = Z)
    (hbw : seq.iterBackwardsFrom pair.start pair.startRun = A.reverse)
    (hM : ∀ i ∈ M, i < pair.stop) :
    n0Pair t seq e ocs (pcs, none) pair =
      match n0Decide seq.sos e (A.map (cget pcs)) (M.map (cget pcs)) with
      | none => (pcs, none)
      | some v =>
        (setWhileNsmOrBN ocs (setWhileNsmOrBN ocs
          (setWhileBN (setRange (setRange pcs pair.start 1 v) pair.stop 1 v) A.reverse v)
          (M ++ pair.stop :: Z) v) Z v, none) := by
  obtain ⟨o, c, sr, er⟩ := pair
  simp only at hcs hce hfw1 hfw2 hbw hM ⊢
  have hscan := scanEnclosed_spec pcs e he c c Z (Nat.le_refl _) M false hM
  have hprev := prevStrong_spec seq.sos hs (A.reverse.map (cget pcs))
  have hLR := strongHead_LR seq.sos hs (A.reverse.map (cget pcs))
  unfold n0Pair n0Decide
  simp only [hcs, hce, hls, hle, hfw1, hfw2, hbw, List.map_reverse] at hprev hLR ⊢
  simp only [notEOf] at hscan
  rw [hprev]
  generalize scanEnclosed pcs e (if (e == L) = true then R else L) c (M ++ c :: Z) false = Fs at hscan ⊢
  generalize List.filterMap Spec.strongOfN0 (M.map (cget pcs)) = S at hscan ⊢
  generalize (List.filterMap Spec.strongOfN0 (A.map (cget pcs)).reverse).head?.getD seq.sos = Bf at hLR ⊢
  cases hA : S.contains e
  · have h2 := hscan.2 (by rw [hscan.1, hA])
    rw [hscan.1, hA, h2]
    simp only [Bool.false_or, Bool.false_eq_true, if_false]
    cases hB : S.contains (if (e == L) = true then R else L)
    · simp only [Bool.false_eq_true, if_false]
    · have hv : (if (Bf == if (e == L) = true then R else L) = true then (if (e == L) = true then R else L) else e) = Bf := by
        rcases he with rfl | rfl <;> rcases hLR with rfl | rfl <;> rfl
      simp only [if_true, hv]
  · rw [hscan.1, hA]
    simp only [if_true]


theorem strongOfN0_BN : (Spec.strongOfN0 BN).isSome = false := by decide
theorem strongOfN0_ON : (Spec.strongOfN0 ON).isSome = false := by decide

/-- **N0 for one pair with removed units in the sequence** (single-unit characters).  The
    sequence's index list is `A ++ o :: M ++ c :: Z` with `o`, `c` the pair. -/
theorem n0Pair_bn_units (t : Text) (hwf : t.WF) (h1 : ∀ s ∈ t.segs, s.len = 1) (seq : IRSeq)
    (e : BidiClass) (he : e = L ∨ e = R) (hs : seq.sos = L ∨ seq.sos = R)
    (ocs pcs : Classes) (pair : BracketPair) (A M Z : List Nat)
    (hU : seq.indices = A ++ pair.start :: (M ++ pair.stop :: Z))
    (hfw1 : seq.iterForwardsFrom (pair.start + 1) pair.startRun = M ++ pair.stop :: Z)
    (hfw2 : seq.iterForwardsFrom (pair.stop + 1) pair.endRun = Z)
    (hbw : seq.iterBackwardsFrom pair.start pair.startRun = A.reverse)
    (hsorted : seq.indices.Pairwise (· < ·)) (hlt : ∀ i ∈ seq.indices, i < pcs.length)
    (hstart : pair.start < t.len) (hstop : pair.stop < t.len)
    (F F' : Nat → Prop) (hinv : InvBN seq.indices ocs pcs F) (hFo : F pair.start) (hFc : F pair.stop)
    (hF' : ∀ b, F' b → F b ∧ b ≠ pair.start ∧ b ≠ pair.stop) (hord : ∀ b, F' b → pair.start < b) :
    ∃ pcs', n0Pair t seq e ocs (pcs, none) pair = (pcs', none) ∧ pcs'.length = pcs.length ∧
      (∀ j, j ∉ seq.indices → cget pcs' j = cget pcs j) ∧ InvBN seq.indices ocs pcs' F' ∧
      (seq.indices.filter (keepU ocs)).map (cget pcs') =
        Spec.n0One seq.sos e ((seq.indices.filter (keepU ocs)).map (fun u => cget ocs u == NSM))
          ((seq.indices.filter (keepU ocs)).map (cget pcs))
          ((A.filter (keepU ocs)).length,
           (A.filter (keepU ocs)).length + 1 + (M.filter (keepU ocs)).length) := by
  obtain ⟨o, c, sr, er⟩ := pair
  simp only at hU hfw1 hfw2 hbw hstart hstop hFo hFc hF' hord
  obtain ⟨sseg, hcs, hls⟩ := charAt_unit t hwf h1 o hstart
  obtain ⟨eseg, hce, hle⟩ := charAt_unit t hwf h1 c hstop
  obtain ⟨mA, mM, mZ, hoc, sA, sM, sZ⟩ := split_mem seq.indices A M Z o c hU hsorted
  obtain ⟨hoU, hko⟩ := hinv.fresh o hFo
  obtain ⟨hcU, hkc⟩ := hinv.fresh c hFc
  have hM : ∀ i ∈ M, i < c := fun i hi => ((mM i).1 hi).2.2
  rw [n0Pair_unfold t seq e he hs ocs pcs ⟨o, c, sr, er⟩ A M Z sseg eseg hcs hls hce hle hfw1 hfw2 hbw hM]
  simp only
  -- removed units with a strong type have a witness, which is never one of the two brackets
  have hstrong : ∀ p ∈ seq.indices, keepU ocs p = false → (Spec.strongOfN0 (cget pcs p)).isSome = true →
      ∃ q ∈ seq.indices, p < q ∧ keepU ocs q = true ∧ cget pcs q = cget pcs p ∧
        (∀ i ∈ seq.indices, p < i → i < q → keepU ocs i = false) ∧ q ≠ o ∧ q ≠ c := by
    intro p hp hk hsome
    rcases hinv.wit p hp hk with h | h | ⟨q, hqU, hpq, hkq, hty, hb, hnF⟩
    · rw [h, strongOfN0_BN] at hsome; cases hsome
    · rw [h, strongOfN0_ON] at hsome; cases hsome
    · exact ⟨q, hqU, hpq, hkq, hty, hb, fun h => hnF (h ▸ hFo), fun h => hnF (h ▸ hFc)⟩
  -- the enclosed scan
  have hcont : ∀ d, ((M.map (cget pcs)).filterMap Spec.strongOfN0).contains d =
      (((M.filter (keepU ocs)).map (cget pcs)).filterMap Spec.strongOfN0).contains d := by
    intro d
    apply contains_filter_keep
    intro p hpM hk hd
    have hpU := (mM p).1 hpM
    have hsome : (Spec.strongOfN0 (cget pcs p)).isSome = true := by rw [hd]; rfl
    obtain ⟨q, hqU, hpq, hkq, hty, hb, hqo, hqc⟩ := hstrong p hpU.1 hk hsome
    refine ⟨q, (mM q).2 ⟨hqU, by omega, ?_⟩, hkq, hty⟩
    rcases Nat.lt_trichotomy q c with h | h | h
    · exact h
    · exact absurd h hqc
    · have := hb c hcU (by omega) h; rw [hkc] at this; cases this
  -- the previous-strong search
  have hprevK : ((A.map (cget pcs)).reverse.filterMap Spec.strongOfN0).head? =
      (((A.filter (keepU ocs)).map (cget pcs)).reverse.filterMap Spec.strongOfN0).head? := by
    rw [← List.map_reverse, ← List.map_reverse, ← List.filter_reverse]
    apply prev_filter_keep (keepU ocs) (cget pcs) A.reverse (by rw [List.pairwise_reverse]; exact sA)
    intro p hpA hk hsome
    have hpU := (mA p).1 (List.mem_reverse.1 hpA)
    obtain ⟨q, hqU, hpq, hkq, hty, hb, hqo, hqc⟩ := hstrong p hpU.1 hk hsome
    left
    refine ⟨q, List.mem_reverse.2 ((mA q).2 ⟨hqU, ?_⟩), hpq, hkq, by rw [hty]; exact hsome⟩
    rcases Nat.lt_trichotomy q o with h | h | h
    · exact h
    · exact absurd h hqo
    · have := hb o hoU (by omega) h; rw [hko] at this; cases this
  have hdec : n0Decide seq.sos e (A.map (cget pcs)) (M.map (cget pcs)) =
      n0Decide seq.sos e ((A.filter (keepU ocs)).map (cget pcs)) ((M.filter (keepU ocs)).map (cget pcs)) := by
    unfold n0Decide
    rw [hcont, hcont, hprevK]
  rw [hdec]
  -- the Spec side
  have hK : seq.indices.filter (keepU ocs) =
      A.filter (keepU ocs) ++ o :: (M.filter (keepU ocs) ++ c :: Z.filter (keepU ocs)) := by
    rw [hU]
    simp [List.filter_append, hko, hkc]
  rw [hK]
  simp only [List.map_append, List.map_cons]
  rw [spec_n0One_split seq.sos e _ _ _ _ _ _ _ _ _ _ (by simp) (by simp) (by simp) _ _ (by simp) (by simp)]
  cases hd : n0Decide seq.sos e ((A.filter (keepU ocs)).map (cget pcs)) ((M.filter (keepU ocs)).map (cget pcs)) with
  | none =>
    exact ⟨pcs, rfl, rfl, fun _ _ => rfl, hinv.mono (fun b hb => (hF' b hb).1), rfl⟩
  | some v =>
    have hvLR := n0Decide_LR _ _ he _ _ v hd
    have hvBN : v ≠ BN := by rcases hvLR with rfl | rfl <;> decide
    obtain ⟨out, hmodel, hlen, hpt, hMout, hZout⟩ :=
      n0_writes_bn ocs pcs seq.indices A M Z o c v hU hsorted hlt
    have hinv' := inv_step hinv hFo hFc hF' hord hvBN hpt
    refine ⟨out, by simp only [hmodel], hlen, ?_, hinv', ?_⟩
    · intro j hj
      exact (hpt j).2 (fun hw => hj hw.1)
    · have eA : (A.filter (keepU ocs)).map (cget out) = (A.filter (keepU ocs)).map (cget pcs) := by
        apply List.map_congr_left
        intro j hj
        obtain ⟨hjA, hkj⟩ := List.mem_filter.1 hj
        have hjo := ((mA j).1 hjA).2
        apply (hpt j).2
        intro hw
        rcases WrV_kept hinv hw hkj with h | h | ⟨_, ⟨h, _⟩ | ⟨h, _⟩⟩ <;> omega
      have eo : cget out o = v := (hpt o).1 ⟨hoU, Or.inl rfl⟩
      have ec : cget out c = v := (hpt c).1 ⟨hcU, Or.inr (Or.inl rfl)⟩
      have eM : (M.filter (keepU ocs)).map (cget out) =
          sweepL v ((M.filter (keepU ocs)).map (fun u => cget ocs u == NSM)) ((M.filter (keepU ocs)).map (cget pcs)) := by
        rw [← sweep_proj ocs pcs v M sM]
        apply List.map_congr_left
        intro j hj
        exact hMout j (List.mem_filter.1 hj).1
      have eZ : (Z.filter (keepU ocs)).map (cget out) =
          sweepL v ((Z.filter (keepU ocs)).map (fun u => cget ocs u == NSM)) ((Z.filter (keepU ocs)).map (cget pcs)) := by
        rw [← sweep_proj ocs pcs v Z sZ]
        apply List.map_congr_left
        intro j hj
        exact hZout j (List.mem_filter.1 hj).1
      simp only
      rw [eA, eo, ec, eM, eZ]

end UBidi.Lemmas.C01Neutral
