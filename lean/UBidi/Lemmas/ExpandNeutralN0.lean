/-
  UBidi.Lemmas.ExpandNeutralN0 — Expand lemma for rule N0 (`n0Pair`) and for the whole neutral
  stage (`resolveNeutral`).
-/
import UBidi.Lemmas.ExpandNeutralBrackets
namespace UBidi.Expand.Neutral
open UBidi UBidi.BidiClass

/-- the class N0 gives to a pair (`none`: the pair is left alone) -/
def n0Class (seq : IRSeq) (e : BidiClass) (pcs : Classes) (start startLen stop startRun : Nat) : Option BidiClass :=
  let notE := if e == L then R else L
  let r := scanEnclosed pcs e notE stop (seq.iterForwardsFrom (start + startLen) startRun) false
  if r.1 then some e
  else if r.2 then
    let prev := (((seq.iterBackwardsFrom start startRun).map (cget pcs)).find?
                  (fun c => c == L || c == R || c == EN || c == AN)).getD seq.sos
    some (if prev == EN || prev == AN then R else prev)
  else none

/-- the writes of N0 for a pair that receives class `v` -/
def n0Write (seq : IRSeq) (ocs pcs : Classes) (start startLen stop endLen startRun endRun : Nat) (v : BidiClass) : Classes :=
  let pcs := setRange pcs start startLen v
  let pcs := setRange pcs stop endLen v
  let pcs := setWhileBN pcs (seq.iterBackwardsFrom start startRun) v
  let pcs := setWhileNsmOrBN ocs pcs (seq.iterForwardsFrom (start + startLen) startRun) v
  setWhileNsmOrBN ocs pcs (seq.iterForwardsFrom (stop + endLen) endRun) v

theorem n0Pair_eq (t : Text) (seq : IRSeq) (e : BidiClass) (ocs pcs : Classes) (err : Option Panic)
    (pair : BracketPair) (sseg eseg : Seg) (h1 : t.charAt pair.start = some sseg)
    (h2 : t.charAt pair.stop = some eseg) :
    n0Pair t seq e ocs (pcs, err) pair =
      (match n0Class seq e pcs pair.start (t.enc.charLen sseg.cp) pair.stop pair.startRun with
       | none => pcs
       | some v => n0Write seq ocs pcs pair.start (t.enc.charLen sseg.cp) pair.stop (t.enc.charLen eseg.cp)
                     pair.startRun pair.endRun v, err) := by
  unfold n0Pair n0Class n0Write
  simp only [h1, h2]
  generalize scanEnclosed pcs e (if (e == L) = true then R else L) pair.stop
    (seq.iterForwardsFrom (pair.start + t.enc.charLen sseg.cp) pair.startRun) false = r
  obtain ⟨a, b⟩ := r
  cases a <;> cases b <;> simp

theorem n0Class_expand (t : Text) (hwf : t.WF) (seq : IRSeq) (hs : SeqOKN t.segs.length seq) (e : BidiClass)
    (pcs1 : Classes) (hl : pcs1.length = t.segs.length) (k stop sr : Nat) (hk : k < t.segs.length)
    (hstop : stop ≤ t.segs.length) :
    n0Class (mapSeq t seq) e (expand t pcs1) (pos t k) (clen t k) (pos t stop) sr =
      n0Class seq e pcs1 k 1 stop sr := by
  unfold n0Class
  dsimp only
  rw [← pos_succ t hwf hk, iterForwards_mapSeq t hwf seq hs (k + 1) sr (by omega),
    iterBackwards_mapSeq t hwf seq hs k sr (by omega)]
  unfold units unitsR
  rw [scanEnclosed_walk t hwf (fwd t) e _ stop hstop pcs1 hl _ false
      (walkOK_fwd t _ (iterForwards_lt hs (k + 1) sr)),
    find_walk t hwf (bwd t) _ pcs1 hl _ (walkOK_bwd t _ (iterBackwards_lt hs k sr (by omega)))]
  rfl

theorem setRange_one {α} (xs : List α) (i : Nat) (v : α) : setRange xs i 1 v = xs.set i v := by
  simp [setRange]

theorem n0Write_expand (t : Text) (hwf : t.WF) (seq : IRSeq) (hs : SeqOKN t.segs.length seq)
    (ocs1 pcs1 : Classes) (hlo : ocs1.length = t.segs.length) (hl : pcs1.length = t.segs.length)
    (k s sr er : Nat) (hk : k < t.segs.length) (hsl : s < t.segs.length) (v : BidiClass) :
    n0Write (mapSeq t seq) (expand t ocs1) (expand t pcs1) (pos t k) (clen t k) (pos t s) (clen t s) sr er v =
      expand t (n0Write seq ocs1 pcs1 k 1 s 1 sr er v) := by
  unfold n0Write
  dsimp only
  simp only [setRange_one]
  rw [← pos_succ t hwf hk, ← pos_succ t hwf hsl,
    iterForwards_mapSeq t hwf seq hs (k + 1) sr (by omega),
    iterForwards_mapSeq t hwf seq hs (s + 1) er (by omega),
    iterBackwards_mapSeq t hwf seq hs k sr (by omega)]
  unfold units unitsR
  have l1 : (pcs1.set k v).length = t.segs.length := by simpa using hl
  have l2 : ((pcs1.set k v).set s v).length = t.segs.length := by simpa using hl
  rw [setRange_expand t hwf pcs1 hl k hk v, setRange_expand t hwf _ l1 s hsl v,
    setWhileBN_walk t hwf (bwd t) v _ _ l2 (walkOK_bwd t _ (iterBackwards_lt hs k sr (by omega))),
    setWhileNsmOrBN_walk t hwf (fwd t) ocs1 hlo v _ _ (by rw [length_setWhileBN]; exact l2)
      (walkOK_fwd t _ (iterForwards_lt hs (k + 1) sr)),
    setWhileNsmOrBN_walk t hwf (fwd t) ocs1 hlo v _ _
      (by rw [length_setWhileNsmOrBN, length_setWhileBN]; exact l2)
      (walkOK_fwd t _ (iterForwards_lt hs (s + 1) er))]

theorem length_n0Write (seq : IRSeq) (ocs pcs : Classes) (a b c d sr er : Nat) (v : BidiClass) :
    (n0Write seq ocs pcs a b c d sr er v).length = pcs.length := by
  unfold n0Write
  simp only [length_setWhileNsmOrBN, length_setWhileBN, length_setRange]

/-- the per-character form of `n0Pair` on `unitize t` -/
theorem n0Pair_unitize (t : Text) (seq : IRSeq) (e : BidiClass) (ocs1 pcs1 : Classes) (err : Option Panic)
    (p : BracketPair) (hp : p.start < t.segs.length ∧ p.stop < t.segs.length) :
    n0Pair (unitize t) seq e ocs1 (pcs1, err) p =
      (match n0Class seq e pcs1 p.start 1 p.stop p.startRun with
       | none => pcs1
       | some v => n0Write seq ocs1 pcs1 p.start 1 p.stop 1 p.startRun p.endRun v, err) :=
  n0Pair_eq (unitize t) seq e ocs1 pcs1 err p _ _ (charAt_unitize t hp.1) (charAt_unitize t hp.2)

theorem length_n0Pair_unitize (t : Text) (seq : IRSeq) (e : BidiClass) (ocs1 pcs1 : Classes) (err : Option Panic)
    (p : BracketPair) (hp : p.start < t.segs.length ∧ p.stop < t.segs.length) :
    (n0Pair (unitize t) seq e ocs1 (pcs1, err) p).1.length = pcs1.length := by
  rw [n0Pair_unitize t seq e ocs1 pcs1 err p hp]
  simp only
  split
  · rfl
  · exact length_n0Write _ _ _ _ _ _ _ _ _ _

end UBidi.Expand.Neutral
namespace UBidi.Expand
open Neutral

/-- **N0 for one pair does not depend on the number of units of a character.** -/
theorem n0Pair_expand (t : Text) (hwf : t.WF) (seq : IRSeq) (hs : SeqOKN t.segs.length seq) (e : BidiClass)
    (ocs1 pcs1 : Classes) (hlo : ocs1.length = t.segs.length) (hl : pcs1.length = t.segs.length)
    (err : Option Panic) (p : BracketPair) (hp : p.start < t.segs.length ∧ p.stop < t.segs.length) :
    n0Pair t (mapSeq t seq) e (expand t ocs1) (expand t pcs1, err) (mapPair t p) =
      (expand t (n0Pair (unitize t) seq e ocs1 (pcs1, err) p).1,
       (n0Pair (unitize t) seq e ocs1 (pcs1, err) p).2) := by
  have hc1 : t.charAt (mapPair t p).start = some t.segs[p.start] := charAt_pos t hwf hp.1
  have hc2 : t.charAt (mapPair t p).stop = some t.segs[p.stop] := charAt_pos t hwf hp.2
  rw [n0Pair_eq t (mapSeq t seq) e _ _ err _ _ _ hc1 hc2, n0Pair_unitize t seq e ocs1 pcs1 err p hp]
  have e1 : t.enc.charLen t.segs[p.start].cp = clen t p.start := by
    rw [clen_of_lt t hp.1]; exact (hwf.lens _ (List.getElem_mem _)).symm
  have e2 : t.enc.charLen t.segs[p.stop].cp = clen t p.stop := by
    rw [clen_of_lt t hp.2]; exact (hwf.lens _ (List.getElem_mem _)).symm
  rw [e1, e2]
  show (match n0Class (mapSeq t seq) e (expand t pcs1) (pos t p.start) (clen t p.start) (pos t p.stop) p.startRun with
        | none => expand t pcs1
        | some v => n0Write (mapSeq t seq) (expand t ocs1) (expand t pcs1) (pos t p.start) (clen t p.start)
                      (pos t p.stop) (clen t p.stop) p.startRun p.endRun v, err) = _
  rw [n0Class_expand t hwf seq hs e pcs1 hl p.start p.stop p.startRun hp.1 (by omega)]
  cases n0Class seq e pcs1 p.start 1 p.stop p.startRun with
  | none => rfl
  | some v =>
    simp only
    rw [n0Write_expand t hwf seq hs ocs1 pcs1 hlo hl p.start p.stop p.startRun p.endRun hp.1 hp.2 v]

end UBidi.Expand
namespace UBidi.Expand.Neutral

theorem n0_fold_expand (t : Text) (hwf : t.WF) (seq : IRSeq) (hs : SeqOKN t.segs.length seq) (e : BidiClass)
    (ocs1 : Classes) (hlo : ocs1.length = t.segs.length) :
    ∀ (ps : List BracketPair) (pcs1 : Classes) (err : Option Panic), pcs1.length = t.segs.length →
      (∀ p ∈ ps, p.start < t.segs.length ∧ p.stop < t.segs.length) →
      (ps.map (mapPair t)).foldl (n0Pair t (mapSeq t seq) e (expand t ocs1)) (expand t pcs1, err) =
        (expand t (ps.foldl (n0Pair (unitize t) seq e ocs1) (pcs1, err)).1,
         (ps.foldl (n0Pair (unitize t) seq e ocs1) (pcs1, err)).2) ∧
      (ps.foldl (n0Pair (unitize t) seq e ocs1) (pcs1, err)).1.length = t.segs.length
  | [], _, _, hl, _ => ⟨rfl, hl⟩
  | p :: ps, pcs1, err, hl, hp => by
    rw [List.map_cons, List.foldl_cons, List.foldl_cons,
      n0Pair_expand t hwf seq hs e ocs1 pcs1 hlo hl err p (hp p (by simp))]
    have hlen := length_n0Pair_unitize t seq e ocs1 pcs1 err p (hp p (by simp))
    generalize n0Pair (unitize t) seq e ocs1 (pcs1, err) p = r at hlen ⊢
    obtain ⟨q, err'⟩ := r
    exact n0_fold_expand t hwf seq hs e ocs1 hlo ps q err' (by simpa [hl] using hlen)
      (fun p' hp' => hp p' (by simp [hp']))

end UBidi.Expand.Neutral
namespace UBidi.Expand
open Neutral

/-- **The neutral stage (N0, N1, N2) does not depend on the number of units of a character.** -/
theorem neutral_expand (ds : DataSource) (t : Text) (hwf : t.WF) (seq : IRSeq)
    (hs : SeqOKN t.segs.length seq) (ocs1 pcs1 : List BidiClass) (lv1 : List Nat)
    (hl : ocs1.length = t.segs.length ∧ pcs1.length = t.segs.length ∧ lv1.length = t.segs.length) :
    resolveNeutral ds t (mapSeq t seq) (expand t lv1) (expand t ocs1) (expand t pcs1)
      = (expand t (resolveNeutral ds (unitize t) seq lv1 ocs1 pcs1).1,
         (resolveNeutral ds (unitize t) seq lv1 ocs1 pcs1).2) := by
  unfold resolveNeutral
  have hruns : (mapSeq t seq).runs = seq.runs.map (mapRun t) := rfl
  rw [hruns]
  cases hr : seq.runs with
  | nil => rfl
  | cons r0 rest =>
    have hr0 : r0.1 ≤ t.segs.length := (hs r0 (by rw [hr]; simp)).1
    simp only [List.map_cons]
    have he : (expand t lv1).getD (mapRun t r0).1 0 = lv1.getD r0.1 0 :=
      getD_expand_pos t hwf lv1 hl.2.2 r0.1 hr0 0
    rw [he]
    have hb := brackets_expand ds t hwf seq hs ocs1 pcs1 ⟨hl.1, hl.2.1⟩
    rw [hb]
    obtain ⟨h1, h2⟩ := n0_fold_expand t hwf seq hs (Level.bidiClass (lv1.getD r0.1 0)) ocs1 hl.1
      (identifyBracketPairs ds (unitize t) seq ocs1 pcs1) pcs1 none hl.2.1
      (brackets_lt ds t seq ocs1 pcs1)
    change (match (List.foldl (n0Pair t (mapSeq t seq) (Level.bidiClass (lv1.getD r0.1 0)) (expand t ocs1))
        (expand t pcs1, none) ((identifyBracketPairs ds (unitize t) seq ocs1 pcs1).map (mapPair t))) with
      | (pcs, err) => (n12 (mapSeq t seq) (Level.bidiClass (lv1.getD r0.1 0)) pcs, err)) = _
    rw [h1]
    generalize (identifyBracketPairs ds (unitize t) seq ocs1 pcs1).foldl
      (n0Pair (unitize t) seq (Level.bidiClass (lv1.getD r0.1 0)) ocs1) (pcs1, none) = r at h2 ⊢
    obtain ⟨q, err'⟩ := r
    simp only
    rw [n12_expand t hwf seq hs _ q h2]

end UBidi.Expand
