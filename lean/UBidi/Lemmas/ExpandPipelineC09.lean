/-
  UBidi.Lemmas.ExpandPipelineC09 — the hypothesis `ParaLevelsExpand` / `PbiExpand` of the level theorems of
  Props/C09.lean ("the UTF-16 API agrees with the UTF-8 API") discharged with the pipeline-level Expand
  theorem `Expand.paraLevels_expand`: same levels, character for character, for `BidiInfo` and
  `ParagraphBidiInfo`, with no hypothesis left on the data source (the FSI-width proviso is gone since the
  repair of finding D10).
-/
import UBidi.Lemmas.ExpandPipeline
import UBidi.Props.C09
namespace UBidi.Expand.PipelineC09
open UBidi UBidi.BidiClass UBidi.Props UBidi.Props.C09

/-- the `Expand` lemma of `compute_bidi_info_for_para`, in the form Props/C09.lean asks for -/
theorem paraLevelsExpand (ds : DataSource) (t : Text) (hwf : t.WF) : ParaLevelsExpand ds t := by
  intro pl pure hasIso ocs hlen hu
  rw [Expand.paraLevels_expand ds pl pure hasIso t hwf ocs hlen hu]

/-- … and the instance `ParagraphBidiInfo::new(t, d)` uses -/
theorem pbiExpand (ds : DataSource) (t : Text) (hwf : t.WF) (d : Option Nat) :
    PbiExpand ds t d :=
  PbiExpand_of_ParaLevelsExpand ds t d hwf (paraLevelsExpand ds t hwf)

/-- C09, levels: for every sequence of 16-bit code units, the `&[u16]` text and the `&str` with the same
    characters get the same level for every character (read at its first code unit), with `BidiInfo` and
    with `ParagraphBidiInfo` -/
theorem C09_levels (ds : DataSource) (u : List Nat) (h16 : ∀ x ∈ u, x < 65536) (d : Option Nat) :
    (t16 u).segs.map (fun s => (bidiInfo ds (t16 u) d).levels.getD s.start 0)
      = (t8 u).segs.map (fun s => (bidiInfo ds (t8 u) d).levels.getD s.start 0) ∧
    (t16 u).segs.map (fun s => (paragraphBidiInfo ds (t16 u) d).levels.getD s.start 0)
      = (t8 u).segs.map (fun s => (paragraphBidiInfo ds (t8 u) d).levels.getD s.start 0) := by
  have w16 := t16_WF u h16
  have w8 := t8_WF u
  have sub : ∀ (t : Text), t.WF → ∀ p ∈ (bidiInfo ds t d).paras,
      ParaLevelsExpand ds (t.subrange p.start p.stop) := by
    intro t hwf p hp
    obtain ⟨f, _, hg, _⟩ := Lemmas.C10.parasFrom_mem (Lemmas.C10.paras_good ds t hwf d).1 p hp
    exact paraLevelsExpand ds _ hg.1
  obtain ⟨m, s⟩ := C09_levels_of_paraLevelsExpand ds u h16 d
  exact ⟨m (sub _ w16) (sub _ w8), s (paraLevelsExpand ds _ w16) (paraLevelsExpand ds _ w8)⟩

/-- … and within either text every code unit of a character carries the level of its first unit -/
theorem C09_levels_uniform (ds : DataSource) (t : Text) (d : Option Nat) (hwf : t.WF) :
    Expand.UniformOn t (bidiInfo ds t d).levels ∧ Expand.UniformOn t (paragraphBidiInfo ds t d).levels := by
  obtain ⟨m, s⟩ := C09_levels_uniform_of_expand ds t d hwf
  refine ⟨m ?_, s (pbiExpand ds t hwf d)⟩
  intro p hp
  obtain ⟨f, _, hg, _⟩ := Lemmas.C10.parasFrom_mem (Lemmas.C10.paras_good ds t hwf d).1 p hp
  exact pbiExpand ds _ hg.1 d

/-- `ParagraphBidiInfo`: ONE vector of per-character levels of which the UTF-16 levels and the UTF-8 levels
    are the expansions over the respective code units -/
theorem C09_levels_single (ds : DataSource) (u : List Nat) (h16 : ∀ x ∈ u, x < 65536) (d : Option Nat) :
    ∃ X : List Nat, X.length = (t16 u).segs.length ∧ X.length = (t8 u).segs.length ∧
      (paragraphBidiInfo ds (t16 u) d).levels = Expand.expand (t16 u) X ∧
      (paragraphBidiInfo ds (t8 u) d).levels = Expand.expand (t8 u) X :=
  C09_levels_single_of_expand ds u h16 d
    (pbiExpand ds _ (t16_WF u h16) d) (pbiExpand ds _ (t8_WF u) d)

/-- with the built-in tables: every `&[u16]`, no hypothesis left -/
theorem C09_levels_hardcoded (u : List Nat) (h16 : ∀ x ∈ u, x < 65536) (d : Option Nat) :
    (t16 u).segs.map (fun s => (bidiInfo hardcoded (t16 u) d).levels.getD s.start 0)
      = (t8 u).segs.map (fun s => (bidiInfo hardcoded (t8 u) d).levels.getD s.start 0) ∧
    (t16 u).segs.map (fun s => (paragraphBidiInfo hardcoded (t16 u) d).levels.getD s.start 0)
      = (t8 u).segs.map (fun s => (paragraphBidiInfo hardcoded (t8 u) d).levels.getD s.start 0) :=
  C09_levels_hardcoded_of_expand (fun t hwf => paraLevelsExpand hardcoded t hwf) u h16 d

/-- non-vacuity: the sample of Props/C09.lean (`A`, a surrogate pair, `א`, a lone high surrogate, space, FSI,
    `ا`, LF, `1`) consists of 16-bit units; its levels as `&[u16]` and as `&str` are given (tests) in
    Props/C09.lean: 10 against 18 entries -/
example : (∀ x ∈ sample, x < 65536) ∧
    (t16 sample).segs.map (fun s => (bidiInfo hardcoded (t16 sample) none).levels.getD s.start 0)
      = (t8 sample).segs.map (fun s => (bidiInfo hardcoded (t8 sample) none).levels.getD s.start 0) :=
  ⟨by decide, (C09_levels_hardcoded sample (by decide) none).1⟩

end UBidi.Expand.PipelineC09
