/-
  UBidi.Lemmas.CheckedVal — every checked copy of `UBidi/Lemmas/CheckedDefs.lean` computes exactly
  the Model function it copies: `(fC args).val = f args`, for all arguments (no hypothesis, except
  for `resolveLevelsC`, which is the crate's index loop where the Model zips: equal when the two
  arrays have the same length, i.e. when the crate's `assert_eq!` passes).
  Lemmas only; the few definitions (`…M`) are fragments of Model functions, used to state lemmas —
  the checked copies (`CheckedDefs.lean`, which does not import this file) cannot use them.
-/
import UBidi.Lemmas.CheckedDefs
namespace UBidi.Checked
open UBidi UBidi.BidiClass

/-! ### the writer monad -/

@[simp] theorem val_pure {α : Type} (a : α) : (pure a : Chk α).val = a := id rfl
@[simp] theorem oob_pure {α : Type} (a : α) : (pure a : Chk α).oob = false := id rfl
@[simp] theorem val_bind {α β : Type} (x : Chk α) (f : α → Chk β) : (x >>= f).val = (f x.val).val := id rfl
@[simp] theorem oob_bind {α β : Type} (x : Chk α) (f : α → Chk β) :
    (x >>= f).oob = (x.oob || (f x.val).oob) := id rfl

theorem val_ite {α : Type} (c : Prop) [Decidable c] (a b : Chk α) :
    (if c then a else b).val = if c then a.val else b.val := by split <;> rfl
theorem oob_ite {α : Type} (c : Prop) [Decidable c] (a b : Chk α) :
    (if c then a else b).oob = if c then a.oob else b.oob := by split <;> rfl

/-! ### the primitives -/

@[simp] theorem rd_val {α : Type} (xs : List α) (i : Nat) (d : α) : (rd xs i d).val = xs.getD i d := id rfl
@[simp] theorem rdOpt_val {α : Type} (xs : List α) (i : Nat) : (rdOpt xs i).val = xs[i]? := id rfl
@[simp] theorem wr_val {α : Type} (xs : List α) (i : Nat) (v : α) : (wr xs i v).val = xs.set i v := id rfl
@[simp] theorem slc_val (len x y : Nat) : (slc len x y).val = () := id rfl
@[simp] theorem sliceC_val {α : Type} (xs : List α) (x y : Nat) : (sliceC xs x y).val = slice xs x y := id rfl
@[simp] theorem takeC_val {α : Type} (xs : List α) (k : Nat) : (takeC xs k).val = xs.take k := id rfl
@[simp] theorem dropC_val {α : Type} (xs : List α) (k : Nat) : (dropC xs k).val = xs.drop k := id rfl
@[simp] theorem dec1_val (i : Nat) : (dec1 i).val = i - 1 := id rfl
@[simp] theorem oobFail_val {α : Type} (a : α) : (oobFail a).val = a := id rfl

/-! ### folds -/

theorem foldlC_val {σ β : Type} (f : σ → β → Chk σ) (g : σ → β → σ) (h : ∀ s x, (f s x).val = g s x) :
    ∀ (xs : List β) (s : σ), (foldlC f s xs).val = xs.foldl g s
  | [], s => rfl
  | x :: xs, s => by
    simp only [foldlC, val_bind, List.foldl_cons, h]
    exact foldlC_val f g h xs _

/-- the same, when the body agrees with `g` on the elements of the list only -/
theorem foldlC_val_mem {σ β : Type} (f : σ → β → Chk σ) (g : σ → β → σ) :
    ∀ (xs : List β) (s : σ), (∀ s, ∀ x ∈ xs, (f s x).val = g s x) → (foldlC f s xs).val = xs.foldl g s
  | [], s, _ => rfl
  | x :: xs, s, h => by
    simp only [foldlC, val_bind, List.foldl_cons, h s x (by simp)]
    exact foldlC_val_mem f g xs _ (fun s' y hy => h s' y (by simp [hy]))

/-! ### the array helpers -/

@[simp] theorem wrAll_val (pcs : Classes) (idxs : List Nat) (v : BidiClass) :
    (wrAll pcs idxs v).val = setAll pcs idxs v :=
  foldlC_val _ _ (fun _ _ => rfl) idxs pcs

@[simp] theorem wrWhileBN_val (v : BidiClass) : ∀ (it : List Nat) (pcs : Classes),
    (wrWhileBN v pcs it).val = setWhileBN pcs it v
  | [], pcs => rfl
  | idx :: rest, pcs => by
    simp only [wrWhileBN, setWhileBN, val_bind]
    simp only [apply_ite Chk.val, val_pure, val_bind, wr_val, wrWhileBN_val v rest]
    rfl

@[simp] theorem wrWhileNsmOrBN_val (ocs : Classes) (v : BidiClass) : ∀ (it : List Nat) (pcs : Classes),
    (wrWhileNsmOrBN ocs v pcs it).val = setWhileNsmOrBN ocs pcs it v
  | [], pcs => rfl
  | idx :: rest, pcs => by
    simp only [wrWhileNsmOrBN, setWhileNsmOrBN, val_bind]
    simp only [apply_ite Chk.val, val_pure, val_bind, wr_val, wrWhileNsmOrBN_val ocs v rest]
    rfl

theorem wrRangeLoop_val {α : Type} (i : Nat) (v : α) : ∀ (n : Nat) (xs : List α),
    (wrRangeLoop i v xs n).val = setRange xs i n v
  | 0, xs => rfl
  | n + 1, xs => by
    simp only [wrRangeLoop, setRange, val_bind, wr_val]
    exact wrRangeLoop_val i v n _

@[simp] theorem wrRange_val {α : Type} (xs : List α) (i n : Nat) (v : α) :
    (wrRange xs i n v).val = setRange xs i n v := by
  simp only [wrRange, val_bind]
  exact wrRangeLoop_val i v n xs

@[simp] theorem findRd_val (pcs : Classes) (p : BidiClass → Bool) : ∀ (it : List Nat),
    (findRd pcs p it).val = (it.map (cget pcs)).find? p
  | [] => rfl
  | j :: rest => by
    simp only [findRd, val_bind, rd_val, List.map_cons, List.find?_cons, cget]
    by_cases h : p (pcs.getD j ON) = true
    · simp only [h, if_true, val_pure]
    · have h' : p (pcs.getD j ON) = false := by simpa using h
      simp only [h', Bool.false_eq_true, if_false]
      exact findRd_val pcs p rest

@[simp] theorem findIdxRd_val (ocs : Classes) (p : BidiClass → Bool) : ∀ (it : List Nat),
    (findIdxRd ocs p it).val = it.find? (fun i => p (ocs.getD i ON))
  | [] => rfl
  | j :: rest => by
    simp only [findIdxRd, val_bind, rd_val, List.find?_cons]
    by_cases h : p (ocs.getD j ON) = true
    · simp only [h, if_true, val_pure]
    · have h' : p (ocs.getD j ON) = false := by simpa using h
      simp only [h', Bool.false_eq_true, if_false]
      exact findIdxRd_val ocs p rest

@[simp] theorem iterForwardsFromC_val (s : IRSeq) (pos runIdx : Nat) :
    (iterForwardsFromC s pos runIdx).val = s.iterForwardsFrom pos runIdx := by
  simp only [iterForwardsFromC, IRSeq.iterForwardsFrom, val_bind, dropC_val]
  split <;> simp only [*, val_pure, oobFail_val]

@[simp] theorem iterBackwardsFromC_val (s : IRSeq) (pos runIdx : Nat) :
    (iterBackwardsFromC s pos runIdx).val = s.iterBackwardsFrom pos runIdx := by
  simp only [iterBackwardsFromC, IRSeq.iterBackwardsFrom, val_bind, rdOpt_val, takeC_val]
  split <;> simp only [*, val_pure]


/-! ### Model fragments of `weakStep` (only used to state the lemmas) -/

def weakSepM (seq : IRSeq) (prevW4 c2 : BidiClass) (lastAL : Bool) (etRun : List Nat) (pcs : Classes)
    (i charLen runIdx : Nat) : Classes × List Nat :=
  let nextClass0 :=
    ((seq.iterForwardsFrom (i + charLen) runIdx).map (cget pcs)).find? notRemoved |>.getD seq.eos
  let nextClass := if nextClass0 == EN && lastAL then AN else nextClass0
  let c3 := match prevW4, c2, nextClass with
    | EN, ES, EN => EN
    | EN, CS, EN => EN
    | AN, CS, AN => AN
    | _, _, _ => ON
  let pcs := pcs.set i c3
  if c3 == ON then
    let pcs := setWhileBN pcs (seq.iterBackwardsFrom i runIdx) ON
    let pcs := setWhileBN pcs (seq.iterForwardsFrom (i + charLen) runIdx) ON
    (pcs, etRun)
  else (pcs, etRun)

def weakW456M (charLenAt : Nat → Option Nat) (seq : IRSeq) (st : WState) (c2 : BidiClass)
    (lastAL : Bool) (pcs : Classes) (i runIdx : Nat) : Classes × List Nat :=
  match c2 with
  | EN => (setAll pcs st.etRun EN, [])
  | ES | CS =>
    (match charLenAt i with
     | some charLen => weakSepM seq st.prevW4 c2 lastAL st.etRun pcs i charLen runIdx
     | none => (pcs.set i (cget pcs (i - 1)), st.etRun))
  | ET =>
    (match st.prevW5 with
     | EN => (pcs.set i EN, st.etRun)
     | _ => (pcs, st.etRun ++ st.bnRun ++ [i]))
  | _ => (pcs, st.etRun)

def weakTailM (classBeforeW456 prevW1 : BidiClass) (lastAL : Bool) (i : Nat)
    (pe : Classes × List Nat) : WState :=
  let prevW5 := cget pe.1 i
  let pe2 := if prevW5 != ET then (setAll pe.1 pe.2 ON, []) else (pe.1, pe.2)
  { pcs := pe2.1, prevW4 := classBeforeW456, prevW5 := prevW5, prevW1 := prevW1,
    lastStrongIsAL := lastAL, etRun := pe2.2, bnRun := [] }

def weakBodyM (charLenAt : Nat → Option Nat) (seq : IRSeq) (st : WState) (runIdx i : Nat)
    (c0 : BidiClass) : WState :=
  let c1 := if c0 == NSM then
              (match st.prevW1 with
               | RLI | LRI | FSI | PDI => ON
               | p => p)
            else c0
  let w2class := c1
  let prevW1 := c1
  let c2 := match c1 with
    | EN => if st.lastStrongIsAL then AN else EN
    | AL => R
    | c => c
  let lastAL := match w2class with
    | L | R => false
    | AL => true
    | _ => st.lastStrongIsAL
  let classBeforeW456 := c2
  let pcs := st.pcs.set i c2
  weakTailM classBeforeW456 prevW1 lastAL i (weakW456M charLenAt seq st c2 lastAL pcs i runIdx)

theorem weakStep_eq (f : Nat → Option Nat) (seq : IRSeq) (st : WState) (ri : Nat × Nat) :
    weakStep f seq st ri =
      if cget st.pcs ri.2 == BN then { st with bnRun := st.bnRun ++ [ri.2] }
      else weakBodyM f seq st ri.1 ri.2 (cget st.pcs ri.2) := by
  rfl


theorem weakSepC_val (seq : IRSeq) (prevW4 c2 : BidiClass) (lastAL : Bool) (etRun : List Nat) (pcs : Classes)
    (i charLen runIdx : Nat) :
    (weakSepC seq prevW4 c2 lastAL etRun pcs i charLen runIdx).val =
      weakSepM seq prevW4 c2 lastAL etRun pcs i charLen runIdx := by
  simp only [weakSepC, weakSepM, val_bind, iterForwardsFromC_val, findRd_val, wr_val]
  simp only [apply_ite Chk.val, val_bind, val_pure, iterForwardsFromC_val, iterBackwardsFromC_val,
    wrWhileBN_val]
  rfl

theorem weakW456C_val (f : Nat → Option Nat) (seq : IRSeq) (st : WState) (c2 : BidiClass)
    (lastAL : Bool) (pcs : Classes) (i runIdx : Nat) :
    (weakW456C f seq st c2 lastAL pcs i runIdx).val = weakW456M f seq st c2 lastAL pcs i runIdx := by
  unfold weakW456C weakW456M
  cases c2 <;> simp only [val_bind, val_pure, wrAll_val]
  · cases f i <;> simp only [val_bind, val_pure, dec1_val, rd_val, wr_val, weakSepC_val, cget]
  · cases f i <;> simp only [val_bind, val_pure, dec1_val, rd_val, wr_val, weakSepC_val, cget]
  · cases st.prevW5 <;> simp only [val_bind, val_pure, wr_val]

theorem weakTailC_val (cb p1 : BidiClass) (lastAL : Bool) (i : Nat) (pe : Classes × List Nat) :
    (weakTailC cb p1 lastAL i pe).val = weakTailM cb p1 lastAL i pe := by
  simp only [weakTailC, weakTailM, val_bind, rd_val, cget]
  simp only [apply_ite Chk.val, val_bind, val_pure, wrAll_val]
  rfl

theorem weakBodyC_val (f : Nat → Option Nat) (seq : IRSeq) (st : WState) (runIdx i : Nat) (c0 : BidiClass) :
    (weakBodyC f seq st runIdx i c0).val = weakBodyM f seq st runIdx i c0 := by
  simp only [weakBodyC, weakBodyM, val_bind, wr_val, weakW456C_val, weakTailC_val]
  rfl

theorem weakStepC_val (f : Nat → Option Nat) (seq : IRSeq) (st : WState) (ri : Nat × Nat) :
    (weakStepC f seq st ri).val = weakStep f seq st ri := by
  rw [weakStep_eq]
  simp only [weakStepC, val_bind]
  simp only [apply_ite Chk.val, val_pure, val_bind, weakBodyC_val, rd_val, cget]
  rfl

theorem w7StepC_val (st : Classes × Bool) (i : Nat) : (w7StepC st i).val = w7Step st i := by
  simp only [w7StepC, w7Step, val_bind, rd_val, cget]
  cases List.getD st.1 i ON <;> simp only [val_pure]
  cases st.2 <;> simp [val_bind, val_pure, wr_val]

@[simp] theorem resolveWeakC_val (f : Nat → Option Nat) (seq : IRSeq) (pcs : Classes) :
    (resolveWeakC f seq pcs).val = resolveWeak f seq pcs := by
  simp only [resolveWeakC, resolveWeak, val_bind, val_pure, wrAll_val,
    foldlC_val _ _ (weakStepC_val f seq), foldlC_val _ _ w7StepC_val]

theorem bpStepC_val (ds : DataSource) (ocs pcs : Classes) (st : BPState) (x : Nat × Seg) :
    (bpStepC ds ocs pcs st x).val = bpStep ds ocs pcs st x := by
  unfold bpStepC bpStep
  by_cases hs : st.stopped = true
  · simp only [hs, if_true, val_pure]
  · simp only [hs, Bool.false_eq_true, if_false, val_bind, rd_val, cget]
    by_cases h1 : (List.getD pcs x.2.start ON != ON) = true
    · simp only [h1, if_true, val_pure, Bool.true_or]
    · simp only [h1, Bool.false_eq_true, if_false, val_bind, rd_val, Bool.false_or]
      by_cases h2 : (List.getD ocs x.2.start ON).removedByX9 = true
      · simp only [h2, if_true, val_pure]
      · simp only [h2, Bool.false_eq_true, if_false]
        cases ds.brk x.2.cp with
        | none => rfl
        | some m =>
          simp only
          by_cases h3 : m.isOpen = true
          · simp only [h3, if_true]
            split <;> rfl
          · simp only [h3, Bool.false_eq_true, if_false]
            cases findOpening m.opening st.stack with
            | none => rfl
            | some r => rfl

theorem seqCharsC_val (t : Text) (seq : IRSeq) : (seqCharsC t seq).val = seqChars t seq := by
  unfold seqCharsC seqChars
  rw [foldlC_val _ (fun acc (rk : (Nat × Nat) × Nat) =>
    acc ++ (t.segs.filter (fun s => rk.1.1 ≤ s.start && s.start < rk.1.2)).map (fun s => (rk.2, s)))
    (fun _ _ => by simp only [val_bind, val_pure])]
  rw [List.flatMap_eq_foldl]

@[simp] theorem identifyBracketPairsC_val (ds : DataSource) (t : Text) (seq : IRSeq) (ocs pcs : Classes) :
    (identifyBracketPairsC ds t seq ocs pcs).val = identifyBracketPairs ds t seq ocs pcs := by
  simp only [identifyBracketPairsC, identifyBracketPairs, val_bind, val_pure, seqCharsC_val,
    foldlC_val _ _ (bpStepC_val ds ocs pcs)]


theorem scanEnclosedC_val (pcs : Classes) (e notE : BidiClass) (stop : Nat) : ∀ (it : List Nat) (fne : Bool),
    (scanEnclosedC pcs e notE stop it fne).val = scanEnclosed pcs e notE stop it fne
  | [], fne => rfl
  | i :: rest, fne => by
    simp only [scanEnclosedC, scanEnclosed]
    simp only [apply_ite Chk.val, val_pure, val_bind, scanEnclosedC_val pcs e notE stop rest]
    rfl

def n0ClassM (seq : IRSeq) (e : BidiClass) (pcs : Classes) (pair : BracketPair)
    (foundE foundNotE : Bool) : Option BidiClass :=
  if foundE then some e
  else if foundNotE then
    let prev := (((seq.iterBackwardsFrom pair.start pair.startRun).map (cget pcs)).find?
                  (fun c => c == L || c == R || c == EN || c == AN)).getD seq.sos
    some (if prev == EN || prev == AN then R else prev)
  else none

theorem n0ClassC_val (seq : IRSeq) (e : BidiClass) (pcs : Classes) (pair : BracketPair)
    (foundE foundNotE : Bool) :
    (n0ClassC seq e pcs pair foundE foundNotE).val = n0ClassM seq e pcs pair foundE foundNotE := by
  simp only [n0ClassC, n0ClassM]
  simp only [apply_ite Chk.val, val_pure, val_bind, iterBackwardsFromC_val, findRd_val]

theorem n0Pair_eq (t : Text) (seq : IRSeq) (e : BidiClass) (ocs : Classes)
    (st : Classes × Option Panic) (pair : BracketPair) :
    n0Pair t seq e ocs st pair =
      match t.charAt pair.start with
      | none => (st.1, orErr st.2 (some .bracketNoChar))
      | some sseg =>
        let startLen := t.enc.charLen sseg.cp
        let ff := scanEnclosed st.1 e (if e == L then R else L) pair.stop
          (seq.iterForwardsFrom (pair.start + startLen) pair.startRun) false
        match n0ClassM seq e st.1 pair ff.1 ff.2 with
        | none => (st.1, st.2)
        | some v =>
          match t.charAt pair.stop with
          | none => (st.1, orErr st.2 (some .bracketNoChar))
          | some eseg =>
            let endLen := t.enc.charLen eseg.cp
            let pcs := setRange st.1 pair.start startLen v
            let pcs := setRange pcs pair.stop endLen v
            let pcs := setWhileBN pcs (seq.iterBackwardsFrom pair.start pair.startRun) v
            let pcs := setWhileNsmOrBN ocs pcs (seq.iterForwardsFrom (pair.start + startLen) pair.startRun) v
            let pcs := setWhileNsmOrBN ocs pcs (seq.iterForwardsFrom (pair.stop + endLen) pair.endRun) v
            (pcs, st.2) := rfl

theorem n0PairC_val (t : Text) (seq : IRSeq) (e : BidiClass) (ocs : Classes)
    (st : Classes × Option Panic) (pair : BracketPair) :
    (n0PairC t seq e ocs st pair).val = n0Pair t seq e ocs st pair := by
  rw [n0Pair_eq]
  unfold n0PairC
  simp only [val_bind]
  cases t.charAt pair.start with
  | none => rfl
  | some sseg =>
    simp only [val_bind, iterForwardsFromC_val, scanEnclosedC_val, n0ClassC_val]
    generalize n0ClassM seq e st.1 pair _ _ = cls
    cases cls with
    | none => rfl
    | some v =>
      simp only [val_bind]
      cases t.charAt pair.stop with
      | none => rfl
      | some eseg =>
        simp only [val_bind, val_pure, wrRange_val, iterBackwardsFromC_val, wrWhileBN_val,
          iterForwardsFromC_val, wrWhileNsmOrBN_val]

theorem n12StepC_val (e : BidiClass) (st : N12State) (i : Nat) : (n12StepC e st i).val = n12Step e st i := by
  simp only [n12StepC, n12Step, val_bind, rd_val, cget]
  by_cases h : isNIorBN (List.getD st.pcs i ON) = true
  · simp only [h, if_true, val_pure]
  · simp only [h, Bool.false_eq_true, if_false]
    cases st.pending with
    | nil => rfl
    | cons a as => simp only [val_bind, val_pure, wrAll_val]

@[simp] theorem n12C_val (seq : IRSeq) (e : BidiClass) (pcs : Classes) : (n12C seq e pcs).val = n12 seq e pcs := by
  simp only [n12C, n12, val_bind, foldlC_val _ _ (n12StepC_val e)]
  generalize List.foldl (n12Step e) _ seq.indices = st
  cases st.pending with
  | nil => rfl
  | cons a as => simp only [wrAll_val]

@[simp] theorem resolveNeutralC_val (ds : DataSource) (t : Text) (seq : IRSeq) (levels : List Nat)
    (ocs pcs : Classes) :
    (resolveNeutralC ds t seq levels ocs pcs).val = resolveNeutral ds t seq levels ocs pcs := by
  unfold resolveNeutralC resolveNeutral
  cases seq.runs with
  | nil => rfl
  | cons r0 rs =>
    simp only [val_bind, val_pure, rd_val, identifyBracketPairsC_val, n12C_val,
      foldlC_val _ _ (n0PairC_val t seq _ ocs)]



/-! ### `resolve_levels` -/


/-- the body of the index loop of `resolve_levels`, on the Model's terms -/
def rlStepM (pcs : Classes) (acc : List Nat × Option Panic) (i : Nat) : List Nat × Option Panic :=
  (acc.1.set i (resolveLevel (acc.1.getD i 0) (pcs.getD i ON)).1,
   orErr acc.2 (resolveLevel (acc.1.getD i 0) (pcs.getD i ON)).2)

theorem rl_loop (pcsAll : Classes) : ∀ (lv : List Nat) (cs : Classes) (pre : List Nat) (ppre : Classes)
    (e : Option Panic), pcsAll = ppre ++ cs → ppre.length = pre.length → cs.length = lv.length →
    (List.range' pre.length lv.length).foldl (rlStepM pcsAll) (pre ++ lv, e) =
      (pre ++ ((lv.zip cs).map (fun (l, c) => resolveLevel l c)).map (·.1),
       ((lv.zip cs).map (fun (l, c) => resolveLevel l c)).foldl (fun e r => orErr e r.2) e)
  | [], cs, pre, ppre, e, _, _, _ => by simp
  | l :: lv, [], pre, ppre, e, _, _, h => by simp at h
  | l :: lv, c :: cs, pre, ppre, e, h1, h2, h3 => by
    have hl : (pre ++ l :: lv).getD pre.length 0 = l := by simp
    have hc : pcsAll.getD pre.length ON = c := by rw [h1, ← h2]; simp
    have hs : (pre ++ l :: lv).set pre.length (resolveLevel l c).1 = (pre ++ [(resolveLevel l c).1]) ++ lv := by
      simp
    have ih := rl_loop pcsAll lv cs (pre ++ [(resolveLevel l c).1]) (ppre ++ [c])
      (orErr e (resolveLevel l c).2) (by simp [h1]) (by simp [h2]) (by simpa using h3)
    simp only [List.length_cons, List.range'_succ, List.foldl_cons, rlStepM, hl, hc, hs]
    simp only [List.length_append, List.length_singleton] at ih
    rw [ih]
    simp

theorem resolveLevelsC_val (pcs : Classes) (levels : List Nat) (h : pcs.length = levels.length) :
    (resolveLevelsC pcs levels).val = resolveLevels pcs levels := by
  unfold resolveLevelsC resolveLevels
  rw [foldlC_val _ (rlStepM pcs) (fun _ _ => by simp only [val_bind, val_pure, rd_val, wr_val, rlStepM])]
  rw [List.range_eq_range']
  have := rl_loop pcs levels pcs [] [] (if pcs.length = levels.length then none else some .lenMismatch)
    rfl rfl h
  simpa using this



@[simp] theorem idxC_val (len i : Nat) : (idxC len i).val = () := id rfl
@[simp] theorem lastC_val {α : Type} (xs : List α) (d : α) : (lastC xs d).val = xs.getLast?.getD d := id rfl

/-! ### `explicit::compute` -/

theorem exStepC_val (pl : Nat) (ocs : List BidiClass) (n : Nat) (st : ExState) (s : Seg) :
    (exStepC pl ocs n st s).val = exStep pl ocs st s := by
  simp only [exStepC, exStep, val_bind, rd_val]
  simp only [apply_ite Chk.val, val_pure]

@[simp] theorem explicitComputeC_val (t : Text) (pl : Nat) (ocs : List BidiClass) :
    (explicitComputeC t pl ocs).val = explicitCompute t pl ocs := by
  simp only [explicitComputeC, explicitCompute, val_bind, val_pure, foldlC_val _ _ (exStepC_val pl ocs t.len)]

/-! ### `isolating_run_sequences` -/

theorem mapC_val {α β : Type} (f : α → Chk β) (g : α → β) (h : ∀ x, (f x).val = g x) :
    ∀ xs : List α, (mapC f xs).val = xs.map g
  | [] => rfl
  | x :: xs => by simp only [mapC, val_bind, val_pure, h, mapC_val f g h xs, List.map_cons]

theorem levelBeforeC_val (pl : Nat) (ocs : List BidiClass) (levels : List Nat) (a : Nat) :
    (levelBeforeC pl ocs levels a).val =
      match rposition notRemoved (ocs.take a) with
      | some idx => levels.getD idx 0
      | none => pl := by
  simp only [levelBeforeC, val_bind, takeC_val]
  cases rposition notRemoved (List.take a ocs) <;> simp only [val_pure, rd_val]

theorem levelAfterC_val (pl : Nat) (ocs : List BidiClass) (levels : List Nat) (b : Nat) :
    (levelAfterC pl ocs levels b).val =
      match (ocs.drop b).findIdx? notRemoved with
      | some idx => levels.getD (b + idx) 0
      | none => pl := by
  simp only [levelAfterC, val_bind, dropC_val]
  cases List.findIdx? notRemoved (List.drop b ocs) <;> simp only [val_pure, rd_val]

theorem seqBoundsC_val (pl : Nat) (ocs : List BidiClass) (levels : List Nat) (runs : List (Nat × Nat)) :
    (seqBoundsC pl ocs levels runs).val = seqBounds pl ocs levels runs := by
  unfold seqBoundsC seqBounds
  cases runs with
  | nil => rfl
  | cons r0 rs =>
    simp only [val_bind, val_pure, lastC_val, findIdxRd_val, rd_val, dec1_val, takeC_val, levelBeforeC_val]
    simp only [apply_ite Chk.val, val_pure, levelAfterC_val]
    rfl

theorem seqOfRunFastC_val (pl : Nat) (ocs : List BidiClass) (levels : List Nat) (run : Nat × Nat) :
    (seqOfRunFastC pl ocs levels run).val = seqOfRunFast pl ocs levels run := by
  simp only [seqOfRunFastC, seqOfRunFast, val_bind, val_pure, sliceC_val, rd_val, dec1_val,
    levelBeforeC_val, levelAfterC_val]
  rfl

theorem prepStepC_val (ocs : List BidiClass) (st : PrepState) (run : Nat × Nat) :
    (prepStepC ocs st run).val = prepStep ocs st run := by
  simp only [prepStepC, prepStep, val_bind, rd_val, sliceC_val]
  have hpop : popTop st.stack = (st.stack.head!, st.stack.tail) := by
    unfold popTop; cases st.stack <;> rfl
  rw [hpop]
  simp only [apply_ite Chk.val, val_pure]

@[simp] theorem isolatingRunSequencesC_val (pl : Nat) (ocs : List BidiClass) (levels : List Nat)
    (runs : List (Nat × Nat)) (hasIso : Bool) :
    (isolatingRunSequencesC pl ocs levels runs hasIso).val = isolatingRunSequences pl ocs levels runs hasIso := by
  unfold isolatingRunSequencesC isolatingRunSequences
  cases hasIso
  · simp only [Bool.not_false, if_true, val_bind, val_pure, mapC_val _ _ (seqOfRunFastC_val pl ocs levels)]
  · simp only [Bool.not_true, Bool.false_eq_true, if_false, val_bind, val_pure,
      mapC_val _ _ (seqBoundsC_val pl ocs levels), foldlC_val _ _ (prepStepC_val ocs)]



/-! ### `assign_levels_to_removed_chars` -/

/-- the body of the index loop of `assign_levels_to_removed_chars`, on the Model's terms -/
def fillStepM (pl : Nat) (ocs : List BidiClass) (lv : List Nat) (i : Nat) : List Nat :=
  if (ocs.getD i ON).removedByX9 then lv.set i (if i > 0 then lv.getD (i - 1) 0 else pl) else lv

theorem fillRemovedLoop_nil (p : Nat) (lv : List Nat) : fillRemovedLoop p [] lv = lv := by
  cases lv <;> rfl

theorem fill_loop (pl : Nat) (ocsAll : List BidiClass) : ∀ (lv : List Nat) (cs : List BidiClass)
    (pre : List Nat) (prev : Nat),
    (∀ k, ocsAll.getD (pre.length + k) ON = cs.getD k ON) →
    (if pre.length > 0 then pre.getD (pre.length - 1) 0 else pl) = prev →
    (List.range' pre.length lv.length).foldl (fillStepM pl ocsAll) (pre ++ lv) =
      pre ++ fillRemovedLoop prev cs lv
  | [], cs, pre, prev, _, _ => by cases cs <;> simp [fillRemovedLoop]
  | l :: lv, cs, pre, prev, hc, hp => by
    have hc0 : ocsAll.getD pre.length ON = cs.getD 0 ON := by simpa using hc 0
    have hprev : (if pre.length > 0 then (pre ++ l :: lv).getD (pre.length - 1) 0 else pl) = prev := by
      rw [← hp]
      split
      · simp only [List.getD_eq_getElem?_getD]; rw [List.getElem?_append_left (by omega)]
      · rfl
    have hstep : fillStepM pl ocsAll (pre ++ l :: lv) pre.length =
        (pre ++ [if (cs.getD 0 ON).removedByX9 then prev else l]) ++ lv := by
      unfold fillStepM
      rw [hc0, hprev]
      split <;> simp
    simp only [List.length_cons, List.range'_succ, List.foldl_cons, hstep]
    have ih := fill_loop pl ocsAll lv cs.tail (pre ++ [if (cs.getD 0 ON).removedByX9 then prev else l])
      (if (cs.getD 0 ON).removedByX9 then prev else l)
      (by intro k
          have := hc (k + 1)
          simp only [List.length_append, List.length_singleton]
          rw [show pre.length + 1 + k = pre.length + (k + 1) by omega, this]
          cases cs <;> simp)
      (by simp)
    simp only [List.length_append, List.length_singleton] at ih
    rw [ih]
    cases cs with
    | nil => simp [fillRemovedLoop, fillRemovedLoop_nil, BidiClass.removedByX9]
    | cons c cs' => simp [fillRemovedLoop]

@[simp] theorem assignLevelsToRemovedCharsC_val (pl : Nat) (ocs : List BidiClass) (levels : List Nat) :
    (assignLevelsToRemovedCharsC pl ocs levels).val = assignLevelsToRemovedChars pl ocs levels := by
  unfold assignLevelsToRemovedCharsC assignLevelsToRemovedChars
  rw [foldlC_val _ (fillStepM pl ocs) (fun lv i => by
    simp only [val_bind, rd_val, fillStepM]
    simp only [apply_ite Chk.val, val_bind, val_pure, wr_val, rd_val, dec1_val])]
  rw [List.range_eq_range']
  have := fill_loop pl ocs levels ocs [] pl (by simp) rfl
  simpa using this


/-! ### the loop over the sequences -/

@[simp] theorem resolveSequencesC_val (ds : DataSource) (t : Text) (levels : List Nat) (ocs : Classes)
    (seqs : List IRSeq) (pcs : Classes) :
    (resolveSequencesC ds t levels ocs seqs pcs).val = resolveSequences ds t levels ocs seqs pcs := by
  unfold resolveSequencesC resolveSequences
  exact foldlC_val _ _ (fun st seq => by
    simp only [val_bind, val_pure, resolveWeakC_val, resolveNeutralC_val]) seqs _

end UBidi.Checked
