/-
  C11 helpers, part 4: a properly nested block of explicit formatting characters leaves
  the explicit machine where it was, from any reachable state (overflow included).
-/
import UBidi.Lemmas.C11Inv
namespace UBidi.Props.C11
open UBidi UBidi.BidiClass

/-- properly nested class sequences inside one paragraph: plain characters (anything but B,
    RLE, LRE, RLO, LRO, PDF, RLI, LRI, FSI, PDI), concatenations, an embedding or override
    with its PDF, an isolate with its PDI -/
inductive Balanced : List BidiClass → Prop
  | nil : Balanced []
  | plain (c : BidiClass) (h : isPlain c = true) : Balanced [c]
  | append {u v : List BidiClass} : Balanced u → Balanced v → Balanced (u ++ v)
  | emb (e : BidiClass) {w : List BidiClass} (he : isEmb e = true) : Balanced w → Balanced ([e] ++ w ++ [PDF])
  | iso (i : BidiClass) {w : List BidiClass} (hi : i.isIsolateInitiator = true) :
      Balanced w → Balanced ([i] ++ w ++ [PDI])

/-- the machine state: stack, overflow isolate count, overflow embedding count, valid isolate count -/
abbrev MState := List Status × Nat × Nat × Nat

/-- one character, keeping only the machine state -/
def stepState (pl : Nat) (s : MState) (c : BidiClass) : MState :=
  let r := exChar pl s.1 s.2.1 s.2.2.1 s.2.2.2 c
  (r.stack, r.oi, r.oe, r.vi)

/-- fold of `exChar` keeping only the machine state -/
def runState (pl : Nat) (s : MState) (w : List BidiClass) : MState := w.foldl (stepState pl) s

theorem runState_nil (pl : Nat) (s : MState) : runState pl s [] = s := rfl
theorem runState_cons (pl : Nat) (s : MState) (c : BidiClass) (w : List BidiClass) :
    runState pl s (c :: w) = runState pl (stepState pl s c) w := rfl
theorem runState_append (pl : Nat) (s : MState) (u v : List BidiClass) :
    runState pl s (u ++ v) = runState pl (runState pl s u) v := by
  simp [runState, List.foldl_append]

/-- the invariant as a predicate on machine states -/
def MInv (pl : Nat) (s : MState) : Prop := ExInv pl s.1 s.2.1 s.2.2.1 s.2.2.2

theorem stepState_inv {pl : Nat} {s : MState} (h : MInv pl s) (c : BidiClass) : MInv pl (stepState pl s c) := by
  obtain ⟨st, oi, oe, vi⟩ := s
  obtain ⟨last, rest, rfl⟩ := ExInv.cons h
  exact (inv_step_cons h c).1

theorem runState_inv {pl : Nat} : ∀ (w : List BidiClass) {s : MState}, MInv pl s → MInv pl (runState pl s w)
  | [], _, h => h
  | c :: w, _, h => runState_inv w (stepState_inv h c)

theorem balance_aux {pl : Nat} {w : List BidiClass} (hw : Balanced w) :
    ∀ (s : MState), MInv pl s → runState pl s w = s := by
  induction hw with
  | nil => intro s _; rfl
  | plain c hc =>
    rintro ⟨st, oi, oe, vi⟩ h
    obtain ⟨last, rest, rfl⟩ := ExInv.cons h
    simp only [runState_cons, runState_nil, stepState, exChar_plain hc]
  | append _ _ ihu ihv =>
    intro s h
    rw [runState_append, ihu s h, ihv s h]
  | @emb e w he _ ih =>
    rintro ⟨st, oi, oe, vi⟩ h
    obtain ⟨last, rest, rfl⟩ := ExInv.cons h
    have h1 := stepState_inv h e
    rw [List.append_assoc, List.singleton_append, runState_cons, runState_append, ih _ h1]
    simp only [runState_cons, runState_nil]
    by_cases h0 : oi = 0 ∧ oe = 0
    · obtain ⟨rfl, rfl⟩ := h0
      cases hnl : nextLevel e last.level with
      | none =>
        have hx := exChar_emb_overflow (pl := pl) (rest := rest) (oi := 0) (oe := 0) (vi := vi) he (Or.inl hnl)
        simp only [stepState, hx, if_true]
        rw [exChar_PDF_dec (by omega)]
      | some nl =>
        have hx := exChar_emb_push (pl := pl) (rest := rest) (vi := vi) he hnl
        simp only [stepState, hx]
        rw [exChar_PDF_pop (pushStatus_emb he)]
    · by_cases hoi : oi = 0
      · subst hoi
        have hx := exChar_emb_overflow (pl := pl) (last := last) (rest := rest) (oi := 0) (oe := oe) (vi := vi) he
          (Or.inr (Or.inr (by omega)))
        simp only [stepState, hx, if_true]
        rw [exChar_PDF_dec (by omega)]; rfl
      · have hx := exChar_emb_overflow (pl := pl) (last := last) (rest := rest) (oi := oi) (oe := oe) (vi := vi) he
          (Or.inr (Or.inl hoi))
        simp only [stepState, hx, if_neg hoi]
        rw [exChar_PDF_ignored (Or.inl (by omega))]
  | @iso i w hi _ ih =>
    rintro ⟨st, oi, oe, vi⟩ h
    obtain ⟨last, rest, rfl⟩ := ExInv.cons h
    have h1 := stepState_inv h i
    rw [List.append_assoc, List.singleton_append, runState_cons, runState_append, ih _ h1]
    simp only [runState_cons, runState_nil]
    by_cases h0 : oi = 0 ∧ oe = 0
    · obtain ⟨rfl, rfl⟩ := h0
      cases hnl : nextLevel i last.level with
      | none =>
        have hx := exChar_iso_overflow (pl := pl) (rest := rest) (oi := 0) (oe := 0) (vi := vi) hi (Or.inl hnl)
        simp only [stepState, hx]
        rw [exChar_PDI_overflow (by omega)]
      | some nl =>
        have hx := exChar_iso_push (pl := pl) (rest := rest) (vi := vi) hi hnl
        simp only [stepState, hx]
        rw [exChar_PDI_pop (l' := last) (r' := rest) (by omega) (by simp [popThroughIsolate])]; rfl
    · have hx := exChar_iso_overflow (pl := pl) (last := last) (rest := rest) (oi := oi) (oe := oe) (vi := vi) hi
        (Or.inr (by omega))
      simp only [stepState, hx]
      rw [exChar_PDI_overflow (by omega)]; rfl

end UBidi.Props.C11
