/-
  UBidi.Lemmas.ExpandNeutralN12 — Expand lemmas for `resolveLevels` (I1/I2),
  `assignLevelsToRemovedChars`, and the N1/N2 fold `n12`.
-/
import UBidi.Lemmas.ExpandNeutralScan
namespace UBidi.Expand.Neutral
open UBidi UBidi.BidiClass

/-! ### `expandL` and `map`, `zip` -/

theorem expandL_nil_right {α} (segs : List Seg) : expandL segs ([] : List α) = [] := by
  simp [expandL]

theorem expandL_nil_left {α} (xs : List α) : expandL [] xs = [] := by
  simp [expandL]

theorem expandL_map {α β} (g : α → β) : ∀ (segs : List Seg) (xs : List α),
    expandL segs (xs.map g) = (expandL segs xs).map g
  | [], xs => by simp [expandL_nil_left]
  | s :: segs, [] => by simp [expandL_nil_right]
  | s :: segs, x :: xs => by
    rw [List.map_cons, expandL_cons, expandL_cons, expandL_map g segs xs, List.map_append, List.map_replicate]

theorem expandL_zip {α β} : ∀ (segs : List Seg) (xs : List α) (ys : List β),
    expandL segs (xs.zip ys) = (expandL segs xs).zip (expandL segs ys)
  | [], xs, ys => by simp [expandL_nil_left]
  | s :: segs, [], ys => by simp [expandL_nil_right]
  | s :: segs, x :: xs, [] => by simp [expandL_nil_right]
  | s :: segs, x :: xs, y :: ys => by
    rw [List.zip_cons_cons, expandL_cons, expandL_cons, expandL_cons, expandL_zip segs xs ys,
      List.zip_append (by simp), List.zip_replicate']

theorem segsFrom_len_pos {p e : Nat} {segs : List Seg} (h : SegsFrom p segs e) : ∀ s ∈ segs, 0 < s.len := by
  induction segs generalizing p with
  | nil => simp
  | cons s ss ih =>
    obtain ⟨_, h2, h3⟩ := h
    intro s' hs'
    rcases List.mem_cons.1 hs' with rfl | hs'
    · exact h2
    · exact ih h3 s' hs'

/-! ### `resolveLevels` -/

theorem orErr_idem (e x : Option Panic) : orErr (orErr e x) x = orErr e x := by
  cases e <;> cases x <;> rfl

theorem foldl_orErr_replicate {α} (g : α → Option Panic) (r : α) : ∀ (m : Nat) (e : Option Panic),
    (List.replicate (m + 1) r).foldl (fun e r => orErr e (g r)) e = orErr e (g r)
  | 0, e => rfl
  | m + 1, e => by
    rw [List.replicate_succ, List.foldl_cons, foldl_orErr_replicate g r m, orErr_idem]

theorem foldl_orErr_expandL {α} (g : α → Option Panic) : ∀ (segs : List Seg) (rs : List α) (e : Option Panic),
    (∀ s ∈ segs, 0 < s.len) → rs.length = segs.length →
    (expandL segs rs).foldl (fun e r => orErr e (g r)) e = rs.foldl (fun e r => orErr e (g r)) e
  | [], [], _, _, _ => rfl
  | [], _ :: _, _, _, hl => by simp at hl
  | _ :: _, [], _, _, hl => by simp at hl
  | s :: segs, r :: rs, e, hp, hl => by
    have hs : 0 < s.len := hp s (by simp)
    obtain ⟨m, hm⟩ : ∃ m, s.len = m + 1 := ⟨s.len - 1, by omega⟩
    rw [expandL_cons, List.foldl_append, hm, foldl_orErr_replicate g r m, List.foldl_cons,
      foldl_orErr_expandL g segs rs _ (fun s' hs' => hp s' (by simp [hs'])) (by simpa using hl)]

end UBidi.Expand.Neutral
namespace UBidi.Expand
open Neutral

/-- **I1/I2 do not depend on the number of units of a character.** -/
theorem resolveLevels_expand (t : Text) (hwf : t.WF) (pcs1 : List BidiClass) (lv1 : List Nat)
    (hl : pcs1.length = t.segs.length ∧ lv1.length = t.segs.length) :
    resolveLevels (expand t pcs1) (expand t lv1)
      = (expand t (resolveLevels pcs1 lv1).1, (resolveLevels pcs1 lv1).2) := by
  unfold resolveLevels
  simp only [length_expand t hwf pcs1 hl.1, length_expand t hwf lv1 hl.2, hl.1, hl.2, if_true]
  simp only [expand_eq, ← expandL_zip, ← expandL_map]
  congr 1
  exact foldl_orErr_expandL (fun r : Nat × Option Panic => r.2) t.segs _ none
    (segsFrom_len_pos hwf.tiles) (by simp [hl.1, hl.2])

end UBidi.Expand
namespace UBidi.Expand.Neutral

/-! ### `assignLevelsToRemovedChars` -/

theorem fill_replicate (c : BidiClass) (l : Nat) (A : List BidiClass) (B : List Nat) : ∀ (m prev : Nat),
    fillRemovedLoop prev (List.replicate (m + 1) c ++ A) (List.replicate (m + 1) l ++ B) =
      List.replicate (m + 1) (if c.removedByX9 then prev else l) ++
        fillRemovedLoop (if c.removedByX9 then prev else l) A B
  | 0, prev => by simp [fillRemovedLoop]
  | m + 1, prev => by
    rw [List.replicate_succ (n := m + 1), List.replicate_succ (n := m + 1), List.cons_append, List.cons_append,
      fillRemovedLoop, fill_replicate c l A B m]
    cases c.removedByX9 <;> simp [List.replicate_succ]

theorem fill_expandL : ∀ (segs : List Seg) (ocs : List BidiClass) (lvs : List Nat) (prev : Nat),
    (∀ s ∈ segs, 0 < s.len) → ocs.length = segs.length → lvs.length = segs.length →
    fillRemovedLoop prev (expandL segs ocs) (expandL segs lvs) = expandL segs (fillRemovedLoop prev ocs lvs)
  | [], _, _, _, _, _, _ => by simp [expandL_nil_left, fillRemovedLoop]
  | _ :: _, [], _, _, _, h, _ => by simp at h
  | _ :: _, _ :: _, [], _, _, _, h => by simp at h
  | s :: segs, c :: ocs, l :: lvs, prev, hp, h1, h2 => by
    have hs : 0 < s.len := hp s (by simp)
    obtain ⟨m, hm⟩ : ∃ m, s.len = m + 1 := ⟨s.len - 1, by omega⟩
    rw [expandL_cons, expandL_cons, hm, fill_replicate c l _ _ m prev, fillRemovedLoop, expandL_cons, hm,
      fill_expandL segs ocs lvs _ (fun s' hs' => hp s' (by simp [hs'])) (by simpa using h1) (by simpa using h2)]

end UBidi.Expand.Neutral
namespace UBidi.Expand
open Neutral

/-- **The fill of the removed characters does not depend on the number of units of a character.** -/
theorem fill_expand (t : Text) (hwf : t.WF) (pl : Nat) (ocs1 : List BidiClass) (lv1 : List Nat)
    (hl : ocs1.length = t.segs.length ∧ lv1.length = t.segs.length) :
    assignLevelsToRemovedChars pl (expand t ocs1) (expand t lv1)
      = expand t (assignLevelsToRemovedChars pl ocs1 lv1) :=
  fill_expandL t.segs ocs1 lv1 pl (segsFrom_len_pos hwf.tiles) hl.1 hl.2

end UBidi.Expand
namespace UBidi.Expand.Neutral

/-! ### N1/N2 -/

theorem n12Step_NI (e : BidiClass) (st : N12State) (i : Nat) (h : isNIorBN (cget st.pcs i) = true) :
    n12Step e st i = { st with pending := st.pending ++ [i] } := by
  simp [n12Step, h]

theorem n12Step_strong (e : BidiClass) (st : N12State) (i : Nat) (h : isNIorBN (cget st.pcs i) = false) :
    n12Step e st i = { pcs := setAll st.pcs st.pending (n12Class st.prev (cget st.pcs i) e),
                       prev := cget st.pcs i, pending := [] } := by
  obtain ⟨pcs, prev, pending⟩ := st
  cases pending <;> simp_all [n12Step, setAll]

theorem n12_block_NI (e : BidiClass) : ∀ (blk : List Nat) (st : N12State),
    (∀ u ∈ blk, isNIorBN (cget st.pcs u) = true) →
    blk.foldl (n12Step e) st = { st with pending := st.pending ++ blk }
  | [], st, _ => by simp
  | u :: blk, st, h => by
    rw [List.foldl_cons, n12Step_NI e st u (h u (by simp)),
      n12_block_NI e blk { st with pending := st.pending ++ [u] } (fun u' hu' => h u' (by simp [hu']))]
    simp

theorem n12_block_same (e : BidiClass) (c : BidiClass) (hc : isNIorBN c = false) : ∀ (blk : List Nat) (st : N12State),
    st.pending = [] → st.prev = c → (∀ u ∈ blk, cget st.pcs u = c) → blk.foldl (n12Step e) st = st
  | [], _, _, _, _ => rfl
  | u :: blk, st, h1, h2, h3 => by
    have hu := h3 u (by simp)
    have : n12Step e st u = st := by
      rw [n12Step_strong e st u (by rw [hu]; exact hc), h1, hu, ← h2]
      obtain ⟨pcs, prev, pending⟩ := st
      simp only at h1; subst h1; rfl
    rw [List.foldl_cons, this]
    exact n12_block_same e c hc blk st h1 h2 (fun u' hu' => h3 u' (by simp [hu']))

theorem n12_block_strong (e : BidiClass) (c : BidiClass) (hc : isNIorBN c = false) (u : Nat) (blk : List Nat)
    (st : N12State) (h : ∀ u' ∈ u :: blk, cget st.pcs u' = c ∧ u' ∉ st.pending) :
    (u :: blk).foldl (n12Step e) st =
      { pcs := setAll st.pcs st.pending (n12Class st.prev c e), prev := c, pending := [] } := by
  have hu := h u (by simp)
  rw [List.foldl_cons, n12Step_strong e st u (by rw [hu.1]; exact hc), hu.1]
  apply n12_block_same e c hc blk _ rfl rfl
  intro u' hu'
  have := h u' (by simp [hu'])
  simp only
  rw [cget_setAll_not_mem _ _ _ this.2, this.1]

/-- the unit-level image of a per-character N1/N2 state -/
def liftN12 (t : Text) (f : Nat → List Nat) (st : N12State) : N12State :=
  { pcs := expand t st.pcs, prev := st.prev, pending := st.pending.flatMap f }

/-- invariant of the per-character state -/
structure N12Inv (t : Text) (f : Nat → List Nat) (st : N12State) : Prop where
  len : st.pcs.length = t.segs.length
  pend : WalkOK t f st.pending
  ni : ∀ k ∈ st.pending, isNIorBN (cget st.pcs k) = true

theorem n12Step_inv (t : Text) (f : Nat → List Nat) (e : BidiClass) (st : N12State) (k : Nat)
    (hk : k < t.segs.length ∧ Block t k (f k)) (hi : N12Inv t f st) : N12Inv t f (n12Step e st k) := by
  cases hc : isNIorBN (cget st.pcs k)
  · rw [n12Step_strong e st k hc]
    exact ⟨by simp only; rw [length_setAll]; exact hi.len, by intro k' hk'; simp at hk', by intro k' hk'; simp at hk'⟩
  · rw [n12Step_NI e st k hc]
    refine ⟨hi.len, ?_, ?_⟩
    · intro k' hk'
      simp only [List.mem_append, List.mem_singleton] at hk'
      rcases hk' with h | rfl
      · exact hi.pend k' h
      · exact hk
    · intro k' hk'
      simp only [List.mem_append, List.mem_singleton] at hk'
      rcases hk' with h | rfl
      · exact hi.ni k' h
      · exact hc

theorem n12_char (t : Text) (hwf : t.WF) (f : Nat → List Nat) (e : BidiClass) (st : N12State) (k : Nat)
    (hk : k < t.segs.length ∧ Block t k (f k)) (hi : N12Inv t f st) :
    (f k).foldl (n12Step e) (liftN12 t f st) = liftN12 t f (n12Step e st k) := by
  obtain ⟨hk, hb⟩ := hk
  have hcg : ∀ u ∈ f k, cget (expand t st.pcs) u = cget st.pcs k :=
    fun u hu => cget_block t hwf st.pcs hi.len hk hb hu
  cases hc : isNIorBN (cget st.pcs k)
  · obtain ⟨u, r, hur⟩ := hb.ne_nil hwf hk
    rw [n12Step_strong e st k hc, hur, n12_block_strong e (cget st.pcs k) hc u r]
    · simp only [liftN12, List.flatMap_nil]
      rw [setAll_walk t hwf f _ st.pending st.pcs hi.len hi.pend]
    · intro u' hu'
      rw [← hur] at hu'
      refine ⟨hcg u' hu', ?_⟩
      simp only [liftN12, List.mem_flatMap, not_exists, not_and]
      intro k' hk' hmem
      obtain ⟨j, hj, rfl⟩ := hb.unit hu'
      obtain ⟨j', hj', hjj⟩ := (hi.pend k' hk').2.unit hmem
      have := unit_inj t hwf hk hj (hi.pend k' hk').1 hj' hjj
      subst this
      have := hi.ni k hk'
      rw [hc] at this; exact absurd this (by simp)
  · rw [n12Step_NI e st k hc, n12_block_NI e (f k) _ (by
      intro u hu; simp only [liftN12]; rw [hcg u hu]; exact hc)]
    simp [liftN12, List.flatMap_append]

theorem n12_fold_walk (t : Text) (hwf : t.WF) (f : Nat → List Nat) (e : BidiClass) :
    ∀ (ks : List Nat) (st : N12State), WalkOK t f ks → N12Inv t f st →
      (ks.flatMap f).foldl (n12Step e) (liftN12 t f st) = liftN12 t f (ks.foldl (n12Step e) st) ∧
      N12Inv t f (ks.foldl (n12Step e) st)
  | [], st, _, hi => ⟨rfl, hi⟩
  | k :: ks, st, hw, hi => by
    rw [List.flatMap_cons, List.foldl_append, n12_char t hwf f e st k (hw k (by simp)) hi, List.foldl_cons]
    exact n12_fold_walk t hwf f e ks _ hw.tail (n12Step_inv t f e st k (hw k (by simp)) hi)

theorem n12_finish (seq : IRSeq) (e : BidiClass) (pcs : Classes) :
    n12 seq e pcs =
      let st := seq.indices.foldl (n12Step e) { pcs := pcs, prev := seq.sos }
      setAll st.pcs st.pending (n12Class st.prev seq.eos e) := by
  unfold n12
  simp only
  split
  · next h => rw [h]; rfl
  · rfl

end UBidi.Expand.Neutral
