/-
  C05 helper lemmas, part 2: one L2 pass on code units equals one pass on runs plus a flip of
  every run inside a reversed group; the outer loops; cancellation of the extra passes.
-/
import UBidi.Lemmas.C05Groups
import UBidi.Props.C19
namespace UBidi.Lemmas.C05
open UBidi

/-- the code units of a run, in logical order -/
def units (r : Nat × Nat) : List Nat := List.range' r.1 (r.2 - r.1)

/-- the code units of a run, reversed when the run is flagged -/
def render (fl : Nat × Nat → Bool) (r : Nat × Nat) : List Nat :=
  if fl r then (units r).reverse else units r

/-- one pass of L2 for level `k` on code units -/
def passU (ul : Nat → Nat) (k : Nat) (U : List Nat) : List Nat :=
  revG (fun u => decide (ul u ≥ k)) [] U

/-- one pass of the Model's loop for level `k` on runs -/
def passR (lev : Nat × Nat → Nat) (k : Nat) (R : List (Nat × Nat)) : List (Nat × Nat) :=
  revG (fun r => decide (lev r ≥ k)) [] R

/-- One pass on units = one pass on runs, flipping the runs in the reversed groups. -/
theorem onePass (pu : Nat → Bool) (pr : Nat × Nat → Bool) (f f' : Nat × Nat → Bool)
    (R : List (Nat × Nat))
    (hne : ∀ r ∈ R, units r ≠ [])
    (hpu : ∀ r ∈ R, ∀ u ∈ units r, pu u = pr r)
    (hf : ∀ r ∈ R, f' r = (if pr r then !f r else f r)) (acc : List (Nat × Nat)) :
    revG pu (acc.flatMap (render f')) (R.flatMap (render f)) = (revG pr acc R).flatMap (render f') := by
  induction R generalizing acc with
  | nil => rfl
  | cons r rs ih =>
    have ih' := fun acc => ih (fun x hx => hne x (by simp [hx])) (fun x hx => hpu x (by simp [hx]))
      (fun x hx => hf x (by simp [hx])) acc
    have hr := hf r (by simp)
    have hu := hpu r (by simp)
    have hn := hne r (by simp)
    have hmem : ∀ u ∈ render f r, u ∈ units r := by
      intro u; unfold render; split <;> simp
    rw [List.flatMap_cons]
    by_cases hp : pr r = true
    · rw [revG_all pu (render f r) (fun u h => by rw [hu u (hmem u h)]; exact hp)]
      simp only [revG, hp, if_true]
      rw [← ih' (r :: acc), List.flatMap_cons]
      congr 1
      simp only [hp, if_true] at hr
      unfold render
      rw [hr]
      cases f r <;> simp
    · have hp' : pr r = false := by simpa using hp
      have hne' : render f r ≠ [] := by
        unfold render; split <;> simpa using hn
      rw [revG_none pu (render f r) (fun u h => by rw [hu u (hmem u h)]; exact hp') hne']
      simp only [revG, hp']
      have := ih' []
      simp only [List.flatMap_nil] at this
      rw [this]
      simp only [hp'] at hr
      simp [List.flatMap_append, List.flatMap_cons, render, hr]

/-- the flip state of a run after the passes for the levels above `k` and `k` itself:
    a run of level `ℓ ≥ k` has been flipped `ℓ - k + 1` times -/
def flag (lev : Nat × Nat → Nat) (k : Nat) (r : Nat × Nat) : Bool :=
  decide (k ≤ lev r ∧ (lev r - k) % 2 = 0)

theorem flag_step (lev : Nat × Nat → Nat) (k : Nat) (r : Nat × Nat) :
    flag lev k r = (if decide (lev r ≥ k) then !flag lev (k + 1) r else flag lev (k + 1) r) := by
  unfold flag
  by_cases h : k ≤ lev r
  · by_cases h1 : k + 1 ≤ lev r
    · by_cases h2 : (lev r - k) % 2 = 0
      · have : ¬ (lev r - (k + 1)) % 2 = 0 := by omega
        simp [h, h1, h2, this]
      · have : (lev r - (k + 1)) % 2 = 0 := by omega
        simp [h, h1, h2, this]
    · have : lev r - k = 0 := by omega
      simp [h, h1, this]
  · have h1 : ¬ k + 1 ≤ lev r := by omega
    simp [h, h1]

theorem flag_top (lev : Nat × Nat → Nat) (hi : Nat) (r : Nat × Nat) (h : lev r ≤ hi) :
    flag lev (hi + 1) r = false := by
  unfold flag
  have : ¬ hi + 1 ≤ lev r := by omega
  simp [this]

theorem render_false (fl : Nat × Nat → Bool) (r : Nat × Nat) (h : fl r = false) :
    render fl r = units r := by
  simp [render, h]

theorem flatMap_congr' {α β} (f g : α → List β) (l : List α) (h : ∀ x ∈ l, f x = g x) :
    l.flatMap f = l.flatMap g := by
  induction l with
  | nil => rfl
  | cons x xs ih =>
    rw [List.flatMap_cons, List.flatMap_cons, h x (by simp), ih (fun y hy => h y (by simp [hy]))]

/-- the loops: after `n` passes (levels `hi, hi-1, …, hi-n+1`) the unit order is the run order
    with the flags of level `hi+1-n` -/
theorem foldInv (ul : Nat → Nat) (lev : Nat × Nat → Nat) (hi : Nat) (R0 : List (Nat × Nat))
    (hne : ∀ r ∈ R0, units r ≠ [])
    (hul : ∀ r ∈ R0, ∀ u ∈ units r, ul u = lev r)
    (hhi : ∀ r ∈ R0, lev r ≤ hi) (n : Nat) (hn : n ≤ hi + 1) :
    let Rn := (List.range n).foldl (fun R d => passR lev (hi - d) R) R0
    Rn.Perm R0 ∧
    (List.range n).foldl (fun U d => passU ul (hi - d) U) (R0.flatMap units)
      = Rn.flatMap (render (flag lev (hi + 1 - n))) := by
  induction n with
  | zero =>
    refine ⟨List.Perm.refl _, ?_⟩
    simp only [List.range_zero, List.foldl_nil]
    exact flatMap_congr' _ _ _ (fun r hr => (render_false _ r (flag_top lev hi r (hhi r hr))).symm)
  | succ n ih =>
    obtain ⟨hperm, heq⟩ := ih (by omega)
    simp only [List.range_succ, List.foldl_append, List.foldl_cons, List.foldl_nil]
    generalize (List.range n).foldl (fun R d => passR lev (hi - d) R) R0 = Rn at hperm heq
    refine ⟨?_, ?_⟩
    · have := revG_perm (fun r => decide (lev r ≥ hi - n)) [] Rn
      simp only [List.nil_append] at this
      exact this.trans hperm
    · rw [heq]
      have hk : hi + 1 - n = (hi - n) + 1 := by omega
      have hk' : hi + 1 - (n + 1) = hi - n := by omega
      rw [hk, hk']
      have hmem : ∀ r ∈ Rn, r ∈ R0 := fun r hr => hperm.subset hr
      have := onePass (fun u => decide (ul u ≥ hi - n)) (fun r => decide (lev r ≥ hi - n))
        (flag lev (hi - n + 1)) (flag lev (hi - n)) Rn
        (fun r hr => hne r (hmem r hr))
        (fun r hr u hu => by rw [hul r (hmem r hr) u hu])
        (fun r _ => flag_step lev (hi - n) r) []
      simpa [passU, passR] using this

/-- two passes whose predicates agree cancel -/
theorem passU_cancel (ul : Nat → Nat) (k : Nat) (h : ∀ u, ul u ≠ k) (U : List Nat) :
    passU ul k (passU ul (k + 1) U) = U := by
  have : (fun u => decide (ul u ≥ k + 1)) = (fun u => decide (ul u ≥ k)) := by
    funext u
    have := h u
    by_cases h1 : ul u ≥ k
    · have : ul u ≥ k + 1 := by omega
      simp [h1, this]
    · have : ¬ ul u ≥ k + 1 := by omega
      simp [h1, this]
  unfold passU
  rw [this, revG_invol]

/-- an even number of passes below which no odd level occurs cancel -/
theorem passes_cancel (ul : Nat → Nat) (m : Nat) (hm : m % 2 = 1) (j : Nat)
    (h : ∀ u, ul u % 2 = 1 → m ≤ ul u → m + 2 * j ≤ ul u) (U : List Nat) :
    (List.range (2 * j)).foldl (fun U d => passU ul (m + 2 * j - 1 - d) U) U = U := by
  induction j generalizing U with
  | zero => rfl
  | succ j ih =>
    have e : 2 * (j + 1) = 2 + 2 * j := by omega
    rw [e, List.range_add, List.foldl_append, List.foldl_map]
    have e2 : List.range 2 = [0, 1] := rfl
    simp only [e2, List.foldl_cons, List.foldl_nil]
    have hk : m + (2 + 2 * j) - 1 - 0 = (m + 2 * j) + 1 := by omega
    have hk' : m + (2 + 2 * j) - 1 - 1 = m + 2 * j := by omega
    rw [hk, hk', passU_cancel ul (m + 2 * j)
      (fun u hu => by have := h u (by omega) (by omega); omega)]
    have := ih (fun u h1 h2 => by have := h u h1 h2; omega) U
    have e3 : ∀ d, m + (2 + 2 * j) - 1 - (2 + d) = m + 2 * j - 1 - d := by intro d; omega
    simp only [e3]
    exact this

/-- the Model's `while` loop is the fold of its passes over `hi, hi-1, …, m` and cannot fail -/
theorem l2RunsLoop_eq (lv : List Nat) (m : Nat) (hm : 1 ≤ m) (fuel hi : Nat) (hf : fuel = hi + 1)
    (R : List (Nat × Nat)) :
    l2RunsLoop lv m fuel hi R
      = ((List.range (hi + 1 - m)).foldl (fun R d => passR (fun r => lv.getD r.1 0) (hi - d) R) R,
         none) := by
  induction fuel generalizing hi R with
  | zero => omega
  | succ fuel ih =>
    unfold l2RunsLoop
    by_cases h : hi ≥ m
    · simp only [h, if_true]
      have hl : Level.lower hi 1 = some (hi - 1) := by
        rw [UBidi.Props.C19.lower_spec]; simp; omega
      simp only [hl]
      rw [ih (hi - 1) (by omega)]
      have e : hi + 1 - m = 1 + (hi - 1 + 1 - m) := by omega
      rw [e, List.range_add, List.foldl_append, List.foldl_map]
      have e1 : List.range 1 = [0] := rfl
      simp only [e1, List.foldl_cons, List.foldl_nil, Nat.sub_zero]
      have e3 : ∀ d, hi - (1 + d) = hi - 1 - d := by intro d; omega
      simp only [e3, passR, revGroups_eq]
    · have e : hi + 1 - m = 0 := by omega
      simp [h, e]

end UBidi.Lemmas.C05
