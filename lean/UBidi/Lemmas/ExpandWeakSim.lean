/-
  UBidi.Lemmas.ExpandWeakSim — the simulation: processing the units of one
  character at the unit level corresponds to one character-level `weakStep`.
-/
import UBidi.Lemmas.ExpandWeakStep
namespace UBidi.Expand.Weak
open UBidi UBidi.Expand BidiClass

/-- the unit-level state `S` corresponds to the character-level state `s`; the
    units `≥ j` of character `k` have not been processed yet and still hold `c`. -/
structure RS (t : Text) (S s : WState) (k j : Nat) (c : BidiClass) : Prop where
  pcs : Rp t S.pcs s.pcs k j c
  w1 : S.prevW1 = s.prevW1
  w4 : S.prevW4 = s.prevW4
  w5 : S.prevW5 = s.prevW5
  al : S.lastStrongIsAL = s.lastStrongIsAL
  et : S.etRun = s.etRun.flatMap (unitsT t k j)
  bn : S.bnRun = s.bnRun.flatMap (unitsT t k j)

theorem unitsT_full_fun (t : Text) (k : Nat) : unitsT t k (ulen t k) = units t := by
  funext k'; exact unitsT_full k k'

theorem RS_full_change {t : Text} {S s : WState} {k : Nat} {c : BidiClass}
    (h : RS t S s k (ulen t k) c) (k2 : Nat) (c2 : BidiClass) : RS t S s k2 (ulen t k2) c2 := by
  have he := h.et
  have hb := h.bn
  rw [unitsT_full_fun] at he hb
  exact ⟨Rp_full_change h.pcs (Nat.le_refl _) k2 _ c2 (Nat.le_refl _), h.w1, h.w4, h.w5, h.al,
    by rw [unitsT_full_fun]; exact he, by rw [unitsT_full_fun]; exact hb⟩

/-! ### a BN character -/

theorem bn_fold (cl : Nat → Option Nat) (seq : IRSeq) (ri : Nat) : ∀ (us : List Nat) (S : WState),
    (∀ u ∈ us, cget S.pcs u = BN) →
    (us.map (fun i => (ri, i))).foldl (weakStep cl seq) S = { S with bnRun := S.bnRun ++ us }
  | [], St, _ => by simp
  | u :: us, St, h => by
    rw [List.map_cons, List.foldl_cons, weakStep_eq,
      if_pos (by rw [h u List.mem_cons_self]; rfl)]
    rw [bn_fold cl seq ri us { St with bnRun := St.bnRun ++ [u] }
      (fun u' hu' => h u' (List.mem_cons_of_mem _ hu'))]
    simp

section
variable {t : Text} (hp : PosOK t)
include hp

omit hp in
theorem bn_char (cl : Nat → Option Nat) (seq' seq : IRSeq) (ri k : Nat) {S s : WState} {c : BidiClass}
    (h : RS t S s k (ulen t k) c) (hk : k < t.segs.length) (hb : cget s.pcs k = BN) :
    RS t (((units t k).map (fun i => (ri, i))).foldl (weakStep cl seq') S)
      (weakStep (fun _ => some 1) seq s (ri, k)) k (ulen t k) c := by
  rw [weakStep_eq, if_pos (by rw [hb]; rfl), bn_fold]
  · refine ⟨h.pcs, h.w1, h.w4, h.w5, h.al, h.et, ?_⟩
    simp only [List.flatMap_append, List.flatMap_cons, List.flatMap_nil, List.append_nil]
    rw [← h.bn, unitsT_full]
  · intro u hu
    obtain ⟨j', hj', rfl⟩ := mem_units.1 hu
    rw [Rp_get h.pcs hk hj' (Or.inr hj'), hb]

/-! ### the first unit of a non-BN character -/

theorem nxf_sim {n : Nat} {seq : IRSeq} (hseq : SeqOK n seq) (hn : n = t.segs.length) {ri k : Nat}
    (hv : Valid seq (ri, k)) {P p : Classes} {c0 : BidiClass} (hR : Rp t P p k 1 c0) (al : Bool) :
    nxf (mapSeq t seq) al P ri (pos t k + ulen t k) = nxf seq al p ri (k + 1) := by
  unfold nxf
  rw [iterForwards_mapSeq hp hseq hv,
    find_walk hp hR (units t) _ (fun hm => by have := (mem_iterForwards hseq hv hm).1; omega)
      (fun k' hk' => by have := (mem_iterForwards hseq hv hk').2; omega)
      (fun k' _ => enum_units k') notRemoved]
  rfl

theorem sepP_sim {n : Nat} {seq : IRSeq} (hseq : SeqOK n seq) (hn : n = t.segs.length) {ri k : Nat}
    (hv : Valid seq (ri, k)) {P p : Classes} {c0 : BidiClass} (hR : Rp t P p k 1 c0)
    (p4 c2 : BidiClass) (al : Bool) :
    Rp t (sepP (mapSeq t seq) p4 al P c2 ri (pos t k) (ulen t k)) (sepP seq p4 al p c2 ri k 1) k 1 c0 := by
  have hk : k < t.segs.length := by have := Valid.lt hseq hv; omega
  unfold sepP
  rw [nxf_sim hp hseq hn hv hR]
  have hset := Rp_set_first hp hR hk (c3f p4 c2 (nxf seq al p ri (k + 1)))
  split
  · rw [iterForwards_mapSeq hp hseq hv, iterBackwards_mapSeq hp hseq hv]
    apply Rp_setWhileBN hp _ (units t) _
      (fun hm => by have := (mem_iterForwards hseq hv hm).1; omega)
      (fun k' hk' => by have := (mem_iterForwards hseq hv hk').2; omega)
      (fun k' _ => enum_units k') ON
    exact Rp_setWhileBN hp hset (fun k' => (units t k').reverse) _
      (fun hm => by have := mem_iterBackwards hseq hv hm; omega)
      (fun k' hk' => by have := mem_iterBackwards hseq hv hk'; omega)
      (fun k' _ => enum_units_rev k') ON
  · exact hset

theorem w456_sim {n : Nat} {seq : IRSeq} (hseq : SeqOK n seq) (hn : n = t.segs.length) {ri k : Nat}
    (hv : Valid seq (ri, k)) {P p : Classes} {c0 : BidiClass} (hR : Rp t P p k 1 c0)
    (p4 p5 : BidiClass) (al : Bool) (et bn : List Nat) (c2 : BidiClass) (het : k ∉ et) (hbn : k ∉ bn) :
    Rp t (w456f (fun i => (t.charAt i).map (·.len)) (mapSeq t seq) p4 p5 al (et.flatMap (units t))
            (bn.flatMap (units t)) P c2 ri (pos t k)).1
         (w456f (fun _ => some 1) seq p4 p5 al et bn p c2 ri k).1 k 1 c0 ∧
    (w456f (fun i => (t.charAt i).map (·.len)) (mapSeq t seq) p4 p5 al (et.flatMap (units t))
            (bn.flatMap (units t)) P c2 ri (pos t k)).2
      = (w456f (fun _ => some 1) seq p4 p5 al et bn p c2 ri k).2.flatMap (unitsT t k 1) := by
  have hk : k < t.segs.length := by have := Valid.lt hseq hv; omega
  have hE : et.flatMap (unitsT t k 1) = et.flatMap (units t) := flatMap_unitsT_of_not_mem het
  have hB : bn.flatMap (unitsT t k 1) = bn.flatMap (units t) := flatMap_unitsT_of_not_mem hbn
  by_cases hEN : c2 = EN
  · rw [hEN, w456f_EN, w456f_EN]
    exact ⟨Rp_setAll hp hR et het EN, rfl⟩
  by_cases hsep : c2 = ES ∨ c2 = CS
  · rw [w456f_sep_some _ _ _ _ _ _ _ _ _ _ hsep (charLen_first hp hk),
      w456f_sep_some (fun _ => some 1) _ _ _ _ _ _ _ _ _ hsep rfl]
    exact ⟨sepP_sim hp hseq hn hv hR p4 c2 al, hE.symm⟩
  by_cases hET : c2 = ET
  · by_cases h5 : p5 = EN
    · rw [hET, h5, w456f_ET_EN, w456f_ET_EN]
      exact ⟨Rp_set_first hp hR hk EN, hE.symm⟩
    · rw [hET, w456f_ET_ne _ _ _ _ _ _ _ _ _ h5, w456f_ET_ne _ _ _ _ _ _ _ _ _ h5]
      refine ⟨hR, ?_⟩
      simp only [List.flatMap_append, List.flatMap_cons, List.flatMap_nil, List.append_nil, hE, hB]
      congr 1
      unfold unitsT; rw [if_pos rfl]; rfl
  · have hne : c2 ≠ ES ∧ c2 ≠ CS :=
      ⟨fun h => hsep (Or.inl h), fun h => hsep (Or.inr h)⟩
    rw [w456f_other _ _ _ _ _ _ _ _ _ _ hEN hne.1 hne.2 hET,
      w456f_other _ _ _ _ _ _ _ _ _ _ hEN hne.1 hne.2 hET]
    exact ⟨hR, hE.symm⟩

theorem fin_sim {k : Nat} (hk : k < t.segs.length) {P' p' : Classes} {c0 : BidiClass} {E' e' : List Nat}
    (hR : Rp t P' p' k 1 c0) (hE : E' = e'.flatMap (unitsT t k 1)) (hmem : cget p' k ≠ ET → k ∉ e')
    (c2 c1 : BidiClass) (al : Bool) :
    RS t (finf (P', E') (pos t k) c2 c1 al) (finf (p', e') k c2 c1 al) k 1 c0 := by
  have hk0 := hp.lpos k hk
  have hc : cget P' (pos t k) = cget p' k := by
    have := Rp_get hR hk (j' := 0) hk0 (Or.inr (by omega))
    simpa using this
  by_cases hx : cget p' k = ET
  · rw [finf_et (by simp only; rw [hc]; exact hx), finf_et (by exact hx)]
    exact ⟨hR, rfl, rfl, hc, rfl, hE, rfl⟩
  · rw [finf_ne (by simp only; rw [hc]; exact hx), finf_ne (by exact hx)]
    refine ⟨?_, rfl, rfl, hc, rfl, rfl, rfl⟩
    simp only
    rw [hE, flatMap_unitsT_of_not_mem (hmem hx)]
    exact Rp_setAll hp hR e' (hmem hx) ON

theorem first_unit {n : Nat} {seq : IRSeq} (hseq : SeqOK n seq) (hn : n = t.segs.length) {ri k : Nat}
    (hv : Valid seq (ri, k)) {S s : WState} {c : BidiClass} (h : RS t S s k (ulen t k) c)
    (hnb : cget s.pcs k ≠ BN) (hinv : ∀ e ∈ s.etRun ++ s.bnRun, e < k) :
    RS t (weakStep (fun i => (t.charAt i).map (·.len)) (mapSeq t seq) S (ri, pos t k))
      (weakStep (fun _ => some 1) seq s (ri, k)) k 1 (cget s.pcs k) := by
  have hk : k < t.segs.length := by have := Valid.lt hseq hv; omega
  have hk0 := hp.lpos k hk
  have het : k ∉ s.etRun := fun hm => by
    have := hinv k (List.mem_append_left _ hm); omega
  have hbn : k ∉ s.bnRun := fun hm => by
    have := hinv k (List.mem_append_right _ hm); omega
  have hc0 : cget S.pcs (pos t k) = cget s.pcs k := by
    have := Rp_get h.pcs hk (j' := 0) hk0 (Or.inr hk0)
    simpa using this
  have hE := h.et
  have hB := h.bn
  rw [unitsT_full_fun] at hE hB
  rw [weakStep_eq, weakStep_eq, hc0, if_neg (by simpa using hnb), if_neg (by simpa using hnb),
    h.w1, h.w4, h.w5, h.al, hE, hB]
  have hR1 := Rp_set_first hp (Rp_open h.pcs (Nat.le_refl _) 1) hk
    (w23f (w1f (cget s.pcs k) s.prevW1) s.lastStrongIsAL)
  have hw := w456_sim hp hseq hn hv hR1 s.prevW4 s.prevW5
    (alf (w1f (cget s.pcs k) s.prevW1) s.lastStrongIsAL) s.etRun s.bnRun
    (w23f (w1f (cget s.pcs k) s.prevW1) s.lastStrongIsAL) het hbn
  have hpl : k < s.pcs.length := by rw [h.pcs.2.1]; exact hk
  have pf := (pe_facts seq s.prevW4 s.prevW5 (alf (w1f (cget s.pcs k) s.prevW1) s.lastStrongIsAL)
    s.etRun s.bnRun s.pcs (w23f (w1f (cget s.pcs k) s.prevW1) s.lastStrongIsAL) ri k hpl het).1
  exact fin_sim hp hk hw.1 hw.2 pf _ _ _

/-! ### the other units of a non-BN character -/

theorem tail_step {n : Nat} {seq : IRSeq} (hseq : SeqOK n seq) (hn : n = t.segs.length) {ri k : Nat}
    (hv : Valid seq (ri, k)) {S s : WState} (hsl : s.pcs.length = t.segs.length)
    (hnb : cget s.pcs k ≠ BN) (hinv : ∀ e ∈ s.etRun ++ s.bnRun, e < k) {j : Nat}
    (h : RS t S (weakStep (fun _ => some 1) seq s (ri, k)) k j (cget s.pcs k))
    (hj1 : 1 ≤ j) (hj : j < ulen t k) :
    RS t (weakStep (fun i => (t.charAt i).map (·.len)) (mapSeq t seq) S (ri, pos t k + j))
      (weakStep (fun _ => some 1) seq s (ri, k)) k (j + 1) (cget s.pcs k) := by
  have hk : k < t.segs.length := by have := Valid.lt hseq hv; omega
  have het : k ∉ s.etRun := fun hm => by
    have := hinv k (List.mem_append_left _ hm); omega
  have hbn : k ∉ s.bnRun := fun hm => by
    have := hinv k (List.mem_append_right _ hm); omega
  have cf := char_facts seq s ri k (by rw [hsl]; exact hk) hnb het
  simp only at cf
  obtain ⟨f1, f4, fal, fbn, fx, fne, fet, g2, g3, g4, g5⟩ := cf
  generalize hs' : weakStep (fun _ => some 1) seq s (ri, k) = s' at *
  have hprev : cget S.pcs (pos t k + j - 1) = s'.prevW5 := by
    have : pos t k + j - 1 = pos t k + (j - 1) := by omega
    rw [this, Rp_get h.pcs hk (by omega) (Or.inr (by omega)), fx]
  have hSb : S.bnRun = [] := by rw [h.bn, fbn]; rfl
  have hSe : s'.prevW5 ≠ ET → S.etRun = [] := by
    intro hx; rw [h.et, fne hx]; rfl
  rw [tail_eq _ _ S ri (pos t k + j) (cget s.pcs k) s.prevW1
    (w23f (w1f (cget s.pcs k) s.prevW1) s.lastStrongIsAL) s'.prevW5 s.lastStrongIsAL
    (Rp_get_hole h.pcs hk hj (Nat.le_refl _)) hnb (h.w1.trans f1) (h.al.trans fal) rfl h.w5
    (charLen_other hp (by omega) hj) (by omega)
    (by rw [h.pcs.1]; exact unit_lt_len hp hj) hprev hSb hSe g2 g3 g4 g5]
  refine ⟨?_, f1.symm, f4.symm, rfl, h.al, ?_, by rw [fbn]; rfl⟩
  · have := Rp_set_tail hp h.pcs hk hj
    rw [fx] at this
    exact this
  · simp only
    by_cases hx : s'.prevW5 = ET
    · rw [if_pos hx, h.et, fet hx]
      have hnm : k ∉ s.etRun ++ s.bnRun := by
        intro hm; have := hinv k hm; omega
      have key : ∀ j', (s.etRun ++ s.bnRun ++ [k]).flatMap (unitsT t k j')
          = (s.etRun ++ s.bnRun).flatMap (units t) ++ List.range' (pos t k) j' := by
        intro j'
        rw [List.flatMap_append, flatMap_unitsT_of_not_mem hnm]
        simp [unitsT]
      rw [key, key, List.append_assoc, List.range'_1_concat]
    · rw [if_neg hx, fne hx]; rfl

theorem tail_units {n : Nat} {seq : IRSeq} (hseq : SeqOK n seq) (hn : n = t.segs.length) {ri k : Nat}
    (hv : Valid seq (ri, k)) {s : WState} (hsl : s.pcs.length = t.segs.length)
    (hnb : cget s.pcs k ≠ BN) (hinv : ∀ e ∈ s.etRun ++ s.bnRun, e < k) :
    ∀ (m j : Nat) (S : WState), 1 ≤ j → j + m = ulen t k →
      RS t S (weakStep (fun _ => some 1) seq s (ri, k)) k j (cget s.pcs k) →
      RS t (((List.range' (pos t k + j) m).map (fun i => (ri, i))).foldl
              (weakStep (fun i => (t.charAt i).map (·.len)) (mapSeq t seq)) S)
        (weakStep (fun _ => some 1) seq s (ri, k)) k (ulen t k) (cget s.pcs k)
  | 0, j, St, _, hjm, h => by
    have : j = ulen t k := by omega
    subst this; exact h
  | m + 1, j, St, hj1, hjm, h => by
    rw [List.range'_succ, List.map_cons, List.foldl_cons]
    have h1 := tail_step hp hseq hn hv hsl hnb hinv h hj1 (by omega)
    have := tail_units hseq hn hv hsl hnb hinv m (j + 1) _ (by omega) (by omega) h1
    rw [show pos t k + (j + 1) = pos t k + j + 1 by omega] at this
    exact this

/-! ### one character -/

theorem char_step {n : Nat} {seq : IRSeq} (hseq : SeqOK n seq) (hn : n = t.segs.length) {ri k : Nat}
    (hv : Valid seq (ri, k)) {S s : WState} {c : BidiClass} (h : RS t S s k (ulen t k) c)
    (hinv : ∀ e ∈ s.etRun ++ s.bnRun, e < k) :
    RS t (((units t k).map (fun i => (ri, i))).foldl
            (weakStep (fun i => (t.charAt i).map (·.len)) (mapSeq t seq)) S)
      (weakStep (fun _ => some 1) seq s (ri, k)) k (ulen t k) c := by
  have hk : k < t.segs.length := by have := Valid.lt hseq hv; omega
  have hk0 := hp.lpos k hk
  by_cases hb : cget s.pcs k = BN
  · exact bn_char _ _ _ ri k h hk hb
  · have hu : units t k = pos t k :: List.range' (pos t k + 1) (ulen t k - 1) := by
      unfold units
      have : ulen t k = (ulen t k - 1) + 1 := by omega
      rw [this, List.range'_succ]; simp
    rw [hu, List.map_cons, List.foldl_cons]
    have h1 := first_unit hp hseq hn hv h hb hinv
    have := tail_units hp hseq hn hv h.pcs.2.1 hb hinv (ulen t k - 1) 1 _ (Nat.le_refl _) (by omega) h1
    exact RS_full_change this k c

omit hp in
theorem inv_step {seq : IRSeq} {ri k : Nat} {s : WState} (hk : k < s.pcs.length)
    (hinv : ∀ e ∈ s.etRun ++ s.bnRun, e < k) :
    ∀ e ∈ (weakStep (fun _ => some 1) seq s (ri, k)).etRun ++ (weakStep (fun _ => some 1) seq s (ri, k)).bnRun,
      e ≤ k := by
  by_cases hb : cget s.pcs k = BN
  · rw [weakStep_eq, if_pos (by rw [hb]; rfl)]
    intro e he
    simp only [List.mem_append, List.mem_cons, List.not_mem_nil, or_false] at he
    rcases he with he | he | he
    · exact Nat.le_of_lt (hinv e (List.mem_append_left _ he))
    · exact Nat.le_of_lt (hinv e (List.mem_append_right _ he))
    · omega
  · have het : k ∉ s.etRun := fun hm => by
      have := hinv k (List.mem_append_left _ hm); omega
    have cf := char_facts seq s ri k hk hb het
    simp only at cf
    obtain ⟨_, _, _, fbn, _, fne, fet, _⟩ := cf
    intro e he
    rw [fbn, List.append_nil] at he
    by_cases hx : (weakStep (fun _ => some 1) seq s (ri, k)).prevW5 = ET
    · rw [fet hx] at he
      simp only [List.mem_append, List.mem_cons, List.not_mem_nil, or_false] at he
      rcases he with (he | he) | he
      · exact Nat.le_of_lt (hinv e (List.mem_append_left _ he))
      · exact Nat.le_of_lt (hinv e (List.mem_append_right _ he))
      · omega
    · rw [fne hx] at he; cases he

/-! ### the whole loop -/

theorem main_fold {n : Nat} {seq : IRSeq} (hseq : SeqOK n seq) (hn : n = t.segs.length) :
    ∀ (l : List (Nat × Nat)) (S s : WState), (∀ x ∈ l, Valid seq x) →
      l.Pairwise (fun x y => x.2 < y.2) →
      RS t S s n (ulen t n) ON →
      (∀ e ∈ s.etRun ++ s.bnRun, e < n ∧ ∀ x ∈ l, e < x.2) →
      RS t ((l.flatMap (fun x => (units t x.2).map (fun i => (x.1, i)))).foldl
              (weakStep (fun i => (t.charAt i).map (·.len)) (mapSeq t seq)) S)
           (l.foldl (weakStep (fun _ => some 1) seq) s) n (ulen t n) ON ∧
      ∀ e ∈ (l.foldl (weakStep (fun _ => some 1) seq) s).etRun ++
            (l.foldl (weakStep (fun _ => some 1) seq) s).bnRun, e < n
  | [], St, s, _, _, h, hinv => ⟨h, fun e he => (hinv e he).1⟩
  | x :: l, St, s, hv, hpw, h, hinv => by
    rw [List.flatMap_cons, List.foldl_append, List.foldl_cons]
    have hvx : Valid seq (x.1, x.2) := hv x List.mem_cons_self
    have hxn : x.2 < n := Valid.lt hseq hvx
    have hinv0 : ∀ e ∈ s.etRun ++ s.bnRun, e < x.2 := fun e he => (hinv e he).2 x List.mem_cons_self
    have h1 := char_step hp hseq hn hvx (RS_full_change h x.2 ON) hinv0
    have hi1 := inv_step (seq := seq) (ri := x.1) (by rw [h.pcs.2.1]; omega) hinv0
    rw [List.pairwise_cons] at hpw
    apply main_fold hseq hn l _ _ (fun y hy => hv y (List.mem_cons_of_mem _ hy)) hpw.2
      (RS_full_change h1 n ON)
    intro e he
    have := hi1 e he
    refine ⟨by omega, ?_⟩
    intro y hy
    have := hpw.1 y hy
    omega

end

end UBidi.Expand.Weak
