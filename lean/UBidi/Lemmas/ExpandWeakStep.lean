/-
  UBidi.Lemmas.ExpandWeakStep — `weakStep` cut into its parts (W1, W2/W3, the
  W4–W6 separator/terminator part, the closing part), what one character-level
  step does, and what the step at a non-first unit of a character does.
-/
import UBidi.Lemmas.ExpandWeakOps
namespace UBidi.Expand.Weak
open UBidi UBidi.Expand BidiClass

/-! ### the parts of `weakStep` -/

def w1f (c0 p : BidiClass) : BidiClass :=
  if c0 == NSM then (match p with | RLI | LRI | FSI | PDI => ON | p => p) else c0

def w23f (c1 : BidiClass) (al : Bool) : BidiClass :=
  match c1 with | EN => if al then AN else EN | AL => R | c => c

def alf (c1 : BidiClass) (al : Bool) : Bool :=
  match c1 with | L | R => false | AL => true | _ => al

def c3f (p4 c2 nx : BidiClass) : BidiClass :=
  match p4, c2, nx with
  | EN, ES, EN => EN
  | EN, CS, EN => EN
  | AN, CS, AN => AN
  | _, _, _ => ON

def sepf (seq : IRSeq) (p4 : BidiClass) (lastAL : Bool) (pcs : Classes) (c2 : BidiClass)
    (runIdx i charLen : Nat) (et : List Nat) : Classes × List Nat :=
  let nextClass0 :=
    ((seq.iterForwardsFrom (i + charLen) runIdx).map (cget pcs)).find? notRemoved |>.getD seq.eos
  let nextClass := if nextClass0 == EN && lastAL then AN else nextClass0
  let c3 := c3f p4 c2 nextClass
  let pcs := pcs.set i c3
  if c3 == ON then
    let pcs := setWhileBN pcs (seq.iterBackwardsFrom i runIdx) ON
    let pcs := setWhileBN pcs (seq.iterForwardsFrom (i + charLen) runIdx) ON
    (pcs, et)
  else (pcs, et)

def w456f (cl : Nat → Option Nat) (seq : IRSeq) (p4 p5 : BidiClass) (lastAL : Bool)
    (et bn : List Nat) (pcs : Classes) (c2 : BidiClass) (runIdx i : Nat) : Classes × List Nat :=
  match c2 with
  | EN => (setAll pcs et EN, [])
  | ES | CS =>
    (match cl i with
     | some charLen => sepf seq p4 lastAL pcs c2 runIdx i charLen et
     | none => (pcs.set i (cget pcs (i - 1)), et))
  | ET =>
    (match p5 with
     | EN => (pcs.set i EN, et)
     | _ => (pcs, et ++ bn ++ [i]))
  | _ => (pcs, et)

def finf (pe : Classes × List Nat) (i : Nat) (c2 c1 : BidiClass) (lastAL : Bool) : WState :=
  let prevW5 := cget pe.1 i
  let (pcs, etRun) := if prevW5 != ET then (setAll pe.1 pe.2 ON, []) else (pe.1, pe.2)
  { pcs := pcs, prevW4 := c2, prevW5 := prevW5, prevW1 := c1,
    lastStrongIsAL := lastAL, etRun := etRun, bnRun := [] }

theorem weakStep_eq (cl : Nat → Option Nat) (seq : IRSeq) (st : WState) (ri i : Nat) :
    weakStep cl seq st (ri, i) =
      if cget st.pcs i == BN then { st with bnRun := st.bnRun ++ [i] }
      else
        finf (w456f cl seq st.prevW4 st.prevW5 (alf (w1f (cget st.pcs i) st.prevW1) st.lastStrongIsAL)
                st.etRun st.bnRun
                (st.pcs.set i (w23f (w1f (cget st.pcs i) st.prevW1) st.lastStrongIsAL))
                (w23f (w1f (cget st.pcs i) st.prevW1) st.lastStrongIsAL) ri i)
          i (w23f (w1f (cget st.pcs i) st.prevW1) st.lastStrongIsAL) (w1f (cget st.pcs i) st.prevW1)
          (alf (w1f (cget st.pcs i) st.prevW1) st.lastStrongIsAL) := by
  rfl

theorem finf_ne {pe : Classes × List Nat} {i : Nat} {c2 c1 : BidiClass} {al : Bool}
    (h : cget pe.1 i ≠ ET) :
    finf pe i c2 c1 al = { pcs := setAll pe.1 pe.2 ON, prevW4 := c2, prevW5 := cget pe.1 i, prevW1 := c1,
                           lastStrongIsAL := al, etRun := [], bnRun := [] } := by
  unfold finf
  simp only
  rw [if_pos (by simpa using h)]

theorem finf_et {pe : Classes × List Nat} {i : Nat} {c2 c1 : BidiClass} {al : Bool}
    (h : cget pe.1 i = ET) :
    finf pe i c2 c1 al = { pcs := pe.1, prevW4 := c2, prevW5 := cget pe.1 i, prevW1 := c1,
                           lastStrongIsAL := al, etRun := pe.2, bnRun := [] } := by
  unfold finf
  simp only
  rw [if_neg (by simp [h])]

/-- the (W2-adjusted) class found by the ES/CS look-ahead -/
def nxf (seq : IRSeq) (lastAL : Bool) (pcs : Classes) (runIdx start : Nat) : BidiClass :=
  let nextClass0 :=
    ((seq.iterForwardsFrom start runIdx).map (cget pcs)).find? notRemoved |>.getD seq.eos
  if nextClass0 == EN && lastAL then AN else nextClass0

/-- the class array after the ES/CS branch at a character start -/
def sepP (seq : IRSeq) (p4 : BidiClass) (lastAL : Bool) (pcs : Classes) (c2 : BidiClass)
    (runIdx i charLen : Nat) : Classes :=
  if c3f p4 c2 (nxf seq lastAL pcs runIdx (i + charLen)) == ON then
    setWhileBN (setWhileBN (pcs.set i (c3f p4 c2 (nxf seq lastAL pcs runIdx (i + charLen))))
        (seq.iterBackwardsFrom i runIdx) ON) (seq.iterForwardsFrom (i + charLen) runIdx) ON
  else pcs.set i (c3f p4 c2 (nxf seq lastAL pcs runIdx (i + charLen)))

theorem sepf_eq (seq : IRSeq) (p4 : BidiClass) (lastAL : Bool) (pcs : Classes) (c2 : BidiClass)
    (runIdx i charLen : Nat) (et : List Nat) :
    sepf seq p4 lastAL pcs c2 runIdx i charLen et = (sepP seq p4 lastAL pcs c2 runIdx i charLen, et) := by
  unfold sepf sepP nxf
  simp only
  exact (apply_ite (fun z => (z, et)) _ _ _).symm

theorem w456f_EN (cl : Nat → Option Nat) (seq : IRSeq) (p4 p5 : BidiClass) (lastAL : Bool)
    (et bn : List Nat) (pcs : Classes) (ri i : Nat) :
    w456f cl seq p4 p5 lastAL et bn pcs EN ri i = (setAll pcs et EN, []) := rfl

theorem w456f_sep_some (cl : Nat → Option Nat) (seq : IRSeq) (p4 p5 : BidiClass) (lastAL : Bool)
    (et bn : List Nat) (pcs : Classes) {c2 : BidiClass} (ri i : Nat) {len : Nat}
    (hc : c2 = ES ∨ c2 = CS) (hcl : cl i = some len) :
    w456f cl seq p4 p5 lastAL et bn pcs c2 ri i = (sepP seq p4 lastAL pcs c2 ri i len, et) := by
  rcases hc with rfl | rfl <;> simp only [w456f, hcl, sepf_eq]

theorem w456f_sep_none (cl : Nat → Option Nat) (seq : IRSeq) (p4 p5 : BidiClass) (lastAL : Bool)
    (et bn : List Nat) (pcs : Classes) {c2 : BidiClass} (ri i : Nat)
    (hc : c2 = ES ∨ c2 = CS) (hcl : cl i = none) :
    w456f cl seq p4 p5 lastAL et bn pcs c2 ri i = (pcs.set i (cget pcs (i - 1)), et) := by
  rcases hc with rfl | rfl <;> simp only [w456f, hcl]

theorem w456f_ET_EN (cl : Nat → Option Nat) (seq : IRSeq) (p4 : BidiClass) (lastAL : Bool)
    (et bn : List Nat) (pcs : Classes) (ri i : Nat) :
    w456f cl seq p4 EN lastAL et bn pcs ET ri i = (pcs.set i EN, et) := rfl

theorem w456f_ET_ne (cl : Nat → Option Nat) (seq : IRSeq) (p4 : BidiClass) {p5 : BidiClass} (lastAL : Bool)
    (et bn : List Nat) (pcs : Classes) (ri i : Nat) (h : p5 ≠ EN) :
    w456f cl seq p4 p5 lastAL et bn pcs ET ri i = (pcs, et ++ bn ++ [i]) := by
  cases p5 <;> first | rfl | exact absurd rfl h

theorem w456f_other (cl : Nat → Option Nat) (seq : IRSeq) (p4 p5 : BidiClass) (lastAL : Bool)
    (et bn : List Nat) (pcs : Classes) {c2 : BidiClass} (ri i : Nat)
    (h1 : c2 ≠ EN) (h2 : c2 ≠ ES) (h3 : c2 ≠ CS) (h4 : c2 ≠ ET) :
    w456f cl seq p4 p5 lastAL et bn pcs c2 ri i = (pcs, et) := by
  cases c2 <;>
    first
    | rfl
    | exact absurd rfl h1
    | exact absurd rfl h2
    | exact absurd rfl h3
    | exact absurd rfl h4

theorem w1f_idem (c0 p : BidiClass) : w1f c0 (w1f c0 p) = w1f c0 p := by
  unfold w1f
  split
  · cases p <;> rfl
  · rfl

theorem w23f_alf (c1 : BidiClass) (a : Bool) : w23f c1 (alf c1 a) = w23f c1 a := by
  cases c1 <;> rfl

theorem alf_idem (c1 : BidiClass) (a : Bool) : alf c1 (alf c1 a) = alf c1 a := by
  cases c1 <;> rfl

theorem c3f_ne_ET (p4 c2 nx : BidiClass) : c3f p4 c2 nx ≠ ET := by
  unfold c3f
  split <;> simp

theorem c3f_ne_BN (p4 c2 nx : BidiClass) : c3f p4 c2 nx ≠ BN := by
  unfold c3f
  split <;> simp

/-! ### a step at a non-first unit of a character -/

theorem tail_eq (cl : Nat → Option Nat) (seq : IRSeq) (S : WState) (ri i : Nat)
    (c0 p1 c2 x : BidiClass) (a : Bool)
    (hc0 : cget S.pcs i = c0) (hbn : c0 ≠ BN)
    (h1 : S.prevW1 = w1f c0 p1) (hal : S.lastStrongIsAL = alf (w1f c0 p1) a)
    (hc2 : w23f (w1f c0 p1) a = c2)
    (h5 : S.prevW5 = x) (hcl : cl i = none) (hi1 : 1 ≤ i) (hil : i < S.pcs.length)
    (hprev : cget S.pcs (i - 1) = x) (hb : S.bnRun = [])
    (f1 : x ≠ ET → S.etRun = []) (f2 : c2 = EN → x = EN) (f3 : c2 = ET → x = EN ∨ x = ET)
    (f4 : c2 = ES ∨ c2 = CS → x ≠ ET)
    (f5 : c2 ≠ EN → c2 ≠ ES → c2 ≠ CS → c2 ≠ ET → x = c2) :
    weakStep cl seq S (ri, i) =
      { pcs := S.pcs.set i x, prevW4 := c2, prevW5 := x, prevW1 := w1f c0 p1,
        lastStrongIsAL := S.lastStrongIsAL, etRun := if x = ET then S.etRun ++ [i] else [],
        bnRun := [] } := by
  rw [weakStep_eq, hc0, if_neg (by simpa using hbn)]
  have e1 : w1f c0 S.prevW1 = w1f c0 p1 := by rw [h1, w1f_idem]
  have e2 : w23f (w1f c0 p1) S.lastStrongIsAL = c2 := by rw [hal, w23f_alf, hc2]
  have e3 : alf (w1f c0 p1) S.lastStrongIsAL = S.lastStrongIsAL := by rw [hal, alf_idem]
  rw [e1, e2, e3, h5, hb]
  have hget : ∀ v, cget (S.pcs.set i v) i = v := by
    intro v; rw [cget_set]; simp [hil]
  by_cases hEN : c2 = EN
  · have hx := f2 hEN
    have het := f1 (by rw [hx]; simp)
    rw [hEN, w456f_EN, het, setAll_nil, finf_ne (by simp only; rw [hget]; simp)]
    simp only [hget, setAll_nil, hx]
    simp
  by_cases hsep : c2 = ES ∨ c2 = CS
  · have hx := f4 hsep
    have het := f1 hx
    rw [w456f_sep_none _ _ _ _ _ _ _ _ _ _ hsep hcl]
    have e : cget (S.pcs.set i c2) (i - 1) = x := by
      rw [cget_set, if_neg (by omega), hprev]
    rw [e, List.set_set, het, finf_ne (by simp only; rw [hget]; exact hx)]
    simp only [hget, setAll_nil, if_neg hx]
  by_cases hET : c2 = ET
  · rcases f3 hET with hx | hx
    · have het := f1 (by rw [hx]; simp)
      rw [hET, hx, w456f_ET_EN, List.set_set, het, finf_ne (by simp only; rw [hget]; simp)]
      simp only [hget, setAll_nil]
      simp
    · rw [hET, hx, w456f_ET_ne _ _ _ _ _ _ _ _ _ (by simp), finf_et (by simp only; rw [hget])]
      simp only [hget, List.append_nil, if_true]
  · have hne : c2 ≠ ES ∧ c2 ≠ CS := by
      constructor
      · intro h; exact hsep (Or.inl h)
      · intro h; exact hsep (Or.inr h)
    have hx := f5 hEN hne.1 hne.2 hET
    have het := f1 (by rw [hx]; exact hET)
    rw [w456f_other _ _ _ _ _ _ _ _ _ _ hEN hne.1 hne.2 hET, het,
      finf_ne (by simp only; rw [hget]; exact hET)]
    simp only [hget, setAll_nil, hx, if_neg hET]

/-! ### what one character-level step does -/

/-- the facts on `w456f` at the character level that the later units rely on -/
theorem pe_facts (seq : IRSeq) (p4 p5 : BidiClass) (al : Bool) (et bn : List Nat) (p : Classes)
    (c2 : BidiClass) (ri k : Nat) (hk : k < p.length) (het : k ∉ et) :
    let pe := w456f (fun _ => some 1) seq p4 p5 al et bn (p.set k c2) c2 ri k
    (cget pe.1 k ≠ ET → k ∉ pe.2) ∧ (cget pe.1 k = ET → pe.2 = et ++ bn ++ [k]) ∧
    (c2 = EN → cget pe.1 k = EN) ∧ (c2 = ET → cget pe.1 k = EN ∨ cget pe.1 k = ET) ∧
    (c2 = ES ∨ c2 = CS → cget pe.1 k ≠ ET) ∧
    (c2 ≠ EN → c2 ≠ ES → c2 ≠ CS → c2 ≠ ET → cget pe.1 k = c2) := by
  intro pe
  have hget : ∀ v, cget ((p.set k c2).set k v) k = v := by
    intro v; rw [cget_set]; simp [hk]
  have hget0 : cget (p.set k c2) k = c2 := by rw [cget_set]; simp [hk]
  by_cases hEN : c2 = EN
  · have e : pe = (setAll (p.set k c2) et EN, []) := by
      show w456f _ _ _ _ _ _ _ _ c2 _ _ = _
      rw [hEN]; rfl
    have g : cget pe.1 k = EN := by
      rw [e]; simp only; rw [cget_setAll, hget0, hEN]; simp
    rw [g, e]
    simp [hEN]
  by_cases hsep : c2 = ES ∨ c2 = CS
  · have e : pe = (sepP seq p4 al (p.set k c2) c2 ri k 1, et) :=
      w456f_sep_some _ _ _ _ _ _ _ _ _ _ hsep rfl
    have g : cget pe.1 k ≠ ET := by
      rw [e]; simp only
      unfold sepP
      split
      · rename_i h3
        have h3' : c3f p4 c2 (nxf seq al (p.set k c2) ri (k + 1)) = ON := by simpa using h3
        rw [cget_setWhileBN_of_ne, cget_setWhileBN_of_ne, hget, h3']
        · simp
        · rw [hget, h3']; simp
        · rw [cget_setWhileBN_of_ne, hget, h3']
          · simp
          · rw [hget, h3']; simp
      · rw [hget]; exact c3f_ne_ET _ _ _
    refine ⟨fun _ => by rw [e]; exact het, fun h => absurd h g, fun h => absurd h hEN, ?_, fun _ => g, ?_⟩
    · intro h; rcases hsep with h' | h' <;> rw [h] at h' <;> cases h'
    · intro _ h2 h3 _; rcases hsep with h' | h'
      · exact absurd h' h2
      · exact absurd h' h3
  by_cases hET : c2 = ET
  · by_cases h5 : p5 = EN
    · have e : pe = ((p.set k c2).set k EN, et) := by
        show w456f _ _ _ _ _ _ _ _ c2 _ _ = _
        rw [hET, h5]; rfl
      have g : cget pe.1 k = EN := by rw [e]; exact hget EN
      rw [g, e]
      simp [hET, het]
    · have e : pe = (p.set k c2, et ++ bn ++ [k]) := by
        show w456f _ _ _ _ _ _ _ _ c2 _ _ = _
        rw [hET]; exact w456f_ET_ne _ _ _ _ _ _ _ _ _ h5
      have g : cget pe.1 k = ET := by rw [e]; simp only; rw [hget0, hET]
      rw [g, e]
      simp [hET]
  · have hne : c2 ≠ ES ∧ c2 ≠ CS :=
      ⟨fun h => hsep (Or.inl h), fun h => hsep (Or.inr h)⟩
    have e : pe = (p.set k c2, et) := w456f_other _ _ _ _ _ _ _ _ _ _ hEN hne.1 hne.2 hET
    have g : cget pe.1 k = c2 := by rw [e]; exact hget0
    rw [g, e]
    refine ⟨fun _ => het, fun h => absurd h hET, fun h => absurd h hEN, fun h => absurd h hET,
      fun h => absurd h hsep, fun _ _ _ _ => rfl⟩

theorem char_facts (seq : IRSeq) (s : WState) (ri k : Nat) (hk : k < s.pcs.length)
    (hbn : cget s.pcs k ≠ BN) (het : k ∉ s.etRun) :
    let c1 := w1f (cget s.pcs k) s.prevW1
    let c2 := w23f c1 s.lastStrongIsAL
    let s' := weakStep (fun _ => some 1) seq s (ri, k)
    let x := s'.prevW5
    s'.prevW1 = c1 ∧ s'.prevW4 = c2 ∧ s'.lastStrongIsAL = alf c1 s.lastStrongIsAL ∧ s'.bnRun = [] ∧
    cget s'.pcs k = x ∧ (x ≠ ET → s'.etRun = []) ∧ (x = ET → s'.etRun = s.etRun ++ s.bnRun ++ [k]) ∧
    (c2 = EN → x = EN) ∧ (c2 = ET → x = EN ∨ x = ET) ∧ (c2 = ES ∨ c2 = CS → x ≠ ET) ∧
    (c2 ≠ EN → c2 ≠ ES → c2 ≠ CS → c2 ≠ ET → x = c2) := by
  intro c1 c2 s' x
  have hs' : s' = finf (w456f (fun _ => some 1) seq s.prevW4 s.prevW5 (alf c1 s.lastStrongIsAL)
      s.etRun s.bnRun (s.pcs.set k c2) c2 ri k) k c2 c1 (alf c1 s.lastStrongIsAL) := by
    show weakStep _ _ _ _ = _
    rw [weakStep_eq, if_neg (by simpa using hbn)]
  have pf := pe_facts seq s.prevW4 s.prevW5 (alf c1 s.lastStrongIsAL) s.etRun s.bnRun s.pcs c2 ri k hk het
  simp only at pf
  generalize w456f (fun _ => some 1) seq s.prevW4 s.prevW5 (alf c1 s.lastStrongIsAL)
      s.etRun s.bnRun (s.pcs.set k c2) c2 ri k = pe at hs' pf
  obtain ⟨pA, pB, pC, pD, pE, pF⟩ := pf
  by_cases hx : cget pe.1 k = ET
  · have e := finf_et (c2 := c2) (c1 := c1) (al := alf c1 s.lastStrongIsAL) hx
    rw [← hs'] at e
    have ex : x = cget pe.1 k := by show s'.prevW5 = _; rw [e]
    rw [ex]
    refine ⟨by rw [e], by rw [e], by rw [e], by rw [e], by rw [e], fun h => absurd hx h,
      fun _ => by rw [e]; exact pB hx, pC, pD, pE, pF⟩
  · have e := finf_ne (c2 := c2) (c1 := c1) (al := alf c1 s.lastStrongIsAL) hx
    rw [← hs'] at e
    have ex : x = cget pe.1 k := by show s'.prevW5 = _; rw [e]
    rw [ex]
    refine ⟨by rw [e], by rw [e], by rw [e], by rw [e], ?_, fun _ => by rw [e],
      fun h => absurd h hx, pC, pD, pE, pF⟩
    rw [e]; simp only
    rw [cget_setAll, if_neg (by rintro ⟨h1, _⟩; exact pA hx h1)]

end UBidi.Expand.Weak
