/-
  UBidi.Lemmas.ExpandNeutral — the Expand lemma ("results do not depend on how many code units a
  character occupies") for the neutral-type stage, the implicit-level stage and the fill of the
  removed characters.  Vocabulary: `UBidi/Lemmas/ExpandDefs.lean`.

  Main theorems (in namespace `UBidi.Expand`; all helper lemmas are in `UBidi.Expand.Neutral`, so the
  module can be imported next to the other Expand modules), for every well-formed `t`:

  * `brackets_expand`       (ExpandNeutralBrackets) — BD16: `identifyBracketPairs`
  * `n0Pair_expand`         (ExpandNeutralN0)       — N0 for one pair
  * `n12_expand`            (ExpandNeutralSeq)      — N1/N2
  * `neutral_expand`        (ExpandNeutralN0)       — `resolveNeutral`
  * `resolveLevels_expand`  (ExpandNeutralN12)      — I1/I2
  * `fill_expand`           (ExpandNeutralN12)      — `assignLevelsToRemovedChars`

  Hypothesis on the sequence: `SeqOKN t.segs.length seq` — every run `(a, b)` has `a, b ≤` the
  number of characters (`SeqOKN.of_lt`: implied by `a < b ≤ n`; no ordering or disjointness of
  the runs is needed).  The per-character arrays have one entry per character.

  Supporting files: ExpandNeutralBasic (positions, reading an expanded array, blocks and walks),
  ExpandNeutralScan (`setAll`, `setRange`, `setWhileBN`, `setWhileNsmOrBN`, `scanEnclosed`, `find?`
  over the unit walk of a character walk), ExpandNeutralN12, ExpandNeutralSeq (`mapSeq`: indices,
  forward/backward walks, `seqChars`; `unitize`), ExpandNeutralBrackets, ExpandNeutralN0.
-/
import UBidi.Lemmas.ExpandNeutralN0
namespace UBidi.Expand.Neutral
open UBidi UBidi.BidiClass

/-! ### the statements, as delivered -/

example (ds : DataSource) (t : Text) (hwf : t.WF) (seq : IRSeq) (hs : SeqOKN t.segs.length seq)
    (ocs1 pcs1 : List BidiClass) (hl : ocs1.length = t.segs.length ∧ pcs1.length = t.segs.length) :
    identifyBracketPairs ds t (mapSeq t seq) (expand t ocs1) (expand t pcs1)
      = (identifyBracketPairs ds (unitize t) seq ocs1 pcs1).map
          (fun p => { p with start := pos t p.start, stop := pos t p.stop }) :=
  brackets_expand ds t hwf seq hs ocs1 pcs1 hl

example (ds : DataSource) (t : Text) (hwf : t.WF) (seq : IRSeq) (hs : SeqOKN t.segs.length seq)
    (ocs1 pcs1 : List BidiClass) (lv1 : List Nat)
    (hl : ocs1.length = t.segs.length ∧ pcs1.length = t.segs.length ∧ lv1.length = t.segs.length) :
    resolveNeutral ds t (mapSeq t seq) (expand t lv1) (expand t ocs1) (expand t pcs1)
      = (expand t (resolveNeutral ds (unitize t) seq lv1 ocs1 pcs1).1,
         (resolveNeutral ds (unitize t) seq lv1 ocs1 pcs1).2) :=
  neutral_expand ds t hwf seq hs ocs1 pcs1 lv1 hl

example (t : Text) (hwf : t.WF) (pcs1 : List BidiClass) (lv1 : List Nat)
    (hl : pcs1.length = t.segs.length ∧ lv1.length = t.segs.length) :
    resolveLevels (expand t pcs1) (expand t lv1)
      = (expand t (resolveLevels pcs1 lv1).1, (resolveLevels pcs1 lv1).2) :=
  resolveLevels_expand t hwf pcs1 lv1 hl

example (t : Text) (hwf : t.WF) (pl : Nat) (ocs1 : List BidiClass) (lv1 : List Nat)
    (hl : ocs1.length = t.segs.length ∧ lv1.length = t.segs.length) :
    assignLevelsToRemovedChars pl (expand t ocs1) (expand t lv1)
      = expand t (assignLevelsToRemovedChars pl ocs1 lv1) :=
  fill_expand t hwf pl ocs1 lv1 hl

/-! ### non-vacuity: a text with multi-unit characters and multi-unit brackets -/

/-- `א 〈 a ◌̀ 〉 ◌̀ SHY ב ( 1 )` as a `&str`: 11 characters, 20 code units -/
def exText : Text :=
  Text.ofScalars [0x5D0, 0x3008, 0x61, 0x300, 0x3009, 0x300, 0xAD, 0x5D1, 0x28, 0x31, 0x29]

theorem exText_wf : exText.WF := by
  constructor
  · simp [exText, Text.ofScalars, Text.layout, Text.totalLen, SegsFrom, Enc.charLen, utf8Len]
  · decide

/-- a sequence of two runs of characters (character 3 belongs to another sequence) -/
def exSeq : IRSeq := { runs := [(0, 3), (4, 11)], sos := R, eos := L }

def exOcs : List BidiClass := [R, ON, L, NSM, ON, NSM, BN, R, ON, EN, ON]
def exPcs : List BidiClass := [R, ON, L, L, ON, ON, BN, R, ON, EN, ON]
def exLv : List Nat := [1, 1, 2, 2, 1, 1, 1, 1, 1, 2, 1]

/-- the hypotheses of all four theorems hold for this input -/
example : exText.WF ∧ SeqOKN exText.segs.length exSeq ∧
    exOcs.length = exText.segs.length ∧ exPcs.length = exText.segs.length ∧
    exLv.length = exText.segs.length :=
  ⟨exText_wf, SeqOKN.of_lt (by decide), by decide, by decide, by decide⟩

/-- the text really has multi-unit characters, and the image of the sequence is in code units -/
example : exText.segs.map (·.len) = [2, 3, 1, 2, 3, 2, 2, 2, 1, 1, 1] ∧
    (mapSeq exText exSeq).runs = [(0, 6), (8, 20)] := by decide

/-- test (literal input): with the crate's tables the input has two bracket pairs, one of them
    across the two runs, so `brackets_expand` / `neutral_expand` are not about empty pair lists -/
example : identifyBracketPairs hardcoded (unitize exText) exSeq exOcs exPcs =
    [{ start := 1, stop := 4, startRun := 0, endRun := 1 }, { start := 8, stop := 10, startRun := 1, endRun := 1 }] := by
  decide +kernel

/-- the instance of `neutral_expand` for this input -/
example (ds : DataSource) :
    resolveNeutral ds exText (mapSeq exText exSeq) (expand exText exLv) (expand exText exOcs) (expand exText exPcs)
      = (expand exText (resolveNeutral ds (unitize exText) exSeq exLv exOcs exPcs).1,
         (resolveNeutral ds (unitize exText) exSeq exLv exOcs exPcs).2) :=
  neutral_expand ds exText exText_wf exSeq (SeqOKN.of_lt (by decide)) exOcs exPcs exLv
    ⟨by decide, by decide, by decide⟩

end UBidi.Expand.Neutral
