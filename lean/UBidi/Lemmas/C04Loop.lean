/-
  C04 helper lemmas, part 3: the outer loop of `reorder_visual`.

  * the positional pass of the Model (`passOn`, chunks chosen on the ORIGINAL level
    array) coincides with the Spec pass (`Spec.revRunsGE`, runs of the CURRENT order)
    as long as the invariant `Inv k` holds: reading the levels through the current
    order and capping them at `k` gives the original level array capped at `k`;
  * the invariant is kept by every pass and by lowering `k`;
  * passes for an odd level that does not occur cancel with the pass above them.
-/
import UBidi.Model.Reorder
import UBidi.Lemmas.C04Runs
import UBidi.Lemmas.C04Pass
import UBidi.Props.C19
namespace UBidi.Lemmas.C04
open UBidi

/-- the level of logical index `i` as the Spec reads it -/
abbrev lvOf (levels : List Nat) : Nat → Nat := fun i => levels.getD i 0

/-- one L2 step of the Spec at level `k` -/
abbrev specPass (levels : List Nat) (k : Nat) (order : List Nat) : List Nat :=
  Spec.revRunsGE (fun i => levels.getD i 0) k [] order

/-- the loop invariant: the levels seen through `order`, capped at `k`, are the levels capped at `k` -/
def Inv (levels : List Nat) (k : Nat) (order : List Nat) : Prop :=
  order.map (fun i => min k (levels.getD i 0)) = levels.map (min k)

theorem Inv_range (levels : List Nat) (k : Nat) : Inv levels k (List.range levels.length) := by
  unfold Inv
  apply List.ext_getElem
  · simp
  · intro i h1 h2
    simp at h1 h2
    simp [h2]

theorem Inv_mono (levels : List Nat) (k k' : Nat) (order : List Nat) (hk : k' ≤ k)
    (h : Inv levels k order) : Inv levels k' order := by
  unfold Inv at *
  have := congrArg (List.map (min k')) h
  simp only [List.map_map] at this
  have e1 : (min k' ∘ fun i => min k (levels.getD i 0)) = (fun i => min k' (levels.getD i 0)) := by
    funext i; simp only [Function.comp]; omega
  have e2 : (min k' ∘ min k) = min k' := by
    funext i; simp only [Function.comp]; omega
  rw [e1, e2] at this
  exact this

theorem specPass_perm (levels : List Nat) (k : Nat) (order : List Nat) :
    List.Perm (specPass levels k order) order := by
  unfold specPass
  rw [revRunsGE_eq]
  simpa using revRuns_perm (fun i => decide (k ≤ levels.getD i 0)) [] order

theorem Inv_specPass (levels : List Nat) (k : Nat) (order : List Nat) (h : Inv levels k order) :
    Inv levels k (specPass levels k order) := by
  unfold Inv at *
  unfold specPass
  rw [revRunsGE_eq, revRuns_map_const' _ _ k _ ?_, h]
  intro x _ hx
  simp only [decide_eq_true_eq] at hx
  omega

theorem zip_of_map_eq {α β γ : Type} (f : α → γ) (g : β → γ) (as : List α) (bs : List β)
    (h : as.map f = bs.map g) : ∀ z ∈ List.zip bs as, g z.1 = f z.2 := by
  induction as generalizing bs with
  | nil => intro z hz; simp at hz
  | cons a as ih =>
    cases bs with
    | nil => intro z hz; simp at hz
    | cons b bs =>
      simp only [List.map_cons, List.cons.injEq] at h
      intro z hz
      simp only [List.zip_cons_cons, List.mem_cons] at hz
      rcases hz with rfl | hz
      · exact h.1.symm
      · exact ih bs h.2 z hz

/-- under the invariant, the Model pass is the Spec pass -/
theorem passOn_eq_specPass (levels : List Nat) (k : Nat) (order : List Nat)
    (hlen : order.length = levels.length) (h : Inv levels k order) :
    passOn k levels order = specPass levels k order := by
  unfold passOn specPass
  rw [revRunsGE_eq]
  rw [revRuns_map (fun q : Nat × Nat => decide (k ≤ q.1)) (fun i => decide (k ≤ levels.getD i 0))
        (·.2) [] (List.zip levels order)]
  · rw [List.map_nil]
    congr 1
    exact List.map_snd_zip (by omega)
  · intro z hz
    have := zip_of_map_eq _ _ order levels h z hz
    simp only [decide_eq_decide]
    omega

/-! ### `downFrom` -/

theorem downFrom_nil (hi lo : Nat) (h : hi < lo) : Spec.downFrom hi lo = [] := by
  unfold Spec.downFrom
  have : hi + 1 - lo = 0 := by omega
  rw [this]; rfl

theorem downFrom_cons (hi lo : Nat) (h1 : 1 ≤ lo) (h : lo ≤ hi) :
    Spec.downFrom hi lo = hi :: Spec.downFrom (hi - 1) lo := by
  unfold Spec.downFrom
  have e1 : hi + 1 - lo = (hi - lo) + 1 := by omega
  have e2 : hi - 1 + 1 - lo = hi - lo := by omega
  rw [e1, e2, List.range_succ_eq_map]
  simp only [List.map_cons, List.map_map, Nat.sub_zero, List.cons.injEq, true_and]
  apply List.map_congr_left
  intro d _
  simp only [Function.comp]
  omega

theorem downFrom_append (d hi mid lo : Nat) (h1 : 1 ≤ lo) (h2 : lo ≤ mid) (hd : hi + 1 = mid + d) :
    Spec.downFrom hi lo = Spec.downFrom hi mid ++ Spec.downFrom (mid - 1) lo := by
  induction d generalizing hi with
  | zero =>
    have : hi = mid - 1 := by omega
    rw [downFrom_nil hi mid (by omega), this]; rfl
  | succ d ih =>
    rw [downFrom_cons hi lo h1 (by omega), downFrom_cons hi mid (by omega) (by omega)]
    rw [ih (hi - 1) (by omega)]
    rfl

/-! ### the outer loop -/

theorem rvLoop_perm (levels : List Nat) (lo fuel k : Nat) (result : List Nat) :
    List.Perm (rvLoop levels lo fuel k result).1 result := by
  induction fuel generalizing k result with
  | zero => exact List.Perm.refl _
  | succ f ih =>
    unfold rvLoop
    split
    · simp only
      split
      · exact (ih _ _).trans (rvPass_perm _ _ _ _ _)
      · exact rvPass_perm _ _ _ _ _
    · exact List.Perm.refl _

/-- the outer loop is the Spec's fold, as long as the lower bound is positive -/
theorem rvLoop_eq (levels : List Nat) (lo : Nat) (hlo : 1 ≤ lo) (fuel k : Nat) (result : List Nat)
    (hlen : result.length = levels.length) (hinv : Inv levels k result) (hf : k < fuel) :
    rvLoop levels lo fuel k result =
      ((Spec.downFrom k lo).foldl (fun order m => specPass levels m order) result, none) := by
  induction fuel generalizing k result with
  | zero => omega
  | succ f ih =>
    unfold rvLoop
    by_cases hk : lo ≤ k
    · simp only [hk, if_true]
      rw [rvPass_eq k levels result hlen, passOn_eq_specPass levels k result hlen hinv]
      rw [UBidi.Props.C19.lower_spec]
      have h1 : 1 ≤ k := by omega
      simp only [h1, if_true]
      rw [ih (k - 1) (specPass levels k result)
            (by rw [(specPass_perm levels k result).length_eq, hlen])
            (Inv_mono levels k (k - 1) _ (by omega) (Inv_specPass levels k result hinv))
            (by omega)]
      rw [downFrom_cons k lo hlo hk]
      rfl
    · simp only [hk, if_false]
      rw [downFrom_nil k lo (by omega)]
      rfl

/-! ### cancelling passes -/

/-- if no entry has level exactly `k` (and `k ≥ 1`), the passes for `k + 1` and `k` are the same -/
theorem specPass_succ_eq (levels : List Nat) (k : Nat) (hk : 1 ≤ k) (hno : ∀ l ∈ levels, l ≠ k)
    (order : List Nat) : specPass levels (k + 1) order = specPass levels k order := by
  unfold specPass
  rw [revRunsGE_eq, revRunsGE_eq]
  congr 1
  funext i
  have : levels.getD i 0 ≠ k := by
    by_cases hi : i < levels.length
    · have : levels.getD i 0 = levels[i] := by simp [hi]
      rw [this]; exact hno _ (List.getElem_mem hi)
    · have : levels.getD i 0 = 0 := by simp [List.getD, List.getElem?_eq_none (Nat.le_of_not_lt hi)]
      omega
  simp only [decide_eq_decide]
  omega

theorem specPass_cancel (levels : List Nat) (k : Nat) (hk : 1 ≤ k) (hno : ∀ l ∈ levels, l ≠ k)
    (order : List Nat) : specPass levels k (specPass levels (k + 1) order) = order := by
  rw [specPass_succ_eq levels k hk hno]
  unfold specPass
  rw [revRunsGE_eq, revRunsGE_eq]
  exact revRuns_invol _ _

/-- the passes from `t` (even) down to `o` (odd) all cancel when no odd level `≤ t` occurs -/
theorem fold_cancel (levels : List Nat) (o : Nat) (ho : o % 2 = 1) (j t : Nat) (ht : t + 1 = o + 2 * j)
    (hno : ∀ l ∈ levels, l % 2 = 1 → t < l) (order : List Nat) :
    (Spec.downFrom t o).foldl (fun order m => specPass levels m order) order = order := by
  induction j generalizing t order with
  | zero => rw [downFrom_nil t o (by omega)]; rfl
  | succ j ih =>
    rw [downFrom_cons t o (by omega) (by omega), downFrom_cons (t - 1) o (by omega) (by omega)]
    simp only [List.foldl_cons]
    have e : t = (t - 1) + 1 := by omega
    have hc := specPass_cancel levels (t - 1) (by omega)
      (by intro l hl hl'; have := hno l hl (by omega); omega) order
    rw [← e] at hc
    rw [hc]
    have e2 : t - 1 - 1 = t - 2 := by omega
    rw [e2]
    exact ih (t - 2) (by omega) (fun l hl hl' => by have := hno l hl hl'; omega) order

/-! ### minimum and maximum by `foldl` -/

theorem foldl_min_le (xs : List Nat) (a : Nat) :
    xs.foldl min a ≤ a ∧ ∀ x ∈ xs, xs.foldl min a ≤ x := by
  induction xs generalizing a with
  | nil => simp
  | cons y ys ih =>
    simp only [List.foldl_cons, List.mem_cons]
    have := ih (min a y)
    refine ⟨by omega, ?_⟩
    rintro x (rfl | hx)
    · omega
    · exact this.2 x hx

theorem foldl_min_mem (xs : List Nat) (a : Nat) : xs.foldl min a = a ∨ xs.foldl min a ∈ xs := by
  induction xs generalizing a with
  | nil => simp
  | cons y ys ih =>
    simp only [List.foldl_cons, List.mem_cons]
    rcases ih (min a y) with h | h
    · rw [h]
      rcases Nat.le_total a y with h' | h'
      · left; omega
      · right; left; omega
    · right; right; exact h

theorem le_foldl_max (xs : List Nat) (a : Nat) :
    a ≤ xs.foldl max a ∧ ∀ x ∈ xs, x ≤ xs.foldl max a := by
  induction xs generalizing a with
  | nil => simp
  | cons y ys ih =>
    simp only [List.foldl_cons, List.mem_cons]
    have := ih (max a y)
    refine ⟨by omega, ?_⟩
    rintro x (rfl | hx)
    · omega
    · exact this.2 x hx

theorem foldl_max_mem (xs : List Nat) (a : Nat) : xs.foldl max a = a ∨ xs.foldl max a ∈ xs := by
  induction xs generalizing a with
  | nil => simp
  | cons y ys ih =>
    simp only [List.foldl_cons, List.mem_cons]
    rcases ih (max a y) with h | h
    · rw [h]
      rcases Nat.le_total a y with h' | h'
      · right; left; omega
      · left; omega
    · right; right; exact h

end UBidi.Lemmas.C04
