/-
  C09 helper lemmas, part 5: the built-in tables give class FSI to U+2068 only, hence satisfy the
  FSI-width proviso (`C02.FSIWidth`) on every well-formed text.  (Same argument as in Props/C07, kept
  here so that C09 does not depend on the files of C07.)
-/
import UBidi.Props.C02
import UBidi.Props.C14
namespace UBidi.Props.C09
open UBidi

theorem lookup_rows (cl : BidiClass) (hcl : cl ≠ .L) : ∀ (tbl : List (Nat × Nat × BidiClass)) (c : Nat),
    lookupTable tbl c = cl → ∃ r ∈ tbl, r.2.2 = cl ∧ r.1 ≤ c ∧ c ≤ r.2.1
  | [], c, h => by simp only [lookupTable] at h; exact absurd h.symm hcl
  | (lo, hi, k) :: rest, c, h => by
    simp only [lookupTable] at h
    split at h
    · rename_i hc
      exact ⟨(lo, hi, k), by simp, h, hc.1, hc.2⟩
    · obtain ⟨r, hr, h1⟩ := lookup_rows cl hcl rest c h
      exact ⟨r, by simp [hr], h1⟩

/-- Bool checker: every row of class FSI is the single code point U+2068 -/
def fsiRowsOK (tbl : List (Nat × Nat × BidiClass)) : Bool :=
  tbl.all fun r => r.2.2 != .FSI || (r.1 == Gen.fcFSI && r.2.1 == Gen.fcFSI)

/-- test of the checker on literals -/
example : fsiRowsOK [(0x2067, 0x2067, .RLI), (0x2068, 0x2068, .FSI)] = true ∧
    fsiRowsOK [(0x2067, 0x2068, .FSI)] = false := by decide

/-- the class table has no row of class FSI other than U+2068 (proof over the whole table) -/
theorem classTable_FSI_rows : fsiRowsOK Gen.classTable = true := by
  decide +kernel

/-- U+2068 is the only code point to which the built-in data gives class FSI -/
theorem hardcoded_FSI_only (c : Nat) (h : hardcoded.cls c = .FSI) : c = Gen.fcFSI := by
  simp only [hardcoded] at h
  have h' := h
  rw [C14.C14_bidiClass_eq_lookup] at h'
  obtain ⟨r, hr, h1, h2, h3⟩ := lookup_rows .FSI (by decide) Gen.classTable c h'
  have := List.all_eq_true.1 classTable_FSI_rows r hr
  rw [h1] at this
  simp only [show (BidiClass.FSI != BidiClass.FSI) = false from by decide, Bool.false_or,
    Bool.and_eq_true, beq_iff_eq] at this
  omega

theorem hardcoded_FSIWidth (t : Text) (hwf : t.WF) : C02.FSIWidth hardcoded t :=
  C02.FSIWidth_of_only hardcoded t hwf hardcoded_FSI_only

end UBidi.Props.C09
