/-
  C01 StageN with retained BN units, part: the invariant `InvBN` is preserved by the writes of one
  `n0Pair` step.  The writes are described by the predicate `WrV` ("unit `j` is overwritten with
  the bracket's new type"), in terms of the *values* of the unit indices (the sequence's index
  list is strictly increasing, so position order is value order).
-/
import UBidi.Lemmas.C01NeutralBNDefs
import UBidi.Lemmas.C01NeutralN0
namespace UBidi.Lemmas.C01Neutral
open UBidi UBidi.BidiClass

/-- the test of the crate's "following NSMs" loop -/
def condP (ocs pcs : Classes) (i : Nat) : Bool := cget ocs i == NSM || cget pcs i == BN

/-- the units `n0Pair` overwrites for the pair `(o, c)`: the two brackets, the BN units directly
    before `o`, and the NSM-or-BN units directly after `o` and after `c` -/
def WrV (U : List Nat) (ocs pcs : Classes) (o c j : Nat) : Prop :=
  j ∈ U ∧ (j = o ∨ j = c ∨
    (j < o ∧ ∀ i ∈ U, j ≤ i → i < o → cget pcs i = BN) ∨
    (o < j ∧ j < c ∧ ∀ i ∈ U, o < i → i ≤ j → condP ocs pcs i = true) ∨
    (c < j ∧ ∀ i ∈ U, c < i → i ≤ j → condP ocs pcs i = true))

theorem condP_iff (ocs pcs : Classes) (i : Nat) :
    condP ocs pcs i = true ↔ cget ocs i = NSM ∨ cget pcs i = BN := by
  simp [condP]

theorem keepU_of_NSM {ocs : Classes} {i : Nat} (h : cget ocs i = NSM) : keepU ocs i = true := by
  simp [keepU, h, BidiClass.removedByX9]

/-- among the kept units of `U` below `p` there is a last one -/
theorem exists_last_kept (keep : Nat → Bool) (p : Nat) : ∀ (U : List Nat),
    (∃ b ∈ U, b < p ∧ keep b = true) →
    ∃ q ∈ U, q < p ∧ keep q = true ∧ ∀ i ∈ U, q < i → i < p → keep i = false := by
  intro U
  induction U with
  | nil => rintro ⟨b, hb, _⟩; cases hb
  | cons x U ih =>
    rintro ⟨b, hb, hbp, hbk⟩
    by_cases hex : ∃ b ∈ U, b < p ∧ keep b = true
    · obtain ⟨q, hq, hqp, hqk, hmax⟩ := ih hex
      by_cases hx : x < p ∧ keep x = true ∧ q < x
      · refine ⟨x, by simp, hx.1, hx.2.1, ?_⟩
        intro i hi h1 h2
        simp only [List.mem_cons] at hi
        rcases hi with rfl | hi
        · omega
        · exact hmax i hi (by omega) h2
      · refine ⟨q, by simp [hq], hqp, hqk, ?_⟩
        intro i hi h1 h2
        simp only [List.mem_cons] at hi
        rcases hi with rfl | hi
        · cases hk : keep i with
          | false => rfl
          | true => exact absurd ⟨h2, hk, h1⟩ hx
        · exact hmax i hi h1 h2
    · have hbx : b = x := by
        simp only [List.mem_cons] at hb
        rcases hb with rfl | hb
        · rfl
        · exact absurd ⟨b, hb, hbp, hbk⟩ hex
      subst hbx
      refine ⟨b, by simp, hbp, hbk, ?_⟩
      intro i hi h1 h2
      simp only [List.mem_cons] at hi
      rcases hi with rfl | hi
      · omega
      · cases hk : keep i with
        | false => rfl
        | true => exact absurd ⟨i, hi, h2, hk⟩ hex

section step
variable {U : List Nat} {ocs pcs pcs' : Classes} {F F' : Nat → Prop} {o c : Nat} {v : BidiClass}

/-- a kept unit that is overwritten is a bracket of the pair or an original NSM in its trail -/
theorem WrV_kept (hinv : InvBN U ocs pcs F) {j : Nat} (hw : WrV U ocs pcs o c j)
    (hk : keepU ocs j = true) :
    j = o ∨ j = c ∨ (cget ocs j = NSM ∧
      ((o < j ∧ j < c ∧ ∀ i ∈ U, o < i → i ≤ j → condP ocs pcs i = true) ∨
       (c < j ∧ ∀ i ∈ U, c < i → i ≤ j → condP ocs pcs i = true))) := by
  obtain ⟨hjU, h⟩ := hw
  have hnb := hinv.kept j hjU hk
  rcases h with h | h | ⟨h1, h2⟩ | ⟨h1, h2, h3⟩ | ⟨h1, h2⟩
  · exact Or.inl h
  · exact Or.inr (Or.inl h)
  · exact absurd (h2 j hjU (Nat.le_refl _) h1) hnb
  · have := (condP_iff _ _ _).1 (h3 j hjU h1 (Nat.le_refl _))
    rcases this with h4 | h4
    · exact Or.inr (Or.inr ⟨h4, Or.inl ⟨h1, h2, h3⟩⟩)
    · exact absurd h4 hnb
  · have := (condP_iff _ _ _).1 (h2 j hjU h1 (Nat.le_refl _))
    rcases this with h4 | h4
    · exact Or.inr (Or.inr ⟨h4, Or.inr ⟨h1, h2⟩⟩)
    · exact absurd h4 hnb

/-- a removed unit that is overwritten carried BN -/
theorem WrV_removed {j : Nat} (hw : WrV U ocs pcs o c j) (hk : keepU ocs j = false)
    (hko : keepU ocs o = true) (hkc : keepU ocs c = true) : cget pcs j = BN := by
  obtain ⟨hjU, h⟩ := hw
  have hns := keepU_false_ne_NSM hk
  rcases h with h | h | ⟨h1, h2⟩ | ⟨h1, _, h3⟩ | ⟨h1, h2⟩
  · subst h; rw [hko] at hk; cases hk
  · subst h; rw [hkc] at hk; cases hk
  · exact h2 j hjU (Nat.le_refl _) h1
  · rcases (condP_iff _ _ _).1 (h3 j hjU h1 (Nat.le_refl _)) with h4 | h4
    · exact absurd h4 hns
    · exact h4
  · rcases (condP_iff _ _ _).1 (h2 j hjU h1 (Nat.le_refl _)) with h4 | h4
    · exact absurd h4 hns
    · exact h4

/-- a pending bracket end other than `o`, `c` is not overwritten -/
theorem not_WrV_fresh (hinv : InvBN U ocs pcs F) {b : Nat} (hb : F b) (hbo : b ≠ o) (hbc : b ≠ c) :
    ¬ WrV U ocs pcs o c b := by
  intro hw
  obtain ⟨_, hk, hns, _⟩ := hinv.fresh b hb
  rcases WrV_kept hinv hw hk with h | h | ⟨h, _⟩
  · exact hbo h
  · exact hbc h
  · exact hns h

/-- **the invariant is preserved by one `n0Pair` step** that writes `v` at the units `WrV` -/
theorem inv_step (hinv : InvBN U ocs pcs F) (hFo : F o) (hFc : F c) (hoc : o < c)
    (hF' : ∀ b, F' b → F b ∧ b ≠ o ∧ b ≠ c) (hvBN : v ≠ BN)
    (hpt : ∀ j, (WrV U ocs pcs o c j → cget pcs' j = v) ∧ (¬ WrV U ocs pcs o c j → cget pcs' j = cget pcs j)) :
    InvBN U ocs pcs' F' := by
  obtain ⟨hoU, hko, hno, hto⟩ := hinv.fresh o hFo
  obtain ⟨hcU, hkc, hnc, htc⟩ := hinv.fresh c hFc
  have hwo : WrV U ocs pcs o c o := ⟨hoU, Or.inl rfl⟩
  have hwc : WrV U ocs pcs o c c := ⟨hcU, Or.inr (Or.inl rfl)⟩
  -- a bracket `b ∈ {o, c}` is kept and not an original NSM, so it cannot sit inside a trail
  have hnotin : ∀ b, (b = o ∨ b = c) → ∀ b' k, InTrail U ocs b' k → b' < b → b ≤ k → False := by
    intro b hb b' k ⟨_, ht⟩ h1 h2
    have hbU : b ∈ U := by rcases hb with rfl | rfl <;> assumption
    rcases ht b hbU h1 h2 with h | h
    · rcases hb with rfl | rfl
      · rw [hko] at h; cases h
      · rw [hkc] at h; cases h
    · rcases hb with rfl | rfl
      · exact hno h
      · exact hnc h
  -- a pending end `b'` cannot sit inside a swept segment
  have hnoseg : ∀ b', F b' → condP ocs pcs b' = true → False := by
    intro b' hb' hcp
    obtain ⟨hb'U, hk', hn', ht'⟩ := hinv.fresh b' hb'
    rcases (condP_iff _ _ _).1 hcp with h | h
    · exact hn' h
    · rw [ht'] at h; cases h
  refine ⟨?_, ?_, ?_, ?_⟩
  · -- kept
    intro i hi hk
    by_cases hw : WrV U ocs pcs o c i
    · rw [(hpt i).1 hw]; exact hvBN
    · rw [(hpt i).2 hw]; exact hinv.kept i hi hk
  · -- fresh
    intro b hb
    obtain ⟨hFb, hbo, hbc⟩ := hF' b hb
    obtain ⟨h1, h2, h3, h4⟩ := hinv.fresh b hFb
    exact ⟨h1, h2, h3, by rw [(hpt b).2 (not_WrV_fresh hinv hFb hbo hbc)]; exact h4⟩
  · -- wit
    intro p hp hk
    by_cases hw : WrV U ocs pcs o c p
    · -- a removed unit that has just been written
      have hpv := (hpt p).1 hw
      obtain ⟨_, h⟩ := hw
      -- the two sweep cases are the same argument
      have hsweep : ∀ b, (b = o ∨ b = c) → b < p →
          (∀ i ∈ U, b < i → i ≤ p → WrV U ocs pcs o c i ∧ condP ocs pcs i = true) →
          BwdWit U ocs pcs' F' p := by
        intro b hb hbp hseg
        have hbU : b ∈ U := by rcases hb with rfl | rfl <;> assumption
        have hkb : keepU ocs b = true := by rcases hb with rfl | rfl <;> assumption
        have hwb : WrV U ocs pcs o c b := by rcases hb with rfl | rfl <;> assumption
        obtain ⟨q, hqU, hqp, hkq, hmax⟩ := exists_last_kept (keepU ocs) p U ⟨b, hbU, hbp, hkb⟩
        have hbq : b ≤ q := by
          rcases Nat.lt_or_ge q b with hlt | hge
          · have := hmax b hbU hlt hbp; rw [hkb] at this; cases this
          · exact hge
        have hwq : WrV U ocs pcs o c q ∧ (b < q → cget ocs q = NSM) := by
          rcases Nat.eq_or_lt_of_le hbq with heq | hlt
          · subst heq; exact ⟨hwb, fun h => absurd h (Nat.lt_irrefl _)⟩
          · have := hseg q hqU hlt (Nat.le_of_lt hqp)
            refine ⟨this.1, fun _ => ?_⟩
            rcases (condP_iff _ _ _).1 this.2 with h1 | h1
            · exact h1
            · exact absurd h1 (hinv.kept q hqU hkq)
        refine ⟨q, hqU, hqp, hkq, by rw [(hpt q).1 hwq.1, hpv], hmax, ?_⟩
        intro b' hb'
        obtain ⟨hFb', hb'o, hb'c⟩ := hF' b' hb'
        obtain ⟨hb'U, hkb', hnb', htb'⟩ := hinv.fresh b' hFb'
        have hb'b : b' ≠ b := by rcases hb with rfl | rfl <;> assumption
        constructor
        · intro heq
          subst heq
          rcases Nat.eq_or_lt_of_le hbq with heq | hlt
          · exact hb'b heq.symm
          · exact hnb' (hwq.2 hlt)
        · intro hin
          rcases Nat.lt_trichotomy b' b with h1 | h1 | h1
          · exact hnotin b hb b' q hin h1 hbq
          · exact hb'b h1
          · have hb'q : b' < q := hin.1
            exact hnoseg b' hFb' (hseg b' hb'U h1 (by omega)).2
      rcases h with h | h | ⟨h1, h2⟩ | ⟨h1, h2, h3⟩ | ⟨h1, h2⟩
      · subst h; rw [hko] at hk; cases hk
      · subst h; rw [hkc] at hk; cases hk
      · -- the BN units before the opening bracket: forward witness `o`
        refine Or.inr (Or.inr (Or.inl ⟨o, hoU, h1, hko, by rw [(hpt o).1 hwo, hpv], ?_⟩))
        intro i hi hpi hio
        have hbn := h2 i hi (Nat.le_of_lt hpi) hio
        cases hki : keepU ocs i with
        | false => rfl
        | true => exact absurd hbn (hinv.kept i hi hki)
      · refine Or.inr (Or.inr (Or.inr (hsweep o (Or.inl rfl) h1 ?_)))
        intro i hi hoi hip
        exact ⟨⟨hi, Or.inr (Or.inr (Or.inr (Or.inl ⟨hoi, by omega, fun i' hi' a b => h3 i' hi' a (by omega)⟩)))⟩,
          h3 i hi hoi hip⟩
      · refine Or.inr (Or.inr (Or.inr (hsweep c (Or.inr rfl) h1 ?_)))
        intro i hi hci hip
        exact ⟨⟨hi, Or.inr (Or.inr (Or.inr (Or.inr ⟨hci, fun i' hi' a b => h2 i' hi' a (by omega)⟩)))⟩,
          h2 i hi hci hip⟩
    · -- an untouched removed unit
      have hpp := (hpt p).2 hw
      rw [hpp]
      by_cases hbn : cget pcs p = BN
      · exact Or.inl hbn
      by_cases hon : cget pcs p = ON
      · exact Or.inr (Or.inl hon)
      rcases hinv.wit p hp hk with h | h | ⟨q, hqU, hpq, hkq, hty, hbetw⟩ | ⟨q, hqU, hqp, hkq, hty, hbetw, hst⟩
      · exact absurd h hbn
      · exact absurd h hon
      · -- forward witness: `q` is not overwritten, because a sweep reaching `q` passes `p`
        have hnw : ¬ WrV U ocs pcs o c q := by
          intro hwq
          have hcase : ∀ b, b ∈ U → keepU ocs b = true → b < q →
              (∀ i ∈ U, b < i → i ≤ q → condP ocs pcs i = true) → False := by
            intro b hbU hkb hbq hseg
            have hbp : b < p := by
              rcases Nat.lt_trichotomy b p with h1 | h1 | h1
              · exact h1
              · subst h1; rw [hkb] at hk; cases hk
              · have := hbetw b hbU h1 hbq; rw [hkb] at this; cases this
            rcases (condP_iff _ _ _).1 (hseg p hp hbp (Nat.le_of_lt hpq)) with h1 | h1
            · exact keepU_false_ne_NSM hk h1
            · exact hbn h1
          rcases WrV_kept hinv hwq hkq with h | h | ⟨_, ⟨h1, _, h3⟩ | ⟨h1, h3⟩⟩
          · subst h; rw [hto] at hty; exact hon hty.symm
          · subst h; rw [htc] at hty; exact hon hty.symm
          · exact hcase o hoU hko h1 h3
          · exact hcase c hcU hkc h1 h3
        exact Or.inr (Or.inr (Or.inl ⟨q, hqU, hpq, hkq, by rw [(hpt q).2 hnw, hty, hpp], hbetw⟩))
      · -- backward witness: `q` is protected by its stability clause
        have hnw : ¬ WrV U ocs pcs o c q := by
          intro hwq
          have hcase : ∀ b, F b → b < q →
              (∀ i ∈ U, b < i → i ≤ q → condP ocs pcs i = true) → False := by
            intro b hFb hbq hseg
            refine (hst b hFb).2 ⟨hbq, fun i hi h1 h2 => ?_⟩
            rcases (condP_iff _ _ _).1 (hseg i hi h1 h2) with h3 | h3
            · exact Or.inr h3
            · left
              cases hki : keepU ocs i with
              | false => rfl
              | true => exact absurd h3 (hinv.kept i hi hki)
          rcases WrV_kept hinv hwq hkq with h | h | ⟨_, ⟨h1, _, h3⟩ | ⟨h1, h3⟩⟩
          · exact (hst o hFo).1 h.symm
          · exact (hst c hFc).1 h.symm
          · exact hcase o hFo h1 h3
          · exact hcase c hFc h1 h3
        exact Or.inr (Or.inr (Or.inr ⟨q, hqU, hqp, hkq, by rw [(hpt q).2 hnw, hty, hpp], hbetw,
          fun b hb => hst b (hF' b hb).1⟩))
  · -- trail
    intro b hb k hkU hkk hin p hp hbp hpk hkp
    obtain ⟨hFb, hbo, hbc⟩ := hF' b hb
    obtain ⟨hbU, hkb, hnb, htb⟩ := hinv.fresh b hFb
    have hpbn := hinv.trail b hFb k hkU hkk hin p hp hbp hpk hkp
    have hnw : ¬ WrV U ocs pcs o c p := by
      rintro ⟨_, h⟩
      have hcase : ∀ b0, (b0 = o ∨ b0 = c) → b0 < p →
          (∀ i ∈ U, b0 < i → i ≤ p → condP ocs pcs i = true) → False := by
        intro b0 hb0 hb0p hseg
        have hbb0 : b ≠ b0 := by rcases hb0 with rfl | rfl <;> assumption
        rcases Nat.lt_trichotomy b b0 with h1 | h1 | h1
        · exact hnotin b0 hb0 b k hin h1 (by omega)
        · exact hbb0 h1
        · exact hnoseg b hFb (hseg b hbU h1 (by omega))
      rcases h with h | h | ⟨h1, h2⟩ | ⟨h1, _, h3⟩ | ⟨h1, h2⟩
      · subst h; rw [hko] at hkp; cases hkp
      · subst h; rw [hkc] at hkp; cases hkp
      · -- `p` in the BN run before `o`, but the kept `k` lies between `p` and `o`
        rcases Nat.lt_or_ge k o with hko' | hko'
        · exact hinv.kept k hkU hkk (h2 k hkU (Nat.le_of_lt hpk) hko')
        · exact hnotin o (Or.inl rfl) b k hin (by omega) hko'
      · exact hcase o (Or.inl rfl) h1 h3
      · exact hcase c (Or.inr rfl) h1 h2
    rw [(hpt p).2 hnw]; exact hpbn

end step

end UBidi.Lemmas.C01Neutral
