/-
  C01 StageN with retained BN units, part: the invariant `InvBN` is preserved by the writes of one
  `n0Pair` step.  The writes are described by the predicate `WrV` ("unit `j` is overwritten with
  the bracket's new type"), in terms of the *values* of the unit indices (the sequence's index
  list is strictly increasing, so position order is value order).
-/
import UBidi.Lemmas.C01NeutralBNDefs
import UBidi.Lemmas.C01NeutralN0
namespace UBidi.Lemmas.C01Neutral
open UBidi UBidi.BidiClass

/-- the test of the crate's "following NSMs" loop: the sweep goes on over an original NSM (which it
    overwrites) and over a unit removed by X9 (which it steps over without writing) -/
def condP (ocs : Classes) (i : Nat) : Bool := cget ocs i == NSM || (cget ocs i).removedByX9

/-- the units `n0Pair` overwrites for the pair `(o, c)`: the two brackets, the BN units directly
    before `o`, and the original NSMs reached from `o` and from `c` through original-NSM / removed
    units only -/
def WrV (U : List Nat) (ocs pcs : Classes) (o c j : Nat) : Prop :=
  j ∈ U ∧ (j = o ∨ j = c ∨
    (j < o ∧ ∀ i ∈ U, j ≤ i → i < o → cget pcs i = BN) ∨
    (o < j ∧ j < c ∧ cget ocs j = NSM ∧ ∀ i ∈ U, o < i → i ≤ j → condP ocs i = true) ∨
    (c < j ∧ cget ocs j = NSM ∧ ∀ i ∈ U, c < i → i ≤ j → condP ocs i = true))

theorem condP_iff (ocs : Classes) (i : Nat) :
    condP ocs i = true ↔ cget ocs i = NSM ∨ keepU ocs i = false := by
  simp [condP, keepU]

theorem keepU_of_NSM {ocs : Classes} {i : Nat} (h : cget ocs i = NSM) : keepU ocs i = true := by
  simp [keepU, h, BidiClass.removedByX9]

/-- among the kept units of `U` below `p` there is a last one -/
theorem exists_last_kept (keep : Nat → Bool) (p : Nat) : ∀ (U : List Nat),
    (∃ b ∈ U, b < p ∧ keep b = true) →
    ∃ q ∈ U, q < p ∧ keep q = true ∧ ∀ i ∈ U, q < i → i < p → keep i = false := by
  intro U
  induction U with
  | nil => rintro ⟨b, hb, _⟩; cases hb
  | cons x U ih =>
    rintro ⟨b, hb, hbp, hbk⟩
    by_cases hex : ∃ b ∈ U, b < p ∧ keep b = true
    · obtain ⟨q, hq, hqp, hqk, hmax⟩ := ih hex
      by_cases hx : x < p ∧ keep x = true ∧ q < x
      · refine ⟨x, by simp, hx.1, hx.2.1, ?_⟩
        intro i hi h1 h2
        simp only [List.mem_cons] at hi
        rcases hi with rfl | hi
        · omega
        · exact hmax i hi (by omega) h2
      · refine ⟨q, by simp [hq], hqp, hqk, ?_⟩
        intro i hi h1 h2
        simp only [List.mem_cons] at hi
        rcases hi with rfl | hi
        · cases hk : keep i with
          | false => rfl
          | true => exact absurd ⟨h2, hk, h1⟩ hx
        · exact hmax i hi h1 h2
    · have hbx : b = x := by
        simp only [List.mem_cons] at hb
        rcases hb with rfl | hb
        · rfl
        · exact absurd ⟨b, hb, hbp, hbk⟩ hex
      subst hbx
      refine ⟨b, by simp, hbp, hbk, ?_⟩
      intro i hi h1 h2
      simp only [List.mem_cons] at hi
      rcases hi with rfl | hi
      · omega
      · cases hk : keep i with
        | false => rfl
        | true => exact absurd ⟨i, hi, h2, hk⟩ hex

section step
variable {U : List Nat} {ocs pcs pcs' : Classes} {F F' : Nat → Prop} {o c : Nat} {v : BidiClass}

/-- a kept unit that is overwritten is a bracket of the pair or an original NSM in its trail -/
theorem WrV_kept (hinv : InvBN U ocs pcs F) {j : Nat} (hw : WrV U ocs pcs o c j)
    (hk : keepU ocs j = true) :
    j = o ∨ j = c ∨ (cget ocs j = NSM ∧
      ((o < j ∧ j < c ∧ ∀ i ∈ U, o < i → i ≤ j → condP ocs i = true) ∨
       (c < j ∧ ∀ i ∈ U, c < i → i ≤ j → condP ocs i = true))) := by
  obtain ⟨hjU, h⟩ := hw
  have hnb := hinv.kept j hjU hk
  rcases h with h | h | ⟨h1, h2⟩ | ⟨h1, h2, h3, h4⟩ | ⟨h1, h2, h3⟩
  · exact Or.inl h
  · exact Or.inr (Or.inl h)
  · exact absurd (h2 j hjU (Nat.le_refl _) h1) hnb
  · exact Or.inr (Or.inr ⟨h3, Or.inl ⟨h1, h2, h4⟩⟩)
  · exact Or.inr (Or.inr ⟨h2, Or.inr ⟨h1, h3⟩⟩)

/-- a removed unit that is overwritten lies in the BN run directly before the opening bracket -/
theorem WrV_removed {j : Nat} (hw : WrV U ocs pcs o c j) (hk : keepU ocs j = false)
    (hko : keepU ocs o = true) (hkc : keepU ocs c = true) :
    j < o ∧ ∀ i ∈ U, j ≤ i → i < o → cget pcs i = BN := by
  obtain ⟨hjU, h⟩ := hw
  have hns := keepU_false_ne_NSM hk
  rcases h with h | h | ⟨h1, h2⟩ | ⟨_, _, h3, _⟩ | ⟨_, h2, _⟩
  · subst h; rw [hko] at hk; cases hk
  · subst h; rw [hkc] at hk; cases hk
  · exact ⟨h1, h2⟩
  · exact absurd h3 hns
  · exact absurd h2 hns

/-- a sweep segment is a trail -/
theorem inTrail_of_seg {b q : Nat} (hbq : b < q) (hseg : ∀ i ∈ U, b < i → i ≤ q → condP ocs i = true) :
    InTrail U ocs b q :=
  ⟨hbq, fun i hi h1 h2 => by
    rcases (condP_iff _ _).1 (hseg i hi h1 h2) with h | h
    · exact Or.inr h
    · exact Or.inl h⟩

/-- **the invariant is preserved by one `n0Pair` step** that writes `v` at the units `WrV`; the
    pairs are processed in the order of their opening brackets, so every end still pending afterwards
    lies behind the opening bracket `o` -/
theorem inv_step (hinv : InvBN U ocs pcs F) (hFo : F o) (hFc : F c)
    (hF' : ∀ b, F' b → F b ∧ b ≠ o ∧ b ≠ c) (hord : ∀ b, F' b → o < b) (hvBN : v ≠ BN)
    (hpt : ∀ j, (WrV U ocs pcs o c j → cget pcs' j = v) ∧ (¬ WrV U ocs pcs o c j → cget pcs' j = cget pcs j)) :
    InvBN U ocs pcs' F' := by
  obtain ⟨hoU, hko⟩ := hinv.fresh o hFo
  obtain ⟨hcU, hkc⟩ := hinv.fresh c hFc
  have hwo : WrV U ocs pcs o c o := ⟨hoU, Or.inl rfl⟩
  refine ⟨?_, ?_, ?_, ?_⟩
  · -- kept
    intro i hi hk
    by_cases hw : WrV U ocs pcs o c i
    · rw [(hpt i).1 hw]; exact hvBN
    · rw [(hpt i).2 hw]; exact hinv.kept i hi hk
  · -- fresh
    intro b hb
    exact hinv.fresh b (hF' b hb).1
  · -- wit
    intro p hp hk
    by_cases hw : WrV U ocs pcs o c p
    · -- a removed unit that has just been written: one of the BN units before the opening
      -- bracket; forward witness `o`
      have hpv := (hpt p).1 hw
      obtain ⟨h1, h2⟩ := WrV_removed hw hk hko hkc
      refine Or.inr (Or.inr ⟨o, hoU, h1, hko, by rw [(hpt o).1 hwo, hpv], ?_, fun hb => (hF' o hb).2.1 rfl⟩)
      intro i hi hpi hio
      have hbn := h2 i hi (Nat.le_of_lt hpi) hio
      cases hki : keepU ocs i with
      | false => rfl
      | true => exact absurd hbn (hinv.kept i hi hki)
    · -- an untouched removed unit
      have hpp := (hpt p).2 hw
      rw [hpp]
      by_cases hbn : cget pcs p = BN
      · exact Or.inl hbn
      by_cases hon : cget pcs p = ON
      · exact Or.inr (Or.inl hon)
      rcases hinv.wit p hp hk with h | h | ⟨q, hqU, hpq, hkq, hty, hbetw, hnF⟩
      · exact absurd h hbn
      · exact absurd h hon
      · -- forward witness: `q` is not overwritten, because a sweep reaching `q` passes `p`, which
        -- lies in the trail of the bracket and so carries BN or ON
        have hnw : ¬ WrV U ocs pcs o c q := by
          intro hwq
          have hcase : ∀ b, F b → b < q →
              (∀ i ∈ U, b < i → i ≤ q → condP ocs i = true) → False := by
            intro b hFb hbq hseg
            obtain ⟨hbU, hkb⟩ := hinv.fresh b hFb
            have hbp : b < p := by
              rcases Nat.lt_trichotomy b p with h1 | h1 | h1
              · exact h1
              · subst h1; rw [hkb] at hk; cases hk
              · have := hbetw b hbU h1 hbq; rw [hkb] at this; cases this
            rcases hinv.trail b hFb q hqU hkq (inTrail_of_seg hbq hseg) p hp hbp hpq hk with h1 | h1
            · exact hbn h1
            · exact hon h1
          rcases WrV_kept hinv hwq hkq with h | h | ⟨_, ⟨h1, _, h3⟩ | ⟨h1, h3⟩⟩
          · subst h; exact hnF hFo
          · subst h; exact hnF hFc
          · exact hcase o hFo h1 h3
          · exact hcase c hFc h1 h3
        exact Or.inr (Or.inr ⟨q, hqU, hpq, hkq, by rw [(hpt q).2 hnw, hty, hpp], hbetw,
          fun hb => hnF (hF' q hb).1⟩)
  · -- trail
    intro b hb k hkU hkk hin p hp hbp hpk hkp
    obtain ⟨hFb, _, _⟩ := hF' b hb
    have hpbn := hinv.trail b hFb k hkU hkk hin p hp hbp hpk hkp
    have hnw : ¬ WrV U ocs pcs o c p := by
      intro hw
      -- a removed unit is written only in front of `o`, but `p` lies behind the pending end `b`
      obtain ⟨h1, _⟩ := WrV_removed hw hkp hko hkc
      have := hord b hb
      omega
    rw [(hpt p).2 hnw]; exact hpbn

end step

end UBidi.Lemmas.C01Neutral
