/-
  C01 / StageSeq — X1–X8 facts about matched isolate pairs: the PDI has the level of its
  initiator, and the content is either entirely above that level (valid initiator) or entirely
  at that level (overflow initiator).  Stated on lists of (class, level) pairs (`PairOK`), so that
  it survives the removal of the X9 characters.
-/
import UBidi.Lemmas.C13Explicit
import UBidi.Lemmas.C13Bal
namespace UBidi.Lemmas.C01Seq
open UBidi UBidi.BidiClass UBidi.Spec
open UBidi.Props.C13

/-! ### an initiator met in overflow: everything up to its PDI stays at the same level -/

theorem step_other_overflow (pl : Nat) (s : XState) (h : s.overflowIsolate > 0) (c : BidiClass)
    (h1 : c ≠ B) (h2 : c ≠ LRI) (h3 : c ≠ RLI) (h4 : c ≠ FSI) (h5 : c ≠ PDI) :
    (xStep pl s c).1 = s ∧ (xStep pl s c).2.1 = topLevel pl s := by
  have h0 : (s.overflowIsolate == 0) = false := by simp; omega
  cases c <;> simp_all [xStep]

theorem overflow_content (pl : Nat) (w : List BidiClass) (hw : IsoBalanced w) :
    ∀ s : XState, s.overflowIsolate > 0 → ∀ x ∈ xRun pl s w, x.1 = topLevel pl s := by
  induction hw with
  | nil => intro s _ x hx; simp [xRun] at hx
  | other c w h1 h2 h3 h4 h5 _ ih =>
    intro s hs x hx
    obtain ⟨e1, e2⟩ := step_other_overflow pl s hs c h1 h2 h3 h4 h5
    simp only [xRun, List.mem_cons] at hx
    rcases hx with rfl | hx
    · exact e2
    · rw [e1] at hx; exact ih s hs x hx
  | iso i w v hi hw' _ ihw ihv =>
    intro s hs x hx
    have hi' := (isIsoInit_iff i).2 hi
    rw [xRun_pair pl s i hi' w hw' v] at hx
    have hinv : isoValid pl s i = false := by
      unfold isoValid
      have : (s.overflowIsolate == 0) = false := by simp; omega
      simp [this]
    have hs1 := step_iso_invalid pl s i hi' hinv
    simp only [List.cons_append, List.mem_cons, List.mem_append] at hx
    rcases hx with rfl | hx | rfl | hx
    · exact step_iso_snd pl s i hi'
    · rw [hs1] at hx
      have := ihw _ (by simp : ({ s with overflowIsolate := s.overflowIsolate + 1 } : XState).overflowIsolate > 0) x hx
      rw [this]; rfl
    · rfl
    · exact ihv s hs x hx

/-- the levels of an initiator, a balanced content and the PDI after it, from any machine state -/
theorem pair_levels (pl : Nat) (s : XState) (i : BidiClass) (hi : isIsoInit i = true)
    (w : List BidiClass) (hw : IsoBalanced w) (suf : List BidiClass) :
    (xRun pl s (i :: w ++ PDI :: suf)).map (·.1) =
      topLevel pl s :: (xRun pl (xStep pl s i).1 w).map (·.1) ++
        topLevel pl s :: (xRun pl s suf).map (·.1) ∧
    ((∀ x ∈ xRun pl (xStep pl s i).1 w, topLevel pl s < x.1) ∨
     (∀ x ∈ xRun pl (xStep pl s i).1 w, x.1 = topLevel pl s)) := by
  constructor
  · rw [xRun_pair pl s i hi w hw suf]
    simp [step_iso_snd pl s i hi]
  · cases hv : isoValid pl s i
    · right
      rw [step_iso_invalid pl s i hi hv]
      intro x hx
      have := overflow_content pl w hw _
        (by simp : ({ s with overflowIsolate := s.overflowIsolate + 1 } : XState).overflowIsolate > 0) x hx
      rw [this]; rfl
    · left
      exact content_levels_valid pl s i hi hv w hw

/-! ### the property on (class, level) lists -/

/-- every initiator / balanced content / PDI block of the list has the X1–X8 level shape -/
def PairOK (Z : List (BidiClass × Nat)) : Prop :=
  ∀ A i W pd C, Z = A ++ i :: W ++ pd :: C → isIsoInit i.1 = true → pd.1 = PDI →
    IsoBalanced (W.map (·.1)) →
    pd.2 = i.2 ∧ ((∀ w ∈ W, i.2 < w.2) ∨ (∀ w ∈ W, w.2 = i.2))

/-- classes and explicit levels of a paragraph -/
def pairsOf (pl : Nat) (cls : List BidiClass) : List (BidiClass × Nat) :=
  cls.zip ((explicit pl cls).map (·.1))

theorem pairsOf_fst (pl : Nat) (cls : List BidiClass) : (pairsOf pl cls).map (·.1) = cls := by
  unfold pairsOf
  rw [List.map_fst_zip]
  simp [explicit, xRun_length]

theorem pairsOf_snd (pl : Nat) (cls : List BidiClass) :
    (pairsOf pl cls).map (·.2) = (explicit pl cls).map (·.1) := by
  unfold pairsOf
  rw [List.map_snd_zip]
  simp [explicit, xRun_length]

theorem pairOK_explicit (pl : Nat) (cls : List BidiClass) : PairOK (pairsOf pl cls) := by
  intro A i W pd C hZ hi hpd hW
  have hc : cls = A.map (·.1) ++ (i.1 :: W.map (·.1) ++ PDI :: C.map (·.1)) := by
    rw [← pairsOf_fst pl cls, hZ]; simp [hpd]
  have hl := pairsOf_snd pl cls
  rw [hZ] at hl
  unfold explicit at hl
  generalize hs0 : ({ stack := [{ level := pl, override := none, isolate := false }] } : XState) = s0 at hl
  rw [hc, xRun_append] at hl
  obtain ⟨hp1, hp2⟩ := pair_levels pl (xFinal pl s0 (A.map (·.1))) i.1 hi (W.map (·.1)) hW (C.map (·.1))
  simp only [List.map_append, hp1] at hl
  -- split by lengths
  have hlenA : (A.map (·.2)).length = ((xRun pl s0 (A.map (·.1))).map (·.1)).length := by
    simp [xRun_length]
  simp only [List.map_cons, List.append_assoc, List.cons_append] at hl
  obtain ⟨_, hl⟩ := List.append_inj hl hlenA
  simp only [List.cons.injEq] at hl
  obtain ⟨hi2, hl⟩ := hl
  have hlenW : (W.map (·.2)).length =
      ((xRun pl (xStep pl (xFinal pl s0 (A.map (·.1))) i.1).1 (W.map (·.1))).map (·.1)).length := by
    simp [xRun_length]
  obtain ⟨hWl, hl⟩ := List.append_inj hl hlenW
  simp only [List.cons.injEq] at hl
  obtain ⟨hpd2, _⟩ := hl
  refine ⟨by rw [hpd2, hi2], ?_⟩
  have hmem : ∀ w ∈ W, w.2 ∈ (xRun pl (xStep pl (xFinal pl s0 (A.map (·.1))) i.1).1 (W.map (·.1))).map (·.1) := by
    intro w hw'
    rw [← hWl]
    exact List.mem_map.2 ⟨w, hw', rfl⟩
  rcases hp2 with h | h
  · left
    intro w hw'
    obtain ⟨x, hx, hxe⟩ := List.mem_map.1 (hmem w hw')
    rw [← hxe, hi2]; exact h x hx
  · right
    intro w hw'
    obtain ⟨x, hx, hxe⟩ := List.mem_map.1 (hmem w hw')
    rw [← hxe, hi2]; exact h x hx

/-! ### removing the X9 characters -/

/-- the classes X9 removes play no role in the isolate structure -/
def inert (c : BidiClass) : Bool := c != B && !isIsoInit c && c != PDI

theorem balD_filter (f : BidiClass × Nat → Bool) (W : List (BidiClass × Nat))
    (hf : ∀ z ∈ W, f z = false → inert z.1 = true) (d : Nat) :
    balD d ((W.filter f).map (·.1)) = balD d (W.map (·.1)) := by
  induction W generalizing d with
  | nil => rfl
  | cons z W ih =>
    have ihW := fun d => ih (fun z' hz' => hf z' (by simp [hz'])) d
    by_cases hz : f z = true
    · simp only [List.filter_cons, hz, if_true, List.map_cons, balD]
      split
      · rfl
      · split
        · exact ihW _
        · split
          · rw [ihW]
          · exact ihW _
    · have hin := hf z (by simp) (by simpa using hz)
      unfold inert at hin
      simp only [Bool.and_eq_true, bne_iff_ne, ne_eq, Bool.not_eq_true'] at hin
      obtain ⟨⟨h1, h2⟩, h3⟩ := hin
      have e1 : (z.1 == B) = false := by simpa using h1
      have e3 : (z.1 == PDI) = false := by simpa using h3
      simp only [List.filter_cons, hz, Bool.false_eq_true, if_false, List.map_cons, balD, e1, h2, e3]
      exact ihW d

theorem pairOK_filter (f : BidiClass × Nat → Bool) (Z : List (BidiClass × Nat))
    (hf : ∀ z ∈ Z, f z = false → inert z.1 = true) (h : PairOK Z) : PairOK (Z.filter f) := by
  intro A i W pd C hZ hi hpd hW
  rw [List.append_assoc] at hZ
  obtain ⟨A0, r1, hZ1, hA0, hr1⟩ := List.filter_eq_append_iff.1 hZ
  rw [List.cons_append] at hr1
  obtain ⟨l1, r2, hr1e, hl1, hfi, hr2⟩ := List.filter_eq_cons_iff.1 hr1
  obtain ⟨W0, r3, hr2e, hW0, hr3⟩ := List.filter_eq_append_iff.1 hr2
  obtain ⟨l3, C0, hr3e, hl3, hfpd, hC0⟩ := List.filter_eq_cons_iff.1 hr3
  have hZfull : Z = (A0 ++ l1) ++ i :: (W0 ++ l3) ++ pd :: C0 := by
    rw [hZ1, hr1e, hr2e, hr3e]; simp
  have hl3f : l3.filter f = [] := by
    rw [List.filter_eq_nil_iff]; exact hl3
  have hWf : (W0 ++ l3).filter f = W := by
    rw [List.filter_append, hW0, hl3f, List.append_nil]
  have hWbal : IsoBalanced ((W0 ++ l3).map (·.1)) := by
    rw [isoBalanced_iff] at hW ⊢
    rw [← hWf] at hW
    rw [← balD_filter f (W0 ++ l3) ?_ 0]
    · exact hW
    · intro z hz
      apply hf z
      rw [hZfull]
      simp only [List.mem_append, List.mem_cons] at hz ⊢
      rcases hz with hz | hz
      · left; right; right; left; exact hz
      · left; right; right; right; exact hz
  obtain ⟨g1, g2⟩ := h (A0 ++ l1) i (W0 ++ l3) pd C0 hZfull hi hpd hWbal
  refine ⟨g1, ?_⟩
  have hsub : ∀ w ∈ W, w ∈ W0 ++ l3 := by
    intro w hw; rw [← hWf] at hw; exact (List.mem_filter.1 hw).1
  rcases g2 with g | g
  · left; exact fun w hw => g w (hsub w hw)
  · right; exact fun w hw => g w (hsub w hw)

end UBidi.Lemmas.C01Seq
