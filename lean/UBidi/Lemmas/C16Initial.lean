/-
  C16 — the paragraph levels auto-detected by `compute_initial_info` (stack of open isolate
  initiators) against the depth-counter scan, hence against P2/P3.
-/
import UBidi.Lemmas.C16Scan
namespace UBidi.Props.C16
open UBidi BidiClass

/-- the isolate counter after a non-B character -/
def newDepth (d : Nat) (c : BidiClass) : Nat :=
  match c with
  | LRI | RLI | FSI => d + 1
  | PDI => d - 1
  | _ => d

/-- the detected paragraph level after a non-B character -/
def newPl (d : Nat) (pl : Option Nat) (c : BidiClass) : Option Nat :=
  match c with
  | L => if d = 0 ∧ pl = none then some 0 else pl
  | R | AL => if d = 0 ∧ pl = none then some 1 else pl
  | _ => pl

theorem iiStep_B (ds : DataSource) (T : Text) (st : IIState) (s : Seg) (h : ds.cls s.cp = B) :
    let st' := iiStep ds T true none st s
    st'.paras = st.paras ++ [{ start := st.paraStart, stop := s.start + T.enc.charLen s.cp, level := st.paraLevel.getD 0 }] ∧
    st'.paraStart = s.start + T.enc.charLen s.cp ∧ st'.paraLevel = none ∧ st'.stack = [] := by
  simp [iiStep, h]

theorem iiStep_nonB (ds : DataSource) (T : Text) (st : IIState) (s : Seg) (h : ds.cls s.cp ≠ B) :
    let st' := iiStep ds T true none st s
    st'.paras = st.paras ∧ st'.paraStart = st.paraStart ∧
    st'.paraLevel = newPl st.stack.length st.paraLevel (ds.cls s.cp) ∧
    st'.stack.length = newDepth st.stack.length (ds.cls s.cp) := by
  simp only [iiStep]
  cases hc : ds.cls s.cp <;> simp [newPl, newDepth, hc] at h ⊢
  all_goals (cases hs : st.stack <;> simp <;> split <;> simp_all)


/-- paragraph levels as `compute_initial_info` finds them, on classes: `d` = number of open
    isolate initiators, `pl` = level detected so far, `opn` = the current paragraph is non-empty -/
def lv : Nat → Option Nat → Bool → List BidiClass → List Nat
  | _, pl, opn, [] => if opn then [pl.getD 0] else []
  | d, pl, _, c :: cs =>
    if c = B then pl.getD 0 :: lv 0 none false cs
    else lv (newDepth d c) (newPl d pl c) true cs

/-- what `fold_levels` says about a final state -/
def finalLevels (st : IIState) (e : Nat) : List Nat :=
  st.paras.map (·.level) ++ (if st.paraStart < e then [st.paraLevel.getD 0] else [])

theorem fold_levels (ds : DataSource) (T : Text) (ss : List Seg) (st : IIState) (pos e : Nat)
    (htile : SegsFrom pos ss e) (hlen : ∀ s ∈ ss, s.len = T.enc.charLen s.cp)
    (hps : st.paraStart ≤ pos) :
    finalLevels (ss.foldl (iiStep ds T true none) st) e =
      st.paras.map (·.level) ++
        lv st.stack.length st.paraLevel (decide (st.paraStart < pos)) (ss.map (fun s => ds.cls s.cp)) := by
  induction ss generalizing st pos with
  | nil =>
    simp only [SegsFrom] at htile
    subst htile
    by_cases h : st.paraStart < pos <;> simp [lv, finalLevels, h]
  | cons s ss ih =>
    obtain ⟨hs, hpos, htl⟩ := htile
    have hl : s.len = T.enc.charLen s.cp := hlen s (by simp)
    have hlen' : ∀ s ∈ ss, s.len = T.enc.charLen s.cp := fun x hx => hlen x (by simp [hx])
    simp only [List.foldl_cons, List.map_cons]
    by_cases hc : ds.cls s.cp = B
    · obtain ⟨h1, h2, h3, h4⟩ := iiStep_B ds T st s hc
      rw [ih (iiStep ds T true none st s) (pos + s.len) htl hlen' (by rw [h2]; omega), h1, h2, h3, h4]
      simp [lv, hc, hs, hl]
    · obtain ⟨h1, h2, h3, h4⟩ := iiStep_nonB ds T st s hc
      rw [ih (iiStep ds T true none st s) (pos + s.len) htl hlen' (by rw [h2]; omega), h1, h2, h3, h4]
      have : st.paraStart < pos + s.len := by omega
      simp [lv, hc, this]


/-- the level of a paragraph: what was detected before (`pl`), else what the scan reports -/
def plAfter (pl : Option Nat) (dir : Direction) : Nat :=
  match pl with
  | some l => l
  | none => match dir with | .rtl => 1 | _ => 0

def lvParas (d : Nat) (pl : Option Nat) (opn : Bool) : List (List BidiClass) → List Nat
  | [] => if opn then [pl.getD 0] else []
  | p :: ps => plAfter pl (dirLoop false d p) :: ps.map (fun p => plAfter none (dirLoop false 0 p))

theorem lvParas_zero (ps : List (List BidiClass)) :
    lvParas 0 none false ps = ps.map (fun p => plAfter none (dirLoop false 0 p)) := by
  cases ps <;> rfl

theorem lv_eq_lvParas (d : Nat) (pl : Option Nat) (opn : Bool) (cs : List BidiClass) :
    lv d pl opn cs = lvParas d pl opn (paragraphsOf cs) := by
  induction cs generalizing d pl opn with
  | nil => rfl
  | cons c cs ih =>
    by_cases hc : c = B
    · subst c
      rw [paragraphsOf_cons_B, lvParas, ← lvParas_zero, ← ih]
      cases pl <;> simp [lv, plAfter, dirLoop]
    · cases he : paragraphsOf cs with
      | nil =>
        rw [paragraphsOf_cons_ne_nil hc he, paragraphsOf_eq_nil.1 he]
        cases c <;> cases pl <;> simp [lv, lvParas, plAfter, dirLoop, newPl] at hc ⊢ <;> split <;> simp
      | cons p ps =>
        rw [paragraphsOf_cons_ne_cons hc he]
        have ih' : ∀ d pl, lv d pl true cs =
            plAfter pl (dirLoop false d p) :: ps.map (fun p => plAfter none (dirLoop false 0 p)) := by
          intro d pl; rw [ih, he]; rfl
        cases c <;> cases pl <;> simp [lv, lvParas, plAfter, dirLoop, newPl, newDepth, ih'] at hc ⊢ <;> split <;> simp_all


theorem firstStrong_strong (fuel : Nat) (cs : List BidiClass) (c : BidiClass)
    (h : Spec.firstStrong fuel cs = some c) : c = L ∨ c = R ∨ c = AL := by
  induction fuel generalizing cs with
  | zero => simp [Spec.firstStrong] at h
  | succ fuel ih =>
    cases cs with
    | nil => simp [Spec.firstStrong] at h
    | cons a cs =>
      rw [Spec.firstStrong] at h
      split at h
      · rename_i hs
        simp at h; subst h
        simpa [Spec.isStrong, or_assoc] using hs
      · split at h
        · split at h
          · exact ih _ h
          · simp at h
        · exact ih _ h

/-- P2/P3 of a paragraph from the scan -/
theorem paraLevel_eq_plAfter (p : List BidiClass) (hp : OnlyFinalB p) :
    Spec.paraLevel none p = plAfter none (dirLoop false 0 p) := by
  rw [← firstStrong_eq_dirLoop (p.length + 1) p (by omega) hp]
  simp only [Spec.paraLevel]
  cases h : Spec.firstStrong (p.length + 1) p with
  | none => rfl
  | some c =>
    rcases firstStrong_strong _ _ _ h with rfl | rfl | rfl <;> rfl

theorem p2Dir_cases (p : List BidiClass) :
    (p2Dir p = .ltr ∧ Spec.paraLevel none p = 0) ∨ (p2Dir p = .rtl ∧ Spec.paraLevel none p = 1) ∨
    (p2Dir p = .mixed ∧ Spec.paraLevel none p = 0) := by
  simp only [Spec.paraLevel, p2Dir]
  cases h : Spec.firstStrong (p.length + 1) p with
  | none => simp
  | some c =>
    rcases firstStrong_strong _ _ _ h with rfl | rfl | rfl <;> simp

/-- the paragraph levels auto-detected by `compute_initial_info` are P2/P3 of the paragraphs -/
theorem initial_levels (ds : DataSource) (t : Text) (hwf : t.WF) :
    (computeInitialInfo ds t none true).paras.map (·.level) =
      (paragraphsOf (rawClasses ds t)).map (Spec.paraLevel none) := by
  have hf := fold_levels ds t t.segs { paraLevel := none } 0 t.len hwf.tiles hwf.lens (by simp)
  have hl : (computeInitialInfo ds t none true).paras.map (·.level) =
      finalLevels (t.segs.foldl (iiStep ds t true none) { paraLevel := none }) t.len := by
    simp only [computeInitialInfo, finalLevels, Bool.true_and]
    split <;> simp_all
  rw [hl, hf]
  simp only [List.map_nil, List.nil_append, List.length_nil, Nat.lt_irrefl, decide_false]
  rw [lv_eq_lvParas, lvParas_zero]
  apply List.map_congr_left
  intro p hp
  exact (paraLevel_eq_plAfter p (paragraphsOf_onlyFinalB _ p hp)).symm

end UBidi.Props.C16
