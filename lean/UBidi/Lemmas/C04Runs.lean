/-
  C04 helper lemmas, part 1: the generic "reverse every maximal run of elements
  satisfying `p`" function, of which `Spec.revRunsGE` is an instance, and its
  algebra (append, involution, congruence, map).
-/
import UBidi.Spec.Reorder
namespace UBidi.Lemmas.C04
open UBidi

/-- reverse every maximal contiguous run of elements satisfying `p`
    (`acc` = current run, already reversed) -/
def revRuns {β : Type} (p : β → Bool) : List β → List β → List β
  | acc, [] => acc
  | acc, x :: rest => if p x then revRuns p (x :: acc) rest else acc ++ x :: revRuns p [] rest

theorem revRunsGE_eq (lv : Nat → Nat) (k : Nat) (acc xs : List Nat) :
    Spec.revRunsGE lv k acc xs = revRuns (fun i => decide (k ≤ lv i)) acc xs := by
  induction xs generalizing acc with
  | nil => rfl
  | cons x xs ih =>
    simp only [Spec.revRunsGE, revRuns, ge_iff_le, decide_eq_true_eq]
    rw [ih, ih]

/-- a prefix whose elements all satisfy `p` is pushed on the accumulator -/
theorem revRuns_append_true {β : Type} (p : β → Bool) (ys zs acc : List β)
    (h : ∀ y ∈ ys, p y = true) :
    revRuns p acc (ys ++ zs) = revRuns p (ys.reverse ++ acc) zs := by
  induction ys generalizing acc with
  | nil => rfl
  | cons y ys ih =>
    have hy : p y = true := h y (by simp)
    simp only [List.cons_append, revRuns, hy, if_true]
    rw [ih _ (fun z hz => h z (by simp [hz]))]
    simp

/-- a prefix whose elements all fail `p` is copied -/
theorem revRuns_append_false {β : Type} (p : β → Bool) (ys zs : List β)
    (h : ∀ y ∈ ys, p y = false) :
    revRuns p [] (ys ++ zs) = ys ++ revRuns p [] zs := by
  induction ys with
  | nil => rfl
  | cons y ys ih =>
    have hy : p y = false := h y (by simp)
    simp only [List.cons_append, revRuns, hy, Bool.false_eq_true, if_false, List.nil_append]
    rw [ih (fun z hz => h z (by simp [hz]))]

/-- the accumulator is flushed when the rest is empty or starts with a non-`p` element -/
theorem revRuns_flush {β : Type} (p : β → Bool) (acc zs : List β)
    (h : ∀ z, zs.head? = some z → p z = false) :
    revRuns p acc zs = acc ++ revRuns p [] zs := by
  cases zs with
  | nil => simp [revRuns]
  | cons z zs =>
    have hz : p z = false := h z rfl
    simp [revRuns, hz]

/-- one maximal run -/
theorem revRuns_run {β : Type} (p : β → Bool) (ys zs : List β)
    (h : ∀ y ∈ ys, p y = true) (hz : ∀ z, zs.head? = some z → p z = false) :
    revRuns p [] (ys ++ zs) = ys.reverse ++ revRuns p [] zs := by
  rw [revRuns_append_true p ys zs [] h, revRuns_flush p _ zs hz]
  simp

theorem revRuns_all_false {β : Type} (p : β → Bool) (ys : List β)
    (h : ∀ y ∈ ys, p y = false) : revRuns p [] ys = ys := by
  have := revRuns_append_false p ys [] h
  simpa [revRuns] using this

/-- reversing the runs twice gives the list back -/
theorem revRuns_invol_acc {β : Type} (p : β → Bool) (acc xs : List β)
    (h : ∀ y ∈ acc, p y = true) :
    revRuns p [] (revRuns p acc xs) = acc.reverse ++ xs := by
  induction xs generalizing acc with
  | nil =>
    have := revRuns_append_true p acc [] [] h
    simpa [revRuns] using this
  | cons x xs ih =>
    by_cases hx : p x = true
    · simp only [revRuns, hx, if_true]
      rw [ih (x :: acc) (by intro y hy; simp at hy; rcases hy with rfl | hy; exact hx; exact h y hy)]
      simp
    · have hx' : p x = false := by simpa using hx
      simp only [revRuns, hx', Bool.false_eq_true, if_false]
      rw [revRuns_append_true p acc _ [] h]
      simp only [revRuns, hx', Bool.false_eq_true, if_false, List.append_nil]
      rw [ih [] (by simp)]
      simp

theorem revRuns_invol {β : Type} (p : β → Bool) (xs : List β) :
    revRuns p [] (revRuns p [] xs) = xs := by
  simpa using revRuns_invol_acc p [] xs (by simp)

/-- mapping through a function that transports the predicate -/
theorem revRuns_map {β γ : Type} (p : β → Bool) (q : γ → Bool) (f : β → γ) (acc zs : List β)
    (h : ∀ z ∈ zs, p z = q (f z)) :
    (revRuns p acc zs).map f = revRuns q (acc.map f) (zs.map f) := by
  induction zs generalizing acc with
  | nil => rfl
  | cons z zs ih =>
    have hz : p z = q (f z) := h z (by simp)
    have h' : ∀ y ∈ zs, p y = q (f y) := fun y hy => h y (by simp [hy])
    simp only [revRuns, List.map_cons, ← hz]
    by_cases hp : p z = true
    · simp only [hp, if_true]; rw [ih _ h']; rfl
    · have hp' : p z = false := by simpa using hp
      simp only [hp', Bool.false_eq_true, if_false]; rw [List.map_append, List.map_cons, ih _ h']; rfl

/-- a function that is constant (`= c`) on the `p`-elements does not see the reversal -/
theorem revRuns_map_const {β γ : Type} (p : β → Bool) (f : β → γ) (c : γ) (acc xs : List β)
    (hacc : ∀ a ∈ acc, f a = c) (h : ∀ x ∈ xs, p x = true → f x = c) :
    (revRuns p acc xs).map f = List.replicate acc.length c ++ xs.map f := by
  induction xs generalizing acc with
  | nil =>
    simp only [revRuns, List.map_nil, List.append_nil]
    exact List.eq_replicate_iff.mpr ⟨by simp, by simpa using hacc⟩
  | cons x xs ih =>
    have h' : ∀ y ∈ xs, p y = true → f y = c := fun y hy => h y (by simp [hy])
    by_cases hp : p x = true
    · simp only [revRuns, hp, if_true]
      rw [ih (x :: acc) (by intro a ha; simp at ha; rcases ha with rfl | ha; exact h _ (by simp) hp; exact hacc a ha) h']
      simp [List.replicate_succ', h x (by simp) hp]
    · have hp' : p x = false := by simpa using hp
      simp only [revRuns, hp', Bool.false_eq_true, if_false, List.map_append, List.map_cons]
      rw [ih [] (by simp) h']
      have : acc.map f = List.replicate acc.length c :=
        List.eq_replicate_iff.mpr ⟨by simp, by simpa using hacc⟩
      simp [this]

theorem revRuns_map_const' {β γ : Type} (p : β → Bool) (f : β → γ) (c : γ) (xs : List β)
    (h : ∀ x ∈ xs, p x = true → f x = c) :
    (revRuns p [] xs).map f = xs.map f := by
  simpa using revRuns_map_const p f c [] xs (by simp) h

/-- `revRuns` permutes -/
theorem revRuns_perm {β : Type} (p : β → Bool) (acc xs : List β) :
    List.Perm (revRuns p acc xs) (acc ++ xs) := by
  induction xs generalizing acc with
  | nil => simp [revRuns]
  | cons x xs ih =>
    by_cases hp : p x = true
    · simp only [revRuns, hp, if_true]
      refine (ih (x :: acc)).trans ?_
      simpa using (List.perm_middle (l₁ := acc) (a := x) (l₂ := xs)).symm
    · have hp' : p x = false := by simpa using hp
      simp only [revRuns, hp', Bool.false_eq_true, if_false]
      exact List.Perm.append_left acc (List.Perm.cons x (by simpa using ih []))

end UBidi.Lemmas.C04
