/-
  UBidi.Lemmas.C10LinesBasic — for C10 (line queries on a paragraph's substring vs the whole text):
  `slice` of `slice`, `subrange` of `subrange`, character boundaries of a sub-range, and the shift lemma
  for `reorderedLevels` (rule L1 on a line).
-/
import UBidi.Model.Reorder
import UBidi.Lemmas.C03Line
namespace UBidi.Lemmas.C10Lines
open UBidi UBidi.Lemmas.C03

theorem length_slice {α} (xs : List α) (a b : Nat) : (slice xs a b).length = min (b - a) (xs.length - a) := by
  simp [slice]

theorem length_slice_of_le {α} (xs : List α) (a b : Nat) (h : b ≤ xs.length) : (slice xs a b).length = b - a := by
  rw [length_slice]; omega

theorem slice_slice {α} (xs : List α) (s e i j : Nat) (hj : s + j ≤ e) :
    slice (slice xs s e) i j = slice xs (s + i) (s + j) := by
  apply List.ext_getElem?
  intro k
  simp only [getElem?_slice]
  by_cases h : k < j - i
  · rw [if_pos h, if_pos (by omega), if_pos (by omega)]; congr 1; omega
  · rw [if_neg h, if_neg (by omega)]

/-- the form used below: a line `[a,b)` inside `[s,e)` -/
theorem slice_slice_sub {α} (xs : List α) (s e a b : Nat) (hs : s ≤ a) (hab : a ≤ b) (hbe : b ≤ e) :
    slice (slice xs s e) (a - s) (b - s) = slice xs a b := by
  rw [slice_slice xs s e _ _ (by omega)]
  congr 1 <;> omega

theorem getD_slice_sub {α} (xs : List α) (s e i : Nat) (d : α) (hi : s + i < e) :
    (slice xs s e).getD i d = xs.getD (s + i) d := by
  simp only [List.getD_eq_getElem?_getD, getElem?_slice]
  rw [if_pos (by omega)]

/-- a sub-range of a sub-range is the sub-range (for every text) -/
theorem subrange_subrange (t : Text) (s e a b : Nat) (hs : s ≤ a) (hab : a ≤ b) (hbe : b ≤ e) :
    (t.subrange s e).subrange (a - s) (b - s) = t.subrange a b := by
  simp only [Text.subrange, List.filter_map, List.map_map, List.filter_filter]
  congr 1
  · omega
  · have hf : ∀ x : Seg, (((fun s_1 : Seg => decide (a - s ≤ s_1.start) && decide (s_1.start < b - s)) ∘ fun s_1 : Seg =>
                ({ start := s_1.start - s, cp := s_1.cp, len := s_1.len } : Seg)) x &&
            (decide (s ≤ x.start) && decide (x.start < e))) = (decide (a ≤ x.start) && decide (x.start < b)) := by
      intro x
      simp only [Function.comp]
      rw [Bool.eq_iff_iff]
      simp only [Bool.and_eq_true, decide_eq_true_eq]
      omega
    simp only [hf]
    apply List.map_congr_left
    intro x hx
    simp only [List.mem_filter, Bool.and_eq_true, decide_eq_true_eq] at hx
    simp only [Function.comp]
    congr 1
    omega

/-- character boundaries of the sub-range `[s,e)` (`e` a boundary of the text) are those of the text, shifted -/
theorem isBoundary_subrange (t : Text) (s e x : Nat) (hs : s ≤ x) (hx : x ≤ e) (he : e ≤ t.len)
    (hbe : t.isBoundary e = true) : (t.subrange s e).isBoundary (x - s) = t.isBoundary x := by
  rw [Bool.eq_iff_iff, isBoundary_iff, isBoundary_iff]
  by_cases hxe : x = e
  · subst hxe
    rw [isBoundary_iff] at hbe
    exact ⟨fun _ => hbe, fun _ => Or.inl rfl⟩
  · simp only [IsBdy, Text.subrange, List.mem_map, List.mem_filter, Bool.and_eq_true, decide_eq_true_eq]
    constructor
    · rintro (h | ⟨_, ⟨g, ⟨hg, h1, h2⟩, rfl⟩, h⟩)
      · omega
      · exact Or.inr ⟨g, hg, by simp only at h; omega⟩
    · rintro (h | ⟨g, hg, h⟩)
      · omega
      · exact Or.inr ⟨_, ⟨g, ⟨hg, by omega, by omega⟩, rfl⟩, by simp only; omega⟩

/-- replacing the part `[a,b)` of a vector and then restricting to `[s,e)` -/
theorem slice_splice {α} (xs ll : List α) (s e a b : Nat) (hs : s ≤ a) (hab : a ≤ b) (hbe : b ≤ e)
    (he : e ≤ xs.length) (hll : ll.length = b - a) :
    slice (xs.take a ++ ll ++ xs.drop b) s e
      = (slice xs s e).take (a - s) ++ ll ++ (slice xs s e).drop (b - s) := by
  apply List.ext_getElem?
  intro k
  simp only [getElem?_slice, List.getElem?_append, List.getElem?_take, List.getElem?_drop, List.length_append,
    List.length_take, length_slice_of_le xs s e he, hll]
  repeat' split
  all_goals first | rfl | omega | (congr 1; omega)

/-- **L1 on a line, inside a paragraph**: `reordered_levels` for the line `[a,b)` of the whole text, restricted
    to `[s,e)`, is `reordered_levels` for the line `[a-s, b-s)` of the sub-text `[s,e)` with the restricted
    classes and levels; same panic behaviour.  (`e` must be a character boundary for the `str`-slicing check
    to agree; nothing else is assumed about the text.) -/
theorem reorderedLevels_shift (t : Text) (classes : Classes) (levels : List Nat) (pl s e a b : Nat)
    (hs : s ≤ a) (hab : a ≤ b) (hbe : b ≤ e) (het : e ≤ t.len) (hec : e ≤ classes.length)
    (hel : e ≤ levels.length) (hbd : t.isBoundary e = true) :
    slice (reorderedLevels t classes levels pl a b).1 s e
        = (reorderedLevels (t.subrange s e) (slice classes s e) (slice levels s e) pl (a - s) (b - s)).1 ∧
      (reorderedLevels t classes levels pl a b).2
        = (reorderedLevels (t.subrange s e) (slice classes s e) (slice levels s e) pl (a - s) (b - s)).2 := by
  have c1 : (decide (a > levels.length) || decide (b > levels.length)) = false := by simp; omega
  have c2 : (decide (a > b) || decide (b > classes.length)) = false := by simp; omega
  have c1' : (decide (a - s > (slice levels s e).length) || decide (b - s > (slice levels s e).length)) = false := by
    rw [length_slice_of_le _ _ _ hel]; simp; omega
  have c2' : (decide (a - s > b - s) || decide (b - s > (slice classes s e).length)) = false := by
    rw [length_slice_of_le _ _ _ hec]; simp; omega
  have hba := isBoundary_subrange t s e a hs (by omega) het hbd
  have hbb := isBoundary_subrange t s e b (by omega) hbe het hbd
  have henc : (t.subrange s e).enc = t.enc := rfl
  unfold reorderedLevels
  rw [c1, c2, c1', c2']
  simp only [Bool.false_eq_true, if_false, henc, hba, hbb]
  by_cases hc : (t.enc == Enc.utf8 && !(t.isBoundary a && t.isBoundary b)) = true
  · simp only [hc, if_true, and_self]
  · simp only [hc, if_false, Bool.false_eq_true]
    rw [slice_slice_sub classes s e a b hs hab hbe, slice_slice_sub levels s e a b hs hab hbe,
      subrange_subrange t s e a b hs hab hbe]
    refine ⟨?_, rfl⟩
    apply slice_splice _ _ _ _ _ _ hs hab hbe hel
    rw [length_reorderLevels, length_slice_of_le _ _ _ (by omega)]

end UBidi.Lemmas.C10Lines
