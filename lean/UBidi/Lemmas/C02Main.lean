/-
  C02 helper lemmas: the shape of the output of `computeInitialInfo` (the text
  cut into paragraphs, paragraph records and per-unit classes given by the
  Spec paragraph by paragraph), and what that shape says unit by unit.
-/
import UBidi.Lemmas.C02Inv
namespace UBidi.Lemmas.C02
open UBidi BidiClass Spec

/-! ### projections of `computeInitialInfo` -/

section proj
variable (ds : DataSource) (t : Text) (dflt : Option Nat) (split : Bool)

/-- the state after the scan -/
def finalState : IIState := t.segs.foldl (iiStep ds t split dflt) { paraLevel := dflt }

theorem cii_classes : (computeInitialInfo ds t dflt split).classes = (finalState ds t dflt split).classes := by
  simp only [computeInitialInfo, finalState]
theorem cii_err : (computeInitialInfo ds t dflt split).err = (finalState ds t dflt split).err := by
  simp only [computeInitialInfo, finalState]
theorem cii_lastLevel :
    (computeInitialInfo ds t dflt split).lastLevel = (finalState ds t dflt split).paraLevel.getD 0 := by
  simp only [computeInitialInfo, finalState]
theorem cii_paras :
    (computeInitialInfo ds t dflt split).paras =
      if split && (finalState ds t dflt split).paraStart < t.len then
        (finalState ds t dflt split).paras ++
          [{ start := (finalState ds t dflt split).paraStart, stop := t.len,
             level := (finalState ds t dflt split).paraLevel.getD 0 }]
      else (finalState ds t dflt split).paras := by
  unfold finalState
  simp only [computeInitialInfo]
  split <;> rfl
theorem cii_flags_length :
    (computeInitialInfo ds t dflt split).flags.length =
      if split && (finalState ds t dflt split).paraStart < t.len then
        (finalState ds t dflt split).flags.length + 1
      else (finalState ds t dflt split).flags.length := by
  unfold finalState
  simp only [computeInitialInfo]
  split <;> simp

/-- the ghost state after the scan -/
def finalGhost : Ghost := t.segs.foldl (gStep ds split) {}

theorem final_rel (hwf : t.WF) :
    Rel1 ds split dflt (finalGhost ds t split) (finalState ds t dflt split) ∧
    (finalGhost ds t split).pos = t.len ∧
    Rel2 ds t dflt (finalGhost ds t split) (finalState ds t dflt split) := by
  have := rel_fold ds t split dflt t.len t.segs {} { paraLevel := dflt } (rel1_init ds split dflt)
    hwf.tiles hwf.lens
  exact ⟨this.1, this.2.1, this.2.2 (rel2_init ds t dflt) (charAt_start t hwf)⟩

theorem final_segs : (finalGhost ds t split).chunks.flatten ++ (finalGhost ds t split).cur = t.segs := by
  have := gFold_segs ds split t.segs {}
  simpa [finalGhost] using this

end proj

/-! ### paragraphs -/

/-- a paragraph: characters without separator, then one more character -/
def IsPara (ds : DataSource) (ch : List Seg) : Prop :=
  ∃ xs b, ch = xs ++ [b] ∧ ∀ s ∈ xs, ds.cls s.cp ≠ B

theorem isPara_of_isChunk {ds : DataSource} {ch : List Seg} (h : IsChunk ds ch) : IsPara ds ch := by
  obtain ⟨xs, b, h1, h2, _⟩ := h; exact ⟨xs, b, h1, h2⟩

theorem isPara_of_noB {ds : DataSource} {ch : List Seg} (hne : ch ≠ []) (h : ∀ s ∈ ch, ds.cls s.cp ≠ B) :
    IsPara ds ch := by
  refine ⟨ch.dropLast, ch.getLast hne, (List.dropLast_concat_getLast hne).symm, ?_⟩
  intro s hs; exact h s (List.dropLast_subset _ hs)

/-- the classes of a paragraph are a separator-free body and a tail -/
theorem isPara_split {ds : DataSource} {ch : List Seg} (h : IsPara ds ch) :
    ∃ xs tl, clsOf ds ch = xs ++ tl ∧ (∀ c ∈ xs, c ≠ B) ∧ IsTail tl := by
  obtain ⟨ys, b, rfl, h2⟩ := h
  have hys : ∀ c ∈ clsOf ds ys, c ≠ B := by
    intro c hc
    simp only [clsOf, List.mem_map] at hc
    obtain ⟨x, hx, rfl⟩ := hc
    exact h2 x hx
  by_cases hb : ds.cls b.cp = B
  · exact ⟨clsOf ds ys, [B], by rw [clsOf_snoc, hb], hys, Or.inr rfl⟩
  · refine ⟨clsOf ds ys ++ [ds.cls b.cp], [], by rw [clsOf_snoc]; simp, ?_, Or.inl rfl⟩
    intro c hc
    rcases List.mem_append.1 hc with hc | hc
    · exact hys c hc
    · simp only [List.mem_singleton] at hc; rw [hc]; exact hb

theorem resolveScan_append_tail (xs tl : List BidiClass) : (resolveScan xs ++ tl).length = (xs ++ tl).length := by
  simp [resolveScan_length]

theorem resolveFSI_length_para {ds : DataSource} {ch : List Seg} (h : IsPara ds ch) :
    (Spec.resolveFSI (clsOf ds ch)).length = ch.length := by
  obtain ⟨xs, tl, h1, h2, h3⟩ := isPara_split h
  rw [h1, resolveFSI_eq xs h2 tl h3, resolveScan_append_tail, ← h1]; simp

/-! ### the output in split mode -/

/-- the paragraphs of the text: the finished ones and, if the text does not end
    with a separator, the rest -/
def allChunks (done : List (List Seg)) (cur : List Seg) : List (List Seg) :=
  done ++ (if cur = [] then [] else [cur])

theorem allChunks_flatten (done : List (List Seg)) (cur : List Seg) :
    (allChunks done cur).flatten = done.flatten ++ cur := by
  unfold allChunks; split <;> simp_all

theorem split_structure (ds : DataSource) (t : Text) (dflt : Option Nat) (hwf : t.WF) :
    ∃ (done : List (List Seg)) (cur : List Seg),
      (allChunks done cur).flatten = t.segs ∧
      (∀ ch ∈ done, IsChunk ds ch) ∧ (∀ s ∈ cur, ds.cls s.cp ≠ B) ∧
      (computeInitialInfo ds t dflt true).paras = (allChunks done cur).map (mkPara ds dflt) ∧
      (computeInitialInfo ds t dflt true).flags.length = (computeInitialInfo ds t dflt true).paras.length ∧
      (computeInitialInfo ds t dflt true).classes = ((allChunks done cur).map (chunkClasses ds)).flatten := by
  obtain ⟨r1, hpos, r2⟩ := final_rel ds t dflt true hwf
  have hsegs := final_segs ds t true
  refine ⟨(finalGhost ds t true).chunks, (finalGhost ds t true).cur, ?_, r1.chunksOK, r1.curOK rfl, ?_, ?_, ?_⟩
  · rw [allChunks_flatten]; exact hsegs
  · -- paragraph records
    rw [cii_paras]
    have htc := r1.tilesCur
    rw [hpos] at htc
    by_cases hcur : (finalGhost ds t true).cur = []
    · rw [hcur] at htc
      have : (finalState ds t dflt true).paraStart = t.len := htc
      simp only [allChunks, hcur, if_true, List.append_nil, this, Nat.lt_irrefl, decide_false,
        Bool.and_false, Bool.false_eq_true, if_false]
      exact r1.paras
    · have hlt := segsFrom_lt_of_ne_nil _ _ _ htc hcur
      simp only [allChunks, hcur, if_false, hlt, decide_true, Bool.and_self, if_true, List.map_append,
        List.map_cons, List.map_nil]
      rw [r1.paras]
      congr 1
      simp only [mkPara, List.cons.injEq, and_true]
      rw [chunkStart_eq _ _ _ htc hcur, chunkStop_eq _ _ _ htc hcur, r1.lvl]
      have := cRun_level_spec dflt (clsOf ds (finalGhost ds t true).cur) (fun c hc => by
        simp only [clsOf, List.mem_map] at hc
        obtain ⟨x, hx, rfl⟩ := hc
        exact r1.curOK rfl x hx) [] (Or.inl rfl)
      rw [this]; simp
  · rw [cii_flags_length, cii_paras]
    split
    · simp [r1.flags]
    · exact r1.flags
  · rw [cii_classes, r2.classes]
    have := cRun_cls_spec dflt (clsOf ds (finalGhost ds t true).cur) (fun c hc => by
        simp only [clsOf, List.mem_map] at hc
        obtain ⟨x, hx, rfl⟩ := hc
        exact r1.curOK rfl x hx) [] (Or.inl rfl)
    simp only [List.append_nil] at this
    by_cases hcur : (finalGhost ds t true).cur = []
    · simp [allChunks, hcur]
    · simp [allChunks, hcur, chunkClasses, this]

/-! ### the output in single-paragraph mode -/

theorem single_structure (ds : DataSource) (t : Text) (dflt : Option Nat) (hwf : t.WF) :
    (computeInitialInfo ds t dflt false).lastLevel = (cRun dflt (clsOf ds t.segs)).lvl.getD 0 ∧
    (computeInitialInfo ds t dflt false).classes = expand t.segs (cRun dflt (clsOf ds t.segs)).cls := by
  obtain ⟨r1, hpos, r2⟩ := final_rel ds t dflt false hwf
  have hsegs := final_segs ds t false
  have hch := r1.nosplit rfl
  rw [hch] at hsegs
  simp only [List.flatten_nil, List.nil_append] at hsegs
  refine ⟨?_, ?_⟩
  · rw [cii_lastLevel, r1.lvl, hsegs]
  · rw [cii_classes, r2.classes, hch, hsegs]; simp

/-- both modes: length of the classes, and no panic -/
theorem classes_length (ds : DataSource) (t : Text) (dflt : Option Nat) (split : Bool) (hwf : t.WF) :
    (computeInitialInfo ds t dflt split).classes.length = t.len := by
  obtain ⟨r1, hpos, _⟩ := final_rel ds t dflt split hwf
  rw [cii_classes, r1.len, hpos]

theorem no_panic (ds : DataSource) (t : Text) (dflt : Option Nat) (split : Bool) (hwf : t.WF) :
    (computeInitialInfo ds t dflt split).err = none := by
  obtain ⟨_, _, r2⟩ := final_rel ds t dflt split hwf
  rw [cii_err]; exact r2.err

/-! ### unit by unit -/

theorem mem_getD {ss : List Seg} {s : Seg} (h : s ∈ ss) : ∃ i, i < ss.length ∧ ss.getD i default = s := by
  obtain ⟨i, hi, rfl⟩ := List.getElem_of_mem h
  exact ⟨i, hi, by simp [List.getD_eq_getElem?_getD, List.getElem?_eq_getElem hi]⟩

/-- within `A ++ expand ss ks ++ C`: the classes read at the characters' first units -/
theorem expand_read (ss : List Seg) (ks A C : List BidiClass) (b : Nat) (h : SegsFrom A.length ss b)
    (hl : ss.length = ks.length) :
    ss.map (fun s => (A ++ expand ss ks ++ C).getD s.start ON) = ks := by
  apply ext_getD
  · simp [hl]
  · intro i hi
    have hi' : i < ss.length := by simpa using hi
    have hm : ss.getD i default ∈ ss := by
      rw [List.getD_eq_getElem?_getD, List.getElem?_eq_getElem hi']; simp
    have hpos := (segsFrom_mem _ _ _ h _ hm).2.2
    have := expand_getD ss ks A C b h hl i hi' 0 hpos
    rw [← this]
    simp [List.getD_eq_getElem?_getD, List.getElem?_eq_getElem hi']

/-- within `A ++ expand ss ks ++ C`: all units of a character carry the same class -/
theorem expand_uniform (ss : List Seg) (ks A C : List BidiClass) (b : Nat) (h : SegsFrom A.length ss b)
    (hl : ss.length = ks.length) (s : Seg) (hs : s ∈ ss) (j : Nat) (hj : j < s.len) :
    (A ++ expand ss ks ++ C).getD (s.start + j) ON = (A ++ expand ss ks ++ C).getD s.start ON := by
  obtain ⟨i, hi, rfl⟩ := mem_getD hs
  have h0 := expand_getD ss ks A C b h hl i hi 0 (by omega)
  have h1 := expand_getD ss ks A C b h hl i hi j hj
  rw [h1, ← h0]; rfl

/-- the per-unit classes of a list of paragraphs are as long as the paragraphs -/
theorem chunkClasses_length (ds : DataSource) : ∀ (chunks : List (List Seg)) (a b : Nat),
    (∀ ch ∈ chunks, IsPara ds ch) → SegsFrom a chunks.flatten b →
    a + ((chunks.map (chunkClasses ds)).flatten).length = b := by
  intro chunks
  induction chunks with
  | nil => intro a b _ h; simpa [SegsFrom] using h
  | cons ch rest ih =>
    intro a b hp h
    simp only [List.flatten_cons] at h
    obtain ⟨m, h1, h2⟩ := (segsFrom_append _ _ _ _).1 h
    have hch := hp ch (by simp)
    have := expand_length ch (Spec.resolveFSI (clsOf ds ch)) a m h1 (resolveFSI_length_para hch).symm
    have := ih m b (fun c hc => hp c (by simp [hc])) h2
    simp only [List.map_cons, List.flatten_cons, List.length_append, chunkClasses] at *
    omega

/-- a paragraph inside the list of all paragraphs, with its surroundings -/
theorem chunk_context (ds : DataSource) (chunks : List (List Seg)) (e : Nat)
    (hp : ∀ ch ∈ chunks, IsPara ds ch) (ht : SegsFrom 0 chunks.flatten e) (ch : List Seg) (hch : ch ∈ chunks) :
    ∃ (c1 c2 : List (List Seg)) (a b : Nat), chunks = c1 ++ ch :: c2 ∧
      SegsFrom 0 c1.flatten a ∧ SegsFrom a ch b ∧ SegsFrom b c2.flatten e ∧
      ((c1.map (chunkClasses ds)).flatten).length = a := by
  obtain ⟨c1, c2, rfl⟩ := List.append_of_mem hch
  simp only [List.flatten_append, List.flatten_cons] at ht
  obtain ⟨a, h1, h2⟩ := (segsFrom_append _ _ _ _).1 ht
  obtain ⟨b, h3, h4⟩ := (segsFrom_append _ _ _ _).1 h2
  refine ⟨c1, c2, a, b, rfl, h1, h3, h4, ?_⟩
  have := chunkClasses_length ds c1 0 a (fun c hc => hp c (by simp [hc])) h1
  omega

/-- the characters that start inside a paragraph are the paragraph -/
theorem filter_chunk (X ch Y : List Seg) (a b e : Nat) (h1 : SegsFrom 0 X a) (h2 : SegsFrom a ch b)
    (h3 : SegsFrom b Y e) :
    (X ++ ch ++ Y).filter (fun s => decide (a ≤ s.start) && decide (s.start < b)) = ch := by
  rw [List.filter_append, List.filter_append]
  have hX : X.filter (fun s => decide (a ≤ s.start) && decide (s.start < b)) = [] := by
    rw [List.filter_eq_nil_iff]
    intro s hs
    have := segsFrom_mem _ _ _ h1 s hs
    simp; omega
  have hY : Y.filter (fun s => decide (a ≤ s.start) && decide (s.start < b)) = [] := by
    rw [List.filter_eq_nil_iff]
    intro s hs
    have := segsFrom_mem _ _ _ h3 s hs
    simp; omega
  have hC : ch.filter (fun s => decide (a ≤ s.start) && decide (s.start < b)) = ch := by
    rw [List.filter_eq_self]
    intro s hs
    have := segsFrom_mem _ _ _ h2 s hs
    simp; omega
  rw [hX, hY, hC]; simp

end UBidi.Lemmas.C02
