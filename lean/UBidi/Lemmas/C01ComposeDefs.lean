/-
  C01 / composition — vocabulary.

  * `ExplicitShape` — what the explicit stage hands to the weak stage, seen from one isolating run
    sequence of a single-unit text.
  * `WeakOutOK` — the three hypotheses `hK`, `hW`, `hN` of `stageN_bn` for the weak stage's output.
    "The weak stage's output satisfies them" (`WeakInv`) is the one residual hypothesis of the
    C01 theorems; a separate proof (files `C01WeakInv*`, `C01ComposeWeak.weakInv`) discharges it for
    every data source.
  * `BracketsNotNSM`, `BracketClassesOK`, `brkClassOK` — NO LONGER NEEDED by any theorem.  They were
    what the theorems needed from the data source while the crate's N0 sweep after a changed bracket
    tested the current type of a unit (`== BN`) and wrote removed units: a character with the
    Bidi_Paired_Bracket property had to be neither a non-spacing mark nor a number separator /
    terminator (for such a data source the crate and UAX #9 then differed; every real bracket has
    class ON, `Props.C01Levels.hardcoded_bracketClassesOK`).  With the sweep looking at original
    classes only, the C01 theorems hold for every data source.  The definitions are kept for the
    statements that mention them.
-/
import UBidi.Lemmas.C01NeutralBN
import UBidi.Lemmas.C01WeakSeq
namespace UBidi.Lemmas.C01Compose
open UBidi UBidi.BidiClass UBidi.Lemmas.C01Neutral UBidi.Lemmas.C01Weak

/-- a bracket character is not a non-spacing mark -/
def BracketsNotNSM (ds : DataSource) : Prop := ∀ c, (ds.brk c).isSome = true → ds.cls c ≠ NSM

/-- a bracket character is neither a non-spacing mark nor a number separator / terminator
    (for the Unicode data every bracket has class ON) -/
def BracketClassesOK (ds : DataSource) : Prop :=
  ∀ c, (ds.brk c).isSome = true → ds.cls c ≠ NSM ∧ ds.cls c ≠ ES ∧ ds.cls c ≠ CS ∧ ds.cls c ≠ ET

theorem BracketClassesOK.notNSM {ds : DataSource} (h : BracketClassesOK ds) : BracketsNotNSM ds :=
  fun c hc => (h c hc).1

/-- the class of a bracket character, as a predicate on classes -/
def brkClassOK (c : BidiClass) : Prop := c ≠ NSM ∧ c ≠ ES ∧ c ≠ CS ∧ c ≠ ET

/-- what the explicit stage (X1–X8, with the characters X9 removes retained as BN) hands over, seen
    from one isolating run sequence `seq` of a single-unit text `t`: `ocs` original classes, `pcs0`
    the array the weak stage starts from -/
structure ExplicitShape (t : Text) (seq : IRSeq) (ocs pcs0 : Classes) : Prop where
  wf : t.WF
  unit : ∀ s ∈ t.segs, s.len = 1
  bound : ∀ r ∈ seq.runs, r.2 ≤ t.len
  sorted : seq.runs.Pairwise (fun r1 r2 => r1.2 ≤ r2.1)
  runs : runsOK 0 seq.runs pcs0.length = true
  plen : pcs0.length = t.len
  olen : ocs.length = t.len
  sos : seq.sos = L ∨ seq.sos = R
  eos : seq.eos = L ∨ seq.eos = R
  /-- a removed character is retained as BN -/
  rem : ∀ i ∈ seq.indices, keepU ocs i = false → cget pcs0 i = BN
  /-- a kept character never carries a removed type -/
  kept : ∀ i ∈ seq.indices, keepU ocs i = true → (cget pcs0 i).removedByX9 = false
  /-- a kept character carries its own class or the override's L / R -/
  ov : ∀ i ∈ seq.indices, keepU ocs i = true →
    cget pcs0 i = cget ocs i ∨ cget pcs0 i = L ∨ cget pcs0 i = R

/-- the hypotheses `hK`, `hW`, `hN` of `stageN_bn`, for the array `resolve_weak` leaves -/
def WeakOutOK (ds : DataSource) (t : Text) (seq : IRSeq) (ocs pcs0 : Classes) : Prop :=
  let out := resolveWeak (fun _ => some 1) seq pcs0
  (∀ i ∈ seq.indices, keepU ocs i = true → cget out i ≠ BN) ∧
  (∀ p ∈ seq.indices, keepU ocs p = false →
    cget out p = BN ∨ cget out p = ON ∨ FwdWit seq.indices ocs out p) ∧
  (∀ x ∈ seqChars t seq, keepU ocs x.2.start = true → (ds.brk x.2.cp).isSome = true →
    cget out x.2.start = ON →
    ∀ k ∈ seq.indices, keepU ocs k = true → InTrail seq.indices ocs x.2.start k →
    ∀ p ∈ seq.indices, x.2.start < p → p < k → keepU ocs p = false → cget out p = BN ∨ cget out p = ON)

/-- **the residual hypothesis**: whatever the explicit stage hands over, the weak stage's output meets
    the hypotheses of the neutral stage's lemma (`weak_hK`, `weak_hW`, `weak_hN`) -/
def WeakInv (ds : DataSource) : Prop :=
  ∀ (t : Text) (seq : IRSeq) (ocs pcs0 : Classes), ExplicitShape t seq ocs pcs0 → WeakOutOK ds t seq ocs pcs0

end UBidi.Lemmas.C01Compose
