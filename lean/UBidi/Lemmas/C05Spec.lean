/-
  C05 helper lemmas, part 3: `Spec.l2` on a line starting at `a`, written as the same fold of
  passes as the Model's loop (from the highest level down to the lowest odd level at or above the
  minimum, instead of the lowest odd level present).
-/
import UBidi.Lemmas.C05Order
namespace UBidi.Lemmas.C05
open UBidi

theorem foldl_min_le (xs : List Nat) (x : Nat) :
    xs.foldl min x ≤ x ∧ ∀ y ∈ xs, xs.foldl min x ≤ y := by
  induction xs generalizing x with
  | nil => simp
  | cons z zs ih =>
    have := ih (min x z)
    simp only [List.foldl_cons, List.mem_cons]
    refine ⟨by omega, fun y hy => ?_⟩
    rcases hy with rfl | hy
    · omega
    · exact this.2 y hy

theorem foldl_min_mem (xs : List Nat) (x : Nat) : xs.foldl min x ∈ x :: xs := by
  induction xs generalizing x with
  | nil => simp
  | cons z zs ih =>
    have := ih (min x z)
    simp only [List.foldl_cons, List.mem_cons] at this ⊢
    rcases this with h | h
    · rw [h]; rcases Nat.le_total x z with h1 | h1
      · left; omega
      · right; left; omega
    · right; right; exact h

theorem foldl_max_ge (xs : List Nat) (x : Nat) :
    x ≤ xs.foldl max x ∧ ∀ y ∈ xs, y ≤ xs.foldl max x := by
  induction xs generalizing x with
  | nil => simp
  | cons z zs ih =>
    have := ih (max x z)
    simp only [List.foldl_cons, List.mem_cons]
    refine ⟨by omega, fun y hy => ?_⟩
    rcases hy with rfl | hy
    · omega
    · exact this.2 y hy

theorem foldl_max_mem (xs : List Nat) (x : Nat) : xs.foldl max x ∈ x :: xs := by
  induction xs generalizing x with
  | nil => simp
  | cons z zs ih =>
    have := ih (max x z)
    simp only [List.foldl_cons, List.mem_cons] at this ⊢
    rcases this with h | h
    · rw [h]; rcases Nat.le_total x z with h1 | h1
      · right; left; omega
      · left; omega
    · right; right; exact h

/-- the maximum does not depend on a start value taken from the list -/
theorem foldl_max_start (xs : List Nat) (x : Nat) (hx : x ∈ xs) :
    xs.foldl max x = xs.foldl max 0 := by
  have h1 := foldl_max_ge xs x
  have h2 := foldl_max_ge xs 0
  have m1 := foldl_max_mem xs x
  have m2 := foldl_max_mem xs 0
  apply Nat.le_antisymm
  · rcases List.mem_cons.1 m1 with h | h
    · rw [h]; exact h2.2 x hx
    · exact h2.2 _ h
  · rcases List.mem_cons.1 m2 with h | h
    · rw [h]; exact Nat.zero_le _
    · exact h1.2 _ h

/-- the level of unit `u` of a line that starts at `a` and has levels `L` -/
def unitLevel (L : List Nat) (a : Nat) (u : Nat) : Nat := L.getD (u - a) 0

theorem unitLevel_mem (L : List Nat) (a u : Nat) : unitLevel L a u = 0 ∨ unitLevel L a u ∈ L := by
  unfold unitLevel
  by_cases h : u - a < L.length
  · right; simp [List.getD_eq_getElem?_getD, h]
  · left; simp [List.getD_eq_getElem?_getD, Nat.not_lt.1 h]

/-- shifting a fold of Spec passes by the line start -/
theorem foldl_pass_shift (L : List Nat) (a : Nat) (ks : List Nat) (U : List Nat) :
    (ks.foldl (fun order k => Spec.revRunsGE (fun i => L.getD i 0) k [] order) U).map (· + a)
      = ks.foldl (fun order k => passU (unitLevel L a) k order) (U.map (· + a)) := by
  induction ks generalizing U with
  | nil => rfl
  | cons k ks ih =>
    simp only [List.foldl_cons]
    rw [ih, revRunsGE_eq]
    congr 1
    have := revG_map (fun i => decide (L.getD i 0 ≥ k)) (fun u => decide (unitLevel L a u ≥ k))
      (· + a) (fun x => by simp [unitLevel]) [] U
    simpa [passU] using this

theorem range_map_add (n a : Nat) : (List.range n).map (· + a) = List.range' a n := by
  rw [List.range'_eq_map_range]
  apply List.map_congr_left
  intro x _; omega

/-- `Spec.l2` of the levels `L`, shifted to start at `a`, is the fold of passes for the levels
    `hi, hi-1, …, m` whenever `m` is odd, at most `hi+1`, and no odd level below `m` occurs. -/
theorem spec_l2_shift (L : List Nat) (a m : Nat) (hm : m % 2 = 1)
    (hmhi : m ≤ L.foldl max 0 + 1) (hlow : ∀ l ∈ L, l % 2 = 1 → m ≤ l) :
    (Spec.l2 L).map (· + a)
      = (List.range (L.foldl max 0 + 1 - m)).foldl
          (fun U d => passU (unitLevel L a) (L.foldl max 0 - d) U) (List.range' a L.length) := by
  generalize hhi : L.foldl max 0 = hi at hmhi
  unfold Spec.l2
  simp only [hhi]
  have hhi_mem : hi = 0 ∨ hi ∈ L := by
    have := foldl_max_mem L 0
    rw [hhi] at this
    simpa using this
  have hhi_ge : ∀ l ∈ L, l ≤ hi := by
    have := (foldl_max_ge L 0).2
    rw [hhi] at this
    exact this
  split
  · -- no odd level: everything cancels
    rename_i hodds
    have hev : ∀ l ∈ L, ¬ l % 2 = 1 := by
      intro l hl h1
      have : l ∈ L.filter (· % 2 == 1) := by simp [hl, h1]
      rw [hodds] at this
      simp at this
    have hhi_ev : hi % 2 = 0 := by
      rcases hhi_mem with h | h
      · omega
      · have := hev hi h; omega
    rw [range_map_add]
    have hj : hi + 1 - m = 2 * ((hi + 1 - m) / 2) := by omega
    have hj' : hi = m + 2 * ((hi + 1 - m) / 2) - 1 := by omega
    have := passes_cancel (unitLevel L a) m hm ((hi + 1 - m) / 2)
      (fun u h1 _ => by
        rcases unitLevel_mem L a u with h | h
        · omega
        · exact absurd h1 (hev _ h))
      (List.range' a L.length)
    rw [← hj'] at this
    rw [hj]
    exact this.symm
  · -- lowest odd level present `lo`: the passes for `lo-1, …, m` cancel
    rename_i o os hodds
    generalize hlo : os.foldl min o = lo
    have hlo_mem : lo ∈ L.filter (· % 2 == 1) := by
      rw [hodds, ← hlo]; exact foldl_min_mem os o
    have hlo_le : ∀ l ∈ L, l % 2 = 1 → lo ≤ l := by
      intro l hl h1
      have hmem : l ∈ o :: os := by rw [← hodds]; simp [hl, h1]
      have := foldl_min_le os o
      rw [hlo] at this
      rcases List.mem_cons.1 hmem with h | h
      · rw [h]; exact this.1
      · exact this.2 l h
    have hlo_L : lo ∈ L ∧ lo % 2 = 1 := by simpa using hlo_mem
    have h1 : m ≤ lo := hlow lo hlo_L.1 hlo_L.2
    have h2 : lo ≤ hi := hhi_ge lo hlo_L.1
    rw [foldl_pass_shift, range_map_add]
    unfold Spec.downFrom
    rw [List.foldl_map]
    have e : hi + 1 - m = (hi + 1 - lo) + 2 * ((lo - m) / 2) := by omega
    rw [e, List.range_add, List.foldl_append, List.foldl_map]
    generalize (List.range (hi + 1 - lo)).foldl
      (fun U d => passU (unitLevel L a) (hi - d) U) (List.range' a L.length) = U
    have := passes_cancel (unitLevel L a) m hm ((lo - m) / 2)
      (fun u hu1 _ => by
        rcases unitLevel_mem L a u with h | h
        · omega
        · have := hlo_le _ h hu1; omega)
      U
    have e3 : ∀ d, hi - (hi + 1 - lo + d) = m + 2 * ((lo - m) / 2) - 1 - d := by intro d; omega
    simp only [e3]
    exact this.symm

end UBidi.Lemmas.C05
